/* Translator input: compiled against /repo's CURRENT headers and sources on every
 * run; prints the data (constants, tables) that the Lean model is generated from. */
#include <stdio.h>
#include <stdint.h>
#include <limits.h>
#include "zck_private.h"
#include "buzhash/buzhash.h"
extern const uint32_t buzhash_table[];
int main(void) {
    printf("MAX_COMP_SIZE %zu\n", (size_t)MAX_COMP_SIZE);
    printf("BUF_SIZE %zu\n", (size_t)BUF_SIZE);
    printf("DEFAULT_BUZHASH_WIDTH %d\n", DEFAULT_BUZHASH_WIDTH);
    printf("DEFAULT_BUZHASH_BITS %d\n", DEFAULT_BUZHASH_BITS);
    printf("CHUNK_DEFAULT_MIN %d\n", CHUNK_DEFAULT_MIN);
    printf("CHUNK_DEFAULT_MAX %d\n", CHUNK_DEFAULT_MAX);
    printf("SIZEOF_SIZE_T %zu\n", sizeof(size_t));
    printf("SIZEOF_INT %zu\n", sizeof(int));
    printf("ZCK_HASH_SHA1 %d\n", ZCK_HASH_SHA1);
    printf("ZCK_HASH_SHA256 %d\n", ZCK_HASH_SHA256);
    printf("ZCK_HASH_SHA512 %d\n", ZCK_HASH_SHA512);
    printf("ZCK_HASH_SHA512_128 %d\n", ZCK_HASH_SHA512_128);
    printf("ZCK_HASH_UNKNOWN %d\n", ZCK_HASH_UNKNOWN);
    printf("ZCK_COMP_NONE %d\n", ZCK_COMP_NONE);
    printf("ZCK_COMP_ZSTD %d\n", ZCK_COMP_ZSTD);
    printf("MIN_DOWNLOAD_SIZE %d\n", zck_get_min_download_size());
    /* digest sizes as hash_setup computes them */
    for(int h = 0; h < ZCK_HASH_UNKNOWN; h++) {
        zckHashType ht = {0};
        zckCtx *z = zck_create();
        if(hash_setup(z, &ht, h)) printf("DIGEST_SIZE_%d %d\n", h, ht.digest_size);
        zck_free(&z);
    }
    printf("BUZHASH_TABLE");
    for(int i = 0; i < 256; i++) printf(" %u", buzhash_table[i]);
    printf("\n");
    return 0;
}
