/* Translator input for C18: compiled against /repo's CURRENT bundled SHA sources; prints the
 * tables, initial values and integer widths the Lean model of the bundled code is generated from.
 * LENB_TYPE_256 / LENB_TYPE_512 are the declared types of len_b found by gen.py in the source. */
#include <stdio.h>
#include <stdint.h>
#include "hash/bundled/sha2/sha2.c"
int main(void) {
    sha256_ctx c256; sha512_ctx c512;
    printf("SHA256_TOT_BITS %zu\n", 8 * sizeof(c256.tot_len));
    printf("SHA512_TOT_BITS %zu\n", 8 * sizeof(c512.tot_len));
    printf("SHA256_LENB_BITS %zu\n", 8 * sizeof(LENB_TYPE_256));
    printf("SHA512_LENB_BITS %zu\n", 8 * sizeof(LENB_TYPE_512));
    printf("SHA256_BLOCK %d\n", SHA256_BLOCK_SIZE);
    printf("SHA512_BLOCK %d\n", SHA512_BLOCK_SIZE);
    printf("SHA256_K"); for(int i = 0; i < 64; i++) printf(" %u", (unsigned)sha256_k[i]); printf("\n");
    printf("SHA256_H0"); for(int i = 0; i < 8; i++) printf(" %u", (unsigned)sha256_h0[i]); printf("\n");
    printf("SHA512_K"); for(int i = 0; i < 80; i++) printf(" %llu", (unsigned long long)sha512_k[i]); printf("\n");
    printf("SHA512_H0"); for(int i = 0; i < 8; i++) printf(" %llu", (unsigned long long)sha512_h0[i]); printf("\n");
    return 0;
}
