"""C20 — compressed-integer codec.  Generators + check driver."""
import random, itertools
import engine as E
import build as B
import os

PROP = 'C20'
MODULES = ['ZckModel.Props.C20']
ASSUMPTIONS = [
    "every caller passes compint_to_size(buf+*length, &length, max_length) with max_length = size of the buffer "
    "counted from its base (checked by reading all 17 call sites; the harness calls it the same way)",
    "sizeof(size_t)=8: the model's modulus 2^64 and MAX_COMP_SIZE=10 are generated from the headers",
]

def enc(v):
    out = []
    while True:
        d = v % 128; v //= 128
        if v == 0:
            out.append(d + 128); break
        out.append(d)
    return bytes(out)

def gen_cases(tier, seed):
    rnd = random.Random(seed)
    cases = []
    def add(op, **meta):
        cases.append(E.Case('c%d' % len(cases), op, meta))
    hx = lambda b: b.hex() if b else '-'
    # ---- encoder: boundaries, all small values, random 64-bit
    vals = set()
    top = 1 << (16 if tier == 'quick' else 21)
    step = 1 if tier == 'thorough' else 1
    for v in range(0, top if tier == 'thorough' else 1 << 14):
        vals.add(v)
    for k in range(0, 65):
        for d in (-1, 0, 1):
            v = (1 << k) + d
            if 0 <= v < (1 << 64): vals.add(v)
    for _ in range(2000 if tier == 'quick' else 20000):
        vals.add(rnd.getrandbits(rnd.choice([8, 16, 31, 32, 33, 56, 63, 64])))
    for v in sorted(vals):
        add('CI_ENC %d' % v, kind='enc')
    for v in [-1, 0, 1, 127, 128, 2**31 - 1, -2**31, 12345678]:
        add('CI_ENCINT %d' % v, kind='encint')
    # ---- round trips: encoding placed at an offset, buffer ends right after it or later
    for v in sorted(vals)[:: (7 if tier == 'quick' else 3)]:
        e = enc(v)
        pre = rnd.randrange(0, 4); post = rnd.choice([0, 0, 1, 5])
        buf = bytes(rnd.getrandbits(8) for _ in range(pre)) + e + bytes(rnd.getrandbits(8) for _ in range(post))
        add('CI_DEC %s %d %d' % (hx(buf), pre, len(buf)), kind='roundtrip')
        if v < 2**33:
            add('CI_DECINT %s %d %d' % (hx(buf), pre, len(buf)), kind='roundtrip-int')
    # ---- decoder: all byte strings of length <= 2 at every cursor/limit (exhaustive), length 3 sampled/exhaustive
    for L in (0, 1, 2):
        for bs in itertools.product(range(256), repeat=L):
            b = bytes(bs)
            for pos in range(0, L + 1):
                for ml in range(pos, L + 1) if tier == 'thorough' else (L,):
                    add('CI_DEC %s %d %d' % (hx(b), pos, ml), kind='short%d' % L)
    n3 = 60000 if tier == 'quick' else 600000
    for _ in range(n3):
        b = bytes([rnd.choice([0, 1, 0x7f, 0x80, 0x81, 0xff, rnd.getrandbits(8)]) for _ in range(3)])
        pos = rnd.randrange(0, 4); ml = rnd.choice([3, 3, 3, max(pos, rnd.randrange(0, 4))])
        op = rnd.choice(['CI_DEC', 'CI_DEC', 'CI_DECINT'])
        add('%s %s %d %d' % (op, hx(b), pos, ml), kind='short3')
    # ---- tails: length 8..11, every value in the last positions (sampled in quick), flush against the guard page
    tailvals = [0, 1, 2, 3, 0x3f, 0x40, 0x7e, 0x7f, 0x80, 0x81, 0x82, 0x83, 0xbf, 0xc0, 0xfe, 0xff]
    for L in (8, 9, 10, 11):
        for fill in (0x00, 0x7f, 0x01):
            combos = itertools.product(range(256) if tier == 'thorough' else tailvals, tailvals, tailvals)
            for a, b2, c in combos:
                b = bytes([fill] * (L - 3) + [c, b2, a])
                for pos in (0, 1, L - 1, L) if tier == 'quick' else range(0, L + 1, 1 if a in tailvals else L):
                    add('CI_DEC %s %d %d' % (hx(b), pos, L), kind='tail%d' % L)
                if fill == 0 and a in tailvals:
                    add('CI_DECINT %s %d %d' % (hx(b), 0, L), kind='tail-int')
    # ---- int boundaries
    for v in [2**31 - 1, 2**31, 2**31 + 1, 2**32 - 1, 2**32, 2**32 + 5, 2**63, 2**64 - 1]:
        e = enc(v)
        add('CI_DECINT %s 0 %d' % (hx(e), len(e)), kind='int-boundary')
        add('CI_DEC %s 0 %d' % (hx(e), len(e)), kind='int-boundary')
    # ---- limits shorter than the buffer (max_length < allocation) and cursor beyond limit
    for _ in range(3000 if tier == 'quick' else 30000):
        L = rnd.randrange(1, 14)
        b = bytes(rnd.choice([0, 0x7f, 0x80, 0x81, rnd.getrandbits(8)]) for _ in range(L))
        ml = rnd.randrange(0, L + 1); pos = rnd.randrange(0, L + 1)
        add('%s %s %d %d' % (rnd.choice(['CI_DEC', 'CI_DECINT']), hx(b), pos, ml), kind='limits')
    return cases

def nontrivial(r):
    return True

def run(tier, seed, replay=None):
    t0 = E.now()
    E.regenerate()
    proof = E.prove(MODULES)
    if tier == 'thorough' and proof['ok']:
        ok, out = E.leanchecker(MODULES)
        proof['leanchecker'] = out
        if not ok:
            proof['ok'] = False; proof['broken'].append('leanchecker: ' + '; '.join(out))
    drv_ok, drv_log = E.build_driver()
    zdrv = B.build_exe(os.path.join(E.VERIF, 'harness', 'zdrv.c'), 'zdrv', variant='plain',
                       extra_flags=['-I' + os.path.join(E.VERIF, 'harness')])
    if replay:
        import json
        rp = json.load(open(replay))
        cases = []
        for line in rp.get('ops', []):
            i, _, op = line.partition(' ')
            cases.append(E.Case(i, op))
    else:
        cases = gen_cases(tier, seed)
    work = os.path.join(E.VERIF, '.cache', 'work-%s-%d' % (PROP, os.getpid()))
    errs = []
    if not drv_ok:
        errs.append('driver build failed: ' + drv_log[-300:])
    recs, e2 = E.differential(cases, zdrv, work)
    errs += e2
    import shutil; shutil.rmtree(work, ignore_errors=True)
    dist = {}
    for r in recs:
        k = r['meta'].get('kind', '?') + ':' + r['impl'].split(' ')[0]
        dist[k] = dist.get(k, 0) + 1
    samples = [dict(op=r['op'], impl=r['impl'], model=r['model']) for r in recs[:: max(1, len(recs) // 12)]][:12]
    rule = ("ops generated from one PRNG (VERIF_SEED): encoder on all values below 2^14 (quick) / 2^21 (thorough), every 2^k and 2^k±1, "
            "random 64-bit; decoder on ALL byte strings of length <=2 at every cursor (and every limit in thorough), sampled 3-byte strings, "
            "8..11-byte strings with boundary values in the last three positions, each buffer placed flush against a PROT_NONE page; "
            "a case is distinct by its op line; all are non-trivial (each exercises the codec on a different input)")
    return E.finish(PROP, tier, seed, t0, proof, recs, errs, E.load_known(PROP), rule, samples, dist,
                    ASSUMPTIONS, nontrivial=nontrivial)
