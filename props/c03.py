"""C03 — memory safety and termination on arbitrary file input (library calls and tools under ASan+UBSan)."""
import random, os, subprocess
import engine as E
import build as B
import zcklib as Z
from props import hdrgen, filegen as FG

PROP = 'C03'
MODULES = ['ZckModel.Props.C03']
ASSUMPTIONS = [
    "PARTIAL: the theorems prove absence of out-of-bounds reads (and totality) for the MODEL of the header/index parser only; heap lifetime "
    "errors, UB inside libzstd/OpenSSL and everything in unmodelled code are only SEARCHED by running the real code under ASan+UBSan",
    "ASAN_OPTIONS=allocator_may_return_null=1 so that absurd declared sizes exercise the out-of-memory paths",
]

def gen_cases(tier, seed, ctx):
    rnd = random.Random(seed)
    cases = []
    files = []
    def addfile(kind, b):
        p = FG.write(ctx, 'x%d.zck' % len(files), b)
        zt = FG.ztab(b, p + '.ztab')
        files.append((kind, p, zt, b))
    for name, z in hdrgen.sample_files(rnd):
        b = z.build()
        addfile('valid', b)
        for kind, m in hdrgen.field_mutants(rnd, z, limit=30 if tier == 'quick' else 300):
            # declared uncompressed sizes between 256 MiB and 1 TiB are real (slow, machine-dependent) allocations,
            # not parser states: left out so that a slow calloc is never mistaken for a hang
            if kind.startswith('len[') and '=' in kind and (1 << 28) <= int(kind.split('=')[1]) < (1 << 40): continue
            addfile('resealed-' + kind.split('=')[0].split('[')[0].split('@')[0], m)
        for kind, m in hdrgen.raw_mutants(rnd, b, len(z.header()), 6 if tier == 'quick' else 60):
            addfile(kind, m)
    for tag, z in FG.valid_files(rnd, sizes=(2,)):
        b = z.build()
        for _ in range(6 if tier == 'quick' else 40):
            pos = rnd.randrange(len(b)); m = bytearray(b); m[pos] ^= 1 << rnd.randrange(8)
            addfile('bitflip', bytes(m))
        for cut in sorted(set(rnd.randrange(len(b)) for _ in range(5))):
            addfile('truncate', b[:cut])
    # a dictionary chunk that is a valid frame with the right checksums, whose content carries the zstd dictionary magic but is
    # not a dictionary (ZSTD_createDDict fails AFTER the buffer was handed to the compression context)
    for k, extra in enumerate((4, 60, 300) if tier == 'quick' else (4, 8, 60, 300, 5000)):
        zd = b'\x37\xa4\x30\xec' + rnd.randbytes(extra)
        z = Z.make([FG.text(rnd, 300), FG.text(rnd, 200)], comp='zstd', full=1, chunk=1 + k % 3)
        st = Z.zcompress(zd, 3, None)
        z.chunks[0] = dict(digest=Z.H(z.chunk_hash_type, st), udigest=Z.H(z.chunk_hash_type, zd), comp_len=len(st), len=len(zd), stored=st, plain=zd)
        addfile('bad-zstd-dict', z.finish().build())
    ctx['files'] = files
    scripts = [('META', '{p}'), ('READSEQ', '{p} 7,4096 {z}'), ('SCAN', '{p} vdfrc {z}'), ('CHUNKSEQ', '{p} 0,1,0c,2,1c,0 {z}'),
               ('SCAN', '{p} rvc {z}'), ('READSEQ', '{p} 100000 {z}')]
    for kind, p, zt, b in files:
        # headers declaring huge sizes get every script in both tiers (loops bounded by declared sizes must still end)
        huge = kind in ('resealed-sum-boundary', 'resealed-comp_len', 'resealed-len', 'bad-zstd-dict')
        for op, args in (scripts if (tier == 'thorough' or huge) else rnd.sample(scripts, 3)):
            cases.append(E.Case('x%d' % len(cases), '%s %s' % (op, args.format(p=p, z=zt)), dict(kind=kind, variant='asan')))
    # the advanced API with the header length announced late (after zck_read_lead): buffer sizes must not depend on WHEN an option came
    for i, (kind, p, zt, b) in enumerate(files):
        for v in (['hl'] + (['0', '-1', str(len(b))] if i % 5 == 0 else [])):
            cases.append(E.Case('x%d' % len(cases), 'OPENLATE %s %s' % (p, v), dict(kind=kind, variant='asan')))
    return cases

def post(recs, ctx):
    """the command-line tools, built with ASan+UBSan from the working tree, on the same files"""
    # C03 judges safety only: a library op fails the property iff it crashed, tripped a sanitizer or hung
    for r in recs:
        bad = r['impl'].split(' ')[0] in ('CRASH', 'HANG', 'MISSING')
        r['prop'] = not bad
        if bad: r['sig'] = 'C03/library-crash'
    tdir = B.build_tools(variant='asan')
    env = dict(os.environ, ASAN_OPTIONS='allocator_may_return_null=1:detect_leaks=0:exitcode=99',
               UBSAN_OPTIONS='halt_on_error=1:exitcode=98:print_stacktrace=1')
    files = ctx.get('files')
    if not files: return          # replay of a single library op
    valid = [p for k, p, z, b in files if k == 'valid'][0]
    rnd = random.Random(ctx['seed'])
    sample = files if ctx['tier'] == 'thorough' else rnd.sample(files, min(len(files), 400))
    jobs = []
    for kind, p, zt, b in sample:
        jobs.append((kind, ['zck_read_header', '-c', p]))
        jobs.append((kind, ['unzck', '-c', p]))
        jobs.append((kind, ['zck_delta_size', p, valid]))
        jobs.append((kind, ['zck_delta_size', valid, p]))
        jobs.append((kind, ['unzck', '--dict', '-c', p]))
    from concurrent.futures import ThreadPoolExecutor
    def one(j):
        kind, cmd = j
        try:
            r = subprocess.run([os.path.join(tdir, cmd[0])] + cmd[1:], capture_output=True, env=env, timeout=30)
            rc = r.returncode
            bad = rc < 0 or rc in (98, 99)
            return kind, cmd, ('CRASH rc=%d %s' % (rc, r.stderr[-300:].decode('latin1').replace('\n', ' ')[:200])) if bad else 'OK rc=%d' % (0 if rc == 0 else 1), bad
        except subprocess.TimeoutExpired:
            # a HANG is a verdict only if it is reproducible (the machine may have been busy): once more, with four times the limit
            try:
                r = subprocess.run([os.path.join(tdir, cmd[0])] + cmd[1:], capture_output=True, env=env, timeout=120)
                rc = r.returncode
                bad = rc < 0 or rc in (98, 99)
                return kind, cmd, ('CRASH rc=%d %s' % (rc, r.stderr[-300:].decode('latin1').replace('\n', ' ')[:200])) if bad else 'OK rc=%d' % (0 if rc == 0 else 1), bad
            except subprocess.TimeoutExpired:
                return kind, cmd, 'HANG', True
    with ThreadPoolExecutor(16) as ex:
        rs = list(ex.map(one, jobs))
    for i, (kind, cmd, res, bad) in enumerate(rs):
        recs.append(dict(id='tool%d' % i, op='TOOL ' + ' '.join(cmd), impl=res, model='OK' if not bad else 'OK (safe)', prop=not bad,
                         agree=not bad, sig='C03/tool-crash' if bad else '', meta=dict(kind='tool-' + kind)))

def nontrivial(r):
    return not r['meta'].get('kind', '').endswith('valid')

def run(tier, seed, replay=None):
    rule = ("library ops META / READSEQ / SCAN / CHUNKSEQ / OPENLATE (header length announced between zck_read_lead and zck_read_header) on the real sources built with -fsanitize=address,undefined, each in a forked "
            "child with a timeout, on ~60 valid files and their RE-SEALED field mutants (every length/count field at boundary values, "
            "optional-element sizes incl. wrapping ones, count mismatches, sizes pointing at/over the end), raw and re-sealed byte edits, "
            "bit flips and truncations, dictionary chunks that carry the zstd dictionary magic without being one; plus the ASan-built tools zck_read_header, unzck (-c, --dict), zck_delta_size on the same files. "
            "A crash, sanitizer report or timeout is a violation; results must also equal the Lean model's")
    return E.standard_run(PROP, MODULES, gen_cases, tier, seed, replay, ASSUMPTIONS, rule, nontrivial=nontrivial, timeout_s=30,
                          post=post, variant='asan')
