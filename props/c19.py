"""C19 — independent contexts do not interfere when used from different threads (PARTIAL)."""
import random, os, glob
import engine as E

PROP = 'C19'
MODULES = ['ZckModel.Props.C19']
ASSUMPTIONS = [
    "PARTIAL: proved (1) on the storage footprint regenerated from this run's library objects (objdump -t, both hash back ends), every "
    "process-wide writable object is either logging configuration or never written outside its initialiser; (2) operations that do not "
    "write shared storage give each thread, under EVERY interleaving, exactly its serial results.  Races through heap objects wrongly "
    "shared between contexts, and the internals of libc / OpenSSL / zstd, are not in the model: they are searched with ThreadSanitizer "
    "runs of the real library (THREADS op), not proved",
    "premise of the property: logging is configured once before the threads start and not changed afterwards; each thread uses its own "
    "zckCtx / zckDL / zckRange objects and its own files",
    "gen/gen.py statics_extract: section flags from objdump and a textual scan for writes (assignment, ++/--, address taken, passed to a "
    "function as a whole) are trusted; the scan errs towards 'written'",
]

def gen_cases(tier, seed, ctx):
    rnd = random.Random(seed)
    cases = []
    cfgs = [(2, 3), (4, 3), (8, 2), (16, 1), (3, 4), (6, 2)] if tier == 'quick' else [(2, 6), (4, 6), (8, 4), (16, 3), (3, 8), (6, 5), (12, 3), (5, 6)]
    reps = 4 if tier == 'quick' else 12
    for nt, rounds in cfgs:
        for k in range(reps):
            lm = ['fd', 'cb', 'off'][k % 3]
            s = rnd.randrange(1, 10**6)
            w = os.path.join(ctx['work'], 'th%d' % len(cases))
            cases.append(E.Case('t%d' % len(cases), 'THREADS %s %d %d %d %s' % (w, nt, rounds, s, lm),
                                dict(kind='threads-%d-%s' % (nt, lm), variant='tsan')))
    # the same workloads without ThreadSanitizer (different timing: real parallel speed)
    for nt, rounds in cfgs[:4]:
        for k in range(reps):
            s = rnd.randrange(1, 10**6)
            w = os.path.join(ctx['work'], 'pl%d' % len(cases))
            cases.append(E.Case('t%d' % len(cases), 'THREADS %s %d %d %d %s' % (w, nt, rounds * 2, s, ['fd', 'cb', 'off'][k % 3]),
                                dict(kind='threads-plain-%d' % nt, variant='plain')))
    # ... and with the bundled checksum code (the OpenSSL build never runs it): hash-heavy rounds, many threads
    for nt, rounds in ((8, 3), (16, 2), (4, 4)) if tier == 'quick' else ((8, 6), (16, 4), (4, 8), (12, 4)):
        for k in range(2 if tier == 'quick' else 6):
            s = rnd.randrange(1, 10**6)
            w = os.path.join(ctx['work'], 'bd%d' % len(cases))
            cases.append(E.Case('t%d' % len(cases), 'THREADS %s %d %d %d %s' % (w, nt, rounds, s, ['off', 'cb'][k % 2]),
                                dict(kind='threads-bundled-%d' % nt, variant='bundled')))
    return cases

def project(impl, case):
    return impl.split(' ')[0]

def post(recs, ctx):
    # attach ThreadSanitizer's report to the failing cases
    logs = sorted(glob.glob(os.path.join(ctx['work'], 'tsan.*')))
    txt = ''.join(open(p, errors='replace').read()[:6000] for p in logs[:3])
    for r in recs:
        if r['impl'].startswith('CRASH') and txt:
            r['meta'] = dict(r['meta'], tsan_report=txt[:8000])

def classify(r):
    return None

def run(tier, seed, replay=None):
    rule = ("THREADS: 2..16 threads, each running 1..8 rounds of a seeded workload on its own contexts and files (write a file with random "
            "hash types / compression / dictionary / chunking, read it back, names of unknown hash and compression types, validation of the "
            "file / a damaged copy / a truncated copy with the error text, chunk-wise access in scrambled order, copy of shared chunks into "
            "a second file with missing-range computation and a zckDL object on which the download of the missing extents is then RUN (a multipart response with the thread's own boundary string, fed through zck_header_cb / zck_write_chunk_cb in pieces), range strings), logging to an fd / a callback / off; the same "
            "workloads are then run serially and the per-operation results compared by the model's interleaving semantics; ThreadSanitizer "
            "build (data races end the case), plain build and the build with the bundled checksum code; distinct by (threads, rounds, seed, log mode)")
    work_env = {'TSAN_OPTIONS': 'exitcode=66 halt_on_error=1 second_deadlock_stack=1 log_path=%s' % os.path.join(E.VERIF, '.cache', 'tsan-c19')}
    def gc(tier, seed, ctx):
        work_env['TSAN_OPTIONS'] = 'exitcode=66 halt_on_error=1 log_path=%s' % os.path.join(ctx['work'], 'tsan')
        return gen_cases(tier, seed, ctx)
    return E.standard_run(PROP, MODULES, gc, tier, seed, replay, ASSUMPTIONS, rule, timeout_s=300, project=project, post=post, env=work_env)
