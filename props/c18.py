"""C18 — checksum backends are interchangeable (bundled SHA code vs OpenSSL vs the FIPS spec in Lean)."""
import random, hashlib, os
import engine as E

PROP = 'C18'
MODULES = ['ZckModel.Props.C18']
ASSUMPTIONS = [
    "OpenSSL's EVP digests are a trusted external: compared with the Lean FIPS specification and the bundled code on the explored messages only",
    "SHA-1 in the bundled build: the model of SHA1_Update/SHA1_Final is executable and corresponded, its equality with the spec is NOT proved (only SHA-256/512/512-128 are)",
    "a single hash_update call is shorter than 2^32 bytes (the bundled update functions take an unsigned int length)",
    "messages of 2^29 bytes and more are compared between the two C builds and Python's hashlib only (the Lean driver does not hash them)",
]
HL = {0: hashlib.sha1, 1: hashlib.sha256, 2: hashlib.sha512, 3: lambda b=b'': _Trunc(b)}
class _Trunc:
    def __init__(self, b=b''): self.h = hashlib.sha512(b)
    def update(self, b): self.h.update(b)
    def hexdigest(self): return self.h.hexdigest()[:32]

def hx(b): return b.hex() if b else '-'

def split(rnd, msg, mode):
    if mode == 0 or len(msg) < 2: return [msg]
    if mode == 1:
        k = rnd.randrange(1, min(len(msg), 4) + 1)
        cuts = sorted(rnd.randrange(0, len(msg) + 1) for _ in range(k))
    else:
        cuts = [1] + sorted(rnd.randrange(1, len(msg) + 1) for _ in range(rnd.randrange(0, 6)))
    segs = []; prev = 0
    for c in cuts + [len(msg)]:
        segs.append(msg[prev:c]); prev = c
    return [s for s in segs if s] or [msg]

def gen_cases(tier, seed, ctx):
    rnd = random.Random(seed)
    cases = []
    def add(op, t, segs, kind):
        line = '%s %d %s' % (op, t, '|'.join(hx(s) for s in segs))
        cases.append(E.Case('h%d' % len(cases), line, dict(kind=kind, variant='bundled' if op == 'HASH' else 'plain',
                                                           t=t, msg=b''.join(segs))))
    for t in (0, 1, 2, 3):
        blk = 128 if t >= 2 else 64
        top = 4 * blk + 2
        for L in range(0, top):
            msg = bytes(rnd.getrandbits(8) for _ in range(L))
            for mode in (0, 1, 2) if (tier == 'thorough' or L % 4 == 0 or L % blk in (0, 1, blk - 1, blk - 9, blk - 8, blk - 17, blk - 16, blk - 10, blk - 18)) else (rnd.randrange(3),):
                segs = split(rnd, msg, mode)
                add('HASH', t, segs, 'exhaustive-len')
                add('HASHO', t, segs, 'exhaustive-len')
        for _ in range(12 if tier == 'quick' else 120):
            L = rnd.choice([1000, 4095, 4096, 32768, 65537, rnd.randrange(1, 150000)])
            msg = rnd.randbytes(L)
            k = rnd.randrange(1, 40)
            cuts = sorted(rnd.randrange(0, L + 1) for _ in range(k))
            segs = []; prev = 0
            for c in cuts + [L]:
                if c > prev: segs.append(msg[prev:c]); prev = c
            add('HASH', t, segs, 'random-long'); add('HASHO', t, segs, 'random-long')
    # sequences through ONE hash-type / hash object, as the library re-uses them when a hash type option is set after the context was
    # initialised: every digest must be that of its own message under its own type, whatever was set up (and left unfinished) before
    for _ in range(60 if tier == 'quick' else 600):
        items = []
        for _ in range(rnd.randrange(2, 6)):
            t = rnd.randrange(4)
            if rnd.random() < 0.3: items.append('%d:!' % t)
            else:
                msg = rnd.randbytes(rnd.choice([0, 1, 55, 56, 64, 111, 112, 128, 300]))
                items.append('%d:%s' % (t, '|'.join(hx(x) for x in split(rnd, msg, rnd.randrange(3)))))
        for op, v in (('HASHSEQ', 'bundled'), ('HASHSEQO', 'plain')):
            cases.append(E.Case('h%d' % len(cases), '%s %s' % (op, ';'.join(items)), dict(kind='type-sequence', variant=v)))
    # messages around 2^29 bytes (where a 32-bit bit counter wraps) and 2^32: both C builds vs hashlib
    blockfile = mkblock(ctx, seed)
    if tier == 'quick' and ctx['proof']['ok']:
        bigs = [(1, 511, (1 << 20) - 1)] + [(t, 512, 0) for t in (0, 1, 2, 3)]       # 2^29 bytes: every type keeps its own length counter
    else:   # thorough tier, or the search for a failing input after a broken proof obligation
        bigs = [(t, r, tl) for t in (0, 1, 2, 3) for (r, tl) in ((511, (1 << 20) - 1), (512, 0), (512, 1))]
        if tier == 'thorough':
            bigs += [(t, 4096, 5) for t in (0, 1, 2, 3)]
    for t, reps, tail in bigs:
        for v in ('bundled', 'plain'):
            cases.append(E.Case('h%d' % len(cases), 'HASHBIG %d %s %d %d %d' % (t, blockfile, reps, tail, 1 << 22),
                                dict(kind='big', variant=v, t=t, reps=reps, tail=tail)))
    return cases

def mkblock(ctx, seed):
    """the 1 MiB block HASHBIG repeats; a function of the seed so that a replay can rebuild it"""
    blockfile = os.path.join(ctx['work'], 'block.bin')
    ctx['block'] = random.Random(seed * 7919 + 1).randbytes(1 << 20)
    open(blockfile, 'wb').write(ctx['block'])
    return blockfile

def replay_setup(ctx, rp):
    mkblock(ctx, int(rp.get('seed', 1)))

def post(recs, ctx):
    """HASHBIG is judged here: digest must equal hashlib's (an implementation independent of zchunk)."""
    cache = {}
    for r in recs:
        m = r['meta']
        if m.get('kind') != 'big': continue
        key = (m['t'], m['reps'], m['tail'])
        if key not in cache:
            h = HL[m['t']]() if m['t'] != 3 else _Trunc()
            for _ in range(m['reps']): h.update(ctx['block'])
            h.update(ctx['block'][:m['tail']])
            cache[key] = h.hexdigest()
        r['model'] = 'OK ' + cache[key]        # reference digest stands in for the model on these ops
        r['agree'] = (r['impl'] == r['model'])
        r['prop'] = r['agree']
        if not r['agree']:
            r['sig'] = 'C18/big-message/%s-build' % m['variant']
        m.pop('msg', None)
    for r in recs:
        r['meta'].pop('msg', None)

def nontrivial(r):
    return True

def run(tier, seed, replay=None):
    rule = ("HASH (bundled build) and HASHO (OpenSSL build) on the same inputs, each compared with the Lean model/spec: message lengths "
            "0..4 blocks+1 for all four digest types (every length; three segmentations at block/padding boundaries, all lengths x 3 in "
            "thorough), random messages up to 150 kB in up to 40 update calls; HASHSEQ/HASHSEQO: 2-5 digests of differing types through one re-used type/hash object incl. unfinished ones; HASHBIG: 2^29-1 (SHA-256) and 2^29 (all four types; +1 and 2^32+5 in thorough) byte messages "
            "through both C builds against hashlib; distinct by op line + build")
    return E.standard_run(PROP, MODULES, gen_cases, tier, seed, replay, ASSUMPTIONS, rule, post=post, nontrivial=nontrivial,
                          timeout_s=120, replay_setup=replay_setup)
