"""C16 — chunking is deterministic, content-defined and local."""
import random, os
import engine as E
from props import filegen as FG, writegen as WG

PROP = 'C16'
MODULES = ['ZckModel.Props.C16', 'ZckModel.Props.C16Term']
ASSUMPTIONS = [
    "ZSTD_compress2 with fixed level/strategy is deterministic for one libzstd build (byte identity of zstd outputs is CHECKED on the real "
    "output across segmentations and repeated runs, not proved)",
    "the model covers chunk structure (which bytes go to which chunk); stored bytes and header are functions of that and the configuration",
]

def edits(rnd, data):
    """(name, edited content)"""
    n = len(data)
    out = []
    for frac in (0.02, 0.35, 0.7, 0.97):
        p = int(n * frac)
        out.append(('insert@%d%%' % int(frac * 100), data[:p] + b'INSERTED-BYTES' + data[p:]))
        out.append(('delete@%d%%' % int(frac * 100), data[:p] + data[p + 10:]))
        out.append(('replace@%d%%' % int(frac * 100), data[:p] + bytes([data[p] ^ 0x55]) + data[p + 1:]))
    out.append(('append', data + b'tail-bytes'))
    out.append(('prepend', b'head' + data))
    return out

def gen_cases(tier, seed, ctx):
    rnd = random.Random(seed)
    cases = []
    C = WG.contents(rnd, tier)
    def add(out, cfg, ops, **meta):
        i = len(cases)
        p = os.path.join(ctx['work'], 'w%d.zck' % i)
        cases.append(E.Case('w%d' % i, 'WRITE %s %s %s' % (p, cfg, ops), meta))
    cfgs = [
        ('none-auto', dict(comp='none')), ('zstd-auto', dict(comp='zstd', level=3)),
        ('zstd-dict-auto', dict(comp='zstd', level=3, dict=FG.text(rnd, 200).hex())),
        ('none-auto-20k', dict(comp='none', min=1, max=20000)),
        ('none-auto-min100k', dict(comp='none', min=100000, max=140000)),
        ('none-auto-max5000', dict(comp='none', min=1, max=5000)),
        ('none-auto-min200k', dict(comp='none', min=200000, max=300000)),
        ('zstd-auto-uncomp', dict(comp='zstd', level=1, uncomp=1, chunk=1)),
    ]
    names = ['text', 'random', 'zeros', 'mid', 'small', 'one', 'empty', 'repeat'] if tier == 'thorough' else ['text', 'random', 'zeros', 'mid', 'small', 'one', 'empty']
    for cname, cfg in cfgs:
        cs = WG.cfg_str(**cfg)
        for dn in names:
            data = C[dn]
            if cname != 'none-auto' and dn in ('small', 'one', 'empty') and tier == 'quick': continue
            for sname, ops in WG.segmentations(rnd, data):
                if tier == 'quick' and cname not in ('none-auto', 'zstd-auto', 'none-auto-20k') and sname not in ('one-write', 'random-20'): continue
                add(None, cs, ops, kind='segmentation', group=(cname, dn), seg=sname, size=len(data))
            # repeated run of the same op line (run-to-run variation)
            if dn in ('text', 'mid'):
                add(None, cs, WG.segmentations(rnd, data)[0][1], kind='repeat-run', group=(cname, dn), seg='one-write-again', size=len(data))
    # a boundary a few bytes behind the automatic minimum size, with write calls that end just below that size (a chunker that
    # stops looking at bytes "that cannot end a chunk anyway" loses the rolling window there)
    for k in range(2 if tier == 'quick' else 8):
        data, first = WG.content_with_boundary_near_min(rnd)
        if data is None: continue
        for cname, cfg in cfgs[:2]:
            cs = WG.cfg_str(**cfg)
            segs = WG.segmentations(rnd, data)
            for cut in (8190, 8192 - 30, 8191, 4096):
                segs.append(('cut-%d' % cut, 'w' + data[:cut].hex() + '|w' + data[cut:].hex()))
            segs.append(('8190-then-bytes', 'w' + data[:8190].hex() + '|' + '|'.join('w%02x' % b for b in data[8190:8300]) + '|w' + data[8300:].hex()))
            for sname, ops in segs:
                add(None, cs, ops, kind='segmentation', group=(cname, 'nearmin%d' % k), seg=sname, size=len(data), first=first)
    # edits: per-chunk lists compared as the property states
    for cname, cfg in cfgs[:4] if tier == 'quick' else cfgs:
        cs = WG.cfg_str(**cfg)
        for dn in ('text', 'random'):
            base = C[dn]
            add(None, cs, 'w' + base.hex(), kind='edit-base', pair=(cname, dn), content_id=dn, size=len(base))
            for en, ed in edits(rnd, base):
                add(None, cs, 'w' + ed.hex(), kind='edit', pair=(cname, dn), edit=en, size=len(ed))
    ctx['contents'] = C
    return cases

def unhex_ops(op):
    """content of a WRITE op line"""
    ops = op.split(' ')[3]
    return b''.join(bytes.fromhex(t[1:]) for t in ops.split('|') if t.startswith('w'))

def post(recs, ctx):
    # (1) same content, same configuration, different segmentation / repeated run  =>  byte-identical file
    groups = {}
    for r in recs:
        if r['meta'].get('kind') in ('segmentation', 'repeat-run') and r['impl'].startswith('OK'):
            groups.setdefault(r['meta']['group'], []).append(r)
    for g, rs in groups.items():
        hs = {WG.parse_out(r['impl']).get('fh') for r in rs}
        if len(hs) > 1:
            for r in rs:
                r['prop'] = False; r['sig'] = 'C16/segmentation-dependence'
    # (2) locality under edits
    pairs = {}
    for r in recs:
        if r['meta'].get('kind') in ('edit-base', 'edit') and r['impl'].startswith('OK'):
            pairs.setdefault(r['meta']['pair'], []).append(r)
    for pr, rs in pairs.items():
        base = [r for r in rs if r['meta']['kind'] == 'edit-base']
        if not base: continue
        A = unhex_ops(base[0]['op']); ca = WG.chunk_list(WG.parse_out(base[0]['impl']))
        for r in rs:
            if r['meta']['kind'] != 'edit': continue
            B = unhex_ops(r['op']); cb = WG.chunk_list(WG.parse_out(r['impl']))
            p = 0
            while p < min(len(A), len(B)) and A[p] == B[p]: p += 1
            q = 0
            while q < min(len(A), len(B)) - p and A[len(A) - 1 - q] == B[len(B) - 1 - q]: q += 1
            ok = True
            # prefix: chunks ending strictly before the first differing byte are identical
            off = 0
            for i, c in enumerate(ca):
                off += c[2]
                if off < p:
                    if i >= len(cb) or cb[i] != c: ok = False
            # suffix: once both start a chunk at the same point of the shared suffix, all following chunks are identical
            sa = []; o = 0
            for c in ca: sa.append(o); o += c[2]
            sb = []; o = 0
            for c in cb: sb.append(o); o += c[2]
            for i, s in enumerate(sa):
                if s >= len(A) - q:
                    t = s - len(A) + len(B)
                    if t in sb:
                        j = sb.index(t)
                        if ca[i:] != cb[j:]: ok = False
                        break
            if not ok:
                r['prop'] = False; r['sig'] = 'C16/non-local-chunking'
            r['meta']['shared_prefix'] = p; r['meta']['shared_suffix'] = q
    for r in recs:
        r['meta'].pop('group', None); r['meta'].pop('pair', None)

def nontrivial(r):
    return r['meta'].get('size', 0) > 0

def run(tier, seed, replay=None):
    rule = ("WRITE through the real zck_write/zck_end_chunk/zck_close: contents (text, random, zeros, repetitive, 40 kB, small, 1 byte, empty) x "
            "configurations (none/zstd, dictionary, uncompressed-source flag, chunk min/max incl. values that used to hang) x segmentations "
            "(one write, 1-byte writes, 20 random cuts, 32 KiB and 4099-byte blocks, a repeated run; plus contents constructed so that a boundary "
            "lies 1..40 bytes behind the automatic minimum size, written with calls ending just below that size): files of one group must be "
            "byte-identical; chunk sizes are compared with the Lean chunker model; edits (insert/delete/replace at 2/35/70/97 %, append, "
            "prepend): per-chunk (digest, stored size, size) lists compared for prefix locality and suffix resynchronisation")
    return E.standard_run(PROP, MODULES, gen_cases, tier, seed, replay, ASSUMPTIONS, rule, nontrivial=nontrivial, timeout_s=15,
                          post=post, project=WG.project)
