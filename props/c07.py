"""C07 — pinned header validation accepts exactly the authenticated header."""
import random, os
import engine as E
import zcklib as Z
from props import hdrgen

PROP = 'C07'
MODULES = ['ZckModel.Props.C07']
ASSUMPTIONS = [
    "the OPEN op sets the type and digest pins in the stated order, then the length, then (optionally) zck_validate_lead, "
    "then zck_read_lead and zck_read_header; it stops at the first call that fails",
    "hash collisions are not assumed away (see C06)",
]

def hx(b): return b.hex() if b else 'e'

def gen_cases(tier, seed, ctx):
    rnd = random.Random(seed)
    cases = []
    def add(p, t, d, n, order='td', vl=0, kind='?'):
        cases.append(E.Case('p%d' % len(cases), 'OPEN %s %s %s %s %s %d' % (
            p, '-' if t is None else t, '-' if d is None else hx(d), '-' if n is None else n, order, vl), dict(kind=kind)))
    files = []
    for ft in (0, 1, 2, 3):
        z = Z.make([b'hello world ' * 3, b'second chunk'], comp='none' if ft % 2 else 'zstd', full=ft, chunk=1 if ft == 2 else 3)
        files.append(z)
    files.append(Z.make([b'x' * 50], comp='zstd', full=1, chunk=1, uncomp=True, detached=True))
    for k, z in enumerate(files):
        b = z.build()
        p = os.path.join(ctx['work'], 'pin%d.zck' % k)
        open(p, 'wb').write(b)
        pr = Z.parse(b)
        ht, dg, total = pr['hash_type'], pr['header_digest'], pr['lead'] + pr['header_len']
        good = dg.hex().encode()
        # correct pins, every subset, both orders, with and without validate-lead
        for t in (None, ht):
            for d in (None, good, good.upper(), bytes(c ^ 0x20 if 97 <= c <= 102 and i % 2 else c for i, c in enumerate(good))):
                for n in (None, total):
                    for order in ('td', 'dt'):
                        for vl in (0, 1):
                            add(p, t, d, n, order, vl, 'correct-pins')
        # (pinned, actual) combinations
        for t in range(-1, 7):
            add(p, t, None, None, kind='type'); add(p, t, good, None, kind='type+digest'); add(p, t, good, total, 'td', 1, kind='type+digest')
        for n in (-1, 0, 1, total - 1, total + 1, total, 2**31, 2**63 - 1):
            add(p, ht, good, n, kind='length'); add(p, None, None, n, kind='length'); add(p, None, None, n, 'td', 1, kind='length')
        # wrong-but-hex digests: every nibble changed, lengths off by one / two, other type's length
        for i in range(len(good)):
            alt = good[:i] + (b'0' if good[i:i+1] != b'0' else b'1') + good[i+1:]
            add(p, ht, alt, None, kind='wrong-hex-digit')
        for dlen in (0, 1, len(good) - 2, len(good) - 1, len(good) + 1, len(good) + 2, 32, 40, 64, 128):
            add(p, ht, (good * 3)[:dlen], None, kind='digest-length')
        # ALL 256 byte values at every position of the digest string (exhaustive for the first files, sampled positions later)
        positions = range(len(good)) if (k < 2 or tier == 'thorough') else rnd.sample(range(len(good)), 6)
        for i in positions:
            for v in range(256):
                s = good[:i] + bytes([v]) + good[i+1:]
                add(p, ht, s, None, kind='byte-value-sweep')
    # the digest pin set twice on one context: a correct pin D, then a second value (refused: wrong length / non-hex / empty; or accepted:
    # another well-formed digest), the error cleared, then a file whose stored checksum is D / differs from D in its last digit
    for k, z in enumerate(files[:4]):
        b = z.build(); pr = Z.parse(b)
        good = pr['header_digest'].hex().encode()
        p = os.path.join(ctx['work'], 'pin%d.zck' % k)
        other = good[:-1] + (b'0' if good[-1:] != b'0' else b'1')
        # a file that differs from the original only in the stored header checksum's last digit (and is sealed for that: not valid, refused anyway)
        for file_tag, path in (('same', p),):
            for d1 in (good, other):
                for d2 in (b'', good[:-2], good + b'00', b'zz' + good[2:], other, good, good.upper()):
                    cases.append(E.Case('p%d' % len(cases), 'OPENRESET %s %d %s %s' % (path, pr['hash_type'], d1.hex(), d2.hex() or 'e'),
                                        dict(kind='digest-set-twice')))
    # histories on ONE context: the lead of file A is validated / read (and refused) first, then the bytes behind the descriptor
    # are those of file B: the pins must be applied to B as they would be on a fresh context
    built = []
    for k, z in enumerate(files):
        b = z.build(); pr = Z.parse(b)
        built.append((os.path.join(ctx['work'], 'pin%d.zck' % k), b, pr['hash_type'], pr['header_digest'].hex().encode(), pr['lead'] + pr['header_len']))
    sib = []
    for k, z in enumerate(files[:4]):
        z2 = Z.make([b'HELLO WORLD ' * 3, b'SECOND CHUNK'], comp='none' if k % 2 else 'zstd', full=k, chunk=1 if k == 2 else 3)
        b2 = z2.build(); pr2 = Z.parse(b2)
        p2 = os.path.join(ctx['work'], 'pinsib%d.zck' % k); open(p2, 'wb').write(b2)
        sib.append((p2, b2, pr2['hash_type'], pr2['header_digest'].hex().encode(), pr2['lead'] + pr2['header_len']))
    def swap(pa, pb, t, d, n, mode, kind):
        cases.append(E.Case('p%d' % len(cases), 'PINSWAP %s %s %s %s %s %s' % (
            pa, pb, '-' if t is None else t, '-' if d is None else hx(d), '-' if n is None else n, mode), dict(kind=kind)))
    for k, (pa, ba, ht, dg, tot) in enumerate(built[:4]):
        others = [sib[k]] + [x for j, x in enumerate(built) if j != k]
        for (pb, bb, ht2, dg2, tot2) in others + [built[k]]:
            for (t, d, n) in ((ht, dg, tot), (ht, dg, None), (ht, dg, tot2), (None, None, tot)):
                swap(pa, pb, t, d, n, 'v', 'validate-then-swap')
            # the lead of A is refused for its length, the error cleared, and B has that length
            swap(pa, pb, ht, dg, tot2 if tot2 != tot else tot + 1, 'l', 'refused-then-swap')
    return cases

def nontrivial(r):
    return True

def run(tier, seed, replay=None):
    rule = ("OPEN with pins on files of all four header checksum types + a detached header: correct pins in every subset x both setter "
            "orders x with/without zck_validate_lead, lower/upper/mixed case; pinned type -1..6; pinned length at 0, +-1, exact, 2^31, 2^63-1; "
            "every single-digit wrong-but-hex digest; digest strings of wrong lengths; ALL 256 byte values at every position of the "
            "digest string (exhaustive for two files quick / all thorough); PINSWAP = histories on one context (zck_validate_lead or a "
            "refused / accepted zck_read_lead on file A, error cleared, then the descriptor holds file B - same file, a sibling with the "
            "same header length and another digest, other files - and lead + header are read); distinct by op line")
    return E.standard_run(PROP, MODULES, gen_cases, tier, seed, replay, ASSUMPTIONS, rule, nontrivial=nontrivial)
