"""C01 — round trip: anything written reads back byte-identical and fully valid (library API; tools in c01 tool cases)."""
import random, os, subprocess, hashlib
import engine as E
import build as B
from props import filegen as FG, writegen as WG

PROP = 'C01'
MODULES = ['ZckModel.Props.C01', 'ZckModel.Props.C01Stream', 'ZckModel.Props.C02Stream', 'ZckModel.Props.C01Encode', 'ZckModel.Props.C01Chunks', 'ZckModel.Props.C01Written', 'ZckModel.Props.C01Close', 'ZckModel.Props.C16Term', 'ZckModel.Props.C01Scanner', 'ZckModel.Props.C01Tool']
ASSUMPTIONS = [
    "codec round trip: libzstd decompresses what it compressed (exercised on every case, not proved)",
    "the chunker model covers which bytes go to which chunk; header creation and compression are exercised end to end and judged "
    "by reading the produced file back with the library and (in C02/C13) against the independent reference decoder",
    "command-line tools: the split-string scanner is modelled and proved; option plumbing is only exercised",
]

def gen_cases(tier, seed, ctx):
    rnd = random.Random(seed)
    cases = []
    C = WG.contents(rnd, tier)
    def add(cfg, ops, **meta):
        i = len(cases)
        p = os.path.join(ctx['work'], 'w%d.zck' % i)
        cases.append(E.Case('w%d' % i, 'WRITE %s %s %s' % (p, WG.cfg_str(**cfg), ops), meta))
    dict_hex = FG.text(rnd, 300).hex()
    base_cfgs = []
    for comp, lv in (('none', None), ('zstd', 1), ('zstd', 9), ('zstd', 19)) if tier == 'thorough' else (('none', None), ('zstd', 3)):
        for d in (None, dict_hex):
            for manual in (0, 1):
                c = dict(comp=comp, manual=manual)
                if lv is not None: c['level'] = lv
                if d: c['dict'] = d
                base_cfgs.append(c)
    minmax = [(0, 0), (1, 1), (7, 7), (1, 4096), (8192, 8192), (200000, 300000), (1000, 1001), (5000, 100000)]
    hashes = [(1, 3), (0, 0), (2, 2), (3, 1), (1, 1)]
    # library: contents x configs x (min,max) x segmentations (+ end_chunk after every k-th write)
    for c in base_cfgs:
        for (mn, mx) in minmax:
            if tier == 'quick' and rnd.random() < 0.5 and (mn, mx) != (0, 0): continue
            for dn in ('empty', 'one', 'small', 'mid', 'text', 'zeros', 'random'):
                data = C[dn]
                if (mn, mx) == (1, 1) and len(data) > 2000: data = data[:1500]       # one chunk per byte
                if (mn, mx) == (7, 7) and len(data) > 20000: data = data[:9001]
                if tier == 'quick' and dn in ('zeros', 'random') and c.get('dict'): continue
                cfg = dict(c); cfg['min'] = mn; cfg['max'] = mx
                ft, ct = rnd.choice(hashes)
                cfg['full'] = ft; cfg['chunk'] = ct
                if rnd.random() < 0.25 and ct in (1, 2): cfg['uncomp'] = 1
                segs = WG.segmentations(rnd, data)
                name, ops = rnd.choice(segs) if tier == 'quick' else segs[0]
                add(cfg, ops, kind='lib', content=dn, size=len(data))
                # manual end_chunk calls sprinkled in
                parts = ops.split('|')
                k = rnd.choice([1, 2, 5])
                ops2 = '|'.join(p + ('|e' if (i % k == k - 1) else '') for i, p in enumerate(parts[:2000]))
                add(cfg, ops2, kind='lib-endchunk', content=dn, size=sum(len(p) // 2 for p in parts[:2000]))
    # final chunk shorter than the minimum; zero-length writes; descriptor 0 free
    for c in base_cfgs[:4]:
        cfg = dict(c); cfg.update(min=5000, max=100000, manual=1)
        add(cfg, 'w' + C['small'].hex(), kind='last-below-min', size=len(C['small']))
        add(cfg, 'w' + C['mid'][:20000].hex() + '|e|w' + C['small'][:10].hex(), kind='last-below-min', size=20010)
        cfg = dict(c); cfg['fd0'] = 1
        add(cfg, 'w' + C['small'].hex(), kind='fd0-free', size=len(C['small']))
        add(dict(c), 'w|w' + C['small'].hex() + '|w|e|e|w' + C['one'].hex(), kind='empty-writes', size=len(C['small']) + 1)
    # the zck tool's split scanner: chunk structure of the real tool's output against the Lean model of the scanner + chunker
    import zcklib as Z
    tdir = B.build_tools(variant='plain')
    blk = 32768
    sc = []
    for o in [0, 1, 5, 6, 7, blk - 7, blk - 6, blk - 5, blk - 3, blk - 1, blk, blk + 1, 2 * blk - 2]:
        filler = bytes(rnd.choice(b'abcdefghij \n') for _ in range(2 * blk + 777))
        sc.append(filler[:o] + SPLIT + filler[o:o + 900] + SPLIT[:4] + b'y' + SPLIT + filler[:50] + SPLIT[:rnd.randrange(0, 6)])
    sc.append(b'<<text:<te<text:' * 2500)
    for k in range(2, len(SPLIT)):
        for j in range(1, k):
            filler = bytes(rnd.choice(b'abcdefghij \n') for _ in range(2 * blk))
            sc.append(filler[:blk - j] + SPLIT[:k] + b'!' + filler[:500] + SPLIT + filler[:30])
    sc.append(SPLIT); sc.append(SPLIT[:3]); sc.append(b'')
    for i, data in enumerate(sc):
        for manual in (1, 0):
            src = os.path.join(ctx['work'], 'scan%d_%d.in' % (i, manual)); z = src + '.zck'
            open(src, 'wb').write(data)
            r1 = subprocess.run([os.path.join(tdir, 'zck'), '-o', z, '-s', SPLIT.decode()] + (['-m'] if manual else []) + [src],
                                capture_output=True, timeout=120)
            if r1.returncode == 0:
                try:
                    pr = Z.parse(open(z, 'rb').read())
                    impl = 'OK lens=' + ','.join(str(c['len']) for c in pr['chunks'])
                except Exception as e:
                    impl = 'BADFILE %s' % e
            else:
                impl = 'ERR exit%d' % r1.returncode
            cases.append(E.Case('z%d' % len(cases), 'ZCKOPS %s %s %d' % (src, SPLIT.hex(), manual),
                                dict(kind='tool-scanner', impl=impl, size=len(data))))
    # several writer contexts with overlapping lifetimes (one closed but freed late, the others opened in between): every output
    # must hold what its context was given, whichever descriptor numbers were free when
    for comp in ('none', 'zstd'):
        for data in (C['one'], C['small'], C['mid']):
            k = len(cases)
            ps = [os.path.join(ctx['work'], 'w3_%d_%d.zck' % (k, j)) for j in range(3)]
            cases.append(E.Case('w%d' % k, 'WRITE3 %s %s %s %s %s' % (ps[0], ps[1], ps[2], comp, data[:60000].hex()),
                                dict(kind='three-contexts', size=len(data))))
    return cases

# ------------------------------------------------------------------ command-line tools
SPLIT = b'<text:'

def tool_cases(tier, seed, work, tdir):
    """end-to-end zck | unzck on contents with the split string at every alignment around a 32 KiB block edge.
    Returns list of dict(op, ok, detail)."""
    rnd = random.Random(seed + 77)
    res = []
    def run_one(name, data, zargs):
        src = os.path.join(work, 'tool_in'); z = src + '.zck'; out = os.path.join(work, 'tool_out')
        open(src, 'wb').write(data)
        for f in (z, out):
            if os.path.exists(f): os.unlink(f)
        r1 = subprocess.run([os.path.join(tdir, 'zck'), '-o', z] + zargs + [src], capture_output=True, timeout=120)
        if r1.returncode != 0:
            return dict(op='%s zck %s' % (name, ' '.join(zargs)), ok=False, detail='zck exit %d on a regular input' % r1.returncode,
                        kind='tool-zck-refused', data_hex=data.hex() if len(data) < 70000 else None)
        r2 = subprocess.run([os.path.join(tdir, 'unzck'), '-c', z], capture_output=True, timeout=120)
        ok = r2.returncode == 0 and r2.stdout == data
        # and into a regular file (unzck <file> writes ./<name without .zck>)
        ud = os.path.join(work, 'unz'); os.makedirs(ud, exist_ok=True)
        uo = os.path.join(ud, 'tool_in')
        if os.path.exists(uo): os.unlink(uo)
        r3 = subprocess.run([os.path.join(tdir, 'unzck'), z], capture_output=True, timeout=120, cwd=ud)
        back = open(uo, 'rb').read() if os.path.exists(uo) else None
        ok3 = r3.returncode == 0 and back == data
        ok = ok and ok3
        return dict(op='%s zck %s' % (name, ' '.join(zargs)), ok=ok, kind='tool',
                    detail='unzck -c exit %d, %d bytes back of %d; unzck to file exit %d, %s bytes' % (
                        r2.returncode, len(r2.stdout), len(data), r3.returncode, 'no' if back is None else len(back)),
                    data_hex=data.hex() if not ok and len(data) < 70000 else None)
    blk = 32768
    # the split string at every alignment relative to a block edge, and as a (partial) suffix
    offs = list(range(blk - 8, blk + 3)) + [0, 1, 2, 5, 6, 7, 2 * blk - 3, 2 * blk - 1, 2 * blk, 2 * blk + 1]
    for o in offs:
        filler = bytes(rnd.choice(b'abcdefghij \n') for _ in range(3 * blk))
        data = filler[:o] + SPLIT + filler[o:o + 500] + SPLIT[:3] + b'x' + SPLIT + filler[:100]
        for zargs in (['-s', SPLIT.decode()], ['-s', SPLIT.decode(), '-m']):
            res.append(run_one('align%d' % o, data, zargs))
    for k in range(1, len(SPLIT) + 1):
        for pre in (0, 1, blk - k, blk - 1, blk, 1000):
            data = bytes(rnd.choice(b'abc') for _ in range(pre)) + SPLIT[:k]
            res.append(run_one('suffix-prefix%d@%d' % (k, pre), data, ['-s', SPLIT.decode(), '-m']))
    res.append(run_one('double', b'<<text:<te<text:' * 3000, ['-s', SPLIT.decode(), '-m']))
    # a FALSE start of the split string straddling a block edge: j matching bytes before the edge, k-j after, then a mismatch
    for k in range(2, len(SPLIT)):
        for j in range(1, k):
            for edge in (blk, 2 * blk):
                filler = bytes(rnd.choice(b'abcdefghij \n') for _ in range(3 * blk))
                data = filler[:edge - j] + SPLIT[:k] + b'!' + filler[:700] + SPLIT + filler[:40]
                res.append(run_one('false-start%d/%d@%d' % (j, k, edge), data, ['-s', SPLIT.decode(), '-m']))
                res.append(run_one('false-start%d/%d@%d' % (j, k, edge), data, ['-s', SPLIT.decode()]))
    # split strings that overlap themselves (a failed partial match leaves a shorter one alive), the false start straddling a block edge
    for sp, txt in ((b'aab', b'aaab'), (b'--sep', b'---sep'), (b'--sep', b'----sep'), (b'abab!', b'ababab!'), (b'xxy', b'xxxxy')):
        for o in list(range(blk - len(txt) - 1, blk + 2)) + [2 * blk - 2, 2 * blk - 1]:
            filler = bytes(rnd.choice(b'cdefghij \n') for _ in range(3 * blk))
            data = filler[:o] + txt + filler[o:o + 300] + sp + filler[:50] + sp[:2]
            for zargs in (['-s', sp.decode()], ['-s', sp.decode(), '-m']):
                res.append(run_one('self-overlap-%s@%d' % (sp.decode(), o), data, zargs))
    # option combinations
    data = FG.text(rnd, 100000)
    for zargs in ([], ['-m'], ['--compression-format', 'none'], ['-u'], ['-u', '--chunk-hash-type', 'sha256'], ['-m', '-s', 'zchunk'],
                  ['--chunk-hash-type', 'sha512'], ['--chunk-hash-type', 'sha512_128']):
        res.append(run_one('opts', data, zargs))
    for d in (b'', b'a'):
        res.append(run_one('tiny', d, []))
    # contents with long runs of zero bytes: in the middle, as a tail that is not block aligned, as whole trailing 32 KiB blocks, all zeros
    # (a tool that writes sparse output must still produce every byte)
    txt = FG.text(rnd, 40000)
    for name, d in (('zeros-middle', txt + bytes(70000) + txt), ('zero-tail', txt + bytes(60000)), ('zero-tail-aligned', FG.text(rnd, blk) + bytes(blk)),
                    ('zero-tail-2blocks', FG.text(rnd, 100) + bytes(2 * blk + 5)), ('all-zero', bytes(50000)), ('all-zero-aligned', bytes(2 * blk))):
        for zargs in ([], ['--compression-format', 'none'], ['-m']):
            res.append(run_one(name, d, zargs))
    return res

def post(recs, ctx):
    tdir = B.build_tools(variant='plain')
    for i, t in enumerate(tool_cases(ctx['tier'], ctx['seed'], ctx['work'], tdir)):
        recs.append(dict(id='t%d' % i, op='TOOL ' + t['op'], impl=('OK ' if t['ok'] else 'FAIL ') + t['detail'],
                         model=('OK ' if t['ok'] else 'FAIL ') + t['detail'], prop=bool(t['ok']), agree=True,
                         sig='C01/tool-roundtrip' if not t['ok'] else '', meta=dict(kind=t['kind'], data_hex=t.get('data_hex'))))

def nontrivial(r):
    return r['meta'].get('size', 1) > 0

def run(tier, seed, replay=None):
    rule = ("WRITE through zck_write/zck_end_chunk/zck_close then re-open, zck_validate_checksums and read back: contents (empty, 1 byte, 777 B, "
            "40 kB, 150/300 kB text / zeros / random) x (none, zstd levels, dictionary, manual/automatic) x (min,max) in {default,(1,1),(7,7),"
            "(1,4096),(8192,8192),(200000,300000),(1000,1001),(5000,100000)} x hash-type pairs x uncompressed-source flag x segmentations, "
            "with end_chunk calls sprinkled in, final chunk below the minimum, zero-length writes, descriptor 0 free; WRITE3: three writer contexts with overlapping lifetimes (closed-but-not-freed, outputs opened in between); each write runs under "
            "a wall-clock bound (HANG is a result). Tools: real zck | unzck on inputs with the split string at every alignment around "
            "32 KiB block edges, as (partial) suffix, doubled, and under the option combinations")
    return E.standard_run(PROP, MODULES, gen_cases, tier, seed, replay, ASSUMPTIONS, rule, nontrivial=nontrivial, timeout_s=15,
                          post=post, project=WG.project)
