"""C10 — missing-range requests cover exactly the missing chunks."""
import random, itertools
import engine as E

PROP = 'C10'
MODULES = ['ZckModel.Props.C10']
ASSUMPTIONS = [
    "the index is one the library parsed or built: chunk starts are the running sum of stored sizes (the harness builds the "
    "index through index_new_chunk, as index_read.c does) and header length + body length < 2^64",
    "chunks marked failed (-1) are not requested (zckdl resets them to missing before asking); the property's 'missing' is valid == 0",
]
LIMITS = [-1, 0, 1, 2, 3, 7, 127, 255]

def gen_cases(tier, seed, ctx):
    rnd = random.Random(seed)
    cases = []
    def add(h, lens, valid, limit, kind):
        tbl = ','.join('%d:%d' % (l, v) for l, v in zip(lens, valid)) or '-'
        cases.append(E.Case('r%d' % len(cases), 'RANGE %d %s %d' % (h, tbl, limit), dict(kind=kind)))
    # exhaustive validity vectors for small tables
    nmax = 10 if tier == 'quick' else 14
    tables = [
        (135, [0, 100, 50, 7, 9, 4, 1]),             # empty dictionary entry first
        (89, [5, 1, 1, 1, 300, 2, 70000, 1]),
        (1, [1, 1, 1, 1, 1, 1]),
        (200, [10, 0, 10, 0, 0, 10, 10]),            # zero-length chunks in the middle
        (300, [rnd.randrange(1, 5000) for _ in range(nmax)]),
        (4096, [rnd.choice([0, 1, 2, 1000]) for _ in range(nmax)]),
    ]
    add(77, [], [], -1, 'empty'); add(77, [], [], 3, 'empty')
    for h, lens in tables:
        n = len(lens)
        for bits in range(1 << n):
            valid = [(bits >> i) & 1 for i in range(n)]
            for lim in LIMITS:
                add(h, lens, valid, lim, 'exhaustive%d' % n)
    # a request AFTER an earlier one on the same context (other marks then, failed chunks reset in between): a function of the current
    # marks only
    for _ in range(1500 if tier == 'quick' else 15000):
        n = rnd.randrange(2, 10)
        lens = [rnd.choice([0, 1, 2, 3, 1000, rnd.randrange(1, 1 << 20)]) for _ in range(n)]
        valid = [rnd.choice([0, 0, 1]) for _ in range(n)]
        earlier = [rnd.choice([-1, 0, 1]) if v == 0 else v for v in valid]      # some of the chunks now missing had failed before
        tbl = ','.join('%d:%d' % (l, v) for l, v in zip(lens, valid))
        cases.append(E.Case('r%d' % len(cases), 'RANGE %d %s %d %s' % (rnd.choice([1, 135, 4096]), tbl, rnd.choice(LIMITS), ','.join(map(str, earlier))),
                            dict(kind='after-earlier-request')))
    # vectors with failed (-1) chunks
    for _ in range(2000 if tier == 'quick' else 20000):
        n = rnd.randrange(1, 12)
        lens = [rnd.choice([0, 1, 2, 3, 1000, rnd.randrange(1, 1 << 20)]) for _ in range(n)]
        valid = [rnd.choice([0, 0, 1, 1, -1]) for _ in range(n)]
        add(rnd.choice([1, 89, 135, 5000]), lens, valid, rnd.choice(LIMITS + [4, 5, 10]), 'random-small')
    # large tables: the rendered string passes 32 KiB and the buffer has to grow (several times)
    for i in range(20 if tier == 'quick' else 120):
        n = rnd.choice([1500, 3000, 6000]) if i % 2 == 0 else rnd.randrange(2600, 3300)
        big = rnd.choice([1, 1000, 10 ** 6, 10 ** 12])
        lens = [rnd.randrange(1, 9 * big + 2) for _ in range(n)]
        dens = rnd.choice([0.5, 0.5, 0.9, 0.1])
        valid = [1 if rnd.random() < dens else 0 for _ in range(n)]
        if i % 5 == 0:
            valid = [j % 2 for j in range(n)]        # every other chunk: maximal number of ranges
        add(rnd.choice([135, 10 ** 6]), lens, valid, rnd.choice([-1, -1, -1, 255, 1000, 2000]), 'large')
    # entries ending exactly at the end of the buffer (snprintf returns exactly the space left): searched for
    # by computing the text positions here, for the initial size and the first two growth steps
    def texts(h, lens, valid):
        out = []; start = 0; cur = None
        for l, v in zip(lens, valid):
            if v == 0 and l > 0:
                s0, e0 = h + start, h + start + l - 1
                if cur and cur[1] + 1 == s0: cur[1] = e0
                else:
                    cur = [s0, e0]; out.append(cur)
            start += l
        return ['%d-%d,' % (a, b) for a, b in out]
    hits = 0
    for k in range(0, 3000):
        lens = [7] * k + [10 ** 9] * (3400 - k)
        valid = [j % 2 for j in range(3400)]
        pos = 0; hit = False
        for t in texts(135, lens, valid):
            pos += len(t)
            if pos in (32768, 49152, 73728): hit = True
        if hit or k % 500 == 0:
            add(135, lens, valid, -1, 'boundary-hit' if hit else 'boundary-near')
            hits += hit
            if hits >= (6 if tier == 'quick' else 40): break
    # near 2^64
    add(2 ** 63, [2 ** 62, 2 ** 61, 5], [0, 1, 0], -1, 'huge')
    add(10, [2 ** 63, 2 ** 62, 2 ** 61], [0, 0, 0], 2, 'huge')
    return cases

def nontrivial(r):
    # a case is non-trivial when something is actually requested
    return ' OK - ' not in (' ' + r['impl'])

def run(tier, seed, replay=None):
    rule = ("RANGE ops: for six chunk tables (incl. an empty dictionary entry, zero-length chunks, 1-byte chunks) ALL validity "
            "vectors x limits {-1,0,1,2,3,7,127,255} (exhaustive; n<=10 quick, n<=14 thorough), random small tables with failed "
            "chunks, tables of 1500-6000 chunks whose range string exceeds 32 KiB (buffer growth), a sweep moving the text across "
            "the 32768-byte boundary, and sizes near 2^63; distinct by op line, non-trivial when the request is non-empty")
    return E.standard_run(PROP, MODULES, gen_cases, tier, seed, replay, ASSUMPTIONS, rule, nontrivial=nontrivial)
