"""C11 — interrupted updates resume to the exact file; partial chunks never trusted."""
import random, os, subprocess
import engine as E
from props import updgen as U
from props.c12 import run_k0
from props import zckdlgen as ZG

PROP = 'C11'
MODULES = ['ZckModel.Props.C11', 'ZckModel.Props.C04Sound', 'ZckModel.Props.C04Req', 'ZckModel.Props.C04Complete']
ASSUMPTIONS = [
    "an interruption is a process death inside a write(2) on the target: the k-th write stores none, half or all of its bytes and nothing "
    "after it happens; the file system keeps what completed writes stored (no torn or reordered writes below write(2) granularity)",
    "the restart runs the whole procedure with fresh contexts on the target as the interruption left it; server and old file as in C04",
]

def gen_cases(tier, seed, ctx):
    rnd = random.Random(seed * 31 + 11)
    W = U.Writer(ctx)
    cases = []
    scen = []
    prs = U.pairs(rnd, tier, big=True)
    for tag, A, B in prs:
        if tier == 'quick' and tag.split('/')[0] not in ('edit', 'absent', 'duplicates', 'same', 'adjacent-dup', 'separators', 'big'): continue
        tg = U.targets(rnd, A, B)
        for tname in (['absent', 'old-A', 'partial'] if tier == 'quick' else list(tg)):
            if tname not in tg: continue
            for lim, fr in ([(1, 'b7'), (-1, '-'), (2, 'b64')] if tier == 'quick' else [(1, 'b7'), (-1, '-'), (2, 'b64'), (3, 'b1'), (-1, 'b16384')]):
                if tag == 'big': fr = 'b16384'
                if tag == 'big' and tier == 'quick' and (tname != 'absent' or lim != -1): continue
                if tag == 'big' or rnd.random() < (0.45 if tier == 'quick' else 1.0):
                    scen.append((tag, A, B.build(), tname, tg[tname], lim, fr))
    for tag, A, Bb, tname, tb, lim, fr in scen:
        base = run_k0(ctx, W.op(A, Bb, tb, lim, fr))
        toks = dict(t.split('=', 1) for t in base.split()[1:] if '=' in t)
        n = int(toks.get('writes', '0'))
        ks = list(range(1, n + 1))
        cap = 60 if tier == 'quick' else 400
        if n > cap: ks = sorted(rnd.sample(ks, cap))
        for k in ks:
            for part in ('0', 'h', 'a') if (tier == 'thorough' or n <= 25) else (rnd.choice('0ha'),):
                cases.append(E.Case('k%d' % len(cases), W.op(A, Bb, tb, lim, fr, '%d:%s' % (k, part)),
                                    dict(kind='%s/%s/kill' % (tag.split('/')[0], tname), writes=n)))
        # repeated interruptions
        for _ in range(3 if tier == 'quick' else 12):
            if n < 2: break
            kl = ','.join('%d:%s' % (rnd.randrange(1, n + 1), rnd.choice('0ha')) for _ in range(rnd.choice([2, 3, 5])))
            cases.append(E.Case('k%d' % len(cases), W.op(A, Bb, tb, lim, fr, kl), dict(kind='%s/%s/repeated' % (tag.split('/')[0], tname), writes=n)))
    # the real zckdl binary killed (LD_PRELOAD: _exit inside the k-th write(2) on the target) and run again to completion
    cases += ZG.cases(ctx, tier, seed, kill=True, n=24 if tier == 'quick' else 300)
    return cases

def nontrivial(r):
    return 'killed=' in r['impl']

def run(tier, seed, replay=None):
    rule = ("UPDATE with kill points: for each scenario (file pairs and initial targets as in C04, limits 1/2/3/-1, fragments 1/7/64/16384/whole) the "
            "procedure is first run to completion to count its write(2) calls on the target, then re-run with the k-th write cut short (none / "
            "half / all of its bytes stored) and the process abandoned, for EVERY k (sampled above 60 writes in quick, 400 in thorough), plus chains "
            "of 2-5 interruptions; the restart is judged with C04's predicate taken from the target as the interruption left it: converges to B, "
            "the scan trusts no chunk that is not verified-present, and the requests are exactly the chunks not present and not in A.")
    return E.standard_run(PROP, MODULES, gen_cases, tier, seed, replay, ASSUMPTIONS, rule, variant='asan', nontrivial=nontrivial,
                          timeout_s=120, project=U.project)
