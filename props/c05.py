"""C05 — range reassembly is fragmentation-independent, verified and confined."""
import random, os, itertools
import engine as E
import zcklib as Z
from props import filegen as FG
from props import dlgen as DG
from props import updgen as UG

PROP = 'C05'
MODULES = ['ZckModel.Props.C05', 'ZckModel.Props.C05Frag', 'ZckModel.Props.C05Complete', 'ZckModel.Props.C05Multipart', 'ZckModel.Props.C05MpComplete', 'ZckModel.Props.C05MpFrag', 'ZckModel.Props.C05Feed']
ASSUMPTIONS = [
    "regcomp/regexec (glibc) are an oracle: the model is given libc's logged answers; theorems quantify over every oracle",
    "the target is a regular file written with lseek+write; a transport stops at the first callback that refuses its data "
    "(mode stop) unless the case says otherwise",
    "well-formed response: RFC 7233 single-range body or multipart/byteranges with parts in request order, each part header "
    "followed by at least one payload byte (zero-length chunks are never requested)",
]

def request(z, flags, limit):
    """reference computation of zck_get_missing_range for explicit flags: (range string, chunk numbers)"""
    hdr = len(z.header())
    ranges = []; req = []; start = 0
    for k, c in enumerate(z.chunks):
        s = start; start += c['comp_len']
        if flags[k] != '0' or c['comp_len'] == 0: continue
        a, b = hdr + s, hdr + s + c['comp_len'] - 1
        if ranges and ranges[-1][1] + 1 >= a: ranges[-1][1] = max(ranges[-1][1], b)
        else: ranges.append([a, b])
        req.append(k)
        if limit >= 0 and len(ranges) >= limit: break
    return [tuple(r) for r in ranges], req

def files(rnd, tier):
    """(tag, ZFile) small enough for exhaustive fragmentations, plus one with chunks larger than a transport buffer"""
    out = []
    out.append(('none5', Z.make([FG.text(rnd, n) for n in (23, 9, 40, 1, 17)], comp='none', full=1, chunk=3)))
    out.append(('zstd4d', Z.make([FG.text(rnd, n) for n in (60, 200, 33, 90)], comp='zstd', zdict=FG.text(rnd, 80), full=1, chunk=1)))
    out.append(('none4u', Z.make([FG.text(rnd, n) for n in (12, 12, 30, 5)], comp='none', full=2, chunk=2, uncomp=True)))
    p = FG.text(rnd, 15)
    out.append(('dup', Z.make([p, FG.text(rnd, 8), p, FG.text(rnd, 21)], comp='none', full=0, chunk=0)))
    out.append(('big', Z.make([bytes(rnd.getrandbits(8) for _ in range(n)) for n in (20000, 300, 17000, 40000)], comp='none', full=1, chunk=3)))
    return out

BOUNDARIES = [b'00000000000000000023', b'a', b'gc0p4Jq0M2Yt08jU534c0p', b"x.y+z(1)*[2]{3}|^$\\q", b'--', b'B' * 70, b"it's_a:b/c=d?e"]

def gen_cases(tier, seed, ctx):
    rnd = random.Random(seed)
    cases = []
    groups = {}
    def add(kind, z, tgt, flags, limit, hdrs, body, cuts, mode, expect, group=None, variant=None, warm=None):
        i = len(cases)
        tp = FG.write(ctx, 'd%d.zck' % i, tgt); FG.write(ctx, 'd%d.zck.before' % i, tgt)
        bp = FG.write(ctx, 'd%d.body' % i, body)
        meta = dict(kind=kind, group=group)
        if variant: meta['variant'] = variant
        cases.append(E.Case('k%d' % i, 'DLFEED %s %s %d %s %s %s %s %s%s' % (tp, flags, limit, DG.hexlist(hdrs), bp, cuts, mode, expect, (' warm=' + warm) if warm else ''), meta))
    gid = [0]
    def frag_family(kind, z, tgt, flags, limit, hdrs, body, expect, cutlist, mode='stop'):
        gid[0] += 1
        for cuts in cutlist:
            add(kind, z, tgt, flags, limit, hdrs, body, cuts, mode, expect, group=gid[0])
    def cutsets(n, exhaustive1, n2, nk):
        cs = ['-', 'b1', 'b2', 'b3', 'b7']
        # every fragment is non-empty (a partition of the byte stream): cut points 1 <= a < b <= n
        if exhaustive1: cs += [str(k) for k in range(1, n)]
        else: cs += [str(rnd.randrange(1, max(n, 2))) for _ in range(12)]
        if n2 == 'all':
            cs += ['%d,%d' % (a, b - a) for a in range(1, n) for b in range(a + 1, n + 1)]
        else:
            for _ in range(n2):
                a = rnd.randrange(1, max(n, 2)); b = rnd.randrange(a + 1, n + 2); cs.append('%d,%d' % (a, b - a))
        for _ in range(nk):
            cs.append(DG.cuts_for(rnd, n, 'k%d' % rnd.choice([3, 4, 6, 9])))
        return list(dict.fromkeys(cs))
    for tag, z in files(rnd, tier):
        B = z.build(); hdr = z.header(); n = len(z.chunks); body_len = len(z.body())
        zero_t = hdr + bytes(body_len)
        garbage_t = hdr + bytes(rnd.getrandbits(8) | 1 for _ in range(body_len))
        small = tag != 'big'
        # which chunks are missing: all subsets (thorough, small files) or a sample
        subsets = list(itertools.product('01', repeat=n))
        if tier == 'quick' or not small:
            subsets = [s for s in subsets if rnd.random() < (6.0 / len(subsets))] + [tuple('0' * n), tuple('1' + '0' * (n - 1))]
        first = True
        for bits in subsets:
            flags = ''.join(bits)
            if '0' not in flags: continue
            for limit in ((-1, 1, 2, 3) if small else (-1, 2)):
                ranges, req = request(z, flags, limit)
                if not ranges: continue
                rs = ','.join('%d-%d' % r for r in ranges)
                # the target: requested extents hold zeros/garbage, chunks marked valid hold B's bytes
                for tname, base in (('zero', zero_t), ('garbage', garbage_t)):
                    t = bytearray(base); off = len(hdr)
                    for k, c in enumerate(z.chunks):
                        if flags[k] == '1': t[off:off + c['comp_len']] = c['stored']
                        off += c['comp_len']
                    t = bytes(t)
                    bnd = rnd.choice(BOUNDARIES)
                    xh = [(), (b'X-Extra: 1',), (b'Content-Length: 5', b'X-A: b')]
                    if not (first and tname == 'zero'):        # long part headers (not in the exhaustively cut family)
                        xh += [(b'X-Long: ' + b'v' * 300,), (b'X-Pad: ' + b'p' * 3000, b'X-Q: 1'), (b'X-Huge: ' + b'h' * 20000,)]
                    xhc = rnd.choice(xh)
                    hdrs, body = DG.respond(B, ranges, boundary=bnd, quote=rnd.random() < 0.3,
                                            extra_headers=xhc,
                                            hdr_spelling=rnd.choice([b'Content-Range', b'content-range', b'CONTENT-RANGE']),
                                            first_crlf=rnd.random() < 0.7,
                                            # part headers of DIFFERENT lengths (the first longer than the later ones) and bytes behind
                                            # the closing delimiter (an epilogue, RFC 2046 5.1.1): never in the exhaustively cut family
                                            first_extra=() if (first and tname == 'zero') else rnd.choice([(), (), (b'X-Only-First: ' + b'z' * rnd.choice([10, 70]),)]),
                                            later_plain=(not (first and tname == 'zero')) and rnd.random() < 0.4,
                                            epilogue=b'' if (first and tname == 'zero') else rnd.choice([b'', b'', b'\r\n\r\n\r\n', b'\r\n\r\nthis is the epilogue\r\n']))
                    nb = len(body)
                    if small:
                        ex = first and tname == 'zero'
                        cl = cutsets(nb, exhaustive1=(ex or tier == 'thorough'), n2=('all' if (ex and tier == 'thorough' and nb < 400) else (150 if ex else 4)), nk=6 if ex else 2)
                    else:
                        cl = ['-', 'b16384', 'b1000', 'b97'] + [DG.cuts_for(rnd, nb, 'k5') for _ in range(2)] if tname == 'zero' else ['b16384']
                    if sum(len(x) for x in xhc) > 1000:      # long part headers: coarse fragments only (cost of the model)
                        cl = ['-', 'b16384', 'b4096', 'b509'] + [DG.cuts_for(rnd, nb, 'k5') for _ in range(3)]
                    frag_family('wf/%s/%s/lim%d' % (tag, tname, limit), z, t, flags, limit, hdrs, body, 'wf:' + rs, cl)
                    first = False
                    # one damaged chunk: flip a payload byte of requested chunk k (position found in the body by its stored bytes)
                    if tname == 'zero' and rnd.random() < (0.5 if tier == 'quick' else 1.0):
                        k = rnd.choice(req)
                        st = z.chunks[k]['stored']
                        # locate the k-th requested chunk's payload: walk the response as the server built it
                        pos = locate(B, ranges, body, len(hdr) + sum(c['comp_len'] for c in z.chunks[:k]), hdrs, bnd)
                        if pos is not None:
                            m = bytearray(body); m[pos + rnd.randrange(len(st))] ^= 0x10
                            # a duplicate chunk requested twice shares its checksum: the damaged copy is the k-th
                            cl2 = ['-', 'b1' if small else 'b211', 'b5' if small else 'b16384'] + [DG.cuts_for(rnd, nb, 'k3') for _ in range(3)]
                            for mode in ('stop', 'cont'):
                                frag_family('damaged/%s/lim%d/%s' % (tag, limit, mode), z, t, flags, limit, hdrs, bytes(m), 'bad:%d:%s' % (k, rs), cl2, mode=mode)
                            # the same after the process has copied chunks between two other contexts (a downloader re-using a local
                            # file first): the failed chunk must still end up zero-filled
                            wp = FG.write(ctx, 'warm%d.zck' % len(cases), B)
                            add('damaged-after-copy/%s/lim%d' % (tag, limit), z, t, flags, limit, hdrs, bytes(m), '-', 'stop', 'bad:%d:%s' % (k, rs), warm=wp)
                            add('damaged-after-copy/%s/lim%d' % (tag, limit), z, t, flags, limit, hdrs, bytes(m), 'b7' if small else 'b16384', 'cont', 'bad:%d:%s' % (k, rs), warm=wp)
        # scanned validity ('-'): partially complete targets
        for _ in range(3 if tier == 'quick' else 12):
            t = bytearray(zero_t); off = len(hdr); fl = ''
            for k, c in enumerate(z.chunks):
                have = rnd.random() < 0.5 or c['comp_len'] == 0
                if have: t[off:off + c['comp_len']] = c['stored']
                fl += '1' if have else '0'
                off += c['comp_len']
            if '0' not in fl: continue
            ranges, req = request(z, fl, -1)
            hdrs, body = DG.respond(B, ranges, boundary=rnd.choice(BOUNDARIES))
            frag_family('wf-scanned/%s' % tag, z, bytes(t), '-', -1, hdrs, body, 'wf:' + ','.join('%d-%d' % r for r in ranges),
                        ['-', 'b1' if small else 'b113', 'b16384'] + [DG.cuts_for(rnd, len(body), 'k4') for _ in range(2)])
    # histories: a transfer that stops in the middle (dropped connection), then zck_dl_reset and a complete response to a new
    # request on the same contexts (UPDATE op with a drop; judged: every chunk ends valid, the target is the new file)
    W = UG.Writer(ctx)
    for op, kind in UG.drop_cases(rnd, W, tier, 120 if tier == 'quick' else 1200):
        cases.append(E.Case('k%d' % len(cases), op, dict(kind=kind)))
    return cases

def locate(B, ranges, body, file_off, hdrs, bnd):
    """position in the response body of the file offset file_off"""
    if len(ranges) == 1:
        s, e = ranges[0]
        return file_off - s if s <= file_off <= e else None
    pos = 0
    for (s, e) in ranges:
        marker = b'bytes %d-%d/%d\r\n\r\n' % (s, e, len(B))
        j = body.find(marker, pos)
        if j < 0: return None
        p0 = j + len(marker)
        if s <= file_off <= e: return p0 + (file_off - s)
        pos = p0 + (e - s + 1)
    return None

def project(impl, c):
    """the implementation's line without the logged libc answers"""
    if c.op.startswith('UPDATE'): return UG.project(impl, c)
    return ' '.join(t for t in impl.split(' ') if not (t.startswith('rx=') or t.startswith('rc=')))

def post(recs, ctx):
    """fragmentation independence ON THE IMPLEMENTATION: within a family (same target, request and response bytes) the final
    file and chunk marks are the same for every fragmentation"""
    fam = {}
    for r in recs:
        g = r['meta'].get('group')
        if g is None or not r['impl'].startswith('OK'): continue
        toks = dict(t.split('=', 1) for t in r['impl'].split(' ')[1:] if '=' in t)
        fam.setdefault(g, []).append((r, (toks.get('flags'), toks.get('file'))))
    ctx['families'] = len(fam)
    for g, lst in fam.items():
        ref = lst[0][1]
        for r, v in lst[1:]:
            if v != ref and r['prop'] is not False:
                r['prop'] = False
                r['sig'] = ''
                r['meta']['why'] = 'fragmentation-dependent: differs from the unfragmented delivery of the same response'

def nontrivial(r):
    return True

def run(tier, seed, replay=None):
    rule = ("DLFEED = zck_header_cb + zck_write_chunk_cb fed a reference server's response to the library's own range request.  Files: "
            "uncompressed/zstd, dictionary, duplicate chunks, four hash types, chunks larger than a 16 KiB transport buffer; missing sets: "
            "all subsets (thorough) or a sample; range limits -1/1/2/3 (single-range and multipart); targets whose requested extents hold "
            "zeros or garbage and whose valid chunks hold data; boundaries incl. regex metacharacters, quoted, 70 chars; extra part headers, "
            "header spellings; fragmentations: unfragmented, 1/2/3/7-byte pieces, ALL 1-cut partitions and (thorough) ALL 2-cut partitions "
            "of the first response of each file, sampled 2-cut and k-cut partitions of the others; one damaged payload byte per family (also after the process copied chunks between two other contexts) "
            "(stop and continue modes).  Families (same bytes, different fragmentation) are compared with each other on the implementation.")
    return E.standard_run(PROP, MODULES, gen_cases, tier, seed, replay, ASSUMPTIONS, rule, variant='asan', nontrivial=nontrivial,
                          timeout_s=60, post=post, project=project)
