"""C04 — delta update reconstructs the new file exactly, fetching only what is missing."""
import random, os
import engine as E
from props import updgen as U
from props import zckdlgen as ZG

PROP = 'C04'
MODULES = ['ZckModel.Props.C04', 'ZckModel.Props.C04Sound', 'ZckModel.Props.C04Req', 'ZckModel.Props.C04Complete']
ASSUMPTIONS = [
    "the server holds a valid file B and answers every range request honestly (RFC 7233: one range -> plain body, several -> "
    "multipart/byteranges in request order); the old file A, when given, is a valid zchunk file",
    "the procedure is zckdl's (dl_header, zck_find_valid_chunks, zck_copy_chunks, zck_reset_failed_chunks, the missing-range loop, "
    "ftruncate, zck_validate_data_checksum) performed in-process with the real library calls with libcurl replaced by the harness's "
    "feeder, AND by the real zckdl binary (src/zck_dl.c + libcurl) against a loopback HTTP range server that answers more than a "
    "configured number of ranges with 200 (range back-off)",
    "hash collisions are not assumed away in the theorems (conclusions are 'equal or an explicit collision')",
]
LIMITS = [1, 2, 3, 7, 127, 255, -1]

def gen_cases(tier, seed, ctx):
    rnd = random.Random(seed)
    W = U.Writer(ctx)
    cases = []
    allpairs = []
    for rep in range(3 if tier == 'quick' else 10):
        allpairs += U.pairs(rnd, tier, big=(rep == 0))
    for tag, A, B in allpairs:
        Bb = B.build()
        tg = U.targets(rnd, A, B)
        big = tag == 'big'
        for tname, tb in tg.items():
            lims = LIMITS if (tier == 'thorough' and not big) else rnd.sample(LIMITS, 3 if not big else 2) + ([-1] if tname == 'absent' else [])
            for lim in dict.fromkeys(lims):
                frags = ['-', 'b16384'] if big else rnd.sample(['-', 'b1', 'b3', 'b7', 'b64', 'b1000', 'b16384'], 2 if tier == 'quick' else 4)
                for fr in frags:
                    cases.append(E.Case('u%d' % len(cases), W.op(A, Bb, tb, lim, fr), dict(kind='%s/%s' % (tag.split('/')[0], tname))))
    for op, kind in U.drop_cases(rnd, W, tier, 150 if tier == 'quick' else 1500):
        cases.append(E.Case('u%d' % len(cases), op, dict(kind=kind)))
    # the real zckdl binary of the working tree (src/zck_dl.c + libcurl) against a loopback range server
    cases += ZG.cases(ctx, tier, seed, kill=False, n=30 if tier == 'quick' else 400)
    return cases

def nontrivial(r):
    return 'reqs=-' not in r['impl']

def run(tier, seed, replay=None):
    rule = ("UPDATE = the documented procedure in-process against a reference server, every request logged.  Pairs: B = one or two edits of A "
            "(insert/delete/replace/append a chunk), A == B, A absent, A unrelated, A with another chunk hash type / dictionary, duplicate "
            "chunks, reordered chunks; none/zstd, dictionary, uncompressed-source flag, 20 kB chunks; initial targets: absent, short and long "
            "garbage, old A, partial B (chunks present / garbage / zero), complete B, truncated B, B with one bit flipped, header only; range "
            "limits {1,2,3,7,127,255,-1} (all in thorough); transport fragments whole/1/3/7/64/1000/16384 bytes.  Judged on the implementation: "
            "target == B, validation 1, requested bytes == extents of chunks neither verified-present nor available from A, none twice.")
    return E.standard_run(PROP, MODULES, gen_cases, tier, seed, replay, ASSUMPTIONS, rule, variant='asan', nontrivial=nontrivial,
                          timeout_s=120, project=U.project)
