"""C08 — local chunk reuse never accepts bytes that do not match the target index."""
import random, os, copy, itertools
import engine as E
import zcklib as Z
from props import filegen as FG

PROP = 'C08'
MODULES = ['ZckModel.Props.C08']
ASSUMPTIONS = [
    "source and target are regular files; the target is written with lseek+write (holes read back as zeros)",
    "hash collisions are not assumed away ('valid' means: the bytes at the extent hash to the index checksum)",
]

def gen_cases(tier, seed, ctx):
    rnd = random.Random(seed)
    cases = []
    def wr(name, b):
        return FG.write(ctx, name, b)
    def add_copy(kind, tgt_b, flags, srcs, hist=None):
        i = len(cases)
        tp = wr('t%d.zck' % i, tgt_b); bp = wr('t%d.before' % i, tgt_b)
        sps = [wr('t%d.s%d.zck' % (i, j), s) + ('@' + hist if hist else '') for j, s in enumerate(srcs)]
        cases.append(E.Case('k%d' % i, 'COPY %s %s %s %s' % (tp, flags, ','.join(sps), bp), dict(kind=kind)))
    def add_match(kind, src_b, tgt_b, flags):
        i = len(cases)
        sp = wr('m%d.s.zck' % i, src_b); tp = wr('m%d.t.zck' % i, tgt_b)
        cases.append(E.Case('k%d' % i, 'MATCH %s %s %s' % (sp, tp, flags), dict(kind=kind)))
    for comp in ('none', 'zstd'):
        for zd in (None, FG.text(rnd, 60)):
            for (ft, ct, un) in ((1, 3, False), (1, 1, True), (0, 0, False)):
                pool = [FG.text(rnd, rnd.choice([30, 300, 40000 if comp == 'none' and ct == 3 and not zd else 500])) for _ in range(6)]
                B = Z.make([pool[0], pool[1], pool[2], pool[1], pool[3]], comp=comp, zdict=zd, full=ft, chunk=ct, uncomp=un)   # new version (duplicate chunk)
                A = Z.make([pool[4], pool[1], pool[0], pool[5]], comp=comp, zdict=zd, full=ft, chunk=ct, uncomp=un)           # old version shares two chunks
                bB = B.build(); bA = A.build()
                nB = len(B.chunks)
                hdr = B.header()
                body_len = len(B.body())
                # targets: header + zeroed body / garbage body / partial B / header only (short file)
                tgts = {'zero-body': hdr + bytes(body_len), 'garbage-body': hdr + bytes(rnd.getrandbits(8) for _ in range(body_len)),
                        'header-only': hdr, 'complete': bB}
                for tname, tb in tgts.items():
                    for fl in ('-', '0' * nB, '1' + '0' * (nB - 1)):
                        add_copy('intact-src/' + tname, tb, fl, [bA])
                    add_copy('two-sources/' + tname, tb, '-', [bA, bB])
                    add_copy('two-sources-rev/' + tname, tb, '-', [bB, bA])
                    add_copy('repeat/' + tname, tb, '-', [bA, bA])
                    add_copy('marked-src/' + tname, tb, '-', [bA], hist='1' * len(A.chunks))
                # some chunks already valid (marked so although the bytes are zero: must be left alone)
                for bits in itertools.product('01', repeat=nB):
                    if rnd.random() < (0.25 if tier == 'quick' else 1.0):
                        add_copy('premarked', hdr + bytes(body_len), ''.join(bits), [bA])
                # damaged sources: corrupted body, truncated (every chunk boundary +-1 and sampled), mis-indexed (index of A over body of other data)
                offA = len(A.header())
                for _ in range(6 if tier == 'quick' else 40):
                    m = bytearray(bA); pos = rnd.randrange(offA, len(bA)); m[pos] ^= 0x40
                    add_copy('corrupt-src', hdr + bytes(body_len), '-', [bytes(m)])
                    # the source context has a history: its chunks were marked (zck_find_matching_chunks against a third file marks
                    # by checksum without reading) or it went through a scan; the copy must still verify what it copies
                    h = rnd.choice(['1' * len(A.chunks), ''.join(rnd.choice('01') for _ in A.chunks), 'v', 'f'])
                    add_copy('corrupt-src/marked-src', hdr + bytes(body_len), '-', [bytes(m)], hist=h)
                cuts = {offA, len(bA) - 1}
                acc = offA
                for c in A.chunks:
                    acc += c['comp_len']; cuts |= {acc - 1, acc, acc + 1}
                garbage = hdr + bytes(rnd.getrandbits(8) for _ in range(body_len))
                for cut in sorted(c for c in cuts if offA <= c < len(bA)):
                    add_copy('truncated-src', hdr + bytes(body_len), '-', [bA[:cut]])
                    add_copy('truncated-src/garbage-tgt', garbage, '0' * nB, [bA[:cut]])
                # same checksum in the source index but another STORED size (re-sealed): must not be used
                for d in (5, -1):
                    y = copy.deepcopy(A)
                    if y.chunks[2]['comp_len'] + d > 0:
                        y.chunks[2]['comp_len_enc'] = Z.ci(y.chunks[2]['comp_len'] + d)
                        add_copy('stored-size-mismatch-src', garbage, '0' * nB, [y.build()])
                        add_copy('stored-size-mismatch-src', hdr + bytes(body_len), '-', [y.build()])
                y = copy.deepcopy(A)
                y.chunks[1]['stored'], y.chunks[2]['stored'] = y.chunks[2]['stored'], y.chunks[1]['stored']     # body does not match the index
                add_copy('misindexed-src', hdr + bytes(body_len), '-', [y.build()])
                y = copy.deepcopy(A); y.chunks[2]['len_enc'] = Z.ci(y.chunks[2]['len'] + 1)                       # same digest, other declared size
                add_copy('size-mismatch-src', hdr + bytes(body_len), '-', [y.build()])
                # different dictionary / hash type sources
                A2 = Z.make([pool[0], pool[1]], comp=comp, zdict=FG.text(rnd, 70), full=ft, chunk=ct, uncomp=un)
                add_copy('other-dict-src', hdr + bytes(body_len), '-', [A2.build()])
                A3 = Z.make([pool[0], pool[1]], comp=comp, zdict=zd, full=ft, chunk=2 if ct != 2 else 1, uncomp=un)
                add_copy('other-hashtype-src', hdr + bytes(body_len), '-', [A3.build()])
                # matching by (uncompressed) checksum
                add_match('match-same-comp', bA, bB, '0' * nB)
                add_match('match-premarked', bA, bB, '10' * (nB // 2) + '0' * (nB % 2))
                if un:
                    Ao = Z.make([pool[4], pool[1], pool[0], pool[5]], comp='none' if comp == 'zstd' else 'zstd', zdict=zd, full=ft, chunk=ct, uncomp=True)
                    add_match('match-uncompressed', Ao.build(), bB, '0' * nB)
                    y = copy.deepcopy(Ao); y.chunks[2]['len_enc'] = Z.ci(y.chunks[2]['len'] + 3)
                    add_match('match-uncompressed-len-differs', y.build(), bB, '0' * nB)
    return cases

def nontrivial(r):
    return True

def run(tier, seed, replay=None):
    rule = ("COPY = zck_copy_chunks from one or two sources (both orders, repeated) into targets that are zeroed / garbage / header-only / "
            "complete, with validity either scanned or pre-marked (all 2^n markings in thorough); sources intact (old version sharing chunks, source context freshly opened or with its chunks already marked / scanned, "
            "duplicate chunks), single-bit corrupted, truncated at every chunk boundary +-1, mis-indexed, with a differing declared size, "
            "another dictionary or another chunk hash type; none/zstd x dictionary x hash types x uncompressed-source flag, incl. 40 kB "
            "chunks (several buffer pieces).  MATCH = zck_find_matching_chunks incl. matching by uncompressed checksum across compression types")
    return E.standard_run(PROP, MODULES, gen_cases, tier, seed, replay, ASSUMPTIONS, rule, nontrivial=nontrivial, timeout_s=30)
