"""Runs of the REAL zckdl binary of the working tree against the loopback range server (C04), optionally killed inside the
k-th write(2) on the target and run again (C11).  Each run becomes a ZCKDL case whose implementation result is what was
observed: exit status and the chunk-phase requests the server answered with 206."""
import os, random, subprocess, shutil
import engine as E, build as B
import zcklib as Z
from props import updgen as U, rangeserver as RS, filegen as FG

def _run(cmd, **kw):
    """zckdl under a time limit: a run that does not end (e.g. the same range requested for ever) is a result (exit 124), not a crash of the check"""
    try:
        return subprocess.run(cmd, **kw)
    except subprocess.TimeoutExpired:
        return subprocess.CompletedProcess(cmd, 124, '', '')

def _chunk_reqs(log, name, hdr_total):
    out = []
    for (n, rng, code) in log:
        if n != name or code != 206 or not rng: continue
        spec = rng.split('=', 1)[1]
        first = int(spec.split(',')[0].split('-')[0])
        if first >= hdr_total: out.append(spec)
    return out

def cases(ctx, tier, seed, kill=False, n=30):
    rnd = random.Random(seed * 101 + (7 if kill else 3))
    tdir = B.build_tools(variant='plain')
    zckdl = os.path.join(tdir, 'zckdl')
    so = os.path.join(tdir, 'preload_kill.so')
    if kill and not os.path.exists(so):
        B.run([B.CC, '-shared', '-fPIC', '-O1', '-o', so, os.path.join(E.VERIF, 'harness', 'preload_kill.c'), '-ldl'])
    root = os.path.join(ctx['work'], 'www'); os.makedirs(root, exist_ok=True)
    out = []
    prs = U.pairs(rnd, tier, big=True)
    servers = {}
    def server(m):
        if m not in servers: servers[m] = RS.RangeServer(root, max_ranges=m, seed=seed)
        return servers[m]
    try:
        for i in range(n):
            tag, A, Bz = rnd.choice(prs)
            Bb = Bz.build(); hdr_total = len(Bz.header())
            name = 'f%d%s.zck' % (i, 'k' if kill else '')
            open(os.path.join(root, name), 'wb').write(Bb)
            ap = '-'
            if A:
                ap = os.path.join(ctx['work'], 'zA%d%s.zck' % (i, 'k' if kill else '')); open(ap, 'wb').write(A)
            tg = U.targets(rnd, A, Bz)
            tname = rnd.choice(sorted(tg))
            # a few runs are reserved for targets LONGER than the new version: complete with leftover bytes behind it (plain runs), and
            # a longer garbage file whose last chunk write is the one the kill lets complete (so the restart finds every chunk valid)
            force_last = False
            if not kill and i < 3: tname = 'complete-plus-tail'
            if kill and i < 4: tname = 'garbage-long'; force_last = True
            # ... and for a pre-existing longer target killed while the HEADER is being stored (between the write of the lead and the
            # write of the rest of the header): the restart finds the new lead followed by old bytes
            force_early = None
            if kill and 4 <= i < 10:
                tname = rnd.choice([t for t in ('garbage-long', 'old-A', 'complete-plus-tail') if t in tg])
                force_early = (1 + (i - 4) % 3, '0a'[(i - 4) // 3])
            tb = tg[tname]
            m = rnd.choice([1, 2, 3, 10 ** 9, 10 ** 9])
            # a few plain runs are reserved for a server that allows two ranges per request against a target with nothing in place:
            # multipart responses followed by a single-range one on the same handle (odd number of ranges), and the back-off ladder
            if not kill and 3 <= i < 7:
                # the old file holds every second chunk of the new one: 5 or 4 missing extents, never adjacent, so a server that
                # takes 2 (or 3) ranges per request answers multipart, multipart, single (or multipart 3, multipart 2)
                nch = 9 if i % 2 else 8
                cs = [FG.text(rnd, rnd.choice([20, 45, 80])) for _ in range(nch)]
                cfg = dict(comp=rnd.choice(['none', 'zstd']), full=1, chunk=1)
                Bz = Z.make(cs, **cfg); A = Z.make(cs[1::2], **cfg).build(); tag = 'alternate/%d' % nch
                Bb = Bz.build(); hdr_total = len(Bz.header())
                open(os.path.join(root, name), 'wb').write(Bb)
                ap = os.path.join(ctx['work'], 'zA%d.zck' % i); open(ap, 'wb').write(A)
                tg = U.targets(rnd, A, Bz)
                m = 3 if i == 6 else 2; tname = rnd.choice(['absent', 'header-only']); tb = tg[tname]
            srv = server(m)
            cwd = os.path.join(ctx['work'], 'dl%d%s' % (i, 'k' if kill else '')); os.makedirs(cwd, exist_ok=True)
            tp = os.path.join(cwd, name)
            if tname != 'absent': open(tp, 'wb').write(tb)
            before = tb
            cmd = [zckdl] + (['-s', ap] if A else []) + [srv.url(name)]
            env = dict(os.environ)
            killed = ''
            if kill:
                # count the writes of an undisturbed run on a copy first
                cnt = os.path.join(cwd, 'count')
                c2 = os.path.join(ctx['work'], 'dry%d' % i); os.makedirs(c2, exist_ok=True)
                if tname != 'absent': open(os.path.join(c2, name), 'wb').write(tb)
                _run(cmd, cwd=c2, capture_output=True, timeout=60,
                               env=dict(env, LD_PRELOAD=so, KILL_PATH=os.path.join(c2, name), KILL_COUNT=cnt, KILL_K='0'))
                w = int(open(cnt).read().strip() or 0) if os.path.exists(cnt) else 0
                shutil.rmtree(c2, ignore_errors=True)
                if w < 1: continue
                k = rnd.randrange(1, w + 1); part = rnd.choice('0ha')
                if force_last: k = w; part = 'a'
                if force_early and force_early[0] <= w: k, part = force_early
                r0 = _run(cmd, cwd=cwd, capture_output=True, timeout=60,
                                    env=dict(env, LD_PRELOAD=so, KILL_PATH=tp, KILL_K=str(k), KILL_PART=part))
                killed = ' killed=%d:%s:%d' % (k, part, r0.returncode)
                before = open(tp, 'rb').read() if os.path.exists(tp) else b''
            mark = len(srv.log)
            r = _run(cmd, cwd=cwd, capture_output=True, text=True, timeout=60, env=env)
            reqs = _chunk_reqs(srv.log[mark:], name, hdr_total)
            bp = os.path.join(ctx['work'], 'zB%d%s.zck' % (i, 'k' if kill else '')); open(bp, 'wb').write(Bb)
            pre = os.path.join(cwd, name + '.before'); open(pre, 'wb').write(before)
            if not os.path.exists(tp): open(tp, 'wb').write(b'')
            impl = 'OK exit=%d reqs=%s%s' % (r.returncode, ';'.join(reqs) or '-', killed)
            out.append(E.Case('z%d%s' % (i, 'k' if kill else ''), 'ZCKDL %s %s %s %s' % (bp, ap, tp, pre),
                              dict(kind='zckdl%s/%s/%s/maxranges=%s' % ('-kill' if kill else '', tag.split('/')[0], tname, m if m < 10 ** 9 else 'inf'),
                                   impl=impl)))
    finally:
        for s in servers.values(): s.stop()
    return out
