"""C06 — the header checksum covers every header byte."""
import random, os
import engine as E
import zcklib as Z
from props import hdrgen

PROP = 'C06'
MODULES = ['ZckModel.Props.C06']
ASSUMPTIONS = [
    "hash collisions are not assumed away: the theorem's conclusion is 'headers equal OR an explicit collision'",
    "the Lean driver recomputes every checksum with its own SHA implementation (C18), independent of the library",
]

def gen_cases(tier, seed, ctx):
    rnd = random.Random(seed)
    cases = []
    files = hdrgen.sample_files(rnd)
    # smallest headers first: exhaustive position x value mutation
    files.sort(key=lambda nz: len(nz[1].header()))
    nexh = 5 if tier == 'quick' else 24
    picked = []
    seen = set()
    pinned_types = set()
    for name, z in files:                       # spread over hash types / flags / detached
        key = (z.hash_type, z.flags, z.detached, z.comp_type)
        if key in seen and len(picked) < nexh and tier == 'quick': continue
        seen.add(key); picked.append((name, z))
    for k, (name, z) in enumerate(picked):
        b = z.build()
        hl = len(z.header())
        p = os.path.join(ctx['work'], name + '.zck')
        open(p, 'wb').write(b)
        cases.append(E.Case('o%d' % len(cases), 'OPEN %s - - - td 0' % p, dict(kind='valid')))
        # the one permitted change: switching the identifier between file and detached header
        swapped = (Z.MAGIC_DET if b[:5] == Z.MAGIC else Z.MAGIC) + b[5:]
        q = os.path.join(ctx['work'], name + '.swap.zck')
        open(q, 'wb').write(swapped)
        cases.append(E.Case('o%d' % len(cases), 'OPEN %s - - - td 0' % q, dict(kind='magic-swap')))
        exhaustive = k < nexh
        for pos in range(hl):
            vals = range(256) if exhaustive else [0, 0x80, 0xff, b[pos] ^ 1, b[pos] ^ 0x80, (b[pos] + 1) & 255]
            for v in vals:
                if v == b[pos]: continue
                cases.append(E.Case('o%d' % len(cases), 'OPENM %s %d %02x' % (p, pos, v),
                                    dict(kind='sub-exhaustive' if exhaustive else 'sub-sampled')))
        # the same substitutions through the advanced API with every failing step retried after zck_clear_error on the same context
        if k < (3 if tier == 'quick' else nexh):
            for pos in range(hl):
                for v in (b[pos] ^ 1, b[pos] ^ 0x80):
                    cases.append(E.Case('o%d' % len(cases), 'OPENRETRY %s %d %02x' % (p, pos, v), dict(kind='sub-retry')))
        # the same substitutions opened the way a downloader does: the expected header checksum (and type, length) of the ORIGINAL given
        # beforehand (ZCK_VAL_HEADER_*), optionally zck_validate_lead first: a pin is an extra check, never a replacement for one
        if z.hash_type not in pinned_types or tier == 'thorough':       # one file per header checksum type (digest lengths 16..64: where it lies relative to the first read differs)
            pinned_types.add(z.hash_type)
            pr = Z.parse(b)
            good = pr['header_digest'].hex().encode().hex()
            total = pr['lead'] + pr['header_len']
            for pos in range(hl):
                for v in (b[pos] ^ 1, b[pos] ^ 0x80):
                    m = bytearray(b); m[pos] = v
                    q = os.path.join(ctx['work'], '%s.pin%d_%02x.zck' % (name, pos, v))
                    open(q, 'wb').write(bytes(m))
                    cases.append(E.Case('o%d' % len(cases), 'OPEN %s %d %s %s %s %d' % (
                        q, pr['hash_type'], good, rnd.choice(['-', str(total)]), rnd.choice(['td', 'dt']), rnd.choice([0, 1])), dict(kind='sub-pinned')))
                    # ... and on a context that has read the lead of the INTACT file before (the bytes behind the descriptor replaced, the
                    # lead read again): what an earlier lead said must not stand in for what this file stores
                    if v == b[pos] ^ 1:
                        cases.append(E.Case('o%d' % len(cases), 'PINSWAP %s %s - - - %s' % (p, q, rnd.choice('lv')), dict(kind='sub-reread')))
                    # ... and with the expected values announced LATE (type before or after zck_read_lead, digest and length after it)
                    cases.append(E.Case('o%d' % len(cases), 'OPENLATE %s %s %d %s %s' % (
                        q, rnd.choice(['-', 'hl', str(total)]), pr['hash_type'], good, rnd.choice('ab')), dict(kind='sub-pinned-late')))
        # the same value spelled differently: a compressed integer of the lead (checksum type, header size) or of the header (flags,
        # compression type, index size, chunk-checksum type, count) written one digit longer (stop bit moved to an appended 0x80); for the
        # header integers the header-size field is adjusted when it stays one byte.  Other bytes, same values: the checksum must refuse it
        try:
            pr = Z.parse(b)
            ints = []
            pos = 5
            for _ in range(2):                                   # lead: checksum type, header size
                _, q = Z.read_ci(b, pos); ints.append((pos, q, True)); pos = q
            hp = pr['lead'] + Z.HSIZE[pr['hash_type']]          # header: flags, compression type, (opt elems), index size, chunk type, count
            for _ in range(2):
                _, q = Z.read_ci(b, hp); ints.append((hp, q, False)); hp = q
            if not (pr['flags'] & 2):
                for _ in range(3):
                    _, q = Z.read_ci(b, hp); ints.append((hp, q, False)); hp = q
            for (a0, q, in_lead) in ints:
                m = bytearray(b[:q - 1]) + bytes([b[q - 1] & 0x7f, 0x80]) + b[q:]
                if not in_lead and pr['header_len'] < 127 and 6 < len(m):
                    # header grew by one byte: adjust a one-byte header-size field
                    m[6] = 0x80 | (pr['header_len'] + 1) if b[6] & 0x80 else m[6]
                q2 = os.path.join(ctx['work'], '%s.respell%d.zck' % (name, a0))
                open(q2, 'wb').write(bytes(m))
                cases.append(E.Case('o%d' % len(cases), 'OPEN %s - - - td 0' % q2, dict(kind='respelled-integer')))
        except Exception:
            pass
        # first body byte (outside the header): must NOT affect open
        if len(b) > hl:
            cases.append(E.Case('o%d' % len(cases), 'OPENM %s %d %02x' % (p, hl, b[hl] ^ 0xff), dict(kind='body-byte')))
        # insertions / deletions with the header size field adjusted (not re-sealed)
        for _ in range(20 if tier == 'quick' else 200):
            pos = rnd.randrange(5, hl)
            y_b = b[:pos] + (bytes([rnd.getrandbits(8)]) if rnd.random() < 0.5 else b'') + b[pos + (0 if rnd.random() < 0.5 else 1):]
            q = os.path.join(ctx['work'], 'indel%d.zck' % len(cases))
            # adjust the header-size field if it is a single byte
            try:
                pr = Z.parse(b)
                newlen = pr['header_len'] + (len(y_b) - len(b))
                if 0 < newlen < 128 and pr['header_len'] < 128 and pos > 6:
                    y_b = y_b[:6] + bytes([0x80 | newlen]) + y_b[7:]
            except Exception:
                pass
            open(q, 'wb').write(y_b)
            cases.append(E.Case('o%d' % len(cases), 'OPEN %s - - - td 0' % q, dict(kind='indel')))
    return cases

def nontrivial(r):
    return r['meta'].get('kind') != 'valid'

def run(tier, seed, replay=None):
    rule = ("PINSWAP without pins = the same substitutions opened on a context that has read (or validated) the lead of the intact file before; OPENLATE = the same substitutions with the ORIGINAL checksum type / checksum / length announced after zck_read_lead; OPEN with pins = the same substitutions opened through the advanced API with the ORIGINAL header checksum / type / length given as expected values (with and without zck_validate_lead); OPENRETRY = the same through zck_read_lead / zck_read_header with every failing step retried after zck_clear_error on the same "
            "context (2 values per position); OPENM = zck_init_read on a valid file with ONE header byte substituted: for the sampled valid files (all hash types, flags, "
            "dict, detached) every position in [0, header length) x all 255 other values (exhaustive; 5 files quick, 24 thorough; the "
            "remaining files x 6 values per position), the first body byte as a control, compressed integers re-spelled one digit longer (same value, other bytes), and insertions/deletions with the size field "
            "adjusted; a case is distinct by (file, position, value) and non-trivial when it is a mutation")
    return E.standard_run(PROP, MODULES, gen_cases, tier, seed, replay, ASSUMPTIONS, rule, nontrivial=nontrivial)
