"""C13 — reported metadata equals the file's; unrepresentable values are rejected."""
import random, os, subprocess
import engine as E
import build as B
import zcklib as Z
from props import hdrgen

PROP = 'C13'
MODULES = ['ZckModel.Props.C13', 'ZckModel.Props.C13Parse']
ASSUMPTIONS = [
    "header shorter than 2^31 bytes (read_index keeps the remaining header length in an int)",
    "bytes 23..24 of a file whose lead is shorter than the 25 bytes read_lead always reads stay in the buffer across "
    "realloc (true for glibc; see DESIGN.md D23)",
    "hash functions: the Lean driver uses its own SHA implementation (C18) for the reference parser",
]

def gen_cases(tier, seed, ctx):
    rnd = random.Random(seed)
    cases = []
    def add(kind, b):
        p = os.path.join(ctx['work'], 'm%d.zck' % len(cases))
        open(p, 'wb').write(b)
        cases.append(E.Case('m%d' % len(cases), 'META ' + p, dict(kind=kind, file=p)))
        ctx.setdefault('files', []).append((kind, p))
    files = hdrgen.sample_files(rnd)
    for name, z in files:
        b = z.build()
        add('valid', b)
        lim = None if tier == 'thorough' else 60
        for kind, m in hdrgen.field_mutants(rnd, z, limit=lim):
            add(kind.split('=')[0].split('@')[0], m)
        for kind, m in hdrgen.raw_mutants(rnd, b, len(z.header()), 10 if tier == 'quick' else 100):
            add(kind, m)
    return cases

HNAME = {0: 'SHA-1', 1: 'SHA-256', 2: 'SHA-512', 3: 'SHA-512/128'}

def expected_report(b):
    """what `zck_read_header -c` must print for a file the reference parser accepts (None: not accepted)"""
    try: m = Z.parse(b)
    except Exception: return None
    L = ['zchunk detached header' if m['detached'] else 'zchunk file', '',
         'Overall checksum type: ' + HNAME[m['hash_type']], 'Header size: %d' % (m['lead'] + m['header_len']),
         'Header checksum: ' + m['header_digest'].hex()]
    if m['flags'] > 0:
        L.append('Flags:')
        if m['flags'] & 2: L.append('    Has optional header elements')
        if m['flags'] & 4: L.append('    Has uncompressed checksums')
    L += ['Data size: %d' % m['data_len'], 'Data checksum: ' + m['data_digest'].hex(), 'Chunk count: %d' % m['count'],
          'Chunk checksum type: ' + HNAME[m['chunk_hash_type']]]
    d = m['chunks'][0]
    L.append('No dictionary' if d['len'] == 0 else 'Dictionary: ' + d['digest'].hex())
    L.append('')
    rows = []
    for c in m['chunks']:
        rows.append((c['number'], c['digest'].hex(), c['udigest'].hex() if c['udigest'] is not None else '',
                     m['lead'] + m['header_len'] + c['start'], c['comp_len'], c['len']))   # zck_get_chunk_start counts from the start of the file
    return L, rows

def post(recs, ctx):
    """the zck_read_header tool on the files the reference parser accepts: every reported value, row by row"""
    files = ctx.get('files')
    if not files: return
    tdir = B.build_tools(variant='plain')
    opened = {r['op'].split(' ', 1)[1]: r['impl'].startswith('OK') for r in recs if r['op'].startswith('META ')}
    for i, (kind, p) in enumerate(files):
        b = open(p, 'rb').read()
        exp = expected_report(b)
        # "after a successful open": files the library itself opens (META above) and the reference parser accepts
        if exp is None or not opened.get(p): continue
        L, rows = exp
        r = subprocess.run([os.path.join(tdir, 'zck_read_header'), '-c', p], capture_output=True, timeout=60)
        out = r.stdout.decode('latin1').split('\n')
        got_head = out[:len(L)]
        body = [l for l in out[len(L):] if l.strip()]
        got_rows = []
        for l in body[1:]:
            t = l.split()
            try:
                if len(t) == 5: got_rows.append((int(t[0]), t[1], '', int(t[2]), int(t[3]), int(t[4])))
                elif len(t) == 6: got_rows.append((int(t[0]), t[1], t[2], int(t[3]), int(t[4]), int(t[5])))
                else: got_rows.append(('unparsable', l))
            except ValueError:
                got_rows.append(('unparsable', l))
        ok = r.returncode == 0 and got_head == L and got_rows == rows
        detail = 'OK' if ok else 'FAIL rc=%d head_ok=%d rows %d/%d first-bad=%s' % (
            r.returncode, got_head == L, sum(1 for a, c in zip(got_rows, rows) if a == c), len(rows),
            next((repr(a)[:200] for a, c in zip(got_rows + [None] * len(rows), rows) if a != c), '-'))
        recs.append(dict(id='tool%d' % i, op='TOOL zck_read_header -c ' + p, impl=detail, model='OK', prop=ok, agree=ok,
                         sig='' if ok else 'C13/tool-report', meta=dict(kind='tool-' + kind, file=p)))

def nontrivial(r):
    return True

def run(tier, seed, replay=None):
    rule = ("META on ~60 structurally valid files from the reference writer (all hash types, flags, dict, compression, 0..40 chunks, "
            "optional elements, detached headers) and on their re-sealed field mutants (count mismatch, index/header size +-k, every "
            "integer field at 0,1,127,128,2^31-1,2^31,2^32,2^63-1,2^63,2^64-1, unknown flags/types, zero-padded and 10/11-byte "
            "encodings, optional-element sizes at and past the end incl. wrapping ones, truncations) plus raw and re-sealed byte "
            "substitutions/insertions/deletions; distinct by file content; plus the zck_read_header tool (-c) run on every one of those "
            "files the reference parser accepts, its report compared line by line and chunk row by chunk row with the reference parse")
    def replay_setup(ctx, rp):
        pass
    return E.standard_run(PROP, MODULES, gen_cases, tier, seed, replay, ASSUMPTIONS, rule, nontrivial=nontrivial, post=post)
