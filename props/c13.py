"""C13 — reported metadata equals the file's; unrepresentable values are rejected."""
import random, os
import engine as E
from props import hdrgen

PROP = 'C13'
MODULES = ['ZckModel.Props.C13', 'ZckModel.Props.C13Parse']
ASSUMPTIONS = [
    "header shorter than 2^31 bytes (read_index keeps the remaining header length in an int)",
    "bytes 23..24 of a file whose lead is shorter than the 25 bytes read_lead always reads stay in the buffer across "
    "realloc (true for glibc; see DESIGN.md D23)",
    "hash functions: the Lean driver uses its own SHA implementation (C18) for the reference parser",
]

def gen_cases(tier, seed, ctx):
    rnd = random.Random(seed)
    cases = []
    def add(kind, b):
        p = os.path.join(ctx['work'], 'm%d.zck' % len(cases))
        open(p, 'wb').write(b)
        cases.append(E.Case('m%d' % len(cases), 'META ' + p, dict(kind=kind, file=p)))
    files = hdrgen.sample_files(rnd)
    for name, z in files:
        b = z.build()
        add('valid', b)
        lim = None if tier == 'thorough' else 60
        for kind, m in hdrgen.field_mutants(rnd, z, limit=lim):
            add(kind.split('=')[0].split('@')[0], m)
        for kind, m in hdrgen.raw_mutants(rnd, b, len(z.header()), 10 if tier == 'quick' else 100):
            add(kind, m)
    return cases

def nontrivial(r):
    return True

def run(tier, seed, replay=None):
    rule = ("META on ~60 structurally valid files from the reference writer (all hash types, flags, dict, compression, 0..40 chunks, "
            "optional elements, detached headers) and on their re-sealed field mutants (count mismatch, index/header size +-k, every "
            "integer field at 0,1,127,128,2^31-1,2^31,2^32,2^63-1,2^63,2^64-1, unknown flags/types, zero-padded and 10/11-byte "
            "encodings, optional-element sizes at and past the end incl. wrapping ones, truncations) plus raw and re-sealed byte "
            "substitutions/insertions/deletions; distinct by file content")
    def replay_setup(ctx, rp):
        pass
    return E.standard_run(PROP, MODULES, gen_cases, tier, seed, replay, ASSUMPTIONS, rule, nontrivial=nontrivial)
