"""Loopback HTTP/1.1 range server (RFC 7233) for runs of the REAL zckdl binary of the working tree: serves the files of one
directory, answers single ranges with 206 + Content-Range, several ranges with multipart/byteranges, more than `max_ranges`
ranges with 200 + the whole file (what makes zckdl back off), and logs every request."""
import os, re, threading, socketserver, http.server, random

class Handler(http.server.BaseHTTPRequestHandler):
    protocol_version = 'HTTP/1.1'
    def log_message(self, *a): pass
    def do_GET(self):
        srv = self.server
        path = os.path.join(srv.root, os.path.basename(self.path))
        if not os.path.isfile(path):
            self.send_response(404); self.send_header('Content-Length', '0'); self.end_headers(); return
        data = open(path, 'rb').read(); total = len(data)
        rng = self.headers.get('Range')
        ranges = None
        if rng:
            m = re.match(r'bytes=(.*)$', rng.strip())
            if m:
                try:
                    ranges = []
                    for part in m.group(1).split(','):
                        a, b = part.strip().split('-')
                        a = int(a); b = int(b) if b else total - 1
                        if a > b or a >= total: ranges = 'bad'; break
                        ranges.append((a, min(b, total - 1)))
                except ValueError:
                    ranges = None
        if ranges == 'bad':
            srv.log.append((os.path.basename(path), rng, 416))
            self.send_response(416); self.send_header('Content-Range', 'bytes */%d' % total); self.send_header('Content-Length', '0'); self.end_headers(); return
        if not ranges or len(ranges) > srv.max_ranges:
            srv.log.append((os.path.basename(path), rng, 200))
            self.send_response(200); self.send_header('Content-Type', 'application/octet-stream')
            self.send_header('Content-Length', str(total)); self.end_headers()
            try: self.wfile.write(data)
            except (BrokenPipeError, ConnectionResetError): pass
            return
        srv.log.append((os.path.basename(path), rng, 206))
        if len(ranges) == 1:
            a, b = ranges[0]; body = data[a:b + 1]
            self.send_response(206); self.send_header('Content-Type', 'application/octet-stream')
            self.send_header('Content-Range', 'bytes %d-%d/%d' % (a, b, total))
        else:
            bnd = srv.boundary + b'%08x' % srv.rnd.getrandbits(32)      # a new boundary for every response, as servers do
            body = b''
            for a, b in ranges:
                body += b'\r\n--' + bnd + b'\r\nContent-Type: application/octet-stream\r\nContent-Range: bytes %d-%d/%d\r\n\r\n' % (a, b, total) + data[a:b + 1]
            body += b'\r\n--' + bnd + b'--\r\n'
            self.send_response(206); self.send_header('Content-Type', 'multipart/byteranges; boundary=' + bnd.decode())
        self.send_header('Content-Length', str(len(body))); self.end_headers()
        # deliver in uneven pieces so that the transport's fragments vary
        pos = 0; rnd = srv.rnd
        try:
            while pos < len(body):
                n = rnd.choice([1, 7, 100, 1500, 16384, len(body)])
                self.wfile.write(body[pos:pos + n]); self.wfile.flush(); pos += n
        except (BrokenPipeError, ConnectionResetError):
            pass

class RangeServer(socketserver.ThreadingMixIn, http.server.HTTPServer):
    daemon_threads = True
    allow_reuse_address = True
    def __init__(self, root, max_ranges=10 ** 9, seed=1, boundary=b'3d6b6a416f9b5'):
        super().__init__(('127.0.0.1', 0), Handler)
        self.root = root; self.max_ranges = max_ranges; self.log = []; self.rnd = random.Random(seed); self.boundary = boundary
        self.thread = threading.Thread(target=self.serve_forever, daemon=True); self.thread.start()
    def url(self, name): return 'http://127.0.0.1:%d/%s' % (self.server_address[1], name)
    def stop(self):
        self.shutdown(); self.server_close()
