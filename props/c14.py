"""C14 — random access returns each chunk's exact data regardless of request history."""
import random, os, itertools
import engine as E
import zcklib as Z
from props import filegen as FG

PROP = 'C14'
MODULES = ['ZckModel.Props.C14', 'ZckModel.Props.C14Exact']
ASSUMPTIONS = [
    "files are valid (written by the reference writer and, in thorough, by the library itself); each request passes a buffer of the "
    "chunk's declared size, as zck_gen_zdict and unzck --dict do",
    "codec: libzstd's own results as a side table; theorems quantify over the codec function",
]

def gen_cases(tier, seed, ctx):
    rnd = random.Random(seed)
    cases = []
    files = []
    for comp in ('none', 'zstd'):
        for zd in (None, FG.text(rnd, 100)):
            for un in (False, True):
                n = 4 if tier == 'quick' else 6
                chunks = [FG.text(rnd, rnd.choice([1, 30, 300])) for _ in range(n)]
                chunks[1] = chunks[0]
                files.append(Z.make(chunks, comp=comp, zdict=zd, full=1, chunk=1 if un else 3, uncomp=un))
    for fi, z in enumerate(files):
        b = z.build()
        p = FG.write(ctx, 'q%d.zck' % fi, b)
        zt = FG.ztab(b, p + '.ztab')
        n = len(z.chunks)
        idx = list(range(n))
        def add(seq, kind):
            cases.append(E.Case('q%d' % len(cases), 'CHUNKSEQ %s %s %s' % (p, ','.join(seq), zt), dict(kind=kind)))
        maxlen = 3
        for L in range(1, maxlen + 1):
            for seq in itertools.product(idx, repeat=L):
                add([str(k) for k in seq], 'data-seq%d' % L)
        # interleaved data / stored-data requests
        for L in (2, 3):
            for seq in itertools.product(idx, repeat=L):
                if rnd.random() < (0.3 if tier == 'quick' else 1.0):
                    add(['%d%s' % (k, rnd.choice(['', 'c'])) for k in seq], 'mixed-seq%d' % L)
        # requests with a buffer smaller than the chunk (the prefix is returned), then further requests on the same context
        for L in (2, 3):
            for seq in itertools.product(idx, repeat=L):
                if rnd.random() < (0.3 if tier == 'quick' else 1.0):
                    toks = ['%d%s' % (k, rnd.choice(['', 'c', 'h'])) for k in seq]
                    toks[0] = '%dh' % seq[0]
                    add(toks, 'short-buffer-seq%d' % L)
        for _ in range(10 if tier == 'quick' else 60):
            L = rnd.randrange(4, 40)
            add(['%d%s' % (rnd.choice(idx), rnd.choice(['', '', 'c'])) for _ in range(L)], 'long-random')
    return cases

def nontrivial(r):
    return True

def run(tier, seed, replay=None):
    rule = ("CHUNKSEQ on valid files (none/zstd x dictionary x uncompressed-source flag, duplicate chunks, 1-byte chunks): ALL request "
            "sequences of length <= 3 over all chunk numbers incl. the dictionary entry and the last chunk (exhaustive), mixed data / "
            "stored-data sequences, sequences starting with a request into a buffer of half the chunk's size, random sequences of 4..40 requests; each request's (return value, bytes) is compared with the reference "
            "decoder's slice; distinct by (file, sequence)")
    return E.standard_run(PROP, MODULES, gen_cases, tier, seed, replay, ASSUMPTIONS, rule, nontrivial=nontrivial, timeout_s=60)
