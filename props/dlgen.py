"""Responses of a server holding file B to a Range request: single-range bodies and multipart/byteranges (reference server,
written from RFC 7233 §4.1 and appendix A; shared by C05, C17, C04, C11)."""
import random

def parse_ranges(rs):
    return [] if rs in ('', '-') else [tuple(int(x) for x in r.split('-')) for r in rs.split(',')]

def respond(B, ranges, boundary=b'00000000000000000023', quote=False, extra_headers=(), ctype=b'application/octet-stream',
            first_crlf=True, hdr_spelling=b'Content-Range', preamble=b'', first_extra=(), later_plain=False, epilogue=b''):
    """-> (header lines [bytes], body bytes).  One range: 206 with the plain slice; several: multipart/byteranges."""
    total = len(B)
    if len(ranges) == 1:
        s, e = ranges[0]
        hdrs = [b'HTTP/1.1 206 Partial Content\r\n', b'Content-Type: ' + ctype + b'\r\n',
                b'Content-Range: bytes %d-%d/%d\r\n' % (s, e, total), b'Content-Length: %d\r\n' % (e - s + 1), b'\r\n']
        return hdrs, B[s:e + 1]
    bq = b'"' + boundary + b'"' if quote else boundary
    body = bytearray(preamble)
    for k, (s, e) in enumerate(ranges):
        body += (b'\r\n' if (k > 0 or first_crlf) else b'') + b'--' + boundary + b'\r\n'
        if not (later_plain and k > 0):      # later_plain: only the first part carries more than its Content-Range line
            body += b'Content-Type: ' + ctype + b'\r\n'
            for h in extra_headers: body += h + b'\r\n'
        if k == 0:
            for h in first_extra: body += h + b'\r\n'
        body += hdr_spelling + b': bytes %d-%d/%d\r\n\r\n' % (s, e, total)
        body += B[s:e + 1]
    body += b'\r\n--' + boundary + b'--\r\n' + epilogue
    hdrs = [b'HTTP/1.1 206 Partial Content\r\n', b'Content-Type: multipart/byteranges; boundary=' + bq + b'\r\n',
            b'Content-Length: %d\r\n' % len(body), b'\r\n']
    return hdrs, bytes(body)

def hexlist(lines):
    return ','.join((l.hex() or 'e') for l in lines) or '-'

def cuts_for(rnd, n, kind):
    """fragment lengths"""
    if kind == 'one' or n == 0: return '-'
    if kind == 'bytes': return 'b1'
    if kind.startswith('b'): return kind
    k = int(kind[1:]) if kind.startswith('k') else 2
    pts = sorted(set(rnd.randrange(1, max(n, 2)) for _ in range(k)))     # no empty fragments
    out = []; prev = 0
    for p in pts: out.append(p - prev); prev = p
    return ','.join(str(x) for x in out) or '-'

