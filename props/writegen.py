"""WRITE-op generators shared by C01 (round trip) and C16 (deterministic, content-defined, local chunking)."""
import random, os, re
import engine as E
from props import filegen as FG

def contents(rnd, tier):
    big = 300000 if tier == 'thorough' else 150000
    c = {
        'empty': b'', 'one': b'x', 'small': FG.text(rnd, 777),
        'text': FG.text(rnd, big), 'zeros': bytes(big), 'random': rnd.randbytes(big),
        'mid': rnd.randbytes(40000),
        'repeat': (FG.text(rnd, 997) * (big // 997 + 1))[:big],
    }
    return c

def segmentations(rnd, data, small_ok=True):
    """list of (name, ops string)"""
    def w(b): return 'w' + b.hex() if b else 'w'
    segs = [('one-write', [data])]
    if len(data) <= 40000 and len(data) > 0:
        segs.append(('1-byte-writes', [data[i:i+1] for i in range(len(data))]))
    if len(data) > 1:
        cuts = sorted(set(rnd.randrange(1, len(data)) for _ in range(min(20, len(data) - 1))))
        parts = [data[a:b] for a, b in zip([0] + cuts, cuts + [len(data)])]
        segs.append(('random-20', parts))
        parts = [data[i:i + 32768] for i in range(0, len(data), 32768)]
        segs.append(('32k-blocks', parts))
        parts = [data[i:i + 4099] for i in range(0, len(data), 4099)]
        segs.append(('4099-blocks', parts))
    out = []
    for name, parts in segs:
        out.append((name, '|'.join(w(p) for p in parts if p) or 'w'))
    return out

def cfg_str(**k):
    return ','.join('%s=%s' % (a, b) for a, b in k.items())

def parse_out(line):
    """fields of a WRITE result line"""
    d = {}
    for t in line.split()[1:]:
        if '=' in t:
            a, b = t.split('=', 1); d[a] = b
    return d

def chunk_list(d):
    """[(digest, complen, len)] of the data chunks (index entry 0 is the dictionary)"""
    cl = d.get('cl', '')
    out = []
    for e in cl.split(';'):
        p = e.split(':')
        if len(p) == 3: out.append((p[0], int(p[1]), int(p[2])))
    return out[1:]

def project(impl, case):
    """what the chunk-structure model predicts: close result and uncompressed chunk sizes"""
    if not impl.startswith('OK') or not case.op.startswith('WRITE'): return impl
    d = parse_out(impl)
    if d.get('close') != '1': return 'OK close=0'
    lens = [e.split(':')[2] for e in d.get('cl', '').split(';') if e.count(':') == 2]
    return 'OK close=1 lens=' + ','.join(lens)
