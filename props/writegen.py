"""WRITE-op generators shared by C01 (round trip) and C16 (deterministic, content-defined, local chunking)."""
import random, os, re
import engine as E
from props import filegen as FG

def contents(rnd, tier):
    big = 300000 if tier == 'thorough' else 150000
    c = {
        'empty': b'', 'one': b'x', 'small': FG.text(rnd, 777),
        'text': FG.text(rnd, big), 'zeros': bytes(big), 'random': rnd.randbytes(big),
        'mid': rnd.randbytes(40000),
        'repeat': (FG.text(rnd, 997) * (big // 997 + 1))[:big],
    }
    return c

def segmentations(rnd, data, small_ok=True):
    """list of (name, ops string)"""
    def w(b): return 'w' + b.hex() if b else 'w'
    segs = [('one-write', [data])]
    if len(data) <= 40000 and len(data) > 0:
        segs.append(('1-byte-writes', [data[i:i+1] for i in range(len(data))]))
    if len(data) > 1:
        cuts = sorted(set(rnd.randrange(1, len(data)) for _ in range(min(20, len(data) - 1))))
        parts = [data[a:b] for a, b in zip([0] + cuts, cuts + [len(data)])]
        segs.append(('random-20', parts))
        parts = [data[i:i + 32768] for i in range(0, len(data), 32768)]
        segs.append(('32k-blocks', parts))
        parts = [data[i:i + 4099] for i in range(0, len(data), 4099)]
        segs.append(('4099-blocks', parts))
    out = []
    for name, parts in segs:
        out.append((name, '|'.join(w(p) for p in parts if p) or 'w'))
    return out

# ---- a reference port of the automatic chunker (buzhash.c + the automatic branch of zck_write), used only to CONSTRUCT contents
# whose boundaries fall where a generator wants them; the verdict never depends on it
_BT = []
def _buz_table():
    if not _BT:
        import build as B
        src = open(os.path.join(B.REPO, 'src/lib/buzhash/buzhash.c')).read()
        body = src[src.index('buzhash_table[]'):]
        body = body[:body.index('};')]
        _BT.extend(int(x, 16) for x in re.findall(r'0x[0-9a-fA-F]{8}', body))
        assert len(_BT) == 256
    return _BT

def _rol32(v, s):
    s %= 32
    return ((v << s) | (v >> (32 - s))) & 0xffffffff if s else v

def auto_boundaries(data, amin=8192, amax=131072, width=48, bits=15):
    """chunk lengths the automatic chunker gives for `data` written in one call (last chunk = what is left)"""
    T = _buz_table(); mask = (1 << bits) - 1
    sizes = []; dc = 0; win = []; loc = 0; h = 0
    i = 0; n = len(data)
    while i < n:
        c = data[i]
        if len(win) < width:
            win.append(c)
            if len(win) < width: h ^= _rol32(T[c], width - len(win)); out = 1
            else: h ^= T[c]; out = h
        else:
            h = _rol32(h, 1) ^ _rol32(T[win[loc]], width) ^ T[c]
            win[loc] = c; loc = (loc + 1) % width; out = h
        if (out & mask) == 0 or dc >= amax:
            if dc < amin: continue             # refused: the same byte is fed again
            sizes.append(dc); dc = 0; win = []; loc = 0; h = 0
            continue                           # the same byte starts the next chunk
        dc += 1; i += 1
    sizes.append(dc)
    return sizes

def content_with_boundary_near_min(rnd, amin=8192, window=(1, 40), tries=4000):
    """content whose FIRST automatic chunk ends `window` bytes after the automatic minimum size: found by trying random
    contents (a boundary within 40 bytes of a given point has probability ~0.1% per content)"""
    for _ in range(tries):
        d = rnd.randbytes(amin + 200)
        first = auto_boundaries(d, amin=amin)[0]
        if amin + window[0] <= first <= amin + window[1]:
            return d + rnd.randbytes(3000), first
    return None, None

def cfg_str(**k):
    return ','.join('%s=%s' % (a, b) for a, b in k.items())

def parse_out(line):
    """fields of a WRITE result line"""
    d = {}
    for t in line.split()[1:]:
        if '=' in t:
            a, b = t.split('=', 1); d[a] = b
    return d

def chunk_list(d):
    """[(digest, complen, len)] of the data chunks (index entry 0 is the dictionary)"""
    cl = d.get('cl', '')
    out = []
    for e in cl.split(';'):
        p = e.split(':')
        if len(p) == 3: out.append((p[0], int(p[1]), int(p[2])))
    return out[1:]

def project(impl, case):
    """what the chunk-structure model predicts: close result and uncompressed chunk sizes"""
    if not impl.startswith('OK') or not case.op.startswith('WRITE '): return impl
    d = parse_out(impl)
    if d.get('close') != '1': return 'OK close=0'
    lens = [e.split(':')[2] for e in d.get('cl', '').split(';') if e.count(':') == 2]
    return 'OK close=1 lens=' + ','.join(lens) + ' hdr=1 file=1'
