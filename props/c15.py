"""C15 — a unit-decoded (zstd) chunk is verified before any of its bytes are released."""
import random, os, copy
import engine as E
import zcklib as Z
from props import filegen as FG

PROP = 'C15'
MODULES = ['ZckModel.Props.C15']
ASSUMPTIONS = [
    "which corrupted frames still decompress, and to what, is libzstd's own verdict (side table computed by calling libzstd directly)",
    "hash collisions are not assumed away: 'verified' means the stored bytes hash to the index checksum",
]

def gen_cases(tier, seed, ctx):
    rnd = random.Random(seed)
    cases = []
    def add(kind, b, sizes, **m):
        i = len(cases)
        p = FG.write(ctx, 'b%d.zck' % i, b)
        zt = FG.ztab(b, p + '.ztab')
        cases.append(E.Case('b%d' % i, 'READSEQ %s %s %s' % (p, ','.join(map(str, sizes)), zt), dict(kind=kind, **{k: v for k, v in m.items() if k != 'good'})))
        # the same read on a context whose chunks were first marked valid from the INDEX of an intact copy
        # (zck_find_matching_chunks compares checksums in the indexes, not bytes): the reader must verify the bytes all the same
        if 'good' in m and (kind != 'bitflip' or i % 5 == 0):
            gp = FG.write(ctx, 'b%d.good.zck' % i, m['good'])
            cases.append(E.Case('b%dm' % i, 'READSEQ %s %s %s match=%s' % (p, ','.join(map(str, sizes)), zt, gp), dict(kind=kind + '/premarked')))
    files = []
    for zd in (None, FG.text(rnd, 90)):
        for un in (False, True):
            chunks = [FG.text(rnd, n) for n in ((150, 90, 200) if tier == 'quick' else (400, 300, 500))]
            files.append(Z.make(chunks, comp='zstd', zdict=zd, level=3, full=1, chunk=1 if un else 3, uncomp=un))
    for z in files:
        b = z.build()
        hl = len(z.header())
        # every single-bit flip over every body byte
        for pos in range(hl, len(b)):
            for bit in range(8):
                m = bytearray(b); m[pos] ^= 1 << bit
                # which chunk was hit decides the interesting buffer sizes (smaller / equal / larger than the chunk)
                off = pos - hl; acc = 0; hit = None
                for c in z.chunks:
                    if acc <= off < acc + c['comp_len']: hit = c
                    acc += c['comp_len']
                ln = max(hit['len'], 2) if hit else 64
                for bs in ((ln // 3 or 1), ln, ln + 17) if (bit == (pos % 8) or tier == 'thorough') else (rnd.choice([ln // 3 or 1, ln, ln + 17]),):
                    add('bitflip', bytes(m), [bs], good=b)
        # corrupted bodies that decompress to something else, with checksums NOT updated: replace a chunk's body by another valid frame
        for k in range(1, len(z.chunks)):
            for j in range(1, len(z.chunks)):
                if j == k: continue
                y = copy.deepcopy(z)
                y.chunks[k]['stored'] = z.chunks[j]['stored']
                # keep the index (sizes, digests) of k: only possible when the stored sizes agree; otherwise re-declare the size
                y.chunks[k]['comp_len'] = len(y.chunks[k]['stored'])
                for bs in (7, 1000): add('foreign-frame', y.build(), [bs])
            # a frame of the right length from re-compressing different content
            alt = bytearray(z.chunks[k]['plain']); alt[0] ^= 0x20
            dplain = z.chunks[0]['plain'] if z.chunks[0]['len'] else None
            st = Z.zcompress(bytes(alt), 3, dplain)
            y = copy.deepcopy(z); y.chunks[k]['stored'] = st; y.chunks[k]['comp_len'] = len(st)
            for bs in (5, 64, 4096): add('recompressed-other-content', y.build(), [bs])
        for s in ([1], [13], [4096]): add('valid', b, s)
    # chunks whose STORED size exceeds libzstd's streaming input block (128 KiB + 3): a reader that decodes such a chunk
    # piecewise must still hold every byte back until the whole chunk has been verified
    for zd in (None, FG.text(rnd, 90)):
        big = rnd.randbytes(150000 if tier == 'quick' else 300000)
        z = Z.make([FG.text(rnd, 300), big, FG.text(rnd, 200)], comp='zstd', zdict=zd, level=3, full=1, chunk=1)
        b = z.build(); hl = len(z.header())
        c1 = z.chunks[1]; c2 = z.chunks[2]
        start = hl + z.chunks[0]['comp_len'] + c1['comp_len']
        assert c2['comp_len'] >= 131075 + 1000, c2['comp_len']
        ln = c2['len']
        add('valid', b, [ln // 3]); add('valid', b, [100000])
        for _ in range(6 if tier == 'quick' else 40):
            pos = start + rnd.randrange(32, c2['comp_len'] - 8)
            m = bytearray(b); m[pos] ^= 1 << rnd.randrange(8)
            for bs in (ln // 3, ln, 300 + ln, 4096, ln + 1000):
                add('bitflip-large-chunk', bytes(m), [bs], good=b)
    return cases

def nontrivial(r):
    return r['meta'].get('kind') != 'valid'

def run(tier, seed, replay=None):
    rule = ("READSEQ on zstd files (with/without dictionary, with/without uncompressed-source flag, three chunks) with EVERY single-bit flip "
            "over every body byte (bad chunk first/middle/last follows from the position) read with a buffer smaller than, equal to and "
            "larger than the damaged chunk (all three for one bit per byte in quick, for all bits in thorough), plus bodies replaced by "
            "other valid frames and by re-compressed different content with the index checksums left alone; the predicate is evaluated on "
            "everything successful reads returned, including reads after the error")
    return E.standard_run(PROP, MODULES, gen_cases, tier, seed, replay, ASSUMPTIONS, rule, nontrivial=nontrivial, timeout_s=60)
