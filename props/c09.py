"""C09 — validity scan classifies every chunk exactly and is side-effect free."""
import random, os, itertools, copy
import engine as E
import zcklib as Z
from props import filegen as FG

PROP = 'C09'
MODULES = ['ZckModel.Props.C09', 'ZckModel.Props.C09Scan', 'ZckModel.Props.C09Verdict', 'ZckModel.Props.C09Reads', 'ZckModel.Props.C09After']
ASSUMPTIONS = [
    "the target is a regular file: read() is short only at end of file",
    "codec and hash as in C02 (side table from libzstd; Lean's own SHA)",
]
OPS = ['v', 'f', 'd', 'rc', 'vrc', 'drc', 'frc', 'vdrc', 'dvrc', 'vvrc', 'fdvrc', 'ddrc', 'vd', 'dv',
       'rv', 'rf', 'rd', 'rvd', 'vrv', 'rdf', 'frf', 'drvf']       # validations AFTER reads on the same context too

def damaged(rnd, z, states):
    """target bytes with each chunk region present / zeroed / garbage"""
    hdr = z.header(); body = bytearray()
    for c, s in zip(z.chunks, states):
        st = c['stored']
        if s == 'p': body += st
        elif s == 'z': body += bytes(len(st))
        else: body += bytes((x ^ 0x5a) for x in st) if st else b''
    return hdr + bytes(body)

def gen_cases(tier, seed, ctx):
    rnd = random.Random(seed)
    cases = []
    def add(kind, b, ops):
        i = len(cases)
        p = FG.write(ctx, 's%d.zck' % i, b)
        zt = FG.ztab(b, p + '.ztab')
        cases.append(E.Case('s%d' % i, 'SCAN %s %s %s' % (p, ops, zt), dict(kind=kind)))
    files = []
    for comp in ('none', 'zstd'):
        for zd in (None, FG.text(rnd, 80)):
            for un in (False, True):
                chunks = [FG.text(rnd, rnd.choice([20, 200])) for _ in range(3 if tier == 'quick' else 5)]
                chunks[1] = chunks[0]                                   # identical neighbours (stale-buffer hazard)
                files.append(Z.make(chunks, comp=comp, zdict=zd, full=1, chunk=1 if un else 3, uncomp=un))
    # a file whose chunks are larger than the validators' 32 KiB buffer
    big = Z.make([FG.text(rnd, 40000), FG.text(rnd, 40000), FG.text(rnd, 70000)], comp='none', full=1, chunk=3)
    big.chunks[2] = copy.deepcopy(big.chunks[1]); big.finish()
    for z in files:
        b = z.build()
        hl = len(z.header())
        n = len(z.chunks)
        for ops in OPS: add('intact', b, ops)
        # all damage subsets
        for states in itertools.product('pzg', repeat=n):
            if all(s == 'p' for s in states): continue
            for ops in (rnd.sample(OPS, 2) if tier == 'quick' else OPS):
                add('damage-subset', damaged(rnd, z, states), ops)
        # all truncation lengths of the body (and the header end), over-long files
        for cut in range(hl, len(b)):
            add('truncate', b[:cut], rnd.choice(OPS))
        add('overlong', b + b'tail' * 10, 'vrc'); add('overlong', b + b'tail' * 10, 'drc')
        # all chunks fine but the data checksum wrong (re-sealed header)
        y = copy.deepcopy(z); y.data_digest = bytes(len(y.data_digest) - 1) + b'\x01'
        # (single validations, and the data-checksum validation AFTER scans / reads that marked every chunk valid)
        for ops in ('v', 'd', 'vrc', 'f', 'fd', 'vd', 'rd', 'vfd', 'rfd', 'fdd', 'dfd', 'rvd'): add('bad-data-checksum', y.build(), ops)
        # detached header with the dictionary chunk appended: only the dictionary is scanned
        y = copy.deepcopy(z); y.detached = True
        hb = y.header()
        for ops in ('v', 'f', 'd', 'vd', 'fd', 'dvd', 'dfd', 'vfd', 'dv', 'vvd'):      # the verdict of one validation must not depend on the ones before
            add('detached', hb + z.chunks[0]['stored'], ops)
            add('detached-bad-dict', hb + bytes(len(z.chunks[0]['stored'])), ops)
    bb = big.build(); bhl = len(big.header())
    for ops in ('v', 'd', 'vrc'): add('big-intact', bb, ops)
    for cut in (bhl + 40000, bhl + 80000, bhl + 80001, bhl + 32768, bhl + 40000 + 32768, len(bb) - 1, bhl + 112768):
        for ops in ('v', 'd', 'f'): add('big-truncate', bb[:cut], ops)
    return cases

def nontrivial(r):
    return r['meta'].get('kind') not in ('intact', 'big-intact')

def run(tier, seed, replay=None):
    rule = ("SCAN (sequences of zck_validate_checksums / zck_find_valid_chunks / zck_validate_data_checksum / read-to-end / close) on targets "
            "whose chunk regions are each present, zeroed or garbage (all 3^n subsets, n=4 quick / 6 thorough, identical neighbouring chunks), "
            "every truncation length of the body, over-long files, wrong data checksum with all chunks fine, detached headers with good/bad "
            "dictionary (single validations and sequences of them on one context), and >32 KiB chunks truncated at buffer multiples; files: none/zstd x dictionary x uncompressed-source flag")
    return E.standard_run(PROP, MODULES, gen_cases, tier, seed, replay, ASSUMPTIONS, rule, nontrivial=nontrivial, timeout_s=60)
