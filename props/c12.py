"""C12 — I/O failures are reported, never turned into success."""
import random, os, subprocess
import engine as E
import zcklib as Z
from props import filegen as FG, writegen as WG

PROP = 'C12'
MODULES = ['ZckModel.Props.C12']
ASSUMPTIONS = [
    "PARTIAL: theorems cover src/lib/io.c (read_data, write_data; chunks_from_temp is modelled and corresponded); the call sites above it "
    "and the tools are covered by fault-injection runs (every k-th read/write/lseek of a scenario failing once), judged against the "
    "fault-free result, not by theorems",
    "POSIX: a successful write of n bytes stores exactly those bytes at the offset; faults are injected by link-time interposition "
    "(-Wl,--wrap) in the harness, so only calls made from the library objects are affected",
]
KINDS_R = ['eio', 'eintr', 's1', 's7']
KINDS_W = ['eio', 'enospc', 'eintr', 's1', 's5']

def rnd_sched(rnd, n, kinds):
    return ','.join(rnd.choice(['ok', 'ok', 'ok'] + kinds + ['s%d' % rnd.choice([1, 2, 100, 4096, 32767, 32768, 40000])]) for _ in range(n)) or '-'

def run_k0(ctx, op):
    """fault-free run of a scenario: returns the result line"""
    p = os.path.join(ctx['work'], 'k0.in'); q = os.path.join(ctx['work'], 'k0.out')
    open(p, 'w').write('k0 %s\n' % op)
    subprocess.run([ctx['zdrv'], p, q, '30'], capture_output=True)
    line = open(q).read().strip()
    return line.split(' ', 1)[1] if ' ' in line else line

def gen_cases(tier, seed, ctx):
    rnd = random.Random(seed)
    cases = []
    hx = lambda b: b.hex() if b else '-'
    # ---- io.c layer against the Lean model, random schedules
    nseq = 1500 if tier == 'quick' else 15000
    for _ in range(nseq):
        which = rnd.choice(['read_data', 'write_data', 'chunks_from_temp'])
        if which == 'read_data':
            fb = rnd.randbytes(rnd.choice([0, 1, 10, 300, 5000]))
            pos = rnd.randrange(0, len(fb) + 2); ln = rnd.choice([0, 1, 5, 100, 6000])
            op = 'IOSEQ read_data %s %s %d %d' % (rnd_sched(rnd, rnd.randrange(0, 8), ['eintr', 'eio']), hx(fb), pos, ln)
        elif which == 'write_data':
            fb = rnd.randbytes(rnd.choice([0, 3, 50])); pos = rnd.randrange(0, len(fb) + 5)
            d = rnd.randbytes(rnd.choice([0, 1, 2, 40, 3000]))
            op = 'IOSEQ write_data %s %s %d %s' % (rnd_sched(rnd, rnd.randrange(0, 4), ['eintr', 'eio', 'enospc']), hx(fb), pos, hx(d))
        else:
            tb = rnd.randbytes(rnd.choice([0, 1, 100, 32768, 32769, 70000])); ob = rnd.randbytes(rnd.choice([0, 60]))
            op = 'IOSEQ chunks_from_temp %s %s %s' % (rnd_sched(rnd, rnd.randrange(0, 9), ['eintr', 'eio', 'enospc']), hx(tb), hx(ob))
        cases.append(E.Case('i%d' % len(cases), op, dict(kind='ioseq-' + which)))
    # ---- write_data under runs of consecutive short writes (two, three, four in a row; then healthy): the retry happens ONCE
    for _ in range(60 if tier == 'quick' else 600):
        d = rnd.randbytes(rnd.choice([5, 40, 300, 3000]))
        nshort = rnd.choice([2, 2, 3, 4])
        sch = ['s%d' % rnd.randrange(1, max(2, len(d) // (nshort + 1))) for _ in range(nshort)] + rnd.choice([[], ['ok'], ['eintr'], ['eio']])
        fb = rnd.randbytes(rnd.choice([0, 3, 50])); pos = rnd.randrange(0, len(fb) + 5)
        cases.append(E.Case('i%d' % len(cases), 'IOSEQ write_data %s %s %d %s' % (','.join(sch), hx(fb), pos, hx(d)), dict(kind='ioseq-write_data-shortrun')))
    # ... and a short write followed by interrupted retries (and the other way round): the retry starts where the short write stopped
    for _ in range(40 if tier == 'quick' else 400):
        d = rnd.randbytes(rnd.choice([5, 40, 300, 3000]))
        k = 's%d' % rnd.randrange(1, len(d))
        sch = rnd.choice([[k, 'eintr'], [k, 'eintr', 'eintr'], ['eintr', k], ['eintr', k, 'eintr'], [k, 'eintr', 'ok']])
        fb = rnd.randbytes(rnd.choice([0, 3, 50])); pos = rnd.randrange(0, len(fb) + 5)
        cases.append(E.Case('i%d' % len(cases), 'IOSEQ write_data %s %s %d %s' % (','.join(sch), hx(fb), pos, hx(d)), dict(kind='ioseq-write_data-short-eintr')))
    for _ in range(30 if tier == 'quick' else 300):
        tb = rnd.randbytes(rnd.choice([100, 32768, 40000])); ob = rnd.randbytes(rnd.choice([0, 60]))
        pre = ['ok'] * rnd.choice([1, 2])                # the seek (and a read) go through, then the write is short several times
        sch = pre + ['s%d' % rnd.randrange(1, 30) for _ in range(rnd.choice([2, 3]))]
        cases.append(E.Case('i%d' % len(cases), 'IOSEQ chunks_from_temp %s %s %s' % (','.join(sch), hx(tb), hx(ob)), dict(kind='ioseq-chunks_from_temp-shortrun')))
    # ---- whole scenarios, every k-th call failing once
    data = FG.text(rnd, 5000)
    good = Z.make([FG.text(rnd, 400), FG.text(rnd, 40000), FG.text(rnd, 90)], comp='zstd', zdict=FG.text(rnd, 80))
    goodn = Z.make([FG.text(rnd, 400), FG.text(rnd, 40000), FG.text(rnd, 90)], comp='none')
    bad = bytearray(goodn.build()); bad[-50] ^= 1
    scen = []
    for tag, z in (('zstd', good), ('none', goodn)):
        p = FG.write(ctx, 'io_%s.zck' % tag, z.build())
        scen.append(('read', '%s 1000' % p, KINDS_R, 'read-' + tag))
        scen.append(('validate', p, KINDS_R, 'validate-' + tag))
    pb = FG.write(ctx, 'io_bad.zck', bytes(bad))
    scen.append(('validate', pb, KINDS_R, 'validate-badchunk'))
    for cfg in ('comp=none,manual=1', 'comp=zstd', 'comp=zstd,dict=' + FG.text(rnd, 60).hex()):
        scen.append(('write', '@OUT@ %s w%s|e|w%s' % (cfg, data[:3000].hex(), data[3000:].hex()), KINDS_W, 'write-' + cfg.split(',')[0]))
    # copy: target = header of B + zero body, source = A sharing chunks
    pool = [FG.text(rnd, n) for n in (300, 40000, 200, 100)]
    Bz = Z.make([pool[0], pool[1], pool[2]], comp='none'); A = Z.make([pool[3], pool[1], pool[0]], comp='none')
    ctx['copy_tgt'] = Bz.header() + bytes(len(Bz.body()))
    ps = FG.write(ctx, 'io_src.zck', A.build())
    scen.append(('copy', '@TGT@ %s' % ps, KINDS_R + ['enospc'], 'copy'))
    for sc, args, kinds, name in scen:
        def mk(k, kind):
            a = args
            if '@TGT@' in a:
                tp = FG.write(ctx, 'io_t%d_%d.zck' % (len(cases), k), ctx['copy_tgt']); a = a.replace('@TGT@', tp)
            if '@OUT@' in a:        # every case writes its own output file (cases run in parallel)
                a = a.replace('@OUT@', os.path.join(ctx['work'], 'io_w%d_%d_%s.zck' % (len(cases), k, kind)))
            return 'IOFAULT %s %d %s %s' % (sc, k, kind, a)
        base = run_k0(ctx, mk(0, 'eio'))
        toks = dict(t.split('=', 1) for t in base.split()[1:] if '=' in t)
        n = int(toks.get('calls', '0'))
        ks = range(1, n + 1) if (n <= 120 or tier == 'thorough') else sorted(rnd.sample(range(1, n + 1), 120))
        for k in ks:
            for kind in kinds:
                cases.append(E.Case('f%d' % len(cases), mk(k, kind), dict(kind='fault-' + name, base=base, impl_only=True, k=k, fault=kind)))
        # two faults: handled by thorough tier through random k pairs is not supported by the op; single faults are exhaustive here
    return cases

def project(impl, case):
    if case.op.startswith('IOSEQ chunks_from_temp'):
        return ' '.join(impl.split(' ')[:3])
    if case.op.startswith('IOSEQ'):
        return impl
    return impl

def tool_faults(ctx):
    """zck and unzck (built from the working tree) under an LD_PRELOAD shim failing the k-th read/write once"""
    import build as B
    tdir = B.build_tools(variant='plain')
    so = os.path.join(tdir, 'preload_io.so')
    if not os.path.exists(so):
        B.run([B.CC, '-shared', '-fPIC', '-O1', '-o', so, os.path.join(E.VERIF, 'harness', 'preload_io.c'), '-ldl'])
    rnd = random.Random(ctx['seed'] + 5)
    work = ctx['work']
    data = FG.text(rnd, 90000)
    src = os.path.join(work, 'tf_in'); open(src, 'wb').write(data)
    res = []
    def run(cmd, k, kind, outs):
        env = dict(os.environ, LD_PRELOAD=so, IOF_K=str(k), IOF_KIND=kind, IOF_COUNT=os.path.join(work, 'tf_count'))
        for o in outs:
            if os.path.exists(o): os.unlink(o)
        try:
            r = subprocess.run(cmd, capture_output=True, env=env, timeout=60)
        except subprocess.TimeoutExpired:
            return None, 0, b''
        try: n = int(open(os.path.join(work, 'tf_count')).read())
        except Exception: n = 0
        return r.returncode, n, r.stdout
    zf = os.path.join(work, 'tf.zck')
    base_rc, n_z, _ = run([os.path.join(tdir, 'zck'), '-o', zf, src], 0, 'eio', [zf])
    good = open(zf, 'rb').read()
    goodzf = os.path.join(work, 'tf_good.zck'); open(goodzf, 'wb').write(good)
    for k in range(1, n_z + 1):
        for kind in ('eio', 'eintr', 's3', 'enospc'):
            rc, _, _ = run([os.path.join(tdir, 'zck'), '-o', zf, src], k, kind, [zf])
            out = open(zf, 'rb').read() if os.path.exists(zf) else b''
            ok = not (rc == 0 and out != good)
            res.append(('zck k=%d %s' % (k, kind), ok, 'exit %s, archive %s' % (rc, 'identical' if out == good else 'DIFFERENT (%d bytes vs %d)' % (len(out), len(good)))))
    _, n_u, _ = run([os.path.join(tdir, 'unzck'), '-c', goodzf], 0, 'eio', [])
    for k in range(1, n_u + 1):
        for kind in ('eio', 'eintr', 's3', 'enospc'):
            rc, _, so_ = run([os.path.join(tdir, 'unzck'), '-c', goodzf], k, kind, [])
            ok = not (rc == 0 and so_ != data)
            res.append(('unzck -c k=%d %s' % (k, kind), ok, 'exit %s, output %s' % (rc, 'identical' if so_ == data else 'DIFFERENT (%d bytes)' % len(so_))))
    # unzck --header writes <name>.zhr into the current directory
    _, n_h, _ = run([os.path.join(tdir, 'unzck'), '--header', '-c', goodzf], 0, 'eio', [])
    _, _, hdr_good = run([os.path.join(tdir, 'unzck'), '--header', '-c', goodzf], 0, 'eio', [])
    for k in range(1, n_h + 1):
        for kind in ('eio', 's3', 'enospc'):
            rc, _, so_ = run([os.path.join(tdir, 'unzck'), '--header', '-c', goodzf], k, kind, [])
            ok = not (rc == 0 and so_ != hdr_good)
            res.append(('unzck --header -c k=%d %s' % (k, kind), ok, 'exit %s, output %s' % (rc, 'identical' if so_ == hdr_good else 'DIFFERENT')))
    return res

def post(recs, ctx):
    import zcklib as Z, hashlib
    for i, (op, ok, detail) in enumerate(tool_faults(ctx)):
        recs.append(dict(id='tf%d' % i, op='TOOLFAULT ' + op, impl=('OK ' if ok else 'FAIL ') + detail, model=('OK ' if ok else 'FAIL ') + detail,
                         prop=ok, agree=True, sig='' if ok else 'C12/tool/success-with-wrong-output', meta=dict(kind='tool-fault')))
    for r in recs:
        m = r['meta']
        if not m.get('impl_only'): continue
        r['model'] = r['impl']; r['agree'] = True
        base = dict(t.split('=', 1) for t in m['base'].split()[1:] if '=' in t)
        got = dict(t.split('=', 1) for t in r['impl'].split()[1:] if '=' in t)
        ok = True; why = ''
        if r['impl'].split(' ')[0] in ('CRASH', 'HANG', 'MISSING'):
            ok = False; why = 'crash'
        elif m['kind'].startswith('fault-read'):
            # success reported => content equals the fault-free content
            if got.get('ok') == '1' and got.get('out') != base.get('out'): ok = False; why = 'read success with other content'
        elif m['kind'].startswith('fault-write'):
            if got.get('ok') == '1' and got.get('file') != base.get('file'): ok = False; why = 'write success with other file'
        elif m['kind'].startswith('fault-validate'):
            # "all valid" (1) may only be reported when it is true; flags valid only where the fault-free scan says so
            if got.get('v') == '1' and base.get('v') != '1': ok = False; why = 'validate 1 on a bad file'
            if got.get('d') == '1' and base.get('d') != '1': ok = False; why = 'data checksum 1 on a bad file'
            fb, fg = base.get('flags', ''), got.get('flags', '')
            if any(g == '1' and b != '1' for g, b in zip(fg, fb)): ok = False; why = 'chunk valid under a fault that is not valid'
        elif m['kind'] == 'fault-copy':
            fb, fg = base.get('flags', ''), got.get('flags', '')
            # a chunk may only be valid if the fault-free copy also made it valid AND the bytes are there: compare target bytes
            if any(g == '1' and b != '1' for g, b in zip(fg, fb)): ok = False; why = 'chunk valid that the fault-free copy does not validate'
            if fg == fb and got.get('tgt') != base.get('tgt') and all(c == '1' for c in fg): ok = False; why = 'all valid but target differs'
            # judged on the bytes: a chunk marked valid must have, at its extent of the target file as it is on disk now, bytes with its checksum
            try:
                tpath = r['op'].split(' ')[4]
                after = open(tpath, 'rb').read()
                hd = Z.parse(ctx['copy_tgt'])
                off = hd['lead'] + hd['header_len']
                for c, g in zip(hd['chunks'], fg):
                    if g == '1' and c['comp_len'] > 0 and Z.H(hd['chunk_hash_type'], after[off + c['start']: off + c['start'] + c['comp_len']]) != c['digest']:
                        ok = False; why = 'chunk marked valid whose bytes are not in the target'
            except (OSError, ValueError, IndexError, KeyError):
                pass
        r['prop'] = ok
        if not ok:
            r['sig'] = 'C12/' + m['kind'] + '/' + why.replace(' ', '-')
            if m['kind'] == 'fault-copy' and ctx.get('copy_tgt'): m['tgt_before'] = ctx['copy_tgt'].hex()     # the replay starts from the pristine target
    ctx.pop('copy_tgt', None)

def replay_setup(ctx, rp):
    tb = (rp.get('meta') or {}).get('tgt_before')
    if tb:
        ctx['copy_tgt'] = bytes.fromhex(tb)
        for op in rp.get('ops', []):
            t = op.split(' ')
            if len(t) > 5 and t[1] == 'IOFAULT' and t[2] == 'copy':
                rp.setdefault('files', {})[t[5].replace('@WORK@/', '')] = tb

def nontrivial(r):
    return 'fired=0' not in r['impl']

def run(tier, seed, replay=None):
    rule = ("IOSEQ: read_data / write_data / chunks_from_temp called directly under random schedules of short counts, EINTR and hard errors (plus runs of 2-4 consecutive short writes), "
            "compared with the Lean model of io.c; IOFAULT: whole scenarios (read a zstd+dict and an uncompressed file, validate good and "
            "damaged files, write with none/zstd/dictionary, copy chunks) with the k-th read/write/lseek call failing once, for EVERY k "
            "(sampled above 120 calls in quick) x {EIO, ENOSPC, EINTR, short counts}, judged against the fault-free result; non-trivial = a "
            "fault actually fired")
    return E.standard_run(PROP, MODULES, gen_cases, tier, seed, replay, ASSUMPTIONS, rule, nontrivial=nontrivial, timeout_s=30,
                          post=post, project=project, replay_setup=replay_setup)
