"""File pairs (old A, new B), initial targets and the UPDATE op line shared by C04 and C11."""
import random, os
import engine as E
import zcklib as Z
from props import filegen as FG

def edit(rnd, chunks):
    """B's chunk list derived from A's by one edit in a random region"""
    c = list(chunks)
    k = rnd.randrange(4)
    i = rnd.randrange(len(c))
    if k == 0: c.insert(i, FG.text(rnd, rnd.choice([5, 30, 90])))
    elif k == 1 and len(c) > 1: del c[i]
    elif k == 2: c[i] = FG.text(rnd, rnd.choice([7, 40, 120]))
    else: c.append(FG.text(rnd, 25))
    return c

def pairs(rnd, tier, big=True):
    """[(tag, A bytes or None, B ZFile)]"""
    out = []
    cfgs = [dict(comp='none', full=1, chunk=3), dict(comp='zstd', full=1, chunk=1), dict(comp='none', full=2, chunk=2, uncomp=True),
            dict(comp='zstd', full=0, chunk=0, zdict=True)]
    for ci, cfg in enumerate(cfgs):
        cfg = dict(cfg)
        zd = FG.text(rnd, 90) if cfg.pop('zdict', False) else None
        base = [FG.text(rnd, rnd.choice([12, 33, 70, 150])) for _ in range(rnd.choice([3, 4, 6]))]
        A = Z.make(base, zdict=zd, **cfg)
        out.append(('edit/c%d' % ci, A.build(), Z.make(edit(rnd, base), zdict=zd, **cfg)))
        # an old file that is itself damaged: cut inside its data (an earlier interrupted download) or with one byte off
        ab = A.build(); ha = len(A.header())
        if len(ab) > ha + 2:
            Bz = Z.make(edit(rnd, base), zdict=zd, **cfg)
            out.append(('old-truncated/c%d' % ci, ab[:rnd.randrange(ha + 1, len(ab))], Bz))
            m = bytearray(ab); m[rnd.randrange(ha, len(ab))] ^= 0x20
            out.append(('old-corrupt/c%d' % ci, bytes(m), Bz))
        if ci == 0:
            out.append(('edit2/c%d' % ci, A.build(), Z.make(edit(rnd, edit(rnd, base)), zdict=zd, **cfg)))
            out.append(('same/c%d' % ci, A.build(), A))
            out.append(('absent/c%d' % ci, None, Z.make(edit(rnd, base), zdict=zd, **cfg)))
            out.append(('unrelated/c%d' % ci, Z.make([FG.text(rnd, 40) for _ in range(3)], **cfg).build(), A))
            other = dict(cfg); other['chunk'] = 1
            out.append(('other-hashtype/c%d' % ci, Z.make(base, **other).build(), Z.make(edit(rnd, base), **cfg)))
            dup = [base[0], base[1], base[0], base[1], base[0]]
            out.append(('duplicates/c%d' % ci, Z.make([base[1], base[2]], **cfg).build(), Z.make(dup, **cfg)))
            # identical neighbours: a chunk followed by a copy of itself (a scan working from stale buffers would trust a partial copy)
            adj = [base[0], base[1], base[1], base[2], base[2], base[2]]
            out.append(('adjacent-dup/c%d' % ci, Z.make([base[1]], **cfg).build() if rnd.random() < 0.5 else None, Z.make(adj, **cfg)))
            # records separated by one-byte chunks; neighbouring records rewritten: missing extents one valid byte apart
            recs = [FG.text(rnd, rnd.choice([9, 20, 41])) for _ in range(5)]
            sep = lambda rs: [x for r in rs for x in (r, b';')][:-1]
            new = list(recs); new[1] = FG.text(rnd, 17); new[2] = FG.text(rnd, 23); new[4] = FG.text(rnd, 8)
            out.append(('separators/c%d' % ci, Z.make(sep(recs), **cfg).build(), Z.make(sep(new), **cfg)))
            out.append(('reordered/c%d' % ci, Z.make(list(reversed(base)), **cfg).build(), A))
        if ci == 3:
            out.append(('other-dict/c%d' % ci, Z.make(base, zdict=FG.text(rnd, 91), **cfg).build(), Z.make(edit(rnd, base), zdict=zd, **cfg)))
    if big:
        # chunks spanning several 32 KiB copy/scan buffers and several 16 KiB transport buffers; the old file has the largest
        bigc = [bytes(rnd.getrandbits(8) for _ in range(n)) for n in (70000, 500, 40000)]
        out.append(('big', Z.make([FG.text(rnd, 300), bigc[0]], comp='none').build(), Z.make(bigc, comp='none')))
    return out

def targets(rnd, Abytes, B):
    """{name: initial bytes of the target path}"""
    bB = B.build(); hdr = B.header(); body = B.body()
    t = {'absent': b'', 'garbage-short': bytes(rnd.getrandbits(8) for _ in range(40)),
         'garbage-long': bytes(rnd.getrandbits(8) for _ in range(len(bB) + 300)), 'complete': bB,
         'truncated': bB[:rnd.randrange(len(hdr) // 2, len(bB))]}
    if Abytes: t['old-A'] = Abytes
    # everything of B in place already, followed by leftover bytes (a longer earlier version, a run that died before its final truncation)
    t['complete-plus-tail'] = bB + bytes(rnd.getrandbits(8) for _ in range(rnd.choice([1, 5000])))
    # partial B: some chunks in place, the others zero or garbage
    p = bytearray(hdr + bytes(len(body))); off = len(hdr)
    for c in B.chunks:
        r = rnd.random()
        if r < 0.4: p[off:off + c['comp_len']] = c['stored']
        elif r < 0.6: p[off:off + c['comp_len']] = bytes(rnd.getrandbits(8) for _ in range(c['comp_len']))
        off += c['comp_len']
    t['partial'] = bytes(p)
    m = bytearray(bB); m[rnd.randrange(len(hdr), len(bB))] ^= 0x04
    t['one-bit-off'] = bytes(m)
    t['header-only'] = hdr
    # the file ends exactly at a chunk boundary (a following identical chunk must not be trusted from stale buffers)
    off = len(hdr)
    for k, c in enumerate(B.chunks[:7]):
        off += c['comp_len']
        if 0 < c['comp_len'] and off < len(bB): t['cut-after-chunk%d' % k] = bB[:off]
        if c['comp_len'] > 2: t['cut-inside-chunk%d' % k] = bB[:off - rnd.randrange(1, c['comp_len'])]
        for j in range(1, c['comp_len'] // 32768 + 1):      # the file ends a whole number of read buffers into the chunk
            if 32768 * j < c['comp_len']: t['cut-%dx32k-into-chunk%d' % (j, k)] = bB[:off - c['comp_len'] + 32768 * j]
    return t

class Writer:
    def __init__(self, ctx):
        self.ctx = ctx; self.n = 0; self.cache = {}
    def file(self, b, tag):
        k = (tag, b)
        if k not in self.cache:
            self.cache[k] = FG.write(self.ctx, '%s%d' % (tag, len(self.cache)), b)
        return self.cache[k]
    def op(self, A, Bb, tgt, limit, frag, kill='-', drop=None):
        i = self.n; self.n += 1
        bp = self.file(Bb, 'B'); ap = self.file(A, 'A') if A else '-'
        tp = FG.write(self.ctx, 'u%d.tgt' % i, tgt); FG.write(self.ctx, 'u%d.tgt.before' % i, tgt)
        return 'UPDATE %s %s %s %d %s %s%s' % (bp, ap, tp, limit, frag, kill, (' ' + drop) if drop else '')

def project(impl, c):
    """drop what the model does not predict: libc's logged answers, the number of write calls, and (kill runs) everything
    the interrupted runs printed"""
    if c.op.startswith('ZCKDL'):      # the real tool: only the predicate judges it
        return 'OK' if impl.startswith('OK') else impl
    toks = [t for t in impl.split(' ') if not (t.startswith('rx=') or t.startswith('rc=') or t.startswith('writes=') or t.startswith('r.writes=')
                                             or t.startswith('killed='))]
    return ' '.join(toks)

def drop_cases(rnd, W, tier, n):
    """the connection drops in the middle of a transfer (after a number of body bytes: inside a chunk, at a chunk end, inside a
    multipart part header) and the client goes on: zck_dl_reset, a new request, a complete response - on the SAME contexts"""
    out = []
    prs = pairs(rnd, tier, big=False)
    for _ in range(n):
        tag, A, B = rnd.choice(prs)
        Bb = B.build(); body = len(B.body())
        if body < 4: continue
        tgt = rnd.choice([b'', B.header(), B.header() + bytes(body)])
        lim = rnd.choice([-1, -1, 1, 2, 3])
        cutb = rnd.choice([1, 2, rnd.randrange(1, body + 80), rnd.randrange(1, body + 80), max(1, body // 2)])
        out.append((W.op(A, Bb, tgt, lim, rnd.choice(['-', 'b7', 'b64']), '-', '%d:%d' % (rnd.choice([1, 1, 2]), cutb)),
                    'retry-after-drop/' + tag.split('/')[0]))
    return out
