"""File-level generators shared by the reader/validator checks (C02 C09 C14 C15 ...)."""
import os, random
import zcklib as Z

def ztab(b, path):
    """zstd side table for file bytes b: what libzstd itself (called directly, not through zchunk) makes of every
    stored chunk: '<dictflag> <storedhex> OK <plainhex>' or '... ERR'.  Returns the path or '-'."""
    try:
        p = Z.parse(b)
    except Exception:
        return '-'
    if p['comp_type'] != 2:
        return '-'
    off = p['lead'] + p['header_len']
    lines = []
    def stored(c):
        s = b[off + c['start']: off + c['start'] + c['comp_len']]
        return s if len(s) == c['comp_len'] else None
    def dec(st, d, declared):
        # capacity declared+1: a frame holding more than that is rejected by the library and by the reference decoder alike
        r = Z.zdecompress(st, min(maxlen, 1 << 24) + 1, d)
        return None if r is None else r[0][:r[1]]
    chunks = p['chunks']
    if not chunks: return '-'
    maxlen = max(c['len'] for c in chunks)
    d0 = stored(chunks[0])
    dictplain = None
    if d0 is not None and chunks[0]['len'] > 0:
        pl = dec(d0, None, chunks[0]['len'])
        lines.append('0 %s %s' % (d0.hex() or '-', 'ERR' if pl is None else 'OK ' + (pl.hex() or '-')))
        dictplain = pl
        if pl is not None:
            pl2 = dec(d0, pl, chunks[0]['len'])
            lines.append('1 %s %s' % (d0.hex() or '-', 'ERR' if pl2 is None else 'OK ' + (pl2.hex() or '-')))
    seen = set()
    for c in chunks[1:]:
        st = stored(c)
        if st is None or st in seen: continue
        seen.add(st)
        flag = 1 if dictplain else 0
        pl = dec(st, dictplain if dictplain else None, c['len'])
        lines.append('%d %s %s' % (flag, st.hex() or '-', 'ERR' if pl is None else 'OK ' + (pl.hex() or '-')))
    open(path, 'w').write('\n'.join(lines) + '\n')
    return path

def text(rnd, n):
    words = [b'alpha', b'beta', b'gamma', b'delta', b'<text:p>', b'</text:p>', b'\n', b' ', b'zchunk', b'0123456789']
    out = bytearray()
    while len(out) < n:
        out += rnd.choice(words)
    return bytes(out[:n])

def valid_files(rnd, sizes=(0, 1, 3), big=False):
    """list of (tag, ZFile): none/zstd x dict/no dict x flag4 x hash types x chunk counts"""
    out = []
    cfgs = [
        dict(comp='none', full=1, chunk=3), dict(comp='zstd', full=1, chunk=3),
        dict(comp='zstd', full=1, chunk=3, zdict=True), dict(comp='none', full=1, chunk=3, zdict=True),
        dict(comp='zstd', full=1, chunk=1, uncomp=True), dict(comp='none', full=2, chunk=2, uncomp=True),
        dict(comp='zstd', full=0, chunk=0, zdict=True), dict(comp='zstd', full=2, chunk=1, uncomp=True, zdict=True),
    ]
    for ci, cfg in enumerate(cfgs):
        for n in sizes:
            cfg2 = dict(cfg)
            zd = text(rnd, 120) if cfg2.pop('zdict', False) else None
            chunks = [text(rnd, rnd.choice([1, 17, 200, 700] if not big else [3000, 40000, 70000])) for _ in range(n)]
            if n >= 3 and ci % 2 == 0: chunks[2] = chunks[0]          # duplicate chunk
            z = Z.make(chunks, zdict=zd, level=rnd.choice([1, 3, 9]), **cfg2)
            out.append(('c%dn%d' % (ci, n), z))
    return out

def write(ctx, name, b):
    p = os.path.join(ctx['work'], name)
    open(p, 'wb').write(b)
    return p
