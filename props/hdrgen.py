"""Generators shared by the header-family checks (C03 C06 C07 C13): structurally valid files from the
reference writer and field-aware mutants whose header checksum is re-sealed."""
import random, copy
import zcklib as Z

def sample_files(rnd, small=True):
    """list of (name, ZFile) covering hash types, flags, dict, compression, chunk counts"""
    out = []
    def data(n, k=40):
        return [bytes(rnd.choice(b'abcdefgh \n') for _ in range(rnd.randrange(1, k))) for _ in range(n)]
    combos = [
        dict(comp='none', full=1, chunk=3), dict(comp='zstd', full=1, chunk=3),
        dict(comp='none', full=0, chunk=0), dict(comp='zstd', full=2, chunk=2),
        dict(comp='none', full=1, chunk=1, uncomp=True), dict(comp='zstd', full=1, chunk=2, uncomp=True),
        dict(comp='zstd', full=3, chunk=1), dict(comp='none', full=3, chunk=0),
        dict(comp='none', full=2, chunk=3),
    ]
    i = 0
    for c in combos:
        for nch in (0, 1, 3):
            for zd in (None, b'dictionary-bytes ' * 3):
                if zd and nch == 0 and c['comp'] == 'none' and i % 2: continue
                z = Z.make(data(nch), zdict=zd, **c)
                out.append(('f%d' % i, z)); i += 1
    z = Z.make(data(2), comp='zstd', opt=[(0, b'hello'), (7, b'')]); out.append(('f%d' % i, z)); i += 1
    z = Z.make(data(2), comp='none', opt=[(1, b'x' * 200)]); out.append(('f%d' % i, z)); i += 1
    z = Z.make(data(5, 3000), comp='zstd', zdict=b'abcabc' * 30, detached=True); out.append(('f%d' % i, z)); i += 1
    z = Z.make(data(2), comp='none', detached=True); out.append(('f%d' % i, z)); i += 1
    z = Z.make(data(40, 10), comp='none'); out.append(('f%d' % i, z)); i += 1
    return out

BIGS = [0, 1, 127, 128, 2**31 - 1, 2**31, 2**32, 2**32 + 3, 2**63 - 1, 2**63, 2**64 - 1]

def field_mutants(rnd, z, limit=None):
    """re-sealed variants of a valid ZFile: yields (kind, bytes)"""
    res = []
    def var(kind, fn):
        y = copy.deepcopy(z)
        try:
            fn(y)
            res.append((kind, y.build()))
        except Exception as e:
            pass
    n = len(z.chunks)
    # count mismatch
    # (also values that equal the true count after truncation to 32 / 31 / 16 / 8 bits)
    for c in (0, n - 1, n + 1, 7, 2**31, 2**64 - 1, 2**32 + n, 3 * 2**40 + n, 2**31 + n, 2**16 + n, 256 + n, 2**63 + n):
        if c >= 0: var('count=%d' % c, lambda y, c=c: setattr(y, 'o_count', c))
    # index size
    isz = len(z.index_bytes())
    for d in (-3, -1, 1, 2, 40, 2**31 - isz, 2**31 - 1 - isz):
        if isz + d >= 0: var('index_size%+d' % d, lambda y, d=d: setattr(y, 'o_index_size', isz + d))
    # header size field
    for d in (-1, 1, 5, 1000):
        def f(y, d=d):
            y.o_header_size = None
            real = len(y.header())     # to compute the real size first
        # header size is part of the sealed bytes: build with an override
        y = copy.deepcopy(z)
        base = y.header()
        lead = Z.parse(base + z.body() if not z.detached else base)['lead'] if True else 0
        y.o_header_size = len(base) - lead + d
        if y.o_header_size >= 0: res.append(('header_size%+d' % d, y.build()))
    # ten-byte / non-canonical encodings and out-of-range values of each integer field
    for v in BIGS:
        var('hash_type=%d' % v, lambda y, v=v: setattr(y, 'o_hash_type_enc', Z.ci(v)))
        var('flags=%d' % v, lambda y, v=v: setattr(y, 'o_flags_enc', Z.ci(v)))
        var('comp=%d' % v, lambda y, v=v: setattr(y, 'o_comp_enc', Z.ci(v)))
        var('sig=%d' % v, lambda y, v=v: setattr(y, 'o_sig_enc', Z.ci(v)))
        var('chunk_type=%d' % v, lambda y, v=v: setattr(y, 'o_chunk_type_enc', Z.ci(v)))
        if n > 0:
            k = rnd.randrange(n)
            var('comp_len[%d]=%d' % (k, v), lambda y, v=v, k=k: y.chunks[k].__setitem__('comp_len_enc', Z.ci(v)))
            var('len[%d]=%d' % (k, v), lambda y, v=v, k=k: y.chunks[k].__setitem__('len_enc', Z.ci(v)))
    # running sums of stored sizes at the representable limit (header length + data length must fit ssize_t)
    if n >= 3:
        try:
            hl = len(z.header())
        except Exception:
            hl = 200
        M = 2**63 - 1
        for a, b2 in ((2**62, 2**62 - 1), (2**62, 2**62), (M - hl - 5, 5), (M - hl - 5, 6), (M - hl - 5, 4), (M - 300, 100),
                      (M - 300, 250), (2**63 - 1, 1), (2**64 - 1, 2), (2**63, 2**63), (M // 2, M // 2 + 1 - hl - 40)):
            for (i, j) in ((1, 2), (n - 2, n - 1), (0, n - 1)):
                if i == j or i < 0: continue
                def f(y, a=a, b2=b2, i=i, j=j):
                    y.chunks[i]['comp_len_enc'] = Z.ci(a); y.chunks[j]['comp_len_enc'] = Z.ci(b2)
                var('sum-boundary', f)
        # three sizes that each fit but whose running sum wraps past 2^64 to a small total
        for trip in ((M, M, 5), (M, M, 2), (M, M, 300), (M, M, M), (2**62, M, M), (M, 2**62 + 2**61, 2**62 + 2**61 + 7)):
            for idx in ((n - 3, n - 2, n - 1), (0, 1, n - 1)):
                if len(set(idx)) < 3 or min(idx) < 0: continue
                def f3(y, trip=trip, idx=idx):
                    for i, v in zip(idx, trip): y.chunks[i]['comp_len_enc'] = Z.ci(v)
                var('sum-boundary', f3)
    for fl in (2, 3, 4, 5, 6, 8, 16, 64):
        var('flags=%d' % fl, lambda y, fl=fl: setattr(y, 'o_flags_enc', Z.ci(fl)))
    for ct in (1, 3):
        var('comp=%d' % ct, lambda y, ct=ct: setattr(y, 'o_comp_enc', Z.ci(ct)))
    for ht in (0, 1, 2, 3, 4, 5):
        var('chunk_type=%d' % ht, lambda y, ht=ht: setattr(y, 'o_chunk_type_enc', Z.ci(ht)))
    # non-canonical but valid encodings (zero-padded digits), and over-long / wrapping ones
    for nb in (2, 5, 9, 10):
        var('flags-pad%d' % nb, lambda y, nb=nb: setattr(y, 'o_flags_enc', Z.ci_raw(y.flags, nb)))
        var('sig-pad%d' % nb, lambda y, nb=nb: setattr(y, 'o_sig_enc', Z.ci_raw(0, nb)))
        if n > 0:
            var('comp_len-pad%d' % nb, lambda y, nb=nb: y.chunks[-1].__setitem__('comp_len_enc', Z.ci_raw(y.chunks[-1]['comp_len'], nb)))
    var('sig-11bytes', lambda y: setattr(y, 'o_sig_enc', bytes(10) + b'\x80'))
    var('sig-wrap', lambda y: setattr(y, 'o_sig_enc', bytes(9) + b'\x82'))
    var('sig-unterminated', lambda y: setattr(y, 'o_sig_enc', b'\x00'))
    var('sig-missing', lambda y: setattr(y, 'o_sig_enc', b''))
    var('trailer', lambda y: setattr(y, 'o_trailer', b'\x01\x02\x03'))
    # optional elements with sizes at / over the end, and wrapping sizes with a huge count
    if not (z.flags & 2):
        for sz in (0, 1, 5, 6, 100, 2**31, 2**63, 2**64 - 3, 2**64 - 4, 2**64 - 12, 2**64 - 1):
            def f(y, sz=sz):
                y.flags |= 2
                y.opt = [(0, (Z.ci(sz),))]
                y.o_preface_tail = b'hello'
            var('opt-size=%d' % sz, f)
        def g(y):
            y.flags |= 2; y.opt = []
            # count 2^62, one element (id 0, size 2^64-11: back to the element start)
            y.o_preface_tail = b''
            y.o_flags_enc = Z.ci(y.flags)
        def hang(y):
            y.flags |= 2
            y.opt = []
            y.o_flags_enc = None
            y.o_preface_tail = None
        # crafted loop: count = 2^62, element = id(1 byte) + size(10 bytes) = 11 bytes, size = 2^64 - 11
        y = copy.deepcopy(z)
        y.flags |= 2
        class _Opt(list):
            pass
        y.opt = []
        y2 = copy.deepcopy(y)
        # build manually: preface tail carries "count, id, size"
        def crafted(y):
            y.opt = []
            y.o_preface_tail = None
        # use the opt list with a tuple payload: (id, (size_enc,)) and override the count via a fake list length
        y.opt = [(0, (Z.ci_raw(2**64 - 11, 10),))]
        b = y.header()
        # patch the count (a single byte 0x81 following the comp type) to a 9-byte 2^62: rebuild via overrides
        y.o_comp_enc = Z.ci(y.comp_type) + Z.ci(2**62)      # count goes right after the comp type
        y.opt = []
        y.o_preface_tail = Z.ci(0) + Z.ci_raw(2**64 - 11, 10)
        # flags&2 makes header() emit ci(len(opt)) = ci(0): suppress by clearing the flag bit in the object but keeping the encoding
        y.o_flags_enc = Z.ci(y.flags)
        y.flags &= ~2
        res.append(('opt-backward-loop', y.build()))
    # truncations of the sealed file
    b = z.build()
    hl = len(z.header())
    for cut in sorted(set([0, 1, 4, 5, 6, 7, 24, 25, 26, hl - 1, hl, hl + 1, len(b) - 1]) ):
        if 0 <= cut < len(b): res.append(('truncate@%d' % cut, b[:cut]))
    if limit and len(res) > limit:
        keep = [r for r in res if r[0] in ('sum-boundary', 'opt-backward-loop')]
        rest = [r for r in res if r[0] not in ('sum-boundary', 'opt-backward-loop')]
        # the boundary constructions are few and each one matters: all of them, plus a sample of the rest
        res = keep + rnd.sample(rest, min(len(rest), max(limit - len(keep), limit // 2)))
    return res

def raw_mutants(rnd, b, hl, count):
    """unsealed and re-sealed single byte substitutions / insertions / deletions inside the header"""
    out = []
    for _ in range(count):
        pos = rnd.randrange(0, hl)
        kind = rnd.choice(['sub', 'sub', 'ins', 'del'])
        if kind == 'sub':
            m = b[:pos] + bytes([rnd.choice([0, 0x7f, 0x80, 0xff, b[pos] ^ (1 << rnd.randrange(8))])]) + b[pos + 1:]
        elif kind == 'ins':
            m = b[:pos] + bytes([rnd.getrandbits(8)]) + b[pos:]
        else:
            m = b[:pos] + b[pos + 1:]
        out.append(('raw-' + kind, m))
        r = Z.reseal(m)
        if r is not None: out.append(('resealed-' + kind, r))
    return out
