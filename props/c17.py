"""C17 — memory safety and clean failure on arbitrary server responses."""
import random, os, itertools, re
import engine as E
import zcklib as Z
from props import filegen as FG
from props import dlgen as DG
from props import updgen as UG
from props import c05 as C05

PROP = 'C17'
MODULES = ['ZckModel.Props.C17']
ASSUMPTIONS = [
    "regcomp/regexec (glibc) are an oracle for the model; the theorems hold for every oracle, the sanitizer runs use the real libc",
    "fragments are at most 16 KiB (CURL_MAX_WRITE_SIZE); header lines are delivered one per callback, as libcurl does",
    "heap lifetime (use after free, double free), leaks and the internals of glibc's regex engine are searched with ASan/UBSan, not proved",
]

BAD_BOUNDARIES = [b'', b'"', b'""', b'"abc', b'abc"', b'(', b')', b'[', b'a{', b'a{2', b'*', b'+', b'?', b'\\', b'a\\', b'(((((', b'[[:alpha:]]', b'a|b', b'^$',
                  b'.*', b'x' * 300, b'y' * 5000, b'(' * 3000, b'a b', b'\t', b'\xff\xfe', b'%s%s%n', b'%', b'%d']

def header_variants(rnd, bnd):
    """lists of header lines carrying a boundary parameter in more or less broken ways"""
    ct = b'Content-Type: multipart/byteranges; boundary='
    out = [
        [ct + bnd + b'\r\n'],
        [ct + bnd + b'\n'],                                    # missing CR: not recognised
        [ct + bnd],                                            # no line end at all
        [ct + bnd + b'\r\n', ct + b'other' + b'\r\n'],         # a second boundary after the first
        [b'boundary=' + bnd + b'\r'],
        [b'BOUNDARY  =   ' + bnd + b'   \r\n'],
        [ct + b'"' + bnd + b'"\r\n'],
        [ct + bnd + b'\x00tail\r\n'],                          # NUL inside the line
        [b'\x00' + ct + bnd + b'\r\n'],
        [b''],
        [b'\r\n'],
        [bytes(rnd.getrandbits(8) for _ in range(rnd.choice([1, 40, 300])))],
        [b'boundary=' + b'\r', b'boundary=\r\n'],
        # several boundary lines on one handle (a redirect, a retry, a repeated Content-Type): the later one empty, quoted-empty,
        # longer than the 70 characters RFC 2046 allows, or sane again after such a one
        [ct + bnd + b'\r\n', ct + b'\r\n'],
        [ct + bnd + b'\r\n', ct + b'""\r\n'],
        [ct + bnd + b'\r\n', ct + b'x' * 71 + b'\r\n'],
        [ct + bnd + b'\r\n', ct + b'y' * 300 + b'\r\n', ct + bnd + b'\r\n'],
        [ct + b'z' * 71 + b'\r\n', ct + bnd + b'\r\n', ct + b'\r\n', ct + b'w' * 90 + b'\r\n'],
    ]
    return out

def body_mutants(rnd, body, ranges, total, n):
    out = [('empty', b''), ('crlfs', b'\r\n' * rnd.choice([1, 2, 3, 50])), ('random', bytes(rnd.getrandbits(8) for _ in range(rnd.choice([1, 5, 64, 700])))),
           ('only-terminators', b'\r\n\r\n' * 20), ('asis', body)]
    nb = len(body)
    for _ in range(n):
        k = rnd.randrange(10)
        m = bytearray(body)
        if nb == 0: break
        if k == 0:
            out.append(('truncated', bytes(m[:rnd.randrange(nb)])))
        elif k == 1:
            for _ in range(rnd.choice([1, 2, 8])): m[rnd.randrange(nb)] ^= 1 << rnd.randrange(8)
            out.append(('bitflips', bytes(m)))
        elif k == 2:
            a = rnd.randrange(nb); b = rnd.randrange(a, min(nb, a + 60)); del m[a:b]
            out.append(('deleted-span', bytes(m)))
        elif k == 3:
            a = rnd.randrange(nb); b = rnd.randrange(a, min(nb, a + 60)); m[a:a] = m[a:b]
            out.append(('duplicated-span', bytes(m)))
        elif k == 4:
            # absurd / inverted content-range values
            vals = [b'0-0', b'5-4', b'1-0', b'99999999999999999999-3', b'18446744073709551615-0', b'0-18446744073709551615', b'7-7', b'3-99999999',
                    b'18446744073709551616-18446744073709551617', b'0-%d' % (total * 3), b'-', b'1-', b'-1']
            s = re.sub(rb'bytes \d+-\d+/', lambda mo: b'bytes ' + rnd.choice(vals) + b'/', bytes(m), count=rnd.choice([1, 0]))
            out.append(('absurd-range', s))
        elif k == 5:
            out.append(('no-blank-line', bytes(m).replace(b'\r\n\r\n', b'\r\n', rnd.choice([1, 2]))))
        elif k == 6:
            out.append(('garbage-appended', bytes(m) + bytes(rnd.getrandbits(8) for _ in range(rnd.choice([1, 30, 400])))))
        elif k == 7:
            a = rnd.randrange(nb); m[a:a] = b'\x00' * rnd.choice([1, 4])
            out.append(('nul-inserted', bytes(m)))
        elif k == 8:
            out.append(('terminator-at-end', bytes(m[:rnd.randrange(nb)]) + b'\r\n\r\n'))
        else:
            out.append(('doubled', bytes(m) + bytes(m)))
    return out

def frag_kinds(rnd, nb, small):
    ks = ['-', 'b16384', rnd.choice(['b1', 'b2', 'b3']) if small or nb < 3000 else 'b1021']
    ks.append(DG.cuts_for(rnd, nb, 'k%d' % rnd.choice([2, 5, 9])))
    if nb > 2:      # with empty fragments
        a = rnd.randrange(0, nb); ks.append('%d,0,0,%d' % (a, rnd.randrange(0, nb - a + 1)))
    return ks

def gen_cases(tier, seed, ctx):
    rnd = random.Random(seed * 7919 + 17)
    cases = []
    def add(kind, tgt, flags, limit, hdrs, body, cuts, mode):
        i = len(cases)
        tp = FG.write(ctx, 'd%d.zck' % i, tgt); FG.write(ctx, 'd%d.zck.before' % i, tgt)
        bp = FG.write(ctx, 'd%d.body' % i, body)
        cases.append(E.Case('k%d' % i, 'DLFEED %s %s %d %s %s %s %s any' % (tp, flags, limit, DG.hexlist(hdrs), bp, cuts, mode), dict(kind=kind)))
    nm = 40 if tier == 'quick' else 120
    for tag, z in C05.files(rnd, tier):
        B = z.build(); hdr = z.header(); n = len(z.chunks); body_len = len(z.body())
        small = tag != 'big'
        for rep in range(4 if tier == "quick" else 10):
            flags = ''.join(rnd.choice('01') for _ in range(n))
            if '0' not in flags: flags = '0' * n
            limit = rnd.choice([-1, -1, 1, 2, 3])
            ranges, req = C05.request(z, flags, limit)
            if not ranges: continue
            t = bytearray(hdr + bytes(rnd.getrandbits(8) | 1 for _ in range(body_len))); off = len(hdr)
            for k, c in enumerate(z.chunks):
                if flags[k] == '1': t[off:off + c['comp_len']] = c['stored']
                off += c['comp_len']
            t = bytes(t)
            good_b = rnd.choice(C05.BOUNDARIES)
            # multipart body for the request even when it has one range (a server may do that; the parser must cope)
            mr = ranges if len(ranges) > 1 else ranges + ranges
            hdrs, body = DG.respond(B, mr, boundary=good_b)
            # (a) sane headers, broken bodies
            for kind, mb in body_mutants(rnd, body, mr, len(B), nm):
                for cuts in frag_kinds(rnd, len(mb), small)[: (2 if tier == 'quick' else 5)]:
                    add('body/' + kind, t, flags, limit, hdrs, mb, cuts, rnd.choice(['stop', 'cont', 'clear']))
            # (a'') bytes behind the closing delimiter (an epilogue), the delimiter itself split across two callbacks
            for ep in (b'\r\n\r\n\r\n', b'\r\n\r\nepilogue\r\n\r\nmore', b'\r\n'):
                mb = body + ep
                close_at = len(body) - (len(good_b) + 8)          # start of CRLF "--" boundary "--" CRLF
                for c0 in (close_at + 6, close_at + 1, close_at + len(good_b) + 5, len(body) + 1, max(1, close_at - 3)):
                    for mode in ('stop', 'clear'):
                        add('body/epilogue', t, flags, limit, hdrs, mb, '%d' % c0, mode)
                add('body/epilogue', t, flags, limit, hdrs, mb, '-', 'stop')
                add('body/epilogue', t, flags, limit, hdrs, mb, 'b7', 'cont')
            # (a') a well-formed body with EMPTY fragments at the seams: at the start, right after the last payload byte of each
            # part, right after each part header, then the rest in one or several pieces
            seams = [0]
            pos = 0
            for (s0, e0) in mr:
                marker = b'bytes %d-%d/%d\r\n\r\n' % (s0, e0, len(B))
                j = body.find(marker, pos)
                if j < 0: break
                p0 = j + len(marker); seams.append(p0); pos = p0 + (e0 - s0 + 1); seams.append(pos)
            for sm in seams:
                for tailcut in ('', ',1', ',0,7'):
                    for mode in ('stop', 'clear'):
                        add('seam-empty-fragment', t, flags, limit, hdrs, body, ('%d,0%s' % (sm, tailcut)) if sm else ('0,0%s' % tailcut), mode)
            # (b) broken boundary parameters with the body a server using that boundary verbatim would send
            for bb in BAD_BOUNDARIES + [bytes(rnd.getrandbits(8) | 1 for _ in range(rnd.choice([1, 3, 20]))) for _ in range(3)]:
                if rnd.random() > (0.35 if tier == 'quick' else 1.0): continue
                _, body2 = DG.respond(B, mr, boundary=bb)
                hvs = header_variants(rnd, bb)
                for hv in (hvs[:4] + rnd.sample(hvs[4:], 3) if tier == 'quick' else hvs):
                    add('boundary/' + (bb[:12].hex()), t, flags, limit, hv, body2, rnd.choice(frag_kinds(rnd, len(body2), small)), rnd.choice(['stop', 'cont', 'clear', 'clear']))
            # (b') several boundary lines on the handle, around the sane boundary and its body
            for hv in header_variants(rnd, good_b)[13:]:
                for mode in ('stop', 'clear'):
                    add('boundary-repeated', t, flags, limit, hv, body, rnd.choice(frag_kinds(rnd, len(body), small)), mode)
            # (c) single-range path (no boundary header): short, long, damaged and foreign bodies
            if len(ranges) == 1:
                h1, b1 = DG.respond(B, ranges)
                for kind, mb in body_mutants(rnd, b1, ranges, len(B), nm // 2):
                    add('single/' + kind, t, flags, limit, h1, mb, rnd.choice(frag_kinds(rnd, len(mb), small)), rnd.choice(['stop', 'cont', 'clear']))
            # (d) boundary header but a plain body, and a multipart body without a boundary header
            add('mismatch/plain-body-with-boundary', t, flags, limit, hdrs, B[ranges[0][0]:ranges[0][1] + 1], '-', 'clear')
            add('mismatch/multipart-body-without-boundary', t, flags, limit, ['HTTP/1.1 206\r\n'.encode()], body, 'b7' if small else 'b4099', 'clear')
    # histories on one download context: a response that stops in the middle, zck_dl_reset, the target descriptor moved by a
    # re-scan, then a complete response (what a retrying client does): nothing outside the requested extents may change
    W = UG.Writer(ctx)
    for op, kind in UG.drop_cases(rnd, W, tier, 40 if tier == 'quick' else 400):
        cases.append(E.Case('k%d' % len(cases), op, dict(kind='history/' + kind)))
    return cases

def nontrivial(r):
    return not r['meta'].get('kind', '').endswith('asis')

def run(tier, seed, replay=None):
    rule = ("DLFEED with expectation 'any' under ASan+UBSan: for each target/request, (a) a sane boundary header with bodies that are empty, CRLF "
            "runs, random, truncated, bit-flipped, with spans deleted/duplicated, absurd or inverted content-range values (0-0, b<a, 20-digit, "
            "2^64 +- 1), missing blank lines, embedded NULs, garbage appended, CRLFCRLF at the very end, doubled; (b) boundary parameters "
            "that are empty, a lone quote, regex metacharacters and unbalanced brackets, format directives, 300/3000/5000 characters, non-ASCII, "
            "in header lines with missing CR, no line end, embedded NUL, repeated; (c) the single-range path with the same body mutants; "
            "(d) header/body kind mismatches.  Fragmentations: whole, 16 KiB, 1-3 byte pieces, random cuts, with empty fragments; transport "
            "modes stop / continue / continue after zck_clear_error; histories on one context (a response cut short, zck_dl_reset, re-scan, a "
            "complete response: UPDATE with a dropped transfer).  Judged: no crash/sanitizer report/hang, no use of an uncompiled or freed "
            "pattern (tracked in the interposed regcomp/regexec/regfree), confinement and verified-valid on the target file.")
    return E.standard_run(PROP, MODULES, gen_cases, tier, seed, replay, ASSUMPTIONS, rule, variant='asan', nontrivial=nontrivial,
                          timeout_s=60, project=C05.project)
