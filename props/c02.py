"""C02 — no silent corruption: a successful read implies verified, correct content."""
import random, os, copy
import engine as E
import zcklib as Z
from props import hdrgen, filegen as FG

PROP = 'C02'
MODULES = ['ZckModel.Props.C02', 'ZckModel.Props.C02Stream', 'ZckModel.Props.C02Decode', 'ZckModel.Props.C02Full', 'ZckModel.Props.C02Hash']
ASSUMPTIONS = [
    "the codec is external: libzstd's verdict on every stored chunk (computed by calling libzstd directly) is given to the Lean "
    "reference decoder as a table; the theorems hold for ANY codec function",
    "hash collisions are not assumed away",
]

def gen_cases(tier, seed, ctx):
    rnd = random.Random(seed)
    cases = []
    def add(kind, b, sizes):
        i = len(cases)
        p = FG.write(ctx, 'r%d.zck' % i, b)
        zt = FG.ztab(b, p + '.ztab')
        cases.append(E.Case('r%d' % i, 'READSEQ %s %s %s' % (p, ','.join(map(str, sizes)), zt), dict(kind=kind)))
    files = FG.valid_files(rnd) + (FG.valid_files(rnd, sizes=(2,), big=True) if tier == 'thorough' else FG.valid_files(rnd, sizes=(2,), big=True)[:3])
    for tag, z in files:
        b = z.build()
        hl = len(z.header())
        csz = max([c['len'] for c in z.chunks] + [1])
        scheds = [[1], [7], [max(1, csz - 1)], [csz], [csz + 1], [32768], [3, 1000, 2, 50], [0, 5, 0, 4096]]
        if len(b) > 20000: scheds = [[4096], [csz], [100000], [977]]
        elif len(b) > 3000: scheds = [s for s in scheds if s not in ([1], [7])] + [[211]]
        for s in scheds: add('valid', b, s)
        # truncation at every length (small files) / sampled (large)
        cuts = range(len(b)) if len(b) < 700 and tier == 'thorough' else sorted(set(rnd.randrange(len(b)) for _ in range(25)) | {hl, hl + 1, len(b) - 1})
        for cut in cuts:
            add('truncate', b[:cut], rnd.choice(scheds))
        add('trailing-garbage', b + b'\x00garbage', rnd.choice(scheds))
        # the identifier switched to that of a detached header (the header checksum does not cover it): the body is all there
        for s in scheds[:3]: add('magic-swap', b'\x00ZHR1' + b[5:], s)
        add('magic-swap-truncated', b'\x00ZHR1' + b[5:hl], rnd.choice(scheds))
        # raw bit flips anywhere
        for _ in range(30 if tier == 'quick' else 300):
            pos = rnd.randrange(len(b)); m = bytearray(b); m[pos] ^= 1 << rnd.randrange(8)
            add('bitflip-body' if pos >= hl else 'bitflip-header', bytes(m), rnd.choice(scheds))
        # structure-aware, re-sealed
        for kind, m in hdrgen.field_mutants(rnd, z, limit=25 if tier == 'quick' else 200):
            add('resealed-' + kind.split('=')[0].split('[')[0].split('@')[0], m, rnd.choice(scheds))
        # chunk swaps and inconsistent declared sizes (re-sealed, checksums adjusted or not)
        if len(z.chunks) >= 3:
            y = copy.deepcopy(z); y.chunks[1], y.chunks[2] = y.chunks[2], y.chunks[1]
            add('swap-index-entries', y.finish().build(), rnd.choice(scheds))     # consistent reorder: a different valid file
            y = copy.deepcopy(z); y.chunks[1]['stored'], y.chunks[2]['stored'] = y.chunks[2]['stored'], y.chunks[1]['stored']
            add('swap-bodies', y.build(), rnd.choice(scheds))
            add('swap-bodies-datasum-fixed', y.finish().build(), rnd.choice(scheds))
        for k in range(1, len(z.chunks)):
            for d in (-1, 1, 200):
                y = copy.deepcopy(z)
                if y.chunks[k]['len'] + d > 0:
                    y.chunks[k]['len_enc'] = Z.ci(y.chunks[k]['len'] + d)
                    add('declared-len%+d' % d, y.build(), rnd.choice(scheds))
            y = copy.deepcopy(z)
            st = bytearray(y.chunks[k]['stored'])
            if st:
                st[rnd.randrange(len(st))] ^= 0x10
                y.chunks[k]['stored'] = bytes(st)
                y.chunks[k]['digest'] = Z.H(y.chunk_hash_type, bytes(st))        # corrupted body with a MATCHING chunk checksum
                add('rechecksummed-corruption', y.finish().build(), rnd.choice(scheds))
                add('rechecksummed-corruption-old-datasum', y.build(), rnd.choice(scheds))
        # the first index entry stores nothing but declares a length (re-sealed): there is no dictionary to load, nothing may be swallowed as one
        if z.chunks[0]['comp_len'] == 0:
            for N in (1, 5, 200):
                y = copy.deepcopy(z); y.chunks[0]['len_enc'] = Z.ci(N)
                for sch in (scheds[0], scheds[-1], rnd.choice(scheds)):
                    add('empty-dict-declared-len', y.build(), sch)
        # zstd frames that do not record their content size (legal; never written by zck) and chunks made of two frames:
        # valid as they are, invalid with any other declared length
        if z.comp_type == 2:
            zd = z.chunks[0]['plain'] if z.chunks[0]['len'] > 0 else None
            for k in range(1, len(z.chunks)):
                pl = z.chunks[k]['plain']
                half = len(pl) // 2
                for tag, st in (('nocsize', Z.zcompress_nocs(pl, 3, zd)),
                                ('twoframes', Z.zcompress_nocs(pl[:half], 3, zd) + Z.zcompress(pl[half:], 3, zd))):
                    y = copy.deepcopy(z)
                    y.chunks[k]['stored'] = st; y.chunks[k]['comp_len'] = len(st); y.chunks[k]['digest'] = Z.H(y.chunk_hash_type, st)
                    y.finish()
                    add(tag + '-valid', y.build(), rnd.choice(scheds))
                    for d in (-1, 1, 200):
                        if len(pl) + d > 0:
                            y2 = copy.deepcopy(y); y2.chunks[k]['len_enc'] = Z.ci(len(pl) + d)
                            add(tag + '-declared-len%+d' % d, y2.build(), rnd.choice(scheds))
    return cases

def nontrivial(r):
    return r['meta'].get('kind') != 'valid'

def run(tier, seed, replay=None):
    rule = ("READSEQ (zck_read with a schedule of buffer sizes incl. 0/1/chunk-1/chunk/chunk+1/32768, then zck_close) on valid files "
            "(none/zstd x dict x uncompressed-source flag x hash types x 0..3 chunks, plus multi-10kB chunks) and on their mutants: "
            "truncation (every length for small files in thorough, sampled otherwise), raw bit flips in header and body, re-sealed field "
            "mutants, swapped bodies / index entries, declared sizes +-1/+200, corrupted bodies with re-computed chunk (and data) checksums, "
            "zstd frames without a recorded content size and two-frame chunks (as they are and with declared sizes +-1/+200), trailing garbage, the identifier switched to the detached-header one with the body present / absent; non-trivial = not the unmodified file")
    return E.standard_run(PROP, MODULES, gen_cases, tier, seed, replay, ASSUMPTIONS, rule, nontrivial=nontrivial, timeout_s=60)
