#!/bin/bash
# usage: queue_seed.sh <name> <PROP>...   — process_seed.sh under a lock (one seeded change applied to /repo at a time), log in /tmp/ps-<name>.log
N=$1
( flock 9; /verif/tools/process_seed.sh "$@" > /tmp/ps-$N.log 2>&1; echo QDONE >> /tmp/ps-$N.log ) 9>/tmp/seed.lock &
