#!/bin/bash
# usage: confirm_seed.sh <wt> "<demo command>"  — re-verify a seeded change in its scratch worktree:
#   with the change: tests pass, demo fails; without: demo passes.   Leaves the change applied.
WT=$1; DEMO=$2
cd $WT || exit 2
git diff -- src include > /tmp/confirm.diff
echo "--- with change: tests"
ninja -C _build >/dev/null 2>&1; meson test -C _build 2>&1 | grep -E "^(Ok|Fail|Expected)" | tr '\n' ' '; echo
echo "--- with change: demo"; bash -c "$DEMO" >/tmp/demo_with.txt 2>&1; echo "exit=$?"; tail -2 /tmp/demo_with.txt
git apply -R /tmp/confirm.diff && ninja -C _build >/dev/null 2>&1
[ -d _build_bundled ] && ninja -C _build_bundled >/dev/null 2>&1
echo "--- without change: demo"; bash -c "$DEMO" >/tmp/demo_without.txt 2>&1; echo "exit=$?"; tail -2 /tmp/demo_without.txt
git apply /tmp/confirm.diff && ninja -C _build >/dev/null 2>&1
[ -d _build_bundled ] && ninja -C _build_bundled >/dev/null 2>&1
