#!/bin/bash
# usage: process_seed.sh <name e.g. C05-d> <PROP> [PROP...] — confirm a sub-agent's seeded change in its scratch worktree, store it
# under /verif/seeded/<name>/, run the named properties' quick checks against it (applied to /repo, reverted afterwards)
N=$1; shift
WT=/tmp/wt-$N
DEMO=$(python3 -c "import json;print(json.load(open('$WT/seed_out/meta.json'))['demo'])")
echo "=== confirm $N"; /verif/tools/confirm_seed.sh $WT "$DEMO" 2>&1 | tail -12
mkdir -p /verif/seeded/$N && cp $WT/seed_out/patch.diff $WT/seed_out/meta.json /verif/seeded/$N/ && cp $WT/seed_out/demo.* /verif/seeded/$N/ 2>/dev/null
for P in "$@"; do echo "=== try $N against $P"; /verif/tools/try_seed.sh /verif/seeded/$N/patch.diff $P quick; done
