#!/bin/bash
# usage: mk_wt.sh <name>...  — one scratch worktree of /repo's HEAD per name under /tmp/wt-<name>, built with meson, plus the
# property text (only that) as PROPERTY.json inside it.  name = <PROP>[-suffix]
for N in "$@"; do
  P=${N%%-*}
  WT=/tmp/wt-$N
  git -C /repo worktree add --detach $WT HEAD >/dev/null 2>&1 || { echo "worktree $WT failed"; continue; }
  ( cd $WT && meson setup _build >/dev/null 2>&1 && ninja -C _build >/dev/null 2>&1 && meson test -C _build 2>&1 | grep -E "^Ok:" ) 
  python3 - "$P" "$WT" <<'PY'
import json,sys
for l in open('/verif/properties.jsonl'):
    p=json.loads(l)
    if p['id']==sys.argv[1]:
        json.dump(p, open(sys.argv[2]+'/PROPERTY.json','w'), indent=1)
PY
  mkdir -p $WT/seed_out
  echo "$WT ready"
done
