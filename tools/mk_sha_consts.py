#!/usr/bin/env python3
"""One-off generator of the FIPS 180-4 constants for lean/ZckModel/Sha/Consts.lean, computed from
their DEFINITION (fractional parts of square/cube roots of the first primes) with integer
arithmetic — independent of /repo's tables, which gen/gen.py extracts separately."""
def primes(n):
    ps = []; k = 2
    while len(ps) < n:
        if all(k % p for p in ps): ps.append(k)
        k += 1
    return ps
def iroot(n, k):
    lo, hi = 0, 1
    while hi ** k <= n: hi *= 2
    while lo + 1 < hi:
        mid = (lo + hi) // 2
        if mid ** k <= n: lo = mid
        else: hi = mid
    return lo
def frac_root(p, k, bits):
    return iroot(p << (k * bits), k) & ((1 << bits) - 1)
P = primes(80)
def fmt(vals, per):
    return ",\n".join("  " + ", ".join(str(v) for v in vals[i:i+per]) for i in range(0, len(vals), per))
out = ["-- FIPS 180-4 constants computed from their definition by tools/mk_sha_consts.py (hand-checked against the standard).",
       "namespace Zck.Sha", ""]
out += ["def k256 : List UInt32 := [", fmt([frac_root(p, 3, 32) for p in P[:64]], 8), "]", ""]
out += ["def iv256 : List UInt32 := [", fmt([frac_root(p, 2, 32) for p in P[:8]], 8), "]", ""]
out += ["def k512 : List UInt64 := [", fmt([frac_root(p, 3, 64) for p in P[:80]], 4), "]", ""]
out += ["def iv512 : List UInt64 := [", fmt([frac_root(p, 2, 64) for p in P[:8]], 4), "]", ""]
out += ["def iv1 : List UInt32 := [0x67452301, 0xEFCDAB89, 0x98BADCFE, 0x10325476, 0xC3D2E1F0]",
        "def k1 : List UInt32 := [0x5A827999, 0x6ED9EBA1, 0x8F1BBCDC, 0xCA62C1D6]", "", "end Zck.Sha", ""]
print("\n".join(out))
