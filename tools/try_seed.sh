#!/bin/bash
# usage: try_seed.sh <patch.diff> <PROP> [tier]   — apply a seeded change to /repo, run the check, undo it.
# The evidence file and replays of the property are put back afterwards (evidence must come from the unchanged tree).
set -u
P=$1; PROP=$2; TIER=${3:-quick}
cd /repo || exit 2
if ! git diff --quiet; then echo "repo dirty"; exit 2; fi
if ! git apply --check "$P" 2>/dev/null; then echo "PATCH DOES NOT APPLY"; exit 3; fi
cp /verif/evidence/$PROP.json /tmp/evidence_$PROP.json.bak 2>/dev/null
git apply "$P"
( cd /verif && timeout 3000 ./check.py $PROP --tier $TIER 2>&1 | tail -3 )
git checkout -- .
( cd /verif && python3 gen/gen.py >/dev/null 2>&1 )   # the generated Lean files must describe the unchanged tree again
cp /tmp/evidence_$PROP.json.bak /verif/evidence/$PROP.json 2>/dev/null; rm -f /tmp/evidence_$PROP.json.bak
git status --short | head -3
