"""Reference writer / parser / re-sealer for the zchunk container format, written from
zchunk_format.txt (NOT from the library), plus libzstd access through ctypes.  Used by the
generators only: structured, mostly valid inputs and field-aware mutants with a correct header
checksum ("re-sealed"), so that parsing proceeds past the checksum gate."""
import hashlib, ctypes, ctypes.util, struct

HSIZE = {0: 20, 1: 32, 2: 64, 3: 16}
MAGIC = b'\0ZCK1'
MAGIC_DET = b'\0ZHR1'

def H(t, data):
    if t == 0: return hashlib.sha1(data).digest()
    if t == 1: return hashlib.sha256(data).digest()
    if t == 2: return hashlib.sha512(data).digest()
    if t == 3: return hashlib.sha512(data).digest()[:16]
    raise ValueError('hash type %r' % t)

def ci(v):
    """compressed integer (canonical encoding)"""
    out = bytearray()
    while True:
        d = v & 0x7f; v >>= 7
        if v == 0:
            out.append(d | 0x80); return bytes(out)
        out.append(d)

def ci_raw(v, nbytes):
    """non-canonical encoding padded with zero digits to nbytes"""
    out = bytearray()
    for i in range(nbytes):
        d = v & 0x7f; v >>= 7
        out.append(d | (0x80 if i == nbytes - 1 else 0))
    return bytes(out)

def read_ci(buf, pos):
    v = 0; n = 0
    while True:
        if pos + n >= len(buf): raise ValueError('unterminated ci')
        b = buf[pos + n]
        v |= (b & 0x7f) << (7 * n); n += 1
        if b & 0x80: break
        if n >= 10: raise ValueError('ci too long')
    if v >= 1 << 64: raise ValueError('ci overflow')
    return v, pos + n

# ------------------------------------------------------------------ zstd through ctypes
_z = ctypes.CDLL(ctypes.util.find_library('zstd'))
_z.ZSTD_compressBound.restype = ctypes.c_size_t
_z.ZSTD_compressBound.argtypes = [ctypes.c_size_t]
_z.ZSTD_isError.restype = ctypes.c_uint
_z.ZSTD_isError.argtypes = [ctypes.c_size_t]
_z.ZSTD_createCCtx.restype = ctypes.c_void_p
_z.ZSTD_createDCtx.restype = ctypes.c_void_p
_z.ZSTD_freeCCtx.argtypes = [ctypes.c_void_p]
_z.ZSTD_freeDCtx.argtypes = [ctypes.c_void_p]
_z.ZSTD_compress_usingDict.restype = ctypes.c_size_t
_z.ZSTD_compress_usingDict.argtypes = [ctypes.c_void_p, ctypes.c_char_p, ctypes.c_size_t, ctypes.c_char_p, ctypes.c_size_t,
                                       ctypes.c_char_p, ctypes.c_size_t, ctypes.c_int]
_z.ZSTD_decompress_usingDict.restype = ctypes.c_size_t
_z.ZSTD_decompress_usingDict.argtypes = [ctypes.c_void_p, ctypes.c_char_p, ctypes.c_size_t, ctypes.c_char_p, ctypes.c_size_t,
                                         ctypes.c_char_p, ctypes.c_size_t]

def zcompress(data, level=3, zdict=None):
    cap = _z.ZSTD_compressBound(len(data))
    dst = ctypes.create_string_buffer(cap or 1)
    c = _z.ZSTD_createCCtx()
    r = _z.ZSTD_compress_usingDict(c, dst, cap, data, len(data), zdict, len(zdict) if zdict else 0, level)
    _z.ZSTD_freeCCtx(c)
    if _z.ZSTD_isError(r): raise ValueError('zstd compress')
    return dst.raw[:r]

_z.ZSTD_CCtx_setParameter.restype = ctypes.c_size_t
_z.ZSTD_CCtx_setParameter.argtypes = [ctypes.c_void_p, ctypes.c_int, ctypes.c_int]
_z.ZSTD_CCtx_loadDictionary.restype = ctypes.c_size_t
_z.ZSTD_CCtx_loadDictionary.argtypes = [ctypes.c_void_p, ctypes.c_char_p, ctypes.c_size_t]
_z.ZSTD_compress2.restype = ctypes.c_size_t
_z.ZSTD_compress2.argtypes = [ctypes.c_void_p, ctypes.c_char_p, ctypes.c_size_t, ctypes.c_char_p, ctypes.c_size_t]

def zcompress_nocs(data, level=3, zdict=None):
    """a frame whose header does NOT record the content size (ZSTD_c_contentSizeFlag = 0): legal zstd, never written by zck"""
    cap = _z.ZSTD_compressBound(len(data))
    dst = ctypes.create_string_buffer(cap or 1)
    c = _z.ZSTD_createCCtx()
    _z.ZSTD_CCtx_setParameter(c, 100, level)      # ZSTD_c_compressionLevel
    _z.ZSTD_CCtx_setParameter(c, 200, 0)          # ZSTD_c_contentSizeFlag
    if zdict: _z.ZSTD_CCtx_loadDictionary(c, zdict, len(zdict))
    r = _z.ZSTD_compress2(c, dst, cap, data, len(data))
    _z.ZSTD_freeCCtx(c)
    if _z.ZSTD_isError(r): raise ValueError('zstd compress2')
    return dst.raw[:r]

def zdecompress(frame, declared, zdict=None):
    """what zchunk's end_dchunk obtains: `declared` zero-initialised bytes into which the frame is
    decompressed; returns (bytes of length declared, produced) or None on a zstd error"""
    dst = ctypes.create_string_buffer(declared or 1)
    d = _z.ZSTD_createDCtx()
    r = _z.ZSTD_decompress_usingDict(d, dst, declared, frame, len(frame), zdict, len(zdict) if zdict else 0)
    _z.ZSTD_freeDCtx(d)
    if _z.ZSTD_isError(r): return None
    return dst.raw[:declared], r

# ------------------------------------------------------------------ container
class ZFile:
    """All header fields + body chunks. build() assembles and seals."""
    def __init__(self):
        self.detached = False
        self.hash_type = 1
        self.chunk_hash_type = 3
        self.flags = 0
        self.comp_type = 0
        self.opt = []              # [(id, data)] written when flags & 2
        self.chunks = []           # dicts: digest, udigest, comp_len, len, stored (bytes), plain (bytes)
        self.sig_count = 0
        self.data_digest = None    # computed by finish()
        # overrides for malformed variants (None = consistent value)
        self.o_count = None; self.o_index_size = None; self.o_header_size = None
        self.o_hash_type_enc = None; self.o_trailer = b''; self.o_header_digest = None
        self.o_index_raw = None; self.o_preface_tail = None; self.o_magic = None
        self.o_flags_enc = None; self.o_comp_enc = None; self.o_sig_enc = None; self.o_chunk_type_enc = None

    def body(self):
        return b''.join(c['stored'] for c in self.chunks)

    def finish(self):
        if self.flags & 4:
            self.data_digest = bytes(HSIZE[self.hash_type])
        else:
            self.data_digest = H(self.hash_type, self.body())
        return self

    def index_bytes(self):
        if self.o_index_raw is not None: return self.o_index_raw
        out = bytearray()
        out += self.o_chunk_type_enc if self.o_chunk_type_enc is not None else ci(self.chunk_hash_type)
        out += ci(len(self.chunks) if self.o_count is None else self.o_count)
        for c in self.chunks:
            out += c['digest']
            if self.flags & 4: out += c['udigest']
            out += c.get('comp_len_enc') or ci(c['comp_len'])
            out += c.get('len_enc') or ci(c['len'])
        return bytes(out)

    def header(self):
        idx = self.index_bytes()
        pre = bytearray()
        pre += self.data_digest if self.data_digest is not None else bytes(HSIZE.get(self.hash_type, 0))
        pre += self.o_flags_enc if self.o_flags_enc is not None else ci(self.flags)
        pre += self.o_comp_enc if self.o_comp_enc is not None else ci(self.comp_type)
        if self.flags & 2:
            pre += ci(len(self.opt))
            for i, d in self.opt:
                pre += ci(i) + (d[0] if isinstance(d, tuple) else ci(len(d)))
                pre += b'' if isinstance(d, tuple) else d
        if self.o_preface_tail is not None: pre += self.o_preface_tail
        pre += ci(len(idx) if self.o_index_size is None else self.o_index_size)
        sig = self.o_sig_enc if self.o_sig_enc is not None else ci(self.sig_count)
        rest = bytes(pre) + idx + sig + self.o_trailer
        magic = self.o_magic if self.o_magic is not None else (MAGIC_DET if self.detached else MAGIC)
        lead0 = magic + (self.o_hash_type_enc if self.o_hash_type_enc is not None else ci(self.hash_type)) \
            + ci(len(rest) if self.o_header_size is None else self.o_header_size)
        ht = self.hash_type if self.hash_type in HSIZE else 1
        dg = H(ht, MAGIC + lead0[5:] + rest) if self.o_header_digest is None else self.o_header_digest
        return lead0 + dg + rest

    def build(self):
        h = self.header()
        return h if self.detached else h + self.body()

def make(plain_chunks, comp='none', zdict=None, full=1, chunk=3, uncomp=False, level=3, detached=False, opt=None):
    """plain_chunks: list of bytes (data chunks). Returns ZFile (finished)."""
    z = ZFile()
    z.hash_type = full; z.chunk_hash_type = chunk
    z.comp_type = 2 if comp == 'zstd' else 0
    z.flags = (4 if uncomp else 0) | (2 if opt else 0)
    z.opt = opt or []
    z.detached = detached
    def enc(p, d):
        if comp == 'zstd': return zcompress(p, level, d)
        return p
    hs = HSIZE[chunk]
    if zdict:
        st = enc(zdict, None)
        z.chunks.append(dict(digest=H(chunk, st), udigest=H(chunk, zdict), comp_len=len(st), len=len(zdict), stored=st, plain=zdict))
    else:
        z.chunks.append(dict(digest=bytes(hs), udigest=bytes(hs), comp_len=0, len=0, stored=b'', plain=b''))
    for p in plain_chunks:
        if len(p) == 0: continue
        st = enc(p, zdict)
        z.chunks.append(dict(digest=H(chunk, st), udigest=H(chunk, p), comp_len=len(st), len=len(p), stored=st, plain=p))
    return z.finish()

def parse(buf):
    """Reference parser (strict, from the format text). Returns dict or raises ValueError."""
    if buf[:5] not in (MAGIC, MAGIC_DET): raise ValueError('magic')
    pos = 5
    ht, pos = read_ci(buf, pos)
    if ht not in HSIZE: raise ValueError('hash type')
    hsz, pos = read_ci(buf, pos)
    loc = pos
    ds = HSIZE[ht]
    if len(buf) < pos + ds: raise ValueError('short lead')
    hd = buf[pos:pos + ds]; pos += ds
    lead = pos
    if len(buf) < lead + hsz: raise ValueError('short header')
    hdr = buf[lead:lead + hsz]
    if H(ht, MAGIC + buf[5:loc] + hdr) != hd: raise ValueError('header checksum')
    p = 0
    if len(hdr) < ds: raise ValueError('preface')
    dd = hdr[:ds]; p = ds
    flags, p = read_ci(hdr, p)
    if flags & ~6: raise ValueError('flags')
    ct, p = read_ci(hdr, p)
    if ct not in (0, 2): raise ValueError('comp type')
    if flags & 2:
        n, p = read_ci(hdr, p)
        for _ in range(n):
            _, p = read_ci(hdr, p)
            sz, p = read_ci(hdr, p)
            p += sz
            if p > len(hdr): raise ValueError('opt elem')
    isz, p = read_ci(hdr, p)
    if isz >= 1 << 31: raise ValueError('index size')
    if p + isz > len(hdr): raise ValueError('index past header')
    idx = hdr[p:p + isz]
    q = 0
    cht, q = read_ci(idx, q)
    if cht not in HSIZE: raise ValueError('chunk hash type')
    cnt, q = read_ci(idx, q)
    cs = HSIZE[cht]
    chunks = []; start = 0
    while q < len(idx):
        if q + cs > len(idx): raise ValueError('entry digest')
        dg = idx[q:q + cs]; q += cs
        ud = None
        if flags & 4:
            if q + cs > len(idx): raise ValueError('entry udigest')
            ud = idx[q:q + cs]; q += cs
        cl, q = read_ci(idx, q)
        ln, q = read_ci(idx, q)
        chunks.append(dict(number=len(chunks), digest=dg, udigest=ud, comp_len=cl, len=ln, start=start))
        start += cl
        if start >= 1 << 63 or cl >= 1 << 63 or ln >= 1 << 63: raise ValueError('size does not fit')
    if cnt != len(chunks) or cnt < 1: raise ValueError('count')
    s = p + isz
    sc, s = read_ci(hdr, s)
    if sc != 0: raise ValueError('signatures')
    return dict(detached=buf[:5] == MAGIC_DET, hash_type=ht, chunk_hash_type=cht, flags=flags, comp_type=ct,
                lead=lead, header_len=hsz, header_digest=hd, data_digest=dd, count=cnt, chunks=chunks,
                data_len=start, index_size=isz)

def reseal(buf):
    """recompute the header checksum of a (mutated) file in place; returns new bytes or None"""
    try:
        pos = 5
        ht, pos = read_ci(buf, pos)
        hsz, pos = read_ci(buf, pos)
        ds = HSIZE[ht]
        loc = pos; lead = pos + ds
        if len(buf) < lead + hsz: return None
        dg = H(ht, MAGIC + buf[5:loc] + buf[lead:lead + hsz])
        return buf[:loc] + dg + buf[lead:]
    except (ValueError, KeyError):
        return None
