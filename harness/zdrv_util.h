/* helpers shared by the harness programs */
#ifndef ZDRV_UTIL_H
#define ZDRV_UTIL_H

static sigjmp_buf segv_env;
static volatile int segv_armed = 0;
static int op_timeout_s = 20;

static void segv_handler(int sig) {
    if(segv_armed) siglongjmp(segv_env, 1);
    _exit(128 + sig);
}
static void install_segv_handler(void) {
    struct sigaction sa; memset(&sa, 0, sizeof sa);
    sa.sa_handler = segv_handler;
    sigemptyset(&sa.sa_mask);
    sa.sa_flags = SA_NODEFER;
    sigaction(SIGSEGV, &sa, NULL);
    sigaction(SIGBUS, &sa, NULL);
}

static int hexval(int c) {
    if(c >= '0' && c <= '9') return c - '0';
    if(c >= 'a' && c <= 'f') return c - 'a' + 10;
    if(c >= 'A' && c <= 'F') return c - 'A' + 10;
    return -1;
}
/* "-" is the empty string */
static unsigned char *get_hex(const char *s, size_t *len) {
    if(strcmp(s, "-") == 0) { *len = 0; return calloc(1, 1); }
    size_t n = strlen(s) / 2;
    unsigned char *b = malloc(n + 1);
    for(size_t i = 0; i < n; i++) b[i] = (unsigned char)(hexval(s[2*i]) * 16 + hexval(s[2*i+1]));
    *len = n;
    return b;
}
static void put_hex(FILE *out, const unsigned char *b, size_t n) {
    static const char *H = "0123456789abcdef";
    if(n == 0) { fputc('-', out); return; }
    for(size_t i = 0; i < n; i++) { fputc(H[b[i] >> 4], out); fputc(H[b[i] & 15], out); }
}

/* n bytes whose last byte is immediately followed by an inaccessible page */
static unsigned char *guard_alloc(size_t n) {
    size_t pg = 4096;
    size_t pages = (n + pg - 1) / pg + 1;
    unsigned char *base = mmap(NULL, (pages + 1) * pg, PROT_READ | PROT_WRITE, MAP_PRIVATE | MAP_ANONYMOUS, -1, 0);
    if(base == MAP_FAILED) { perror("mmap"); exit(2); }
    mprotect(base + pages * pg, pg, PROT_NONE);
    return base + pages * pg - n;
}
static void guard_free(unsigned char *p, size_t n) {
    size_t pg = 4096;
    size_t pages = (n + pg - 1) / pg + 1;
    unsigned char *base = p + n - pages * pg;
    munmap(base, (pages + 1) * pg);
}

/* read whole file */
static unsigned char *slurp(const char *path, size_t *len) {
    FILE *f = fopen(path, "rb");
    if(!f) { *len = 0; return NULL; }
    fseek(f, 0, SEEK_END); long n = ftell(f); fseek(f, 0, SEEK_SET);
    unsigned char *b = malloc(n + 1);
    *len = fread(b, 1, n, f);
    fclose(f);
    return b;
}

/* Run fn in a forked child; its output is collected through a pipe.  A signal,
 * sanitizer abort or timeout becomes a result line, never a dead harness. */
typedef void (*opfn_t)(FILE *, const char *, char **, int);
static void run_forked(FILE *out, opfn_t fn, const char *id, char **args, int n) {
    int pfd[2];
    fflush(out);
    if(pipe(pfd) != 0) { perror("pipe"); exit(2); }
    pid_t pid = fork();
    if(pid == 0) {
        close(pfd[0]);
        FILE *co = fdopen(pfd[1], "w");
        alarm(op_timeout_s);
        fn(co, id, args, n);
        fflush(co);
        _exit(0);
    }
    close(pfd[1]);
    char *buf = NULL; size_t cap = 0, len = 0;
    for(;;) {
        if(len + 65536 > cap) { cap = cap ? cap * 2 : 131072; buf = realloc(buf, cap); }
        ssize_t r = read(pfd[0], buf + len, cap - len - 1);
        if(r <= 0) break;
        len += r;
    }
    close(pfd[0]);
    int st = 0;
    waitpid(pid, &st, 0);
    if(WIFEXITED(st) && WEXITSTATUS(st) == 0) {
        fwrite(buf, 1, len, out);
    } else if(WIFSIGNALED(st) && WTERMSIG(st) == SIGALRM) {
        fprintf(out, "%s HANG\n", id);
    } else if(WIFSIGNALED(st)) {
        fprintf(out, "%s CRASH sig%d\n", id, WTERMSIG(st));
    } else {
        /* sanitizer aborts exit with a non-zero status (ASAN: 1 by default -> we set exitcode=99) */
        fprintf(out, "%s CRASH exit%d\n", id, WEXITSTATUS(st));
    }
    free(buf);
}
#endif
