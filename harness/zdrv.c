/* zdrv: line-protocol driver around the REAL zchunk sources of /repo's working tree.
 * One operation per input line: "<id> <OP> <args...>"; one result line per op: "<id> <result>".
 * The Lean driver (lean/Driver.lean) reads the same lines and runs the model.
 *
 * Pure ops run in-process (SIGSEGV/SIGBUS on the guard page is caught and reported as OOB).
 * Ops that touch files run in a forked child with a timeout (see run_forked).
 */
#define _GNU_SOURCE
#include <stdio.h>
#include <stdlib.h>
#include <string.h>
#include <stdint.h>
#include <stdbool.h>
#include <signal.h>
#include <setjmp.h>
#include <unistd.h>
#include <fcntl.h>
#include <errno.h>
#include <limits.h>
#include <sys/mman.h>
#include <sys/wait.h>
#include <sys/stat.h>
#include <sys/time.h>
#include <zck.h>
#include "zck_private.h"

#include "zdrv_util.h"

/* ------------------------------------------------------------------ C20 ops */

static void op_ci_enc(FILE *out, const char *id, char **a, int n) {
    unsigned long long v = strtoull(a[0], NULL, 10);
    char buf[64];
    memset(buf, 0xAA, sizeof buf);
    size_t len = 0;
    compint_from_size(buf, (size_t)v, &len);
    fprintf(out, "%s OK ", id);
    put_hex(out, (unsigned char *)buf, len);
    fprintf(out, "\n");
}

static void op_ci_encint(FILE *out, const char *id, char **a, int n) {
    long long v = strtoll(a[0], NULL, 10);
    char buf[64];
    size_t len = 0;
    zckCtx *zck = zck_create();
    if(!compint_from_int(zck, buf, (int)v, &len)) {
        fprintf(out, "%s ERR\n", id);
    } else {
        fprintf(out, "%s OK ", id);
        put_hex(out, (unsigned char *)buf, len);
        fprintf(out, "\n");
    }
    zck_free(&zck);
}

/* CI_DEC <hexbuf> <pos> <maxlen> : the buffer is placed flush against a PROT_NONE page;
 * the decoder is called the way every caller in the library calls it:
 * compint_to_size(zck, &v, buf+pos, &length (initially pos), maxlen). */
static void ci_dec_common(FILE *out, const char *id, char **a, int n, int as_int) {
    size_t blen;
    unsigned char *bytes = get_hex(a[0], &blen);
    size_t pos = strtoull(a[1], NULL, 10);
    size_t maxlen = strtoull(a[2], NULL, 10);
    unsigned char *g = guard_alloc(blen);
    memcpy(g, bytes, blen);
    zckCtx *zck = zck_create();
    size_t length = pos;
    size_t v = 0; int iv = 0;
    int ok;
    if(sigsetjmp(segv_env, 1) == 0) {
        segv_armed = 1;
        if(as_int)
            ok = compint_to_int(zck, &iv, (char *)g + pos, &length, maxlen);
        else
            ok = compint_to_size(zck, &v, (char *)g + pos, &length, maxlen);
        segv_armed = 0;
        if(ok) {
            if(as_int) fprintf(out, "%s OK %d %zu\n", id, iv, length - pos);
            else fprintf(out, "%s OK %zu %zu\n", id, v, length - pos);
        } else {
            fprintf(out, "%s ERR\n", id);
        }
    } else {
        segv_armed = 0;
        fprintf(out, "%s OOB\n", id);
    }
    zck_free(&zck);
    guard_free(g, blen);
    free(bytes);
}
static void op_ci_dec(FILE *out, const char *id, char **a, int n) { ci_dec_common(out, id, a, n, 0); }
static void op_ci_decint(FILE *out, const char *id, char **a, int n) { ci_dec_common(out, id, a, n, 1); }

#include "ops_range.h"
#include "ops_hash.h"
#include "ops_file.h"
#include "ops_write.h"
#include "ops_io.h"
#include "ops_threads.h"
#include "ops_dl.h"
#include "ops_update.h"

/* ------------------------------------------------------------------ dispatch */

typedef void (*opfn)(FILE *, const char *, char **, int);
static struct { const char *name; opfn fn; int forked; } OPS[] = {
    {"CI_ENC", op_ci_enc, 0},
    {"CI_ENCINT", op_ci_encint, 0},
    {"CI_DEC", op_ci_dec, 0},
    {"CI_DECINT", op_ci_decint, 0},
    {"RANGE", op_range, 0},
    {"HASH", op_hash, 0},
    {"HASHO", op_hash, 0},
    {"HASHBIG", op_hashbig, 0},
    {"HASHSEQ", op_hashseq, 0},
    {"HASHSEQO", op_hashseq, 0},
    {"OPEN", op_open, 1},
    {"META", op_meta, 1},
    {"OPENM", op_openm, 1},
    {"OPENRETRY", op_openretry, 1},
    {"PINSWAP", op_pinswap, 1},
    {"OPENRESET", op_openreset, 1},
    {"OPENLATE", op_openlate, 1},
    {"READSEQ", op_readseq, 1},
    {"SCAN", op_scan, 1},
    {"CHUNKSEQ", op_chunkseq, 1},
    {"WRITE", op_write, 1},
    {"WRITE3", op_write3, 1},
    {"COPY", op_copy, 1},
    {"MATCH", op_match, 1},
    {"IOSEQ", op_ioseq, 1},
    {"IOFAULT", op_iofault, 1},
    {"THREADS", op_threads, 1},
    {"DLFEED", op_dlfeed, 1},
    {"UPDATE", op_update, 1},
    {NULL, NULL, 0}
};

int main(int argc, char **argv) {
    zck_set_log_level(ZCK_LOG_NONE);
    install_segv_handler();
    FILE *in = argc > 1 ? fopen(argv[1], "r") : stdin;
    FILE *out = argc > 2 ? fopen(argv[2], "w") : stdout;
    if(!in || !out) { perror("open"); return 2; }
    if(argc > 3) op_timeout_s = atoi(argv[3]);
    char *line = NULL; size_t cap = 0; ssize_t len;
    while((len = getline(&line, &cap, in)) > 0) {
        while(len > 0 && (line[len-1] == '\n' || line[len-1] == '\r')) line[--len] = 0;
        if(len == 0) continue;
        char *args[64]; int n = 0;
        char *save = NULL;
        for(char *t = strtok_r(line, " ", &save); t && n < 64; t = strtok_r(NULL, " ", &save)) args[n++] = t;
        if(n < 2) continue;
        int found = 0;
        for(int i = 0; OPS[i].name; i++) {
            if(strcmp(OPS[i].name, args[1]) == 0) {
                found = 1;
                if(OPS[i].forked) run_forked(out, OPS[i].fn, args[0], args + 2, n - 2);
                else OPS[i].fn(out, args[0], args + 2, n - 2);
                break;
            }
        }
        if(!found) fprintf(out, "%s BADOP\n", args[0]);
    }
    fflush(out);
    return 0;
}
