/* C18: HASH / HASHO <type> <seg1hex|seg2hex|...>   digest of the concatenation, fed to the
 * library's hash_update in exactly these segments ("-" is an empty segment, which hash_update
 * is never given by the library; it is skipped).   -> OK <digesthex> | ERR
 * HASHBIG <type> <blockfile> <reps> <tailbytes> <segsize>: message = block repeated + prefix. */
static void hash_common(FILE *out, const char *id, int type, unsigned char **segs, size_t *lens, int nseg) {
    zckCtx *zck = zck_create();
    zckHashType ht = {0};
    zckHash h = {0};
    if(!hash_setup(zck, &ht, type) || !hash_init(zck, &h, &ht)) { fprintf(out, "%s ERR\n", id); zck_free(&zck); return; }
    for(int i = 0; i < nseg; i++) {
        if(lens[i] == 0) continue;
        if(!hash_update(zck, &h, (char *)segs[i], lens[i])) { fprintf(out, "%s ERR\n", id); zck_free(&zck); return; }
    }
    char *d = hash_finalize(zck, &h);
    if(!d) { fprintf(out, "%s ERR\n", id); zck_free(&zck); return; }
    fprintf(out, "%s OK ", id);
    put_hex(out, (unsigned char *)d, ht.digest_size);
    fputc('\n', out);
    free(d);
    zck_free(&zck);
}
static void op_hash(FILE *out, const char *id, char **a, int n) {
    int type = atoi(a[0]);
    unsigned char *segs[256]; size_t lens[256]; int nseg = 0;
    char *copy = strdup(a[1]); char *save = NULL;
    for(char *t = strtok_r(copy, "|", &save); t && nseg < 256; t = strtok_r(NULL, "|", &save)) {
        segs[nseg] = get_hex(t, &lens[nseg]); nseg++;
    }
    hash_common(out, id, type, segs, lens, nseg);
    for(int i = 0; i < nseg; i++) free(segs[i]);
    free(copy);
}
static void op_hashbig(FILE *out, const char *id, char **a, int n) {
    int type = atoi(a[0]);
    size_t blen; unsigned char *blk = slurp(a[1], &blen);
    size_t reps = strtoull(a[2], NULL, 10), tail = strtoull(a[3], NULL, 10), seg = strtoull(a[4], NULL, 10);
    if(!blk || blen == 0 || seg == 0) { fprintf(out, "%s HARNESS-ERR\n", id); return; }
    size_t total = reps * blen + tail;
    zckCtx *zck = zck_create();
    zckHashType ht = {0}; zckHash h = {0};
    if(!hash_setup(zck, &ht, type) || !hash_init(zck, &h, &ht)) { fprintf(out, "%s ERR\n", id); return; }
    unsigned char *buf = malloc(seg);
    size_t pos = 0;
    while(pos < total) {
        size_t m = total - pos < seg ? total - pos : seg;
        for(size_t i = 0; i < m; ) {           /* message[k] = blk[k % blen] */
            size_t off = (pos + i) % blen, c = blen - off; if(c > m - i) c = m - i;
            memcpy(buf + i, blk + off, c); i += c;
        }
        if(!hash_update(zck, &h, (char *)buf, m)) { fprintf(out, "%s ERR\n", id); return; }
        pos += m;
    }
    char *d = hash_finalize(zck, &h);
    fprintf(out, "%s OK ", id); put_hex(out, (unsigned char *)d, ht.digest_size); fputc('\n', out);
    free(d); free(buf); free(blk); zck_free(&zck);
}

/* HASHSEQ / HASHSEQO <t:segs;t:segs;...>: several digests computed one after the other through ONE zckHashType and ONE zckHash
 * object, the way the library itself re-uses them (set_full_hash_type / set_chunk_hash_type re-run hash_setup on the type in
 * place and hash_init on the live hash).  segs = hex segments separated by '|', or '!' = initialised and left unfinished
 * (replaced by the next item, as when the hash type is changed after zck_init_write).  -> OK d1,d2,... (finished items) | ERR */
static void op_hashseq(FILE *out, const char *id, char **a, int n) {
    zckCtx *zck = zck_create();
    zckHashType ht = {0};
    zckHash h = {0};
    char res[8192] = ""; size_t rl = 0; int any = 0;
    char *copy = strdup(a[0]); char *save = NULL;
    for(char *item = strtok_r(copy, ";", &save); item; item = strtok_r(NULL, ";", &save)) {
        char *colon = strchr(item, ':');
        if(!colon) { fprintf(out, "%s HARNESS-ERR item\n", id); return; }
        *colon = 0;
        int type = atoi(item); char *segs = colon + 1;
        if(!hash_setup(zck, &ht, type) || !hash_init(zck, &h, &ht)) { fprintf(out, "%s ERR\n", id); return; }
        if(strcmp(segs, "!") == 0) continue;
        char *save2 = NULL;
        for(char *t = strtok_r(segs, "|", &save2); t; t = strtok_r(NULL, "|", &save2)) {
            size_t l; unsigned char *b = get_hex(t, &l);
            if(l > 0 && !hash_update(zck, &h, (char *)b, l)) { fprintf(out, "%s ERR\n", id); return; }
            free(b);
        }
        char *d = hash_finalize(zck, &h);
        if(!d) { fprintf(out, "%s ERR\n", id); return; }
        if(any) res[rl++] = ',';
        for(int i = 0; i < ht.digest_size && rl + 3 < sizeof(res); i++) rl += sprintf(res + rl, "%02x", (unsigned char)d[i]);
        any = 1;
        free(d);
    }
    hash_close(&h);
    fprintf(out, "%s OK %s\n", id, any ? res : "-");
    free(copy); zck_free(&zck);
}
