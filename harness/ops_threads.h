/* C19: N threads, each with its OWN contexts and files, run a scripted workload of library calls; the same workloads are
 * then run one thread at a time.  Every operation's observable result is a token.
 *   THREADS <workdir> <nthreads> <rounds> <seed> <fd|cb|off>  ->  OK P0 <tokens of thread 0, concurrent run> P1 ... S0 <tokens, serial run> S1 ...
 * In the tsan build a data race inside the library makes ThreadSanitizer end the child with status 66 (-> CRASH exit66).
 * Logging is configured once, before any thread starts (the property's premise). */
#include <pthread.h>
#include <sched.h>
#include <stdarg.h>
typedef struct { char *b; size_t len, cap; } th_Out;
static void th_tok(th_Out *o, const char *fmt, ...) {
    char tmp[2048];
    va_list ap; va_start(ap, fmt); int n = vsnprintf(tmp, sizeof tmp, fmt, ap); va_end(ap);
    if(n < 0) n = 0; if(n >= (int)sizeof tmp) n = sizeof tmp - 1;
    for(int i = 0; i < n; i++) if(tmp[i] == ' ' || tmp[i] == '\n' || tmp[i] == '\t') tmp[i] = '_';
    if(o->len + n + 2 > o->cap) { o->cap = (o->cap + n + 2) * 2; o->b = realloc(o->b, o->cap); }
    o->b[o->len++] = ' ';
    memcpy(o->b + o->len, tmp, n); o->len += n; o->b[o->len] = 0;
}

static uint64_t th_rng_next(uint64_t *s) { *s ^= *s << 13; *s ^= *s >> 7; *s ^= *s << 17; return *s; }
static uint64_t th_fnv(const unsigned char *b, size_t n) { uint64_t h = 1469598103934665603ULL; for(size_t i = 0; i < n; i++) { h ^= b[i]; h *= 1099511628211ULL; } return h; }

static void th_spew(const char *path, const unsigned char *b, size_t n) { FILE *f = fopen(path, "wb"); fwrite(b, 1, n, f); fclose(f); }

/* compressible pseudo-text made of a thread-specific vocabulary */
static unsigned char *th_content(uint64_t *s, size_t n) {
    unsigned char *b = malloc(n + 1); size_t i = 0;
    uint64_t voc = th_rng_next(s);
    while(i < n) {
        uint64_t w = (th_rng_next(s) % 23) * 2654435761u + voc;
        int wl = 2 + (int)(th_rng_next(s) % 9);
        for(int k = 0; k < wl && i < n; k++) { b[i++] = 'a' + (w % 26); w /= 26; }
        if(i < n) b[i++] = ' ';
    }
    return b;
}

typedef struct { const char *dir; int t, rounds; uint64_t seed; th_Out out; const char *phase; } th_Job;

static const int th_HT[4] = { ZCK_HASH_SHA1, ZCK_HASH_SHA256, ZCK_HASH_SHA512, ZCK_HASH_SHA512_128 };

/* write a zck file from `parts` pieces; returns 1 on success */
static int th_write_file(th_Out *o, const char *path, unsigned char **parts, size_t *lens, int nparts, int ht, int cht, int comp, int manual,
                      const unsigned char *dict, size_t dictlen, int uncompressed) {
    int fd = open(path, O_WRONLY | O_CREAT | O_TRUNC, 0644);
    if(fd < 0) { th_tok(o, "w:openfail"); return 0; }
    zckCtx *z = zck_create();
    int ok = z && zck_init_write(z, fd);
    ok = ok && zck_set_ioption(z, ZCK_HASH_FULL_TYPE, ht) && zck_set_ioption(z, ZCK_HASH_CHUNK_TYPE, cht)
            && zck_set_ioption(z, ZCK_COMP_TYPE, comp ? ZCK_COMP_ZSTD : ZCK_COMP_NONE);
    if(ok && manual) ok = zck_set_ioption(z, ZCK_MANUAL_CHUNK, 1);
    if(ok && uncompressed) ok = zck_set_ioption(z, ZCK_UNCOMP_HEADER, 1);
    if(ok && dict) ok = zck_set_soption(z, ZCK_COMP_DICT, (const char *)dict, dictlen);
    for(int i = 0; ok && i < nparts; i++) {
        ok = zck_write(z, (const char *)parts[i], lens[i]) == (ssize_t)lens[i];
        if(ok && manual) ok = zck_end_chunk(z) >= 0;
    }
    ok = ok && zck_close(z);
    if(!ok) th_tok(o, "w:fail:%s", z ? zck_get_error(z) : "nocontext");
    zck_free(&z); close(fd);
    return ok;
}

static void th_describe(th_Out *o, zckCtx *z) {
    char *hd = zck_get_header_digest(z), *dd = zck_get_data_digest(z);
    th_tok(o, "hdr:%zd:%zd:%zd:%zd:%s:%s:%s:%zd", zck_get_lead_length(z), zck_get_header_length(z), zck_get_data_length(z), zck_get_length(z),
        hd ? hd : "-", dd ? dd : "-", zck_hash_name_from_type(zck_get_full_hash_type(z)), zck_get_chunk_count(z));
    free(hd); free(dd);
}

static void th_one_round(th_Job *j, int r) {
    th_Out *o = &j->out;
    uint64_t s = j->seed * 1000003ULL + (uint64_t)j->t * 7919ULL + (uint64_t)r * 104729ULL + 88172645463325252ULL;
    for(int i = 0; i < 4; i++) th_rng_next(&s);
    char pa[512], pb[512], pt[512], px[512];
    snprintf(pa, sizeof pa, "%s/%s_t%d_r%d_a.zck", j->dir, j->phase, j->t, r);
    snprintf(pb, sizeof pb, "%s/%s_t%d_r%d_b.zck", j->dir, j->phase, j->t, r);
    snprintf(pt, sizeof pt, "%s/%s_t%d_r%d_t.zck", j->dir, j->phase, j->t, r);
    snprintf(px, sizeof px, "%s/%s_t%d_r%d_x.zck", j->dir, j->phase, j->t, r);
    int ht = th_HT[th_rng_next(&s) % 4], cht = th_HT[th_rng_next(&s) % 4], comp = th_rng_next(&s) % 2, manual = th_rng_next(&s) % 2, unc = th_rng_next(&s) % 3 == 0;
    int np = 3 + th_rng_next(&s) % 4;
    unsigned char *parts[8]; size_t lens[8], total = 0;
    static const size_t SZ[] = { 1, 40, 700, 5000, 40000, 140000 };
    for(int i = 0; i < np; i++) { lens[i] = SZ[th_rng_next(&s) % (manual ? 5 : 6)]; parts[i] = th_content(&s, lens[i]); total += lens[i]; }
    unsigned char *dict = NULL; size_t dl = 0;
    if(comp && th_rng_next(&s) % 2) { dl = 120; dict = th_content(&s, dl); }

    /* W0: write A, read it back whole */
    if(!th_write_file(o, pa, parts, lens, np, ht, cht, comp, manual, dict, dl, unc)) goto done;
    {
        size_t fl; unsigned char *fb = slurp(pa, &fl); th_tok(o, "file:%zu:%016llx", fl, (unsigned long long)th_fnv(fb, fl)); free(fb);
        int fd = open(pa, O_RDONLY); zckCtx *z = zck_create();
        if(!zck_init_read(z, fd)) { th_tok(o, "r:openfail:%s", zck_get_error(z)); zck_free(&z); close(fd); goto done; }
        th_describe(o, z);
        unsigned char *all = malloc(total + 16); size_t got = 0; ssize_t n; char buf[3001];
        while((n = zck_read(z, buf, 1 + th_rng_next(&s) % 3000)) > 0) { if(got + n <= total + 16) memcpy(all + got, buf, n); got += n; }
        unsigned char *exp = malloc(total + 1); size_t k = 0; for(int i = 0; i < np; i++) { memcpy(exp + k, parts[i], lens[i]); k += lens[i]; }
        th_tok(o, "read:%zd:%zu:%d:%d", n, got, got == total && memcmp(all, exp, total) == 0, (int)zck_close(z));
        free(all); free(exp); zck_free(&z); close(fd);
    }
    /* W1: names of unknown types (the library formats them into a buffer it owns) */
    {
        int hv = 1000 + j->t * 37 + r, cv = 2000 + j->t * 41 + r;
        const char *hn = zck_hash_name_from_type(hv);
        const char *cn = zck_comp_name_from_type(cv);
        for(int i = 0; i < 20; i++) sched_yield();
        th_tok(o, "names:%s:%s", hn, cn);
    }
    /* W2: validation of own file, then of a damaged copy */
    {
        int fd = open(pa, O_RDONLY); zckCtx *z = zck_create();
        if(zck_init_read(z, fd)) {
            int v = zck_validate_checksums(z); int d = zck_validate_data_checksum(z);
            th_tok(o, "valid:%d:%d", v, d);
        }
        zck_free(&z); close(fd);
        size_t fl; unsigned char *fb = slurp(pa, &fl);
        size_t at = fl - 1 - th_rng_next(&s) % (fl > 200 ? 150 : fl / 2);
        fb[at] ^= 0x10; th_spew(px, fb, fl); free(fb);
        fd = open(px, O_RDONLY); z = zck_create();
        if(zck_init_read(z, fd)) {
            int v = zck_validate_checksums(z);
            th_tok(o, "bad:%d:%d:%s", v, zck_is_error(z), zck_get_error(z));
        } else th_tok(o, "bad:open:%s", zck_get_error(z));
        zck_free(&z); close(fd);
        /* truncated header */
        fb = slurp(pa, &fl); th_spew(px, fb, 30 + th_rng_next(&s) % 40); free(fb);
        fd = open(px, O_RDONLY); z = zck_create();
        int ok = zck_init_read(z, fd);
        th_tok(o, "trunc:%d:%s", ok, zck_get_error(z));
        zck_free(&z); close(fd);
    }
    /* W3: chunk-wise access in a scrambled order */
    {
        int fd = open(pa, O_RDONLY); zckCtx *z = zck_create();
        if(zck_init_read(z, fd)) {
            ssize_t cnt = zck_get_chunk_count(z); uint64_t acc = 0;
            for(int i = 0; i < 12 && cnt > 0; i++) {
                zckChunk *c = zck_get_chunk(z, th_rng_next(&s) % cnt);
                ssize_t sz = zck_get_chunk_size(c); char *buf = malloc(sz + 1);
                ssize_t g = zck_get_chunk_data(c, buf, sz);
                char *dg = zck_get_chunk_digest(c);
                acc = acc * 31 + th_fnv((unsigned char *)buf, g > 0 ? g : 0) + (uint64_t)g + th_fnv((unsigned char *)dg, dg ? strlen(dg) : 0);
                free(dg); free(buf);
            }
            th_tok(o, "chunks:%zd:%016llx", cnt, (unsigned long long)acc);
        }
        zck_free(&z); close(fd);
    }
    /* W4: B shares some chunks with A; target = header of B + empty body; copy from A, report what is still missing */
    if(manual) {
        unsigned char *bp[10]; size_t bl[10]; int nb = 0;
        /* new content in front of and behind the shared chunks: two separate missing extents, i.e. a multipart response */
        unsigned char *extra0 = th_content(&s, 700); bp[nb] = extra0; bl[nb] = 700; nb++;
        for(int i = 0; i < np; i++) { if(th_rng_next(&s) % 2) { bp[nb] = parts[i]; bl[nb] = lens[i]; nb++; } }
        unsigned char *extra = th_content(&s, 900); bp[nb] = extra; bl[nb] = 900; nb++;
        if(th_write_file(o, pb, bp, bl, nb, ht, cht, comp, 1, dict, dl, unc)) {
            int fd = open(pb, O_RDONLY); zckCtx *zb = zck_create();
            if(zck_init_read(zb, fd)) {
                ssize_t hl = zck_get_lead_length(zb) + zck_get_header_length(zb), tl = zck_get_length(zb);
                size_t fl; unsigned char *fb = slurp(pb, &fl);
                unsigned char *tb = calloc(1, tl + 1); memcpy(tb, fb, hl); th_spew(pt, tb, tl); free(tb);
                int tfd = open(pt, O_RDWR), sfd = open(pa, O_RDONLY);
                zckCtx *tgt = zck_create(), *src = zck_create();
                if(zck_init_read(tgt, tfd) && zck_init_read(src, sfd)) {
                    int fv = zck_find_valid_chunks(tgt);
                    zck_reset_failed_chunks(tgt);
                    int cp = zck_copy_chunks(src, tgt);
                    int miss = zck_missing_chunks(tgt);
                    zckRange *rg = zck_get_missing_range(tgt, 2);
                    char *rc = rg ? zck_get_range_char(tgt, rg) : NULL;
                    th_tok(o, "copy:%d:%d:%d:%s:%d", fv, cp, miss, rc ? rc : "-", rg ? zck_get_range_count(rg) : -1);
                    zckDL *d = zck_dl_init(tgt);
                    if(d) {
                        th_tok(o, "dl:%d:%zd", rg ? (int)zck_dl_set_range(d, rg) : -1, zck_dl_get_bytes_downloaded(d));
                        /* ... and the download itself: this thread's own response (its own boundary string) fed through the header and
                         * write callbacks in a few pieces, other threads doing the same at the same time */
                        if(rg && rc) {
                            int ra[8][2], nr = 0; const char *q = rc;
                            while(*q && nr < 8) { long a = strtol(q, (char **)&q, 10); if(*q != '-') break; long b = strtol(q + 1, (char **)&q, 10); ra[nr][0] = a; ra[nr][1] = b; nr++; if(*q == ',') q++; }
                            char bnd[64]; snprintf(bnd, sizeof bnd, "t%dr%dx%llu", j->t, r, (unsigned long long)(th_rng_next(&s) % 1000000));
                            size_t cap = fl + 1024 * (nr + 1), bl2 = 0; char *body = malloc(cap);
                            if(nr >= 2) {
                                for(int k = 0; k < nr; k++) {
                                    bl2 += snprintf(body + bl2, cap - bl2, "\r\n--%s\r\nContent-Type: application/octet-stream\r\nContent-Range: bytes %d-%d/%zu\r\n\r\n", bnd, ra[k][0], ra[k][1], fl);
                                    memcpy(body + bl2, fb + ra[k][0], ra[k][1] - ra[k][0] + 1); bl2 += ra[k][1] - ra[k][0] + 1;
                                }
                                bl2 += snprintf(body + bl2, cap - bl2, "\r\n--%s--\r\n", bnd);
                                char hl2[160]; int hn = snprintf(hl2, sizeof hl2, "Content-Type: multipart/byteranges; boundary=%s\r\n", bnd);
                                zck_header_cb(hl2, 1, hn, d);
                            } else if(nr == 1) { memcpy(body, fb + ra[0][0], ra[0][1] - ra[0][0] + 1); bl2 = ra[0][1] - ra[0][0] + 1; }
                            size_t fed = 0, okb = 0; int pieces = 0;
                            while(fed < bl2) {
                                size_t n2 = 1 + th_rng_next(&s) % (bl2 / 3 + 1); if(n2 > bl2 - fed) n2 = bl2 - fed;
                                char *pc = malloc(n2); memcpy(pc, body + fed, n2);
                                size_t w = zck_write_chunk_cb(pc, 1, n2, d); free(pc);
                                okb += w; fed += n2; pieces++;
                                if(w != n2) break;
                                sched_yield();
                            }
                            th_tok(o, "dlrun:%d:%d:%zu/%zu:%d", nr, pieces > 0, okb, bl2, zck_missing_chunks(tgt));
                            free(body);
                        }
                        zck_dl_free(&d);
                    }
                    free(rc); if(rg) zck_range_free(&rg);
                    size_t al; unsigned char *ab = slurp(pt, &al); th_tok(o, "tgt:%016llx", (unsigned long long)th_fnv(ab, al)); free(ab);
                } else th_tok(o, "copy:openfail");
                zck_free(&tgt); zck_free(&src); close(tfd); close(sfd); free(fb);
            }
            zck_free(&zb); close(fd);
        }
        free(extra); free(extra0);
    }
    { char *rs = zck_get_range(th_rng_next(&s) % 100000, 100000 + th_rng_next(&s) % 100000); th_tok(o, "range:%s", rs ? rs : "-"); free(rs); }
done:
    for(int i = 0; i < np; i++) free(parts[i]);
    free(dict);
    unlink(pa); unlink(pb); unlink(pt); unlink(px);
}

static pthread_barrier_t th_bar;
static void *th_worker(void *p) {
    th_Job *j = p;
    pthread_barrier_wait(&th_bar);
    for(int r = 0; r < j->rounds; r++) th_one_round(j, r);
    return NULL;
}

static volatile int th_cb_calls;
static void th_log_cb(const char *function, zck_log_type lt, const char *format, va_list args) { __atomic_add_fetch(&th_cb_calls, 1, __ATOMIC_RELAXED); }


static void op_threads(FILE *out, const char *id, char **argv, int n) {
    const char *dir = argv[0]; int nt = atoi(argv[1]), rounds = atoi(argv[2]); uint64_t seed = strtoull(argv[3], NULL, 10);
    mkdir(dir, 0755);
    if(strcmp(argv[4], "fd") == 0) { zck_set_log_level(ZCK_LOG_DDEBUG); zck_set_log_fd(open("/dev/null", O_WRONLY)); }
    else if(strcmp(argv[4], "cb") == 0) { zck_set_log_level(ZCK_LOG_DEBUG); zck_set_log_callback(th_log_cb); }
    else { zck_set_log_level(ZCK_LOG_NONE); zck_set_log_fd(open("/dev/null", O_WRONLY)); }
    th_Job *par = calloc(nt, sizeof(th_Job)), *ser = calloc(nt, sizeof(th_Job));
    pthread_t *th = calloc(nt, sizeof(pthread_t));
    pthread_barrier_init(&th_bar, NULL, nt);
    for(int t = 0; t < nt; t++) { par[t] = (th_Job){ dir, t, rounds, seed, {0}, "p" }; pthread_create(&th[t], NULL, th_worker, &par[t]); }
    for(int t = 0; t < nt; t++) pthread_join(th[t], NULL);
    for(int t = 0; t < nt; t++) { ser[t] = (th_Job){ dir, t, rounds, seed, {0}, "p" }; for(int r = 0; r < rounds; r++) th_one_round(&ser[t], r); }
    fprintf(out, "%s OK", id);
    for(int t = 0; t < nt; t++) fprintf(out, " P%d%s", t, par[t].out.b ? par[t].out.b : "");
    for(int t = 0; t < nt; t++) fprintf(out, " S%d%s", t, ser[t].out.b ? ser[t].out.b : "");
    fputc('\n', out);
}
