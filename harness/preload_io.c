/* LD_PRELOAD shim for the CLI tools (C12): the IOF_K-th call among read/write/lseek fails once as IOF_KIND
 * (eio | enospc | eintr | s<n>); IOF_COUNT=<file> records the number of calls made. */
#define _GNU_SOURCE
#include <dlfcn.h>
#include <errno.h>
#include <stdio.h>
#include <stdlib.h>
#include <string.h>
#include <unistd.h>
#include <sys/types.h>
static long calls = 0, kth = -1; static const char *kind = "eio";
static ssize_t (*real_read)(int, void *, size_t); static ssize_t (*real_write)(int, const void *, size_t);
static void init(void) {
    if(kth >= 0) return;
    real_read = dlsym(RTLD_NEXT, "read"); real_write = dlsym(RTLD_NEXT, "write");
    const char *k = getenv("IOF_K"); kth = k ? atol(k) : 0;
    if(getenv("IOF_KIND")) kind = getenv("IOF_KIND");
}
static void fini(void) __attribute__((destructor));
static void fini(void) {
    const char *f = getenv("IOF_COUNT");
    if(f) { FILE *o = fopen(f, "w"); if(o) { fprintf(o, "%ld\n", calls); fclose(o); } }
}
static int hit(void) { init(); calls++; return kth > 0 && calls == kth; }
ssize_t read(int fd, void *buf, size_t n) {
    if(!hit()) return real_read(fd, buf, n);
    if(kind[0] == 's') { size_t k = strtoul(kind + 1, NULL, 10); if(!k) k = 1; if(k > n) k = n; return real_read(fd, buf, k); }
    errno = strcmp(kind, "eintr") == 0 ? EINTR : EIO; return -1;
}
ssize_t write(int fd, const void *buf, size_t n) {
    if(!hit()) return real_write(fd, buf, n);
    if(kind[0] == 's') { size_t k = strtoul(kind + 1, NULL, 10); if(!k) k = 1; if(k > n) k = n; return real_write(fd, buf, k); }
    errno = strcmp(kind, "eintr") == 0 ? EINTR : strcmp(kind, "enospc") == 0 ? ENOSPC : EIO; return -1;
}
