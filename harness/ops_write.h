/* WRITE <outfile> <cfg> <ops>
 *   cfg : comma separated key=value: comp=none|zstd level=N dict=<hex|-> manual=0|1 min=N max=N full=T chunk=T uncomp=0|1 fd0=0|1
 *   ops : '|' separated: w<hex> (zck_write), e (zck_end_chunk)
 * -> OK w=<rets> e=<rets> close=<0|1> fh=<sha256 of file> n=<chunks> cl=<digest:complen:len;...> valid=<zck_validate_checksums> rb=<ret>:<n>:<bytes> rclose=<0|1>
 *    (after a successful close the file is re-opened and validated / read back with 32 KiB buffers) */
static const char *cfg_get(char **kv, int n, const char *k) {
    size_t kl = strlen(k);
    for(int i = 0; i < n; i++) if(strncmp(kv[i], k, kl) == 0 && kv[i][kl] == '=') return kv[i] + kl + 1;
    return NULL;
}
static void op_write(FILE *out, const char *id, char **a, int n) {
    char *kv[32]; int nkv = 0; char *save = NULL;
    for(char *t = strtok_r(a[1], ",", &save); t && nkv < 32; t = strtok_r(NULL, ",", &save)) kv[nkv++] = t;
    const char *v;
    int fd = open(a[0], O_TRUNC | O_RDWR | O_CREAT, 0666);
    if(fd < 0) { fprintf(out, "%s HARNESS-ERR open\n", id); return; }
    if(fd == 0) { fd = dup(0); }
    /* descriptor 0 free when the library creates its temporary file */
    if((v = cfg_get(kv, nkv, "fd0")) && atoi(v) == 1) close(0);
    zckCtx *zck = zck_create();
    if(!zck_init_write(zck, fd)) { fprintf(out, "%s ERR init\n", id); return; }
    int ok = 1;
    if((v = cfg_get(kv, nkv, "comp"))) ok &= zck_set_ioption(zck, ZCK_COMP_TYPE, strcmp(v, "none") == 0 ? ZCK_COMP_NONE : ZCK_COMP_ZSTD);
    if((v = cfg_get(kv, nkv, "level"))) ok &= zck_set_ioption(zck, ZCK_ZSTD_COMP_LEVEL, atoi(v));
    if((v = cfg_get(kv, nkv, "full"))) ok &= zck_set_ioption(zck, ZCK_HASH_FULL_TYPE, atoi(v));
    if((v = cfg_get(kv, nkv, "chunk"))) ok &= zck_set_ioption(zck, ZCK_HASH_CHUNK_TYPE, atoi(v));
    if((v = cfg_get(kv, nkv, "uncomp")) && atoi(v)) ok &= zck_set_ioption(zck, ZCK_UNCOMP_HEADER, 1);
    if((v = cfg_get(kv, nkv, "manual")) && atoi(v)) ok &= zck_set_ioption(zck, ZCK_MANUAL_CHUNK, 1);
    if((v = cfg_get(kv, nkv, "max")) && atoll(v) > 0) ok &= zck_set_ioption(zck, ZCK_CHUNK_MAX, atoll(v));
    if((v = cfg_get(kv, nkv, "min")) && atoll(v) > 0) ok &= zck_set_ioption(zck, ZCK_CHUNK_MIN, atoll(v));
    if((v = cfg_get(kv, nkv, "dict")) && strcmp(v, "-") != 0) {
        size_t dl; unsigned char *d = get_hex(v, &dl);
        ok &= zck_set_soption(zck, ZCK_COMP_DICT, (char *)d, dl);
        free(d);
    }
    if(!ok) { fprintf(out, "%s ERR option\n", id); return; }
    fprintf(out, "%s OK w=", id);
    char *ops = a[2]; save = NULL;
    int first = 1, failed = 0;
    for(char *t = strtok_r(ops, "|", &save); t; t = strtok_r(NULL, "|", &save)) {
        ssize_t r;
        if(t[0] == 'w') {
            size_t l; unsigned char *b = get_hex(t[1] ? t + 1 : "-", &l);
            r = zck_write(zck, (char *)b, l);
            free(b);
            if(r != (ssize_t)l) failed = 1;
        } else {
            r = zck_end_chunk(zck);
            if(r < 0) failed = 1;
        }
        fprintf(out, "%s%zd", first ? "" : ",", r); first = 0;
    }
    if(first) fputc('-', out);
    int cl = zck_close(zck);
    fprintf(out, " close=%d", cl && !failed);
    zck_free(&zck);
    close(fd);
    if(!cl || failed) { fputc('\n', out); return; }
    /* what was produced */
    size_t flen; unsigned char *fb = slurp(a[0], &flen);
    unsigned char fd_[32]; SHA256(fb, flen, fd_);
    fprintf(out, " fh="); put_hex(out, fd_, 32);
    free(fb);
    int rfd;
    zckCtx *r = open_file(a[0], &rfd);
    if(!r) { fprintf(out, " reopen=ERR\n"); return; }
    fprintf(out, " n=%zd cl=", zck_get_chunk_count(r));
    first = 1;
    for(zckChunk *c = zck_get_first_chunk(r); c; c = zck_get_next_chunk(c)) {
        char *d = zck_get_chunk_digest(c);
        fprintf(out, "%s%s:%zd:%zd", first ? "" : ";", d, zck_get_chunk_comp_size(c), zck_get_chunk_size(c));
        free(d); first = 0;
    }
    fprintf(out, " valid=%d", zck_validate_checksums(r));
    size_t cap = 1 << 20, len = 0; unsigned char *all = malloc(cap); ssize_t rr;
    unsigned char *buf = malloc(32768);
    while((rr = zck_read(r, (char *)buf, 32768)) > 0) {
        if(len + rr > cap) { while(len + rr > cap) cap *= 2; all = realloc(all, cap); }
        memcpy(all + len, buf, rr); len += rr;
    }
    fprintf(out, " rb=%zd:%zu:", rr, len);
    put_bytes(out, all, len);
    fprintf(out, " rclose=%d\n", (int)zck_close(r));
    free(all); free(buf);
    zck_free(&r); close(rfd);
}

/* WRITE3 <out1> <out2> <out3> <comp none|zstd> <hexdata>: three writer contexts with overlapping lifetimes, in the order a process
 * that writes several files may well use: A is written and closed but freed late; B's output is opened (it gets the lowest free
 * descriptor number) and B initialised; A is freed; C's output is opened and C initialised; B and C are written and closed.
 * Every output must then hold what its context was given, regardless of which descriptor numbers were free when.
 * -> OK c=<closeA><closeB><closeC> rt=<1|0 per file: opens, validates, reads back its content> */
static int w3_roundtrip(const char *path, const unsigned char *want, size_t wl) {
    int rfd; zckCtx *r = open_file(path, &rfd);
    if(!r) return 0;
    int ok = zck_validate_checksums(r) == 1;
    size_t cap = wl + 65536, len = 0; unsigned char *all = malloc(cap); ssize_t rr;
    while(ok && (rr = zck_read(r, (char *)all + len, cap - len)) > 0) len += rr;
    ok = ok && len == wl && memcmp(all, want, wl) == 0 && zck_close(r);
    free(all); zck_free(&r); close(rfd);
    return ok;
}
static zckCtx *w3_begin(int fd, const char *comp) {
    zckCtx *z = zck_create();
    if(!zck_init_write(z, fd)) return NULL;
    zck_set_ioption(z, ZCK_COMP_TYPE, strcmp(comp, "none") == 0 ? ZCK_COMP_NONE : ZCK_COMP_ZSTD);
    return z;
}
static void op_write3(FILE *out, const char *id, char **a, int n) {
    size_t dl; unsigned char *d = get_hex(a[4], &dl);
    /* three different contents of the same length, so that a mix-up shows */
    unsigned char *dA = malloc(dl + 1), *dB = malloc(dl + 1), *dC = malloc(dl + 1);
    for(size_t i = 0; i < dl; i++) { dA[i] = d[i]; dB[i] = d[i] ^ 0x5a; dC[i] = (unsigned char)(d[i] + 7); }
    int fA = open(a[0], O_TRUNC | O_RDWR | O_CREAT, 0666);
    zckCtx *A = fA >= 0 ? w3_begin(fA, a[3]) : NULL;
    if(!A) { fprintf(out, "%s HARNESS-ERR A\n", id); return; }
    int cA = zck_write(A, (char *)dA, dl) == (ssize_t)dl && zck_close(A);
    int fB = open(a[1], O_TRUNC | O_RDWR | O_CREAT, 0666);
    zckCtx *B = fB >= 0 ? w3_begin(fB, a[3]) : NULL;
    zck_free(&A);                                            /* A is released only now */
    int fC = open(a[2], O_TRUNC | O_RDWR | O_CREAT, 0666);
    zckCtx *C = fC >= 0 ? w3_begin(fC, a[3]) : NULL;
    if(!B || !C) { fprintf(out, "%s OK c=%d-- rt=---\n", id, cA); return; }
    int cB = zck_write(B, (char *)dB, dl) == (ssize_t)dl && zck_close(B);
    int cC = zck_write(C, (char *)dC, dl) == (ssize_t)dl && zck_close(C);
    zck_free(&B); zck_free(&C);
    close(fA); close(fB); close(fC);
    fprintf(out, "%s OK c=%d%d%d rt=%d%d%d\n", id, cA, cB, cC,
            cA ? w3_roundtrip(a[0], dA, dl) : 1, cB ? w3_roundtrip(a[1], dB, dl) : 1, cC ? w3_roundtrip(a[2], dC, dl) : 1);
    free(d); free(dA); free(dB); free(dC);
}
