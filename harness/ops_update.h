/* C04 / C11: the documented update procedure (what src/zck_dl.c's main does), performed in-process with the real library
 * calls and a small reference SERVER that holds file B (RFC 7233: one range -> plain 206 body, several -> multipart/byteranges).
 * Every request is logged.  A kill point (the k-th write(2) on the target descriptor performs only part of its write and the
 * "process dies": siglongjmp out of the procedure, contexts abandoned) can be armed; the procedure is then started again on the
 * partially written target with fresh contexts, as a restarted zckdl would.
 *
 * UPDATE <Bfile> <Afile|-> <tgtfile> <max_ranges> <frag: - | bN> <kill: - | k:part> [<drop: r:n>]   part = 0 | h | a  (none / half / all bytes of the
 * k-th write);  drop r:n = in round r the connection drops after n body bytes and the client simply goes on to the next round
 * kill may be a list k:p,k:p,..: the i-th entry applies to the i-th run (repeated interruptions); only the run that completes is printed
 *  -> OK hdr=<a-b;..> scan=<ret>:<flags> copy=<flags> reqs=<r;r;..> rounds=<n> vd=<ret> missing=<n> writes=<n>
 *        [killed=<k> kscan.. r.hdr= r.scan= r.copy= r.reqs= r.rounds= r.vd= r.missing=] len=<n> file=<bytes> rx.. rc..
 *     the target at the kill point is saved as <tgtfile>.killed                                                  */
static void upd_app(char **log, size_t *len, const char *s) {
    size_t n = strlen(s);
    *log = realloc(*log, *len + n + 1); memcpy(*log + *len, s, n + 1); *len += n;
}

/* feed `body` to a write callback in pieces of `frag` bytes (0 = one piece); returns 0 when a callback refuses */
typedef size_t (*wcb_t)(void *, size_t, size_t, void *);
static long upd_cut = -1;      /* >= 0: the connection drops after this many body bytes of the current transfer */
static int upd_feed(wcb_t cb, zckDL *dl, const unsigned char *body, size_t bl, size_t frag) {
    if(upd_cut >= 0 && (size_t)upd_cut < bl) bl = upd_cut;
    size_t pos = 0;
    while(pos < bl) {
        size_t len = bl - pos; if(frag && len > frag) len = frag;
        unsigned char *blk = malloc(len); memcpy(blk, body + pos, len);
        size_t r = cb(blk, 1, len, dl);
        free(blk);
        if(r != len) return 0;
        pos += len;
    }
    return 1;
}
static int upd_hline(zckDL *dl, const char *s) {
    size_t n = strlen(s); char *blk = malloc(n ? n : 1); memcpy(blk, s, n);
    size_t r = zck_header_cb(blk, 1, n, dl); free(blk);
    return r == n;
}

#define UPD_BOUNDARY "3d6b6a416f9b5"
static int upd_transfer = 0;     /* number of the body transfer (from 1): the server picks a new boundary for every response */
/* the server: answer the Range header `rs` ("a-b,c-d") from file B through the given body callback */
static int upd_serve(zckDL *dl, const unsigned char *B, size_t Bl, const char *rs, wcb_t cb, size_t frag) {
    size_t rng[512][2]; int nr = 0;
    char *copy = strdup(rs), *save = NULL;
    for(char *t = strtok_r(copy, ",", &save); t && nr < 512; t = strtok_r(NULL, ",", &save)) {
        unsigned long long a, b;
        if(sscanf(t, "%llu-%llu", &a, &b) != 2 || a > b || a >= Bl) { free(copy); return 0; }     /* 416 */
        if(b >= Bl) b = Bl - 1;
        rng[nr][0] = a; rng[nr][1] = b; nr++;
    }
    free(copy);
    if(nr == 0) return 0;
    char line[256];
    if(!upd_hline(dl, "HTTP/1.1 206 Partial Content\r\n")) return 0;
    if(nr == 1) {
        snprintf(line, sizeof line, "Content-Range: bytes %zu-%zu/%zu\r\n", rng[0][0], rng[0][1], Bl);
        if(!upd_hline(dl, "Content-Type: application/octet-stream\r\n") || !upd_hline(dl, line) || !upd_hline(dl, "\r\n")) return 0;
        return upd_feed(cb, dl, B + rng[0][0], rng[0][1] - rng[0][0] + 1, frag);
    }
    size_t cap = 0;
    char bnd[64]; snprintf(bnd, sizeof bnd, "%s%d", UPD_BOUNDARY, upd_transfer);
    for(int i = 0; i < nr; i++) cap += rng[i][1] - rng[i][0] + 1 + 256;
    unsigned char *body = malloc(cap + 64); size_t bl = 0;
    for(int i = 0; i < nr; i++) {
        bl += sprintf((char *)body + bl, "\r\n--%s\r\nContent-Type: application/octet-stream\r\nContent-Range: bytes %zu-%zu/%zu\r\n\r\n",
                      bnd, rng[i][0], rng[i][1], Bl);
        memcpy(body + bl, B + rng[i][0], rng[i][1] - rng[i][0] + 1); bl += rng[i][1] - rng[i][0] + 1;
    }
    bl += sprintf((char *)body + bl, "\r\n--%s--\r\n", bnd);
    snprintf(line, sizeof line, "Content-Length: %zu\r\n", bl);
    char ct[160]; snprintf(ct, sizeof ct, "Content-Type: multipart/byteranges; boundary=%s\r\n", bnd);
    int ok = upd_hline(dl, ct) && upd_hline(dl, line) && upd_hline(dl, "\r\n")
             && upd_feed(cb, dl, body, bl, frag);
    free(body);
    return ok;
}

/* dl_bytes() of zck_dl.c */
static int upd_dl_bytes(zckDL *dl, int fd, const unsigned char *B, size_t Bl, size_t bytes, size_t start, size_t *buffer_len,
                        size_t frag, char **log, size_t *loglen) {
    if(start + bytes > *buffer_len) {
        if(lseek(fd, *buffer_len, SEEK_SET) == -1) return 0;
        char rs[64]; snprintf(rs, sizeof rs, "%zu-%zu", *buffer_len, start + bytes - 1);
        upd_app(log, loglen, *loglen ? ";" : ""); upd_app(log, loglen, rs);
        zck_dl_reset(dl);
        if(!upd_serve(dl, B, Bl, rs, zck_write_zck_header_cb, frag)) return 0;
        *buffer_len += start + bytes - *buffer_len;
        if(lseek(fd, start, SEEK_SET) == -1) return 0;
    }
    return 1;
}

/* one complete run of the procedure; prints its tokens with `pfx`; returns 1 when it ran to the end */
static int upd_drop_round = 0; static long upd_drop_bytes = -1;
static int upd_run(FILE *out, const char *pfx, const char *Bp, const char *Ap, const char *Tp, int max_ranges, size_t frag) {
    size_t Bl; unsigned char *B = slurp(Bp, &Bl);
    zckCtx *src = NULL;
    if(strcmp(Ap, "-") != 0) {
        int sfd = open(Ap, O_RDONLY);
        src = zck_create();
        if(sfd < 0 || !zck_init_read(src, sfd)) { fprintf(out, " %serr=open-src", pfx); return 0; }
    }
    int fd = open(Tp, O_RDWR | O_CREAT, 0666);
    zckCtx *tgt = zck_create();
    if(fd < 0 || !zck_init_adv_read(tgt, fd)) { fprintf(out, " %serr=open-tgt", pfx); return 0; }
    zckDL *dl = zck_dl_init(tgt);
    kill_fd = fd; rx_dl = dl;
    char *hl = NULL; size_t hll = 0; upd_app(&hl, &hll, "");
    size_t buffer_len = 0;
    /* dl_header() */
    if(!upd_dl_bytes(dl, fd, B, Bl, zck_get_min_download_size(), 0, &buffer_len, frag, &hl, &hll)) { fprintf(out, " %shdr=%s %serr=hdr-fetch", pfx, hl, pfx); return 0; }
    if(!zck_read_lead(tgt)) { fprintf(out, " %shdr=%s %serr=lead", pfx, hl, pfx); return 0; }
    size_t start = zck_get_lead_length(tgt);
    if(!upd_dl_bytes(dl, fd, B, Bl, zck_get_header_length(tgt) - start, start, &buffer_len, frag, &hl, &hll)) { fprintf(out, " %shdr=%s %serr=hdr-fetch2", pfx, hl, pfx); return 0; }
    if(!zck_read_header(tgt)) { fprintf(out, " %shdr=%s %serr=header", pfx, hl, pfx); return 0; }
    fprintf(out, " %shdr=%s", pfx, hl);
    int sc = zck_find_valid_chunks(tgt);
    fprintf(out, " %sscan=%d:", pfx, sc); put_flags(out, tgt);
    if(sc == 0) { fprintf(out, " %serr=scan", pfx); return 0; }
    int rounds = 0;
    char *rl = NULL; size_t rll = 0; upd_app(&rl, &rll, "");
    if(sc != 1) {
        if(src && !zck_copy_chunks(src, tgt)) { fprintf(out, " %serr=copy", pfx); return 0; }
        zck_reset_failed_chunks(tgt);
        fprintf(out, " %scopy=", pfx); put_flags(out, tgt);
        while(zck_missing_chunks(tgt) > 0) {
            if(++rounds > 2000) { fprintf(out, " %sreqs=%s %serr=no-progress", pfx, rl, pfx); return 0; }
            zck_dl_reset(dl);
            zckRange *range = zck_get_missing_range(tgt, max_ranges);
            if(range == NULL || !zck_dl_set_range(dl, range)) { fprintf(out, " %serr=range", pfx); return 0; }
            char *rs = zck_get_range_char(src, range);
            if(rs == NULL) { fprintf(out, " %serr=range-char", pfx); return 0; }
            upd_app(&rl, &rll, rll ? ";" : ""); upd_app(&rl, &rll, *rs ? rs : "-");
            upd_cut = (upd_drop_round == rounds) ? upd_drop_bytes : -1;     /* this transfer is cut short; the client retries */
            upd_transfer = rounds;
            int ok = *rs ? upd_serve(dl, B, Bl, rs, zck_write_chunk_cb, frag) : 0;
            upd_cut = -1;
            free(rs);
            zck_dl_set_range(dl, NULL);
            zck_range_free(&range);
            if(!ok) { fprintf(out, " %sreqs=%s %srounds=%d %serr=download", pfx, rl, pfx, rounds, pfx); return 0; }
        }
    } else {
        fprintf(out, " %scopy=", pfx); put_flags(out, tgt);
    }
    fprintf(out, " %sreqs=%s %srounds=%d", pfx, rll ? rl : "-", pfx, rounds);
    if(ftruncate(fd, zck_get_length(tgt)) < 0) { fprintf(out, " %serr=truncate", pfx); return 0; }
    int vd = zck_validate_data_checksum(tgt);
    fprintf(out, " %svd=%d %smissing=%d %sfailed=%d", pfx, vd, pfx, zck_missing_chunks(tgt), pfx, zck_failed_chunks(tgt));
    zck_dl_free(&dl); zck_free(&tgt); if(src) zck_free(&src);
    close(fd);
    kill_fd = -1;
    free(B);
    return 1;
}

static void copy_file(const char *from, const char *to) {
    size_t n; unsigned char *b = slurp(from, &n);
    FILE *f = fopen(to, "wb"); if(f) { if(n) fwrite(b, 1, n, f); fclose(f); }
    free(b);
}

static void op_update(FILE *out, const char *id, char **a, int n) {
    int max_ranges = atoi(a[3]);
    size_t frag = a[4][0] == 'b' ? strtoull(a[4] + 1, NULL, 10) : 0;
    upd_drop_round = 0; upd_drop_bytes = -1;
    if(n >= 7 && strchr(a[6], ':')) { upd_drop_round = atoi(a[6]); upd_drop_bytes = atol(strchr(a[6], ':') + 1); }
    fprintf(out, "%s OK", id);
    rx_on = 1; rx_dl = NULL;
    /* kill list "k:p,k:p,...": the i-th entry applies to the i-th run of the procedure */
    static char *volatile kl; static char *volatile ksave; static volatile int kills;
    kl = strcmp(a[5], "-") == 0 ? NULL : strtok_r(a[5], ",", (char **)&ksave);
    kills = 0;
    static char *volatile rbuf; static volatile size_t rlen; static FILE *volatile rf;
    for(;;) {
        kill_calls = 0; kill_armed = 0;
        if(kl) { kill_at = atoi(kl); const char *c = strchr(kl, ':'); kill_part = c ? c[1] : '0'; kill_armed = 1; }
        rbuf = NULL; rlen = 0; rf = open_memstream((char **)&rbuf, (size_t *)&rlen);
        if(sigsetjmp(kill_env, 1) == 0) {
            upd_run(rf, kills ? "r." : "", a[0], a[1], a[2], max_ranges, frag);
            fprintf(rf, " %swrites=%d", kills ? "r." : "", kill_calls);
            fclose(rf);
            fputs(rbuf, out); free(rbuf);
            break;
        } else {
            /* the process "died" inside the k-th write: what it had printed is gone, the target stays as it is */
            fclose(rf); free(rbuf);
            kills++;
            char kp[4096]; snprintf(kp, sizeof kp, "%s.killed", a[2]);
            copy_file(a[2], kp);
            fprintf(out, " killed=%d", kill_at);
            kl = strtok_r(NULL, ",", (char **)&ksave);
        }
    }
    rx_on = 0;
    size_t tl; unsigned char *tb = slurp(a[2], &tl);
    fprintf(out, " len=%zu ub=%d file=", tl, rx_ub); put_bytes(out, tb ? tb : (unsigned char *)"", tl);
    if(rx_log) fputs(rx_log, out);
    fputc('\n', out);
    free(tb);
}
