/* C12: fault injection by link-time interposition (-Wl,--wrap=read,--wrap=write,--wrap=lseek).
 * While `io_armed`, every read/write/lseek made by the library pops the next outcome from the
 * schedule (tokens: ok | s<n> short count of n bytes | eintr | eio | enospc); an exhausted schedule
 * means "ok".  Outside armed sections the calls go straight to libc. */
ssize_t __real_read(int fd, void *buf, size_t n);
ssize_t __real_write(int fd, const void *buf, size_t n);
off_t __real_lseek(int fd, off_t off, int wh);
off64_t __real_lseek64(int fd, off64_t off, int wh);
static int io_armed = 0, io_calls = 0, io_fired = 0;
static char *io_sched[4096]; static int io_nsched = 0;
static int io_kth = 0; static const char *io_kind = NULL;     /* single fault: the k-th call gets io_kind */
static const char *io_next(void) {
    io_calls++;
    if(io_kth > 0) return io_calls == io_kth ? io_kind : "ok";
    if(io_calls <= io_nsched) return io_sched[io_calls - 1];
    return "ok";
}
ssize_t __wrap_read(int fd, void *buf, size_t n) {
    if(!io_armed) return __real_read(fd, buf, n);
    const char *o = io_next();
    if(strcmp(o, "ok") == 0) return __real_read(fd, buf, n);
    io_fired++;
    if(o[0] == 's') { size_t k = strtoull(o + 1, NULL, 10); if(k == 0) k = 1; if(k > n) k = n; return __real_read(fd, buf, k); }
    errno = strcmp(o, "eintr") == 0 ? EINTR : EIO; return -1;
}
/* C11 kill points: the k-th write on the target descriptor writes only part of its bytes and the "process dies" */
#include <setjmp.h>
static int kill_armed = 0, kill_fd = -1, kill_at = 0, kill_calls = 0; static char kill_part = '0';
static sigjmp_buf kill_env;
static void kill_hook(int fd, const void *buf, size_t n) {
    if(fd != kill_fd) return;
    kill_calls++;
    if(!kill_armed || kill_calls != kill_at) return;
    size_t k = kill_part == '0' ? 0 : kill_part == 'h' ? n / 2 : n;
    if(k) __real_write(fd, buf, k);
    kill_armed = 0;
    siglongjmp(kill_env, 1);
}
ssize_t __wrap_write(int fd, const void *buf, size_t n) {
    if(kill_fd >= 0) kill_hook(fd, buf, n);
    if(!io_armed) return __real_write(fd, buf, n);
    const char *o = io_next();
    if(strcmp(o, "ok") == 0) return __real_write(fd, buf, n);
    io_fired++;
    if(o[0] == 's') { size_t k = strtoull(o + 1, NULL, 10); if(k == 0) k = 1; if(k > n) k = n; return __real_write(fd, buf, k); }
    errno = strcmp(o, "eintr") == 0 ? EINTR : strcmp(o, "enospc") == 0 ? ENOSPC : EIO; return -1;
}
off_t __wrap_lseek(int fd, off_t off, int wh) {
    if(!io_armed) return __real_lseek(fd, off, wh);
    const char *o = io_next();
    if(strcmp(o, "ok") == 0 || o[0] == 's') return __real_lseek(fd, off, wh);
    io_fired++;
    errno = EIO; return -1;
}
off64_t __wrap_lseek64(int fd, off64_t off, int wh) {      /* what lseek is with _FILE_OFFSET_BITS=64 */
    if(!io_armed) return __real_lseek64(fd, off, wh);
    const char *o = io_next();
    if(strcmp(o, "ok") == 0 || o[0] == 's') return __real_lseek64(fd, off, wh);
    io_fired++;
    errno = EIO; return -1;
}
static void io_set_sched(char *s) {
    io_nsched = 0; io_calls = 0; io_fired = 0; io_kth = 0;
    if(strcmp(s, "-") == 0) return;
    char *save = NULL;
    for(char *t = strtok_r(s, ",", &save); t && io_nsched < 4096; t = strtok_r(NULL, ",", &save)) io_sched[io_nsched++] = t;
}
static int memfd_with(const unsigned char *b, size_t n) {
    int fd = memfd_create("zio", 0);
    if(n && __real_write(fd, b, n) != (ssize_t)n) return -1;
    __real_lseek(fd, 0, SEEK_SET);
    return fd;
}
static void put_fd(FILE *out, int fd) {
    off_t n = __real_lseek(fd, 0, SEEK_END);
    unsigned char *b = malloc(n + 1);
    __real_lseek(fd, 0, SEEK_SET);
    ssize_t r = n ? __real_read(fd, b, n) : 0;
    put_bytes(out, b, r > 0 ? r : 0);
    free(b);
}

/* IOSEQ read_data <schedule> <filehex> <pos> <len>     -> OK ret=<n> bytes=<..> err=<error_state>
 * IOSEQ write_data <schedule> <filehex> <pos> <datahex> -> OK ret=<0|1> file=<..> err=<..>
 * IOSEQ chunks_from_temp <schedule> <temphex> <outhex>  -> OK ret=<0|1> out=<..> err=<..>      (out fd positioned at its end) */
static void op_ioseq(FILE *out, const char *id, char **a, int n) {
    zckCtx *zck = zck_create();
    size_t fl; unsigned char *fb = get_hex(a[2], &fl);
    io_set_sched(a[1]);
    if(strcmp(a[0], "read_data") == 0) {
        int fd = memfd_with(fb, fl);
        size_t pos = strtoull(a[3], NULL, 10), len = strtoull(a[4], NULL, 10);
        __real_lseek(fd, pos, SEEK_SET);
        zck->fd = fd; zck->mode = ZCK_MODE_READ;
        char *buf = calloc(1, len + 1);
        io_armed = 1; ssize_t r = read_data(zck, buf, len); io_armed = 0;
        fprintf(out, "%s OK ret=%zd bytes=", id, r);
        put_bytes(out, (unsigned char *)buf, r > 0 ? r : 0);
        fprintf(out, " err=%d fired=%d\n", zck->error_state, io_fired);
    } else if(strcmp(a[0], "write_data") == 0) {
        int fd = memfd_with(fb, fl);
        size_t pos = strtoull(a[3], NULL, 10);
        size_t dl; unsigned char *d = get_hex(a[4], &dl);
        __real_lseek(fd, pos, SEEK_SET);
        io_armed = 1; int r = write_data(zck, fd, (char *)d, dl); io_armed = 0;
        fprintf(out, "%s OK ret=%d file=", id, r ? 1 : 0);
        put_fd(out, fd);
        fprintf(out, " err=%d fired=%d\n", zck->error_state, io_fired);
    } else if(strcmp(a[0], "chunks_from_temp") == 0) {
        size_t ol; unsigned char *ob = get_hex(a[3], &ol);
        int tfd = memfd_with(fb, fl), ofd = memfd_with(ob, ol);
        __real_lseek(ofd, 0, SEEK_END);
        __real_lseek(tfd, 0, SEEK_END);
        zck->temp_fd = tfd; zck->fd = ofd; zck->mode = ZCK_MODE_WRITE;
        io_armed = 1; int r = chunks_from_temp(zck); io_armed = 0;
        fprintf(out, "%s OK ret=%d out=", id, r ? 1 : 0);
        put_fd(out, ofd);
        fprintf(out, " err=%d fired=%d\n", zck->error_state, io_fired);
        zck->temp_fd = 0;
    } else fprintf(out, "%s BADOP\n", id);
}

/* IOFAULT <scenario> <k> <kind> <file...>: run a whole scenario with the k-th read/write/lseek call (counted over all
 * three) failing as <kind>; k = 0: no fault, report the number of calls.
 *   write <k> <kind> <outfile> <cfg> <ops>           -> OK calls=N fired=F ok=<every call and close succeeded> file=<bytes of outfile>
 *   read <k> <kind> <file> <bufsize>                  -> OK calls=N fired=F ok=<open, every read, close succeeded> out=<bytes>
 *   validate <k> <kind> <file>                        -> OK calls=N fired=F v=<zck_validate_checksums> d=<zck_validate_data_checksum>
 *   copy <k> <kind> <tgt> <src>                       -> OK calls=N fired=F flags=<..> tgt=<bytes> */
static void op_iofault(FILE *out, const char *id, char **a, int n) {
    io_nsched = 0; io_calls = 0; io_fired = 0;
    io_kth = atoi(a[1]); io_kind = a[2];
    if(io_kth == 0) { io_kth = 1 << 30; }
    if(strcmp(a[0], "read") == 0) {
        int fd = open(a[3], O_RDONLY);
        size_t bs = strtoull(a[4], NULL, 10);
        zckCtx *zck = zck_create();
        size_t cap = 1 << 20, len = 0; unsigned char *all = malloc(cap), *buf = malloc(bs);
        io_armed = 1;
        int ok = zck_init_read(zck, fd);
        ssize_t r = 0;
        if(ok) { while((r = zck_read(zck, (char *)buf, bs)) > 0) { if(len + r > cap) { cap *= 2; all = realloc(all, cap); } memcpy(all + len, buf, r); len += r; } }
        ok = ok && r == 0 && zck_close(zck);
        io_armed = 0;
        fprintf(out, "%s OK calls=%d fired=%d ok=%d out=", id, io_calls, io_fired, ok);
        put_bytes(out, all, len); fputc('\n', out);
    } else if(strcmp(a[0], "validate") == 0) {
        int fd = open(a[3], O_RDONLY);
        zckCtx *zck = zck_create();
        io_armed = 1;
        int ok = zck_init_read(zck, fd);
        int v = ok ? zck_validate_checksums(zck) : -9, d = ok ? zck_validate_data_checksum(zck) : -9;
        io_armed = 0;
        fprintf(out, "%s OK calls=%d fired=%d open=%d v=%d d=%d flags=", id, io_calls, io_fired, ok, v, d);
        if(ok) put_flags(out, zck);
        fputc('\n', out);
    } else if(strcmp(a[0], "copy") == 0) {
        int tfd = open(a[3], O_RDWR), sfd = open(a[4], O_RDONLY);
        zckCtx *tgt = zck_create(), *src = zck_create();
        int ok = zck_init_read(tgt, tfd) && zck_init_read(src, sfd);
        if(ok) zck_find_valid_chunks(tgt);
        io_armed = 1;
        if(ok) zck_copy_chunks(src, tgt);
        io_armed = 0;
        fprintf(out, "%s OK calls=%d fired=%d flags=", id, io_calls, io_fired);
        if(ok) put_flags(out, tgt);
        zck_free(&tgt); close(tfd);
        size_t tl; unsigned char *tb = slurp(a[3], &tl);
        fprintf(out, " tgt="); put_bytes(out, tb, tl); fputc('\n', out);
    } else if(strcmp(a[0], "write") == 0) {
        char *kv[32]; int nkv = 0; char *save = NULL;
        for(char *t = strtok_r(a[4], ",", &save); t && nkv < 32; t = strtok_r(NULL, ",", &save)) kv[nkv++] = t;
        int fd = open(a[3], O_TRUNC | O_RDWR | O_CREAT, 0666);
        zckCtx *zck = zck_create();
        io_armed = 1;
        int ok = zck_init_write(zck, fd);
        const char *v;
        if(ok && (v = cfg_get(kv, nkv, "comp"))) ok &= zck_set_ioption(zck, ZCK_COMP_TYPE, strcmp(v, "none") == 0 ? ZCK_COMP_NONE : ZCK_COMP_ZSTD);
        if(ok && (v = cfg_get(kv, nkv, "manual")) && atoi(v)) ok &= zck_set_ioption(zck, ZCK_MANUAL_CHUNK, 1);
        if(ok && (v = cfg_get(kv, nkv, "dict")) && strcmp(v, "-") != 0) { size_t dl; unsigned char *d = get_hex(v, &dl); ok &= zck_set_soption(zck, ZCK_COMP_DICT, (char *)d, dl); }
        save = NULL;
        for(char *t = strtok_r(a[5], "|", &save); t && ok; t = strtok_r(NULL, "|", &save)) {
            if(t[0] == 'w') { size_t l; unsigned char *b = get_hex(t[1] ? t + 1 : "-", &l); ok &= zck_write(zck, (char *)b, l) == (ssize_t)l; free(b); }
            else ok &= zck_end_chunk(zck) >= 0;
        }
        ok = ok && zck_close(zck);
        io_armed = 0;
        close(fd);
        size_t fl; unsigned char *fb = slurp(a[3], &fl);
        fprintf(out, "%s OK calls=%d fired=%d ok=%d file=", id, io_calls, io_fired, ok);
        put_bytes(out, fb, fl); fputc('\n', out);
    } else fprintf(out, "%s BADOP\n", id);
}
