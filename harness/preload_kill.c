/* LD_PRELOAD shim for the real zckdl (C11): the KILL_K-th write(2) on the file KILL_PATH stores only part of its bytes
 * (KILL_PART = 0 | h | a: none / half / all) and the process dies at once (_exit(137)); KILL_COUNT=<file> records the
 * number of writes made to that file when the process ends normally. */
#define _GNU_SOURCE
#include <dlfcn.h>
#include <stdio.h>
#include <stdlib.h>
#include <string.h>
#include <unistd.h>
#include <limits.h>
#include <sys/types.h>
static long calls = 0, kth = -1; static char part = '0'; static const char *path = NULL;
static ssize_t (*real_write)(int, const void *, size_t);
static void init(void) {
    if(kth >= 0) return;
    real_write = dlsym(RTLD_NEXT, "write");
    const char *k = getenv("KILL_K"); kth = k ? atol(k) : 0;
    if(getenv("KILL_PART")) part = getenv("KILL_PART")[0];
    path = getenv("KILL_PATH");
}
static void fini(void) __attribute__((destructor));
static void fini(void) {
    const char *f = getenv("KILL_COUNT");
    if(f) { FILE *o = fopen(f, "w"); if(o) { fprintf(o, "%ld\n", calls); fclose(o); } }
}
ssize_t write(int fd, const void *buf, size_t n) {
    init();
    if(path) {
        char link[64], tgt[PATH_MAX]; snprintf(link, sizeof link, "/proc/self/fd/%d", fd);
        ssize_t l = readlink(link, tgt, sizeof tgt - 1);
        if(l > 0) { tgt[l] = 0; if(strcmp(tgt, path) == 0) {
            calls++;
            if(kth > 0 && calls == kth) {
                size_t k = part == '0' ? 0 : part == 'h' ? n / 2 : n;
                if(k) real_write(fd, buf, k);
                _exit(137);
            }
        } }
    }
    return real_write(fd, buf, n);
}
