/* File-based ops (each runs in a forked child: a crash, sanitizer abort or hang is a result line).
 * All calls go through the library's public API on the real sources. */
#include <openssl/sha.h>

/* bytes are printed in hex when short, otherwise as h:<sha256> (computed with OpenSSL directly,
 * not through zchunk's hash code) */
static void put_bytes(FILE *out, const unsigned char *b, size_t n) {
    if(n <= 64) { put_hex(out, b, n); return; }
    unsigned char d[32];
    SHA256(b, n, d);
    fputs("h:", out);
    put_hex(out, d, 32);
}

static zckCtx *open_file(const char *path, int *fd_out) {
    int fd = open(path, O_RDONLY);
    if(fd < 0) return NULL;
    zckCtx *zck = zck_create();
    if(!zck_init_read(zck, fd)) { zck_free(&zck); close(fd); return NULL; }
    *fd_out = fd;
    return zck;
}

/* OPEN <file> <ht|-> <digest string as hex of its bytes|-> <len|-> <td|dt> <vlead 0|1>
 * option setters in the given order (t = hash type, d = digest; length last), optional
 * zck_validate_lead, then zck_read_lead and zck_read_header.  -> OK | ERR <stage> */
static void op_open(FILE *out, const char *id, char **a, int n) {
    int fd = open(a[0], O_RDONLY);
    if(fd < 0) { fprintf(out, "%s HARNESS-ERR nofile\n", id); return; }
    zckCtx *zck = zck_create();
    zck_init_adv_read(zck, fd);
    const char *order = n > 4 ? a[4] : "td";
    for(int k = 0; k < 2; k++) {
        if(order[k] == 't' && strcmp(a[1], "-") != 0) {
            if(!zck_set_ioption(zck, ZCK_VAL_HEADER_HASH_TYPE, atoll(a[1]))) { fprintf(out, "%s ERR opt_type\n", id); return; }
        }
        if(order[k] == 'd' && strcmp(a[2], "-") != 0) {
            size_t dl; unsigned char *d = get_hex(strcmp(a[2], "e") == 0 ? "-" : a[2], &dl);
            if(!zck_set_soption(zck, ZCK_VAL_HEADER_DIGEST, (char *)d, dl)) { fprintf(out, "%s ERR opt_digest\n", id); return; }
            free(d);
        }
    }
    if(strcmp(a[3], "-") != 0) {
        if(!zck_set_ioption(zck, ZCK_VAL_HEADER_LENGTH, atoll(a[3]))) { fprintf(out, "%s ERR opt_len\n", id); return; }
    }
    if(n > 5 && atoi(a[5]) == 1) {
        if(!zck_validate_lead(zck)) { fprintf(out, "%s ERR vlead\n", id); return; }
    }
    if(!zck_read_lead(zck)) { fprintf(out, "%s ERR lead\n", id); return; }
    if(!zck_read_header(zck)) { fprintf(out, "%s ERR header\n", id); return; }
    fprintf(out, "%s OK\n", id);
    zck_free(&zck);
    close(fd);
}

/* OPENRESET <file> <type> <digest1 hex> <digest2 hex|e>: the expected header checksum is set, then set AGAIN (the second value may be
 * malformed and refused), the error - if any - is cleared, and the file is opened.  A pin the setter accepted stays in force until it
 * is replaced by another accepted one.  -> OK r2=<0|1> | ERR <stage> r2=<0|1> */
static void op_openreset(FILE *out, const char *id, char **a, int n) {
    int fd = open(a[0], O_RDONLY);
    if(fd < 0) { fprintf(out, "%s HARNESS-ERR nofile\n", id); return; }
    zckCtx *zck = zck_create();
    zck_init_adv_read(zck, fd);
    if(!zck_set_ioption(zck, ZCK_VAL_HEADER_HASH_TYPE, atoll(a[1]))) { fprintf(out, "%s ERR opt_type r2=0\n", id); return; }
    size_t dl; unsigned char *d = get_hex(a[2], &dl);
    if(!zck_set_soption(zck, ZCK_VAL_HEADER_DIGEST, (char *)d, dl)) { fprintf(out, "%s ERR opt_digest r2=0\n", id); return; }
    free(d);
    d = get_hex(strcmp(a[3], "e") == 0 ? "-" : a[3], &dl);
    int r2 = zck_set_soption(zck, ZCK_VAL_HEADER_DIGEST, (char *)d, dl) ? 1 : 0;
    free(d);
    zck_clear_error(zck);
    if(!zck_read_lead(zck)) { fprintf(out, "%s ERR lead r2=%d\n", id, r2); return; }
    if(!zck_read_header(zck)) { fprintf(out, "%s ERR header r2=%d\n", id, r2); return; }
    fprintf(out, "%s OK r2=%d\n", id, r2);
    zck_free(&zck); close(fd);
}

/* OPENLATE <file> <len|hl|-> [<type|-> <digest string as hex|-> <a|b>]: expected values announced AFTER zck_read_lead and before
 * zck_read_header (a caller that learns them late): the checksum type before (b) or after (a) the lead, then the digest, then the
 * length.  The lead has been checked already, so the late values change nothing: the stored checksum is still what the header is
 * compared with.  -> OK | ERR <stage> */
static void op_openlate(FILE *out, const char *id, char **a, int n) {
    int fd = open(a[0], O_RDONLY);
    if(fd < 0) { fprintf(out, "%s HARNESS-ERR nofile\n", id); return; }
    zckCtx *zck = zck_create();
    zck_init_adv_read(zck, fd);
    const char *t = n > 2 ? a[2] : "-", *d = n > 3 ? a[3] : "-", *when = n > 4 ? a[4] : "a";
    if(strcmp(t, "-") != 0 && when[0] == 'b') {
        if(!zck_set_ioption(zck, ZCK_VAL_HEADER_HASH_TYPE, atoll(t))) { fprintf(out, "%s ERR opt_type\n", id); return; }
    }
    if(!zck_read_lead(zck)) { fprintf(out, "%s ERR lead\n", id); return; }
    if(strcmp(t, "-") != 0 && when[0] != 'b') {
        if(!zck_set_ioption(zck, ZCK_VAL_HEADER_HASH_TYPE, atoll(t))) { fprintf(out, "%s ERR opt_type\n", id); return; }
    }
    if(strcmp(d, "-") != 0) {
        size_t dl; unsigned char *db = get_hex(d, &dl);
        if(!zck_set_soption(zck, ZCK_VAL_HEADER_DIGEST, (char *)db, dl)) { fprintf(out, "%s ERR opt_digest\n", id); return; }
        free(db);
    }
    if(strcmp(a[1], "-") != 0) {
        long long v = strcmp(a[1], "hl") == 0 ? (long long)zck_get_header_length(zck) : atoll(a[1]);
        if(!zck_set_ioption(zck, ZCK_VAL_HEADER_LENGTH, v)) { fprintf(out, "%s ERR opt_len\n", id); return; }
    }
    if(!zck_read_header(zck)) { fprintf(out, "%s ERR header\n", id); return; }
    fprintf(out, "%s OK\n", id);
    zck_free(&zck);
    close(fd);
}

/* OPENM <file> <pos> <byte hex>: zck_init_read on the file with one byte substituted (the mutated
 * copy lives in a memfd).  -> OK | ERR */
static void op_openm(FILE *out, const char *id, char **a, int n) {
    size_t len; unsigned char *b = slurp(a[0], &len);
    size_t pos = strtoull(a[1], NULL, 10);
    if(!b || pos >= len) { fprintf(out, "%s HARNESS-ERR\n", id); return; }
    b[pos] = (unsigned char)strtoul(a[2], NULL, 16);
    int fd = memfd_create("zdrv", 0);
    if(fd < 0 || write(fd, b, len) != (ssize_t)len) { fprintf(out, "%s HARNESS-ERR memfd\n", id); return; }
    lseek(fd, 0, SEEK_SET);
    zckCtx *zck = zck_create();
    int ok = zck_init_read(zck, fd);
    fprintf(out, "%s %s\n", id, ok ? "OK" : "ERR");
    zck_free(&zck); close(fd); free(b);
}

/* OPENRETRY <file> <pos> <byte hex>: the advanced API on the file with one byte substituted, every failing step retried once on
 * the SAME context after zck_clear_error (a consumer that clears a non-fatal error and goes on must not get past the checksum).
 *  -> OK | ERR */
static void op_openretry(FILE *out, const char *id, char **a, int n) {
    size_t len; unsigned char *b = slurp(a[0], &len);
    size_t pos = strtoull(a[1], NULL, 10);
    if(!b || pos >= len) { fprintf(out, "%s HARNESS-ERR\n", id); return; }
    b[pos] = (unsigned char)strtoul(a[2], NULL, 16);
    int fd = memfd_create("zdrv", 0);
    if(fd < 0 || write(fd, b, len) != (ssize_t)len) { fprintf(out, "%s HARNESS-ERR memfd\n", id); return; }
    lseek(fd, 0, SEEK_SET);
    zckCtx *zck = zck_create();
    int ok = zck_init_adv_read(zck, fd);
    if(ok) {
        ok = zck_read_lead(zck);
        if(!ok) { zck_clear_error(zck); ok = zck_read_lead(zck); }
    }
    if(ok) {
        ok = zck_read_header(zck);
        if(!ok) { zck_clear_error(zck); ok = zck_read_header(zck); }
        if(!ok) { zck_clear_error(zck); ok = zck_read_header(zck); }
    }
    fprintf(out, "%s %s\n", id, ok ? "OK" : "ERR");
    zck_free(&zck); close(fd); free(b);
}

/* PINSWAP <fileA> <fileB> <ht|-> <digest string as hex|-> <len|-> <v|l>: pins set (type, digest, length) on a context whose
 * descriptor holds A; mode v: zck_validate_lead, mode l: zck_read_lead (zck_clear_error after a failure); then the bytes behind the
 * descriptor are replaced by B and zck_read_lead + zck_read_header run on the same context.
 *  -> OK first=<0|1> final=<OK|ERR>  |  ERR opt_* */
static void op_pinswap(FILE *out, const char *id, char **a, int n) {
    size_t la, lb; unsigned char *A = slurp(a[0], &la), *Bf = slurp(a[1], &lb);
    if(!A || !Bf) { fprintf(out, "%s HARNESS-ERR nofile\n", id); return; }
    int fd = memfd_create("zdrv", 0);
    if(fd < 0 || write(fd, A, la) != (ssize_t)la) { fprintf(out, "%s HARNESS-ERR memfd\n", id); return; }
    lseek(fd, 0, SEEK_SET);
    zckCtx *zck = zck_create();
    zck_init_adv_read(zck, fd);
    if(strcmp(a[2], "-") != 0 && !zck_set_ioption(zck, ZCK_VAL_HEADER_HASH_TYPE, atoll(a[2]))) { fprintf(out, "%s ERR opt_type\n", id); return; }
    if(strcmp(a[3], "-") != 0) {
        size_t dl; unsigned char *d = get_hex(strcmp(a[3], "e") == 0 ? "-" : a[3], &dl);
        if(!zck_set_soption(zck, ZCK_VAL_HEADER_DIGEST, (char *)d, dl)) { fprintf(out, "%s ERR opt_digest\n", id); return; }
        free(d);
    }
    if(strcmp(a[4], "-") != 0 && !zck_set_ioption(zck, ZCK_VAL_HEADER_LENGTH, atoll(a[4]))) { fprintf(out, "%s ERR opt_len\n", id); return; }
    int first = a[5][0] == 'v' ? zck_validate_lead(zck) : zck_read_lead(zck);
    if(!first) zck_clear_error(zck);
    if(ftruncate(fd, 0) != 0 || pwrite(fd, Bf, lb, 0) != (ssize_t)lb) { fprintf(out, "%s HARNESS-ERR swap\n", id); return; }
    lseek(fd, 0, SEEK_SET);
    int fin = zck_read_lead(zck) && zck_read_header(zck);
    fprintf(out, "%s OK first=%d final=%s\n", id, first ? 1 : 0, fin ? "OK" : "ERR");
    zck_free(&zck); close(fd); free(A); free(Bf);
}

/* META <file> -> everything the API reports */
static void op_meta(FILE *out, const char *id, char **a, int n) {
    int fd;
    zckCtx *zck = open_file(a[0], &fd);
    if(!zck) { fprintf(out, "%s ERR\n", id); return; }
    char *hd = zck_get_header_digest(zck), *dd = zck_get_data_digest(zck);
    fprintf(out, "%s OK det=%d ft=%d ct=%d flags=%zd comp=%d lead=%zd hdr=%zd data=%zd total=%zd hd=%s dd=%s cnt=%zd chunks=",
            id, (int)zck_is_detached_header(zck), zck_get_full_hash_type(zck), zck_get_chunk_hash_type(zck),
            zck_get_flags(zck), (int)zck->comp.type, zck_get_lead_length(zck), zck_get_header_length(zck),
            zck_get_data_length(zck), zck_get_length(zck), hd, dd, zck_get_chunk_count(zck));
    int first = 1;
    for(zckChunk *c = zck_get_first_chunk(zck); c; c = zck_get_next_chunk(c)) {
        char *d = zck_get_chunk_digest(c), *u = zck_get_chunk_digest_uncompressed(c);
        fprintf(out, "%s%zd:%s:%s:%zd:%zd:%zd", first ? "" : ";", zck_get_chunk_number(c), d, u ? u : "-",
                zck_get_chunk_comp_size(c), zck_get_chunk_size(c), zck_get_chunk_start(c));
        free(d); free(u); first = 0;
    }
    if(first) fputc('-', out);
    fputc('\n', out);
    free(hd); free(dd);
    zck_free(&zck); close(fd);
}

static int parse_sizes(char *s, size_t *v, int max) {
    int n = 0; char *save = NULL;
    for(char *t = strtok_r(s, ",", &save); t && n < max; t = strtok_r(NULL, ",", &save)) v[n++] = strtoull(t, NULL, 10);
    return n;
}

/* READSEQ <file> <n1,n2,...>: zck_read with these buffer sizes (the last one repeats) until a
 * call returns <= 0; after an error two more calls are made (their results are reported too).
 * After the first error zck_clear_error() is called once (ce = its result, -1 if there was no error).
 *  -> OK rets=<r1,r2,...> ce=<-1|0|1> n=<bytes returned by successful calls> out=<bytes> close=<0|1>  |  ERR open */
static void op_readseq(FILE *out, const char *id, char **a, int n) {
    int fd;
    zckCtx *zck = open_file(a[0], &fd);
    if(!zck) { fprintf(out, "%s ERR open\n", id); return; }
    size_t sizes[64]; int ns = parse_sizes(a[1], sizes, 64);
    size_t cap = 1 << 20, len = 0; unsigned char *all = malloc(cap);
    /* optional 4th argument match=<file>: zck_find_matching_chunks(<file>, this context) first - it marks chunks valid by
     * comparing index checksums only; reading must verify the bytes all the same */
    if(n >= 4 && strncmp(a[3], "match=", 6) == 0) {
        int sfd; zckCtx *src = open_file(a[3] + 6, &sfd);
        if(src) zck_find_matching_chunks(src, zck);
    }
    fprintf(out, "%s OK rets=", id);
    int calls = 0, after_err = 0, maxcalls = 100000, ce = -1;
    for(;;) {
        size_t bs = sizes[calls < ns ? calls : ns - 1];
        unsigned char *buf = malloc(bs ? bs : 1);
        ssize_t r = zck_read(zck, (char *)buf, bs);
        fprintf(out, "%s%zd", calls ? "," : "", r);
        calls++;
        if(r > 0) {
            if(len + r > cap) { while(len + r > cap) cap *= 2; all = realloc(all, cap); }
            memcpy(all + len, buf, r); len += r;
        }
        free(buf);
        /* a consumer may clear the error and go on reading the same context */
        if(r < 0 && ce < 0) ce = zck_clear_error(zck);
        if(r < 0) { if(++after_err > 2) break; continue; }
        if(after_err) { if(++after_err > 2) break; continue; }
        if(r == 0 && bs > 0) break;
        if(calls >= maxcalls) break;
    }
    fprintf(out, " ce=%d n=%zu out=", ce, len);
    put_bytes(out, all, len);
    fprintf(out, " close=%d\n", (int)zck_close(zck));
    free(all);
    zck_free(&zck); close(fd);
}

static void put_flags(FILE *out, zckCtx *zck) {
    for(zckChunk *c = zck->index.first; c; c = c->next)
        fputc(c->valid == 1 ? '1' : c->valid == 0 ? '0' : c->valid == -1 ? 'x' : '?', out);
}

/* SCAN <file> <ops>: ops is a string over v (zck_validate_checksums), d (zck_validate_data_checksum),
 * f (zck_find_valid_chunks), r (read to end of stream with 4096-byte buffers), c (zck_close).
 *  -> OK <op>=<ret>:<flags> ... r=<n>:<bytes> ... same=<file unchanged 0|1> */
static void op_scan(FILE *out, const char *id, char **a, int n) {
    size_t before_len; unsigned char *before = slurp(a[0], &before_len);
    int fd = open(a[0], O_RDWR);
    if(fd < 0) { fprintf(out, "%s HARNESS-ERR nofile\n", id); return; }
    zckCtx *zck = zck_create();
    if(!zck_init_read(zck, fd)) { fprintf(out, "%s ERR open\n", id); return; }
    fprintf(out, "%s OK", id);
    for(const char *p = a[1]; *p; p++) {
        if(*p == 'v' || *p == 'd' || *p == 'f') {
            int r = *p == 'v' ? zck_validate_checksums(zck) : *p == 'd' ? zck_validate_data_checksum(zck) : zck_find_valid_chunks(zck);
            fprintf(out, " %c=%d:", *p, r);
            put_flags(out, zck);
        } else if(*p == 'r') {
            size_t cap = 1 << 20, len = 0; unsigned char *all = malloc(cap); ssize_t r;
            unsigned char buf[4096];
            while((r = zck_read(zck, (char *)buf, sizeof buf)) > 0) {
                if(len + r > cap) { cap *= 2; all = realloc(all, cap); }
                memcpy(all + len, buf, r); len += r;
            }
            fprintf(out, " r=%zd:%zu:", r, len);
            put_bytes(out, all, len);
            free(all);
        } else if(*p == 'c') {
            fprintf(out, " c=%d", (int)zck_close(zck));
        } else if(*p == 'e') {
            fprintf(out, " e=%d", (int)zck_clear_error(zck));
        }
    }
    size_t after_len; unsigned char *after = slurp(a[0], &after_len);
    fprintf(out, " same=%d\n", before_len == after_len && memcmp(before, after, before_len) == 0);
    zck_free(&zck); close(fd);
}

/* CHUNKSEQ <file> <k1,k2c,...>: zck_get_chunk_data (plain number) / zck_get_chunk_comp_data (suffix c)
 * for chunk numbers in this order, each into a buffer of the chunk's declared size (+8); suffix h = a data request with a
 * buffer of half that size.
 *  -> OK <ret>:<bytes> ...  */
static void op_chunkseq(FILE *out, const char *id, char **a, int n) {
    int fd;
    zckCtx *zck = open_file(a[0], &fd);
    if(!zck) { fprintf(out, "%s ERR open\n", id); return; }
    fprintf(out, "%s OK", id);
    char *save = NULL;
    for(char *t = strtok_r(a[1], ",", &save); t; t = strtok_r(NULL, ",", &save)) {
        int comp = strchr(t, 'c') != NULL;
        int half = strchr(t, 'h') != NULL;       /* a data request with a buffer of half the chunk's size */
        size_t k = strtoull(t, NULL, 10);
        zckChunk *c = zck_get_chunk(zck, k);
        if(!c) { fprintf(out, " nochunk"); continue; }
        ssize_t want = comp ? zck_get_chunk_comp_size(c) : zck_get_chunk_size(c);
        if(want < 0 || want > (1 << 26)) { fprintf(out, " toobig"); continue; }
        if(half && want >= 2) want /= 2;
        unsigned char *buf = calloc(1, want + 8);
        ssize_t r = comp ? zck_get_chunk_comp_data(c, (char *)buf, want) : zck_get_chunk_data(c, (char *)buf, want);
        fprintf(out, " %zd:", r);
        if(r > 0) put_bytes(out, buf, r); else fputc('-', out);
        free(buf);
    }
    fputc('\n', out);
    zck_free(&zck); close(fd);
}

static void set_flags(zckCtx *zck, const char *fl) {
    size_t i = 0;
    for(zckChunk *c = zck->index.first; c && fl[i]; c = c->next, i++)
        c->valid = fl[i] == '1' ? 1 : fl[i] == '0' ? 0 : -1;
}

/* COPY <tgtfile> <flags|-> <src1,src2,...>: open the target (read/write), mark its chunks (1/0/x per chunk; '-' =
 * run zck_find_valid_chunks instead), then zck_copy_chunks from each source in order.
 *  -> OK r=<rets> flags=<..> tgt=<target file bytes> src=<1|0 per source: file unchanged> */
static void op_copy(FILE *out, const char *id, char **a, int n) {
    int tfd = open(a[0], O_RDWR);
    if(tfd < 0) { fprintf(out, "%s HARNESS-ERR nofile\n", id); return; }
    zckCtx *tgt = zck_create();
    if(!zck_init_read(tgt, tfd)) { fprintf(out, "%s ERR open-tgt\n", id); return; }
    if(strcmp(a[1], "-") == 0) zck_find_valid_chunks(tgt); else set_flags(tgt, a[1]);
    char rets[256] = "", same[256] = ""; int k = 0;
    char *save = NULL;
    for(char *s = strtok_r(a[2], ",", &save); s && k < 100; s = strtok_r(NULL, ",", &save), k++) {
        /* <path>[@<history>]: what happened to the SOURCE context before the copy: a 0/1 string = its chunks marked so (as
         * zck_find_matching_chunks or an earlier scan would have left them), v = zck_validate_checksums, f = zck_find_valid_chunks */
        char *hist = strchr(s, '@');
        if(hist) *hist++ = 0;
        size_t bl; unsigned char *before = slurp(s, &bl);
        int sfd = open(s, O_RDONLY);
        zckCtx *src = zck_create();
        if(sfd < 0 || !zck_init_read(src, sfd)) { rets[k] = 'e'; same[k] = '1'; zck_free(&src); if(sfd >= 0) close(sfd); free(before); continue; }
        if(hist && strcmp(hist, "v") == 0) zck_validate_checksums(src);
        else if(hist && strcmp(hist, "f") == 0) zck_find_valid_chunks(src);
        else if(hist) set_flags(src, hist);
        rets[k] = zck_copy_chunks(src, tgt) ? '1' : '0';
        zck_free(&src); close(sfd);
        size_t al; unsigned char *after = slurp(s, &al);
        same[k] = (al == bl && memcmp(before, after, bl) == 0) ? '1' : '0';
        free(before); free(after);
    }
    fprintf(out, "%s OK r=%s flags=", id, k ? rets : "-");
    put_flags(out, tgt);
    zck_free(&tgt); close(tfd);
    size_t tl; unsigned char *tb = slurp(a[0], &tl);
    fprintf(out, " tgt=");
    put_bytes(out, tb, tl);
    fprintf(out, " src=%s\n", k ? same : "-");
    free(tb);
}

/* MATCH <src> <tgt> <flags>: zck_find_matching_chunks -> OK m=<valid:srcnumber|self,...> */
static void op_match(FILE *out, const char *id, char **a, int n) {
    int sfd, tfd;
    zckCtx *src = open_file(a[0], &sfd), *tgt = open_file(a[1], &tfd);
    if(!src || !tgt) { fprintf(out, "%s ERR open\n", id); return; }
    set_flags(tgt, a[2]);
    int r = zck_find_matching_chunks(src, tgt);
    fprintf(out, "%s OK r=%d m=", id, r);
    int first = 1;
    for(zckChunk *c = tgt->index.first; c; c = c->next) {
        zckChunk *s = zck_get_src_chunk(c);
        if(s && s != c && s->zck == src) fprintf(out, "%s%d:%zu", first ? "" : ",", c->valid, s->number);
        else fprintf(out, "%s%d:self", first ? "" : ",", c->valid);
        first = 0;
    }
    if(first) fputc('-', out);
    fputc('\n', out);
    zck_free(&src); zck_free(&tgt); close(sfd); close(tfd);
}
