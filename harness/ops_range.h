/* C10: RANGE <hdrlen> <len:valid,len:valid,...|-> <limit>
 * Builds a context whose index is the given chunk table (through the library's own
 * index_new_chunk, so starts are the library's running sums), marks the chunks, and reports
 * what zck_get_missing_range / zck_get_range_char / zck_get_range_count / the range index say:
 *   OK <range string|-> <count> <srcnumber:len,...|-> */
static void op_range(FILE *out, const char *id, char **a, int n) {
    size_t hdrlen = strtoull(a[0], NULL, 10);
    int limit = atoi(a[2]);
    zckCtx *zck = zck_create();
    zck->lead_size = hdrlen;
    zck->header_length = 0;
    char digest[4] = {1, 2, 3, 4};
    if(strcmp(a[1], "-") != 0) {
        char *save = NULL;
        char *copy = strdup(a[1]);
        for(char *t = strtok_r(copy, ",", &save); t; t = strtok_r(NULL, ",", &save)) {
            char *colon = strchr(t, ':');
            size_t len = strtoull(t, NULL, 10);
            int valid = atoi(colon + 1);
            if(!index_new_chunk(zck, &zck->index, digest, 4, digest, len, len, NULL, true)) {
                fprintf(out, "%s HARNESS-ERR index_new_chunk\n", id);
                return;
            }
            zck->index.last->valid = valid;
        }
        free(copy);
    }
    /* optional 4th argument: the marks the chunks had at an EARLIER request on this context ("0,1,-1,..."): that request is made
     * (and dropped), failed chunks are reset as a downloader does before a retry, and the marks are set to those of the table.
     * A request is a function of the current marks only. */
    if(n > 3 && strcmp(a[3], "-") != 0) {
        char *copy = strdup(a[3]); char *save = NULL; zckChunk *c = zck->index.first;
        for(char *t = strtok_r(copy, ",", &save); t && c; t = strtok_r(NULL, ",", &save), c = c->next) c->valid = atoi(t);
        free(copy);
        zckRange *r0 = zck_get_missing_range(zck, limit);
        if(r0) zck_range_free(&r0);
        zck_reset_failed_chunks(zck);
        copy = strdup(a[1]); save = NULL; c = zck->index.first;
        for(char *t = strtok_r(copy, ",", &save); t && c; t = strtok_r(NULL, ",", &save), c = c->next) c->valid = atoi(strchr(t, ':') + 1);
        free(copy);
    }
    zckRange *r = zck_get_missing_range(zck, limit);
    if(!r) { fprintf(out, "%s ERR\n", id); zck_free(&zck); return; }
    char *txt = zck_get_range_char(zck, r);
    fprintf(out, "%s OK %s %d ", id, (txt && txt[0]) ? txt : "-", zck_get_range_count(r));
    int first = 1;
    for(zckChunk *c = r->index.first; c; c = c->next) {
        fprintf(out, "%s%zu:%zu", first ? "" : ",", c->src ? c->src->number : (size_t)-1, c->comp_length);
        first = 0;
    }
    if(first) fputc('-', out);
    fputc('\n', out);
    free(txt);
    zck_range_free(&r);
    zck_free(&zck);
}
