/* C05 / C17: the download callbacks (zck_header_cb, zck_write_chunk_cb) fed with a scripted response.
 * regcomp/regexec are interposed at link time (-Wl,--wrap): the real functions run, and every call with its
 * input string and result is logged, so that the model can be given libc's answers as an oracle (like zstd's). */
#include <regex.h>

static int rx_on = 0;
static zckDL *rx_dl = NULL;
static char *rx_log = NULL; static size_t rx_len = 0, rx_cap = 0;
static void rx_app(const char *s, size_t n) {
    if(rx_len + n + 1 > rx_cap) { rx_cap = (rx_cap + n + 1) * 2; rx_log = realloc(rx_log, rx_cap); }
    memcpy(rx_log + rx_len, s, n); rx_len += n; rx_log[rx_len] = 0;
}
static void rx_hex(const unsigned char *b, size_t n) {
    static const char *H = "0123456789abcdef";
    if(n == 0) { rx_app("-", 1); return; }
    for(size_t i = 0; i < n; i++) { char c[2] = { H[b[i] >> 4], H[b[i] & 15] }; rx_app(c, 2); }
}
int __real_regexec(const regex_t *preg, const char *s, size_t nmatch, regmatch_t pm[], int eflags);
int __real_regcomp(regex_t *preg, const char *pattern, int cflags);
void __real_regfree(regex_t *preg);
/* the patterns that are currently compiled: regexec/regfree on anything else is undefined behaviour */
/* (the registry is shared by the threads of the THREADS op: guarded by a mutex of the harness's own) */
#include <pthread.h>
static pthread_mutex_t rx_mu = PTHREAD_MUTEX_INITIALIZER;
static const regex_t *rx_live[512]; static int rx_nlive = 0; static int rx_ub = 0;
static int rx_is_live_nl(const regex_t *p) { for(int i = 0; i < rx_nlive; i++) if(rx_live[i] == p) return 1; return 0; }
static int rx_is_live(const regex_t *p) { pthread_mutex_lock(&rx_mu); int r = rx_is_live_nl(p); pthread_mutex_unlock(&rx_mu); return r; }
void __wrap_regfree(regex_t *preg) {
    pthread_mutex_lock(&rx_mu);
    if(!rx_is_live_nl(preg)) { rx_ub++; pthread_mutex_unlock(&rx_mu); return; }
    for(int i = 0; i < rx_nlive; i++) if(rx_live[i] == preg) { rx_live[i] = rx_live[--rx_nlive]; break; }
    pthread_mutex_unlock(&rx_mu);
    __real_regfree(preg);
}
int __wrap_regexec(const regex_t *preg, const char *s, size_t nmatch, regmatch_t pm[], int eflags) {
    if(!rx_is_live(preg)) { pthread_mutex_lock(&rx_mu); rx_ub++; pthread_mutex_unlock(&rx_mu); if(rx_on) rx_app(" rx=U", 5); return 1; }
    int r = __real_regexec(preg, s, nmatch, pm, eflags);
    if(rx_on && rx_dl) {
        char which = preg == rx_dl->hdr_regex ? 'h' : preg == rx_dl->dl_regex ? 'p' : preg == rx_dl->end_regex ? 'e' : 'u';
        char t[160];
        rx_app(" rx=", 4); rx_app(&which, 1); rx_app(":", 1); rx_hex((const unsigned char *)s, strlen(s));
        if(r == 0 && nmatch >= 3) snprintf(t, sizeof t, ":0:%d:%d:%d:%d", (int)pm[1].rm_so, (int)pm[1].rm_eo, (int)pm[2].rm_so, (int)pm[2].rm_eo);
        else if(r == 0 && nmatch == 2) snprintf(t, sizeof t, ":0:%d:%d:0:0", (int)pm[1].rm_so, (int)pm[1].rm_eo);
        else snprintf(t, sizeof t, ":%d:0:0:0:0", r == 0 ? 0 : 1);
        rx_app(t, strlen(t));
    }
    return r;
}
int __wrap_regcomp(regex_t *preg, const char *pattern, int cflags) {
    int r = __real_regcomp(preg, pattern, cflags);
    pthread_mutex_lock(&rx_mu);
    if(r == 0 && rx_nlive < 512 && !rx_is_live_nl(preg)) rx_live[rx_nlive++] = preg;
    pthread_mutex_unlock(&rx_mu);
    if(rx_on) { char t[32]; rx_app(" rc=", 4); rx_hex((const unsigned char *)pattern, strlen(pattern)); snprintf(t, sizeof t, ":%d", r == 0 ? 0 : 1); rx_app(t, strlen(t)); }
    return r;
}

/* DLFEED <tgtfile> <flags|-> <max_ranges> <header lines: hex,hex,...|-> <bodyfile> <cuts: n1,n2,...|-|bN> <stop|cont|clear> <expectation>
 * open the target (read/write, lead + header parsed), mark its chunks (1/0/x per chunk; '-' = zck_find_valid_chunks then
 * zck_reset_failed_chunks), request the missing ranges (at most max_ranges), feed each header line to zck_header_cb and the
 * body, cut into fragments, to zck_write_chunk_cb (each fragment in its own exact-size heap block).  stop = stop at the
 * first callback that does not accept its data (what a transport does), cont = keep feeding, clear = keep feeding and call
 * zck_clear_error after every refusal (what an application that retries does).  The expectation (wf | bad:<k> | any) is for
 * the judge only.
 *  -> OK flags0=<..> range=<str> req=<chunk numbers> hdr=<rets> body=<rets> flags=<..> err=<n> dl=<dl_chunk_data>:<write_in_chunk>:<tgt_check>
 *        mp=<state>:<length>:<buffer_len> file=<bytes> rx=.. rc=..          (the file itself is left on disk for the judge) */
/* optional 9th argument warm=<zckfile>: BEFORE anything else the process copies that file's chunks into a scratch target
 * (zck_copy_chunks on two contexts of their own, discarded afterwards), as a downloader that first re-uses a local file does.
 * Nothing of it may show in what follows: the library keeps no state outside its contexts. */
static void dl_warm(const char *path) {
    size_t bl; unsigned char *b = slurp(path, &bl);
    if(!b) return;
    int sfd = open(path, O_RDONLY);
    zckCtx *src = zck_create();
    if(sfd >= 0 && zck_init_read(src, sfd)) {
        int tfd = memfd_create("warm", 0);
        ssize_t hl = zck_get_header_length(src);
        if(tfd >= 0 && hl > 0 && (size_t)hl <= bl && write(tfd, b, hl) == hl && ftruncate(tfd, bl) == 0) {
            lseek(tfd, 0, SEEK_SET);
            zckCtx *t2 = zck_create();
            if(zck_init_read(t2, tfd)) { zck_find_valid_chunks(t2); zck_reset_failed_chunks(t2); zck_copy_chunks(src, t2); }
            zck_free(&t2);
        }
        if(tfd >= 0) close(tfd);
    }
    zck_free(&src); if(sfd >= 0) close(sfd); free(b);
}
static void op_dlfeed(FILE *out, const char *id, char **a, int n) {
    if(n > 8 && strncmp(a[8], "warm=", 5) == 0) dl_warm(a[8] + 5);
    int fd = open(a[0], O_RDWR);
    if(fd < 0) { fprintf(out, "%s HARNESS-ERR nofile\n", id); return; }
    zckCtx *zck = zck_create();
    if(!zck_init_adv_read(zck, fd) || !zck_read_lead(zck) || !zck_read_header(zck)) { fprintf(out, "%s ERR open\n", id); return; }
    if(strcmp(a[1], "-") == 0) { zck_find_valid_chunks(zck); zck_reset_failed_chunks(zck); } else set_flags(zck, a[1]);
    zckDL *dl = zck_dl_init(zck);
    zckRange *range = zck_get_missing_range(zck, atoi(a[2]));
    if(!dl || !range || !zck_dl_set_range(dl, range)) { fprintf(out, "%s ERR range\n", id); return; }
    char *rs = zck_get_range_char(zck, range);
    fprintf(out, "%s OK flags0=", id); put_flags(out, zck);
    fprintf(out, " range=%s req=", rs && *rs ? rs : "-");
    int first = 1;
    for(zckChunk *c = range->index.first; c; c = c->next) { fprintf(out, "%s%zu", first ? "" : ",", (size_t)c->src->number); first = 0; }
    if(first) fputc('-', out);
    rx_on = 1; rx_dl = dl;
    int stop = strcmp(a[6], "stop") == 0, clear = strcmp(a[6], "clear") == 0, failed = 0;
    fprintf(out, " hdr=");
    if(strcmp(a[3], "-") == 0) fputc('-', out);
    else {
        char *save = NULL; first = 1;
        for(char *t = strtok_r(a[3], ",", &save); t; t = strtok_r(NULL, ",", &save)) {
            size_t hl; unsigned char *hb = get_hex(strcmp(t, "e") == 0 ? "-" : t, &hl);
            unsigned char *blk = malloc(hl ? hl : 1); memcpy(blk, hb, hl);
            size_t r = zck_header_cb((char *)blk, 1, hl, dl);
            fprintf(out, "%s%zu", first ? "" : ",", r); first = 0;
            free(blk); free(hb);
        }
    }
    size_t bl; unsigned char *body = slurp(a[4], &bl);
    fprintf(out, " body=");
    size_t pos = 0; first = 1;
    size_t every = a[5][0] == 'b' ? strtoull(a[5] + 1, NULL, 10) : 0;
    char *save = NULL; char *ct = (every || strcmp(a[5], "-") == 0) ? NULL : strtok_r(a[5], ",", &save);
    while(body && (pos < bl || first) && !(stop && failed)) {
        size_t len = bl - pos;
        if(every) { if(len > every) len = every; }
        else if(ct) { size_t c = strtoull(ct, NULL, 10); if(c < len) len = c; ct = strtok_r(NULL, ",", &save); }
        unsigned char *blk = malloc(len ? len : 1); memcpy(blk, body + pos, len);
        size_t r = zck_write_chunk_cb(blk, 1, len, dl);
        fprintf(out, "%s%zu", first ? "" : ",", r); first = 0;
        if(r != len) { failed = 1; if(clear) zck_clear_error(zck); }
        free(blk);
        pos += len;
        if(len == 0 && pos >= bl) break;
    }
    if(first) fputc('-', out);
    rx_on = 0;
    fprintf(out, " flags="); put_flags(out, zck);
    fprintf(out, " err=%d dl=%zu:%zu:", zck_is_error(zck), dl->dl_chunk_data, dl->write_in_chunk);
    if(dl->tgt_check) fprintf(out, "%zu", (size_t)dl->tgt_check->number); else fputc('-', out);
    fprintf(out, " mp=%d:%zu:%zu", dl->mp ? dl->mp->state : -1, dl->mp ? dl->mp->length : 0, dl->mp ? dl->mp->buffer_len : 0);
    free(rs);
    zck_dl_free(&dl);
    fprintf(out, " ub=%d", rx_ub); zck_range_free(&range); zck_free(&zck); close(fd);
    size_t tl; unsigned char *tb = slurp(a[0], &tl);
    fprintf(out, " file="); put_bytes(out, tb, tl);
    if(rx_log) fputs(rx_log, out);
    fputc('\n', out);
    free(tb); free(body);
}
