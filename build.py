#!/usr/bin/env python3
"""Builds of the implementation, always from /repo's CURRENT working tree.

build_lib(repo, variant) compiles every library source of the working tree into
/verif/.cache/<variant>-<content hash>/libzckv.a (static, hooks guard defined) and
returns that directory.  The content hash covers src/, include/ and the harness
sources, so an edited tree is always rebuilt and an unchanged one is reused.
"""
import os, sys, subprocess, hashlib, glob, shutil, re, time
from concurrent.futures import ThreadPoolExecutor

VERIF = os.path.dirname(os.path.abspath(__file__))
REPO = os.environ.get('VERIF_REPO', '/repo')
CACHE = os.path.join(VERIF, '.cache')
CC = 'gcc'
GUARD = 'ZCHUNK_ZCHUNK_VERIF'
DEFS = ['-D_FILE_OFFSET_BITS=64', '-std=gnu11', '-DZCHUNK_ZSTD', '-D' + GUARD, '-w']
LIBS = ['-lzstd', '-lssl', '-lcrypto', '-lm']

VARIANTS = {
    # name: (cflags, use_openssl)
    'plain':   (['-O1', '-g'], True),
    'asan':    (['-O1', '-g', '-fsanitize=address,undefined', '-fno-sanitize-recover=undefined',
                 '-fno-omit-frame-pointer'], True),
    'bundled': (['-O1', '-g'], False),
    'tsan':    (['-O1', '-g', '-fsanitize=thread'], True),
}

class BuildFailed(Exception):
    pass

def run(cmd, **kw):
    r = subprocess.run(cmd, capture_output=True, text=True, **kw)
    if r.returncode != 0:
        sys.stderr.write("BUILD FAILED: %s\n%s\n%s\n" % (' '.join(cmd), r.stdout[-4000:], r.stderr[-4000:]))
        # an Exception, not an exit: check.py turns it into a reported violation (the harness no longer builds against this tree,
        # so the correspondence cannot be carried out)
        raise BuildFailed('build failed: %s: %s' % (os.path.basename(cmd[0]), (r.stderr.strip().splitlines() or ['?'])[-1][:300]))
    return r

def lib_sources(repo, openssl=True):
    base = os.path.join(repo, 'src', 'lib')
    srcs = []
    for root, dirs, files in os.walk(base):
        rel = os.path.relpath(root, base)
        if rel.startswith('win32'):
            continue
        if openssl and rel.startswith(os.path.join('hash', 'bundled')):
            continue
        if not openssl and rel.startswith(os.path.join('hash', 'openssl')):
            continue
        for f in sorted(files):
            if f.endswith('.c'):
                srcs.append(os.path.join(root, f))
    return sorted(srcs)

def tree_hash(repo, extra=()):
    h = hashlib.sha256()
    paths = []
    for sub in ('src', 'include'):
        for root, dirs, files in os.walk(os.path.join(repo, sub)):
            for f in files:
                if f.endswith(('.c', '.h', '.in')):
                    paths.append(os.path.join(root, f))
    for p in sorted(paths) + list(extra):
        h.update(p.encode()); h.update(open(p, 'rb').read())
    return h.hexdigest()[:16]

def inc_flags(repo, bdir):
    return ['-I' + os.path.join(bdir, 'include'), '-I' + os.path.join(repo, 'src', 'lib'),
            '-I' + os.path.join(repo, 'src')]

def _gc(keep_prefix, keep):
    if not os.path.isdir(CACHE):
        return
    for d in os.listdir(CACHE):
        if d.startswith(keep_prefix + '-') and d != keep:
            shutil.rmtree(os.path.join(CACHE, d), ignore_errors=True)

def build_lib(repo=REPO, variant='plain'):
    cflags, openssl = VARIANTS[variant]
    th = tree_hash(repo)
    name = '%s-%s' % (variant, th)
    bdir = os.path.join(CACHE, name)
    lib = os.path.join(bdir, 'libzckv.a')
    if os.path.exists(lib) and os.path.exists(os.path.join(bdir, '.done')):
        return bdir
    shutil.rmtree(bdir, ignore_errors=True)
    os.makedirs(os.path.join(bdir, 'include'))
    os.makedirs(os.path.join(bdir, 'obj'))
    # zck.h from zck.h.in (meson's configure_file only substitutes the version)
    mb = open(os.path.join(repo, 'meson.build')).read()
    m = re.search(r"version\s*:\s*'([^']+)'", mb)
    ver = m.group(1) if m else '0'
    h = open(os.path.join(repo, 'include', 'zck.h.in')).read().replace('@version@', ver)
    open(os.path.join(bdir, 'include', 'zck.h'), 'w').write(h)
    defs = DEFS + (['-DZCHUNK_OPENSSL'] if openssl else [])
    srcs = lib_sources(repo, openssl)
    objs = []
    def comp(src):
        o = os.path.join(bdir, 'obj', hashlib.md5(src.encode()).hexdigest()[:8] + '_' + os.path.basename(src)[:-2] + '.o')
        run([CC, '-c', src, '-o', o] + cflags + defs + inc_flags(repo, bdir))
        return o
    with ThreadPoolExecutor(16) as ex:
        objs = list(ex.map(comp, srcs))
    run(['ar', 'rcs', lib] + objs)
    open(os.path.join(bdir, '.done'), 'w').write(time.ctime())
    _gc(variant, name)
    return bdir

def build_exe(src, out_name, repo=REPO, variant='plain', extra_flags=(), extra_srcs=(), wrap=True):
    """Compile a harness program against the library build of `variant`."""
    cflags, openssl = VARIANTS[variant]
    bdir = build_lib(repo, variant)
    srcs = [src] + list(extra_srcs)
    hh = hashlib.sha256()
    for s in srcs:
        hh.update(open(s, 'rb').read())
        # headers next to the source are part of it (#include "ops_*.h")
        d = os.path.dirname(os.path.abspath(s))
        for h in sorted(glob.glob(os.path.join(d, '*.h'))) + sorted(glob.glob(os.path.join(d, '*.inc'))):
            hh.update(open(h, 'rb').read())
    hh.update((' '.join(extra_flags) + str(wrap)).encode())
    hh.update(open(os.path.abspath(__file__), 'rb').read())
    exe = os.path.join(bdir, out_name + '-' + hh.hexdigest()[:10])
    if os.path.exists(exe):
        return exe
    defs = DEFS + (['-DZCHUNK_OPENSSL'] if openssl else [])
    run([CC, '-o', exe] + srcs + cflags + defs + inc_flags(repo, bdir) + list(extra_flags)
        + (['-Wl,--wrap=read,--wrap=write,--wrap=lseek,--wrap=lseek64,--wrap=regexec,--wrap=regcomp,--wrap=regfree'] if wrap else []) + [os.path.join(bdir, 'libzckv.a')] + LIBS + ['-lpthread'])
    return exe

def build_tools(repo=REPO, variant='plain'):
    """The CLI tools (zck, unzck, zck_read_header, zck_delta_size, zckdl if curl) of the working tree."""
    cflags, openssl = VARIANTS[variant]
    bdir = build_lib(repo, variant)
    tdir = os.path.join(bdir, 'tools')
    if os.path.exists(os.path.join(tdir, '.done')):
        return tdir
    os.makedirs(tdir, exist_ok=True)
    defs = DEFS + (['-DZCHUNK_OPENSSL'] if openssl else [])
    util = [os.path.join(repo, 'src', 'util_common.c')]
    tools = {'zck': ['zck.c', 'memmem.c'], 'unzck': ['unzck.c'], 'zck_read_header': ['zck_read_header.c'],
             'zck_delta_size': ['zck_delta_size.c'], 'zckdl': ['zck_dl.c']}
    def one(item):
        name, files = item
        srcs = [os.path.join(repo, 'src', f) for f in files if os.path.exists(os.path.join(repo, 'src', f))] + util
        libs = LIBS + (['-lcurl'] if name == 'zckdl' else [])
        run([CC, '-o', os.path.join(tdir, name)] + srcs + cflags + defs + inc_flags(repo, bdir)
            + [os.path.join(bdir, 'libzckv.a')] + libs)
    with ThreadPoolExecutor(8) as ex:
        list(ex.map(one, tools.items()))
    open(os.path.join(tdir, '.done'), 'w').write('ok')
    return tdir

if __name__ == '__main__':
    v = sys.argv[1] if len(sys.argv) > 1 else 'plain'
    t = time.time()
    print(build_lib(REPO, v), round(time.time() - t, 1), 's')
