#!/usr/bin/env python3
"""./check.py <ID> --tier quick|thorough [--replay FILE]   (cwd /verif; honours VERIF_SEED, VERIF_TIER)"""
import sys, os, argparse, importlib
VERIF = os.path.dirname(os.path.abspath(__file__))
sys.path.insert(0, VERIF)
os.chdir(VERIF)

def main():
    ap = argparse.ArgumentParser()
    ap.add_argument('prop')
    ap.add_argument('--tier', default=os.environ.get('VERIF_TIER', 'quick'), choices=['quick', 'thorough'])
    ap.add_argument('--replay')
    a = ap.parse_args()
    seed = int(os.environ.get('VERIF_SEED', '1'))
    mod = importlib.import_module('props.' + a.prop.lower())
    try:
        rc = mod.run(a.tier, seed, replay=a.replay)
    except Exception:
        # the machinery itself broke on this tree (a generator, the harness or the driver failed in a way no case accounts for):
        # the property is no longer shown to hold, and there is no failing input to show
        import traceback, json
        tb = traceback.format_exc()
        d = os.path.join(VERIF, 'replays', a.prop.upper()); os.makedirs(d, exist_ok=True)
        rp = os.path.join(d, '%d-crash.json' % seed)
        json.dump(dict(property=a.prop.upper(), tier=a.tier, seed=seed, kind='no-failing-input-found',
                       broken=['correspondence: the check could not be carried out: ' + tb.strip().splitlines()[-1]],
                       traceback=tb, ops=[], impl=[], model=[]), open(rp, 'w'), indent=1)
        sys.stderr.write(tb)
        print('VIOLATION property=%s replay=%s no-failing-input-found' % (a.prop.upper(), rp))
        sys.exit(1)
    sys.exit(rc)

if __name__ == '__main__':
    main()
