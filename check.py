#!/usr/bin/env python3
"""./check.py <ID> --tier quick|thorough [--replay FILE]   (cwd /verif; honours VERIF_SEED, VERIF_TIER)"""
import sys, os, argparse, importlib
VERIF = os.path.dirname(os.path.abspath(__file__))
sys.path.insert(0, VERIF)
os.chdir(VERIF)

def main():
    ap = argparse.ArgumentParser()
    ap.add_argument('prop')
    ap.add_argument('--tier', default=os.environ.get('VERIF_TIER', 'quick'), choices=['quick', 'thorough'])
    ap.add_argument('--replay')
    a = ap.parse_args()
    seed = int(os.environ.get('VERIF_SEED', '1'))
    mod = importlib.import_module('props.' + a.prop.lower())
    rc = mod.run(a.tier, seed, replay=a.replay)
    sys.exit(rc)

if __name__ == '__main__':
    main()
