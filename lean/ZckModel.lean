-- every module of the library (models, predicates, lemmas, property theorems)
import ZckModel.Base
import ZckModel.Gen.Consts
import ZckModel.Proto
import ZckModel.Compint
import ZckModel.Pred.C20
import ZckModel.CompintLemmas
import ZckModel.Props.C20
import ZckModel.Range
import ZckModel.Pred.C10
import ZckModel.RangeLemmas
import ZckModel.Props.C10
import ZckModel.Sha.Spec
import ZckModel.Sha.Bundled
import ZckModel.Sha.Lemmas
import ZckModel.Pred.C18
import ZckModel.Props.C18
