/-
Line-protocol driver: runs the MODEL's executable definitions on the same operation lines the C
harness ran, and evaluates each property predicate on the IMPLEMENTATION's output.
  input : <id> <OP> <args...> [||| <implementation result tokens>]
  output: <id> <model result> ||| <P=1|P=0|P=-> [sig]
-/
import ZckModel.Model

open Zck Zck.Proto

def splitImpl (toks : List String) : List String × Option (List String) :=
  match toks.span (· != "|||") with
  | (a, []) => (a, none)
  | (a, _ :: b) => (a, some b)

def propStr : Option Bool → String
  | none => "P=-"
  | some true => "P=1"
  | some false => "P=0"

/-! ### C10 -/

def parseChunks (s : String) : Option (List Range.Chunk) :=
  if s == "-" then some [] else
  let rec go (toks : List String) (num start : Nat) (acc : Array Range.Chunk) : Option (List Range.Chunk) :=
    match toks with
    | [] => some acc.toList
    | t :: rest =>
      match t.splitOn ":" with
      | [l, v] =>
        match l.toNat?, v.toInt? with
        | some l, some v => go rest (num + 1) (start + l) (acc.push ⟨num, start, l, v⟩)
        | _, _ => none
      | _ => none
  go (s.splitOn ",") 0 0 #[]

def parsePairs (s : String) : Option (List (Nat × Nat)) :=
  if s == "-" then some [] else
  (s.splitOn ",").mapM fun t =>
    match t.splitOn ":" with
    | [a, b] => do some ((← a.toNat?), (← b.toNat?))
    | _ => none

def showPairs (l : List (Nat × Nat)) : String :=
  if l.isEmpty then "-" else ",".intercalate (l.map fun p => s!"{p.1}:{p.2}")

def showRangeOut (o : C10.Out) : String :=
  s!"OK {o.text.getD "-"} {o.count} {showPairs o.index}"

def parseRangeOut (toks : List String) : Option C10.Out :=
  match toks with
  | ["OK", t, c, idx] => do
    some ⟨if t == "-" then none else some t, (← c.toNat?), (← parsePairs idx)⟩
  | _ => none

def handle (op : String) (args : List String) (impl : Option (List String)) : String × Option Bool :=
  match op, args with
  | "CI_ENC", [v] =>
    match v.toNat? with
    | some v =>
      let out := "OK " ++ toHex (Compint.enc v)
      (out, impl.map fun i => (" ".intercalate i) == out)
    | none => ("BADOP", none)
  | "CI_ENCINT", [v] =>
    match v.toInt? with
    | some v =>
      let out := match Compint.encInt v with
        | some bs => "OK " ++ toHex bs
        | none => "ERR"
      (out, impl.map fun i => (" ".intercalate i) == out)
    | none => ("BADOP", none)
  | "CI_DEC", [h, p, m] =>
    match parseHex h, p.toNat?, m.toNat? with
    | some bs, some pos, some maxLen =>
      let r := Compint.decSize bs pos maxLen
      let pv := impl.bind parseRes |>.map (C20.c20_dec_ok bs pos maxLen (2^64))
      (showRes r, if impl.isSome && pv.isNone then some false else pv)
    | _, _, _ => ("BADOP", none)
  | "CI_DECINT", [h, p, m] =>
    match parseHex h, p.toNat?, m.toNat? with
    | some bs, some pos, some maxLen =>
      let r := Compint.decInt bs pos maxLen
      let pv := impl.bind parseRes |>.map (C20.c20_dec_ok bs pos maxLen (2^31))
      (showRes r, if impl.isSome && pv.isNone then some false else pv)
    | _, _, _ => ("BADOP", none)
  | "RANGE", [h, cs, lim] =>
    match h.toNat?, parseChunks cs, lim.toInt? with
    | some hdr, some chunks, some limit =>
      let m := C10.modelOut hdr chunks limit
      let pv := match impl with
        | none => none
        | some i => some ((parseRangeOut i).map (C10.c10_ok hdr chunks limit) |>.getD false)
      (showRangeOut m, pv)
    | _, _, _ => ("BADOP", none)
  | "HASH", [t, segs] | "HASHO", [t, segs] =>
    match t.toNat?, (segs.splitOn "|").mapM parseHex with
    | some t, some segs =>
      let m := if op == "HASH" then Sha.bundledHash t segs else Sha.zckHash t segs.flatten
      let out := match m with | some d => "OK " ++ toHex d | none => "ERR"
      let pv := impl.map fun i => match i with
        | ["OK", d] => (parseHex d).map (C18.c18_ok t segs) |>.getD false
        | ["ERR"] => (Sha.zckHash t []).isNone
        | _ => false
      (out, pv)
    | _, _ => ("BADOP", none)
  | _, _ => ("BADOP", none)

/-! ### file-based ops -/

def readFile (path : String) : IO Bytes := do
  let ba ← IO.FS.readBinFile path
  return ba.toList

def optInt (s : String) : Option (Option Int) :=
  if s == "-" then some none else s.toInt?.map some

def stageStr : Pin.Stage → String
  | .optType => "ERR opt_type" | .optDigest => "ERR opt_digest" | .optLen => "ERR opt_len"
  | .vlead => "ERR vlead" | .lead => "ERR lead" | .header => "ERR header" | .done => "OK"

def hdrRes (r : Res Format.Hdr) : String :=
  match r with
  | .ok h => "OK " ++ PredHdr.report h
  | .err => "ERR"
  | .oob _ => "OOB"

def handleIO (op : String) (args : List String) (impl : Option (List String)) : IO (String × Option Bool) := do
  match op, args with
  | "OPEN", [path, t, d, n, order, vl] =>
    let f ← readFile path
    match optInt t, optInt n, (if d == "-" then some none else if d == "e" then some (some []) else (parseHex d).map some) with
    | some t, some n, some d =>
      let typeFirst := order == "td"
      let st := Pin.openSeq Sha.zckHash f t d n typeFirst (vl == "1")
      let pv := impl.map fun i =>
        let opened := i == ["OK"]
        PredHdr.c06_ok Sha.zckHash f opened && PredHdr.c07_ok Sha.zckHash f t d n typeFirst opened
      return (stageStr st, pv)
    | _, _, _ => return ("BADOP", none)
  | "OPENM", [path, pos, v] =>
    let f ← readFile path
    match pos.toNat?, parseHex v with
    | some pos, some [b] =>
      let g := f.set pos b
      let m := Header.openFile Sha.zckHash g
      let out := match m with | .ok _ => "OK" | .err => "ERR" | .oob _ => "OOB"
      let pv := impl.map fun i => PredHdr.c06_ok Sha.zckHash g (i == ["OK"])
      return (out, pv)
    | _, _ => return ("BADOP", none)
  | "META", [path] =>
    let f ← readFile path
    let m := Header.openFile Sha.zckHash f
    let pv := impl.map fun i =>
      match i with
      | "OK" :: rest => PredHdr.c13_ok Sha.zckHash f (some (" ".intercalate rest))
      | ["ERR"] => PredHdr.c13_ok Sha.zckHash f none
      | _ => false
    return (hdrRes m, pv)
  | _, _ => return handle op args impl

partial def loop (hin : IO.FS.Stream) (hout : IO.FS.Stream) : IO Unit := do
  let line ← hin.getLine
  if line.isEmpty then return ()
  let toks := (line.trimAscii.toString.splitOn " ").filter (· != "")
  match toks with
  | id :: op :: rest =>
    let (args, impl) := splitImpl rest
    let (out, p) ← handleIO op args impl
    hout.putStrLn s!"{id} {out} ||| {propStr p}"
  | _ => pure ()
  loop hin hout

def main (argv : List String) : IO Unit := do
  let hin ← match argv with
    | f :: _ => do let h ← IO.FS.Handle.mk f .read; pure (IO.FS.Stream.ofHandle h)
    | [] => IO.getStdin
  let hout ← match argv with
    | _ :: g :: _ => do let h ← IO.FS.Handle.mk g .write; pure (IO.FS.Stream.ofHandle h)
    | _ => IO.getStdout
  loop hin hout
  hout.flush
