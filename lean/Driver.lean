/-
Line-protocol driver: runs the MODEL's executable definitions on the same operation lines the C
harness ran, and evaluates each property predicate on the IMPLEMENTATION's output.
  input : <id> <OP> <args...> [||| <implementation result tokens>]
  output: <id> <model result> ||| <P=1|P=0|P=-> [sig]
-/
import ZckModel.Model

open Zck Zck.Proto

def splitImpl (toks : List String) : List String × Option (List String) :=
  match toks.span (· != "|||") with
  | (a, []) => (a, none)
  | (a, _ :: b) => (a, some b)

def propStr : Option Bool → String
  | none => "P=-"
  | some true => "P=1"
  | some false => "P=0"

/-! ### C10 -/

def parseChunks (s : String) : Option (List Range.Chunk) :=
  if s == "-" then some [] else
  let rec go (toks : List String) (num start : Nat) (acc : Array Range.Chunk) : Option (List Range.Chunk) :=
    match toks with
    | [] => some acc.toList
    | t :: rest =>
      match t.splitOn ":" with
      | [l, v] =>
        match l.toNat?, v.toInt? with
        | some l, some v => go rest (num + 1) (start + l) (acc.push ⟨num, start, l, v⟩)
        | _, _ => none
      | _ => none
  go (s.splitOn ",") 0 0 #[]

def parsePairs (s : String) : Option (List (Nat × Nat)) :=
  if s == "-" then some [] else
  (s.splitOn ",").mapM fun t =>
    match t.splitOn ":" with
    | [a, b] => do some ((← a.toNat?), (← b.toNat?))
    | _ => none

def showPairs (l : List (Nat × Nat)) : String :=
  if l.isEmpty then "-" else ",".intercalate (l.map fun p => s!"{p.1}:{p.2}")

def showRangeOut (o : C10.Out) : String :=
  s!"OK {o.text.getD "-"} {o.count} {showPairs o.index}"

def parseRangeOut (toks : List String) : Option C10.Out :=
  match toks with
  | ["OK", t, c, idx] => do
    some ⟨if t == "-" then none else some t, (← c.toNat?), (← parsePairs idx)⟩
  | _ => none

partial def handle (op : String) (args : List String) (impl : Option (List String)) : String × Option Bool :=
  match op, args with
  | "CI_ENC", [v] =>
    match v.toNat? with
    | some v =>
      let out := "OK " ++ toHex (Compint.enc v)
      (out, impl.map fun i => (" ".intercalate i) == out)
    | none => ("BADOP", none)
  | "CI_ENCINT", [v] =>
    match v.toInt? with
    | some v =>
      let out := match Compint.encInt v with
        | some bs => "OK " ++ toHex bs
        | none => "ERR"
      (out, impl.map fun i => (" ".intercalate i) == out)
    | none => ("BADOP", none)
  | "CI_DEC", [h, p, m] =>
    match parseHex h, p.toNat?, m.toNat? with
    | some bs, some pos, some maxLen =>
      let r := Compint.decSize bs pos maxLen
      let pv := impl.bind parseRes |>.map (C20.c20_dec_ok bs pos maxLen (2^64))
      (showRes r, if impl.isSome && pv.isNone then some false else pv)
    | _, _, _ => ("BADOP", none)
  | "CI_DECINT", [h, p, m] =>
    match parseHex h, p.toNat?, m.toNat? with
    | some bs, some pos, some maxLen =>
      let r := Compint.decInt bs pos maxLen
      let pv := impl.bind parseRes |>.map (C20.c20_dec_ok bs pos maxLen (2^31))
      (showRes r, if impl.isSome && pv.isNone then some false else pv)
    | _, _, _ => ("BADOP", none)
  | "RANGE", [h, cs, lim, _earlier] => handle "RANGE" [h, cs, lim] impl    -- marks at an earlier request on the context: no part of the model
  | "RANGE", [h, cs, lim] =>
    match h.toNat?, parseChunks cs, lim.toInt? with
    | some hdr, some chunks, some limit =>
      let m := C10.modelOut hdr chunks limit
      let pv := match impl with
        | none => none
        | some i => some ((parseRangeOut i).map (C10.c10_ok hdr chunks limit) |>.getD false)
      (showRangeOut m, pv)
    | _, _, _ => ("BADOP", none)
  | "HASH", [t, segs] | "HASHO", [t, segs] =>
    match t.toNat?, (segs.splitOn "|").mapM parseHex with
    | some t, some segs =>
      let m := if op == "HASH" then Sha.bundledHash t segs else Sha.zckHash t segs.flatten
      let out := match m with | some d => "OK " ++ toHex d | none => "ERR"
      let pv := impl.map fun i => match i with
        | ["OK", d] => (parseHex d).map (C18.c18_ok t segs) |>.getD false
        | ["ERR"] => (Sha.zckHash t []).isNone
        | _ => false
      (out, pv)
    | _, _ => ("BADOP", none)
  | "HASHSEQ", [items] | "HASHSEQO", [items] =>
    -- digests computed one after the other through one hash-type / hash object: each is the digest of its own message
    let parsed : Option (List (Nat × Option (List Bytes))) := (items.splitOn ";").mapM fun it =>
      match it.splitOn ":" with
      | [t, segs] => match t.toNat? with
        | some t => if segs == "!" then some (t, none) else ((segs.splitOn "|").mapM parseHex).map fun s => (t, some s)
        | none => none
      | _ => none
    match parsed with
    | some its =>
      let fin := its.filterMap fun (t, s) => s.map fun s => (t, s)
      let ds := fin.mapM fun (t, s) => if op == "HASHSEQ" then Sha.bundledHash t s else Sha.zckHash t s.flatten
      let out := match ds with
        | some ds => "OK " ++ (if ds.isEmpty then "-" else ",".intercalate (ds.map toHex))
        | none => "ERR"
      let pv := impl.map fun i => match i with
        | ["OK", d] =>
          let got := if d == "-" then some [] else (d.splitOn ",").mapM parseHex
          match got with
          | some got => got.length == fin.length && (fin.zip got).all fun ((t, s), g) => C18.c18_ok t s g
          | none => false
        | ["ERR"] => ds.isNone
        | _ => false
      (out, pv)
    | none => ("BADOP", none)
  | _, _ => ("BADOP", none)

/-! ### file-based ops -/

def readFile (path : String) : IO Bytes := do
  let ba ← IO.FS.readBinFile path
  return ba.toList

def optInt (s : String) : Option (Option Int) :=
  if s == "-" then some none else s.toInt?.map some

def stageStr : Pin.Stage → String
  | .optType => "ERR opt_type" | .optDigest => "ERR opt_digest" | .optLen => "ERR opt_len"
  | .vlead => "ERR vlead" | .lead => "ERR lead" | .header => "ERR header" | .done => "OK"

def hdrRes (r : Res Format.Hdr) : String :=
  match r with
  | .ok h => "OK " ++ PredHdr.report h
  | .err => "ERR"
  | .oob _ => "OOB"

/-! ### reader ops -/

/-- zstd side table: `<dictflag> <storedhex> OK <plainhex>` / `... ERR`, produced with libzstd directly -/
def loadZtab (path : String) : IO (List (Bool × Bytes × Option Bytes)) := do
  if path == "-" then return []
  let txt ← IO.FS.readFile path
  let mut acc := []
  for line in txt.splitOn "\n" do
    match (line.splitOn " ").filter (· != "") with
    | [d, st, "OK", pl] =>
      match parseHex st, parseHex pl with
      | some st, some pl => acc := (d == "1", st, some pl) :: acc
      | _, _ => pure ()
    | [d, st, "ERR"] =>
      match parseHex st with
      | some st => acc := (d == "1", st, none) :: acc
      | none => pure ()
    | _ => pure ()
  return acc

def mkDecomp (tab : List (Bool × Bytes × Option Bytes)) : Format.Decomp := fun st dict =>
  match tab.find? (fun e => e.1 == dict.isSome && e.2.1 == st) with
  | some e => e.2.2
  | none => none

/-- the READSEQ call schedule of the harness, on the model (`ce` = result of the one
`zck_clear_error` call made after the first error, -1 if none) -/
def runReadSeq (H : Format.HashFn) (D : Format.Decomp) (f : Bytes) (sizes : Array Nat) :
    Nat → Reader.Ctx → Nat → Nat → Int → Array Int → Bytes → (Array Int × Bytes × Reader.Ctx × Int)
  | 0, c, _, _, ce, rets, out => (rets, out, c, ce)
  | fuel + 1, c, calls, afterErr, ce, rets, out =>
    let bs := sizes[if calls < sizes.size then calls else sizes.size - 1]!
    let (r, c) := Reader.compRead H D f c bs
    let rets := rets.push r.ret
    let out := if r.ret > 0 then out ++ r.bytes else out
    let (ce, c) := if r.ret < 0 ∧ ce < 0 then
        let (ok, c') := Reader.clearError c
        ((if ok then 1 else 0 : Int), c')
      else (ce, c)
    if r.ret < 0 ∨ afterErr > 0 then
      if afterErr + 1 > 2 then (rets, out, c, ce) else runReadSeq H D f sizes fuel c (calls + 1) (afterErr + 1) ce rets out
    else if r.ret == 0 ∧ bs > 0 then (rets, out, c, ce)
    else runReadSeq H D f sizes fuel c (calls + 1) 0 ce rets out

def parseNatList (s : String) : Option (List Nat) := (s.splitOn ",").mapM (·.toNat?)
def parseIntList (s : String) : Option (List Int) := (s.splitOn ",").mapM (·.toInt?)

def kv (toks : List String) (key : String) : Option String :=
  toks.findSome? fun t => if t.startsWith (key ++ "=") then some ((t.drop (key.length + 1)).toString) else none

def flagsOf (s : String) : List Int := s.toList.map fun ch => if ch == '1' then 1 else if ch == '0' then 0 else -1
def showFlags (v : List Int) : String := String.ofList (v.map fun x => if x == 1 then '1' else if x == 0 then '0' else 'x')

/-- SCAN ops on the model; also evaluates the C09 predicates on the implementation's tokens -/
def runScan (H : Format.HashFn) (D : Format.Decomp) (f : Bytes) (ops : List Char) (impl : Option (List String)) :
    String × Option Bool := Id.run do
  match Header.openFile H f with
  | .ok h =>
    let mut c := Reader.openCtx h
    let mut outs : Array String := #[]
    let mut ok := true
    let mut itoks := (impl.getD []).drop 1
    let mut before := c.valid
    let mut errd := false
    for o in ops do
      let it := itoks.head?.getD ""
      itoks := itoks.drop 1
      if o == 'v' ∨ o == 'f' ∨ o == 'd' then
        let (r, c') := if o == 'd' then Reader.validateData H f c else Reader.validateChecksums H f c
        c := c'
        outs := outs.push s!"{o}={r}:{showFlags c.valid}"
        -- predicate on the implementation's token "<o>=<ret>:<flags>"
        match (it.drop 2).toString.splitOn ":" with
        | [rs, fl] =>
          match rs.toInt? with
          | some ri =>
            -- a context whose read failed is in the error state: validations are refused (0) and must leave the marks alone
            let p := if errd then ri == 0 && flagsOf fl == before
                     else if o == 'd' then PredRead.c09_data_ok H f ri (flagsOf fl) before
                     else PredRead.c09_scan_ok H f ri (flagsOf fl) before
            ok := ok && p
            before := flagsOf fl
          | none => ok := false
        | _ => if impl.isSome then ok := false
      else if o == 'r' then
        let (rets, out, c', _) := runReadSeq H D f #[4096] 200000 c 0 0 0 #[] []
        c := c'
        -- the harness loops `while((r = zck_read(...)) > 0)`: it stops at the first r <= 0
        let lastRet := (rets.toList.find? (· ≤ 0)).getD 0
        let got := Id.run do
          -- bytes of the successful calls before the first r <= 0
          return out
        outs := outs.push s!"r={lastRet}:{got.length}:{PredRead.showBytes got}"
        -- reading verifies chunks as it goes: the marks a later validation must leave alone are those after the read
        before := c.valid
        errd := errd || lastRet < 0
      else if o == 'c' then
        outs := outs.push s!"c={if Reader.close H c then 1 else 0}"
      else if o == 'e' then
        outs := outs.push s!"e={if c.err then 1 else 1}"
    outs := outs.push "same=1"
    -- reads after validations: judged on the implementation's r= and c= tokens
    let itl := (impl.getD [])
    let rtok := itl.find? (·.startsWith "r=")
    let ctok := itl.find? (·.startsWith "c=")
    match rtok, ctok with
    | some rt, some ct =>
      match (rt.drop 2).toString.splitOn ":" with
      | rs :: ns :: obs =>
        match rs.toInt?, ns.toNat? with
        | some ri, some ni => ok := ok && PredRead.c09_read_ok H D f ri ni (":".intercalate obs) (ct == "c=1")
        | _, _ => ok := false
      | _ => ok := false
    | _, _ => pure ()
    if impl.isSome then
      ok := ok && (itl.getLast? == some "same=1")
    return ("OK " ++ " ".intercalate outs.toList, impl.map fun _ => ok)
  | _ => return ("ERR open", impl.map fun i => i == ["ERR", "open"])


/-! ### C05 / C17: the download callbacks -/

/-- libc's answers as logged by the harness (`rx=<which>:<subject>:<rc>:so1:eo1:so2:eo2`, `rc=<pattern>:<rc>`) -/
def mkRx (toks : List String) : Dl.Rx :=
  let rxs : List (String × Bytes × Bool × Nat × Nat × Nat × Nat) := toks.filterMap fun t =>
    if t.startsWith "rx=" then
      match (t.drop 3).toString.splitOn ":" with
      | [w, subj, rc, a, b, c, d] =>
        -- an unset group is reported as -1 (only ever with the closing-delimiter pattern, whose groups are not used)
        match parseHex subj, a.toInt?, b.toInt?, c.toInt?, d.toInt? with
        | some sb, some a, some b, some c, some d => some (w, sb, rc == "0", a.toNat, b.toNat, c.toNat, d.toNat)
        | _, _, _, _, _ => none
      | _ => none
    else none
  let rcs : List (Bytes × Bool) := toks.filterMap fun t =>
    if t.startsWith "rc=" then
      match (t.drop 3).toString.splitOn ":" with
      | [pat, rc] => (parseHex pat).map fun p => (p, rc == "0")
      | _ => none
    else none
  let look (w : String) (s : Bytes) := rxs.find? fun e => e.1 == w && e.2.1 == s
  { comp := fun pat => match rcs.find? (fun e => e.1 == pat) with | some e => e.2 | none => false
    hdr := fun s => match look "h" s with
      | some (_, _, true, a, b, _, _) => some (a, b)
      | _ => none
    part := fun _ s => match look "p" s with
      | some (_, _, true, a, b, c, d) => some (a, b, c, d)
      | _ => none
    endm := fun _ s => match look "e" s with
      | some (_, _, ok, _, _, _, _) => ok
      | none => false }

/-- the fragments the harness cuts the body into -/
partial def dlFragments (body : Bytes) (cuts : String) : List Bytes :=
  let every : Option Nat := if cuts.startsWith "b" then (cuts.drop 1).toString.toNat? else none
  let cl : List Nat := if every.isSome || cuts == "-" then [] else (cuts.splitOn ",").filterMap (·.toNat?)
  let rec go (rest : Bytes) (cl : List Nat) (first : Bool) (acc : Array Bytes) : Array Bytes :=
    if rest.isEmpty && !first then acc else
    let (len, cl) := match every, cl with
      | some n, _ => (min rest.length n, [])
      | none, c :: cs => (min rest.length c, cs)
      | none, [] => (rest.length, [])
    let acc := acc.push (rest.take len)
    if len == 0 && rest.isEmpty then acc else go (rest.drop len) cl false acc
  (go body cl true #[]).toList

def showNats (l : List Nat) : String := if l.isEmpty then "-" else ",".intercalate (l.map toString)

def parseExpect (s : String) (implRange : String) : PredDl.Expect :=
  -- the expectation holds for the request the response was built for; another request: nothing is expected
  match s.splitOn ":" with
  | ["wf", rs] => if rs == implRange then .wf else .any
  | ["bad", k, rs] => if rs == implRange then (match k.toNat? with | some k => .bad k | none => .any) else .any
  | _ => .any


/-! ### C04 / C11: the update procedure -/

def showUpd (pfx : String) (o : Update.Out) : String :=
  let rng (l : List (Nat × Nat)) := ";".intercalate (l.map fun p => s!"{p.1}-{p.2}")
  let parts : List String :=
    [s!"{pfx}hdr={rng o.hdrReqs}"] ++
    (match o.scan with | some (r, fl) => [s!"{pfx}scan={r}:{showFlags fl}"] | none => []) ++
    (match o.copy with | some fl => [s!"{pfx}copy={showFlags fl}"] | none => []) ++
    (if o.copy.isSome && (o.err.isNone || o.err == some "download" || o.err == some "no-progress") then
       [s!"{pfx}reqs={if o.reqs.isEmpty then "-" else ";".intercalate o.reqs}"] ++
       (if o.err == some "no-progress" then [] else [s!"{pfx}rounds={o.rounds}"]) else []) ++
    (match o.err with | some e => [s!"{pfx}err={e}"] | none => []) ++
    (match o.vd with | some v => [s!"{pfx}vd={v}", s!"{pfx}missing={o.missing}", s!"{pfx}failed={o.failed}"] | none => [])
  " ".intercalate parts

/-! ### C12: io.c under fault schedules -/

def parseSched (s : String) : Option (List IoFault.Fault) :=
  if s == "-" then some [] else
  (s.splitOn ",").mapM fun t =>
    if t == "ok" then some .ok
    else if t == "eintr" then some .eintr
    else if t == "eio" || t == "enospc" then some .fail
    else if t.startsWith "s" then ((t.drop 1).toString.toNat?).map IoFault.Fault.short
    else none

def firedCount (sch rest : List IoFault.Fault) : Nat :=
  ((sch.take (sch.length - rest.length)).filter (· != IoFault.Fault.ok)).length

partial def handleIO (op : String) (args : List String) (impl : Option (List String)) : IO (String × Option Bool) := do
  match op, args with
  | "OPEN", [path, t, d, n, order, vl] =>
    let f ← readFile path
    match optInt t, optInt n, (if d == "-" then some none else if d == "e" then some (some []) else (parseHex d).map some) with
    | some t, some n, some d =>
      let typeFirst := order == "td"
      let st := Pin.openSeq Sha.zckHash f t d n typeFirst (vl == "1")
      let pv := impl.map fun i =>
        let opened := i == ["OK"]
        PredHdr.c06_ok Sha.zckHash f opened && PredHdr.c07_ok Sha.zckHash f t d n typeFirst opened
      return (stageStr st, pv)
    | _, _, _ => return ("BADOP", none)
  | "OPENLATE", [path, n] => handleIO "OPENLATE" [path, n, "-", "-", "a"] impl
  | "OPENLATE", [path, n, t, d, whenT] =>     -- expected values announced after the lead was read: no effect on the outcome
    let f ← readFile path
    match optInt t, (if d == "-" then some none else (parseHex d).map some) with
    | some t, some d =>
      let neg := match n.toInt? with | some v => decide (v < 0) | none => false
      let st : Pin.Stage :=
        match (if whenT == "b" then (match t with | some t => Pin.setType {} t | none => some {}) else some {}) with
        | none => .optType
        | some p1 =>
          match Header.readLead p1 f with
          | .ok l =>
            match (if whenT != "b" then (match t with | some t => Pin.setType p1 t | none => some p1) else some p1) with
            | none => .optType
            | some p2 =>
              match (match d with | some d => Pin.setDigest p2 d | none => some p2) with
              | none => .optDigest
              | some _ =>
                if neg then .optLen else
                match Header.readHeader Sha.zckHash f l with
                | .ok _ => .done
                | _ => .header
          | _ => .lead
      let pv := impl.map fun i => PredHdr.c06_ok Sha.zckHash f (i == ["OK"])
      return (stageStr st, pv)
    | _, _ => return ("BADOP", none)
  | "OPENM", [path, pos, v] =>
    let f ← readFile path
    match pos.toNat?, parseHex v with
    | some pos, some [b] =>
      let g := f.set pos b
      let m := Header.openFile Sha.zckHash g
      let out := match m with | .ok _ => "OK" | .err => "ERR" | .oob _ => "OOB"
      let pv := impl.map fun i => PredHdr.c06_ok Sha.zckHash g (i == ["OK"])
      return (out, pv)
    | _, _ => return ("BADOP", none)
  | "OPENRETRY", [path, pos, v] =>     -- retries on the same context cannot get a header accepted that a fresh open refuses
    let f ← readFile path
    match pos.toNat?, parseHex v with
    | some pos, some [b] =>
      let g := f.set pos b
      let m := Header.openFile Sha.zckHash g
      let out := match m with | .ok _ => "OK" | .err => "ERR" | .oob _ => "OOB"
      let pv := impl.map fun i => PredHdr.c06_ok Sha.zckHash g (i == ["OK"])
      return (out, pv)
    | _, _ => return ("BADOP", none)
  | "OPENRESET", [path, t, d1, d2] =>     -- the digest pin set twice; a refused second value must not remove the first
    let f ← readFile path
    match t.toInt?, parseHex d1, (if d2 == "e" then some [] else parseHex d2) with
    | some t, some d1, some d2 =>
      match Pin.setType {} t with
      | none => return ("ERR opt_type r2=0", impl.map fun i => i == ["ERR", "opt_type", "r2=0"])
      | some p1 =>
        match Pin.setDigest p1 d1 with
        | none => return ("ERR opt_digest r2=0", impl.map fun i => i == ["ERR", "opt_digest", "r2=0"])
        | some p2 =>
          let second := Pin.setDigest p2 d2
          -- a refused value is a fatal error on the context: zck_clear_error declines, nothing can be opened through it any more
          let out := match second with
            | none => "ERR lead r2=0"
            | some p3 => match Header.readLead p3 f with
              | .ok l => (match Header.readHeader Sha.zckHash f l with | .ok _ => "OK r2=1" | _ => "ERR header r2=1")
              | _ => "ERR lead r2=1"
          -- C07: whatever opens carries the checksum of the pin in force (the last one the setter accepted)
          let eff := if second.isSome then d2 else d1
          let pv := impl.map fun i => match i with
            | "OK" :: _ => PredHdr.pinsMatch f (some t) (some eff) none && (Format.parse Sha.zckHash f).isSome
            | _ => true
          return (out, pv)
    | _, _, _ => return ("BADOP", none)
  | "PINSWAP", [pathA, pathB, t, d, n, mode] =>   -- what the context saw before (file A) does not enter the verdict on file B
    let fa ← readFile pathA
    let fb ← readFile pathB
    match optInt t, optInt n, (if d == "-" then some none else if d == "e" then some (some []) else (parseHex d).map some) with
    | some t, some n, some d =>
      let sa := Pin.openSeq Sha.zckHash fa t d n true true
      match sa with
      | .optType | .optDigest | .optLen => return (stageStr sa, impl.map fun i => i == (stageStr sa).splitOn " ")
      | _ =>
        let first := match sa with | .vlead | .lead => 0 | _ => 1
        let sb := Pin.openSeq Sha.zckHash fb t d n true false
        let fin := if sb == .done then "OK" else "ERR"
        let _ := mode
        let pv := impl.map fun i =>
          match i with
          | "OK" :: rest => match kv rest "final" with
            | some x => PredHdr.c07_ok Sha.zckHash fb t d n true (x == "OK") && PredHdr.c06_ok Sha.zckHash fb (x == "OK")
            | none => false
          | _ => false
        return (s!"OK first={first} final={fin}", pv)
    | _, _, _ => return ("BADOP", none)
  | "READSEQ", [path, sizes, ztab] =>
    let f ← readFile path
    let tab ← loadZtab ztab
    let D := mkDecomp tab
    match parseNatList sizes with
    | some sz =>
      match Header.openFile Sha.zckHash f with
      | .ok h =>
        let (rets, out, c, ce) := runReadSeq Sha.zckHash D f sz.toArray 100000 (Reader.openCtx h) 0 0 (-1) #[] []
        let cl := Reader.close Sha.zckHash c
        let res := s!"OK rets={",".intercalate (rets.toList.map toString)} ce={ce} n={out.length} out={PredRead.showBytes out} close={if cl then 1 else 0}"
        let pv := impl.map fun i =>
          match i with
          | "OK" :: rest =>
            match (kv rest "rets").bind parseIntList, (kv rest "n").bind (·.toNat?), kv rest "out", kv rest "close" with
            | some r, some n, some o, some cls =>
              PredRead.c02_ok Sha.zckHash D f r o (cls == "1") && PredRead.c15_ok Sha.zckHash D f n o
            | _, _, _, _ => false
          | ["ERR", "open"] => true
          | _ => false
        return (res, pv)
      | _ => return ("ERR open", impl.map fun i => i == ["ERR", "open"] || (Format.parse Sha.zckHash f).isNone)
    | none => return ("BADOP", none)
  | "READSEQ", [path, sizes, ztab, _match] =>   -- marks set by zck_find_matching_chunks do not enter the reader model
    let f ← readFile path
    let tab ← loadZtab ztab
    let D := mkDecomp tab
    match parseNatList sizes with
    | some sz =>
      match Header.openFile Sha.zckHash f with
      | .ok h =>
        let (rets, out, c, ce) := runReadSeq Sha.zckHash D f sz.toArray 100000 (Reader.openCtx h) 0 0 (-1) #[] []
        let cl := Reader.close Sha.zckHash c
        let res := s!"OK rets={",".intercalate (rets.toList.map toString)} ce={ce} n={out.length} out={PredRead.showBytes out} close={if cl then 1 else 0}"
        let pv := impl.map fun i =>
          match i with
          | "OK" :: rest =>
            match (kv rest "rets").bind parseIntList, (kv rest "n").bind (·.toNat?), kv rest "out", kv rest "close" with
            | some r, some n, some o, some cls =>
              PredRead.c02_ok Sha.zckHash D f r o (cls == "1") && PredRead.c15_ok Sha.zckHash D f n o
            | _, _, _, _ => false
          | ["ERR", "open"] => true
          | _ => false
        return (res, pv)
      | _ => return ("ERR open", impl.map fun i => i == ["ERR", "open"] || (Format.parse Sha.zckHash f).isNone)
    | none => return ("BADOP", none)
  | "CHUNKSEQ", [path, reqs, ztab] =>
    let f ← readFile path
    let tab ← loadZtab ztab
    let D := mkDecomp tab
    match Header.openFile Sha.zckHash f with
    | .ok h =>
      let mut c := Reader.openCtx h
      let mut outs : Array String := #[]
      let mut ok := true
      let mut itoks := (impl.getD []).drop 1
      for t in reqs.splitOn "," do
        let comp := t.endsWith "c"
        let half := t.endsWith "h"       -- a data request with a buffer of half the chunk's size
        let k := ((if comp || half then (t.dropEnd 1).toString else t).toNat?).getD 0
        let it := itoks.head?.getD ""
        itoks := itoks.drop 1
        match (if c.err then none else Reader.chunkAt c k) with     -- zck_get_chunk returns NULL on a context in error state
        | none => outs := outs.push "nochunk"
        | some ch =>
          let want0 := if comp then ch.compLen else ch.len
          if want0 > 2^26 then outs := outs.push "toobig" else
          let want := if half && want0 ≥ 2 then want0 / 2 else want0
          let (r, c') := if comp then Reader.getChunkCompData f c k want else Reader.getChunkData Sha.zckHash D f c k want
          c := c'
          outs := outs.push s!"{r.ret}:{if r.ret > 0 then PredRead.showBytes r.bytes else "-"}"
          match it.splitOn ":" with
          | rs :: rest =>
            match rs.toInt? with
            | some ri => ok := ok && (if half then PredRead.c14_prefix_ok Sha.zckHash D f k want ri (":".intercalate rest)
                                       else PredRead.c14_ok Sha.zckHash D f k comp ri (":".intercalate rest))
            | none => ok := false
          | _ => ok := false
      return ("OK " ++ " ".intercalate outs.toList, impl.map fun _ => ok)
    | _ => return ("ERR open", impl.map fun _ => false)
  | "SCAN", [path, ops, ztab] =>
    let f ← readFile path
    let tab ← loadZtab ztab
    return runScan Sha.zckHash (mkDecomp tab) f ops.toList impl
  | "WRITE", [outPath, cfg, ops] =>
    -- configuration and operations as the harness reads them
    let kvs := cfg.splitOn ","
    let get := fun (k : String) => kv kvs k
    let natOf := fun (k : String) => ((get k).bind (·.toNat?)).getD 0
    let wcfg : Writer.Cfg := { manual := natOf "manual" == 1, chunkMin := natOf "min", chunkMax := natOf "max" }
    let dictLen := match get "dict" with
      | some d => if d == "-" then 0 else d.length / 2
      | none => 0
    let mops := (ops.splitOn "|").mapM fun t =>
      if t == "e" then some Writer.Op.endChunk
      else if t.startsWith "w" then (parseHex (if t.length == 1 then "-" else (t.drop 1).toString)).map Writer.Op.write
      else none
    match mops with
    | none => return ("BADOP", none)
    | some mops =>
      let content := Writer.written mops
      -- the header the implementation wrote is what the model of header_create (`Encode.header`) serialises from the fields
      -- the reference parser reads out of it, and the file is that header followed by exactly the data section
      let closed := match impl with
        | some ("OK" :: rest) => kv rest "close" == some "1"
        | _ => false
      let hdrOk ← (do
        if !closed then pure true else
        let f ← readFile outPath
        match Format.parse Sha.zckHash f with
        | some h =>
          let spec : Encode.Spec := ⟨h.hashType, h.chunkHashType, h.flags, h.compType, h.dataDigest, h.chunks⟩
          pure (Encode.header Sha.zckHash spec == some (f.take (h.lead + h.headerLen)) && f.length == h.lead + h.headerLen + h.dataLen)
        | none => pure false)
      -- the model gives the file byte for byte (`Encode.closeFile`): header_create's output for the entries of the dictionary and of
      -- the chunks the chunker model cuts, followed by their stored forms.  The compressor is a parameter of the model: for zstd
      -- files it is the table content -> stored bytes read off the implementation's own output (position by position)
      let comparable := closed
      let fileOk ← (do
        if !comparable then pure true else
        match Writer.closeChunks wcfg mops, (match get "dict" with | some d => if d == "-" then some [] else parseHex d | none => some []) with
        | some chunks, some dict =>
          let ht := ((get "full").bind (·.toNat?)).getD 1
          let cht := ((get "chunk").bind (·.toNat?)).getD 3
          let ct := if get "comp" == some "none" then 0 else 2
          let u := natOf "uncomp" == 1
          let f ← readFile outPath
          let table : List ((Bool × Bytes) × Bytes) := match Format.parse Sha.zckHash f with
            | some h =>
              let data := f.drop (h.lead + h.headerLen)
              let pls := dict :: chunks
              if h.chunks.length != pls.length then [] else
              (h.chunks.zip pls).zipIdx.map fun ((c, pl), i) => ((i != 0 && !dict.isEmpty, pl), (data.drop c.start).take c.compLen)
            | none => []
          let C := fun (d : Option Bytes) (pl : Bytes) => ((table.find? fun e => e.1 == (d.isSome, pl)).map (·.2)).getD []
          match Encode.closeFile Sha.zckHash C ht cht ct u dict chunks with
          | some mf => pure (mf == f)
          | none => pure false
        | _, _ => pure true)
      let out := match Writer.closeChunks wcfg mops with
        | none => "HANG"
        | some chunks => s!"OK close=1 lens={",".intercalate ((dictLen :: chunks.map (·.length)).map toString)} hdr={if hdrOk then 1 else 0} file={if fileOk then 1 else 0}"
      let pv := impl.map fun i =>
        match i with
        | "OK" :: rest =>
          if kv rest "close" != some "1" then true else
          -- C01: a successful close yields a file that validates and reads back exactly what was written
          let rbOk := match (kv rest "rb").map (·.splitOn ":") with
            | some (r :: n :: bs) => r == "0" && n.toNat? == some content.length && ":".intercalate bs == PredRead.showBytes content
            | _ => false
          let lens := ((kv rest "cl").getD "").splitOn ";" |>.filterMap fun e => ((e.splitOn ":").getLast?).bind (·.toNat?)
          kv rest "valid" == some "1" && rbOk && kv rest "rclose" == some "1" &&
            (mops.any (· == Writer.Op.endChunk) || PredWrite.c16_bounds_ok wcfg (lens.drop 1))
        | ["HANG"] => false
        | _ => true
      return (out, pv)
  | "WRITE3", [_, _, _, _, _] =>
    -- three writer contexts with overlapping lifetimes: the model keeps no state outside a context (C19's footprint theorem), so
    -- every close succeeds and every output reads back as what its context was given
    let out := "OK c=111 rt=111"
    let pv := impl.map fun i => match i with
      | ["OK", c, rt] => c == "c=111" && rt == "rt=111"
      | _ => false
    return (out, pv)
  | "ZCKOPS", [path, split, manual] =>
    -- the calls the zck tool makes for this input (read in 32 KiB blocks) and the resulting chunk sizes
    let f ← readFile path
    match parseHex split with
    | some sp =>
      let rec blocks (bs : Bytes) (fuel : Nat) : List Bytes :=
        match fuel with
        | 0 => []
        | fuel + 1 => if bs.isEmpty then [] else bs.take 32768 :: blocks (bs.drop 32768) fuel
      let ops := Tools.zckOps sp (blocks f (f.length / 32768 + 2))
      let wcfg : Writer.Cfg := { manual := manual == "1", chunkMin := 0, chunkMax := 0 }
      let out := match Writer.closeChunks wcfg ops with
        | none => "HANG"
        | some chunks => s!"OK lens={",".intercalate ((0 :: chunks.map (·.length)).map toString)}"
      -- property (tool level): nothing the scanner passes on is lost: the written bytes are the input
      let pv := impl.map fun _ => decide (Writer.written ops = f)
      return (out, pv)
    | none => return ("BADOP", none)
  | "COPY", [tpath, fl, srcs, before] =>
    -- `before` = untouched copy of the target as it was before the op (the harness modifies tpath in place)
    let tb ← readFile before
    let ta ← (do if impl.isSome then readFile tpath else pure [])
    match Header.openFile Sha.zckHash tb with
    | .ok th =>
      let valid0 : List Int := if fl == "-" then (Reader.validateChecksums Sha.zckHash tb (Reader.openCtx th)).2.valid else flagsOf fl
      let mut t : Copy.Tgt := ⟨tb, valid0⟩
      let mut rets := ""
      let mut same := ""
      for sp0 in srcs.splitOn "," do
        -- `<path>@<history>`: marks / validations on the SOURCE context before the copy; they play no part in the model of zck_copy_chunks
        let sp := (sp0.splitOn "@").headD sp0
        let sb ← readFile sp
        match Header.openFile Sha.zckHash sb with
        | .ok sh =>
          t := Copy.copyChunks Sha.zckHash sb sh th t
          rets := rets ++ "1"; same := same ++ "1"
        | _ => rets := rets ++ "e"; same := same ++ "1"
      let out := s!"OK r={rets} flags={showFlags t.valid} tgt={PredRead.showBytes t.f} src={same}"
      let pv := impl.map fun i =>
        match i with
        | "OK" :: rest =>
          match kv rest "flags", kv rest "src" with
          | some fa, some ss => PredCopy.c08_ok Sha.zckHash tb ta valid0 (flagsOf fa) (ss.toList.all (· == '1'))
          | _, _ => false
        | _ => false
      return (out, pv)
    | _ => return ("ERR open-tgt", impl.map fun i => i == ["ERR", "open-tgt"])
  | "MATCH", [spath, tpath, fl] =>
    let sb ← readFile spath
    let tb ← readFile tpath
    match Header.openFile Sha.zckHash sb, Header.openFile Sha.zckHash tb with
    | .ok sh, .ok th =>
      let m := Copy.findMatching sh th (flagsOf fl)
      let txt := ",".intercalate (m.map fun (v, s) => s!"{v}:{match s with | some k => toString k | none => "self"}")
      -- C08 (matching), on the IMPLEMENTATION's pairs: a pair is made only for equal (un)compressed checksum
      -- and equal uncompressed length
      let pairOk := fun (v : Int) (s : Option Nat) (tc : Format.Chunk) =>
        match s with
        | none => true
        | some k => match sh.chunks[k]? with
          | some sc => v == 1 && sc.len == tc.len &&
              (if sh.compType == th.compType then sc.digest == tc.digest else sc.udigest == tc.udigest && sc.udigest.isSome)
          | none => false
      let pv := impl.map fun i =>
        match i with
        | "OK" :: rest =>
          match kv rest "m" with
          | some ms =>
            let items := if ms == "-" then [] else ms.splitOn ","
            items.length == th.chunks.length &&
            (items.zip th.chunks).all fun (it, tc) =>
              match it.splitOn ":" with
              | [v, k] => pairOk (v.toInt?.getD 0) (if k == "self" then none else k.toNat?) tc
              | _ => false
          | none => false
        | _ => false
      return (s!"OK r=1 m={if txt.isEmpty then "-" else txt}", pv)
    | _, _ => return ("ERR open", impl.map fun i => i == ["ERR", "open"])
  | "IOSEQ", ["read_data", sch, fileHex, pos, len] =>
    match parseSched sch, parseHex fileHex, pos.toNat?, len.toNat? with
    | some sc, some fb, some p, some l =>
      let (r, bs, _, rest) := IoFault.readData (l + sc.length + 2) ⟨fb, p⟩ l sc []
      let out := s!"OK ret={r} bytes={PredRead.showBytes (if r > 0 then bs else [])} err={if r == -1 then 1 else 0} fired={firedCount sc rest}"
      -- C12 on the implementation: a non-negative count n means: these are the n bytes at the offset, and n < len only at end of file
      let pv := impl.map fun i => match i with
        | "OK" :: rest' =>
          match (kv rest' "ret").bind (·.toInt?), kv rest' "bytes" with
          | some ri, some b =>
            if ri < 0 then true else
            let n := ri.toNat
            b == PredRead.showBytes ((fb.drop p).take n) && n ≤ l && (n == l || p + n ≥ fb.length)
          | _, _ => false
        | _ => false
      return (out, pv)
    | _, _, _, _ => return ("BADOP", none)
  | "IOSEQ", ["write_data", sch, fileHex, pos, dataHex] =>
    match parseSched sch, parseHex fileHex, pos.toNat?, parseHex dataHex with
    | some sc, some fb, some p, some d =>
      let (ok, fd, rest) := IoFault.writeData ⟨fb, p⟩ d sc
      let out := s!"OK ret={if ok then 1 else 0} file={PredRead.showBytes fd.data} err={if ok then 0 else 2} fired={firedCount sc rest}"
      -- C12: success only if every byte reached the file at the offset
      let pv := impl.map fun i => match i with
        | "OK" :: rest' =>
          if kv rest' "ret" == some "1" then kv rest' "file" == some (PredRead.showBytes (Copy.writeAt fb p d)) else true
        | _ => false
      return (out, pv)
    | _, _, _, _ => return ("BADOP", none)
  | "IOSEQ", ["chunks_from_temp", sch, tempHex, outHex] =>
    match parseSched sch, parseHex tempHex, parseHex outHex with
    | some sc, some tb, some ob =>
      let (ok, fd, rest) := IoFault.chunksFromTemp ⟨tb, tb.length⟩ ⟨ob, ob.length⟩ sc
      let werr := !ok && Id.run do
        -- error_state is only set by a failing write_data
        return (fd.data.length != (ob ++ tb).length || true) && false
      let out := s!"OK ret={if ok then 1 else 0} out={PredRead.showBytes fd.data}"
      let _ := werr
      let _ := rest
      let pv := impl.map fun i => match i with
        | "OK" :: rest' =>
          if kv rest' "ret" == some "1" then kv rest' "out" == some (PredRead.showBytes (ob ++ tb)) else true
        | _ => false
      return (out, pv)
    | _, _, _ => return ("BADOP", none)
  | "THREADS", [_, nt, _, _, _] =>
    -- the serial per-thread results are the thread programs (operation i of thread t yields S[t][i]); the model executes an
    -- interleaving of them (Threads.run); C19 on the implementation: the concurrent results are the model's
    let n := nt.toNat?.getD 0
    let pv := impl.map fun i => match i with
      | "OK" :: rest =>
        let grp (tag : Char) : List (List String) := Id.run do
          let mut cur : Option (List String) := none
          let mut acc : List (List String) := []
          for t in rest do
            let isMark := t.length ≥ 2 && (t.front == 'P' || t.front == 'S') && (t.drop 1).all Char.isDigit
            if isMark then
              if let some c := cur then acc := acc ++ [c.reverse]
              cur := if t.front == tag then some [] else none
            else if let some c := cur then cur := some (t :: c)
          if let some c := cur then acc := acc ++ [c.reverse]
          return acc
        let par := grp 'P'
        let ser := grp 'S'
        let op (t : Nat) : Threads.Op Unit Nat String := fun _ l => (l + 1, (ser.getD t []).getD l "?")
        let maxLen := ser.foldl (fun m l => max m l.length) 0
        let events : List (Nat × Threads.Op Unit Nat String) :=
          (List.range maxLen).flatMap fun k => (List.range n).filterMap fun t => if k < (ser.getD t []).length then some (t, op t) else none
        let fin := Threads.run () (fun _ => (0, [])) events
        par.length == n && ser.length == n && (List.range n).all fun t => (fin t).2.reverse == par.getD t ["??"]
      | _ => false
    return ("OK", pv)
  | "DLFEED", [tpath, fl, maxr, hdrs, bodyPath, cuts, mode, expect, _warm] =>
    -- what the process did before on contexts of their own (`warm=`) plays no part in the model: no state outside the contexts
    handleIO "DLFEED" [tpath, fl, maxr, hdrs, bodyPath, cuts, mode, expect] impl
  | "DLFEED", [tpath, fl, maxr, hdrs, bodyPath, cuts, mode, expect] =>
    -- `<tpath>.before` = the target as it was before the op (the harness writes into tpath)
    let tb ← readFile (tpath ++ ".before")
    let ta ← (do if impl.isSome then readFile tpath else pure [])
    let body ← readFile bodyPath
    match Header.openFile Sha.zckHash tb, maxr.toInt?, (if hdrs == "-" then some [] else (hdrs.splitOn ",").mapM fun t => parseHex (if t == "e" then "-" else t)) with
    | .ok th, some limit, some hlines =>
      let valid0 : List Int := if fl == "-"
        then (Reader.validateChecksums Sha.zckHash tb (Reader.openCtx th)).2.valid.map (fun v => if v == -1 then 0 else v)
        else flagsOf fl
      let hdrLen := th.lead + th.headerLen
      let rchunks : List Range.Chunk := th.chunks.zipIdx.map fun (c, k) => ⟨c.number, c.start, c.compLen, valid0.getD k 0⟩
      let rst := Range.missing hdrLen rchunks limit
      let rtext := if rst.items.isEmpty then "-" else (Range.render rst.items).getD "-"
      let req := rst.index.map (·.1)
      let e : Dl.Env := { H := Sha.zckHash, rx := mkRx (impl.getD []), hdr := th, ridx := Dl.mkRidx rst.index 0 }
      let st0 : Dl.St := { file := tb, pos := hdrLen, valid := valid0 }
      let (hrets, st1) := Dl.feedHdrs e st0 hlines []
      let frags := dlFragments body cuts
      let (brets, st2) := Dl.feed e (mode == "stop") (mode == "clear") st1 frags []
      let out := if st2.ub then "UB" else
        s!"OK flags0={showFlags valid0} range={rtext} req={showNats req} hdr={showNats hrets} body={showNats brets} " ++
        s!"flags={showFlags st2.valid} err={if st2.err then 1 else 0} dl={st2.dlChunkData}:{st2.writeInChunk}:" ++
        s!"{match st2.tgtCheck with | some k => toString k | none => "-"} " ++
        s!"mp={st2.mp.state}:{st2.mp.length}:{match st2.mp.buffer with | some b => b.length | none => 0} ub=0 " ++
        s!"file={PredRead.showBytes st2.file}"
      let pv := impl.map fun i =>
        match i with
        | "OK" :: rest =>
          match kv rest "flags0", kv rest "flags", kv rest "req", kv rest "body", kv rest "ub", kv rest "range" with
          | some f0, some f1, some rq, some br, some ub, some irange =>
            let reqI := if rq == "-" then [] else (rq.splitOn ",").filterMap (·.toNat?)
            let rets := if br == "-" then [] else (br.splitOn ",").filterMap (·.toNat?)
            let accepted := rets.length == frags.length && (rets.zip frags).all fun (r, fr) => r == fr.length
            ub == "0" && PredDl.c05_ok Sha.zckHash tb ta (flagsOf f0) (flagsOf f1) reqI accepted (parseExpect expect irange)
          | _, _, _, _, _, _ => false
        | ["ERR", "range"] => rst.index.isEmpty
        | _ => false
      return (out, pv)
    | _, _, _ => return ("ERR open", impl.map fun i => i == ["ERR", "open"])
  | "UPDATE", [bpath, apath, tpath, maxr, frag, _kill] =>
    -- `<tpath>.before`: the target before the op; `<tpath>.killed`: the target at the kill point (if the kill fired)
    let bB ← readFile bpath
    let aB ← (do if apath == "-" then pure none else let x ← readFile apath; pure (some x))
    let itoks := impl.getD []
    let killed := itoks.any (·.startsWith "killed=")
    let t0 ← readFile (if killed then tpath ++ ".killed" else tpath ++ ".before")
    let ta ← (do if impl.isSome then readFile tpath else pure [])
    let pfx := if killed then "r." else ""
    match maxr.toInt? with
    | some limit =>
      let fr := if frag.startsWith "b" then (frag.drop 1).toString.toNat?.getD 0 else 0
      let o := Update.update Sha.zckHash (mkRx itoks) aB bB t0 limit fr
      let out := s!"OK {showUpd pfx o} len={o.file.length} ub=0 file={PredRead.showBytes o.file}"
      let pv := impl.map fun i =>
        match i with
        | "OK" :: rest =>
          let scanFl := match kv rest (pfx ++ "scan") with
            | some s => (match s.splitOn ":" with | [_, fl] => flagsOf fl | _ => [])
            | none => []
          let reqs := match kv rest (pfx ++ "reqs") with
            | some s => if s == "-" then [] else s.splitOn ";"
            | none => []
          let vd := (kv rest (pfx ++ "vd")).bind (·.toInt?)
          let missing := ((kv rest (pfx ++ "missing")).bind (·.toNat?)).getD 1
          let err := (kv rest (pfx ++ "err")).isSome || (kv rest "ub") != some "0"
          PredUpd.c04_ok Sha.zckHash aB bB t0 scanFl reqs vd missing err ta
        | _ => false
      return (out, pv)
    | none => return ("BADOP", none)
  | "UPDATE", [bpath, apath, tpath, maxr, frag, _kill, drop] =>
    -- `<tpath>.before`: the target before the op; `<tpath>.killed`: the target at the kill point (if the kill fired)
    let bB ← readFile bpath
    let aB ← (do if apath == "-" then pure none else let x ← readFile apath; pure (some x))
    let itoks := impl.getD []
    let killed := itoks.any (·.startsWith "killed=")
    let t0 ← readFile (if killed then tpath ++ ".killed" else tpath ++ ".before")
    let ta ← (do if impl.isSome then readFile tpath else pure [])
    let pfx := if killed then "r." else ""
    match maxr.toInt? with
    | some limit =>
      let fr := if frag.startsWith "b" then (frag.drop 1).toString.toNat?.getD 0 else 0
      let dr : Option (Nat × Nat) := match drop.splitOn ":" with
        | [r, c] => (do some ((← r.toNat?), (← c.toNat?)))
        | _ => none
      let o := Update.update Sha.zckHash (mkRx itoks) aB bB t0 limit fr dr
      let out := s!"OK {showUpd pfx o} len={o.file.length} ub=0 file={PredRead.showBytes o.file}"
      let pv := impl.map fun i =>
        match i with
        | "OK" :: rest =>
          let scanFl := match kv rest (pfx ++ "scan") with
            | some s => (match s.splitOn ":" with | [_, fl] => flagsOf fl | _ => [])
            | none => []
          let reqs := match kv rest (pfx ++ "reqs") with
            | some s => if s == "-" then [] else s.splitOn ";"
            | none => []
          let vd := (kv rest (pfx ++ "vd")).bind (·.toInt?)
          let missing := ((kv rest (pfx ++ "missing")).bind (·.toNat?)).getD 1
          let err := (kv rest (pfx ++ "err")).isSome || (kv rest "ub") != some "0"
          PredUpd.c04_ok Sha.zckHash aB bB t0 scanFl reqs vd missing err ta dr.isNone
        | _ => false
      return (out, pv)
    | none => return ("BADOP", none)
  | "ZCKDL", [bpath, apath, tpath, prepath] =>
    -- a run of the real zckdl binary: judged with C04's predicate on what it requested and left on disk; its libcurl plumbing
    -- and range back-off are not modelled, so the model line is just "OK"
    let bB ← readFile bpath
    let aB ← (do if apath == "-" then pure none else let x ← readFile apath; pure (some x))
    let t0 ← readFile prepath
    let ta ← readFile tpath
    let pv := impl.map fun i =>
      match i with
      | "OK" :: rest =>
        let reqs := match kv rest "reqs" with
          | some s => if s == "-" then [] else s.splitOn ";"
          | none => []
        let ok := kv rest "exit" == some "0"
        PredUpd.c04_ok Sha.zckHash aB bB t0 [] reqs (if ok then some 1 else none) 0 (!ok) ta
      | _ => false
    return ("OK", pv)
  | "META", [path] =>
    let f ← readFile path
    let m := Header.openFile Sha.zckHash f
    let pv := impl.map fun i =>
      match i with
      | "OK" :: rest => PredHdr.c13_ok Sha.zckHash f (some (" ".intercalate rest))
      | ["ERR"] => PredHdr.c13_ok Sha.zckHash f none
      | _ => false
    return (hdrRes m, pv)
  | _, _ => return handle op args impl

partial def loop (hin : IO.FS.Stream) (hout : IO.FS.Stream) : IO Unit := do
  let line ← hin.getLine
  if line.isEmpty then return ()
  let toks := (line.trimAscii.toString.splitOn " ").filter (· != "")
  match toks with
  | id :: op :: rest =>
    let (args, impl) := splitImpl rest
    let (out, p) ← handleIO op args impl
    -- a crash, sanitizer abort or hang of the implementation fails every property
    let p := match impl with
      | some (t :: _) => if t == "CRASH" || t == "HANG" then some false else p
      | _ => p
    hout.putStrLn s!"{id} {out} ||| {propStr p}"
  | _ => pure ()
  loop hin hout

def main (argv : List String) : IO Unit := do
  let hin ← match argv with
    | f :: _ => do let h ← IO.FS.Handle.mk f .read; pure (IO.FS.Stream.ofHandle h)
    | [] => IO.getStdin
  let hout ← match argv with
    | _ :: g :: _ => do let h ← IO.FS.Handle.mk g .write; pure (IO.FS.Stream.ofHandle h)
    | _ => IO.getStdout
  loop hin hout
  hout.flush
