/-
Model of src/lib/io.c under a fault schedule: `read_data` (loops over short reads, retries EINTR),
`write_data` (one retry of the remainder after a short write), `chunks_from_temp`.
Every `read`/`write` system call consumes the next entry of the schedule; an exhausted schedule
means the call behaves normally.  A file behind a descriptor is its bytes and an offset.
-/
import ZckModel.Copy

namespace Zck.IoFault
open Zck

inductive Fault where
  | ok                -- the call does what POSIX says for a healthy file
  | short (n : Nat)   -- it transfers only n bytes (at least 1, at most what was asked for / is there)
  | eintr             -- -1, errno EINTR
  | fail              -- -1, another errno (EIO, ENOSPC ...)
deriving Repr, DecidableEq

structure Fd where
  data : Bytes
  pos  : Nat
deriving Repr, DecidableEq

/-- `read(fd, buf, n)`: result (-1 or count), bytes delivered, descriptor afterwards -/
def sysRead (fd : Fd) (n : Nat) : Fault → Int × Bytes × Fd
  | .ok => let bs := (fd.data.drop fd.pos).take n; (bs.length, bs, { fd with pos := fd.pos + bs.length })
  | .short k =>
    let k := if k = 0 then 1 else k
    let bs := (fd.data.drop fd.pos).take (min k n); (bs.length, bs, { fd with pos := fd.pos + bs.length })
  | .eintr => (-1, [], fd)
  | .fail => (-1, [], fd)

/-- `write(fd, buf, n)`: result and descriptor afterwards -/
def sysWrite (fd : Fd) (bs : Bytes) : Fault → Int × Fd
  | .ok => (bs.length, { data := Copy.writeAt fd.data fd.pos bs, pos := fd.pos + bs.length })
  | .short k =>
    let k := if k = 0 then 1 else k
    let part := bs.take (min k bs.length)
    (part.length, { data := Copy.writeAt fd.data fd.pos part, pos := fd.pos + part.length })
  | .eintr => (-1, fd)
  | .fail => (-1, fd)

def nextFault : List Fault → Fault × List Fault
  | [] => (.ok, [])
  | f :: fs => (f, fs)

/-- `read_data(zck, data, length)`: returns (-1 | total), the bytes read, the descriptor, the rest
of the schedule.  `fuel` bounds the number of system calls (a schedule of endless EINTRs would
spin in C as well). -/
def readData : Nat → Fd → Nat → List Fault → Bytes → Int × Bytes × Fd × List Fault
  | 0, fd, _, sch, acc => (acc.length, acc, fd, sch)
  | fuel + 1, fd, want, sch, acc =>
    if want = 0 then (acc.length, acc, fd, sch) else
    let (f, sch') := nextFault sch
    let (r, bs, fd') := sysRead fd want f
    if r = -1 then
      if f = .eintr then readData fuel fd' want sch' acc      -- errno == EINTR: continue
      else (-1, acc, fd', sch')                                -- set_error, return -1
    else if bs.length = 0 then (acc.length, acc, fd', sch')    -- end of file
    else readData fuel fd' (want - bs.length) sch' (acc ++ bs)

/-- `write_data(zck, fd, data, length)`: true/false, descriptor, rest of the schedule -/
def writeData (fd : Fd) (bs : Bytes) (sch : List Fault) : Bool × Fd × List Fault :=
  if bs.isEmpty then (true, fd, sch) else
  let (f1, sch1) := nextFault sch
  let (r1, fd1) := sysWrite fd bs f1
  if r1 = -1 then (false, fd1, sch1)                          -- fatal "Error writing data"
  else if r1.toNat < bs.length then
    -- one more attempt with the remainder
    let rest := bs.drop r1.toNat
    let (f2, sch2) := nextFault sch1
    let (r2, fd2) := sysWrite fd1 rest f2
    if r2 = -1 then (false, fd2, sch2)
    else if r2.toNat < rest.length then (false, fd2, sch2)    -- "Short write (after two attempts)"
    else (true, fd2, sch2)
  else (true, fd1, sch1)

/-- the loop of `chunks_from_temp`: `while((n = read(temp, buf, BUF_SIZE)) > 0) write_data(out, buf, n)` -/
def tempLoop : Nat → Fd → Fd → List Fault → Bool × Fd × List Fault
  | 0, _, out, sch => (false, out, sch)
  | fuel + 1, tmp, out, sch =>
    let (f, sch1) := nextFault sch
    let (r, bs, tmp') := sysRead tmp Copy.BUF f
    if r = -1 then (false, out, sch1)
    else if bs.length = 0 then (true, out, sch1)
    else
      let (ok, out', sch2) := writeData out bs sch1
      if ok then tempLoop fuel tmp' out' sch2 else (false, out', sch2)

/-- `chunks_from_temp`: seek the temp file to 0 (a system call too), copy it to the output -/
def chunksFromTemp (tmp out : Fd) (sch : List Fault) : Bool × Fd × List Fault :=
  let (f, sch1) := nextFault sch
  if f = .eintr ∨ f = .fail then (false, out, sch1)          -- lseek(temp_fd, 0, SEEK_SET) == -1
  else tempLoop (tmp.data.length + sch1.length + 2) { tmp with pos := 0 } out sch1

end Zck.IoFault
