/-
Base definitions shared by every model: bytes, bounds-checked memory, result type.
Core Lean only (no Mathlib), so that the driver links as a native executable.
-/
namespace Zck

abbrev Bytes := List UInt8

/-- Result of a modelled C function.  `oob` is an out-of-bounds read of a C buffer at the
given index (the model never hides it behind a default value); `err` is the C function's
ordinary failure return. -/
inductive Res (α : Type) where
  | ok (a : α)
  | err
  | oob (i : Nat)
deriving Repr, DecidableEq

namespace Res
def isOob {α} : Res α → Bool
  | .oob _ => true
  | _ => false
end Res

/-- closes goals of the form `Res.x = Res.y` whose content is linear arithmetic -/
macro "res_omega" : tactic => `(tactic| first
  | omega
  | (simp only [Res.ok.injEq, Prod.mk.injEq, reduceCtorEq, and_true, true_and]; done)
  | (simp only [Res.ok.injEq, Prod.mk.injEq, reduceCtorEq, and_true, true_and] <;> omega))

def two64 : Nat := 18446744073709551616
@[simp] theorem two64_eq : two64 = 2^64 := by decide

end Zck
