/-
Base definitions shared by every model: bytes, bounds-checked memory, result type.
Core Lean only (no Mathlib), so that the driver links as a native executable.
-/
namespace Zck

abbrev Bytes := List UInt8

/-- Result of a modelled C function.  `oob` is an out-of-bounds read of a C buffer at the
given index (the model never hides it behind a default value); `err` is the C function's
ordinary failure return. -/
inductive Res (α : Type) where
  | ok (a : α)
  | err
  | oob (i : Nat)
deriving Repr, DecidableEq

namespace Res
def isOob {α} : Res α → Bool
  | .oob _ => true
  | _ => false

/-- sequencing of modelled C calls: the first failure (error return or out-of-bounds read) ends the function -/
def bind {α β} (x : Res α) (f : α → Res β) : Res β :=
  match x with
  | .ok a => f a
  | .err => .err
  | .oob i => .oob i

instance : Monad Res where
  pure := .ok
  bind := Res.bind

/-- the modelled function performed no out-of-bounds read -/
def NoOob {α} (r : Res α) : Prop := ∀ i, r ≠ .oob i

theorem noOob_ok {α} (a : α) : NoOob (Res.ok a) := fun _ h => by cases h
theorem noOob_err {α} : NoOob (Res.err : Res α) := fun _ h => by cases h
theorem noOob_pure {α} (a : α) : NoOob (pure a : Res α) := noOob_ok a

theorem noOob_bind {α β} (x : Res α) (f : α → Res β) (hx : NoOob x)
    (hf : ∀ a, x = .ok a → NoOob (f a)) : NoOob (x >>= f) := by
  intro i
  show Res.bind x f ≠ .oob i
  cases x with
  | ok a => exact hf a rfl i
  | err => intro h; cases h
  | oob j => exact absurd rfl (hx j)

@[simp] theorem bind_ok {α β} (a : α) (f : α → Res β) : (Res.ok a >>= f) = f a := rfl
@[simp] theorem bind_err {α β} (f : α → Res β) : ((Res.err : Res α) >>= f) = .err := rfl
@[simp] theorem bind_oob {α β} (i : Nat) (f : α → Res β) : ((Res.oob i : Res α) >>= f) = .oob i := rfl
@[simp] theorem pure_eq {α} (a : α) : (pure a : Res α) = .ok a := rfl

/-- a successful sequence: both steps succeeded -/
theorem bind_eq_ok {α β} (x : Res α) (f : α → Res β) (b : β) :
    (x >>= f) = .ok b ↔ ∃ a, x = .ok a ∧ f a = .ok b := by
  cases x with
  | ok a => simp
  | err => simp
  | oob j => simp
end Res

/-- closes goals of the form `Res.x = Res.y` whose content is linear arithmetic -/
macro "res_omega" : tactic => `(tactic| first
  | omega
  | (simp only [Res.ok.injEq, Prod.mk.injEq, reduceCtorEq, and_true, true_and]; done)
  | (simp only [Res.ok.injEq, Prod.mk.injEq, reduceCtorEq, and_true, true_and] <;> omega))

def two64 : Nat := 18446744073709551616
@[simp] theorem two64_eq : two64 = 2^64 := by decide

end Zck
