/-
Model of the header reader: `read_lead`, `zck_validate_lead`, `read_header_from_file`,
`read_preface`, `read_index`/`index_read`, `read_sig` (src/lib/header.c, index/index_read.c),
following the C step by step.  The header buffer is `hb` (one C allocation): every read goes
through `rd`/`rdSlice`, which yield `.oob` outside the allocation instead of a default value.
`f` is the file behind the descriptor (a short `read` is the model's short read).
-/
import ZckModel.Compint
import ZckModel.Format

namespace Zck.Header
open Zck Zck.Compint

abbrev HashFn := Format.HashFn

/-- `n` bytes of allocation `m` from `pos` (a `memcpy` source); `.oob` if it leaves the allocation -/
def rdSlice (m : Bytes) (pos n : Nat) : Res Bytes :=
  if pos + n ≤ m.length then .ok ((m.drop pos).take n) else .oob (pos + n)

/-- caller-pinned expectations (`prep_hash_type`, `prep_digest`, `prep_hdr_size`) -/
structure Pins where
  ht     : Option Nat := none
  digest : Option Bytes := none
  len    : Option Nat := none
deriving Repr, DecidableEq

structure Lead where
  detached   : Bool
  hashType   : Nat
  ds         : Nat           -- digest size of the header/data checksum type
  headerLen  : Nat           -- `header_length`
  digestLoc  : Nat           -- `hdr_digest_loc`
  leadSize   : Nat           -- `lead_size`
  bufLen     : Nat           -- `header_size`: bytes of the file held in the header buffer so far
  digest     : Bytes         -- `header_digest`
deriving Repr, DecidableEq

def leadRead : Nat := 5 + 2 * MAXC       -- `int lead = 5 + 2*MAX_COMP_SIZE`

def guard (c : Prop) [Decidable c] : Res Unit := if c then .ok () else .err

/-- `hash_setup`: digest size of a supported checksum type -/
def hsizeRes (t : Nat) : Res Nat :=
  match Format.hsize t with
  | none => .err
  | some ds => .ok ds

/-- `read_lead` -/
def readLead (pins : Pins) (f : Bytes) : Res Lead := do
  -- read_data(zck, header, lead) < lead -> "Short read"
  guard (leadRead ≤ f.length)
  let hb := f.take leadRead
  let magic := hb.take 5
  guard (magic = Format.magicFile ∨ magic = Format.magicDet)
  let detached := decide (magic = Format.magicDet)
  let (ht, n1) ← decInt hb 5 leadRead
  -- prep_hash_type > -1 && prep_hash_type != hash_type
  guard (pins.ht = none ∨ pins.ht = some ht)
  let ds ← hsizeRes ht                          -- hash_setup: unsupported hash type
  let (hlen, n2) ← decSize hb (5 + n1) leadRead
  let loc := 5 + n1 + n2
  -- header = zrealloc(header, length + digest_size); read the part of the digest not yet loaded
  let need := loc + ds
  guard (need ≤ f.length)
  let bufLen := if leadRead < need then need else leadRead
  let dg ← rdSlice (f.take bufLen) loc ds
  guard (pins.digest = none ∨ pins.digest = some dg)
  -- prep_hdr_size > -1 && (size_t)prep_hdr_size != header_length + length   (size_t arithmetic)
  guard (pins.len = none ∨ pins.len = some ((hlen + need) % 2^64))
  pure ⟨detached, ht, ds, hlen, loc, need, bufLen, dg⟩

/-- the bytes the header checksum is computed over -/
def digestInput (f : Bytes) (l : Lead) : Bytes :=
  Format.magicFile ++ (f.take l.digestLoc).drop 5 ++ (f.drop l.leadSize).take l.headerLen

/-- `read_header_from_file`: loads the rest of the header and checks its checksum.
Returns the header buffer (`lead_size + header_length` bytes). -/
def readHeaderFromFile (H : HashFn) (f : Bytes) (l : Lead) : Res Bytes := do
  guard (l.leadSize ≠ 0 ∧ l.headerLen ≠ 0)
  guard (l.leadSize + l.headerLen < 2^64)                  -- "Integer overflow when reading header"
  guard (l.bufLen - l.leadSize ≤ l.headerLen)               -- "Header size is too small for actual data"
  -- read_data(header + loaded, header_length - loaded) must deliver all of it
  guard (l.leadSize + l.headerLen ≤ f.length)
  let hb := f.take (l.leadSize + l.headerLen)
  guard (H l.hashType (digestInput f l) = some l.digest)
  pure hb

structure Pre where
  dataDigest  : Bytes
  flags       : Nat
  compType    : Nat
  indexSize   : Nat
  prefaceSize : Nat
deriving Repr, DecidableEq

/-- the optional-element loop of `read_preface`; `length` is the cursor relative to the header
start `base` (= lead size), `maxLen` = header length -/
def optLoop (hb : Bytes) (base maxLen : Nat) : Nat → Nat → Res Nat
  | 0, length => .ok length
  | n + 1, length => do
    let (_, k1) ← decSize hb (base + length) (base + maxLen)
    let (dsz, k2) ← decSize hb (base + length + k1) (base + maxLen)
    let length := length + k1 + k2
    guard (length ≤ maxLen ∧ dsz ≤ maxLen - length)          -- "Read past end of header"
    optLoop hb base maxLen n (length + dsz)

/-- the optional-elements section of `read_preface` (present only under flag bit 1) -/
def optPart (hb : Bytes) (base maxLen flags length : Nat) : Res Nat :=
  if flags / 2 % 2 = 1 then do
    let (cnt, n3) ← decSize hb (base + length) (base + maxLen)
    -- every element needs at least two bytes: a count larger than the header fails (the model
    -- cuts the loop short here; the C loop reaches the same error after `maxLen` rounds at most)
    guard (cnt ≤ maxLen)
    optLoop hb base maxLen cnt (length + n3)
  else pure length

/-- `read_preface`.  Compressed integers are decoded at `header + length` with limit
`max_length = header_length`, i.e. in the allocation at `lead + length` with limit `lead + max`. -/
def readPreface (hb : Bytes) (l : Lead) : Res Pre := do
  let base := l.leadSize
  let maxLen := l.headerLen
  guard (l.ds ≤ maxLen)                                     -- "Read past end of header"
  let dd ← rdSlice hb base l.ds
  let (flags, n1) ← decSize hb (base + l.ds) (base + maxLen)
  -- check_flags: streams unsupported, bits other than 1,2 unknown
  guard (flags % 2 = 0 ∧ flags < 8)
  let (ct, n2) ← decInt hb (base + l.ds + n1) (base + maxLen)
  guard (ct = 0 ∨ ct = 2)                                   -- set_comp_type
  let length := l.ds + n1 + n2
  let length ← optPart hb base maxLen flags length
  let (isz, n4) ← decInt hb (base + length) (base + maxLen)
  pure ⟨dd, flags, ct, isz, length + n4⟩

structure Idx where
  chunkHashType : Nat
  count         : Nat
  chunks        : List Format.Chunk
  length        : Nat                 -- index.length: sum of stored sizes
deriving Repr, DecidableEq

/-- the uncompressed-source digest of an index entry (present only under flag bit 2), bounds-checked -/
def udPart (hb : Bytes) (base limit cs : Nat) (withU : Bool) (length : Nat) : Res (Option Bytes × Nat) :=
  if withU then do
    guard (base + length + cs ≤ limit)
    let u ← rdSlice hb (base + length) cs
    pure (some u, length + cs)
  else pure (none, length)

/-- the `while(length < size)` loop of `index_read`; positions are in the allocation `hb`,
`base` = start of the index, `limit` = end of the header buffer.  Returns the entries, the final
cursor and the sum of stored sizes. -/
def entryLoop (hb : Bytes) (base size limit cs : Nat) (withU : Bool) (hdrTotal : Nat) :
    Nat → Nat → Nat → Nat → Res (List Format.Chunk × Nat × Nat)
  | 0, length, _, idxLoc => if length < size then .err else .ok ([], length, idxLoc)
  | fuel + 1, length, count, idxLoc =>
    if ¬ (length < size) then .ok ([], length, idxLoc) else do
    guard (base + length + cs ≤ limit)                        -- "Read past end of header"
    let dg ← rdSlice hb (base + length) cs
    let length := length + cs
    let (u, length) ← udPart hb base limit cs withU length
    let (cl, n1) ← decSize hb (base + length) limit
    -- chunk_length > SSIZE_MAX - idx_loc || idx_loc + chunk_length > SSIZE_MAX - (lead + header)
    guard (cl ≤ 2^63 - 1 - idxLoc ∧ idxLoc + cl ≤ 2^63 - 1 - hdrTotal)
    let (ln, n2) ← decSize hb (base + length + n1) limit
    guard (ln ≤ 2^63 - 1)
    let (rest, endLen, total) ←
      entryLoop hb base size limit cs withU hdrTotal fuel (length + n1 + n2) (count + 1) (idxLoc + cl)
    pure (⟨count, dg, u, cl, ln, idxLoc⟩ :: rest, endLen, total)

/-- `read_index` + `index_read` -/
def readIndex (hb : Bytes) (l : Lead) (p : Pre) : Res Idx := do
  let hdrSize := l.leadSize + l.headerLen
  guard (l.leadSize + p.prefaceSize + p.indexSize ≤ hdrSize)
  let base := l.leadSize + p.prefaceSize
  let (cht, n1) ← decInt hb base hdrSize
  let cs ← hsizeRes cht
  let (cnt, n2) ← decSize hb (base + n1) hdrSize
  let (chunks, endLen, total) ←
    entryLoop hb base p.indexSize hdrSize cs (p.flags / 4 % 2 = 1) hdrSize p.indexSize (n1 + n2) 0 0
  guard (endLen = p.indexSize)
  guard (cnt = chunks.length ∧ chunks.length ≠ 0)
  pure ⟨cht, cnt, chunks, total⟩

/-- `read_sig`: signature count must decode and be 0 -/
def readSig (hb : Bytes) (l : Lead) (p : Pre) : Res Unit := do
  let hdrSize := l.leadSize + l.headerLen
  let base := l.leadSize + p.prefaceSize + p.indexSize
  let (sc, _) ← decInt hb base hdrSize
  guard (sc = 0)

/-- what the API reports after a successful open, in the shape of the reference parser's result -/
def info (l : Lead) (p : Pre) (x : Idx) : Format.Hdr :=
  ⟨l.detached, l.hashType, x.chunkHashType, p.flags, p.compType, l.leadSize, l.headerLen, l.digest,
   p.dataDigest, x.count, x.chunks, x.length⟩

/-- `zck_read_header` after a successful `read_lead` -/
def readHeader (H : HashFn) (f : Bytes) (l : Lead) : Res Format.Hdr := do
  let hb ← readHeaderFromFile H f l
  let p ← readPreface hb l
  let x ← readIndex hb l p
  readSig hb l p
  pure (info l p x)

/-- `zck_init_read`: lead then header, no pins -/
def openFile (H : HashFn) (f : Bytes) : Res Format.Hdr := do
  let l ← readLead {} f
  readHeader H f l

end Zck.Header
