/-
Model of the header writer: `index_create` (src/lib/index/index_create.c), `preface_create`, `sig_create`, `lead_create`,
`header_create` (src/lib/header.c) — the bytes `zck_close` puts in front of the chunks, as a function of what the writer knows
at that point: checksum types, flags, compression type, the data checksum and the finished index entries.
-/
import ZckModel.Compint
import ZckModel.Format

namespace Zck.Encode
open Zck Zck.Compint Zck.Format

/-- what `header_create` serialises -/
structure Spec where
  hashType      : Nat
  chunkHashType : Nat
  flags         : Nat          -- `get_flags`: bit 2 = uncompressed-source (streams and optional elements are never written)
  compType      : Nat
  dataDigest    : Bytes
  chunks        : List Chunk   -- digest, udigest, compLen, len of every finished entry (number / start are derived by readers)
deriving Repr

def withU (s : Spec) : Bool := decide (s.flags / 4 % 2 = 1)

/-- one index entry (`index_create` loop body) -/
def encEntry (u : Bool) (c : Chunk) : Bytes :=
  c.digest ++ (if u then c.udigest.getD [] else []) ++ enc c.compLen ++ enc c.len

def encEntries (u : Bool) : List Chunk → Bytes
  | [] => []
  | c :: cs => encEntry u c ++ encEntries u cs

/-- `index_create` -/
def encIndex (s : Spec) : Bytes := enc s.chunkHashType ++ enc s.chunks.length ++ encEntries (withU s) s.chunks

/-- `preface_create` -/
def encPreface (s : Spec) (indexSize : Nat) : Bytes := s.dataDigest ++ enc s.flags ++ enc s.compType ++ enc indexSize

/-- header without the lead: preface, index, signatures (`sig_create`: count 0) -/
def encBody (s : Spec) : Bytes := encPreface s (encIndex s).length ++ encIndex s ++ enc 0

/-- `lead_create` up to the header checksum -/
def encLead0 (s : Spec) : Bytes := magicFile ++ enc s.hashType ++ enc (encBody s).length

/-- `header_create`: the checksum covers the lead up to the checksum and the rest of the header -/
def header (H : HashFn) (s : Spec) : Option Bytes :=
  (H s.hashType (encLead0 s ++ encBody s)).map fun dg => encLead0 s ++ dg ++ encBody s


/-! ### the whole file for the "none" compression backend (`zck_close`: finished chunks, header, body) -/

/-- the index entry `index_finish_chunk` makes for a chunk with stored bytes `st` and content `pl` (no uncompressed-source flag):
an empty chunk gets an all-zero checksum, any other the checksum of its stored bytes -/
def entryFor (H : HashFn) (cht : Nat) (st pl : Bytes) : Option Chunk :=
  if pl.length = 0 then (hsize cht).map fun ds => ⟨0, zeros ds, none, 0, 0, 0⟩
  else (H cht st).map fun d => ⟨0, d, none, st.length, pl.length, 0⟩

/-- what `zck_close` writes for the dictionary (possibly empty) and the finished data chunks when nothing is compressed -/
def closeFileNone (H : HashFn) (ht cht : Nat) (dict : Bytes) (chunks : List Bytes) : Option Bytes := do
  let all := dict :: chunks
  let ents ← all.mapM fun p => entryFor H cht p p
  let dd ← H ht all.flatten
  let hdr ← header H ⟨ht, cht, 0, 0, dd, ents⟩
  some (hdr ++ all.flatten)

/-! ### the whole file for any backend: the compressor is a parameter (`C dict content` = what the backend's `compress` / `end_cchunk`
produce for one chunk; the identity for the "none" backend) -/

/-- stored bytes of a chunk with content `p`: nothing for an empty chunk (nothing is ever handed to the backend), the content itself
for compression type 0 -/
def sto (C : Option Bytes → Bytes → Bytes) (ct : Nat) (d : Option Bytes) (p : Bytes) : Bytes :=
  if p.length = 0 then [] else if ct = 0 then p else C d p

/-- the index entry `index_finish_chunk` makes (`u` = uncompressed-source flag: a second checksum, of `upl` = the content bytes that
went through `comp_write`; the dictionary chunk is written by `comp_init` directly, so for it `upl` is empty) -/
def entryOf (H : HashFn) (cht : Nat) (u : Bool) (st pl upl : Bytes) : Option Chunk :=
  if pl.length = 0 then (hsize cht).map fun ds => ⟨0, zeros ds, if u then some (zeros ds) else none, 0, 0, 0⟩
  else
    match H cht st, (if u then (H cht upl).map some else some none) with
    | some d, some ud => some ⟨0, d, ud, st.length, pl.length, 0⟩
    | _, _ => none

/-- every chunk with its stored form: the dictionary is compressed without a dictionary, the data chunks with it (if not empty) -/
def storedPairs (C : Option Bytes → Bytes → Bytes) (ct : Nat) (dict : Bytes) (chunks : List Bytes) : List (Bytes × Bytes × Bytes) :=
  (sto C ct none dict, dict, []) :: chunks.map fun p => (sto C ct (if dict.length = 0 then none else some dict) p, p, p)

/-- what `zck_close` writes: the data checksum covers the stored bytes (all zeros with the uncompressed-source flag) -/
def closeFile (H : HashFn) (C : Option Bytes → Bytes → Bytes) (ht cht ct : Nat) (u : Bool) (dict : Bytes) (chunks : List Bytes) :
    Option Bytes :=
  let pairs := storedPairs C ct dict chunks
  match pairs.mapM (fun x => entryOf H cht u x.1 x.2.1 x.2.2),
        (if u then (hsize ht).map zeros else H ht (pairs.map (·.1)).flatten) with
  | some ents, some dd =>
    (header H ⟨ht, cht, if u then 4 else 0, ct, dd, ents⟩).map fun hdr => hdr ++ (pairs.map (·.1)).flatten
  | _, _ => none

end Zck.Encode
