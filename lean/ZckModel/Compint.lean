/-
Model of src/lib/compint.c (compressed integers), following the C line by line.
-/
import ZckModel.Base
import ZckModel.Gen.Consts

namespace Zck.Compint

/-- `MAX_COMP_SIZE`, generated from zck_private.h on every run. -/
abbrev MAXC : Nat := Zck.Gen.MAX_COMP_SIZE


/-- `compint_from_size`: little-endian base-128 digits, the last one flagged with +128. -/
def enc (v : Nat) : Bytes :=
  if v < 128 then [UInt8.ofNat (v + 128)]
  else UInt8.ofNat (v % 128) :: enc (v / 128)
termination_by v
decreasing_by omega

/-- `compint_from_int`: negative values are refused. -/
def encInt (v : Int) : Option Bytes :=
  if v < 0 then none else some (enc v.toNat)

/-- The loop of `compint_to_size`.  `m` is the C allocation (`m[i]?` = `none` is an
out-of-bounds read), `pos` is the value of `*length` on entry (the cursor is `buf+pos`),
`maxLen` the `max_length` argument.  State: `count`, `*val`, `old_val`. -/
def decLoop (m : Bytes) (pos maxLen : Nat) (count val old : Nat) : Res (Nat × Nat) :=
  -- if(*length >= max_length) -> "Read past end of header"
  if pos + count ≥ maxLen then .err else
  match m[pos + count]? with
  | none => .oob (pos + count)
  | some b =>
    let done := decide (b.toNat ≥ 128)
    let c := if b.toNat ≥ 128 then b.toNat - 128 else b.toNat
    -- if(count >= MAX_COMP_SIZE || c > (SIZE_MAX >> (7 * count))) -> "Number too large"
    if count ≥ MAXC ∨ c > (2^64 - 1) >>> (7 * count) then .err else
    -- for(f<count) c *= 128;  *val += c;   (size_t arithmetic: modulo 2^64)
    let val' := (val + (c * 128 ^ count) % 2^64) % 2^64
    let count' := count + 1
    if done then .ok (val', count') else
    -- if(count >= MAX_COMP_SIZE || count >= max_length || *val < old_val) -> error
    if _h : count' ≥ MAXC ∨ count' ≥ maxLen ∨ val' < old then .err else
    decLoop m pos maxLen count' val' val'
termination_by MAXC - count
decreasing_by omega

/-- `compint_to_size(zck, &val, buf+pos, &length (= pos), max_length)`:
returns the value and the number of bytes consumed. -/
def decSize (m : Bytes) (pos maxLen : Nat) : Res (Nat × Nat) :=
  decLoop m pos maxLen 0 0 0

/-- `compint_to_int`: `compint_to_size`, then reject anything above `INT_MAX`. -/
def decInt (m : Bytes) (pos maxLen : Nat) : Res (Nat × Nat) :=
  match decSize m pos maxLen with
  | .ok (v, n) => if v > 2147483647 then .err else .ok (v, n)
  | .err => .err
  | .oob i => .oob i

/-- Specification: the exact mathematical value of the first terminated base-128
encoding at the head of `bs`, with its length; `none` if `bs` ends before a terminator. -/
def value : Bytes → Option (Nat × Nat)
  | [] => none
  | b :: rest =>
    if b.toNat ≥ 128 then some (b.toNat - 128, 1)
    else match value rest with
      | none => none
      | some (v, n) => some (b.toNat + 128 * v, n + 1)

end Zck.Compint
