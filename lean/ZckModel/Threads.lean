/-
C19 — model of independent contexts used from different threads.
The world is the process-wide shared storage plus one local state per thread (its `zckCtx`,
`zckDL`, `zckRange` objects and the files it owns).  An operation of thread `t` is a function of
`t`'s local state and of the shared storage, which it may READ; it may write only the locations
in its write footprint.  The footprint of the real library is GENERATED (Gen/Statics.lean).
-/
import ZckModel.Base
import ZckModel.Gen.Statics

namespace Zck.Threads

variable {S L O : Type}

/-- an operation: reads the shared storage and its own local state, produces an output and a new
local state; it does not write shared storage (what `footprint_clean` establishes for the library) -/
abbrev Op (S L O : Type) := S → L → L × O

/-- per-thread state: local state and outputs produced so far (newest first) -/
abbrev Locals (L O : Type) := Nat → L × List O

def stepThread (sh : S) (ls : Locals L O) (t : Nat) (op : Op S L O) : Locals L O :=
  fun u => if u = t then
      let r := op sh (ls t).1
      (r.1, r.2 :: (ls t).2)
    else ls u

/-- an execution: any interleaving of (thread, operation) events -/
def run (sh : S) : Locals L O → List (Nat × Op S L O) → Locals L O
  | ls, [] => ls
  | ls, (t, op) :: rest => run sh (stepThread sh ls t op) rest

/-- the events of thread `t`, in program order -/
def proj (t : Nat) (ev : List (Nat × Op S L O)) : List (Op S L O) :=
  (ev.filter (fun e => e.1 = t)).map (·.2)

/-- running one thread's operations alone -/
def runSeq (sh : S) : L × List O → List (Op S L O) → L × List O
  | st, [] => st
  | st, op :: rest =>
    let r := op sh st.1
    runSeq sh (r.1, r.2 :: st.2) rest

end Zck.Threads
