/-
INDEPENDENT reference parser and decoder, written from zchunk_format.txt only (field order,
`[#]` conditional sections, "unknown flag ⇒ error", stored extents are the running sum of chunk
lengths, SHA-512/128 = first 16 bytes).  Shares with the models of the C code only `Bytes`, the
compressed-integer *specification* (`Compint.value`) and the hash function parameter.
-/
import ZckModel.Compint

namespace Zck.Format
open Zck

/-- digest size per checksum type -/
def hsize : Nat → Option Nat
  | 0 => some 20 | 1 => some 32 | 2 => some 64 | 3 => some 16 | _ => none

abbrev HashFn := Nat → Bytes → Option Bytes

def magicFile : Bytes := [0, 0x5A, 0x43, 0x4B, 0x31]      -- "\0ZCK1"
def magicDet  : Bytes := [0, 0x5A, 0x48, 0x52, 0x31]      -- "\0ZHR1"

/-- one compressed integer at the head of `bs`: at most ten bytes, value below `limit` -/
def ci (bs : Bytes) (limit : Nat) : Option (Nat × Bytes) :=
  match Compint.value bs with
  | some (v, n) => if n ≤ 10 ∧ v < limit then some (v, bs.drop n) else none
  | none => none

/-- `n` bytes at the head of `bs` -/
def takeN (bs : Bytes) (n : Nat) : Option (Bytes × Bytes) :=
  if n ≤ bs.length then some (bs.take n, bs.drop n) else none

structure Chunk where
  number  : Nat
  digest  : Bytes
  udigest : Option Bytes
  compLen : Nat
  len     : Nat
  start   : Nat
deriving Repr, DecidableEq

structure Hdr where
  detached      : Bool
  hashType      : Nat
  chunkHashType : Nat
  flags         : Nat
  compType      : Nat
  lead          : Nat        -- length of the lead
  headerLen     : Nat        -- header size field (excluding the lead)
  headerDigest  : Bytes
  dataDigest    : Bytes
  count         : Nat
  chunks        : List Chunk
  dataLen       : Nat
deriving Repr, DecidableEq

/-- optional elements: `n` times (id, size, data) -/
def skipOpt : Nat → Bytes → Option Bytes
  | 0, bs => some bs
  | n + 1, bs => do
    let (_, r1) ← ci bs (2^64)
    let (sz, r2) ← ci r1 (2^64)
    let (_, r3) ← takeN r2 sz
    skipOpt n r3

/-- the index entries, consuming the index bytes exactly; sizes must fit a signed 64-bit value
(they are reported through `ssize_t`) -/
def entries (fuel : Nat) (cs : Nat) (withU : Bool) (bs : Bytes) (number start : Nat) :
    Option (List Chunk) :=
  match fuel with
  | 0 => if bs.isEmpty then some [] else none
  | fuel + 1 =>
    if bs.isEmpty then some [] else do
      let (dg, r1) ← takeN bs cs
      let (ud, r2) ← if withU then (takeN r1 cs).map (fun p => (some p.1, p.2)) else some (none, r1)
      let (cl, r3) ← ci r2 (2^63)
      let (ln, r4) ← ci r3 (2^63)
      if start + cl ≥ 2^63 then none else
      let rest ← entries fuel cs withU r4 (number + 1) (start + cl)
      some (⟨number, dg, ud, cl, ln, start⟩ :: rest)

/-- parse the header of `f` (a file or a detached header) -/
def parse (H : HashFn) (f : Bytes) : Option Hdr := do
  let (magic, r0) ← takeN f 5
  let det ← if magic == magicFile then some false else if magic == magicDet then some true else none
  let (ht, r1) ← ci r0 (2^31)
  let ds ← hsize ht
  let (hsz, r2) ← ci r1 (2^64)
  let loc := f.length - r2.length
  let (hd, r3) ← takeN r2 ds
  let lead := loc + ds
  let (hdr, _) ← takeN r3 hsz
  -- header checksum: everything from the beginning of the file to the end of the signatures,
  -- ignoring the checksum itself, with the ID forced to "\0ZCK1"
  let sum ← H ht (magicFile ++ (f.take loc).drop 5 ++ hdr)
  if sum != hd then none else
  let (dd, p1) ← takeN hdr ds
  let (flags, p2) ← ci p1 (2^64)
  if flags % 2 = 1 ∨ flags ≥ 8 then none else
  let (ct, p3) ← ci p2 (2^31)
  if ct ≠ 0 ∧ ct ≠ 2 then none else
  let p4 ← if flags / 2 % 2 = 1 then do
      let (n, q) ← ci p3 (2^64)
      if n > p3.length then none else skipOpt n q
    else some p3
  let (isz, p5) ← ci p4 (2^31)
  let (idx, p6) ← takeN p5 isz
  let (cht, i1) ← ci idx (2^31)
  let cs ← hsize cht
  let (cnt, i2) ← ci i1 (2^64)
  let chunks ← entries i2.length cs (flags / 4 % 2 = 1) i2 0 0
  if cnt ≠ chunks.length ∨ cnt = 0 then none else
  let (sc, _) ← ci p6 (2^31)
  if sc ≠ 0 then none else
  let dataLen := match chunks.getLast? with
    | some c => c.start + c.compLen
    | none => 0
  if lead + hsz + dataLen ≥ 2^63 then none else
  some ⟨det, ht, cht, flags, ct, lead, hsz, hd, dd, cnt, chunks, dataLen⟩

/-! ### decoding -/

/-- `decomp stored dict? declared` = the exact decompressed content, or `none` when the stored
bytes are not a valid frame (external codec, a parameter) -/
abbrev Decomp := Bytes → Option Bytes → Option Bytes

def slice (f : Bytes) (off n : Nat) : Option Bytes :=
  if n = 0 then some [] else            -- no bytes are trivially present
  if off + n ≤ f.length then some ((f.drop off).take n) else none

def zeros (n : Nat) : Bytes := List.replicate n 0

/-- stored bytes of a chunk, checked against its index checksum -/
def storedChecked (H : HashFn) (h : Hdr) (f : Bytes) (c : Chunk) : Option Bytes := do
  let st ← slice f (h.lead + h.headerLen + c.start) c.compLen
  let dg ← if c.compLen = 0 then (hsize h.chunkHashType).map zeros else H h.chunkHashType st
  if dg != c.digest then none else some st

/-- plain content of a chunk: verified stored bytes, decompressed to exactly the declared length -/
def plainChecked (H : HashFn) (D : Decomp) (h : Hdr) (f : Bytes) (dict : Option Bytes) (c : Chunk) :
    Option Bytes := do
  let st ← storedChecked H h f c
  if c.len = 0 then (if c.compLen = 0 then some [] else none) else
  let p ← if h.compType = 0 then some st else D st dict
  if p.length ≠ c.len then none else some p

/-- the content found behind a header, whichever identifier it carries: every chunk verified, the whole-data checksum verified (not under
the uncompressed-source flag, as the format says), data chunks concatenated in order -/
def decodeAny (H : HashFn) (D : Decomp) (f : Bytes) : Option Bytes := do
  let h ← parse H f
  let body ← slice f (h.lead + h.headerLen) h.dataLen
  if h.flags / 4 % 2 = 0 then
    let dd ← H h.hashType body
    if dd != h.dataDigest then none
  match h.chunks with
  | [] => none
  | d :: rest =>
    let dictPlain ← plainChecked H D h f none d
    let dict := if d.len = 0 then none else some dictPlain
    let parts ← rest.mapM (plainChecked H D h f dict)
    some parts.flatten

/-- the content of a FILE: a detached header (identifier `\0ZHR1`) has none -/
def decode (H : HashFn) (D : Decomp) (f : Bytes) : Option Bytes := do
  let h ← parse H f
  if h.detached then none else decodeAny H D f

end Zck.Format
