/- Line-protocol helpers for the driver (no proofs here). -/
import ZckModel.Base

namespace Zck.Proto

def hexDigit (c : Char) : Option Nat :=
  if '0' ≤ c ∧ c ≤ '9' then some (c.toNat - '0'.toNat)
  else if 'a' ≤ c ∧ c ≤ 'f' then some (c.toNat - 'a'.toNat + 10)
  else if 'A' ≤ c ∧ c ≤ 'F' then some (c.toNat - 'A'.toNat + 10)
  else none

partial def parseHexAux (cs : List Char) (acc : Array UInt8) : Option (Array UInt8) :=
  match cs with
  | [] => some acc
  | [_] => none
  | a :: b :: rest =>
    match hexDigit a, hexDigit b with
    | some x, some y => parseHexAux rest (acc.push (UInt8.ofNat (x * 16 + y)))
    | _, _ => none

/-- "-" is the empty string -/
def parseHex (s : String) : Option Bytes :=
  if s == "-" then some [] else (parseHexAux s.toList #[]).map (·.toList)

def hexChar (n : Nat) : Char :=
  if n < 10 then Char.ofNat (n + 48) else Char.ofNat (n - 10 + 97)

def toHex (bs : Bytes) : String :=
  if bs.isEmpty then "-" else
  String.ofList (bs.foldr (fun b acc => hexChar (b.toNat / 16) :: hexChar (b.toNat % 16) :: acc) [])

def showRes (r : Res (Nat × Nat)) : String :=
  match r with
  | .ok (v, n) => s!"OK {v} {n}"
  | .err => "ERR"
  | .oob _ => "OOB"

def parseRes (toks : List String) : Option (Res (Nat × Nat)) :=
  match toks with
  | ["OK", v, n] => do some (.ok ((← v.toNat?), (← n.toNat?)))
  | ["ERR"] => some .err
  | ["OOB"] => some (.oob 0)
  | _ => none

end Zck.Proto
