/- Helper lemmas for C18 (the property theorems are in Props/C18.lean). -/
import ZckModel.Sha.Bundled

namespace Zck.Sha

theorem foldBlocks_append (A : Algo) (s : A.St) (a b : Bytes) (n m : Nat)
    (ha : a.length = n * A.bs) :
    foldBlocks A s (a ++ b) (n + m) = foldBlocks A (foldBlocks A s a n) b m := by
  induction n generalizing s a with
  | zero =>
    have : a = [] := List.eq_nil_of_length_eq_zero (by simpa using ha)
    subst this; simp [foldBlocks]
  | succ n ih =>
    have hlen : A.bs ≤ a.length := by rw [ha, Nat.succ_mul]; omega
    rw [show n + 1 + m = (n + m) + 1 by omega]
    simp only [foldBlocks]
    have h1 : (a ++ b).take A.bs = a.take A.bs := by
      rw [List.take_append_of_le_length hlen]
    have h2 : (a ++ b).drop A.bs = a.drop A.bs ++ b := by
      rw [List.drop_append_of_le_length hlen]
    rw [h1, h2]
    apply ih
    rw [List.length_drop, ha, Nat.succ_mul]; omega

theorem foldBlocks_prefix (A : Algo) (s : A.St) (a b : Bytes) (n : Nat)
    (ha : a.length = n * A.bs) :
    foldBlocks A s (a ++ b) n = foldBlocks A s a n := by
  have := foldBlocks_append A s a b n 0 ha
  simpa [foldBlocks] using this

theorem foldBlocks_one (A : Algo) (s : A.St) (a : Bytes) (ha : a.length = A.bs) :
    foldBlocks A s a 1 = A.comp s a := by
  simp only [foldBlocks]
  rw [List.take_of_length_le (by omega)]

/-- what the context holds after the message prefix `p` has been fed -/
def Good (A : Algo) (W : Widths) (c : Ctx A) (p : Bytes) : Prop :=
  c.buf.length < A.bs ∧
  ∃ (bp : Bytes) (n : Nat), p = bp ++ c.buf ∧ bp.length = n * A.bs ∧
    c.h = foldBlocks A A.iv bp n ∧ c.tot = (n * A.bs) % 2 ^ W.totBits

theorem good_init (A : Algo) (W : Widths) : Good A W (Ctx.init A) [] := by
  refine ⟨A.bsPos, [], 0, by simp [Ctx.init], by simp, rfl, by simp [Ctx.init]⟩

theorem update_small (A : Algo) (W : Widths) (c : Ctx A) (msg : Bytes)
    (h : c.buf.length + msg.length < A.bs) :
    update A W c msg = { c with buf := c.buf ++ msg } := by
  unfold update; simp [h]

/-- the message completes the pending block: `first` fills it, `mid` is `nb` whole blocks -/
theorem update_big (A : Algo) (W : Widths) (c : Ctx A) (first mid tail : Bytes) (nb : Nat)
    (h1 : c.buf.length + first.length = A.bs) (h2 : mid.length = nb * A.bs)
    (h3 : tail.length < A.bs) :
    update A W c (first ++ (mid ++ tail)) =
      { h := foldBlocks A (A.comp c.h (c.buf ++ first)) mid nb, buf := tail,
        tot := (c.tot + (nb + 1) * A.bs) % 2 ^ W.totBits } := by
  have hbs := A.bsPos
  have hr : min (first ++ (mid ++ tail)).length (A.bs - c.buf.length) = first.length := by
    simp only [List.length_append]; omega
  have hnb : (mid ++ tail).length / A.bs = nb := by
    simp only [List.length_append, h2]
    rw [Nat.mul_comm, Nat.mul_add_div hbs, Nat.div_eq_of_lt h3]; rfl
  unfold update
  have hbig : ¬ (c.buf.length + (first ++ (mid ++ tail)).length < A.bs) := by
    simp only [List.length_append]; omega
  simp only [hbig, ↓reduceIte, hr, List.take_left', List.drop_left', hnb]
  rw [foldBlocks_prefix A _ mid tail nb h2]
  congr 1
  rw [← h2, List.drop_left' rfl]

theorem good_update (A : Algo) (W : Widths) (c : Ctx A) (p msg : Bytes) (hg : Good A W c p) :
    Good A W (update A W c msg) (p ++ msg) := by
  obtain ⟨hlt, bp, n, hp, hbp, hh, htot⟩ := hg
  have hbs := A.bsPos
  by_cases hsmall : c.buf.length + msg.length < A.bs
  · rw [update_small A W c msg hsmall]
    exact ⟨by simp; omega, bp, n, by simp [hp], hbp, hh, htot⟩
  · -- split the message
    let r := A.bs - c.buf.length
    let sh := msg.drop r
    let nb := sh.length / A.bs
    have hmsg : msg = msg.take r ++ (sh.take (nb * A.bs) ++ sh.drop (nb * A.bs)) := by
      rw [List.take_append_drop, List.take_append_drop]
    have hfl : c.buf.length + (msg.take r).length = A.bs := by
      simp only [List.length_take]; omega
    have hle : nb * A.bs ≤ sh.length := Nat.div_mul_le_self _ _
    have hml : (sh.take (nb * A.bs)).length = nb * A.bs := by
      rw [List.length_take]; exact Nat.min_eq_left hle
    have htl : (sh.drop (nb * A.bs)).length < A.bs := by
      rw [List.length_drop]
      have h2 := Nat.div_add_mod sh.length A.bs
      have h3 := Nat.mod_lt sh.length hbs
      have : A.bs * (sh.length / A.bs) = nb * A.bs := Nat.mul_comm _ _
      omega
    rw [hmsg, update_big A W c _ _ _ nb hfl hml htl]
    refine ⟨htl, bp ++ (c.buf ++ msg.take r) ++ sh.take (nb * A.bs), n + 1 + nb, ?_, ?_, ?_, ?_⟩
    · simp only [hp, List.append_assoc]
    · have e1 : (bp ++ (c.buf ++ msg.take r) ++ sh.take (nb * A.bs)).length
          = n * A.bs + A.bs + nb * A.bs := by
        simp only [List.length_append, hbp, hml]; omega
      rw [e1]; simp only [Nat.add_mul, Nat.one_mul]
    · simp only
      have hf : (c.buf ++ msg.take r).length = 1 * A.bs := by simpa using hfl
      rw [List.append_assoc, Nat.add_assoc, foldBlocks_append A A.iv bp _ n _ hbp, ← hh,
        foldBlocks_append A c.h _ _ 1 _ hf, foldBlocks_one A c.h _ (by simpa using hfl)]
    · simp only
      rw [htot, Nat.mod_add_mod, ← Nat.add_mul]
      congr 2; omega

theorem good_foldl (A : Algo) (W : Widths) (segs : List Bytes) (c : Ctx A) (p : Bytes)
    (hg : Good A W c p) : Good A W (segs.foldl (update A W) c) (p ++ segs.flatten) := by
  induction segs generalizing c p with
  | nil => simpa using hg
  | cons s rest ih =>
    simp only [List.foldl_cons, List.flatten_cons]
    rw [← List.append_assoc]
    exact ih _ _ (good_update A W c p s hg)

/-! ### big-endian fields -/

theorem beBytes_length (n k : Nat) : (beBytes n k).length = k := by
  induction k with
  | zero => rfl
  | succ k ih => simp [beBytes, ih]

theorem beBytes_small (n k j : Nat) (h : n < 256 ^ k) :
    beBytes n (k + j) = List.replicate j 0 ++ beBytes n k := by
  induction j with
  | zero => simp
  | succ j ih =>
    rw [show k + (j + 1) = (k + j) + 1 by omega]
    simp only [beBytes, List.replicate_succ, List.cons_append]
    rw [ih]
    congr 1
    have : n / 256 ^ (k + j) = 0 := by
      apply Nat.div_eq_of_lt
      calc n < 256 ^ k := h
        _ ≤ 256 ^ (k + j) := Nat.pow_le_pow_right (by decide) (by omega)
    rw [this]; rfl

end Zck.Sha

namespace Zck.Sha

theorem mod_small_or_wrap (x bs : Nat) (h : x < 2 * bs) (_hbs : 0 < bs) :
    x % bs = if x < bs then x else x - bs := by
  split
  · rename_i h1; exact Nat.mod_eq_of_lt h1
  · rename_i h1
    rw [Nat.mod_eq_sub_mod (by omega)]
    exact Nat.mod_eq_of_lt (by omega)

theorem padZeros_eq (A : Algo) (n len : Nat) (hlen : len < A.bs) (hlb : 1 + A.lb ≤ A.bs) :
    padZeros A (n * A.bs + len) =
      if A.bs - (1 + A.lb) < len then 2 * A.bs - len - 1 - A.lb else A.bs - len - 1 - A.lb := by
  have hbs := A.bsPos
  unfold padZeros
  have e : (n * A.bs + len + 1 + A.lb) % A.bs = (len + 1 + A.lb) % A.bs := by
    rw [show n * A.bs + len + 1 + A.lb = len + 1 + A.lb + n * A.bs by omega, Nat.add_mul_mod_self_right]
  rw [e, mod_small_or_wrap (len + 1 + A.lb) A.bs (by omega) hbs]
  by_cases h1 : len + 1 + A.lb < A.bs
  · rw [if_pos h1, if_neg (by omega)]
    have : A.bs - (len + 1 + A.lb) = A.bs - len - 1 - A.lb := by omega
    rw [this]; exact Nat.mod_eq_of_lt (by omega)
  · rw [if_neg h1]
    by_cases h2 : A.bs - (1 + A.lb) < len
    · rw [if_pos h2]
      have : A.bs - (len + 1 + A.lb - A.bs) = 2 * A.bs - len - 1 - A.lb := by omega
      rw [this]; exact Nat.mod_eq_of_lt (by omega)
    · rw [if_neg h2]
      have : len + 1 + A.lb = A.bs := by omega
      rw [this]; simp; omega

/-- `final` computes the specified digest when the counters have not wrapped -/
theorem final_spec (A : Algo) (W : Widths) (c : Ctx A) (p : Bytes) (hg : Good A W c p)
    (hlb : 1 + A.lb ≤ A.bs) (hfb : W.fieldBytes ≤ A.lb)
    (h1 : 8 * p.length < 2 ^ W.totBits) (h2 : 8 * p.length < 2 ^ W.lenbBits)
    (h3 : 8 * p.length < 256 ^ W.fieldBytes) :
    final A W c = hash A p := by
  obtain ⟨hlt, bp, n, hp, hbp, hh, htot⟩ := hg
  have hbs := A.bsPos
  have hL : p.length = n * A.bs + c.buf.length := by rw [hp, List.length_append, hbp]
  -- the counters hold the exact values
  have htot' : c.tot = n * A.bs := by
    rw [htot]; exact Nat.mod_eq_of_lt (by omega)
  have hsum : 2 ^ W.totBits ≤ 2 ^ (max W.totBits 32) :=
    Nat.pow_le_pow_right (by decide) (Nat.le_max_left _ _)
  have hlenb : (((c.tot + c.buf.length) % 2 ^ (max W.totBits 32)) * 8 % 2 ^ (max W.totBits 32))
      % 2 ^ W.lenbBits = 8 * p.length := by
    have a1 : p.length % 2 ^ (max W.totBits 32) = p.length := Nat.mod_eq_of_lt (by omega)
    have a2 : p.length * 8 % 2 ^ (max W.totBits 32) = p.length * 8 := Nat.mod_eq_of_lt (by omega)
    have a3 : p.length * 8 % 2 ^ W.lenbBits = p.length * 8 := Nat.mod_eq_of_lt (by omega)
    rw [htot', ← hL, a1, a2, a3, Nat.mul_comm]
  have hmodlen : c.buf.length % A.bs = c.buf.length := Nat.mod_eq_of_lt hlt
  -- the padded last part, as the specification writes it
  have hfield : beBytes (8 * p.length) A.lb
      = List.replicate (A.lb - W.fieldBytes) 0 ++ beBytes (8 * p.length) W.fieldBytes := by
    have := beBytes_small (8 * p.length) W.fieldBytes (A.lb - W.fieldBytes) h3
    rwa [show W.fieldBytes + (A.lb - W.fieldBytes) = A.lb by omega] at this
  unfold final hash
  simp only [hlenb, hmodlen]
  -- number of blocks of the tail
  generalize hnb : (if A.bs - (1 + A.lb) < c.buf.length then 2 else 1) = nb
  have hnb12 : nb = 1 ∨ nb = 2 := by split at hnb <;> omega
  have hz : padZeros A p.length + (A.lb - W.fieldBytes) = nb * A.bs - c.buf.length - 1 - W.fieldBytes := by
    rw [hL, padZeros_eq A n c.buf.length hlt hlb]
    split at hnb
    · rename_i hc; rw [if_pos hc]; subst hnb; omega
    · rename_i hc; rw [if_neg hc]; subst hnb; omega
  have hpad : pad A p = bp ++ (c.buf ++ 0x80 ::
      (List.replicate (nb * A.bs - c.buf.length - 1 - W.fieldBytes) 0 ++ beBytes (8 * p.length) W.fieldBytes)) := by
    unfold pad
    rw [hfield, ← List.append_assoc (List.replicate _ 0), List.replicate_append_replicate, hz]
    rw [← List.append_assoc bp, ← hp]
  have hblk : (c.buf ++ 0x80 ::
      (List.replicate (nb * A.bs - c.buf.length - 1 - W.fieldBytes) 0 ++ beBytes (8 * p.length) W.fieldBytes)).length
      = nb * A.bs := by
    simp only [List.length_append, List.length_cons, List.length_replicate, beBytes_length]
    have hge : c.buf.length + 1 + W.fieldBytes ≤ nb * A.bs := by
      split at hnb
      · subst hnb; omega
      · subst hnb; omega
    omega
  rw [hpad]
  have hdiv : (bp ++ (c.buf ++ 0x80 ::
      (List.replicate (nb * A.bs - c.buf.length - 1 - W.fieldBytes) 0 ++ beBytes (8 * p.length) W.fieldBytes))).length / A.bs
      = n + nb := by
    rw [List.length_append, hblk, hbp, ← Nat.add_mul, Nat.mul_div_cancel _ hbs]
  rw [hdiv, foldBlocks_append A A.iv bp _ n nb hbp, ← hh]

end Zck.Sha
