/-
Model of the STREAMING structure of the bundled hash code (src/lib/hash/bundled): the
`sha256_update`/`sha512_update` buffer arithmetic, `sha256_final`/`sha512_final` padding with the
counter and length-field widths GENERATED from the C source, and SHA-1's `SHA1_Update` /
`SHA1_Final` (padding fed through update byte by byte).  The compression function is the
`Algo`'s, so everything here is generic in it.
-/
import ZckModel.Sha.Spec
import ZckModel.Gen.Consts
import ZckModel.Gen.Sha

namespace Zck.Sha

/-- `sha256_ctx` / `sha512_ctx`: `h`, the pending bytes `block[0..len)`, `tot_len` -/
structure Ctx (A : Algo) where
  h   : A.St
  buf : Bytes
  tot : Nat

def Ctx.init (A : Algo) : Ctx A := ⟨A.iv, [], 0⟩

/-- widths of the C integers involved (generated) -/
structure Widths where
  totBits   : Nat      -- 8 * sizeof(ctx->tot_len)
  lenbBits  : Nat      -- 8 * sizeof(len_b) in *_final
  fieldBytes : Nat     -- bytes written by UNPACKnn(len_b, block + pm_len - n)
deriving DecidableEq

/-- `sha256_update` / `sha512_update` -/
def update (A : Algo) (W : Widths) (c : Ctx A) (msg : Bytes) : Ctx A :=
  -- tmp_len = BLOCK_SIZE - ctx->len; rem_len = len < tmp_len ? len : tmp_len
  let rem := min msg.length (A.bs - c.buf.length)
  -- memcpy(&ctx->block[ctx->len], message, rem_len);  if (ctx->len + len < BLOCK_SIZE) { ctx->len += len; return; }
  if c.buf.length + msg.length < A.bs then { c with buf := c.buf ++ msg }
  else
    let shifted := msg.drop rem                      -- shifted_message = message + rem_len
    let nb := shifted.length / A.bs                  -- block_nb = new_len / BLOCK_SIZE
    let h1 := A.comp c.h (c.buf ++ msg.take rem)     -- transf(ctx, ctx->block, 1)
    let h2 := foldBlocks A h1 shifted nb             -- transf(ctx, shifted_message, block_nb)
    { h := h2,
      buf := shifted.drop (nb * A.bs),               -- memcpy(ctx->block, &shifted_message[block_nb << 6], rem_len)
      tot := (c.tot + (nb + 1) * A.bs) % 2 ^ W.totBits }

/-- `sha256_final` / `sha512_final` -/
def final (A : Algo) (W : Widths) (c : Ctx A) : Bytes :=
  -- block_nb = 1 + ((BLOCK_SIZE - (1 + lb)) < (ctx->len % BLOCK_SIZE))
  let nb := if A.bs - (1 + A.lb) < c.buf.length % A.bs then 2 else 1
  -- len_b = (ctx->tot_len + ctx->len) << 3   (usual arithmetic conversions, then the type of len_b)
  let sumBits := max W.totBits 32
  let lenb := (((c.tot + c.buf.length) % 2 ^ sumBits) * 8 % 2 ^ sumBits) % 2 ^ W.lenbBits
  let pm := nb * A.bs
  -- memset(block + len, 0, pm_len - len); block[len] = 0x80; UNPACK(len_b, block + pm_len - fieldBytes)
  let blk := c.buf ++ 0x80 :: (List.replicate (pm - c.buf.length - 1 - W.fieldBytes) 0 ++ beBytes lenb W.fieldBytes)
  A.out (foldBlocks A c.h blk nb)

/-- digest of a message delivered in the given segments -/
def stream (A : Algo) (W : Widths) (segs : List Bytes) : Bytes :=
  final A W (segs.foldl (update A W) (Ctx.init A))

/-! ### SHA-1 (`SHA1_Update`, `SHA1_Final`): `count` is a 64-bit bit counter in two words -/

/-- `SHA1_Update`; `c.tot` is the BYTE count modulo 2^61 (count[1]:count[0] hold bits) -/
def update1 (A : Algo) (c : Ctx A) (msg : Bytes) : Ctx A :=
  -- j = (count[0] >> 3) & 63 is the number of pending bytes, kept as `buf`
  if c.buf.length + msg.length > A.bs - 1 then
    let i := A.bs - c.buf.length
    let h1 := A.comp c.h (c.buf ++ msg.take i)
    let rest := msg.drop i
    let nb := rest.length / A.bs                     -- for ( ; i + 63 < len; i += 64)
    { h := foldBlocks A h1 rest nb, buf := rest.drop (nb * A.bs), tot := (c.tot + msg.length) % 2 ^ 61 }
  else { c with buf := c.buf ++ msg, tot := (c.tot + msg.length) % 2 ^ 61 }

/-- the `while ((count[0] & 504) != 448) SHA1_Update("\0", 1)` loop -/
def pad1Loop (A : Algo) : Nat → Ctx A → Ctx A
  | 0, c => c
  | fuel + 1, c => if c.buf.length % A.bs = A.bs - A.lb then c else pad1Loop A fuel (update1 A c [0])

/-- `SHA1_Final` -/
def final1 (A : Algo) (c : Ctx A) : Bytes :=
  let finalcount := beBytes (8 * c.tot) 8
  let c1 := update1 A c [0x80]
  let c2 := pad1Loop A A.bs c1
  let c3 := update1 A c2 finalcount
  A.out c3.h

def stream1 (A : Algo) (segs : List Bytes) : Bytes :=
  final1 A (segs.foldl (update1 A) (Ctx.init A))

/-- the widths found in /repo's bundled sources on this run -/
def w256 : Widths := ⟨Zck.Gen.SHA256_TOT_BITS, Zck.Gen.SHA256_LENB_BITS, Zck.Gen.SHA256_FIELD_BYTES⟩
def w512 : Widths := ⟨Zck.Gen.SHA512_TOT_BITS, Zck.Gen.SHA512_LENB_BITS, Zck.Gen.SHA512_FIELD_BYTES⟩

/-- the bundled backend's digest per zchunk hash type, for a message delivered in segments -/
def bundledHash (t : Nat) (segs : List Bytes) : Option Bytes :=
  match t with
  | 0 => some (stream1 sha1A segs)
  | 1 => some (stream sha256A w256 segs)
  | 2 => some (stream sha512A w512 segs)
  | 3 => some ((stream sha512A w512 segs).take 16)
  | _ => none

end Zck.Sha
