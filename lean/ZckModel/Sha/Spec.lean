/-
SHA-1, SHA-256, SHA-512 as FIPS 180-4 specifies them (padding, message schedule, compression,
big-endian output), over the generic Merkle–Damgård frame `Algo`.  Executable (used by the
driver as an independent hash) and the specification side of the C18 theorems.
-/
import ZckModel.Base
import ZckModel.Sha.Consts

namespace Zck.Sha

/-- big-endian `k`-byte representation of `n` (mod 256^k) -/
def beBytes (n : Nat) : Nat → Bytes
  | 0 => []
  | k + 1 => UInt8.ofNat (n / 256 ^ k) :: beBytes n k

/-- a hash in the Merkle–Damgård frame -/
structure Algo where
  bs   : Nat                    -- block size in bytes
  lb   : Nat                    -- size of the length field in bytes
  St   : Type
  iv   : St
  comp : St → Bytes → St        -- compression of one block
  out  : St → Bytes
  bsPos : 0 < bs

/-- fold the compression function over the first `n` blocks of `bs` -/
def foldBlocks (A : Algo) (s : A.St) (bytes : Bytes) : Nat → A.St
  | 0 => s
  | n + 1 => foldBlocks A (A.comp s (bytes.take A.bs)) (bytes.drop A.bs) n

/-- number of zero bytes in the padding of a message of `len` bytes -/
def padZeros (A : Algo) (len : Nat) : Nat := (A.bs - (len + 1 + A.lb) % A.bs) % A.bs

def pad (A : Algo) (m : Bytes) : Bytes :=
  m ++ 0x80 :: (List.replicate (padZeros A m.length) 0 ++ beBytes (8 * m.length) A.lb)

/-- the digest of `m` -/
def hash (A : Algo) (m : Bytes) : Bytes :=
  A.out (foldBlocks A A.iv (pad A m) ((pad A m).length / A.bs))

/-! ### words -/

def be32 (l : Bytes) : UInt32 :=
  match l with
  | a :: b :: c :: d :: _ =>
    (a.toUInt32 <<< 24) ||| (b.toUInt32 <<< 16) ||| (c.toUInt32 <<< 8) ||| d.toUInt32
  | _ => 0

def be64 (l : Bytes) : UInt64 :=
  match l with
  | a :: b :: c :: d :: e :: f :: g :: h :: _ =>
    (a.toUInt64 <<< 56) ||| (b.toUInt64 <<< 48) ||| (c.toUInt64 <<< 40) ||| (d.toUInt64 <<< 32) |||
    (e.toUInt64 <<< 24) ||| (f.toUInt64 <<< 16) ||| (g.toUInt64 <<< 8) ||| h.toUInt64
  | _ => 0

def words32 : Nat → Bytes → List UInt32
  | 0, _ => []
  | n + 1, l => be32 l :: words32 n (l.drop 4)

def words64 : Nat → Bytes → List UInt64
  | 0, _ => []
  | n + 1, l => be64 l :: words64 n (l.drop 8)

def unpack32 (x : UInt32) : Bytes :=
  [(x >>> 24).toUInt8, (x >>> 16).toUInt8, (x >>> 8).toUInt8, x.toUInt8]

def unpack64 (x : UInt64) : Bytes :=
  [(x >>> 56).toUInt8, (x >>> 48).toUInt8, (x >>> 40).toUInt8, (x >>> 32).toUInt8,
   (x >>> 24).toUInt8, (x >>> 16).toUInt8, (x >>> 8).toUInt8, x.toUInt8]

def rotr32 (x : UInt32) (n : UInt32) : UInt32 := (x >>> n) ||| (x <<< (32 - n))
def rotl32 (x : UInt32) (n : UInt32) : UInt32 := (x <<< n) ||| (x >>> (32 - n))
def rotr64 (x : UInt64) (n : UInt64) : UInt64 := (x >>> n) ||| (x <<< (64 - n))

/-! ### SHA-256 -/

def sched256 (w : Array UInt32) : Array UInt32 := Id.run do
  let mut w := w
  for j in [16:64] do
    let a := w[j - 2]!; let b := w[j - 15]!
    let s1 := rotr32 a 17 ^^^ rotr32 a 19 ^^^ (a >>> 10)
    let s0 := rotr32 b 7 ^^^ rotr32 b 18 ^^^ (b >>> 3)
    w := w.push (s1 + w[j - 7]! + s0 + w[j - 16]!)
  return w

def comp256 (h : Array UInt32) (blk : Bytes) : Array UInt32 := Id.run do
  let w := sched256 (words32 16 blk).toArray
  let k := k256.toArray
  let mut a := h[0]!; let mut b := h[1]!; let mut c := h[2]!; let mut d := h[3]!
  let mut e := h[4]!; let mut f := h[5]!; let mut g := h[6]!; let mut hh := h[7]!
  for j in [0:64] do
    let t1 := hh + (rotr32 e 6 ^^^ rotr32 e 11 ^^^ rotr32 e 25) + ((e &&& f) ^^^ (~~~e &&& g)) + k[j]! + w[j]!
    let t2 := (rotr32 a 2 ^^^ rotr32 a 13 ^^^ rotr32 a 22) + ((a &&& b) ^^^ (a &&& c) ^^^ (b &&& c))
    hh := g; g := f; f := e; e := d + t1; d := c; c := b; b := a; a := t1 + t2
  return #[h[0]! + a, h[1]! + b, h[2]! + c, h[3]! + d, h[4]! + e, h[5]! + f, h[6]! + g, h[7]! + hh]

def sha256A : Algo where
  bs := 64
  lb := 8
  St := Array UInt32
  iv := iv256.toArray
  comp := comp256
  out := fun h => h.toList.flatMap unpack32
  bsPos := by decide

/-! ### SHA-512 -/

def sched512 (w : Array UInt64) : Array UInt64 := Id.run do
  let mut w := w
  for j in [16:80] do
    let a := w[j - 2]!; let b := w[j - 15]!
    let s1 := rotr64 a 19 ^^^ rotr64 a 61 ^^^ (a >>> 6)
    let s0 := rotr64 b 1 ^^^ rotr64 b 8 ^^^ (b >>> 7)
    w := w.push (s1 + w[j - 7]! + s0 + w[j - 16]!)
  return w

def comp512 (h : Array UInt64) (blk : Bytes) : Array UInt64 := Id.run do
  let w := sched512 (words64 16 blk).toArray
  let k := k512.toArray
  let mut a := h[0]!; let mut b := h[1]!; let mut c := h[2]!; let mut d := h[3]!
  let mut e := h[4]!; let mut f := h[5]!; let mut g := h[6]!; let mut hh := h[7]!
  for j in [0:80] do
    let t1 := hh + (rotr64 e 14 ^^^ rotr64 e 18 ^^^ rotr64 e 41) + ((e &&& f) ^^^ (~~~e &&& g)) + k[j]! + w[j]!
    let t2 := (rotr64 a 28 ^^^ rotr64 a 34 ^^^ rotr64 a 39) + ((a &&& b) ^^^ (a &&& c) ^^^ (b &&& c))
    hh := g; g := f; f := e; e := d + t1; d := c; c := b; b := a; a := t1 + t2
  return #[h[0]! + a, h[1]! + b, h[2]! + c, h[3]! + d, h[4]! + e, h[5]! + f, h[6]! + g, h[7]! + hh]

def sha512A : Algo where
  bs := 128
  lb := 16
  St := Array UInt64
  iv := iv512.toArray
  comp := comp512
  out := fun h => h.toList.flatMap unpack64
  bsPos := by decide

/-! ### SHA-1 -/

def sched1 (w : Array UInt32) : Array UInt32 := Id.run do
  let mut w := w
  for j in [16:80] do
    w := w.push (rotl32 (w[j - 3]! ^^^ w[j - 8]! ^^^ w[j - 14]! ^^^ w[j - 16]!) 1)
  return w

def comp1 (h : Array UInt32) (blk : Bytes) : Array UInt32 := Id.run do
  let w := sched1 (words32 16 blk).toArray
  let k := k1.toArray
  let mut a := h[0]!; let mut b := h[1]!; let mut c := h[2]!; let mut d := h[3]!; let mut e := h[4]!
  for j in [0:80] do
    let f := if j < 20 then (b &&& c) ||| (~~~b &&& d)
             else if j < 40 then b ^^^ c ^^^ d
             else if j < 60 then (b &&& c) ||| (b &&& d) ||| (c &&& d)
             else b ^^^ c ^^^ d
    let t := rotl32 a 5 + f + e + k[j / 20]! + w[j]!
    e := d; d := c; c := rotl32 b 30; b := a; a := t
  return #[h[0]! + a, h[1]! + b, h[2]! + c, h[3]! + d, h[4]! + e]

def sha1A : Algo where
  bs := 64
  lb := 8
  St := Array UInt32
  iv := iv1.toArray
  comp := comp1
  out := fun h => h.toList.flatMap unpack32
  bsPos := by decide

/-- zchunk's hash types: 0 SHA-1, 1 SHA-256, 2 SHA-512, 3 SHA-512/128 (first 16 bytes of SHA-512) -/
def zckHash (t : Nat) (m : Bytes) : Option Bytes :=
  match t with
  | 0 => some (hash sha1A m)
  | 1 => some (hash sha256A m)
  | 2 => some (hash sha512A m)
  | 3 => some ((hash sha512A m).take 16)
  | _ => none

end Zck.Sha
