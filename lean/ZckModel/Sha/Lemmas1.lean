import ZckModel.Sha.Lemmas
namespace Zck.Sha

/-! ### SHA-1: `SHA1_Update` / `SHA1_Final` compute the specified digest -/

/-- what the context holds after the prefix `p` has been fed (counter aside) -/
def GoodHB (A : Algo) (c : Ctx A) (p : Bytes) : Prop :=
  c.buf.length < A.bs ∧ ∃ (bp : Bytes) (n : Nat), p = bp ++ c.buf ∧ bp.length = n * A.bs ∧ c.h = foldBlocks A A.iv bp n

/-- `SHA1_Update` moves the state and the pending bytes exactly as `sha256_update` does; only the counter differs -/
theorem update1_eq (A : Algo) (W : Widths) (c : Ctx A) (msg : Bytes) (hlt : c.buf.length < A.bs) :
    (update1 A c msg).h = (update A W c msg).h ∧ (update1 A c msg).buf = (update A W c msg).buf ∧
    (update1 A c msg).tot = (c.tot + msg.length) % 2 ^ 61 := by
  have hbs := A.bsPos
  unfold update1 update
  by_cases h : c.buf.length + msg.length < A.bs
  · have h' : ¬ (c.buf.length + msg.length > A.bs - 1) := by omega
    simp only [h, h', ↓reduceIte, and_self]
  · have h' : c.buf.length + msg.length > A.bs - 1 := by omega
    have hmin : min msg.length (A.bs - c.buf.length) = A.bs - c.buf.length := by omega
    simp only [h, h', ↓reduceIte, hmin, and_self]

theorem goodHB_update1 (A : Algo) (c : Ctx A) (p msg : Bytes) (hg : GoodHB A c p) : GoodHB A (update1 A c msg) (p ++ msg) := by
  obtain ⟨hlt, bp, n, hp, hbp, hh⟩ := hg
  let W : Widths := ⟨64, 64, 8⟩
  -- borrow the invariant of the SHA-2 update, with its own counter
  have hG : Good A W { c with tot := (n * A.bs) % 2 ^ W.totBits } p := ⟨hlt, bp, n, hp, hbp, hh, rfl⟩
  have hU := good_update A W _ p msg hG
  obtain ⟨e1, e2, _⟩ := update1_eq A W c msg hlt
  have e1' : (update A W { c with tot := (n * A.bs) % 2 ^ W.totBits } msg).h = (update A W c msg).h := by
    unfold update; simp only; split <;> rfl
  have e2' : (update A W { c with tot := (n * A.bs) % 2 ^ W.totBits } msg).buf = (update A W c msg).buf := by
    unfold update; simp only; split <;> rfl
  obtain ⟨u1, bp', n', u2, u3, u4, _⟩ := hU
  rw [e2', ← e2] at u1 u2
  rw [e1', ← e1] at u4
  exact ⟨u1, bp', n', u2, u3, u4⟩

theorem goodHB_foldl (A : Algo) (segs : List Bytes) (c : Ctx A) (p : Bytes) (hg : GoodHB A c p) :
    GoodHB A (segs.foldl (update1 A) c) (p ++ segs.flatten) := by
  induction segs generalizing c p with
  | nil => simpa using hg
  | cons s rest ih =>
    simp only [List.foldl_cons, List.flatten_cons]
    rw [← List.append_assoc]
    exact ih _ _ (goodHB_update1 A c p s hg)

/-- the invariant of the SHA-1 context: state and pending bytes as above, and the byte counter modulo 2^61 -/
def Good1 (A : Algo) (c : Ctx A) (p : Bytes) : Prop := GoodHB A c p ∧ c.tot = p.length % 2 ^ 61

theorem good1_update1 (A : Algo) (c : Ctx A) (p msg : Bytes) (hg : Good1 A c p) : Good1 A (update1 A c msg) (p ++ msg) := by
  refine ⟨goodHB_update1 A c p msg hg.1, ?_⟩
  rw [(update1_eq A ⟨64, 64, 8⟩ c msg hg.1.1).2.2, hg.2, List.length_append, Nat.mod_add_mod]

theorem good1_foldl (A : Algo) (segs : List Bytes) (c : Ctx A) (p : Bytes) (hg : Good1 A c p) :
    Good1 A (segs.foldl (update1 A) c) (p ++ segs.flatten) := by
  induction segs generalizing c p with
  | nil => simpa using hg
  | cons s rest ih =>
    simp only [List.foldl_cons, List.flatten_cons]
    rw [← List.append_assoc]
    exact ih _ _ (good1_update1 A c p s hg)

theorem good1_init (A : Algo) : Good1 A (Ctx.init A) [] :=
  ⟨⟨A.bsPos, [], 0, by simp [Ctx.init], by simp, rfl⟩, by simp [Ctx.init]⟩

/-- pending bytes = message length modulo the block size (for the 64-byte block of SHA-1) -/
theorem buf_len_64 (c : Ctx sha1A) (p : Bytes) (hg : GoodHB sha1A c p) : c.buf.length = p.length % 64 := by
  obtain ⟨hlt, bp, n, hp, hbp, _⟩ := hg
  have h1 : sha1A.bs = 64 := rfl
  rw [h1] at hlt hbp
  have := congrArg List.length hp
  simp only [List.length_append, hbp] at this
  omega

/-- the zero-padding loop of `SHA1_Final`: it feeds zero bytes until 56 bytes are pending -/
theorem pad1Loop_spec : ∀ (fuel : Nat) (c : Ctx sha1A) (p : Bytes), GoodHB sha1A c p → (120 - p.length % 64) % 64 ≤ fuel →
    GoodHB sha1A (pad1Loop sha1A fuel c) (p ++ List.replicate ((120 - p.length % 64) % 64) 0)
  | 0, c, p, hg, hf => by
    have : (120 - p.length % 64) % 64 = 0 := by omega
    rw [this]; simpa [pad1Loop] using hg
  | fuel + 1, c, p, hg, hf => by
    have hb := buf_len_64 c p hg
    have hbs : sha1A.bs = 64 := rfl
    have hlb : sha1A.lb = 8 := rfl
    unfold pad1Loop
    rw [hbs, hlb]
    by_cases h56 : c.buf.length % 64 = 64 - 8
    · rw [if_pos h56]
      have : (120 - p.length % 64) % 64 = 0 := by omega
      rw [this]; simpa using hg
    · rw [if_neg h56]
      have hg' := goodHB_update1 sha1A c p [0] hg
      have hz : (120 - p.length % 64) % 64 = (120 - (p ++ [0]).length % 64) % 64 + 1 := by
        simp only [List.length_append, List.length_cons, List.length_nil]; omega
      have ih := pad1Loop_spec fuel (update1 sha1A c [0]) (p ++ [0]) hg' (by omega)
      rw [hz, List.replicate_succ]
      simpa [List.append_assoc] using ih

/-- `SHA1_Final` computes the specified digest when the byte counter has not wrapped -/
theorem final1_spec (c : Ctx sha1A) (p : Bytes) (hg : Good1 sha1A c p) (hlen : p.length < 2 ^ 61) :
    final1 sha1A c = hash sha1A p := by
  have hbs : sha1A.bs = 64 := rfl
  have hlb : sha1A.lb = 8 := rfl
  have htot : c.tot = p.length := by rw [hg.2]; exact Nat.mod_eq_of_lt hlen
  have g1 := goodHB_update1 sha1A c p [0x80] hg.1
  have g2 := pad1Loop_spec 64 (update1 sha1A c [0x80]) (p ++ [0x80]) g1 (by omega)
  have g3 := goodHB_update1 sha1A _ _ (beBytes (8 * c.tot) 8) g2
  -- what has been fed is the padded message
  have hz : (120 - (p ++ [0x80]).length % 64) % 64 = padZeros sha1A p.length := by
    unfold padZeros; rw [hbs, hlb]
    simp only [List.length_append, List.length_cons, List.length_nil]; omega
  have hq : p ++ [0x80] ++ List.replicate ((120 - (p ++ [0x80]).length % 64) % 64) 0 ++ beBytes (8 * c.tot) 8 = pad sha1A p := by
    unfold pad
    rw [hz, htot, hlb]
    simp [List.append_assoc]
  rw [hq] at g3
  have hpl : (pad sha1A p).length % 64 = 0 := by
    unfold pad padZeros
    rw [hbs, hlb]
    simp only [List.length_append, List.length_cons, List.length_replicate, beBytes_length]
    omega
  have hb := buf_len_64 _ _ g3
  rw [hpl] at hb
  obtain ⟨_, bp, n, hp, hbp, hh⟩ := g3
  have hbuf : (update1 sha1A (pad1Loop sha1A 64 (update1 sha1A c [0x80])) (beBytes (8 * c.tot) 8)).buf = [] :=
    List.eq_nil_of_length_eq_zero hb
  rw [hbuf, List.append_nil] at hp
  unfold final1 hash
  simp only [hbs]
  rw [hh, ← hp]
  have hn : (pad sha1A p).length / 64 = n := by
    rw [hp, hbp, hbs]; exact Nat.mul_div_cancel _ (by decide)
  rw [hn]

/-- **SHA-1: streaming = specification**: `SHA1_Update` over ANY segmentation followed by `SHA1_Final` gives the FIPS 180-4
SHA-1 of the concatenation, for every message shorter than 2^61 bytes -/
theorem stream1_eq_spec (segs : List Bytes) (h : segs.flatten.length < 2 ^ 61) : stream1 sha1A segs = hash sha1A segs.flatten := by
  unfold stream1
  have hg := good1_foldl sha1A segs (Ctx.init sha1A) [] (good1_init sha1A)
  simp only [List.nil_append] at hg
  exact final1_spec _ _ hg h

end Zck.Sha
