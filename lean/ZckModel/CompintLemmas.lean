import ZckModel.Compint
import ZckModel.Pred.C20

namespace Zck.Compint

/-- The model and its theorems are written for the 64-bit `size_t` the constant is generated
for; if the generated value changes this obligation fails. -/
theorem MAXC_eq : MAXC = 10 := by decide
theorem sizeT_is_64 : Zck.Gen.SIZEOF_SIZE_T = 8 ∧ Zck.Gen.SIZEOF_INT = 4 := by decide

theorem window_drop_nil (m : Bytes) (pos maxLen k : Nat) (h : pos + k ≥ maxLen) :
    (window m pos maxLen).drop k = [] := by
  unfold window
  simp only [List.drop_drop, List.drop_eq_nil_iff, List.length_take]
  omega

theorem window_drop_cons (m : Bytes) (pos maxLen k : Nat) (h : pos + k < maxLen)
    (hm : maxLen ≤ m.length) :
    ∃ b, m[pos + k]? = some b ∧ (window m pos maxLen).drop k = b :: (window m pos maxLen).drop (k+1) := by
  have hlt : pos + k < m.length := by omega
  refine ⟨m[pos+k], by simp [hlt], ?_⟩
  unfold window
  simp only [List.drop_drop]
  have h1 : pos + k < (m.take maxLen).length := by simp; omega
  rw [List.drop_eq_getElem_cons h1]
  simp [List.getElem_take]
  omega

theorem shift_bound (count : Nat) (h : count < 10) :
    (2^64 - 1) >>> (7 * count) = 2^(64 - 7*count) - 1 := by
  have : count = 0 ∨ count = 1 ∨ count = 2 ∨ count = 3 ∨ count = 4 ∨ count = 5 ∨ count = 6 ∨
         count = 7 ∨ count = 8 ∨ count = 9 := by omega
  rcases this with h|h|h|h|h|h|h|h|h|h <;> subst h <;> decide

end Zck.Compint

namespace Zck.Compint

/-- what the decoder must return from loop state `(count, val)` according to the spec -/
def specFrom (w : Bytes) (count val : Nat) : Res (Nat × Nat) :=
  match value w with
  | none => .err
  | some (v, n) =>
    if count + n ≤ 10 ∧ val + 128 ^ count * v < 2^64 then .ok (val + 128 ^ count * v, count + n)
    else .err

theorem value_len_pos : ∀ (w : Bytes) (v n : Nat), value w = some (v, n) → 1 ≤ n
  | [], _, _, h => by simp [value] at h
  | b :: rest, v, n, h => by
    unfold value at h
    split at h
    · simp at h; omega
    · split at h
      · simp at h
      · simp at h; omega

theorem byte_lt (b : UInt8) : b.toNat < 256 := UInt8.toNat_lt b

theorem decLoop_spec (m : Bytes) (pos maxLen : Nat) (hm : maxLen ≤ m.length) :
    ∀ (k count val old : Nat), count + k = 10 → count < 10 → val < 128 ^ count → old ≤ val →
      decLoop m pos maxLen count val old = specFrom ((window m pos maxLen).drop count) count val := by
  intro k
  induction k with
  | zero => intro count val old h1 h2; omega
  | succ k ih =>
    intro count val old hk hc hv ho
    rw [decLoop]
    by_cases hend : pos + count ≥ maxLen
    · simp only [hend, ↓reduceIte]
      rw [window_drop_nil m pos maxLen count hend]
      simp [specFrom, value]
    · simp only [hend, ↓reduceIte]
      obtain ⟨b, hb, hw⟩ := window_drop_cons m pos maxLen count (by omega) hm
      rw [hb, hw]
      have hb256 := byte_lt b
      have hMAXC : MAXC = 10 := MAXC_eq
      simp only [hMAXC]
      have hsb := shift_bound count hc
      rw [hsb]
      by_cases hdone : b.toNat ≥ 128
      · -- terminator byte
        simp only [hdone, ↓reduceIte, decide_true, specFrom, value]
        have : count = 0 ∨ count = 1 ∨ count = 2 ∨ count = 3 ∨ count = 4 ∨ count = 5 ∨ count = 6 ∨
           count = 7 ∨ count = 8 ∨ count = 9 := by omega
        rcases this with h|h|h|h|h|h|h|h|h|h <;> subst h <;> simp at hv ⊢ <;> (repeat' split) <;> res_omega
      · -- continuation byte
        have hnd : ¬ (b.toNat ≥ 128) := hdone
        simp only [hnd, ↓reduceIte, decide_false, specFrom, value]
        have hcases : count = 0 ∨ count = 1 ∨ count = 2 ∨ count = 3 ∨ count = 4 ∨ count = 5 ∨
           count = 6 ∨ count = 7 ∨ count = 8 ∨ count = 9 := by omega
        have hV : (val + b.toNat * 128 ^ count % 2 ^ 64) % 2 ^ 64 < 128 ^ (count + 1) := by
          rcases hcases with h|h|h|h|h|h|h|h|h|h <;> subst h <;> simp at hv ⊢ <;> omega
        have hnil : count + 1 ≥ maxLen → value (List.drop (count + 1) (window m pos maxLen)) = none := by
          intro h
          rw [window_drop_nil m pos maxLen (count+1) (by omega)]
          rfl
        by_cases hcond : count + 1 ≥ 10 ∨ count + 1 ≥ maxLen ∨
            (val + b.toNat * 128 ^ count % 2 ^ 64) % 2 ^ 64 < old
        · simp only [hcond, ↓reduceDIte]
          generalize hr : value (List.drop (count + 1) (window m pos maxLen)) = r at hnil ⊢
          rcases r with _ | ⟨v, n⟩
          · simp
          · have hn := value_len_pos _ _ _ hr
            rcases hcases with h|h|h|h|h|h|h|h|h|h <;> subst h <;> simp at hv hcond hnil ⊢ <;>
              (repeat' split) <;> res_omega
        · simp only [hcond, ↓reduceDIte]
          rw [ih (count + 1) _ _ (by omega) (by omega) hV (Nat.le_refl _)]
          unfold specFrom
          generalize hr : value (List.drop (count + 1) (window m pos maxLen)) = r
          rcases r with _ | ⟨v, n⟩
          · simp
          · have hn := value_len_pos _ _ _ hr
            rcases hcases with h|h|h|h|h|h|h|h|h|h <;> subst h <;> simp at hv hcond ⊢ <;>
              (repeat' split) <;> res_omega
