/- Helper lemmas about the writer (chunker) model; property theorems: Props/C01, Props/C16. -/
import ZckModel.Writer

namespace Zck.Writer
open Zck

/-- the length counter is the length of the chunk under construction -/
def Wf (st : St) : Prop := st.curLen = st.curR.length

/-- all bytes accepted so far, in order: finished chunks, then the chunk under construction -/
def content (st : St) : Bytes := st.chunks.flatten ++ st.cur

theorem wf_init : Wf {} := rfl

@[simp] theorem cur_length (st : St) : st.cur.length = st.curR.length := by simp [St.cur]

/-! ### `zck_end_chunk` -/

theorem endChunk_content (cfg : Cfg) (st : St) (force : Bool) : content (endChunk cfg st force) = content st := by
  unfold endChunk content
  split
  · rfl
  · split
    · rfl
    · simp [St.cur]

theorem endChunk_wf (cfg : Cfg) (st : St) (force : Bool) (h : Wf st) : Wf (endChunk cfg st force) := by
  unfold endChunk
  split
  · exact h
  · split
    · exact h
    · rfl

/-- what `zck_end_chunk` appends to the chunk list: nothing, or the chunk under construction -/
theorem endChunk_chunks (cfg : Cfg) (st : St) (force : Bool) :
    (endChunk cfg st force).chunks = st.chunks ∨
    ((endChunk cfg st force).chunks = st.chunks ++ [st.cur] ∧ (endChunk cfg st force).curLen = 0 ∧
     (endChunk cfg st force).curR = [] ∧ (force = true ∨ cfg.chunkMin ≤ st.curLen) ∧ st.curLen ≠ 0) := by
  unfold endChunk
  split
  · left; rfl
  · rename_i h
    split
    · left; rfl
    · rename_i h0
      right
      refine ⟨rfl, rfl, rfl, ?_, h0⟩
      by_cases hf : force = true
      · left; exact hf
      · right
        simp only [hf, Bool.false_eq_true, not_false_eq_true, true_and, Nat.not_lt] at h
        exact h

/-- the chunk list is a pure accumulator of `zck_end_chunk` -/
theorem endChunk_acc (cfg : Cfg) (st : St) (force : Bool) :
    endChunk cfg st force =
      { endChunk cfg { st with chunks := [] } force with
        chunks := st.chunks ++ (endChunk cfg { st with chunks := [] } force).chunks } := by
  unfold endChunk
  simp only
  split
  · simp
  · split
    · simp
    · simp [St.cur]

/-! ### one byte through the automatic branch -/

/-- the chunk list is a pure accumulator of the automatic branch -/
theorem feedAuto_acc (cfg : Cfg) : ∀ (fuel : Nat) (st : St) (b : UInt8),
    feedAuto cfg fuel st b =
      (feedAuto cfg fuel { st with chunks := [] } b).map (fun s => { s with chunks := st.chunks ++ s.chunks })
  | 0, st, b => by simp [feedAuto]
  | fuel + 1, st, b => by
    unfold feedAuto
    simp only
    split
    · split
      · rw [feedAuto_acc cfg fuel { st with buz := _ } b]
      · rw [feedAuto_acc cfg fuel (endChunk cfg { st with buz := _ } false) b]
        conv => rhs; rw [feedAuto_acc cfg fuel (endChunk cfg { st with chunks := [], buz := _ } false) b]
        rw [endChunk_acc cfg { st with buz := _ } false]
        simp only [Option.map_map]
        congr 1
        · funext s; simp [List.append_assoc]
    · simp

/-- bytes are neither lost, duplicated nor reordered by the automatic branch, and the length
counter stays exact -/
theorem feedAuto_content (cfg : Cfg) : ∀ (fuel : Nat) (st st' : St) (b : UInt8), Wf st →
    feedAuto cfg fuel st b = some st' → content st' = content st ++ [b] ∧ Wf st'
  | 0, st, st', b, _, h => by simp [feedAuto] at h
  | fuel + 1, st, st', b, hw, h => by
    unfold feedAuto at h
    simp only at h
    split at h
    · split at h
      · have := feedAuto_content cfg fuel { st with buz := (buzUpdate cfg.W st.buz b).1 } st' b hw h
        exact this
      · have hw' : Wf (endChunk cfg { st with buz := (buzUpdate cfg.W st.buz b).1 } false) :=
          endChunk_wf cfg _ false hw
        have := feedAuto_content cfg fuel _ st' b hw' h
        rw [endChunk_content] at this
        exact this
    · simp only [Option.some.injEq] at h
      subst h
      refine ⟨?_, ?_⟩
      · simp [content, St.cur]
      · unfold Wf at hw ⊢; simp [hw]

/-! ### a whole `zck_write` in automatic mode -/

theorem writeAuto_append (cfg : Cfg) : ∀ (a : Bytes) (st : St) (b : Bytes),
    writeAuto cfg st (a ++ b) = (writeAuto cfg st a).bind (fun s => writeAuto cfg s b)
  | [], st, b => by simp [writeAuto]
  | x :: a, st, b => by
    simp only [List.cons_append, writeAuto]
    cases feedAuto cfg (refeedFuel cfg) st x with
    | none => rfl
    | some s => exact writeAuto_append cfg a s b

theorem writeAuto_content (cfg : Cfg) : ∀ (bs : Bytes) (st st' : St), Wf st →
    writeAuto cfg st bs = some st' → content st' = content st ++ bs ∧ Wf st'
  | [], st, st', hw, h => by
    simp only [writeAuto, Option.some.injEq] at h; subst h; exact ⟨by simp, hw⟩
  | x :: bs, st, st', hw, h => by
    simp only [writeAuto] at h
    cases hf : feedAuto cfg (refeedFuel cfg) st x with
    | none => rw [hf] at h; cases h
    | some s =>
      rw [hf] at h
      obtain ⟨c1, w1⟩ := feedAuto_content cfg _ st s x hw hf
      obtain ⟨c2, w2⟩ := writeAuto_content cfg bs s st' w1 h
      exact ⟨by rw [c2, c1]; simp, w2⟩

theorem writeAuto_acc (cfg : Cfg) : ∀ (bs : Bytes) (st : St),
    writeAuto cfg st bs =
      (writeAuto cfg { st with chunks := [] } bs).map (fun s => { s with chunks := st.chunks ++ s.chunks })
  | [], st => by simp [writeAuto]
  | x :: bs, st => by
    simp only [writeAuto]
    rw [feedAuto_acc cfg _ st x]
    cases feedAuto cfg (refeedFuel cfg) { st with chunks := [] } x with
    | none => rfl
    | some s =>
      simp only [Option.map_some]
      rw [writeAuto_acc cfg bs { s with chunks := st.chunks ++ s.chunks }]
      conv => rhs; rw [writeAuto_acc cfg bs s]
      simp only [Option.map_map]
      congr 1
      funext t; simp [List.append_assoc]

end Zck.Writer

namespace Zck.Writer

/-! ### manual mode -/

/-- limits as `comp_init` leaves them: `0 < max`, `min ≤ max` -/
def Legal (cfg : Cfg) : Prop := 0 < cfg.chunkMax ∧ cfg.chunkMin ≤ cfg.chunkMax

theorem writeManual_content (cfg : Cfg) (hl : Legal cfg) : ∀ (fuel : Nat) (st : St) (bs : Bytes),
    Wf st → st.curLen ≤ cfg.chunkMax → bs.length + (if st.curLen = cfg.chunkMax then 1 else 0) ≤ fuel →
    content (writeManual cfg fuel st bs) = content st ++ bs ∧ Wf (writeManual cfg fuel st bs) ∧
    (writeManual cfg fuel st bs).curLen ≤ cfg.chunkMax
  | 0, st, bs, hw, hle, hf => by
    have hb : bs = [] := List.eq_nil_of_length_eq_zero (by omega)
    subst hb
    simp [writeManual, hw, hle]
  | fuel + 1, st, bs, hw, hle, hf => by
    unfold writeManual
    split
    · rename_i hover
      -- fill the chunk up to the maximum, end it, go on with the rest
      generalize hk : cfg.chunkMax - st.curLen = k
      have hkle : k ≤ bs.length := by omega
      have htl : (bs.take k).length = k := by rw [List.length_take]; omega
      let st1 : St := { st with curR := (bs.take k).reverse ++ st.curR, curLen := st.curLen + (bs.take k).length }
      have hw1 : Wf st1 := by
        show st.curLen + (bs.take k).length = ((bs.take k).reverse ++ st.curR).length
        unfold Wf at hw; simp [hw]; omega
      have hlen1 : st1.curLen = cfg.chunkMax := by show st.curLen + (bs.take k).length = cfg.chunkMax; omega
      have hc1 : content st1 = content st ++ bs.take k := by
        simp [content, St.cur, st1]
      rcases endChunk_chunks cfg st1 false with hc | ⟨hc, hl0, hr0, _, _⟩
      · -- cannot be refused or empty: the chunk holds exactly max >= min > 0 bytes
        exfalso
        have : (endChunk cfg st1 false).chunks ≠ st1.chunks := by
          unfold endChunk
          have h1 : ¬ (¬ (false = true) ∧ st1.curLen < cfg.chunkMin) := by
            rw [hlen1]; have := hl.2; omega
          have h2 : ¬ st1.curLen = 0 := by rw [hlen1]; have := hl.1; omega
          simp only [h1, h2, ↓reduceIte]
          simp
        exact this hc
      · have hw2 := endChunk_wf cfg st1 false hw1
        have hle2 : (endChunk cfg st1 false).curLen ≤ cfg.chunkMax := by rw [hl0]; omega
        have hfuel : (bs.drop k).length + (if (endChunk cfg st1 false).curLen = cfg.chunkMax then 1 else 0) ≤ fuel := by
          rw [hl0, List.length_drop]
          have := hl.1
          split at hf
          · rename_i heq; split <;> omega
          · split <;> omega
        obtain ⟨r1, r2, r3⟩ := writeManual_content cfg hl fuel (endChunk cfg st1 false) (bs.drop k) hw2 hle2 hfuel
        refine ⟨?_, r2, r3⟩
        rw [r1, endChunk_content, hc1, List.append_assoc, List.take_append_drop]
    · rename_i hfit
      refine ⟨?_, ?_, ?_⟩
      · simp [content, St.cur]
      · unfold Wf at hw ⊢; simp [hw]; omega
      · simp only; omega

end Zck.Writer
