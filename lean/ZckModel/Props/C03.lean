/-
C03 — Memory safety and termination on arbitrary file input (PARTIAL).
Proved about the models: the header / index parser (`Header.lean`: read_lead, read_header_from_file,
read_preface with its optional-element loop, read_index / index_read, read_sig) performs no read
outside the buffer it was given, for EVERY byte string and every pin setting, and every model
function is total (accepted by Lean's termination checker; loops with data-dependent length carry
an explicit bound).  Heap lifetime errors, undefined behaviour in unmodelled code and the
libraries underneath are only searched (ASan/UBSan runs), never proved absent.
-/
import ZckModel.HeaderLemmas
import ZckModel.Pin

namespace Zck.C03
open Zck Zck.Header Zck.Res

/-- no out-of-bounds read while opening, whatever the file is -/
theorem open_no_oob (H : HashFn) (f : Bytes) : NoOob (openFile H f) := openFile_noOob H f

/-- no out-of-bounds read in `read_lead` under any pins -/
theorem lead_no_oob (pins : Pins) (f : Bytes) : NoOob (readLead pins f) := readLead_noOob pins f

/-- no out-of-bounds read in `zck_read_header` after any accepted lead -/
theorem header_no_oob (H : HashFn) (f : Bytes) (l : Lead) : NoOob (readHeader H f l) := readHeader_noOob H f l

/-- the optional-element loop cannot move the cursor backwards or past the header: every
accepted element leaves the cursor within the header -/
theorem optLoop_cursor (hb : Bytes) (base maxLen : Nat) : ∀ (n length r : Nat),
    length ≤ maxLen → optLoop hb base maxLen n length = .ok r → length ≤ r ∧ r ≤ maxLen
  | 0, length, r, hl, h => by
    simp only [optLoop, Res.ok.injEq] at h; subst h; exact ⟨Nat.le_refl _, hl⟩
  | n + 1, length, r, hl, h => by
    unfold optLoop at h
    simp only [bind_eq_ok] at h
    obtain ⟨⟨_, k1⟩, _, ⟨dsz, k2⟩, _, _, hg, hrec⟩ := h
    have hgd := guard_ok _ _ hg
    have := optLoop_cursor hb base maxLen n (length + k1 + k2 + dsz) r (by omega) hrec
    omega

end Zck.C03
