/-
C05 — the theorems at the level of the write callback `zck_write_chunk_cb` (`feed`): the single-range path under every
fragmentation (`single_feed_indep`, `single_complete_frags`), and the multipart path from the context the header callback leaves
(boundary known, patterns not compiled yet: `multipart_complete_frags_null`).
-/
import ZckModel.Props.C05MpFrag
namespace Zck.C05
open Zck Zck.Format Zck.Dl Zck.Copy

/-! ### the single-range path at the write callback -/

theorem writeChunkCb_single (e : Env) (s : St) (b : Bytes) (hb : s.boundary = none) :
    writeChunkCb e s b = (if (dlWriteRange e (2 * b.length + 2) s b).1 = 0 then 0 else b.length,
      setDl (s.dlBytes + b.length) (dlWriteRange e (2 * b.length + 2) s b).2) := by
  unfold writeChunkCb
  have h1 : ({ s with dlBytes := s.dlBytes + b.length } : St) = setDl (s.dlBytes + b.length) s := rfl
  simp only [h1]
  rw [hb]
  simp only
  rw [dwr_setDl]

theorem single_feed_steps (e : Env) (stop clear : Bool) : ∀ (fs : List Bytes) (st : St) (n : Nat) (acc : List Nat),
    st.boundary = none → st.err = false → HashInv st → (∀ f ∈ fs, f ≠ []) →
    (dlWriteRange e (2 * fs.flatten.length + 2) st fs.flatten).1 = fs.flatten.length →
    feed e stop clear (setDl n st) fs acc =
      (acc.reverse ++ fs.map List.length,
       if fs = [] then setDl n st else setDl (n + fs.flatten.length) (dlWriteRange e (2 * fs.flatten.length + 2) st fs.flatten).2)
  | [], st, n, acc, _, _, _, _, _ => by simp [feed]
  | f :: fs, st, n, acc, hb, he, hi, hne, ht => by
    have hf : f ≠ [] := hne f List.mem_cons_self
    have hfl : 0 < f.length := List.length_pos_iff.mpr hf
    have hbs : (setDl n st).boundary = none := hb
    unfold feed
    rw [writeChunkCb_single e (setDl n st) f hbs, dwr_setDl]
    simp only [List.flatten_cons] at ht ⊢
    by_cases hfs : fs = []
    · subst hfs
      simp only [List.flatten_nil, List.append_nil] at ht ⊢
      rw [ht]
      simp only [show f.length ≠ 0 by omega, ↓reduceIte, ne_eq, not_true_eq_false, false_and]
      simp [feed]
      rfl
    · have hrne : fs.flatten ≠ [] := by
        cases fs with
        | nil => exact absurd rfl hfs
        | cons g gs =>
          have := hne g (by simp)
          intro h
          simp only [List.flatten_cons, List.append_eq_nil_iff] at h
          exact this h.1
      have hcut := dwr_cut e st f fs.flatten (2 * (f ++ fs.flatten).length + 2) (2 * f.length + 2) (2 * fs.flatten.length + 2) hf hrne he hi
        (Nat.le_refl _) (Nat.le_refl _) (Nat.le_refl _) ht
      rw [hcut.1]
      simp only [show f.length ≠ 0 by omega, ↓reduceIte, ne_eq, not_true_eq_false, false_and]
      have hsd : setDl ((setDl n st).dlBytes + f.length) (setDl n (dlWriteRange e (2 * f.length + 2) st f).2) =
          setDl (n + f.length) (dlWriteRange e (2 * f.length + 2) st f).2 := rfl
      rw [hsd]
      rw [single_feed_steps e stop clear fs (dlWriteRange e (2 * f.length + 2) st f).2 (n + f.length) (f.length :: acc)
        (by rw [dwr_boundary]; exact hb) (dwr_ok_err e _ st f (by rw [hcut.1]; omega)) (hashInv_dwr e _ st f hi)
        (fun g hg => hne g (List.mem_cons_of_mem _ hg)) hcut.2.2.1]
      rw [if_neg hfs, hcut.2.2.2]
      simp [List.append_assoc, Nat.add_assoc]

/-- **C05 (fragmentation independence, single-range path, at the write callback)**: a body that `dl_write_range` takes
completely when it is delivered whole is accepted fragment by fragment under every partition into non-empty callback
invocations, and the context at the end is exactly the one after the single call -/
theorem single_feed_indep (e : Env) (stop clear : Bool) (st : St) (fs : List Bytes)
    (hb : st.boundary = none) (he : st.err = false) (hi : HashInv st) (hne : ∀ f ∈ fs, f ≠ []) (hfs : fs ≠ [])
    (ht : (dlWriteRange e (2 * fs.flatten.length + 2) st fs.flatten).1 = fs.flatten.length) :
    feed e stop clear st fs [] = (fs.map List.length,
      setDl (st.dlBytes + fs.flatten.length) (dlWriteRange e (2 * fs.flatten.length + 2) st fs.flatten).2) := by
  have h := single_feed_steps e stop clear fs st st.dlBytes [] hb he hi hne ht
  have hst : setDl st.dlBytes st = st := rfl
  rw [hst, if_neg hfs] at h
  simpa using h

/-- **C05 (the single-range path, every fragmentation)**: a fresh download context, a request whose entries match the index and
are not yet valid, and the server's stored bytes of exactly the requested chunks in request order, handed to `zck_write_chunk_cb`
in ANY sequence of non-empty fragments: every call is accepted, every requested chunk ends up marked valid, chunks that were
valid stay valid, and each requested extent holds the server's bytes (or a collision of the hash is exhibited). -/
theorem single_complete_frags (e : Env) (hd : Disj e) (stored : Nat → Bytes) (file : Bytes) (valid : List Int) (fs : List Bytes)
    (stop clear : Bool) (hne : e.ridx ≠ []) (hrun : RunIdx 0 e.ridx)
    (hent : ∀ r ∈ e.ridx, EntryOk e stored r ∧ r.tgt < valid.length ∧ valid.getD r.tgt 0 ≠ 1)
    (hnd : (e.ridx.map (·.tgt)).Nodup) (hfs : ∀ f ∈ fs, f ≠ []) (hcat : fs.flatten = payloadOf stored e.ridx) :
    let out := feed e stop clear { file := file, pos := 0, valid := valid } fs []
    out.1 = fs.map List.length ∧ (∀ r ∈ e.ridx, out.2.valid.getD r.tgt 0 = 1) ∧
    (∀ k, valid.getD k 0 = 1 → out.2.valid.getD k 0 = 1) ∧
    (∀ r ∈ e.ridx, ∃ tc, e.hdr.chunks[r.tgt]? = some tc ∧ ChunkOk e out.2.file tc ∧
      (((out.2.file.drop (e.dataOff + tc.start)).take tc.compLen = stored r.tgt) ∨ Collision e.H e.hdr.chunkHashType)) := by
  intro out
  have hc := complete_single e stored file valid (2 * (payloadOf stored e.ridx).length + 2) hne hrun hent hnd (Nat.le_refl _)
  have hcb := complete_single_bytes e hd stored file valid (2 * (payloadOf stored e.ridx).length + 2) hne hrun hent hnd (Nat.le_refl _)
  have hfne : fs ≠ [] := by
    intro h
    rw [h] at hcat
    cases hr : e.ridx with
    | nil => exact hne hr
    | cons rc rest =>
      rw [hr] at hcat hrun
      obtain ⟨⟨tc, _, _, hlen, _⟩, _⟩ := hent rc (by rw [hr]; exact List.mem_cons_self)
      have := congrArg List.length hcat
      simp only [List.flatten_nil, List.length_nil, payloadOf, List.length_append, hlen] at this
      have := hrun.2.1
      omega
  have hf := single_feed_indep e stop clear { file := file, pos := 0, valid := valid } fs rfl rfl (fun h => by simp at h) hfs hfne
    (by rw [hcat]; exact hc.1)
  have hout : out = feed e stop clear { file := file, pos := 0, valid := valid } fs [] := rfl
  rw [hout, hf, hcat]
  exact ⟨rfl, hc.2.1, hc.2.2, hcb⟩

/-! ### the first multipart callback compiles the patterns -/

/-- the context once `gen_regex` has compiled the two patterns for the boundary -/
def compiled (st : St) : St :=
  { st with dlRx := .ok (partPattern (st.boundary.getD [])), endRx := .ok (endPattern (st.boundary.getD [])) }

theorem mpExtract_compile (e : Env) (st : St) (b : Bytes) (he : st.err = false) (hn : st.dlRx = .null)
    (h1 : e.rx.comp (partPattern (st.boundary.getD [])) = true) (h2 : e.rx.comp (endPattern (st.boundary.getD [])) = true) :
    mpExtract e st b = mpExtract e (compiled st) b := by
  unfold mpExtract
  have he' : (compiled st).err = false := he
  rw [he, he']
  simp only [Bool.false_eq_true, ↓reduceIte]
  have hj : mpJoin (compiled st) b = ((mpJoin st b).1, compiled (mpJoin st b).2) := by
    unfold mpJoin
    have hm : (compiled st).mp = st.mp := rfl
    rw [hm]
    cases st.mp.buffer <;> rfl
  rw [hj]
  simp only
  have hjn : (mpJoin st b).2.dlRx = .null := by
    unfold mpJoin; cases st.mp.buffer <;> exact hn
  have hjb : (mpJoin st b).2.boundary = st.boundary := by
    unfold mpJoin; cases st.mp.buffer <;> rfl
  have e1 : mpEnsureRx e (mpJoin st b).2 = (true, compiled (mpJoin st b).2) := by
    unfold mpEnsureRx
    rw [hjn]
    simp only [genRegex, hjb, h1, h2, not_true_eq_false, ↓reduceIte]
    unfold compiled
    rw [hjb]
  have e2 : mpEnsureRx e (compiled (mpJoin st b).2) = (true, compiled (mpJoin st b).2) := by
    unfold mpEnsureRx
    rfl
  rw [e1, e2]

theorem writeChunkCb_compile (e : Env) (st : St) (f : Bytes) (he : st.err = false) (hn : st.dlRx = .null) (hbd : st.boundary.isSome)
    (h1 : e.rx.comp (partPattern (st.boundary.getD [])) = true) (h2 : e.rx.comp (endPattern (st.boundary.getD [])) = true) :
    writeChunkCb e st f = writeChunkCb e (compiled st) f := by
  rw [writeChunkCb_mp e st f hbd, writeChunkCb_mp e (compiled st) f hbd, mpExtract_compile e st f he hn h1 h2]
  rfl

/-- **C05 (the multipart path from the first body byte, every fragmentation)**: as `multipart_complete_frags`, for the context as
the header callback leaves it — boundary known, patterns not yet compiled — when `regcomp` accepts the two patterns built from
the boundary: the first callback compiles them and everything goes as stated there. -/
theorem multipart_complete_frags_null (e : Env) (hd : Disj e) (stored : Nat → Bytes) (st : St) (ps : List Part)
    (gs : List (List RChunk)) (trailer : Bytes) (fs : List Bytes) (stop clear : Bool)
    (hf : Fresh st) (hmp : st.mp = {}) (hn : st.dlRx = .null) (hbd : st.boundary.isSome)
    (h1 : e.rx.comp (partPattern (st.boundary.getD [])) = true) (h2 : e.rx.comp (endPattern (st.boundary.getD [])) = true)
    (hpay : ps.map (·.payload) = gs.map (payloadOf stored)) (hgne : ∀ g ∈ gs, g ≠ []) (hne : gs ≠ [])
    (hridx : e.ridx = gs.flatten) (hrun : RunIdx 0 e.ridx)
    (hent : ∀ r ∈ e.ridx, EntryOk e stored r ∧ r.tgt < st.valid.length ∧ st.valid.getD r.tgt 0 ≠ 1)
    (hnd : (e.ridx.map (·.tgt)).Nodup) (hok : ∀ p ∈ ps, PartOk e.rx (partPattern (st.boundary.getD [])) p) (htr : NoHeader trailer)
    (hfs : ∀ f ∈ fs, f ≠ []) (hcat : fs.flatten = partsBytes ps ++ trailer) :
    let out := feed e stop clear st fs []
    out.1 = fs.map List.length ∧ (∀ r ∈ e.ridx, out.2.valid.getD r.tgt 0 = 1) ∧
    (∀ k, (∀ r ∈ e.ridx, r.tgt ≠ k) → out.2.valid.getD k 0 = st.valid.getD k 0) ∧
    (∀ r ∈ e.ridx, ∃ tc, e.hdr.chunks[r.tgt]? = some tc ∧ ChunkOk e out.2.file tc ∧
      (((out.2.file.drop (e.dataOff + tc.start)).take tc.compLen = stored r.tgt) ∨ Collision e.H e.hdr.chunkHashType)) ∧
    (∀ i, Outside e st.valid i → out.2.file.getD i 0 = st.file.getD i 0) := by
  have hfeed : feed e stop clear st fs [] = feed e stop clear (compiled st) fs [] := by
    cases fs with
    | nil => 
      exfalso
      obtain ⟨hpne, _⟩ := multipart_taken e stored st _ ps gs hf hpay hgne hne hridx hrun hent hnd hok
      cases ps with
      | nil => exact hpne rfl
      | cons p ps' =>
        have := congrArg List.length hcat
        simp [partsBytes_cons, Part.bytes, crlf2] at this
    | cons f fs' =>
      unfold feed
      rw [writeChunkCb_compile e st f hf.err hn hbd h1 h2]
  intro out
  have hout : out = feed e stop clear (compiled st) fs [] := hfeed
  rw [hout]
  exact multipart_complete_frags e hd stored (compiled st) _ ps gs trailer fs stop clear
    ⟨hf.err, hf.wic, hf.tgt, hf.cn, hf.dcd⟩ hmp rfl hbd hpay hgne hne hridx hrun hent hnd hok htr hfs hcat

end Zck.C05
