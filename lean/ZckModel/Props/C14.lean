import ZckModel.Reader
import ZckModel.Pred.Read
namespace Zck.C14
end Zck.C14
