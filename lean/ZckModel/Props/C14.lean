/-
C14 — Random access returns each chunk's exact data regardless of request history.
What is proved about the model of `zck_get_chunk_data` / `zck_get_chunk_comp_data`: every request
re-establishes the reader position state from scratch, so its outcome does not depend on any of
the fields previous requests (or reads) leave behind — the offset, the pending stored bytes, the
position inside the previous chunk, the current chunk, the end-of-data marker, the decoded
buffer, the chunk checksum context.  (Equality of the returned bytes with the chunk's slice of
the content is evaluated against the reference decoder on the implementation, `c14_ok`.)
-/
import ZckModel.ReaderLemmas
import ZckModel.Pred.Read

namespace Zck.C14
open Zck Zck.Format Zck.Reader

/-- forget everything a previous request may have left in the reader position state -/
def forget (c : Ctx) : Ctx :=
  { c with pos := 0, started := true, data := [], dataLoc := 0, dataIdx := none, dataEof := false,
           dc := [], chunkHash := none }

/-- the dictionary is loaded, or the file has none -/
def DictReady (c : Ctx) : Prop :=
  ∀ d, c.hdr.chunks.head? = some d → ¬ (d.len > 0 ∧ c.dict.isNone = true)

/-- **C14 (data requests)**: the result AND the context after a chunk-data request are the same
whatever position state the context was in before: stale `data_eof`, `data_loc`, `data_idx`,
buffers or checksum contexts cannot influence it. -/
theorem getChunkData_history_free (H : HashFn) (D : Decomp) (f : Bytes) (c : Ctx) (k n : Nat)
    (hd : DictReady c) :
    getChunkData H D f c k n = 
      (match getChunkData H D f (forget c) k n with
       | (r, c') => (r, if c.err ∨ (chunkAt c k).isNone ∨ c.hdr.chunks.head?.isNone ∨ ((chunkAt c k).map (·.len)) = some 0
                        then c else c')) := by
  unfold getChunkData
  by_cases he : c.err = true
  · simp [he, forget]
  · have hf : (forget c).err = c.err := rfl
    simp only [he, hf]
    cases hk : chunkAt c k with
    | none =>
      have : chunkAt (forget c) k = none := hk
      simp [this, hk]
    | some ch =>
      have hk' : chunkAt (forget c) k = some ch := hk
      cases hh : c.hdr.chunks.head? with
      | none =>
        have : (forget c).hdr.chunks.head? = none := hh
        simp [hk', this, hh]
      | some d =>
        have hh' : (forget c).hdr.chunks.head? = some d := hh
        have hnd := hd d hh
        simp only [hk', hh', hh, hk]
        by_cases hl : ch.len = 0
        · simp [hl]
        · have hnd' : ¬ (d.len > 0 ∧ (forget c).dict.isNone = true) := hnd
          have hnd2 : ¬ (d.len > 0 ∧ c.dict.isNone = true ∧ d.len ≥ allocLimit) := fun h => hnd ⟨h.1, h.2.1⟩
          have hnd2' : ¬ (d.len > 0 ∧ (forget c).dict.isNone = true ∧ d.len ≥ allocLimit) := hnd2
          simp only [hl, hnd, hnd', hnd2, hnd2', ↓reduceIte, Bool.false_eq_true, false_or, Option.isNone_some,
            Option.map_some, Option.some.injEq, or_self]
          rfl

/-- **C14 (stored-data requests)** do not depend on the position state either -/
theorem getChunkCompData_history_free (f : Bytes) (c : Ctx) (k n : Nat) :
    (getChunkCompData f c k n).1 = (getChunkCompData f (forget c) k n).1 := by
  unfold getChunkCompData
  have hf : (forget c).err = c.err := rfl
  have hk : chunkAt (forget c) k = chunkAt c k := rfl
  have ho : dataOff (forget c) = dataOff c := rfl
  rw [hf, hk, ho]
  split
  · rfl
  · split
    · split <;> rfl
    · rfl

/-- a stored-data request returns exactly the bytes at the chunk's extent (as many as the file has) -/
theorem getChunkCompData_bytes (f : Bytes) (c : Ctx) (k n : Nat) (ch : Chunk)
    (he : c.err = false) (hk : chunkAt c k = some ch) (hl : ch.len ≠ 0) :
    (getChunkCompData f c k n).1.bytes = (f.drop (dataOff c + ch.start)).take n := by
  unfold getChunkCompData
  simp [he, hk, hl, fileRead]

end Zck.C14
