import ZckModel.Update
import ZckModel.Pred.Update
namespace Zck.C04
theorem placeholder_true : True := trivial
end Zck.C04
