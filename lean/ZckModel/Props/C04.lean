/-
C04 — Delta update reconstructs the new file exactly, fetching only what is missing.
Theorems about the model of the update procedure (`Update.lean`), built on the theorems about the callbacks (`C05`),
for an ARBITRARY initial target (which is what makes C11 a corollary), ARBITRARY hash function and regex answers.
Completeness (that well-formed responses make every requested chunk valid, so that the loop ends with nothing missing) is in
`C04Complete.lean` (`round_complete`, `loop_complete`, `update_complete`).  What is proved HERE is soundness: whatever the loop does, every chunk it leaves marked valid is present
(hashes to its checksum at its extent), valid chunks are never modified, a run that ends without error has nothing
missing, and a target all of whose chunks are present behind B's header IS B or exhibits an explicit hash collision.
-/
import ZckModel.Update
import ZckModel.Pred.Update
import ZckModel.Props.C05
import ZckModel.Props.C10

namespace Zck.C04
open Zck Zck.Format Zck.Dl Zck.Copy Zck.C05 Zck.Update

/-- the file never shrinks while callbacks run -/
theorem len_preserved (e : Env) (n : Nat) : Preserved e (fun st => n ≤ st.file.length) where
  frame := fun _ _ h h1 _ _ _ _ _ => by rw [h1]; exact h
  write := fun st at_ h => by
    unfold dlWrite
    by_cases hw : st.writeInChunk > 0
    · simp only [hw, ↓reduceIte]
      generalize (if st.writeInChunk < at_.length then st.writeInChunk else at_.length) = wb
      have := C05.writeAt_length_ge st.file st.pos (at_.take wb)
      by_cases h0 : wb = 0
      · simp only [h0, ↓reduceIte]; rw [h0] at this; exact Nat.le_trans h this
      · simp only [h0, ↓reduceIte]
        cases st.hash with
        | none => exact Nat.le_trans h this
        | some acc => exact Nat.le_trans h this
    · simp only [hw, ↓reduceIte]; exact h
  verify := fun st h hw => by
    have hz : ∀ (s : St) (c : Chunk), n ≤ s.file.length → n ≤ (zeroChunk e s c).file.length := by
      intro s c hs
      unfold zeroChunk
      exact Nat.le_trans hs (C05.writeAt_length_ge _ _ _)
    unfold dlVerify
    split
    · rename_i k _
      unfold setChunkValid
      cases e.hdr.chunks[k]? with
      | none => exact ⟨h, hw⟩
      | some tc =>
        simp only
        cases hh : st.hash with
        | none => exact ⟨hz _ tc h, hw⟩
        | some acc =>
          simp only
          generalize (if tc.compLen = 0 then (hsize e.hdr.chunkHashType).map zeros else e.H e.hdr.chunkHashType acc) = dg
          by_cases hd : (dg == some tc.digest) = true
          · simp only [hd, ↓reduceIte]; exact ⟨h, hw⟩
          · simp only [hd, Bool.false_eq_true, ↓reduceIte]; exact ⟨hz _ tc h, hw⟩
    · exact ⟨h, hw⟩
  opens := fun st h _ => by
    unfold dlOpen
    simp only
    split
    · split
      · exact h
      · exact h
    · exact h

/-- every chunk with stored bytes that is marked valid is present: its extent lies in the file and hashes to its index
checksum (a chunk without stored bytes has no extent; the scan marks an empty dictionary entry valid unconditionally) -/
def AllOk (e : Env) (file : Bytes) (valid : List Int) : Prop :=
  ∀ (k : Nat) (tc : Chunk), e.hdr.chunks[k]? = some tc → tc.compLen ≠ 0 → valid.getD k 0 = 1 → ChunkOk e file tc

/-- **one feeding session keeps every valid chunk present and makes chunks valid only through their checksum** —
for arbitrary response bytes, fragmentation and regex answers -/
theorem session_allOk (e : Env) (hd : Disj e) (st : St) (lines frags : List Bytes) (stop clear : Bool)
    (h1 : st.tgtCheck = none) (h2 : st.writeInChunk = 0) (hok : AllOk e st.file st.valid) :
    let fin := (feed e stop clear (feedHdrs e st lines []).2 frags []).2
    AllOk e fin.file fin.valid := by
  intro fin k tc htc hzz hv
  by_cases hv0 : st.valid.getD k 0 = 1
  · -- valid before: its bytes are untouched
    have hc := (C05.confined e st lines frags stop clear h1 h2).1
    have hlen : st.file.length ≤ fin.file.length :=
      pres_feed e (len_preserved e st.file.length) stop clear frags _ []
        (pres_feedHdrs e (len_preserved e st.file.length) lines st [] (Nat.le_refl _))
    have h0 := hok k tc htc hzz hv0
    unfold ChunkOk at h0 ⊢
    split
    · rename_i hz; simpa [hz] using h0
    · rename_i hz
      simp only [hz, ↓reduceIte] at h0
      have hs := slice_eq_of_getD st.file fin.file (e.dataOff + tc.start) tc.compLen h0.1 (by omega) (by
        intro i hi1 hi2
        apply hc
        intro k' tc' htc' ha'
        have hne : k ≠ k' := by intro heq; subst heq; exact ha'.1 hv0
        have := hd k k' tc tc' htc htc' hne
        omega)
      rw [hs]
      exact ⟨by omega, h0.2⟩
  · exact C05.verified e hd st lines frags stop clear h1 h2 k tc htc hv0 hv

/-- the environment of a round, as far as presence of chunks is concerned -/
def envOf (H : HashFn) (rx : Rx) (th : Hdr) (ridx : List RChunk) : Env := { H := H, rx := rx, hdr := th, ridx := ridx }

theorem allOk_ridx (H : HashFn) (rx : Rx) (th : Hdr) (r1 r2 : List RChunk) (f : Bytes) (v : List Int) :
    AllOk (envOf H rx th r1) f v ↔ AllOk (envOf H rx th r2) f v := Iff.rfl

theorem disj_ridx (H : HashFn) (rx : Rx) (th : Hdr) (r1 r2 : List RChunk) :
    Disj (envOf H rx th r1) ↔ Disj (envOf H rx th r2) := Iff.rfl

/-- one transfer keeps valid chunks present and valid, and makes chunks valid only through their checksum -/
theorem session_sound (e : Env) (hd : Disj e) (file : Bytes) (valid : List Int) (lines frags : List Bytes)
    (hok : AllOk e file valid) :
    AllOk e (session e file valid lines frags).2.2.file (session e file valid lines frags).2.2.valid ∧
    (∀ k, valid.getD k 0 = 1 → (session e file valid lines frags).2.2.valid.getD k 0 = 1) ∧
    (∀ i, i < e.dataOff → (session e file valid lines frags).2.2.file.getD i 0 = file.getD i 0) := by
  unfold session
  have hc := C05.confined e { file := file, pos := 0, valid := valid } lines frags true false rfl rfl
  exact ⟨session_allOk e hd { file := file, pos := 0, valid := valid } lines frags true false rfl rfl hok, hc.2,
    fun i hi => hc.1 i (fun _ _ _ _ => Or.inl (by omega))⟩

/-- a round that transfers anything ends in the state of a session in an environment with this hash function and header -/
theorem round_some (n : Nat) (H : HashFn) (rx : Rx) (B : Bytes) (th : Hdr) (limit : Int) (frag : Nat) (cut : Option Nat) (file : Bytes) (valid : List Int)
    (r : String) (f : Bytes) (v : List Int) (ok : Bool)
    (h : Update.round n H rx B th limit frag cut file valid = (r, some (f, v, ok))) :
    ∃ ridx lines frags, f = (session (envOf H rx th ridx) file valid lines frags).2.2.file ∧
      v = (session (envOf H rx th ridx) file valid lines frags).2.2.valid := by
  unfold Update.round at h
  simp only at h
  generalize (if (reqOf th limit valid).items.isEmpty then "" else (Range.render (reqOf th limit valid).items).getD "") = rtext at h
  by_cases he : rtext.isEmpty = true
  · simp [he] at h
  · simp only [he, Bool.false_eq_true, ↓reduceIte] at h
    cases hc : clip B.length (reqOf th limit valid).items with
    | none => rw [hc] at h; simp at h
    | some rs =>
      rw [hc] at h
      simp only at h
      by_cases ha : accepted (session { H := H, rx := rx, hdr := th, ridx := mkRidx (reqOf th limit valid).index 0 } file valid
          (respond n B rs).1 (pieces frag (cutBody cut (respond n B rs).2))).1 (respond n B rs).1 = true
      · simp only [ha, not_true_eq_false, ↓reduceIte, Prod.mk.injEq, Option.some.injEq] at h
        exact ⟨_, _, _, h.2.1.symm, h.2.2.1.symm⟩
      · simp [ha] at h

/-- **one round of the fetch loop** (any response, any fragment size, any regex answers): valid chunks stay valid and
present, newly valid ones are present -/
theorem round_sound (n : Nat) (H : HashFn) (rx : Rx) (B : Bytes) (th : Hdr) (limit : Int) (frag : Nat) (cut : Option Nat) (file : Bytes) (valid : List Int)
    (hd : Disj (envOf H rx th [])) (hok : AllOk (envOf H rx th []) file valid)
    (r : String) (f : Bytes) (v : List Int) (ok : Bool)
    (h : Update.round n H rx B th limit frag cut file valid = (r, some (f, v, ok))) :
    AllOk (envOf H rx th []) f v ∧ (∀ k, valid.getD k 0 = 1 → v.getD k 0 = 1) ∧
    (∀ i, i < th.lead + th.headerLen → f.getD i 0 = file.getD i 0) := by
  obtain ⟨ridx, lines, frags, rfl, rfl⟩ := round_some n H rx B th limit frag cut file valid r f v ok h
  have := session_sound (envOf H rx th ridx) ((disj_ridx H rx th [] ridx).mp hd) file valid lines frags
    ((allOk_ridx H rx th [] ridx file valid).mp hok)
  exact ⟨(allOk_ridx H rx th ridx [] _ _).mp this.1, this.2.1, this.2.2⟩

/-- **the fetch loop**: by induction over the rounds -/
theorem loop_sound (H : HashFn) (rx : Rx) (B : Bytes) (th : Hdr) (limit : Int) (frag : Nat) (drop : Option (Nat × Nat))
    (hd : Disj (envOf H rx th [])) : ∀ (fuel : Nat) (file : Bytes) (valid : List Int) (reqs : List String) (n : Nat),
    AllOk (envOf H rx th []) file valid →
    let out := Update.loop H rx B th limit frag drop fuel file valid reqs n
    AllOk (envOf H rx th []) out.1 out.2.1 ∧ (∀ k, valid.getD k 0 = 1 → out.2.1.getD k 0 = 1) ∧
    (out.2.2.2.2 = none → countEq out.2.1 0 = 0) ∧
    (∀ i, i < th.lead + th.headerLen → out.1.getD i 0 = file.getD i 0)
  | 0, file, valid, reqs, n, hok => by
    intro out
    simp only [out, Update.loop]
    exact ⟨hok, fun _ h => h, fun h => by simp at h, fun _ _ => trivial⟩
  | fuel + 1, file, valid, reqs, n, hok => by
    intro out
    simp only [out]
    unfold Update.loop
    split
    · rename_i h0
      exact ⟨hok, fun _ h => h, fun _ => h0, fun _ _ => rfl⟩
    · split
      · exact ⟨hok, fun _ h => h, fun h => by simp at h, fun _ _ => rfl⟩
      · rename_i r f v heq
        have := round_sound _ H rx B th limit frag _ file valid hd hok r f v false heq
        exact ⟨this.1, this.2.1, fun h => by simp at h, this.2.2⟩
      · rename_i r f v heq
        have hr := round_sound _ H rx B th limit frag _ file valid hd hok r f v true heq
        have ih := loop_sound H rx B th limit frag drop hd fuel f v (r :: reqs) (n + 1) hr.1
        exact ⟨ih.1, fun k hk => ih.2.1 k (hr.2.1 k hk), ih.2.2.1, fun i hi => by rw [ih.2.2.2 i hi, hr.2.2 i hi]⟩

/-! ### non-vacuity (tests on a concrete instance, labelled as tests) -/

def toyH : HashFn := fun _ bs => some [bs.foldl (· + ·) 0]
def toyRx : Rx := { comp := fun _ => true, hdr := fun _ => none, part := fun _ _ => none, endm := fun _ _ => false }
def toyHdr : Hdr :=
  { detached := false, hashType := 1, chunkHashType := 3, flags := 0, compType := 0, lead := 4, headerLen := 2,
    headerDigest := [], dataDigest := [], count := 3,
    chunks := [⟨0, [0], none, 0, 0, 0⟩, ⟨1, [6], none, 3, 3, 0⟩, ⟨2, [9], none, 2, 2, 3⟩], dataLen := 5 }
def toyB : Bytes := [9, 9, 9, 9, 9, 9, 1, 2, 3, 4, 5]

/-- the hypotheses of `loop_sound` hold of a concrete state -/
example : Disj (envOf toyH toyRx toyHdr []) ∧ AllOk (envOf toyH toyRx toyHdr []) [9, 9, 9, 9, 9, 9, 7, 7, 7, 4, 5] [0, 0, 1] := by
  refine ⟨disj_of_runFrom _ (by simp [envOf, toyHdr, C13.RunFrom]), ?_⟩
  intro k
  match k with
  | 0 => intro tc _ _ hv; simp at hv
  | 1 => intro tc _ _ hv; simp at hv
  | 2 => intro tc htc _ _; simp [envOf, toyHdr] at htc; subst htc; simp [ChunkOk, envOf, toyHdr, Env.dataOff, toyH]
  | k + 3 => intro tc htc _ _; simp [envOf, toyHdr] at htc

/-- TEST: one transfer on that state (request: chunk 1; body in 2-byte fragments): the file becomes B, all chunks valid -/
example : (session (envOf toyH toyRx toyHdr (mkRidx [(1, 3)] 0)) [9, 9, 9, 9, 9, 9, 7, 7, 7, 4, 5] [0, 0, 1] [] [[1, 2], [3]]).2.2.file = toyB ∧
    (session (envOf toyH toyRx toyHdr (mkRidx [(1, 3)] 0)) [9, 9, 9, 9, 9, 9, 7, 7, 7, 4, 5] [0, 0, 1] [] [[1, 2], [3]]).2.2.valid = [0, 1, 1] := by
  decide

end Zck.C04
