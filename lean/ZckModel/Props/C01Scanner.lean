/-
C01 — the `zck` tool's split-string scanner (src/zck.c, the read loop; model `Tools.zckOps`) hands the library exactly the input:
for EVERY split string, input and cutting of the input into `read(2)` blocks, the bytes of the `zck_write` calls, in order, are the
input (`scanner_preserves`).  The loop invariant (`Inv`) accounts for the partial match: `hp` of its bytes were held back from
earlier blocks (and are written from the split string itself when the match fails or completes), `q` lie in the current block.
With the chunker's termination and the writer's accounting (`Props/C16Term.lean`) the chunks `zck` closes are the input file
(`zck_tool_chunks`), and with `Props/C01Close.lean` what `unzck` reads back is the input.
-/
import ZckModel.Tools
import ZckModel.Props.C16Term

namespace Zck.ToolsP
open Zck Zck.Writer Zck.Tools

/-- bytes handed to the library by calls recorded newest first -/
def wr (ops : List Op) : Bytes := written ops.reverse

theorem written_append : ∀ (a b : List Op), written (a ++ b) = written a ++ written b
  | [], b => rfl
  | .write bs :: a, b => by simp [written, written_append a b]
  | .endChunk :: a, b => by simp [written, written_append a b]

@[simp] theorem wr_write (bs : Bytes) (ops : List Op) : wr (Op.write bs :: ops) = wr ops ++ bs := by
  simp [wr, written_append, written]

@[simp] theorem wr_end (ops : List Op) : wr (Op.endChunk :: ops) = wr ops := by
  simp [wr, written_append, written]

/-- the loop invariant: `P` = the earlier blocks, `hp` bytes of the partial match are held back from them, `q` lie in this block -/
structure Inv (split P data : Bytes) (l start matched : Nat) (ops : List Op) : Prop where
  hl : l ≤ data.length
  hst : start ≤ l
  hm : matched < split.length
  ex : ∃ hp q, matched = hp + q ∧ q ≤ l - start ∧ (0 < hp → start = 0 ∧ q = l) ∧
        wr ops ++ split.take hp ++ (data.take l).drop start = P ++ data.take l ∧
        (data.take l).drop (l - q) = (split.take matched).drop hp

theorem take_succ_getD (data : Bytes) (l : Nat) (h : l < data.length) : data.take (l + 1) = data.take l ++ [data.getD l 0] := by
  rw [List.take_add_one]
  simp [List.getD, List.getElem?_eq_getElem h]

theorem split_take_succ (split : Bytes) (m : Nat) (h : m < split.length) : split.take (m + 1) = split.take m ++ [split.getD m 0] :=
  take_succ_getD split m h


section
variable {split P data : Bytes} {l start matched : Nat} {ops : List Op}

theorem take_len (h : l ≤ data.length) : (data.take l).length = l := by simp [List.length_take, Nat.min_eq_left h]

theorem drop_snoc (T : Bytes) (c : UInt8) (k : Nat) (h : k ≤ T.length) : (T ++ [c]).drop k = T.drop k ++ [c] :=
  List.drop_append_of_le_length h

/-- nothing matched, nothing matches -/
theorem step_none (inv : Inv split P data l start matched ops) (hlt : l < data.length) (h0 : matched = 0) :
    Inv split P data (l + 1) start 0 ops := by
  obtain ⟨hp, q, e1, e2, e3, e4, e5⟩ := inv.ex
  have hp0 : hp = 0 := by omega
  subst hp0
  refine ⟨by omega, by have := inv.hst; omega, by have := inv.hm; omega, 0, 0, rfl, by omega, fun h => absurd h (by omega), ?_, by simp⟩
  rw [take_succ_getD data l hlt, drop_snoc _ _ _ (by rw [take_len inv.hl]; exact inv.hst)]
  simp only [List.take_zero, List.append_nil] at e4 ⊢
  rw [← List.append_assoc, e4, List.append_assoc]

/-- a partial match fails -/
theorem step_mismatch (inv : Inv split P data l start matched ops) (hlt : l < data.length) (hpos : 0 < matched) :
    Inv split P data (l + 1) start 0 (if l < matched then Op.write (split.take (matched - l)) :: ops else ops) := by
  obtain ⟨hp, q, e1, e2, e3, e4, e5⟩ := inv.ex
  have hst := inv.hst
  refine ⟨by omega, by omega, by have := inv.hm; omega, 0, 0, rfl, by omega, fun h => absurd h (by omega), ?_, by simp⟩
  rw [take_succ_getD data l hlt, drop_snoc _ _ _ (by rw [take_len inv.hl]; exact inv.hst)]
  by_cases hpp : 0 < hp
  · obtain ⟨s0, ql⟩ := e3 hpp
    have hlm : l < matched := by omega
    rw [if_pos hlm, wr_write]
    have : matched - l = hp := by omega
    rw [this]
    simp only [List.take_zero, List.append_nil]
    rw [← List.append_assoc, e4, List.append_assoc]
  · have hp0 : hp = 0 := by omega
    subst hp0
    have hlm : ¬ l < matched := by omega
    rw [if_neg hlm]
    simp only [List.take_zero, List.append_nil] at e4 ⊢
    rw [← List.append_assoc, e4, List.append_assoc]

/-- one more byte of the split string -/
theorem step_partial (inv : Inv split P data l start matched ops) (hlt : l < data.length)
    (heq : data.getD l 0 = split.getD matched 0) (hne : matched + 1 ≠ split.length) :
    Inv split P data (l + 1) start (matched + 1) ops := by
  obtain ⟨hp, q, e1, e2, e3, e4, e5⟩ := inv.ex
  have hst := inv.hst
  have hm := inv.hm
  refine ⟨by omega, by omega, by omega, hp, q + 1, by omega, by omega, fun h => by obtain ⟨a, b⟩ := e3 h; exact ⟨a, by omega⟩, ?_, ?_⟩
  · rw [take_succ_getD data l hlt, drop_snoc _ _ _ (by rw [take_len inv.hl]; exact inv.hst)]
    rw [← List.append_assoc, e4, List.append_assoc]
  · rw [take_succ_getD data l hlt, show l + 1 - (q + 1) = l - q by omega, drop_snoc _ _ _ (by rw [take_len inv.hl]; omega), e5,
      split_take_succ split matched hm, heq]
    rw [List.drop_append_of_le_length (by simp [List.length_take]; omega)]


/-- `(data.take l).drop start` = the bytes in front of the match ++ the `q` matched bytes -/
theorem window_split (_hl : l ≤ data.length) (hs : start ≤ l) (q : Nat) (hq : q ≤ l - start) :
    (data.take l).drop start = (data.drop start).take (l - start - q) ++ (data.take l).drop (l - q) := by
  have h1 : (data.take l).drop start = (data.drop start).take (l - start) := by rw [List.drop_take]
  rw [h1]
  have h2 : (data.take l).drop (l - q) = ((data.drop start).take (l - start)).drop (l - start - q) := by
    rw [← h1, List.drop_drop]
    congr 1
    omega
  rw [h2]
  have h3 : (data.drop start).take (l - start - q) = ((data.drop start).take (l - start)).take (l - start - q) := by
    rw [List.take_take, Nat.min_eq_left (by omega)]
  rw [h3, List.take_append_drop]

/-- the split string is complete: queued data, end of chunk, the split string -/
theorem step_full (inv : Inv split P data l start matched ops) (hlt : l < data.length)
    (heq : data.getD l 0 = split.getD matched 0) (hfull : matched + 1 = split.length) :
    Inv split P data (l + 1) (l + 1) 0
      (Op.write split :: Op.endChunk ::
        (if l + 1 > start + (matched + 1) then Op.write ((data.drop start).take (l + 1 - (start + (matched + 1)))) :: ops else ops)) := by
  obtain ⟨hp, q, e1, e2, e3, e4, e5⟩ := inv.ex
  have hst := inv.hst
  have hm := inv.hm
  have hsp : split = split.take matched ++ [split.getD matched 0] := by
    rw [← split_take_succ split matched hm, hfull, List.take_length]
  refine ⟨by omega, by omega, by omega, 0, 0, rfl, by omega, fun h => absurd h (by omega), ?_, by simp⟩
  rw [take_succ_getD data l hlt]
  have hdrop : (data.take l ++ [data.getD l 0]).drop (l + 1) = [] := by
    apply List.drop_eq_nil_of_le
    simp [take_len inv.hl]
  rw [hdrop]
  simp only [List.take_zero, List.append_nil, wr_write, wr_end]
  by_cases hpp : 0 < hp
  · obtain ⟨s0, ql⟩ := e3 hpp
    subst s0
    have hc : ¬ (l + 1 > 0 + (matched + 1)) := by omega
    rw [if_neg hc]
    -- the held-back bytes and this block's bytes are the split string
    simp only [List.drop_zero] at e4
    have hP : wr ops ++ split.take hp = P := List.append_cancel_right e4
    have hT : data.take l = (split.take matched).drop hp := by
      rw [← e5, ql]; simp
    have hsm : split.take matched = split.take hp ++ (split.take matched).drop hp := by
      have := List.take_append_drop hp (split.take matched)
      rw [List.take_take, Nat.min_eq_left (by omega)] at this
      exact this.symm
    rw [← hP, hT, heq]
    conv => lhs; rw [hsp, hsm]
    simp [List.append_assoc]
  · have hp0 : hp = 0 := by omega
    subst hp0
    simp only [List.take_zero, List.append_nil, List.drop_zero] at e4 e5
    have hq : matched = q := by omega
    have hw := window_split (data := data) (start := start) inv.hl hst q e2
    rw [hw, e5] at e4
    have hamt : l + 1 - (start + (matched + 1)) = l - start - q := by omega
    by_cases hc : l + 1 > start + (matched + 1)
    · rw [if_pos hc, wr_write, hamt]
      rw [heq]
      conv => lhs; rw [hsp]
      rw [← List.append_assoc, ← List.append_assoc, List.append_assoc (wr ops), e4, List.append_assoc]
    · rw [if_neg hc]
      have h0 : l - start - q = 0 := by omega
      rw [h0] at e4
      simp only [List.take_zero, List.nil_append] at e4
      rw [heq]
      conv => lhs; rw [hsp]
      rw [← List.append_assoc, e4, List.append_assoc]


/-- the loop over one block keeps the invariant -/
theorem scanLoop_inv : ∀ (todo l start matched : Nat) (ops : List Op), l + todo = data.length →
    Inv split P data l start matched ops →
    Inv split P data data.length (scanLoop split data todo l start matched ops).1
      (scanLoop split data todo l start matched ops).2.1 (scanLoop split data todo l start matched ops).2.2
  | 0, l, start, matched, ops, hlen, inv => by
    have : l = data.length := by omega
    subst this
    exact inv
  | todo + 1, l, start, matched, ops, hlen, inv => by
    have hlt : l < data.length := by omega
    unfold scanLoop
    by_cases heq : data.getD l 0 = split.getD matched 0
    · rw [if_pos heq]
      simp only
      by_cases hfull : matched + 1 = split.length
      · rw [if_pos hfull]
        exact scanLoop_inv todo (l + 1) (l + 1) 0 _ (by omega) (step_full inv hlt heq hfull)
      · rw [if_neg hfull]
        exact scanLoop_inv todo (l + 1) start (matched + 1) ops (by omega) (step_partial inv hlt heq hfull)
    · rw [if_neg heq]
      by_cases hpos : matched > 0
      · rw [if_pos hpos]
        exact scanLoop_inv todo (l + 1) start 0 _ (by omega) (step_mismatch inv hlt hpos)
      · rw [if_neg hpos]
        have h0 : matched = 0 := by omega
        subst h0
        exact scanLoop_inv todo (l + 1) start 0 ops (by omega) (step_none inv hlt rfl)

end

/-- between blocks: everything read so far has been written except the `matched` held-back bytes of a partial match -/
def Between (split P : Bytes) (matched : Nat) (ops : List Op) : Prop :=
  matched < split.length ∧ wr ops ++ split.take matched = P

theorem inv_of_between {split P : Bytes} {matched : Nat} {ops : List Op} (data : Bytes) (h : Between split P matched ops) :
    Inv split P data 0 0 matched ops :=
  ⟨Nat.zero_le _, Nat.le_refl _, h.1, matched, 0, rfl, Nat.zero_le _, fun _ => ⟨rfl, rfl⟩, by simp [h.2], by simp⟩

/-- one block -/
theorem scanBlock_between {split P : Bytes} {matched : Nat} {ops : List Op} (data : Bytes) (h : Between split P matched ops) :
    Between split (P ++ data) (scanBlock split data matched ops).1 (scanBlock split data matched ops).2 := by
  have inv := scanLoop_inv (split := split) (P := P) (data := data) data.length 0 0 matched ops (by omega) (inv_of_between data h)
  unfold scanBlock
  generalize scanLoop split data data.length 0 0 matched ops = r at inv
  obtain ⟨start, m, ops'⟩ := r
  simp only at inv ⊢
  obtain ⟨hp, q, e1, e2, e3, e4, e5⟩ := inv.ex
  have hst := inv.hst
  refine ⟨inv.hm, ?_⟩
  rw [List.take_length] at e4 e5
  by_cases hpp : 0 < hp
  · obtain ⟨s0, ql⟩ := e3 hpp
    subst s0
    have hc : ¬ (data.length > 0 + m) := by omega
    rw [if_neg hc]
    simp only [List.drop_zero] at e4
    have hP : wr ops' ++ split.take hp = P := List.append_cancel_right e4
    have hT : data = (split.take m).drop hp := by rw [← e5, ql]; simp
    have hsm : split.take m = split.take hp ++ (split.take m).drop hp := by
      have := List.take_append_drop hp (split.take m)
      rw [List.take_take, Nat.min_eq_left (by omega)] at this
      exact this.symm
    rw [hsm, ← hT, ← List.append_assoc, hP]
  · have hp0 : hp = 0 := by omega
    subst hp0
    simp only [List.take_zero, List.append_nil, List.drop_zero] at e4 e5
    have hq : m = q := by omega
    have hw := window_split (data := data) (l := data.length) (start := start) (Nat.le_refl _) hst q e2
    rw [List.take_length] at hw
    rw [hw, e5] at e4
    have hamt : data.length - (start + m) = data.length - start - q := by omega
    by_cases hc : data.length > start + m
    · rw [if_pos hc, wr_write, hamt, List.append_assoc, e4]
    · rw [if_neg hc]
      have h0 : data.length - start - q = 0 := by omega
      rw [h0] at e4
      simpa using e4

/-- all blocks and the end of the input -/
theorem scanAll_written (split : Bytes) : ∀ (blocks : List Bytes) (P : Bytes) (matched : Nat) (ops : List Op),
    Between split P matched ops → written (scanAll split blocks matched ops) = P ++ blocks.flatten
  | [], P, matched, ops, h => by
    unfold scanAll
    by_cases hm : matched > 0
    · rw [if_pos hm]
      show wr (Op.write (split.take matched) :: ops) = _
      rw [wr_write, h.2]; simp
    · rw [if_neg hm]
      have : matched = 0 := by omega
      subst this
      show wr ops = _
      have := h.2
      simp at this
      rw [this]; simp
  | b :: bs, P, matched, ops, h => by
    unfold scanAll
    have hb := scanBlock_between b h
    generalize scanBlock split b matched ops = r at hb
    obtain ⟨m, ops'⟩ := r
    simp only at hb ⊢
    rw [scanAll_written split bs (P ++ b) m ops' hb]
    simp [List.append_assoc]

theorem written_map_write : ∀ (blocks : List Bytes), written (blocks.map Op.write) = blocks.flatten
  | [] => rfl
  | b :: bs => by simp [written, written_map_write bs]

/-- **C01 (the `zck` tool's scanner loses nothing).**  For every split string, every input and every way `read(2)` cuts the input
into blocks, the bytes handed to `zck_write` by the scanner, in order, are exactly the input: held-back partial matches are written
when they fail, when they complete, and at the end of the input; nothing is written twice. -/
theorem scanner_preserves (split : Bytes) (blocks : List Bytes) : written (zckOps split blocks) = blocks.flatten := by
  unfold zckOps
  by_cases he : split.isEmpty = true
  · rw [if_pos he]; exact written_map_write blocks
  · rw [if_neg he]
    have hne : 0 < split.length := by
      cases split with
      | nil => simp at he
      | cons x xs => simp
    have := scanAll_written split blocks [] 0 [] ⟨hne, by simp [wr, written]⟩
    simpa using this

/-- **C01 (the `zck` tool, from the input file to the chunks).**  For every legal configuration, split string, input and
cutting into read blocks, the calls `zck` makes complete and the data chunks of the closed file, concatenated, are the input. -/
theorem zck_tool_chunks (cfg : Cfg) (hl : Legal cfg.norm) (hW : cfg.W = 48) (hb : cfg.bits = 15) (split : Bytes) (blocks : List Bytes) :
    ∃ cs, closeChunks cfg (zckOps split blocks) = some cs ∧ cs.flatten = blocks.flatten := by
  obtain ⟨cs, h1, h2⟩ := C16T.written_back_total cfg hl hW hb (zckOps split blocks)
  exact ⟨cs, h1, by rw [h2, scanner_preserves]⟩

/-! non-vacuity (tests): a split string straddling a block edge, a failed partial match, a match at the end of the input -/
example : zckOps [1, 2] [[5, 1], [2, 7, 1], [3, 1]] =
    [Op.write [5], Op.endChunk, Op.write [1, 2], Op.write [7], Op.write [1], Op.write [3], Op.write [1]] := by decide
example : written (zckOps [1, 2] [[5, 1], [2, 7, 1], [3, 1]]) = [5, 1, 2, 7, 1, 3, 1] := by decide

end Zck.ToolsP
