/-
C01 — a file as the writer lays it out is well-formed for the reader, and reads back as what was put in.

`written_WF`: the header `header_create` serialises from a spec, followed by the stored bytes of the chunks in index order, where
every index entry describes its chunk (stored size, uncompressed size, checksum of the stored bytes, and the stored bytes decode
— codec round trip, the one assumption about the codec — to the chunk's content under the dictionary the format prescribes) and
the data checksum is that of the stored bytes: then the model of `zck_init_read` opens it (`openFile_header`), the file is
well-formed in the sense of `Props/C01Stream.lean` (`WF`), and the stream content is the concatenation of the data chunks'
contents.  `write_read_roundtrip` composes this with `read_back`: ANY sequence of read buffer sizes reads back exactly the
contents of the data chunks, in order, and `zck_close` succeeds.
-/
import ZckModel.Props.C01Encode
import ZckModel.Props.C01Stream
import ZckModel.Props.C02Full
import ZckModel.Props.C01
import ZckModel.Props.C01Chunks

namespace Zck.EncP
open Zck Zck.Header Zck.Compint Zck.Res Zck.Format Zck.Encode Zck.C13P Zck.Reader Zck.Stream

/-- a finished chunk: its index entry, its stored bytes and its content -/
structure WC where
  c  : Chunk
  st : Bytes
  pl : Bytes

/-- the index entry describes the chunk -/
def WOk (H : Format.HashFn) (D : Decomp) (cht compType : Nat) (dict : Option Bytes) (w : WC) : Prop :=
  w.c.compLen = w.st.length ∧ w.c.len = w.pl.length ∧
  (∃ d, H cht w.st = some d ∧ (if w.c.compLen = 0 then zeros d.length else d) = w.c.digest) ∧
  (if compType = 0 then w.st = w.pl else D w.st dict = some w.pl)

theorem renum_get (u : Bool) : ∀ (cs : List Chunk) (n s j : Nat) (ch : Chunk), (renum u n s cs)[j]? = some ch →
    ∃ c, cs[j]? = some c ∧ ch = ⟨n + j, c.digest, if u then c.udigest else none, c.compLen, c.len, s + C13.sumLen (cs.take j)⟩
  | [], _, _, _, _, h => by simp [renum] at h
  | c :: cs, n, s, 0, ch, h => by
    simp only [renum, List.getElem?_cons_zero, Option.some.injEq] at h
    exact ⟨c, rfl, by rw [← h]; simp [C13.sumLen]⟩
  | c :: cs, n, s, j + 1, ch, h => by
    simp only [renum, List.getElem?_cons_succ] at h
    obtain ⟨c', h1, h2⟩ := renum_get u cs (n + 1) (s + c.compLen) j ch h
    refine ⟨c', by simpa using h1, ?_⟩
    rw [h2]
    simp only [List.take_succ_cons, C13.sumLen]
    congr 1 <;> omega

theorem renum_run (u : Bool) : ∀ (cs : List Chunk) (n s : Nat), C13.RunFrom n s (renum u n s cs)
  | [], _, _ => trivial
  | c :: cs, n, s => ⟨rfl, rfl, renum_run u cs (n + 1) (s + c.compLen)⟩

theorem renum_sum (u : Bool) : ∀ (cs : List Chunk) (n s : Nat), C13.sumLen (renum u n s cs) = C13.sumLen cs
  | [], _, _ => rfl
  | c :: cs, n, s => by simp [renum, C13.sumLen, renum_sum u cs (n + 1) (s + c.compLen)]

theorem sumLen_map (ws : List WC) (h : ∀ w ∈ ws, w.c.compLen = w.st.length) :
    C13.sumLen (ws.map (·.c)) = (ws.map (·.st)).flatten.length := by
  induction ws with
  | nil => rfl
  | cons w ws ih =>
    simp only [List.map_cons, C13.sumLen, List.flatten_cons, List.length_append]
    rw [ih (fun x hx => h x (List.mem_cons_of_mem _ hx)), h w (by simp)]

/-- the stored bytes of chunk `j` sit where the running sum of stored sizes says -/
theorem slice_flatten (A : Bytes) : ∀ (sts : List Bytes) (j : Nat) (st : Bytes), sts[j]? = some st →
    fileRead (A ++ sts.flatten) (A.length + (sts.take j).flatten.length) st.length = st
  | [], _, _, h => by simp at h
  | s0 :: sts, 0, st, h => by
    simp only [List.getElem?_cons_zero, Option.some.injEq] at h
    subst h
    unfold fileRead
    simp
  | s0 :: sts, j + 1, st, h => by
    simp only [List.getElem?_cons_succ] at h
    have ih := slice_flatten (A ++ s0) sts j st h
    simp only [List.take_succ_cons, List.flatten_cons, List.length_append] at ih ⊢
    rw [show A.length + (s0.length + (sts.take j).flatten.length) = A.length + s0.length + (sts.take j).flatten.length by omega]
    rw [← List.append_assoc]
    exact ih


theorem doneFrom_pointwise (D : Decomp) (f : Bytes) (h : Hdr) : ∀ (cs : List Chunk) (ps : List Bytes) (k : Nat),
    cs.length = ps.length → (∀ i c p, cs[i]? = some c → ps[i]? = some p → contrib D f h (k + i) c = p) →
    doneFrom D f h k cs = ps.flatten
  | [], [], _, _, _ => rfl
  | [], _ :: _, _, hl, _ => by simp at hl
  | _ :: _, [], _, hl, _ => by simp at hl
  | c :: cs, p :: ps, k, hl, hp => by
    have h0 := hp 0 c p (by simp) (by simp)
    simp only [Nat.add_zero] at h0
    have ih := doneFrom_pointwise D f h cs ps (k + 1) (by simpa using hl) (fun i c' p' hc hpp => by
      have := hp (i + 1) c' p' (by simpa using hc) (by simpa using hpp)
      rw [show k + (i + 1) = k + 1 + i by omega] at this; exact this)
    simp only [doneFrom, List.flatten_cons, h0, ih]

/-- the dictionary for the data chunks, from the writer's side -/
def dictOfHead (ws : List WC) : Option Bytes :=
  match ws.head? with
  | some w => if w.pl.length = 0 then none else some w.pl
  | none => none

section
variable (H : Format.HashFn) (D : Decomp) (s : Spec) (ws : List WC) (ds cs : Nat) (dg : Bytes)

/-- the file as `zck_close` lays it out: header, then the stored bytes of the chunks in index order -/
def fileOf : Bytes := encLead0 s ++ dg ++ encBody s ++ (ws.map (·.st)).flatten

/-- **C01: a written file is well-formed for the reader.** -/
theorem written_WF (hs : s.chunks = ws.map (·.c)) (hf : Fits s ds cs)
    (hH : H s.hashType (encLead0 s ++ encBody s) = some dg) (hdg : dg.length = ds)
    (hlen : ∀ w ∈ ws, w.c.compLen = w.st.length ∧ w.c.len = w.pl.length)
    (h0 : ∀ w, ws.head? = some w → (w.c.compLen = 0 ∧ w.c.len = 0) ∨ WOk H D s.chunkHashType s.compType none w)
    (hrest : ∀ w ∈ ws.tail, WOk H D s.chunkHashType s.compType (dictOfHead ws) w)
    (hsmall : ∀ w ∈ ws, w.pl.length < allocLimit)
    (hdata : s.flags = 4 ∨ H s.hashType (ws.map (·.st)).flatten = some s.dataDigest) :
    openFile H (fileOf s ws dg) = .ok (hdrOf s ds dg) ∧ WF H D (fileOf s ws dg) (hdrOf s ds dg) ∧
    doneFrom D (fileOf s ws dg) (hdrOf s ds dg) 1 ((hdrOf s ds dg).chunks.drop 1) = ((ws.drop 1).map (·.pl)).flatten := by
  have hopen := openFile_header H s ds cs dg (ws.map (·.st)).flatten hf hH hdg
  -- geometry
  generalize hA : encLead0 s ++ dg ++ encBody s = A at hopen
  have hfile : fileOf s ws dg = A ++ (ws.map (·.st)).flatten := by unfold fileOf; rw [hA]
  generalize hh : hdrOf s ds dg = h at hopen
  have hdoff : dOff h = A.length := by
    rw [← hh, ← hA]; simp [dOff, hdrOf, hdg]; omega
  have hchunks : h.chunks = renum (withU s) 0 0 (ws.map (·.c)) := by rw [← hh, ← hs]; rfl
  have hcomp : h.compType = s.compType := by rw [← hh]; rfl
  have hcht : h.chunkHashType = s.chunkHashType := by rw [← hh]; rfl
  have hcl : ∀ w ∈ ws, w.c.compLen = w.st.length := fun w hw => (hlen w hw).1
  have htotal : total h = (ws.map (·.st)).flatten.length := by
    unfold total; rw [hchunks, renum_sum, sumLen_map ws hcl]
  rw [hfile]
  generalize hbody : (ws.map (·.st)).flatten = body at *
  -- chunk `j` of the header is entry `j` of the writer, at its running offset, and its stored bytes are the writer's
  have hget : ∀ (j : Nat) (ch : Chunk), h.chunks[j]? = some ch → ∃ w : WC, ws[j]? = some w ∧ ch.digest = w.c.digest ∧ ch.compLen = w.st.length ∧
      ch.len = w.pl.length ∧ stored (A ++ body) h ch = w.st := by
    intro j ch hch
    rw [hchunks] at hch
    obtain ⟨c, hc1, hc2⟩ := renum_get _ _ _ _ _ _ hch
    rw [List.getElem?_map] at hc1
    cases hw : ws[j]? with
    | none => rw [hw] at hc1; cases hc1
    | some w =>
      rw [hw] at hc1
      simp only [Option.map_some, Option.some.injEq] at hc1
      subst hc1
      have hmem : w ∈ ws := List.mem_of_getElem? hw
      obtain ⟨l1, l2⟩ := hlen w hmem
      refine ⟨w, rfl, by rw [hc2], by rw [hc2]; exact l1, by rw [hc2]; exact l2, ?_⟩
      unfold stored
      rw [hdoff, hc2]
      simp only [Nat.zero_add]
      rw [← List.map_take, sumLen_map (ws.take j) (fun x hx => hcl x (List.mem_of_mem_take hx)), l1, ← hbody, List.map_take]
      exact slice_flatten A (ws.map (·.st)) j w.st (by rw [List.getElem?_map, hw]; rfl)
  -- the first entry
  have hhead : ∀ w, ws.head? = some w → h.chunks.head? = some ⟨0, w.c.digest, if withU s then w.c.udigest else none, w.c.compLen, w.c.len, 0⟩ := by
    intro w hw
    rw [hchunks]
    cases ws with
    | nil => simp at hw
    | cons x xs => simp at hw; subst hw; simp [renum]
  have hdictMain : h.compType ≠ 0 → (∀ w, ws.head? = some w → (w.c.compLen = 0 ∧ w.c.len = 0) ∨ D w.st none = some w.pl) →
      dictMain D (A ++ body) h = dictOfHead ws := by
    intro hz hD
    unfold dictMain dictOfHead
    cases hw : ws.head? with
    | none =>
      have : ws = [] := by cases ws with | nil => rfl | cons x xs => simp at hw
      rw [hchunks, this]; rfl
    | some w =>
      rw [hhead w hw]
      simp only
      have hmem : w ∈ ws := by cases ws with | nil => simp at hw | cons x xs => simp at hw; subst hw; simp
      obtain ⟨l1, l2⟩ := hlen w hmem
      by_cases hl0 : w.pl.length = 0
      · rw [if_pos (by omega), if_pos hl0]
      · rw [if_neg (by omega), if_neg hl0]
        congr 1
        obtain ⟨w', hw', _, _, _, hst⟩ := hget 0 _ (head_get _ _ (hhead w hw))
        have : w' = w := by
          cases ws with
          | nil => simp at hw
          | cons x xs => simp at hw hw'; rw [← hw, ← hw']
        subst this
        unfold plainOf
        rw [if_neg hz, hst]
        rcases hD w' hw with hsk | hDw
        · omega
        · rw [hDw]; rfl
  have hheadD : h.compType ≠ 0 → ∀ w, ws.head? = some w → (w.c.compLen = 0 ∧ w.c.len = 0) ∨ D w.st none = some w.pl := by
    intro hz w hw
    rcases h0 w hw with hsk | hok
    · exact Or.inl hsk
    · have := hok.2.2.2
      rw [if_neg (by rw [← hcomp]; exact hz)] at this
      exact Or.inr this
  -- every entry is good
  have hgood : ∀ (j : Nat) (ch : Chunk) (w : WC), h.chunks[j]? = some ch → ws[j]? = some w → Need H D (A ++ body) h j ch ∧
      (1 ≤ j → contrib D (A ++ body) h j ch = w.pl) := by
    intro j ch w hch hw
    obtain ⟨w', hw', hdgs, hcl', hln', hst⟩ := hget j ch hch
    rw [hw] at hw'; cases hw'
    have hmem : w ∈ ws := List.mem_of_getElem? hw
    -- the chunk under the dictionary the format prescribes
    have hwok : (j = 0 ∧ w.c.compLen = 0 ∧ w.c.len = 0) ∨ WOk H D s.chunkHashType s.compType (if j = 0 then none else dictOfHead ws) w := by
      cases j with
      | zero =>
        have hw0 : ws.head? = some w := by cases ws with | nil => simp at hw | cons x xs => simpa using hw
        rcases h0 w hw0 with hsk | hok
        · exact Or.inl ⟨rfl, hsk⟩
        · exact Or.inr (by simpa using hok)
      | succ j' =>
        right
        have : w ∈ ws.tail := by
          cases ws with
          | nil => simp at hw
          | cons x xs => simp at hw; exact List.mem_of_getElem? hw
        simpa using hrest w this
    obtain ⟨l1, l2⟩ := hlen w hmem
    rcases hwok with ⟨hj0, hc0, hl0⟩ | ⟨_, _, ⟨d, hHd, hdig⟩, hdec⟩
    · exact ⟨Or.inl ⟨hj0, by omega, by omega⟩, fun h1 => by omega⟩
    · have hdict : h.compType ≠ 0 → dictFor D (A ++ body) h j = (if j = 0 then none else dictOfHead ws) := by
        intro hz
        unfold dictFor
        by_cases hj : j = 0
        · simp [hj]
        · rw [if_neg hj, if_neg hj]; exact hdictMain hz (hheadD hz)
      have hcg : ChunkGood H D (A ++ body) h (dictFor D (A ++ body) h j) ch := by
        refine ⟨by rw [hst, hcl'], ⟨d, by rw [hst, hcht]; exact hHd, by rw [hcl', ← l1, hdgs]; exact hdig⟩, ?_⟩
        by_cases hz : h.compType = 0
        · rw [if_pos hz]
          rw [if_pos (by rw [← hcomp]; exact hz)] at hdec
          rw [hcl', hln', hdec]
        · rw [if_neg hz]
          rw [if_neg (by rw [← hcomp]; exact hz)] at hdec
          exact ⟨w.pl, by rw [hst, hdict hz]; exact hdec, hln'.symm⟩
      refine ⟨Or.inr hcg, fun h1 => ?_⟩
      unfold contrib
      rw [if_neg (fun hsk => by have := hsk.1; omega)]
      unfold plainOf
      by_cases hz : h.compType = 0
      · rw [if_pos hz, hst]
        rw [if_pos (by rw [← hcomp]; exact hz)] at hdec
        exact hdec
      · rw [if_neg hz, hst, hdict hz]
        rw [if_neg (by rw [← hcomp]; exact hz)] at hdec
        rw [hdec]; rfl
  have hlenc : h.chunks.length = ws.length := by rw [hchunks, renum_length, List.length_map]
  refine ⟨hopen, ⟨?_, ?_, ?_, ?_, ?_, ?_⟩, ?_⟩
  · rw [hchunks]; exact renum_run _ _ _ _
  · intro j ch hj hch
    have hjw : j < ws.length := by omega
    exact (hgood j ch ws[j] hch (List.getElem?_eq_getElem hjw)).1
  · rw [htotal, hdoff]
    unfold fileRead
    simp
  · intro c hc
    obtain ⟨j, hj, hjc⟩ := List.getElem_of_mem hc
    have hch : h.chunks[j]? = some c := by rw [List.getElem?_eq_getElem hj, hjc]
    obtain ⟨w, hw, _, _, hln, _⟩ := hget j c hch
    rw [hln]; exact hsmall w (List.mem_of_getElem? hw)
  · rcases hdata with hfl | hdig
    · left; rw [← hh]; simp [f4, hdrOf, hfl]
    · right
      rw [htotal, hdoff]
      have : fileRead (A ++ body) A.length body.length = body := by unfold fileRead; simp
      rw [this, ← hh]
      exact hdig
  · intro hnil
    have : h.chunks.length = 0 := by rw [hnil]; rfl
    rw [hchunks, renum_length, ← hs] at this
    exact hf.hne (List.eq_nil_of_length_eq_zero this)
  · refine doneFrom_pointwise D (A ++ body) h _ _ 1 (by simp [hlenc]) ?_
    intro i c p hc hp
    rw [List.getElem?_drop] at hc
    rw [List.getElem?_map, List.getElem?_drop] at hp
    cases hw : ws[1 + i]? with
    | none => rw [hw] at hp; cases hp
    | some w =>
      rw [hw] at hp
      simp only [Option.map_some, Option.some.injEq] at hp
      subst hp
      exact (hgood (1 + i) c w hc hw).2 (by omega)


/-- **C01 (write → read, on the models).**  A file laid out as `zck_close` lays it out — the serialised header, then the stored
chunks — whose index entries describe their chunks, opens, and under ANY sequence of read buffer sizes no read fails; once a read
comes up short the bytes handed out are exactly the contents of the data chunks in order, and `zck_close` succeeds. -/
theorem write_read_roundtrip (hs : s.chunks = ws.map (·.c)) (hf : Fits s ds cs)
    (hH : H s.hashType (encLead0 s ++ encBody s) = some dg) (hdg : dg.length = ds)
    (hlen : ∀ w ∈ ws, w.c.compLen = w.st.length ∧ w.c.len = w.pl.length)
    (h0 : ∀ w, ws.head? = some w → (w.c.compLen = 0 ∧ w.c.len = 0) ∨ WOk H D s.chunkHashType s.compType none w)
    (hrest : ∀ w ∈ ws.tail, WOk H D s.chunkHashType s.compType (dictOfHead ws) w)
    (hsmall : ∀ w ∈ ws, w.pl.length < allocLimit)
    (hdata : s.flags = 4 ∨ H s.hashType (ws.map (·.st)).flatten = some s.dataDigest)
    (init : List Nat) (nl : Nat) :
    openFile H (fileOf s ws dg) = .ok (hdrOf s ds dg) ∧
    (∀ r ∈ (reads H D (fileOf s ws dg) (openCtx (hdrOf s ds dg)) init).1, 0 ≤ r.ret ∧ r.ret = r.bytes.length) ∧
    0 ≤ (compRead H D (fileOf s ws dg) (reads H D (fileOf s ws dg) (openCtx (hdrOf s ds dg)) init).2 nl).1.ret ∧
    ((compRead H D (fileOf s ws dg) (reads H D (fileOf s ws dg) (openCtx (hdrOf s ds dg)) init).2 nl).1.ret < nl →
      outOf (reads H D (fileOf s ws dg) (openCtx (hdrOf s ds dg)) init).1 ++
        (compRead H D (fileOf s ws dg) (reads H D (fileOf s ws dg) (openCtx (hdrOf s ds dg)) init).2 nl).1.bytes =
        ((ws.drop 1).map (·.pl)).flatten ∧
      close H (compRead H D (fileOf s ws dg) (reads H D (fileOf s ws dg) (openCtx (hdrOf s ds dg)) init).2 nl).2 = true) := by
  obtain ⟨hopen, wf, hcontent⟩ := written_WF H D s ws ds cs dg hs hf hH hdg hlen h0 hrest hsmall hdata
  obtain ⟨r1, r2, _, r4⟩ := read_back wf init nl
  exact ⟨hopen, r1, r2, fun hshort => by
    obtain ⟨a, b⟩ := r4 hshort
    exact ⟨by rw [a, hcontent], b⟩⟩

/-- **C01, end to end on the models.**  `ops` = any sequence of write / end-of-chunk calls under a legal configuration, closed
successfully with data chunks `cs` (the chunker model); the file = serialised header + stored chunks whose entries describe
`dictionary chunk :: cs`; then any reads that end short hand back exactly the bytes written, and close succeeds. -/
theorem write_ops_read_back (cfg : Writer.Cfg) (hl : Writer.Legal cfg.norm) (ops : List Writer.Op) (chunks : List Bytes)
    (hclose : Writer.closeChunks cfg ops = some chunks) (hws : (ws.drop 1).map (·.pl) = chunks)
    (hs : s.chunks = ws.map (·.c)) (hf : Fits s ds cs)
    (hH : H s.hashType (encLead0 s ++ encBody s) = some dg) (hdg : dg.length = ds)
    (hlen : ∀ w ∈ ws, w.c.compLen = w.st.length ∧ w.c.len = w.pl.length)
    (h0 : ∀ w, ws.head? = some w → (w.c.compLen = 0 ∧ w.c.len = 0) ∨ WOk H D s.chunkHashType s.compType none w)
    (hrest : ∀ w ∈ ws.tail, WOk H D s.chunkHashType s.compType (dictOfHead ws) w)
    (hsmall : ∀ w ∈ ws, w.pl.length < allocLimit)
    (hdata : s.flags = 4 ∨ H s.hashType (ws.map (·.st)).flatten = some s.dataDigest)
    (init : List Nat) (nl : Nat)
    (hshort : (compRead H D (fileOf s ws dg) (reads H D (fileOf s ws dg) (openCtx (hdrOf s ds dg)) init).2 nl).1.ret < nl) :
    outOf (reads H D (fileOf s ws dg) (openCtx (hdrOf s ds dg)) init).1 ++
        (compRead H D (fileOf s ws dg) (reads H D (fileOf s ws dg) (openCtx (hdrOf s ds dg)) init).2 nl).1.bytes =
      Writer.written ops ∧
    close H (compRead H D (fileOf s ws dg) (reads H D (fileOf s ws dg) (openCtx (hdrOf s ds dg)) init).2 nl).2 = true := by
  obtain ⟨_, _, _, r⟩ := write_read_roundtrip H D s ws ds cs dg hs hf hH hdg hlen h0 hrest hsmall hdata init nl
  obtain ⟨a, b⟩ := r hshort
  exact ⟨by rw [a, hws]; exact C01.W_structure cfg hl ops chunks hclose, b⟩

end

/-! ### the whole file of the "none" backend, byte for byte (`Encode.closeFileNone`, compared with the implementation's output on every
uncompressed WRITE case) reads back as the chunks it was made of -/

section
variable (H : Format.HashFn) (D : Decomp)

theorem mapM_entries (cht : Nat) : ∀ (all : List Bytes) (ents : List Chunk),
    all.mapM (fun p => entryFor H cht p p) = some ents →
    ents.length = all.length ∧ ∀ (i : Nat) (p : Bytes) (c : Chunk), all[i]? = some p → ents[i]? = some c → entryFor H cht p p = some c
  | [], ents, h => by
    simp at h; subst h; exact ⟨rfl, fun i p c hp => by simp at hp⟩
  | p :: rest, ents, h => by
    rw [List.mapM_cons] at h
    cases he : entryFor H cht p p with
    | none => rw [he] at h; simp at h
    | some c =>
      rw [he] at h
      cases hr : rest.mapM (fun p => entryFor H cht p p) with
      | none => rw [hr] at h; simp at h
      | some cs' =>
        rw [hr] at h
        simp at h
        subst h
        obtain ⟨l, ih⟩ := mapM_entries cht rest cs' hr
        refine ⟨by simp [l], fun i p' c' hp hc => ?_⟩
        cases i with
        | zero => simp at hp hc; subst hp hc; exact he
        | succ i => simp at hp hc; exact ih i p' c' hp hc

/-- every entry with its chunk (stored = content: nothing is compressed) -/
def mkWs : List Chunk → List Bytes → List WC
  | c :: cs, p :: ps => ⟨c, p, p⟩ :: mkWs cs ps
  | _, _ => []

theorem mkWs_maps : ∀ (cs : List Chunk) (ps : List Bytes), cs.length = ps.length →
    (mkWs cs ps).map (·.c) = cs ∧ (mkWs cs ps).map (·.st) = ps ∧ (mkWs cs ps).map (·.pl) = ps
  | [], [], _ => ⟨rfl, rfl, rfl⟩
  | [], _ :: _, h => by simp at h
  | _ :: _, [], h => by simp at h
  | c :: cs, p :: ps, h => by
    obtain ⟨a, b, d⟩ := mkWs_maps cs ps (by simpa using h)
    simp [mkWs, a, b, d]

theorem mkWs_mem : ∀ (cs : List Chunk) (ps : List Bytes) (w : WC), w ∈ mkWs cs ps →
    ∃ i : Nat, cs[i]? = some w.c ∧ ps[i]? = some w.st ∧ w.pl = w.st
  | [], _, w, h => by simp [mkWs] at h
  | _ :: _, [], w, h => by simp [mkWs] at h
  | c :: cs, p :: ps, w, h => by
    simp only [mkWs, List.mem_cons] at h
    rcases h with rfl | h
    · exact ⟨0, rfl, rfl, rfl⟩
    · obtain ⟨i, a, b, d⟩ := mkWs_mem cs ps w h
      exact ⟨i + 1, by simpa using a, by simpa using b, d⟩

/-- what `entryFor` says about an entry and its chunk -/
theorem entryFor_spec (hH : HashLen H) (cht cs : Nat) (hcs : hsize cht = some cs) (p : Bytes) (c : Chunk)
    (h : entryFor H cht p p = some c) :
    c.compLen = p.length ∧ c.len = p.length ∧ c.digest.length = cs ∧ c.udigest = none ∧
    (p.length ≠ 0 → H cht p = some c.digest) ∧ (p.length = 0 → c.digest = zeros cs) := by
  unfold entryFor at h
  by_cases h0 : p.length = 0
  · rw [if_pos h0, hcs] at h
    simp only [Option.map_some, Option.some.injEq] at h
    subst h
    exact ⟨h0.symm, h0.symm, by simp [zeros], rfl, fun hx => absurd h0 hx, fun _ => rfl⟩
  · rw [if_neg h0] at h
    cases hd : H cht p with
    | none => rw [hd] at h; simp at h
    | some d =>
      rw [hd] at h
      simp only [Option.map_some, Option.some.injEq] at h
      subst h
      have := hH cht p d hd
      rw [hcs] at this
      exact ⟨rfl, rfl, by simpa using this.symm, rfl, fun _ => rfl, fun hx => absurd hx h0⟩

theorem entFits_of (u : Bool) (cs hdrTotal : Nat) : ∀ (ents : List Chunk) (idxLoc : Nat),
    (∀ c ∈ ents, c.digest.length = cs ∧ c.len = c.compLen) → u = false →
    idxLoc + C13.sumLen ents + hdrTotal ≤ 2^63 - 1 → EntFits u cs hdrTotal idxLoc ents
  | [], _, _, _, _ => trivial
  | c :: rest, idxLoc, hall, hu, hb => by
    simp only [C13.sumLen] at hb
    obtain ⟨h1, h2⟩ := hall c (by simp)
    refine ⟨h1, (fun hx => by rw [hu] at hx; cases hx), by omega, by omega, by omega, ?_⟩
    exact entFits_of u cs hdrTotal rest _ (fun c' hc' => hall c' (List.mem_cons_of_mem _ hc')) hu (by omega)

/-- **C01 for uncompressed files, from the bytes `zck_close` writes.**  `f` = the file the model of `zck_close` produces for a
dictionary (possibly empty) and non-empty data chunks; then the parser model opens it and, for ANY read schedule that ends short,
the bytes handed back are exactly the data chunks concatenated, and `zck_close` succeeds. -/
theorem closeFileNone_reads_back (ht cht ds cs : Nat) (dict : Bytes) (chunks : List Bytes) (f : Bytes)
    (hf : closeFileNone H ht cht dict chunks = some f)
    (hds : hsize ht = some ds) (hcs : hsize cht = some cs) (hH : HashLen H)
    (hne : ∀ p ∈ chunks, p ≠ []) (hsmall : ∀ p ∈ dict :: chunks, p.length < allocLimit) (hlen : f.length < 2^63)
    (hidx : ∀ ents dd, (dict :: chunks).mapM (fun p => entryFor H cht p p) = some ents →
      (encIndex ⟨ht, cht, 0, 0, dd, ents⟩).length < 2^31)
    (init : List Nat) (nl : Nat) :
    ∃ h, openFile H f = .ok h ∧
      (∀ r ∈ (reads H D f (openCtx h) init).1, 0 ≤ r.ret ∧ r.ret = r.bytes.length) ∧
      0 ≤ (compRead H D f (reads H D f (openCtx h) init).2 nl).1.ret ∧
      ((compRead H D f (reads H D f (openCtx h) init).2 nl).1.ret < nl →
        outOf (reads H D f (openCtx h) init).1 ++ (compRead H D f (reads H D f (openCtx h) init).2 nl).1.bytes = chunks.flatten ∧
        close H (compRead H D f (reads H D f (openCtx h) init).2 nl).2 = true) := by
  unfold closeFileNone at hf
  simp only [Option.bind_eq_bind] at hf
  cases hm : (dict :: chunks).mapM (fun p => entryFor H cht p p) with
  | none => rw [hm] at hf; simp at hf
  | some ents =>
    rw [hm] at hf
    simp only [Option.bind_some] at hf
    cases hdd : H ht (dict :: chunks).flatten with
    | none => rw [hdd] at hf; simp at hf
    | some dd =>
      rw [hdd] at hf
      simp only [Option.bind_some] at hf
      have hisz := hidx ents dd hm
      generalize hs : (⟨ht, cht, 0, 0, dd, ents⟩ : Spec) = s at hf hisz
      have hsht : s.hashType = ht := by rw [← hs]
      have hscht : s.chunkHashType = cht := by rw [← hs]
      have hsfl : s.flags = 0 := by rw [← hs]
      have hsct : s.compType = 0 := by rw [← hs]
      have hsdd : s.dataDigest = dd := by rw [← hs]
      have hsch : s.chunks = ents := by rw [← hs]
      unfold header at hf
      cases hdg : H s.hashType (encLead0 s ++ encBody s) with
      | none => rw [hdg] at hf; simp at hf
      | some dg =>
        rw [hdg] at hf
        simp only [Option.map_some, Option.bind_some, Option.some.injEq] at hf
        obtain ⟨hel, hent⟩ := mapM_entries H cht _ _ hm
        obtain ⟨m1, m2, m3⟩ := mkWs_maps ents (dict :: chunks) hel
        have hdgl : dg.length = ds := by
          have := hH _ _ _ hdg; rw [hsht, hds] at this; simpa using this.symm
        have hddl : dd.length = ds := by
          have := hH _ _ _ hdd; rw [hds] at this; simpa using this.symm
        have hfile : f = fileOf s (mkWs ents (dict :: chunks)) dg := by
          unfold fileOf; rw [m2, ← hf]
        -- every entry describes its chunk
        have hw : ∀ w ∈ mkWs ents (dict :: chunks), w.c.compLen = w.st.length ∧ w.c.len = w.pl.length ∧ w.c.digest.length = cs ∧
            (w.st.length ≠ 0 → H cht w.st = some w.c.digest) ∧ (w.st.length = 0 → w.c.digest = zeros cs) ∧ w.pl = w.st := by
          intro w hwm
          obtain ⟨i, a, b, d⟩ := mkWs_mem _ _ w hwm
          obtain ⟨e1, e2, e3, _, e5, e6⟩ := entryFor_spec H hH cht cs hcs w.st w.c (hent i w.st w.c b a)
          exact ⟨e1, by rw [d]; exact e2, e3, e5, e6, d⟩
        have hwok : ∀ w ∈ mkWs ents (dict :: chunks), ∀ dct, (w.c.compLen = 0 ∧ w.c.len = 0) ∨ WOk H D s.chunkHashType s.compType dct w := by
          intro w hwm dct
          obtain ⟨e1, e2, e3, e5, e6, e7⟩ := hw w hwm
          by_cases h0 : w.st.length = 0
          · exact Or.inl ⟨by omega, by rw [e2, e7]; exact h0⟩
          · refine Or.inr ⟨e1, e2, ⟨w.c.digest, by rw [hscht]; exact e5 h0, by rw [if_neg (by omega)]⟩, by rw [hsct]; simp [e7]⟩
        -- the data chunks are not empty, so theirs is always the second case
        have hrestok : ∀ w ∈ (mkWs ents (dict :: chunks)).tail, WOk H D s.chunkHashType s.compType (dictOfHead (mkWs ents (dict :: chunks))) w := by
          intro w hwt
          have hwm : w ∈ mkWs ents (dict :: chunks) := List.mem_of_mem_tail hwt
          rcases hwok w hwm (dictOfHead (mkWs ents (dict :: chunks))) with ⟨hc0, _⟩ | hok
          · exfalso
            -- an entry of the tail belongs to a data chunk, which is not empty
            have hst : w.st ∈ chunks := by
              have : w.st ∈ ((mkWs ents (dict :: chunks)).tail).map (·.st) := List.mem_map_of_mem hwt
              rw [List.map_tail, m2] at this
              simpa using this
            have := hne _ hst
            have hl := (hw w hwm).1
            exact this (List.eq_nil_of_length_eq_zero (by omega))
          · exact hok
        have hfits : Fits s ds cs := by
          refine ⟨by rw [hsht]; exact hds, by rw [hscht]; exact hcs, by rw [hsdd]; exact hddl, Or.inl hsfl, Or.inl hsct, ?_, hisz, ?_⟩
          · rw [hsch]; intro hn; rw [hn] at hel; simp at hel
          · rw [hsch]
            have hu : withU s = false := by unfold withU; rw [hsfl]; decide
            refine entFits_of _ cs _ ents 0 (fun c hc => ?_) hu ?_
            · obtain ⟨i, hi, hic⟩ := List.getElem_of_mem hc
              have hp : (dict :: chunks)[i]? = some (dict :: chunks)[i] := List.getElem?_eq_getElem (by omega)
              obtain ⟨e1, e2, e3, _⟩ := entryFor_spec H hH cht cs hcs _ c (hent i _ c hp (by rw [List.getElem?_eq_getElem hi, hic]))
              exact ⟨e3, by omega⟩
            · -- header + data = the file, which is shorter than 2^63
              have hsum : C13.sumLen ents = (dict :: chunks).flatten.length := by
                rw [← m1, sumLen_map _ (fun w hwm => (hw w hwm).1), m2]
              have hfl : f.length = (encLead0 s).length + ds + (encBody s).length + (dict :: chunks).flatten.length := by
                rw [← hf]; simp [hdgl]; omega
              omega
        have hdataok : s.flags = 4 ∨ H s.hashType ((mkWs ents (dict :: chunks)).map (·.st)).flatten = some s.dataDigest := by
          right; rw [m2, hsht, hsdd]; exact hdd
        have hsmall' : ∀ w ∈ mkWs ents (dict :: chunks), w.pl.length < allocLimit := by
          intro w hwm
          obtain ⟨i, _, b, d⟩ := mkWs_mem _ _ w hwm
          rw [d]; exact hsmall _ (List.mem_of_getElem? b)
        obtain ⟨r0, r1, r2, r3⟩ := write_read_roundtrip H D s (mkWs ents (dict :: chunks)) ds cs dg (by rw [hsch, m1]) hfits hdg hdgl
          (fun w hwm => ⟨(hw w hwm).1, (hw w hwm).2.1⟩)
          (fun w hw0 => hwok w (by cases hx : mkWs ents (dict :: chunks) with
            | nil => rw [hx] at hw0; simp at hw0
            | cons y ys => rw [hx] at hw0; simp at hw0; subst hw0; simp) none)
          hrestok hsmall' hdataok init nl
        rw [← hfile] at r0 r1 r2 r3
        refine ⟨_, r0, r1, r2, fun hshort => ?_⟩
        obtain ⟨a, b⟩ := r3 hshort
        refine ⟨?_, b⟩
        rw [a, List.map_drop, m3]
        simp

/-- **C01, uncompressed, from the API calls to the bytes read back.**  Any sequence of write / end-of-chunk calls under a legal
configuration, closed (chunker model), the file `zck_close` writes for the resulting chunks (byte-for-byte model, compared with the
implementation on every uncompressed WRITE case): any read schedule that ends short returns exactly the bytes written. -/
theorem write_close_read_none (cfg : Writer.Cfg) (hl : Writer.Legal cfg.norm) (ops : List Writer.Op) (chunks : List Bytes)
    (hclose : Writer.closeChunks cfg ops = some chunks)
    (ht cht ds cs : Nat) (dict : Bytes) (f : Bytes) (hf : closeFileNone H ht cht dict chunks = some f)
    (hds : hsize ht = some ds) (hcs : hsize cht = some cs) (hH : HashLen H)
    (hsmall : ∀ p ∈ dict :: chunks, p.length < allocLimit) (hlen : f.length < 2^63)
    (hidx : ∀ ents dd, (dict :: chunks).mapM (fun p => entryFor H cht p p) = some ents →
      (encIndex ⟨ht, cht, 0, 0, dd, ents⟩).length < 2^31)
    (init : List Nat) (nl : Nat) :
    ∃ h, openFile H f = .ok h ∧
      ((compRead H D f (reads H D f (openCtx h) init).2 nl).1.ret < nl →
        outOf (reads H D f (openCtx h) init).1 ++ (compRead H D f (reads H D f (openCtx h) init).2 nl).1.bytes = Writer.written ops ∧
        close H (compRead H D f (reads H D f (openCtx h) init).2 nl).2 = true) := by
  have hne := Writer.closeChunks_nonempty cfg ops chunks hclose
  obtain ⟨h, h1, _, _, h4⟩ := closeFileNone_reads_back H D ht cht ds cs dict chunks f hf hds hcs hH hne hsmall hlen hidx init nl
  exact ⟨h, h1, fun hs => by
    obtain ⟨a, b⟩ := h4 hs
    exact ⟨by rw [a]; exact C01.W_structure cfg hl ops chunks hclose, b⟩⟩

end

/-! ### non-vacuity (test): the example file of `Props/C02Full.lean` is such a file -/

def exSpec : Spec := ⟨3, 3, 0, 0, exDd, [⟨0, zeros 16, none, 0, 0, 0⟩, ⟨0, exD1, none, 3, 3, 0⟩, ⟨0, exD2, none, 2, 2, 0⟩]⟩
def exWs : List WC := [⟨⟨0, zeros 16, none, 0, 0, 0⟩, [], []⟩, ⟨⟨0, exD1, none, 3, 3, 0⟩, [1, 2, 3], [1, 2, 3]⟩,
  ⟨⟨0, exD2, none, 2, 2, 0⟩, [9, 8], [9, 8]⟩]

example : fileOf exSpec exWs exHd = exFile := by decide +kernel

/-- the byte-for-byte model of `zck_close` produces exactly that file for an empty dictionary and the two chunks -/
example : closeFileNone exH 3 3 [] [[1, 2, 3], [9, 8]] = some exFile := by decide +kernel

theorem exLens : (encLead0 exSpec).length = 7 ∧ (encBody exSpec).length = 76 ∧ (encIndex exSpec).length = 56 := by decide +kernel

example : outOf (reads exH exD (fileOf exSpec exWs exHd) (openCtx (hdrOf exSpec 16 exHd)) [1, 3]).1 ++
    (compRead exH exD (fileOf exSpec exWs exHd) (reads exH exD (fileOf exSpec exWs exHd) (openCtx (hdrOf exSpec 16 exHd)) [1, 3]).2 9).1.bytes
    = [1, 2, 3, 9, 8] := by
  have h := write_read_roundtrip exH exD exSpec exWs 16 16 exHd rfl
    ⟨rfl, rfl, by decide, Or.inl rfl, Or.inl rfl, by decide, by rw [exLens.2.2]; decide, by
      rw [exLens.1, exLens.2.1]
      simp [EntFits, exSpec, withU, exD1, exD2, zeros]⟩
    (by decide +kernel) (by decide) (by decide) (fun w hw => Or.inl (by simp [exWs] at hw; subst hw; exact ⟨rfl, rfl⟩))
    (fun w hw => by
      simp [exWs] at hw
      rcases hw with rfl | rfl
      · exact ⟨rfl, rfl, ⟨_, rfl, by decide⟩, rfl⟩
      · exact ⟨rfl, rfl, ⟨_, rfl, by decide⟩, rfl⟩)
    (by decide) (Or.inr (by decide)) [1, 3] 9
  exact (h.2.2.2 (by decide +kernel)).1

end Zck.EncP
