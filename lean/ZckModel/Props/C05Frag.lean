/-
C05 — fragmentation law of `dl_write_range` (the single-range path of the write callback), for ARBITRARY bytes.
`dwr_split`: delivering `a ++ b` in one call = delivering `a`, then — if `a` was taken completely and a chunk is still open —
`b` (same state in every field; the call fails exactly when one of the two fails); otherwise `b` is not looked at.
`dwr_frags` / `dwr_frags_state`: by induction over a list of fragments.  The multipart path (`mpLoop`) is not covered here.
-/
import ZckModel.Props.C17

namespace Zck.C05
open Zck Zck.Format Zck.Dl Zck.Copy

theorem writeAt_writeAt (f : Bytes) (p : Nat) (a b : Bytes) :
    writeAt (writeAt f p a) (p + a.length) b = writeAt f p (a ++ b) := by
  by_cases ha : a = []
  · subst ha; simp [writeAt]
  by_cases hb : b = []
  · subst hb; simp [writeAt]
  have hae : a.isEmpty = false := by cases a <;> simp_all
  have hbe : b.isEmpty = false := by cases b <;> simp_all
  have habe : (a ++ b).isEmpty = false := by cases a <;> simp_all
  unfold writeAt
  simp only [hae, hbe, habe, Bool.false_eq_true, ↓reduceIte]
  generalize hpre : f.take p ++ zeros (p - f.length) = pre
  have hpl : pre.length = p := by rw [← hpre]; simp [zeros]; omega
  have h1 : (pre ++ a ++ f.drop (p + a.length)).take (p + a.length) = pre ++ a := by
    rw [List.take_append_of_le_length (by simp [hpl])]
    rw [List.take_of_length_le (by simp [hpl])]
  have h2 : (pre ++ a ++ f.drop (p + a.length)).drop (p + a.length + b.length) = f.drop (p + (a ++ b).length) := by
    rw [List.drop_append (l₁ := pre ++ a)]
    rw [List.drop_of_length_le (by simp [hpl])]
    simp only [List.length_append, hpl, List.nil_append, List.drop_drop]
    congr 1
    omega
  have h3 : (p + a.length) - (pre ++ a ++ f.drop (p + a.length)).length = 0 := by
    simp [hpl]
  rw [h1, h2, h3]
  simp [zeros, List.append_assoc]

/-- fuel `dl_write_range` needs for its argument -/
def dneed (st : St) (x : Bytes) : Nat := 2 * x.length + (if st.writeInChunk = 0 then 1 else 0) + 1

/-- `wb + (what the recursive call consumed)`, 0 meaning failure -/
def bump (w : Nat) (x : Nat × St) : Nat × St := if x.1 = 0 then (0, x.2) else (w + x.1, x.2)

/-- what `dl_write_range` does after a successful `dl_write` of `wb` bytes (fuel `F` for the recursive call) -/
def cont (e : Env) (F wb : Nat) (st1 : St) (at_ : Bytes) : Nat × St :=
  let r := if st1.writeInChunk = 0 then dlSelect e st1 else (true, st1)
  if ¬ r.1 then (0, r.2) else
  if r.2.writeInChunk > 0 ∧ wb < at_.length then
    bump wb (dlWriteRange e F r.2 (at_.drop wb))
  else (wb, r.2)

theorem dwr_step (e : Env) (F : Nat) (st st1 : St) (at_ : Bytes) (wb : Nat)
    (he : st.err = false) (hr : e.ridx.isEmpty = false) (hw : dlWrite st at_ = (some wb, st1)) :
    dlWriteRange e (F + 1) st at_ = cont e F wb st1 at_ := by
  unfold dlWriteRange cont bump
  simp only [he, hr, hw, Bool.false_eq_true, ↓reduceIte]

theorem dwr_step_none (e : Env) (F : Nat) (st st1 : St) (at_ : Bytes)
    (he : st.err = false) (hr : e.ridx.isEmpty = false) (hw : dlWrite st at_ = (none, st1)) :
    dlWriteRange e (F + 1) st at_ = (0, st1) := by
  unfold dlWriteRange
  simp only [he, hr, hw, Bool.false_eq_true, ↓reduceIte]

/-- exact description of a successful `dl_write` -/
theorem dlWrite_open (st : St) (x : Bytes) (acc : Bytes) (hw : st.writeInChunk > 0) (hh : st.hash = some acc) (hx : x ≠ []) :
    dlWrite st x = (some (min st.writeInChunk x.length),
      { st with file := writeAt st.file st.pos (x.take (min st.writeInChunk x.length)),
                pos := st.pos + min st.writeInChunk x.length,
                writeInChunk := st.writeInChunk - min st.writeInChunk x.length,
                hash := some (acc ++ x.take (min st.writeInChunk x.length)),
                dlChunkData := st.dlChunkData + min st.writeInChunk x.length }) := by
  unfold dlWrite
  have hxl : 0 < x.length := List.length_pos_iff.mpr hx
  have hmin : (if st.writeInChunk < x.length then st.writeInChunk else x.length) = min st.writeInChunk x.length := by
    simp only [Nat.min_def]; split <;> split <;> omega
  simp only [hw, ↓reduceIte, hmin]
  have h0 : min st.writeInChunk x.length ≠ 0 := by omega
  simp only [h0, ↓reduceIte, hh]

theorem dlWrite_closed (st : St) (x : Bytes) (hw : st.writeInChunk = 0) : dlWrite st x = (some 0, st) := by
  unfold dlWrite; simp [hw]

/-- a chunk that is open for writing has a running hash -/
def HashInv (st : St) : Prop := st.writeInChunk > 0 → ∃ acc, st.hash = some acc

theorem hashInv_dlWrite (st : St) (x : Bytes) (h : HashInv st) : HashInv (dlWrite st x).2 := by
  unfold dlWrite
  by_cases hw : st.writeInChunk > 0
  · simp only [hw, ↓reduceIte]
    generalize (if st.writeInChunk < x.length then st.writeInChunk else x.length) = wb
    obtain ⟨acc, hacc⟩ := h hw
    by_cases h0 : wb = 0
    · simp only [h0, ↓reduceIte]; intro _; exact ⟨acc, hacc⟩
    · simp only [h0, ↓reduceIte, hacc]; intro _; exact ⟨_, rfl⟩
  · simp only [hw, ↓reduceIte]; exact h

theorem hashInv_dlOpen (e : Env) (st : St) (h : HashInv st) : HashInv (dlOpen e st) := by
  unfold dlOpen
  simp only
  split
  · split
    · intro _; exact ⟨[], rfl⟩
    · exact h
  · exact h

theorem wic_setChunkValid (e : Env) (st : St) (k : Nat) : (setChunkValid e st k).2.writeInChunk = st.writeInChunk := by
  unfold setChunkValid
  cases e.hdr.chunks[k]? with
  | none => rfl
  | some tc =>
    simp only
    cases hh : st.hash with
    | none => rfl
    | some acc =>
      simp only
      generalize (if tc.compLen = 0 then (hsize e.hdr.chunkHashType).map zeros else e.H e.hdr.chunkHashType acc) = dg
      by_cases hd : (dg == some tc.digest) = true
      · simp only [hd, ↓reduceIte]
      · simp only [hd, Bool.false_eq_true, ↓reduceIte]; rfl

theorem hashInv_dlSelect (e : Env) (st : St) (hw : st.writeInChunk = 0) : HashInv (dlSelect e st).2 := by
  have hv : (dlVerify e st).2.writeInChunk = 0 := by
    unfold dlVerify; split
    · rw [wic_setChunkValid]; exact hw
    · exact hw
  unfold dlSelect
  simp only
  split
  · intro hpos; simp only at hpos; omega
  · apply hashInv_dlOpen; intro hpos; omega

/-- the result of `dl_write_range` does not depend on the fuel once there is enough of it -/
theorem dwr_fuel (e : Env) : ∀ (F F' : Nat) (st : St) (x : Bytes), dneed st x ≤ F → dneed st x ≤ F' →
    dlWriteRange e F st x = dlWriteRange e F' st x
  | 0, _, st, x, h, _ => by unfold dneed at h; omega
  | _, 0, st, x, _, h => by unfold dneed at h; omega
  | F + 1, F' + 1, st, x, hF, hF' => by
    by_cases he : st.err = true
    · unfold dlWriteRange; simp [he]
    by_cases hr : e.ridx.isEmpty = true
    · unfold dlWriteRange; simp [he, hr]
    have he' : st.err = false := by simpa using he
    have hr' : e.ridx.isEmpty = false := by simpa using hr
    cases hw : dlWrite st x with
    | mk o st1 =>
      cases o with
      | none => rw [dwr_step_none e F st st1 x he' hr' hw, dwr_step_none e F' st st1 x he' hr' hw]
      | some wb =>
        rw [dwr_step e F st st1 x wb he' hr' hw, dwr_step e F' st st1 x wb he' hr' hw]
        unfold cont bump
        simp only
        have hs := C17.dlWrite_some st x wb st1 hw
        generalize hrr : (if st1.writeInChunk = 0 then dlSelect e st1 else (true, st1)) = r
        by_cases hok : r.1 = true
        · simp only [hok, not_true_eq_false, ↓reduceIte]
          by_cases hrec : r.2.writeInChunk > 0 ∧ wb < x.length
          · simp only [hrec, and_self, ↓reduceIte]
            have hlen : (x.drop wb).length = x.length - wb := by simp
            have hneed : dneed r.2 (x.drop wb) ≤ F ∧ dneed r.2 (x.drop wb) ≤ F' := by
              unfold dneed at hF hF' ⊢
              rw [hlen]
              have hne : r.2.writeInChunk ≠ 0 := by omega
              simp only [hne, ↓reduceIte]
              by_cases h0 : st.writeInChunk = 0
              · simp only [h0, ↓reduceIte] at hF hF'
                have := hs.1 h0
                omega
              · simp only [h0, ↓reduceIte] at hF hF'
                have := hs.2 (by omega)
                omega
            rw [dwr_fuel e F F' r.2 (x.drop wb) hneed.1 hneed.2]
          · simp only [hrec, ↓reduceIte]
        · simp only [hok, Bool.false_eq_true, not_false_eq_true, ↓reduceIte]

/-- writing `a ++ b` into an open chunk that has room for more than `a` = writing `a`, then `b` -/
theorem dlWrite_append (st : St) (a b acc : Bytes) (hw : st.writeInChunk > a.length) (hh : st.hash = some acc)
    (ha : a ≠ []) (hb : b ≠ []) :
    ∃ st1 wq stq, dlWrite st a = (some a.length, st1) ∧ st1.writeInChunk = st.writeInChunk - a.length ∧
      st1.hash = some (acc ++ a) ∧ st1.err = st.err ∧
      dlWrite st1 b = (some wq, stq) ∧ 0 < wq ∧ wq ≤ b.length ∧
      dlWrite st (a ++ b) = (some (a.length + wq), stq) ∧ (a ++ b).drop (a.length + wq) = b.drop wq := by
  have hal : 0 < a.length := List.length_pos_iff.mpr ha
  have hbl : 0 < b.length := List.length_pos_iff.mpr hb
  have h1 := dlWrite_open st a acc (by omega) hh ha
  have hmin1 : min st.writeInChunk a.length = a.length := by omega
  rw [hmin1] at h1
  simp only [List.take_length] at h1
  generalize hst1 : ({ st with file := writeAt st.file st.pos a, pos := st.pos + a.length, writeInChunk := st.writeInChunk - a.length, hash := some (acc ++ a), dlChunkData := st.dlChunkData + a.length } : St) = st1 at h1
  have hw1 : st1.writeInChunk = st.writeInChunk - a.length := by rw [← hst1]
  have hh1 : st1.hash = some (acc ++ a) := by rw [← hst1]
  have h2 := dlWrite_open st1 b (acc ++ a) (by omega) hh1 hb
  refine ⟨st1, min st1.writeInChunk b.length, _, h1, hw1, hh1, by rw [← hst1], h2, by omega, by omega, ?_, ?_⟩
  · have h3 := dlWrite_open st (a ++ b) acc (by omega) hh (by simp [ha])
    rw [h3]
    have hmin : min st.writeInChunk (a ++ b).length = a.length + min st1.writeInChunk b.length := by
      simp only [List.length_append]; omega
    rw [hmin]
    have htake : (a ++ b).take (a.length + min st1.writeInChunk b.length)
        = a ++ b.take (min st1.writeInChunk b.length) := by
      rw [List.take_append]
      simp only [Nat.add_sub_cancel_left]
      rw [List.take_of_length_le (by omega)]
    simp only [htake, Prod.mk.injEq, true_and]
    rw [← hst1]
    simp only [St.mk.injEq, List.append_assoc, and_true, true_and]
    refine ⟨(writeAt_writeAt _ _ _ _).symm, by omega, by omega, by omega⟩
  · rw [List.drop_append]
    simp

/-- how two consecutive deliveries combine into the result of delivering them at once -/
def combine (e : Env) (G : Nat) (a b : Bytes) (p : Nat × St) : Nat × St :=
  if p.1 = a.length ∧ p.2.writeInChunk > 0 ∧ b ≠ [] then bump a.length (dlWriteRange e G p.2 b) else p

theorem bump_combine (e : Env) (G : Nat) (a a' b : Bytes) (wb : Nat) (p' : Nat × St)
    (hl : a.length = wb + a'.length) (ha' : 0 < a'.length) :
    bump wb (combine e G a' b p') = combine e G a b (bump wb p') := by
  obtain ⟨p1, p2⟩ := p'
  unfold combine
  by_cases hc : p1 = a'.length ∧ p2.writeInChunk > 0 ∧ b ≠ []
  · obtain ⟨h1, h2, h3⟩ := hc
    have hp0 : p1 ≠ 0 := by omega
    have e1 : bump wb (p1, p2) = (wb + p1, p2) := by simp [bump, hp0]
    rw [e1]
    simp only
    rw [if_pos ⟨h1, h2, h3⟩, if_pos ⟨by omega, h2, h3⟩]
    generalize dlWriteRange e G p2 b = q
    obtain ⟨q1, q2⟩ := q
    unfold bump
    by_cases hq : q1 = 0
    · simp [hq]
    · simp only [hq, ↓reduceIte]
      rw [if_neg (by omega)]
      congr 1
      omega
  · simp only
    rw [if_neg hc]
    unfold bump
    by_cases hp0 : p1 = 0
    · simp only [hp0, ↓reduceIte]
      rw [if_neg (by intro hx; have := hx.1; omega)]
    · simp only [hp0, ↓reduceIte]
      rw [if_neg (by
        intro hx
        apply hc
        exact ⟨by have := hx.1; omega, hx.2.1, hx.2.2⟩)]

theorem err_dlSelect (e : Env) (st : St) (h : (dlSelect e st).1 = true) : (dlSelect e st).2.err = st.err := by
  have hv : (dlVerify e st).1 = true → (dlVerify e st).2.err = st.err := by
    unfold dlVerify
    split
    · rename_i k _
      unfold setChunkValid
      cases e.hdr.chunks[k]? with
      | none => simp
      | some tc =>
        simp only
        cases hh : st.hash with
        | none => simp
        | some acc =>
          simp only
          generalize (if tc.compLen = 0 then (hsize e.hdr.chunkHashType).map zeros else e.H e.hdr.chunkHashType acc) = dg
          by_cases hd : (dg == some tc.digest) = true
          · simp only [hd, ↓reduceIte]; intro _; trivial
          · simp only [hd, Bool.false_eq_true, ↓reduceIte]; intro hx; simp at hx
    · intro _; rfl
  have ho : ∀ s : St, (dlOpen e s).err = s.err := by
    intro s; unfold dlOpen; simp only; split
    · split <;> rfl
    · rfl
  unfold dlSelect at h ⊢
  simp only at h ⊢
  split at h
  · simp at h
  · rename_i hx
    rw [if_neg hx]
    simp only
    rw [ho]
    exact hv (by simpa using hx)

/-- what `cont` gives on `a ++ b`, in terms of what it gives on `a`, when the first `dl_write` took the same `wb ≤ |a|`
bytes in both and left the same state -/
theorem cont_split (e : Env) (G : Nat) (wb : Nat) (st1 : St) (a b : Bytes) (hwb : wb ≤ a.length) (ha : a ≠ [])
    (hfuel : 2 * (a.length + b.length) + 2 ≤ G + 1)
    (he1 : st1.err = false) (hi1 : HashInv st1)
    (ih : ∀ (st' : St) (a' : Bytes), a' ≠ [] → st'.writeInChunk > 0 → a'.length + wb ≤ a.length → st'.err = false → HashInv st' →
        dlWriteRange e (G + 1) st' (a' ++ b) = combine e (G + 1) a' b (dlWriteRange e (G + 1) st' a')) :
    cont e G wb st1 (a ++ b) = combine e (G + 1) a b (cont e G wb st1 a) := by
  have hal : 0 < a.length := List.length_pos_iff.mpr ha
  unfold cont
  simp only
  generalize hrr : (if st1.writeInChunk = 0 then dlSelect e st1 else (true, st1)) = r
  have herr : r.1 = true → r.2.err = false := by
    intro hr1
    rw [← hrr] at hr1 ⊢
    split
    · rename_i h0; rw [if_pos h0] at hr1; rw [err_dlSelect e st1 hr1]; exact he1
    · exact he1
  have hinv : HashInv r.2 := by
    rw [← hrr]
    split
    · rename_i h0; exact hashInv_dlSelect e st1 h0
    · exact hi1
  by_cases hok : r.1 = true
  · simp only [hok, not_true_eq_false, ↓reduceIte]
    by_cases hw : r.2.writeInChunk > 0
    · have hwne : r.2.writeInChunk ≠ 0 := by omega
      by_cases hlt : wb < a.length
      · have hab : wb < (a ++ b).length := by simp; omega
        rw [if_pos ⟨hw, hab⟩, if_pos ⟨hw, hlt⟩]
        have hdrop : (a ++ b).drop wb = a.drop wb ++ b := by
          rw [List.drop_append_of_le_length (by omega)]
        rw [hdrop]
        have hne : a.drop wb ≠ [] := by
          intro h; have := congrArg List.length h; simp at this; omega
        have hdl : (a.drop wb).length = a.length - wb := by simp
        have f1 : dlWriteRange e G r.2 (a.drop wb ++ b) = dlWriteRange e (G + 1) r.2 (a.drop wb ++ b) :=
          dwr_fuel e G (G + 1) r.2 _ (by unfold dneed; simp only [List.length_append, hdl, hwne, ↓reduceIte]; omega)
            (by unfold dneed; simp only [List.length_append, hdl, hwne, ↓reduceIte]; omega)
        have f2 : dlWriteRange e G r.2 (a.drop wb) = dlWriteRange e (G + 1) r.2 (a.drop wb) :=
          dwr_fuel e G (G + 1) r.2 _ (by unfold dneed; simp only [hdl, hwne, ↓reduceIte]; omega)
            (by unfold dneed; simp only [hdl, hwne, ↓reduceIte]; omega)
        rw [f1, f2, ih r.2 (a.drop wb) hne hw (by omega) (herr hok) hinv]
        exact bump_combine e (G + 1) a (a.drop wb) b wb _ (by omega) (by omega)
      · have hwa : wb = a.length := by omega
        subst hwa
        rw [if_neg (by intro hx; omega : ¬ (r.2.writeInChunk > 0 ∧ a.length < a.length))]
        by_cases hb : b = []
        · subst hb
          simp [combine]
        · have hbl : 0 < b.length := List.length_pos_iff.mpr hb
          have hab : a.length < (a ++ b).length := by simp; omega
          rw [if_pos ⟨hw, hab⟩]
          simp only [List.drop_left]
          unfold combine
          rw [if_pos ⟨rfl, hw, hb⟩]
          rw [dwr_fuel e G (G + 1) r.2 b (by unfold dneed; simp only [hwne, ↓reduceIte]; omega)
            (by unfold dneed; simp only [hwne, ↓reduceIte]; omega)]
    · have hw0 : ¬ (r.2.writeInChunk > 0 ∧ wb < (a ++ b).length) := fun h => hw h.1
      have hw1 : ¬ (r.2.writeInChunk > 0 ∧ wb < a.length) := fun h => hw h.1
      rw [if_neg hw0, if_neg hw1]
      unfold combine
      rw [if_neg (by intro hx; exact hw hx.2.1)]
  · simp only [hok, Bool.false_eq_true, not_false_eq_true, ↓reduceIte]
    unfold combine
    rw [if_neg (by intro hx; have := hx.1; simp only at this; omega)]

theorem dlWrite_err (st st1 : St) (x : Bytes) (wb : Nat) (h : dlWrite st x = (some wb, st1)) : st1.err = st.err := by
  unfold dlWrite at h
  by_cases hw : st.writeInChunk > 0
  · simp only [hw, ↓reduceIte] at h
    generalize (if st.writeInChunk < x.length then st.writeInChunk else x.length) = w at h
    by_cases h0 : w = 0
    · simp [h0] at h
    · simp only [h0, ↓reduceIte] at h
      cases hh : st.hash with
      | none => simp [hh] at h
      | some acc => simp only [hh, Prod.mk.injEq, Option.some.injEq] at h; rw [← h.2]
  · simp only [hw, ↓reduceIte, Prod.mk.injEq, Option.some.injEq] at h; rw [← h.2]

/-- **split lemma, a chunk open**: delivering `a ++ b` to `dl_write_range` = delivering `a`, then (if `a` was taken
completely and a chunk is still open) `b` -/
theorem dwr_split_open (e : Env) (hr : e.ridx.isEmpty = false) : ∀ (n : Nat) (st : St) (a b : Bytes) (G : Nat),
    a.length ≤ n → a ≠ [] → st.writeInChunk > 0 → 2 * (a.length + b.length) + 2 ≤ G + 1 → st.err = false → HashInv st →
    dlWriteRange e (G + 1) st (a ++ b) = combine e (G + 1) a b (dlWriteRange e (G + 1) st a)
  | 0, st, a, b, G, hn, ha, _, _, _, _ => by
    have := List.length_pos_iff.mpr ha; omega
  | n + 1, st, a, b, G, hn, ha, hw, hfuel, he, hi => by
    obtain ⟨acc, hacc⟩ := hi hw
    have hal : 0 < a.length := List.length_pos_iff.mpr ha
    by_cases hb : b = []
    · subst hb; simp [combine]
    by_cases hbig : st.writeInChunk > a.length
    · -- the open chunk takes all of `a` and more
      obtain ⟨st1, wq, stq, h1, hw1, hh1, he1, h2, hq0, hq1, h3, hdrop⟩ := dlWrite_append st a b acc hbig hacc ha hb
      have hp : dlWriteRange e (G + 1) st a = (a.length, st1) := by
        rw [dwr_step e G st st1 a a.length he hr h1]
        unfold cont
        have : st1.writeInChunk ≠ 0 := by omega
        simp [this]
      rw [hp]
      unfold combine
      rw [if_pos ⟨rfl, by simp only; omega, hb⟩]
      simp only
      rw [dwr_step e G st stq (a ++ b) (a.length + wq) he hr h3]
      rw [dwr_step e G st1 stq b wq (by rw [he1]; exact he) hr h2]
      unfold cont
      simp only
      rw [hdrop]
      generalize (if stq.writeInChunk = 0 then dlSelect e stq else (true, stq)) = r
      by_cases hok : r.1 = true
      · simp only [hok, not_true_eq_false, ↓reduceIte]
        by_cases hrec : r.2.writeInChunk > 0 ∧ wq < b.length
        · rw [if_pos hrec, if_pos ⟨hrec.1, by simp; omega⟩]
          generalize dlWriteRange e G r.2 (b.drop wq) = x
          obtain ⟨x1, x2⟩ := x
          unfold bump
          by_cases hx : x1 = 0
          · simp [hx]
          · simp only [hx, ↓reduceIte]
            rw [if_neg (by omega)]
            congr 1
            omega
        · rw [if_neg hrec, if_neg (by intro hx; apply hrec; exact ⟨hx.1, by have := hx.2; simp at this; omega⟩)]
          unfold bump
          simp only
          rw [if_neg (by omega)]
      · simp only [hok, Bool.false_eq_true, not_false_eq_true, ↓reduceIte]
        simp [bump]
    · -- the open chunk ends inside (or exactly at the end of) `a`: the first dl_write is the same for both
      have hle : st.writeInChunk ≤ a.length := by omega
      have h1 := dlWrite_open st a acc hw hacc ha
      have h2 := dlWrite_open st (a ++ b) acc hw hacc (by simp [ha])
      have hm1 : min st.writeInChunk a.length = st.writeInChunk := by omega
      have hm2 : min st.writeInChunk (a ++ b).length = st.writeInChunk := by simp; omega
      rw [hm1] at h1
      rw [hm2, List.take_append_of_le_length hle] at h2
      rw [dwr_step e G st _ (a ++ b) _ he hr h2, dwr_step e G st _ a _ he hr h1]
      apply cont_split e G st.writeInChunk _ a b hle ha hfuel (by simp only; exact he)
      · intro hx; simp only at hx; omega
      · intro st' a' ha' hw' hl' he' hi'
        exact dwr_split_open e hr n st' a' b G (by omega) ha' hw' (by omega) he' hi'

/-- **split lemma** (any state): `dl_write_range` on `a ++ b` = on `a`, then on `b` if `a` was taken completely and a
chunk is still open; otherwise `b` is not looked at -/
theorem dwr_split (e : Env) (hr : e.ridx.isEmpty = false) (st : St) (a b : Bytes) (G : Nat) (ha : a ≠ [])
    (hfuel : 2 * (a.length + b.length) + 2 ≤ G + 1) (he : st.err = false) (hi : HashInv st) :
    dlWriteRange e (G + 1) st (a ++ b) = combine e (G + 1) a b (dlWriteRange e (G + 1) st a) := by
  by_cases hw : st.writeInChunk > 0
  · exact dwr_split_open e hr a.length st a b G (Nat.le_refl _) ha hw hfuel he hi
  · have hw0 : st.writeInChunk = 0 := by omega
    rw [dwr_step e G st st (a ++ b) 0 he hr (dlWrite_closed st _ hw0),
        dwr_step e G st st a 0 he hr (dlWrite_closed st _ hw0)]
    apply cont_split e G 0 st a b (Nat.zero_le _) ha hfuel he hi
    intro st' a' ha' hw' hl' he' hi'
    exact dwr_split_open e hr a'.length st' a' b G (Nat.le_refl _) ha' hw' (by omega) he' hi'

theorem hashInv_dwr (e : Env) : ∀ (F : Nat) (st : St) (x : Bytes), HashInv st → HashInv (dlWriteRange e F st x).2
  | 0, st, x, h => by unfold dlWriteRange; exact h
  | F + 1, st, x, h => by
    by_cases he : st.err = true
    · unfold dlWriteRange; simp only [he, ↓reduceIte]; exact h
    by_cases hr : e.ridx.isEmpty = true
    · unfold dlWriteRange; simp only [he, hr, Bool.false_eq_true, ↓reduceIte]; exact h
    have he' : st.err = false := by simpa using he
    have hr' : e.ridx.isEmpty = false := by simpa using hr
    have h1 := hashInv_dlWrite st x h
    cases hw : dlWrite st x with
    | mk o st1 =>
      rw [hw] at h1
      cases o with
      | none => rw [dwr_step_none e F st st1 x he' hr' hw]; exact h1
      | some wb =>
        rw [dwr_step e F st st1 x wb he' hr' hw]
        unfold cont
        simp only
        have hrr : HashInv (if st1.writeInChunk = 0 then dlSelect e st1 else (true, st1)).2 := by
          split
          · rename_i h0; exact hashInv_dlSelect e st1 h0
          · exact h1
        generalize (if st1.writeInChunk = 0 then dlSelect e st1 else (true, st1)) = r at hrr ⊢
        split
        · exact hrr
        · split
          · have := hashInv_dwr e F r.2 (x.drop wb) hrr
            unfold bump
            split
            · exact this
            · exact this
          · exact hrr

theorem dwr_ok_err (e : Env) : ∀ (F : Nat) (st : St) (x : Bytes), (dlWriteRange e F st x).1 ≠ 0 →
    (dlWriteRange e F st x).2.err = false
  | 0, st, x, h => by unfold dlWriteRange at h; simp at h
  | F + 1, st, x, h => by
    by_cases he : st.err = true
    · unfold dlWriteRange at h; simp [he] at h
    by_cases hr : e.ridx.isEmpty = true
    · unfold dlWriteRange at h; simp [he, hr] at h
    have he' : st.err = false := by simpa using he
    have hr' : e.ridx.isEmpty = false := by simpa using hr
    cases hw : dlWrite st x with
    | mk o st1 =>
      cases o with
      | none => rw [dwr_step_none e F st st1 x he' hr' hw] at h; simp at h
      | some wb =>
        have he1 : st1.err = false := by rw [dlWrite_err st st1 x wb hw]; exact he'
        rw [dwr_step e F st st1 x wb he' hr' hw] at h ⊢
        unfold cont at h ⊢
        simp only at h ⊢
        have herr : (if st1.writeInChunk = 0 then dlSelect e st1 else (true, st1)).1 = true →
            (if st1.writeInChunk = 0 then dlSelect e st1 else (true, st1)).2.err = false := by
          intro hr1
          split
          · rename_i h0; rw [if_pos h0] at hr1; rw [err_dlSelect e st1 hr1]; exact he1
          · exact he1
        generalize (if st1.writeInChunk = 0 then dlSelect e st1 else (true, st1)) = r at herr h ⊢
        by_cases hok : r.1 = true
        · simp only [hok, not_true_eq_false, ↓reduceIte] at h ⊢
          split
          · rename_i hrec
            rw [if_pos hrec] at h
            unfold bump at h ⊢
            by_cases hx : (dlWriteRange e F r.2 (x.drop wb)).1 = 0
            · simp [hx] at h
            · simp only [hx, ↓reduceIte]
              exact dwr_ok_err e F r.2 (x.drop wb) hx
          · exact herr hok
        · simp [hok] at h

/-- fragments delivered one after the other, as long as each is taken completely and leaves a chunk open -/
def ChainOk (e : Env) (G : Nat) : St → List Bytes → Prop
  | _, [] => True
  | st, f :: rest =>
    (dlWriteRange e G st f).1 = f.length ∧ (dlWriteRange e G st f).2.writeInChunk > 0 ∧ ChainOk e G (dlWriteRange e G st f).2 rest

def chainEnd (e : Env) (G : Nat) : St → List Bytes → St
  | st, [] => st
  | st, f :: rest => chainEnd e G (dlWriteRange e G st f).2 rest

/-- **fragmentation law of `dl_write_range`**: for ANY bytes — if delivering the fragments `fs` one by one takes each of them
completely and leaves a chunk open (as is the case at every cut of a well-formed payload), then delivering `fs` and `last`
glued together in ONE call ends in exactly the state (file, marks, open chunk, running hash, everything) of delivering `last`
after the fragments, and fails exactly when that last delivery fails -/
theorem dwr_frags (e : Env) (hr : e.ridx.isEmpty = false) (G : Nat) : ∀ (fs : List Bytes) (st : St) (last : Bytes),
    (∀ f ∈ fs, f ≠ []) → last ≠ [] → 2 * (fs.flatten.length + last.length) + 2 ≤ G + 1 → st.err = false → HashInv st →
    ChainOk e (G + 1) st fs →
    dlWriteRange e (G + 1) st (fs.flatten ++ last) =
      bump fs.flatten.length (dlWriteRange e (G + 1) (chainEnd e (G + 1) st fs) last) ∨
    (fs = [] ∧ dlWriteRange e (G + 1) st (fs.flatten ++ last) = dlWriteRange e (G + 1) (chainEnd e (G + 1) st fs) last)
  | [], st, last, _, _, _, _, _, _ => by right; simp [chainEnd]
  | f :: rest, st, last, hne, hl, hfuel, he, hi, hc => by
    left
    obtain ⟨c1, c2, c3⟩ := hc
    have hf : f ≠ [] := hne f List.mem_cons_self
    have hfl : 0 < f.length := List.length_pos_iff.mpr hf
    simp only [List.flatten_cons, List.length_append] at hfuel ⊢
    rw [List.append_assoc]
    rw [dwr_split e hr st f (rest.flatten ++ last) G hf (by simp only [List.length_append]; omega) he hi]
    unfold combine
    rw [if_pos ⟨c1, c2, by simp [hl]⟩]
    have he2 : (dlWriteRange e (G + 1) st f).2.err = false := dwr_ok_err e (G + 1) st f (by omega)
    have hi2 := hashInv_dwr e (G + 1) st f hi
    rcases dwr_frags e hr G rest (dlWriteRange e (G + 1) st f).2 last (fun g hg => hne g (List.mem_cons_of_mem _ hg)) hl
      (by omega) he2 hi2 c3 with h | ⟨hnil, h⟩
    · rw [h]
      simp only [chainEnd]
      generalize dlWriteRange e (G + 1) (chainEnd e (G + 1) (dlWriteRange e (G + 1) st f).2 rest) last = x
      obtain ⟨x1, x2⟩ := x
      unfold bump
      by_cases hx : x1 = 0
      · simp [hx]
      · simp only [hx, ↓reduceIte]
        rw [if_neg (by omega)]
        congr 1
        omega
    · subst hnil
      rw [h]
      simp [chainEnd]


theorem bump_snd (w : Nat) (x : Nat × St) : (bump w x).2 = x.2 := by unfold bump; split <;> rfl
theorem bump_zero_iff (w : Nat) (x : Nat × St) : (bump w x).1 = 0 ↔ x.1 = 0 := by
  unfold bump; split
  · rename_i h; simp [h]
  · rename_i h; simp only; constructor
    · intro hx; omega
    · intro hx; exact absurd hx h

/-- **C05 (fragmentation independence, single-range path)**: for any bytes and any cutting of them into non-empty
fragments `fs ++ [last]` such that every fragment but the last is taken completely and leaves a chunk open (every cut of a
well-formed payload is such a cut): ONE call with all the bytes ends in exactly the state — target file, chunk marks, open
chunk, running checksum — of the fragment-by-fragment delivery, and is refused exactly when the last fragment is -/
theorem dwr_frags_state (e : Env) (hr : e.ridx.isEmpty = false) (G : Nat) (fs : List Bytes) (st : St) (last : Bytes)
    (hne : ∀ f ∈ fs, f ≠ []) (hl : last ≠ []) (hfuel : 2 * (fs.flatten.length + last.length) + 2 ≤ G + 1)
    (he : st.err = false) (hi : HashInv st) (hc : ChainOk e (G + 1) st fs) :
    (dlWriteRange e (G + 1) st (fs.flatten ++ last)).2 = (dlWriteRange e (G + 1) (chainEnd e (G + 1) st fs) last).2 ∧
    ((dlWriteRange e (G + 1) st (fs.flatten ++ last)).1 = 0 ↔ (dlWriteRange e (G + 1) (chainEnd e (G + 1) st fs) last).1 = 0) := by
  rcases dwr_frags e hr G fs st last hne hl hfuel he hi hc with h | ⟨_, h⟩
  · rw [h]; exact ⟨bump_snd _ _, bump_zero_iff _ _⟩
  · rw [h]; exact ⟨rfl, Iff.rfl⟩

/-- a fresh download context satisfies the hypotheses -/
example (f : Bytes) (v : List Int) : ({ file := f, pos := 0, valid := v } : St).err = false ∧ HashInv { file := f, pos := 0, valid := v } :=
  ⟨rfl, fun h => by simp at h⟩

/-- TEST (non-vacuity): on the toy session of C17 the cut after two bytes — inside the first chunk — is such a cut, and the
theorem's conclusion can be observed: one call with all five bytes ends in the state of the two-call delivery -/
example : ChainOk C17.toyEnv 13 C17.toySt [[1, 2]] ∧
    (dlWriteRange C17.toyEnv 13 C17.toySt ([[1, 2]].flatten ++ [3, 4, 5])).2.file = [9, 9, 9, 9, 9, 9, 1, 2, 3, 4, 5] := by
  unfold ChainOk ChainOk
  decide

end Zck.C05
