import ZckModel.Writer
import ZckModel.Pred.Write
namespace Zck.C01
end Zck.C01
