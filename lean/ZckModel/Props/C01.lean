/-
C01 — Round trip: anything written reads back byte-identical and fully valid.
What is proved about the chunker model (`Writer.lean`), for EVERY configuration with legal limits,
every content and every sequence of write / end-of-chunk calls, manual or automatic:
a successful close never loses, duplicates or reorders bytes — the data chunks of the produced
file, concatenated in order, are exactly the bytes written.  (That each chunk is stored, indexed,
check-summed and decoded back correctly is the reader-side properties C02/C13/C15 plus the codec
round-trip assumption; end to end it is exercised by the WRITE ops, which re-open, validate and
read back every produced file.)  Termination of the write path is NOT a theorem: the model's
re-examination loop carries fuel and the C loop's termination depends on rolling-hash values;
hangs are looked for by the correspondence runs under a wall-clock bound.
-/
import ZckModel.WriterLemmas
import ZckModel.Tools
import ZckModel.Pred.Write

namespace Zck.C01
open Zck Zck.Writer

/-- invariant of the writer state between API calls -/
def J (cfg : Cfg) (st : St) : Prop := Wf st ∧ (cfg.manual = true → st.curLen ≤ cfg.chunkMax)

def opBytes : Op → Bytes
  | .write bs => bs
  | .endChunk => []

theorem endChunk_curLen (cfg : Cfg) (st : St) (force : Bool) :
    (endChunk cfg st force).curLen = st.curLen ∨ (endChunk cfg st force).curLen = 0 := by
  unfold endChunk
  split
  · left; rfl
  · split
    · left; rfl
    · right; rfl

/-- one API call accounts for exactly its bytes -/
theorem applyOp_content (cfg : Cfg) (hl : Legal cfg) (st st' : St) (op : Op) (hj : J cfg st)
    (h : applyOp cfg st op = some st') : content st' = content st ++ opBytes op ∧ J cfg st' := by
  cases op with
  | endChunk =>
    simp only [applyOp, Option.some.injEq] at h
    subst h
    refine ⟨by simp [endChunk_content, opBytes], endChunk_wf cfg st false hj.1, ?_⟩
    intro hm
    rcases endChunk_curLen cfg st false with h | h
    · rw [h]; exact hj.2 hm
    · rw [h]; omega
  | write bs =>
    unfold applyOp at h
    by_cases he : bs.isEmpty = true
    · simp only [he, ↓reduceIte, Option.some.injEq] at h
      subst h
      have : bs = [] := by simpa using he
      subst this
      exact ⟨by simp [opBytes], hj⟩
    · simp only [he, Bool.false_eq_true, ↓reduceIte] at h
      by_cases hm : cfg.manual = true
      · simp only [hm, ↓reduceIte, Option.some.injEq] at h
        subst h
        have := writeManual_content cfg hl (bs.length + 1) st bs hj.1 (hj.2 hm) (by split <;> omega)
        exact ⟨this.1, this.2.1, fun _ => this.2.2⟩
      · simp only [hm, Bool.false_eq_true, ↓reduceIte] at h
        have := writeAuto_content cfg bs st st' hj.1 h
        exact ⟨this.1, this.2, fun hm' => absurd hm' hm⟩

theorem run_content (cfg : Cfg) (hl : Legal cfg) : ∀ (ops : List Op) (st st' : St), J cfg st →
    run cfg st ops = some st' → content st' = content st ++ written ops ∧ J cfg st'
  | [], st, st', hj, h => by
    simp only [run, Option.some.injEq] at h; subst h; exact ⟨by simp [written], hj⟩
  | op :: ops, st, st', hj, h => by
    simp only [run] at h
    cases ha : applyOp cfg st op with
    | none => rw [ha] at h; cases h
    | some s =>
      rw [ha] at h
      obtain ⟨c1, j1⟩ := applyOp_content cfg hl st s op hj ha
      obtain ⟨c2, j2⟩ := run_content cfg hl ops s st' j1 h
      refine ⟨?_, j2⟩
      rw [c2, c1, List.append_assoc]
      congr 1
      cases op <;> simp [written, opBytes]

/-- **C01 (structure)**: for every legal configuration and every sequence of write /
end-of-chunk calls, if the calls and the close complete, the data chunks of the file,
concatenated in order, are exactly the bytes that were written: nothing lost (not even a final
chunk below the minimum size), nothing duplicated, nothing reordered. -/
theorem W_structure (cfg : Cfg) (hl : Legal cfg.norm) (ops : List Op) (cs : List Bytes)
    (h : closeChunks cfg ops = some cs) : cs.flatten = written ops := by
  unfold closeChunks at h
  cases hr : run cfg.norm {} ops with
  | none => rw [hr] at h; cases h
  | some st =>
    rw [hr] at h
    simp only [Option.map_some, Option.some.injEq] at h
    have hj0 : J cfg.norm {} := ⟨wf_init, fun _ => Nat.zero_le _⟩
    obtain ⟨c1, j1⟩ := run_content cfg.norm hl ops {} st hj0 hr
    have hc : content (endChunk cfg.norm st true) = written ops := by
      rw [endChunk_content, c1]; simp [content, St.cur]
    -- after the forced end nothing is left under construction
    have hempty : (endChunk cfg.norm st true).cur = [] := by
      rcases endChunk_chunks cfg.norm st true with hc' | ⟨_, _, hr0, _, _⟩
      · -- nothing was appended: only possible when nothing was under construction
        unfold endChunk at hc' ⊢
        by_cases h0 : st.curLen = 0
        · have : st.curR.length = 0 := by rw [← j1.1]; exact h0
          have hn : st.curR = [] := List.eq_nil_of_length_eq_zero this
          simp [h0, St.cur, hn]
        · simp [h0] at hc'
      · simp [St.cur, hr0]
    rw [← h]
    have := hc
    unfold content at this
    rw [hempty, List.append_nil] at this
    exact this

/-- the normalised default configuration is legal -/
theorem defaults_legal : Legal (Cfg.norm { manual := false, chunkMin := 0, chunkMax := 0 }) := by
  unfold Legal; decide

/-! Non-vacuity (tests): a manual write crossing the maximum twice, and a final chunk below the minimum -/
example : closeChunks { manual := true, chunkMin := 3, chunkMax := 4 } [.write [1,2,3,4,5,6,7,8,9], .endChunk, .write [10]]
    = some [[1,2,3,4], [5,6,7,8], [9, 10]] := by decide
example : closeChunks { manual := true, chunkMin := 5, chunkMax := 100 } [.write [1,2]] = some [[1,2]] := by decide

end Zck.C01
