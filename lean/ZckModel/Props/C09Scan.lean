/-
C09 — the validity scan classifies every chunk exactly (chunk loop of `validate_checksums`), for EVERY on-disk state:
`scanLoop_exact` by induction over the index with the read position either exactly the chunk's offset or at the end of a
truncated file (then nothing further is present), `find_valid_exact` for `zck_find_valid_chunks` / `zck_validate_checksums`.
Not here: the overall verdict (1 iff everything and the whole-data checksum match) and the detached-header case, which stay
checked (SCAN ops); that validations leave the reader's state as they found it is `validateChecksums_restores` (C09.lean).
-/
import ZckModel.Props.C04Sound

namespace Zck.C09
open Zck Zck.Format Zck.Reader Zck.C04

/-- flags below the current index are never touched again by the chunk loop -/
theorem scanLoop_keep (H : HashFn) (f : Bytes) (hdr : Hdr) (useFull : Bool) :
    ∀ (cs : List Chunk) (k pos : Nat) (full : Option Bytes) (valid : List Int) (ag : Bool) (j : Nat), j < k →
      (scanLoop H f hdr useFull cs k pos full valid ag).2.2.1.getD j 0 = valid.getD j 0 := by
  intro cs
  induction cs with
  | nil => intro _ _ _ _ _ _ _; rfl
  | cons c cs ih =>
    intro k pos full valid ag j hj
    unfold scanLoop
    split
    · simp only
      split
      · rw [getD_setValid]; simp; omega
      · rw [ih _ _ _ _ _ j (by omega), getD_setValid]; simp; omega
    · simp only
      split
      · rw [getD_setValid]; rw [if_neg (by omega)]
      · rw [ih _ _ _ _ _ j (by omega), getD_setValid]; rw [if_neg (by omega)]

/-- **the validity scan is exact** (chunk loop of `validate_checksums`, a file with data): a chunk with stored bytes is
marked 1 if it is present and -1 otherwise — whatever else is in the file: other chunks absent, zeroed or garbage, the file
truncated anywhere or over-long -/
theorem scanLoop_exact (H : HashFn) (f : Bytes) (hdr : Hdr) (useFull : Bool) (hdet : hdr.detached = false) :
    ∀ (cs : List Chunk) (k s pos : Nat) (full : Option Bytes) (valid : List Int) (allGood : Bool),
    C13.RunFrom k s cs →
    (pos = hdr.lead + hdr.headerLen + s ∨ (f.length ≤ pos ∧ f.length < hdr.lead + hdr.headerLen + s)) →
    (k = 0 → ∀ c, cs.head? = some c → c.len = 0 → c.compLen = 0) →
    ∀ (i : Nat) (tc : Chunk), cs[i]? = some tc → tc.compLen ≠ 0 → k + i < valid.length →
      ((scanLoop H f hdr useFull cs k pos full valid allGood).2.2.1.getD (k + i) 0 = 1 ∧
          Present H hdr.chunkHashType (hdr.lead + hdr.headerLen) f tc) ∨
      ((scanLoop H f hdr useFull cs k pos full valid allGood).2.2.1.getD (k + i) 0 = -1 ∧
          ¬ Present H hdr.chunkHashType (hdr.lead + hdr.headerLen) f tc)
  | [], _, _, _, _, _, _, _, _, _, i, tc, h, _, _ => by simp at h
  | ch :: rest, k, s, pos, full, valid, allGood, hr, hpos, hdict, i, tc, hi, hz, hlt => by
    unfold scanLoop
    by_cases hfirst : k = 0 ∧ ch.len = 0
    · rw [if_pos hfirst]
      simp only [hdet, Bool.false_eq_true, ↓reduceIte]
      have hcz : ch.compLen = 0 := hdict hfirst.1 ch rfl hfirst.2
      cases i with
      | zero =>
        simp only [List.getElem?_cons_zero, Option.some.injEq] at hi
        subst hi; exact absurd hcz hz
      | succ i' =>
        simp only [List.getElem?_cons_succ] at hi
        have := scanLoop_exact H f hdr useFull hdet rest (k + 1) (s + ch.compLen) pos full (setValid valid 0 1) allGood hr.2.2
          (by rw [hcz]; simpa using hpos) (by omega) i' tc hi hz (by simp only [setValid, List.length_set]; omega)
        rw [show k + 1 + i' = k + (i' + 1) by omega] at this
        exact this
    · rw [if_neg hfirst]
      have hgl : (fileRead f pos ch.compLen).length ≤ ch.compLen := by
        unfold fileRead; simp only [List.length_take]; exact Nat.min_le_left _ _
      have h1 : (readPieces f pos ch.compLen).1 = fileRead f pos ch.compLen := rfl
      have h2 : (readPieces f pos ch.compLen).2.1 = pos + (fileRead f pos ch.compLen).length := rfl
      have h3 : (readPieces f pos ch.compLen).2.2 = decide ((fileRead f pos ch.compLen).length < ch.compLen) := rfl
      generalize readPieces f pos ch.compLen = rp at h1 h2 h3
      obtain ⟨got, pos', tr⟩ := rp
      simp only at h1 h2 h3 ⊢
      rw [← h1] at h2 h3 hgl
      have hgot : fileRead f pos ch.compLen = got := h1.symm
      subst h2 h3
      simp only [hdet, Bool.false_eq_true, ↓reduceIte]
      cases i with
      | zero =>
        simp only [List.getElem?_cons_zero, Option.some.injEq] at hi
        subst hi
        rw [scanLoop_keep H f hdr useFull rest (k + 1) _ _ _ _ (k + 0) (by omega), getD_setValid]
        rw [if_pos ⟨by omega, by omega⟩]
        -- the value assigned to this chunk
        unfold scanValue
        unfold Present
        rw [hr.2.1]
        cases hh : H hdr.chunkHashType got with
        | none =>
          right
          refine ⟨rfl, ?_⟩
          intro hp
          rcases hpos with hp0 | hp0
          · have : got = (f.drop (hdr.lead + hdr.headerLen + s)).take ch.compLen := by rw [← hgot, hp0]; rfl
            rw [← this, hh] at hp; simp at hp
          · omega
        | some d =>
          simp only [hz, ↓reduceIte]
          by_cases ht : got.length < ch.compLen
          · right
            simp only [ht, decide_true, ↓reduceIte]
            refine ⟨trivial, ?_⟩
            intro hp
            rcases hpos with hp0 | hp0
            · rw [← hgot, hp0] at ht; unfold fileRead at ht
              simp only [List.length_take, List.length_drop] at ht
              omega
            · omega
          · simp only [ht, decide_false, Bool.false_eq_true, ↓reduceIte]
            have hlen : got.length = ch.compLen := by omega
            have hfl : pos + ch.compLen ≤ f.length := by
              rw [← hgot] at hlen; unfold fileRead at hlen
              simp only [List.length_take, List.length_drop] at hlen
              omega
            have hp0 : pos = hdr.lead + hdr.headerLen + s := by rcases hpos with h | h; exact h; omega
            have hgot' : (f.drop (hdr.lead + hdr.headerLen + s)).take ch.compLen = got := by rw [← hgot, hp0]; rfl
            by_cases hd : d = ch.digest
            · left
              simp only [hd, ↓reduceIte, true_and]
              exact ⟨by omega, by rw [hgot', hh, hd]⟩
            · right
              simp only [hd, ↓reduceIte, true_and]
              intro hp
              rw [hgot', hh] at hp
              exact hd (by simpa using hp.2)
      | succ i' =>
        simp only [List.getElem?_cons_succ] at hi
        have hpos' : pos + got.length = hdr.lead + hdr.headerLen + (s + ch.compLen) ∨
            (f.length ≤ pos + got.length ∧ f.length < hdr.lead + hdr.headerLen + (s + ch.compLen)) := by
          by_cases ht : got.length < ch.compLen
          · right
            rw [← hgot] at ht ⊢; unfold fileRead at ht ⊢
            simp only [List.length_take, List.length_drop] at ht ⊢
            rcases hpos with hp | hp <;> omega
          · rcases hpos with hp | hp
            · left; omega
            · right; omega
        have := scanLoop_exact H f hdr useFull hdet rest (k + 1) (s + ch.compLen) (pos + got.length)
          (if useFull = true then hashUpd full got else full)
          (setValid valid k (scanValue H hdr ch got (decide (got.length < ch.compLen))))
          (allGood && decide (scanValue H hdr ch got (decide (got.length < ch.compLen)) = 1)) hr.2.2 hpos' (by omega) i' tc hi hz
          (by simp only [setValid, List.length_set]; omega)
        rw [show k + 1 + i' = k + (i' + 1) by omega] at this
        exact this


/-- **C09 (classification)**: `zck_find_valid_chunks` / `zck_validate_checksums` on a file with data, whatever its state
(chunks absent, zeroed, garbage; truncated anywhere; over-long): a chunk with stored bytes is marked valid ONLY IF it is
present, a chunk that is not present is marked FAILED, and every such chunk gets one of the two marks.  (When every chunk is
present but the whole-data checksum is wrong all are marked failed: the override the property names.) -/
theorem find_valid_exact (H : HashFn) (f : Bytes) (c : Ctx) (hdet : c.hdr.detached = false) (herr : c.err = false)
    (hrun : C13.RunFrom 0 0 c.hdr.chunks) (hdict : ∀ d, c.hdr.chunks.head? = some d → d.len = 0 → d.compLen = 0)
    (hlen : c.valid.length = c.hdr.chunks.length)
    (k : Nat) (tc : Chunk) (hk : c.hdr.chunks[k]? = some tc) (hz : tc.compLen ≠ 0) :
    ((validateChecksums H f c).2.valid.getD k 0 = 1 → Present H c.hdr.chunkHashType (c.hdr.lead + c.hdr.headerLen) f tc) ∧
    (¬ Present H c.hdr.chunkHashType (c.hdr.lead + c.hdr.headerLen) f tc → (validateChecksums H f c).2.valid.getD k 0 = -1) ∧
    ((validateChecksums H f c).2.valid.getD k 0 = 1 ∨ (validateChecksums H f c).2.valid.getD k 0 = -1) := by
  have hklt : k < c.valid.length := by rw [hlen]; exact (List.getElem?_eq_some_iff.mp hk).1
  have key := scanLoop_exact H f c.hdr (decide (¬ flag4 c = true)) hdet c.hdr.chunks 0 0 (Reader.dataOff c) (some []) c.valid true hrun
    (Or.inl (by simp [Reader.dataOff])) (fun _ => hdict) k tc hk hz (by omega)
  simp only [Nat.zero_add] at key
  have hshape : (validateChecksums H f c).2.valid = (scanLoop H f c.hdr (decide (¬ flag4 c = true)) c.hdr.chunks 0 (Reader.dataOff c) (some []) c.valid true).2.2.1 ∨
      (validateChecksums H f c).2.valid = ((scanLoop H f c.hdr (decide (¬ flag4 c = true)) c.hdr.chunks 0 (Reader.dataOff c) (some []) c.valid true).2.2.1).map (fun _ => -1) := by
    unfold validateChecksums
    simp only [herr, Bool.false_eq_true, ↓reduceIte]
    repeat' split
    all_goals simp
  have hsl : (scanLoop H f c.hdr (decide (¬ flag4 c = true)) c.hdr.chunks 0 (Reader.dataOff c) (some []) c.valid true).2.2.1.length = c.valid.length := by
    have : ∀ (cs : List Chunk) (k pos : Nat) (full : Option Bytes) (valid : List Int) (ag : Bool),
        (scanLoop H f c.hdr (decide (¬ flag4 c = true)) cs k pos full valid ag).2.2.1.length = valid.length := by
      intro cs
      induction cs with
      | nil => intro _ _ _ _ _; rfl
      | cons x xs ih =>
        intro k pos full valid ag
        unfold scanLoop
        split
        · simp only; split
          · simp [setValid]
          · rw [ih]; simp [setValid]
        · simp only; split
          · simp [setValid]
          · rw [ih]; simp [setValid]
    exact this _ _ _ _ _ _
  rcases hshape with h | h
  · rw [h]
    rcases key with ⟨k1, k2⟩ | ⟨k1, k2⟩
    · exact ⟨fun _ => k2, fun hn => absurd k2 hn, Or.inl k1⟩
    · exact ⟨fun h1 => by rw [k1] at h1; omega, fun _ => k1, Or.inr k1⟩
  · rw [h]
    have hm : (List.map (fun _ => (-1 : Int)) (scanLoop H f c.hdr (decide (¬ flag4 c = true)) c.hdr.chunks 0 (Reader.dataOff c) (some []) c.valid true).2.2.1).getD k 0 = -1 := by
      simp only [List.getD_eq_getElem?_getD, List.getElem?_map]
      rw [List.getElem?_eq_getElem (by rw [hsl]; exact hklt)]
      rfl
    rw [hm]
    exact ⟨fun h1 => by omega, fun _ => rfl, Or.inr rfl⟩

end Zck.C09
