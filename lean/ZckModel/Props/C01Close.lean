/-
C01 — the whole file `zck_close` writes, for ANY backend (`Encode.closeFile`: the compressor is a parameter `C`), reads back as the
chunks it was made of, under the one assumption a compressor has to meet: the backend's decompressor `D` inverts it
(and it does not turn content into nothing).  `closeFile` is compared with the implementation's output on every WRITE case
(compressed ones too: `C` = the table of stored forms libzstd produced in that run).
-/
import ZckModel.Props.C01Written

namespace Zck.EncP
open Zck Zck.Format Zck.Reader Zck.Encode Zck.Compint Zck.Header Zck.Stream

section
variable (H : Format.HashFn) (D : Decomp)

theorem mapM_spec {α β : Type} (g : α → Option β) : ∀ (xs : List α) (ys : List β),
    xs.mapM g = some ys →
    ys.length = xs.length ∧ ∀ (i : Nat) (x : α) (y : β), xs[i]? = some x → ys[i]? = some y → g x = some y
  | [], ys, h => by
    simp at h; subst h; exact ⟨rfl, fun i x y hx => by simp at hx⟩
  | x :: rest, ys, h => by
    rw [List.mapM_cons] at h
    cases he : g x with
    | none => rw [he] at h; simp at h
    | some y =>
      rw [he] at h
      cases hr : rest.mapM g with
      | none => rw [hr] at h; simp at h
      | some ys' =>
        rw [hr] at h
        simp at h
        subst h
        obtain ⟨l, ih⟩ := mapM_spec g rest ys' hr
        refine ⟨by simp [l], fun i x' y' hx hy => ?_⟩
        cases i with
        | zero => simp at hx hy; subst hx hy; exact he
        | succ i => simp at hx hy; exact ih i x' y' hx hy

/-- every entry with its chunk: stored form and content -/
def mkW : List Chunk → List (Bytes × Bytes × Bytes) → List WC
  | c :: cs, x :: xs => ⟨c, x.1, x.2.1⟩ :: mkW cs xs
  | _, _ => []

theorem mkW_maps : ∀ (cs : List Chunk) (xs : List (Bytes × Bytes × Bytes)), cs.length = xs.length →
    (mkW cs xs).map (·.c) = cs ∧ (mkW cs xs).map (·.st) = xs.map (·.1) ∧ (mkW cs xs).map (·.pl) = xs.map (·.2.1)
  | [], [], _ => ⟨rfl, rfl, rfl⟩
  | [], _ :: _, h => by simp at h
  | _ :: _, [], h => by simp at h
  | c :: cs, x :: xs, h => by
    obtain ⟨a, b, d⟩ := mkW_maps cs xs (by simpa using h)
    simp [mkW, a, b, d]

theorem mkW_mem : ∀ (cs : List Chunk) (xs : List (Bytes × Bytes × Bytes)) (w : WC), w ∈ mkW cs xs →
    ∃ (i : Nat) (upl : Bytes), cs[i]? = some w.c ∧ xs[i]? = some (w.st, w.pl, upl)
  | [], _, w, h => by simp [mkW] at h
  | _ :: _, [], w, h => by simp [mkW] at h
  | c :: cs, x :: xs, w, h => by
    simp only [mkW, List.mem_cons] at h
    rcases h with rfl | h
    · exact ⟨0, x.2.2, rfl, rfl⟩
    · obtain ⟨i, upl, a, b⟩ := mkW_mem cs xs w h
      exact ⟨i + 1, upl, by simpa using a, by simpa using b⟩

/-- what `entryOf` says about an entry and its chunk -/
theorem entryOf_spec (hH : HashLen H) (cht cs : Nat) (hcs : hsize cht = some cs) (u : Bool) (st pl upl : Bytes) (c : Chunk)
    (h : entryOf H cht u st pl upl = some c) :
    c.len = pl.length ∧ c.digest.length = cs ∧ (u = true → ∃ ud, c.udigest = some ud ∧ ud.length = cs) ∧
    (pl.length ≠ 0 → c.compLen = st.length ∧ H cht st = some c.digest) ∧ (pl.length = 0 → c.compLen = 0 ∧ c.digest = zeros cs) := by
  unfold entryOf at h
  by_cases h0 : pl.length = 0
  · rw [if_pos h0, hcs] at h
    simp only [Option.map_some, Option.some.injEq] at h
    subst h
    refine ⟨h0.symm, by simp [zeros], fun hu => ?_, fun hx => absurd h0 hx, fun _ => ⟨rfl, rfl⟩⟩
    subst hu
    exact ⟨zeros cs, rfl, by simp [zeros]⟩
  · rw [if_neg h0] at h
    cases hd : H cht st with
    | none => rw [hd] at h; simp at h
    | some d =>
      rw [hd] at h
      have hdl : d.length = cs := by
        have := hH cht st d hd
        rw [hcs] at this
        simpa using this.symm
      cases u with
      | false =>
        simp only [Bool.false_eq_true, if_false, Option.some.injEq] at h
        subst h
        exact ⟨rfl, hdl, (fun hx => by cases hx), fun _ => ⟨rfl, rfl⟩, fun hx => absurd hx h0⟩
      | true =>
        simp only [if_true] at h
        cases hu : H cht upl with
        | none => rw [hu] at h; simp at h
        | some ud =>
          rw [hu] at h
          simp only [Option.map_some, Option.some.injEq] at h
          subst h
          have hul : ud.length = cs := by
            have := hH cht upl ud hu
            rw [hcs] at this
            simpa using this.symm
          exact ⟨rfl, hdl, fun _ => ⟨ud, rfl, hul⟩, fun _ => ⟨rfl, rfl⟩, fun hx => absurd hx h0⟩

theorem entFits_gen (u : Bool) (cs hdrTotal : Nat) : ∀ (ents : List Chunk) (idxLoc : Nat),
    (∀ c ∈ ents, c.digest.length = cs ∧ (u = true → ∃ ud, c.udigest = some ud ∧ ud.length = cs) ∧ c.len ≤ 2^63 - 1) →
    idxLoc + C13.sumLen ents + hdrTotal ≤ 2^63 - 1 → EntFits u cs hdrTotal idxLoc ents
  | [], _, _, _ => trivial
  | c :: rest, idxLoc, hall, hb => by
    simp only [C13.sumLen] at hb
    obtain ⟨h1, h2, h3⟩ := hall c (by simp)
    refine ⟨h1, h2, by omega, by omega, h3, ?_⟩
    exact entFits_gen u cs hdrTotal rest _ (fun c' hc' => hall c' (List.mem_cons_of_mem _ hc')) (by omega)

theorem sto_len0 (C : Option Bytes → Bytes → Bytes) (ct : Nat) (d : Option Bytes) (p : Bytes) (h : p.length = 0) :
    sto C ct d p = [] := by
  unfold sto; rw [if_pos h]

/-- the file the model of `zck_close` produces is well-formed for the reader, and its content is the data chunks concatenated -/
theorem closeFile_wf (C : Option Bytes → Bytes → Bytes) (ht cht ct ds cs : Nat) (u : Bool) (dict : Bytes) (chunks : List Bytes)
    (f : Bytes) (hf : closeFile H C ht cht ct u dict chunks = some f)
    (hct : ct = 0 ∨ ct = 2)
    (hC : ct ≠ 0 → ∀ d p, p ≠ [] → D (C d p) d = some p ∧ C d p ≠ [])
    (hds : hsize ht = some ds) (hcs : hsize cht = some cs) (hH : HashLen H)
    (hne : ∀ p ∈ chunks, p ≠ []) (hsmall : ∀ p ∈ dict :: chunks, p.length < allocLimit) (hlen : f.length < 2^63)
    (hidx : ∀ ents dd, (storedPairs C ct dict chunks).mapM (fun (x : Bytes × Bytes × Bytes) => entryOf H cht u x.1 x.2.1 x.2.2) = some ents →
      (encIndex ⟨ht, cht, if u then 4 else 0, ct, dd, ents⟩).length < 2^31) :
    ∃ h, openFile H f = .ok h ∧ WF H D f h ∧ doneFrom D f h 1 (h.chunks.drop 1) = chunks.flatten := by
  unfold closeFile at hf
  simp only at hf
  generalize hpairs : storedPairs C ct dict chunks = pairs at hf hidx
  cases hm : pairs.mapM (fun (x : Bytes × Bytes × Bytes) => entryOf H cht u x.1 x.2.1 x.2.2) with
  | none => rw [hm] at hf; simp at hf
  | some ents =>
    rw [hm] at hf
    cases hdd : (if u then (hsize ht).map zeros else H ht (pairs.map (·.1)).flatten) with
    | none => rw [hdd] at hf; simp at hf
    | some dd =>
      rw [hdd] at hf
      simp only at hf
      have hisz := hidx ents dd hm
      generalize hs : (⟨ht, cht, if u then 4 else 0, ct, dd, ents⟩ : Spec) = s at hf hisz
      have hsht : s.hashType = ht := by rw [← hs]
      have hscht : s.chunkHashType = cht := by rw [← hs]
      have hsfl : s.flags = if u then 4 else 0 := by rw [← hs]
      have hsct : s.compType = ct := by rw [← hs]
      have hsdd : s.dataDigest = dd := by rw [← hs]
      have hsch : s.chunks = ents := by rw [← hs]
      unfold header at hf
      cases hdg : H s.hashType (encLead0 s ++ encBody s) with
      | none => rw [hdg] at hf; simp at hf
      | some dg =>
        rw [hdg] at hf
        simp only [Option.map_some, Option.some.injEq] at hf
        obtain ⟨hel, hent⟩ := mapM_spec (fun (x : Bytes × Bytes × Bytes) => entryOf H cht u x.1 x.2.1 x.2.2) _ _ hm
        obtain ⟨m1, m2, m3⟩ := mkW_maps ents pairs hel
        have hdgl : dg.length = ds := by
          have := hH _ _ _ hdg; rw [hsht, hds] at this; simpa using this.symm
        have hddl : dd.length = ds := by
          cases u with
          | true =>
            simp only [if_true, hds, Option.map_some, Option.some.injEq] at hdd
            rw [← hdd]; simp [zeros]
          | false =>
            simp only [Bool.false_eq_true, if_false] at hdd
            have := hH _ _ _ hdd; rw [hds] at this; simpa using this.symm
        have hfile : f = fileOf s (mkW ents pairs) dg := by
          unfold fileOf; rw [m2, ← hf]
        have hwu : withU s = u := by
          unfold withU; rw [hsfl]; cases u <;> decide
        -- which pairs there are
        have hpmem : ∀ x ∈ pairs, (x = (sto C ct none dict, dict, [])) ∨
            (∃ p ∈ chunks, x = (sto C ct (if dict.length = 0 then none else some dict) p, p, p)) := by
          intro x hx
          rw [← hpairs] at hx
          unfold storedPairs at hx
          simp only [List.mem_cons, List.mem_map] at hx
          rcases hx with rfl | ⟨p, hp, rfl⟩
          · exact Or.inl rfl
          · exact Or.inr ⟨p, hp, rfl⟩
        -- a stored form belongs to its content
        have hsto : ∀ (d : Option Bytes) (p : Bytes), (p.length = 0 → sto C ct d p = []) ∧
            (p.length ≠ 0 → (sto C ct d p).length ≠ 0 ∧ (if ct = 0 then sto C ct d p = p else D (sto C ct d p) d = some p)) := by
          intro d p
          refine ⟨sto_len0 C ct d p, fun hp => ?_⟩
          have hpne : p ≠ [] := fun hx => hp (by rw [hx]; rfl)
          unfold sto
          rw [if_neg hp]
          by_cases hc0 : ct = 0
          · rw [if_pos hc0, if_pos hc0]; exact ⟨hp, rfl⟩
          · rw [if_neg hc0, if_neg hc0]
            obtain ⟨a, b⟩ := hC hc0 d p hpne
            exact ⟨fun hx => b (List.eq_nil_of_length_eq_zero hx), a⟩
        -- every entry describes its chunk
        have hw : ∀ w ∈ mkW ents pairs, ∃ upl, (w.st, w.pl, upl) ∈ pairs ∧ entryOf H cht u w.st w.pl upl = some w.c := by
          intro w hwm
          obtain ⟨i, upl, a, b⟩ := mkW_mem _ _ w hwm
          exact ⟨upl, List.mem_of_getElem? b, hent i _ _ b a⟩
        have hwd : ∀ w ∈ mkW ents pairs, ∃ d, (w.pl.length = 0 → w.st = []) ∧
            (w.pl.length ≠ 0 → w.st.length ≠ 0 ∧ (if ct = 0 then w.st = w.pl else D w.st d = some w.pl)) ∧
            ((w.st, w.pl) = (sto C ct none dict, dict) → d = none) ∧
            ((w.st, w.pl) ≠ (sto C ct none dict, dict) → d = (if dict.length = 0 then none else some dict) ∧ w.pl ∈ chunks) := by
          intro w hwm
          obtain ⟨upl, hwp, _⟩ := hw w hwm
          rcases hpmem _ hwp with hx | ⟨p, hp, hx⟩
          · simp only [Prod.mk.injEq] at hx
            refine ⟨none, ?_, ?_, fun _ => rfl, fun hn => absurd (by rw [hx.1, hx.2.1]) hn⟩
            · rw [hx.1, hx.2.1]; exact (hsto none dict).1
            · rw [hx.1, hx.2.1]; exact (hsto none dict).2
          · by_cases hsame : (w.st, w.pl) = (sto C ct none dict, dict)
            · refine ⟨none, ?_, ?_, fun _ => rfl, fun hn => absurd hsame hn⟩
              · simp only [Prod.mk.injEq] at hsame; rw [hsame.1, hsame.2]; exact (hsto none dict).1
              · simp only [Prod.mk.injEq] at hsame; rw [hsame.1, hsame.2]; exact (hsto none dict).2
            · refine ⟨_, ?_, ?_, fun hy => absurd hy hsame, fun _ => ⟨rfl, ?_⟩⟩
              · simp only [Prod.mk.injEq] at hx; rw [hx.1, hx.2.1]; exact (hsto _ p).1
              · simp only [Prod.mk.injEq] at hx; rw [hx.1, hx.2.1]; exact (hsto _ p).2
              · simp only [Prod.mk.injEq] at hx; rw [hx.2.1]; exact hp
        have hwlen : ∀ w ∈ mkW ents pairs, w.c.compLen = w.st.length ∧ w.c.len = w.pl.length := by
          intro w hwm
          obtain ⟨upl, _, hwe⟩ := hw w hwm
          obtain ⟨e1, _, _, e4, e5⟩ := entryOf_spec H hH cht cs hcs u w.st w.pl upl w.c hwe
          obtain ⟨d, d1, _⟩ := hwd w hwm
          by_cases h0 : w.pl.length = 0
          · exact ⟨by rw [(e5 h0).1, d1 h0]; rfl, e1⟩
          · exact ⟨(e4 h0).1, e1⟩
        -- the shape of the list: the dictionary's entry first, the data chunks' entries behind it
        have hshape : ∃ c0 cs', ents = c0 :: cs' ∧ mkW ents pairs =
            ⟨c0, sto C ct none dict, dict⟩ :: mkW cs' (chunks.map fun p => (sto C ct (if dict.length = 0 then none else some dict) p, p, p)) := by
          rw [← hpairs] at hel ⊢
          unfold storedPairs at hel ⊢
          cases ents with
          | nil => simp at hel
          | cons c0 cs' => exact ⟨c0, cs', rfl, rfl⟩
        obtain ⟨c0, cs', hents, hmk⟩ := hshape
        have hdoh : dictOfHead (mkW ents pairs) = (if dict.length = 0 then none else some dict) := by
          rw [hmk]; rfl
        have hwok : ∀ w ∈ mkW ents pairs, w.pl.length ≠ 0 → ∀ dct,
            (if ct = 0 then w.st = w.pl else D w.st dct = some w.pl) → WOk H D s.chunkHashType s.compType dct w := by
          intro w hwm h0 dct hdec
          obtain ⟨upl, _, hwe⟩ := hw w hwm
          obtain ⟨_, _, _, e4, _⟩ := entryOf_spec H hH cht cs hcs u w.st w.pl upl w.c hwe
          obtain ⟨l1, l2⟩ := hwlen w hwm
          obtain ⟨d, _, d2, _⟩ := hwd w hwm
          refine ⟨l1, l2, ⟨w.c.digest, by rw [hscht]; exact (e4 h0).2, ?_⟩, by rw [hsct]; exact hdec⟩
          rw [if_neg (by have := (d2 h0).1; omega)]
        have h0ok : ∀ w, (mkW ents pairs).head? = some w →
            (w.c.compLen = 0 ∧ w.c.len = 0) ∨ WOk H D s.chunkHashType s.compType none w := by
          intro w hw0
          rw [hmk] at hw0
          simp only [List.head?_cons, Option.some.injEq] at hw0
          have hwm : w ∈ mkW ents pairs := by rw [hmk, ← hw0]; simp
          obtain ⟨l1, l2⟩ := hwlen w hwm
          by_cases h0 : w.pl.length = 0
          · left
            obtain ⟨d, d1, _⟩ := hwd w hwm
            exact ⟨by rw [l1, d1 h0]; rfl, by omega⟩
          · right
            refine hwok w hwm h0 none ?_
            subst hw0
            exact ((hsto none dict).2 h0).2
        have hrestok : ∀ w ∈ (mkW ents pairs).tail, WOk H D s.chunkHashType s.compType (dictOfHead (mkW ents pairs)) w := by
          intro w hwt
          have hwm : w ∈ mkW ents pairs := List.mem_of_mem_tail hwt
          rw [hdoh]
          rw [hmk] at hwt
          simp only [List.tail_cons] at hwt
          obtain ⟨i, upl, _, b⟩ := mkW_mem _ _ w hwt
          have hx := List.mem_of_getElem? b
          simp only [List.mem_map] at hx
          obtain ⟨p, hp, hpe⟩ := hx
          simp only [Prod.mk.injEq] at hpe
          have hpl : w.pl.length ≠ 0 := by
            rw [← hpe.2.1]
            intro hz
            exact hne p hp (List.eq_nil_of_length_eq_zero hz)
          refine hwok w hwm hpl _ ?_
          rw [← hpe.1, ← hpe.2.1]
          rw [← hpe.2.1] at hpl
          exact ((hsto _ p).2 hpl).2
        have hsmall' : ∀ w ∈ mkW ents pairs, w.pl.length < allocLimit := by
          intro w hwm
          obtain ⟨upl, hwp, _⟩ := hw w hwm
          rcases hpmem _ hwp with hx | ⟨p, hp, hx⟩
          · simp only [Prod.mk.injEq] at hx; rw [hx.2.1]; exact hsmall _ (by simp)
          · simp only [Prod.mk.injEq] at hx; rw [hx.2.1]; exact hsmall _ (List.mem_cons_of_mem _ hp)
        have hfits : Fits s ds cs := by
          refine ⟨by rw [hsht]; exact hds, by rw [hscht]; exact hcs, by rw [hsdd]; exact hddl, ?_, by rw [hsct]; exact hct, ?_, hisz, ?_⟩
          · rw [hsfl]; cases u <;> simp
          · rw [hsch, hents]; simp
          · rw [hsch, hwu]
            refine entFits_gen u cs _ ents 0 (fun c hc => ?_) ?_
            · -- the entry belongs to some element of the list
              have hcm : c ∈ (mkW ents pairs).map (·.c) := by rw [m1]; exact hc
              obtain ⟨w, hwm, hwc⟩ := List.mem_map.mp hcm
              obtain ⟨upl, _, hwe⟩ := hw w hwm
              obtain ⟨e1, e2, e3, _, _⟩ := entryOf_spec H hH cht cs hcs u w.st w.pl upl w.c hwe
              rw [← hwc]
              refine ⟨e2, e3, ?_⟩
              have := hsmall' w hwm
              unfold allocLimit at this
              omega
            · have hsum : C13.sumLen ents = (pairs.map (·.1)).flatten.length := by
                rw [← m1, sumLen_map _ (fun w hwm => (hwlen w hwm).1), m2]
              have hfl : f.length = (encLead0 s).length + ds + (encBody s).length + (pairs.map (·.1)).flatten.length := by
                rw [← hf]; simp [hdgl]; omega
              omega
        have hdataok : s.flags = 4 ∨ H s.hashType ((mkW ents pairs).map (·.st)).flatten = some s.dataDigest := by
          cases u with
          | true => left; rw [hsfl]; rfl
          | false =>
            right
            simp only [Bool.false_eq_true, if_false] at hdd
            rw [m2, hsht, hsdd]; exact hdd
        obtain ⟨r0, wf, hc⟩ := written_WF H D s (mkW ents pairs) ds cs dg (by rw [hsch, m1]) hfits hdg hdgl
          hwlen h0ok hrestok hsmall' hdataok
        rw [← hfile] at r0 wf hc
        refine ⟨_, r0, wf, ?_⟩
        rw [hc, List.map_drop, m3, ← hpairs]
        unfold storedPairs
        simp [Function.comp_def]

/-- **C01, any backend, from the bytes `zck_close` writes.**  `f` = the file the model of `zck_close` produces for a dictionary
(possibly empty) and non-empty data chunks with compressor `C`; if the decompressor inverts `C` (and `C` does not produce nothing
from something) the parser model opens `f` and, for ANY read schedule that ends short, the bytes handed back are exactly the data
chunks concatenated, and `zck_close` succeeds. -/
theorem closeFile_reads_back (C : Option Bytes → Bytes → Bytes) (ht cht ct ds cs : Nat) (u : Bool) (dict : Bytes) (chunks : List Bytes)
    (f : Bytes) (hf : closeFile H C ht cht ct u dict chunks = some f)
    (hct : ct = 0 ∨ ct = 2)
    (hC : ct ≠ 0 → ∀ d p, p ≠ [] → D (C d p) d = some p ∧ C d p ≠ [])
    (hds : hsize ht = some ds) (hcs : hsize cht = some cs) (hH : HashLen H)
    (hne : ∀ p ∈ chunks, p ≠ []) (hsmall : ∀ p ∈ dict :: chunks, p.length < allocLimit) (hlen : f.length < 2^63)
    (hidx : ∀ ents dd, (storedPairs C ct dict chunks).mapM (fun (x : Bytes × Bytes × Bytes) => entryOf H cht u x.1 x.2.1 x.2.2) = some ents →
      (encIndex ⟨ht, cht, if u then 4 else 0, ct, dd, ents⟩).length < 2^31)
    (init : List Nat) (nl : Nat) :
    ∃ h, openFile H f = .ok h ∧
      (∀ r ∈ (reads H D f (openCtx h) init).1, 0 ≤ r.ret ∧ r.ret = r.bytes.length) ∧
      0 ≤ (compRead H D f (reads H D f (openCtx h) init).2 nl).1.ret ∧
      ((compRead H D f (reads H D f (openCtx h) init).2 nl).1.ret < nl →
        outOf (reads H D f (openCtx h) init).1 ++ (compRead H D f (reads H D f (openCtx h) init).2 nl).1.bytes = chunks.flatten ∧
        close H (compRead H D f (reads H D f (openCtx h) init).2 nl).2 = true) := by
  obtain ⟨h, hopen, wf, hc⟩ := closeFile_wf H D C ht cht ct ds cs u dict chunks f hf hct hC hds hcs hH hne hsmall hlen hidx
  obtain ⟨r1, r2, _, r4⟩ := read_back wf init nl
  exact ⟨h, hopen, r1, r2, fun hshort => by
    obtain ⟨a, b⟩ := r4 hshort
    exact ⟨by rw [a, hc], b⟩⟩

/-- **C01, any backend, from the API calls to the bytes read back.**  Any sequence of write / end-of-chunk calls under a legal
configuration, closed (chunker model), the file `zck_close` writes for the resulting chunks with compressor `C` (byte-for-byte
model, compared with the implementation on every WRITE case): any read schedule that ends short returns exactly the bytes written. -/
theorem write_close_read (cfg : Writer.Cfg) (hl : Writer.Legal cfg.norm) (ops : List Writer.Op) (chunks : List Bytes)
    (hclose : Writer.closeChunks cfg ops = some chunks)
    (C : Option Bytes → Bytes → Bytes) (ht cht ct ds cs : Nat) (u : Bool) (dict : Bytes) (f : Bytes)
    (hf : closeFile H C ht cht ct u dict chunks = some f)
    (hct : ct = 0 ∨ ct = 2)
    (hC : ct ≠ 0 → ∀ d p, p ≠ [] → D (C d p) d = some p ∧ C d p ≠ [])
    (hds : hsize ht = some ds) (hcs : hsize cht = some cs) (hH : HashLen H)
    (hsmall : ∀ p ∈ dict :: chunks, p.length < allocLimit) (hlen : f.length < 2^63)
    (hidx : ∀ ents dd, (storedPairs C ct dict chunks).mapM (fun (x : Bytes × Bytes × Bytes) => entryOf H cht u x.1 x.2.1 x.2.2) = some ents →
      (encIndex ⟨ht, cht, if u then 4 else 0, ct, dd, ents⟩).length < 2^31)
    (init : List Nat) (nl : Nat) :
    ∃ h, openFile H f = .ok h ∧
      ((compRead H D f (reads H D f (openCtx h) init).2 nl).1.ret < nl →
        outOf (reads H D f (openCtx h) init).1 ++ (compRead H D f (reads H D f (openCtx h) init).2 nl).1.bytes = Writer.written ops ∧
        close H (compRead H D f (reads H D f (openCtx h) init).2 nl).2 = true) := by
  have hne := Writer.closeChunks_nonempty cfg ops chunks hclose
  obtain ⟨h, h1, _, _, h4⟩ := closeFile_reads_back H D C ht cht ct ds cs u dict chunks f hf hct hC hds hcs hH hne hsmall hlen hidx init nl
  exact ⟨h, h1, fun hs => by
    obtain ⟨a, b⟩ := h4 hs
    exact ⟨by rw [a]; exact C01.W_structure cfg hl ops chunks hclose, b⟩⟩

end

end Zck.EncP
