/-
C01 — reading back a well-formed file (completeness of the streaming reader; the converse of `Props/C02Stream.lean`).

`WF`: the file is what the format says a file is — start offsets are running sums, every index entry is all there in the data
section, hashes to its index checksum and decodes (with the dictionary the format prescribes) to exactly its declared length,
the data section hashes to the data checksum.  For such a file and ANY sequence of read buffer sizes: no read fails, every read
returns either as many bytes as were asked for or is short, a short read means the whole content has been delivered
(`stream_sound`), and `zck_close` then succeeds (`read_back`).  The fuel of the loop model is shown to suffice (`mu`): the
write path's counterpart of "always terminates" for the read side.
-/
import ZckModel.Props.C02Decode

namespace Zck.Stream
open Zck Zck.Format Zck.Reader

section
variable {H : HashFn} {D : Decomp} {f : Bytes} {h : Hdr}

/-- a well-formed file behind header `h` -/
structure WF (H : HashFn) (D : Decomp) (f : Bytes) (h : Hdr) : Prop where
  run : C13.RunFrom 0 0 h.chunks
  needs : AllNeed H D f h h.chunks.length
  present : (fileRead f (dOff h) (total h)).length = total h
  small : ∀ c ∈ h.chunks, c.len < allocLimit
  data : DataOk H f h
  nonempty : h.chunks ≠ []

theorem sumLen_take_le (cs : List Chunk) (k : Nat) : C13.sumLen (cs.take k) ≤ C13.sumLen cs := by
  induction cs generalizing k with
  | nil => simp [C13.sumLen]
  | cons c cs ih =>
    cases k with
    | zero => simp [C13.sumLen]
    | succ k => simp only [List.take_succ_cons, C13.sumLen]; have := ih k; omega

/-- every chunk ends inside the data section -/
theorem chunk_end_le (hr : C13.RunFrom 0 0 h.chunks) (k : Nat) (ch : Chunk) (hk : h.chunks[k]? = some ch) :
    ch.start + ch.compLen ≤ total h := by
  have h1 := run_start h.chunks 0 0 k ch hr hk
  have h2 := sumLen_take_succ h.chunks k ch hk
  have h3 := sumLen_take_le h.chunks (k + 1)
  unfold total; omega

/-- a part of a range that is all there is all there -/
theorem fileRead_full_sub (p t a b : Nat) (hfull : (fileRead f p t).length = t) (hab : a + b ≤ t) :
    (fileRead f (p + a) b).length = b := by
  have ht : t = (a + b) + (t - (a + b)) := by omega
  rw [ht] at hfull
  have h1 := (fileRead_full_split f p (a + b) (t - (a + b)) hfull).1
  exact (fileRead_full_split f p a b h1).2

theorem getElem_lt {cs : List Chunk} {k : Nat} {ch : Chunk} (hk : cs[k]? = some ch) : k < cs.length := by
  rcases Nat.lt_or_ge k cs.length with hl | hl
  · exact hl
  · rw [List.getElem?_eq_none hl] at hk; cases hk

/-! ### the loop never runs out of fuel: a measure that every continuing iteration decreases -/

def stage (h : Hdr) (c : Ctx) : Nat :=
  if c.dataEof then 0 else
  2 * (dOff h + total h - c.pos) +
  match c.dataIdx with
  | none => 3 * h.chunks.length + 1
  | some k => 3 * (h.chunks.length - k)

def mu (h : Hdr) (n : Nat) (c : Ctx) (out : Bytes) : Nat :=
  stage h c + (n - out.length) + (if c.data.isEmpty then 0 else 1)

/-- what an iteration does on a well-formed file: it returns without error, or continues with a smaller measure -/
def StepProg (h : Hdr) (n : Nat) (c : Ctx) (out : Bytes) : Step → Prop
  | .done r _ => 0 ≤ r.ret ∧ r.bytes.length ≤ n
  | .cont c' out' fin' => fin' = false ∧ out'.length ≤ n ∧ mu h n c' out' < mu h n c out

/-- the dictionary handed to the decoder at the end of chunk `k` is the one the format prescribes -/
theorem Mid.dictUsed {ud n dv sk T c k ch} (s : Mid H D f h tr ud n dv sk T c k ch)
    (hpa : ud = false → T.length + c.dc.length < n) (hz : h.compType ≠ 0) :
    (if ud = true then c.dict else none) = dictFor D f h k := by
  cases hu : ud with
  | true =>
    simp only [↓reduceIte]
    obtain ⟨h1, h2⟩ := s.dictOk hu hz
    rw [s.base.dict, h1]
    unfold dictFor
    split
    · rename_i hk0; exact h2 hk0
    · rfl
  | false =>
    simp only [Bool.false_eq_true, ↓reduceIte]
    rcases s.pa hu with h0 | ⟨_, _, h3⟩
    · simp [dictFor, h0]
    · have := hpa hu; omega

theorem validateChunk_one (c' : Ctx) (ch : Chunk) (st d : Bytes) (hc : c'.chunkHash = some st)
    (hH : H c'.hdr.chunkHashType st = some d) (hdig : (if ch.compLen = 0 then zeros d.length else d) = ch.digest) :
    validateChunk H c' ch = 1 := by
  unfold validateChunk
  rw [hc]; simp only; rw [hH]; simp only; rw [hdig]; simp

/-- on a well-formed file the end of a chunk succeeds -/
theorem Mid.endOk {ud n dv sk T c k ch} (s : Mid H D f h tr ud n dv sk T c k ch) (wf : WF H D f h)
    (hloc : c.dataLoc = ch.compLen) (hpa : ud = false → T.length + c.dc.length < n) :
    ∃ c2, endDchunk H D c k ch ud = .ok c2 ∧ (c2.data.isEmpty = true ∨ c2.data = c.data) ∧ c2.pos = c.pos ∧
      c2.dataEof = c.dataEof ∧ c2.dataIdx = (if k + 1 < h.chunks.length then some (k + 1) else none) := by
  have hlt := getElem_lt s.chk
  have hgood : ChunkGood H D f h (dictFor D f h k) ch := by
    rcases wf.needs k ch hlt s.chk with hs | hg
    · exact absurd hs s.nsk
    · exact hg
  obtain ⟨hstl, ⟨d, hHd, hdig⟩, hdec⟩ := hgood
  have hhdr : c.hdr = h := s.base.hdr
  have hsm : ch.len < allocLimit := wf.small ch (List.mem_of_getElem? s.chk)
  have hch : c.chunkHash = some (stored f h ch) := by rw [s.chash, hloc]; rfl
  unfold endDchunk
  rw [if_neg (by intro hc; omega), hhdr]
  by_cases hz : h.compType = 0
  · simp only [hz, ↓reduceIte] at hdec ⊢
    rw [if_neg (by omega)]
    simp only
    rw [validateChunk_one c ch _ d hch (by rw [hhdr]; exact hHd) hdig]
    simp only [show ¬ ((1 : Int) = -1) by decide, show ¬ ((1 : Int) < 1) by decide, ↓reduceIte]
    exact ⟨_, rfl, Or.inr rfl, rfl, rfl, by simp [hhdr]⟩
  · simp only [hz, ↓reduceIte] at hdec ⊢
    obtain ⟨p, hD, hp⟩ := hdec
    have hdat : c.data = stored f h ch := by rw [s.dataZ hz, hloc]; rfl
    rw [s.dictUsed hpa hz, hdat, hD]
    simp only
    rw [if_neg (by omega)]
    simp only
    rw [validateChunk_one _ ch _ d (by exact hch) (by exact hHd) hdig]
    simp only [show ¬ ((1 : Int) = -1) by decide, show ¬ ((1 : Int) < 1) by decide, ↓reduceIte]
    exact ⟨_, rfl, Or.inl rfl, rfl, rfl, by simp⟩


/-- on a well-formed file a read inside a chunk delivers everything asked for -/
theorem Mid.readProg {ud n dv sk Tp out c k ch} (s : Mid H D f h tr ud n dv sk (Tp ++ out) c k ch) (wf : WF H D f h)
    (hn : 0 < n) (hne : c.dataLoc ≠ ch.compLen) (hout : out.length ≤ n) :
    StepProg h n c out (stepRead f n c ch out) := by
  unfold stepRead
  simp only
  generalize hrs : (if c.dataLoc + n > ch.compLen then ch.compLen - c.dataLoc else n) = rs
  have hloc := s.loc
  have hrs_le : rs ≤ ch.compLen - c.dataLoc := by rw [← hrs]; split <;> omega
  have hrs_pos : 0 < rs := by rw [← hrs]; split <;> omega
  rw [ensureHash_some { c with pos := c.pos + (fileRead f c.pos rs).length } _ s.chash]
  have hend := chunk_end_le wf.run k ch s.chk
  have hfull : (fileRead f c.pos rs).length = rs := by
    rw [s.pos, Nat.add_assoc]
    exact fileRead_full_sub (dOff h) (total h) (ch.start + c.dataLoc) rs wf.present (by omega)
  generalize hsrc : fileRead f c.pos rs = src at hfull
  rw [if_neg (by omega)]
  have hflag : flag4 { c with pos := c.pos + src.length } = f4 h := flag4_eq (by exact s.base.hdr)
  have hnone : ¬ (¬ flag4 (updFull { c with pos := c.pos + src.length } src) = true ∧
      (updFull { c with pos := c.pos + src.length } src).fullHash.isNone = true) := by
    intro ⟨h1, h2⟩
    have e1 : flag4 (updFull { c with pos := c.pos + src.length } src) = f4 h := flag4_eq (by simpa using s.base.hdr)
    rw [e1] at h1
    rcases s.fhash with h4 | hfh
    · exact h1 h4
    · rw [updFull_eq] at h2
      have hsome : c.fullHash.isSome = true := by
        cases tr with
        | true => simp only [↓reduceIte] at hfh; rw [hfh]; rfl
        | false => simpa using hfh
      have : (if flag4 { c with pos := c.pos + src.length } = true then c.fullHash else hashUpd c.fullHash src).isNone = false := by
        cases hx : c.fullHash with
        | none => rw [hx] at hsome; cases hsome
        | some x => split <;> rfl
      change (if flag4 { c with pos := c.pos + src.length } = true then c.fullHash else hashUpd c.fullHash src).isNone = true at h2
      rw [this] at h2; cases h2
  rw [if_neg hnone]
  rw [updFull_eq]
  refine ⟨by simp; omega, hout, ?_⟩
  have hsne : (c.data ++ src).isEmpty = false := by
    cases src with
    | nil => simp at hfull; omega
    | cons x xs => simp
  have hp := s.pos
  simp only [mu, stage, s.eof, s.idx, Bool.false_eq_true, ↓reduceIte, hsne]
  split <;> omega


theorem tail_prog {ud n dv sk Tp out' c} (wf : WF H D f h) (hn : 0 < n)
    (hpa : PA (h := h) ud n sk Tp) (hdc : c.dc = []) (hlt : out'.length < n)
    (s1 : SI H D f h tr ud n dv sk (Tp ++ out') c) :
    StepProg h n c out' (stepTail H D f n ud c out' false) := by
  unfold stepTail
  by_cases h4 : c.dataEof = true
  · rw [if_pos h4]
    exact ⟨by simp, by simp; omega⟩
  rw [if_neg h4]
  by_cases h5 : c.hdr.compType = 0 ∧ c.data ≠ []
  · rw [if_pos h5]
    refine ⟨rfl, by omega, ?_⟩
    have hne : c.data.isEmpty = false := by
      cases hd : c.data with
      | nil => exact absurd hd h5.2
      | cons x xs => rfl
    simp only [mu, stage, hne, Bool.false_eq_true, ↓reduceIte, List.isEmpty_nil]
    omega
  rw [if_neg h5]
  cases s1 with
  | start s =>
    rw [s.idx]
    have hh : c.hdr = h := s.base.hdr
    cases hfi : firstIdx h with
    | none =>
      have hfi' : firstIdx c.hdr = none := by rw [hh]; exact hfi
      simp only [hfi']
      exact ⟨by simp, by simp; omega⟩
    | some i =>
      have hfi' : firstIdx c.hdr = some i := by rw [hh]; exact hfi
      simp only [hfi']
      refine ⟨rfl, by omega, ?_⟩
      simp only [mu, stage, s.eof, s.idx, Bool.false_eq_true, ↓reduceIte]
      omega
  | fin s => exact absurd s.eof h4
  | mid k ch s =>
    rw [s.idx]
    simp only
    have hchk : chunkAt c k = some ch := by rw [chunkAt_eq (h := h) s.base.hdr]; exact s.chk
    rw [hchk]
    simp only
    have hlt' := getElem_lt s.chk
    by_cases h6 : c.dataLoc = ch.compLen
    · rw [if_pos h6]
      unfold stepEnd
      obtain ⟨c2, he, hdat, hpos, heof, hidx⟩ := s.endOk wf h6 (fun hu => by
        obtain ⟨htp, _, _⟩ := hpa hu
        rw [htp, hdc]; simpa using hlt)
      rw [he]
      simp only
      refine ⟨rfl, by omega, ?_⟩
      have hd0 : (if c2.data.isEmpty = true then 0 else 1) ≤ (if c.data.isEmpty = true then 0 else 1) := by
        rcases hdat with hd | hd
        · rw [hd]; simp
        · rw [hd]; exact Nat.le_refl _
      by_cases hnext : k + 1 < h.chunks.length
      · rw [if_pos hnext] at hidx
        simp only [hidx, Option.isNone_some, Bool.false_eq_true, ↓reduceIte]
        simp only [mu, stage, heof, hidx, hpos, s.eof, s.idx, Bool.false_eq_true, ↓reduceIte]
        omega
      · rw [if_neg hnext] at hidx
        simp only [hidx, Option.isNone_none, ↓reduceIte]
        simp only [mu, stage, s.eof, s.idx, Bool.false_eq_true, ↓reduceIte]
        omega
    · rw [if_neg h6]
      simp only [Bool.false_eq_true, ↓reduceIte]
      exact s.readProg wf hn h6 (by omega)

/-- **one iteration on a well-formed file**: no error, and if the loop goes on the measure has decreased -/
theorem step_prog {ud n dv sk Tp out c} (wf : WF H D f h) (hn : 0 < n)
    (hpa : PA (h := h) ud n sk Tp) (hout : out.length ≤ n) (s : SI H D f h tr ud n dv sk (Tp ++ out) c) :
    StepProg h n c out (step H D f n ud c out false) := by
  rw [step_tail]
  by_cases h1 : out.length ≥ n
  · rw [if_pos h1]
    exact ⟨by simp, by simpa using hout⟩
  rw [if_neg h1]
  have herr : c.err = false := s.base.noerr
  rw [if_neg (by simp [herr])]
  generalize hm : min (n - out.length) c.dc.length = m
  have hmle : m ≤ n - out.length := by rw [← hm]; exact Nat.min_le_left _ _
  have s1 : SI H D f h tr ud n dv sk (Tp ++ (out ++ c.dc.take m)) { c with dc := c.dc.drop m } := by
    rw [← List.append_assoc]; exact s.handout m
  have hol : (out ++ c.dc.take m).length = out.length + m := by
    simp only [List.length_append, List.length_take]
    have : m ≤ c.dc.length := by rw [← hm]; exact Nat.min_le_right _ _
    omega
  by_cases h2 : (out ++ c.dc.take m).length = n
  · rw [if_pos h2]
    exact ⟨by simp, by simp only; omega⟩
  rw [if_neg h2]
  by_cases h3 : m > 0
  · rw [if_pos h3]
    refine ⟨rfl, by omega, ?_⟩
    simp only [mu, stage]
    rw [hol]
    omega
  rw [if_neg h3]
  have hm0 : m = 0 := by omega
  have hdc0 : c.dc = [] := by
    have : c.dc.length = 0 := by
      rw [hm0] at hm
      rcases Nat.le_total (n - out.length) c.dc.length with hle | hle
      · rw [Nat.min_eq_left hle] at hm; omega
      · rw [Nat.min_eq_right hle] at hm; exact hm
    exact List.eq_nil_of_length_eq_zero this
  have hdrop : c.dc.drop m = [] := by rw [hdc0]; simp
  have hlt : (out ++ c.dc.take m).length < n := by omega
  have ht := tail_prog (ud := ud) (dv := dv) (sk := sk) (Tp := Tp) wf hn hpa hdrop hlt s1
  -- the measure of the context with the (empty) buffer dropped is the measure of the context
  have hmu : mu h n { c with dc := c.dc.drop m } (out ++ c.dc.take m) = mu h n c out := by
    simp only [mu, stage]
    rw [hol, hm0]; rfl
  revert ht
  generalize stepTail H D f n ud { c with dc := c.dc.drop m } (out ++ c.dc.take m) false = st
  intro ht
  cases st with
  | done r c' => exact ht
  | cont c' o' fin' =>
    obtain ⟨a1, a2, a3⟩ := ht
    exact ⟨a1, a2, by rw [← hmu]; exact a3⟩

/-- outcome of a call on a well-formed file: never an error; as many bytes as asked for, or fewer at the end of the stream -/
def CallProg (n : Nat) (r : RdOut × Ctx) : Prop := 0 ≤ r.1.ret ∧ r.1.bytes.length ≤ n

/-- **the loop on a well-formed file** ends without error whenever the fuel is at least the measure -/
theorem readLoop_prog {ud n dv sk Tp} (wf : WF H D f h) (hn : 0 < n) (hpa : PA (h := h) ud n sk Tp) :
    ∀ (fuel : Nat) (c : Ctx) (out : Bytes), mu h n c out < fuel → out.length ≤ n →
      SI H D f h tr ud n dv sk (Tp ++ out) c → CallProg n (readLoop H D f n ud fuel c out false)
  | 0, _, _, hf, _, _ => by omega
  | fuel + 1, c, out, hf, hout, s => by
    unfold readLoop
    have hp := step_prog wf hn hpa hout s
    have hs := step_SI false wf.run hn hpa s
    revert hp hs
    generalize step H D f n ud c out false = st
    intro hp hs
    cases st with
    | done r c' => exact hp
    | cont c' out' fin' =>
      obtain ⟨a1, a2, a3⟩ := hp
      subst a1
      exact readLoop_prog wf hn hpa fuel c' out' (by omega) a2 hs



theorem total_le_len (wf : WF H D f h) : total h ≤ f.length := by
  have := wf.present
  unfold fileRead at this
  simp only [List.length_take, List.length_drop] at this
  omega

/-- the measure at the start of a call is within the fuel the model gives the loop -/
theorem mu_lt_fuel {ud n dv sk T c} (wf : WF H D f h) (s : SI H D f h tr ud n dv sk T c) : mu h n c [] < fuelFor f c n := by
  have ht := total_le_len wf
  have hd : (if c.data.isEmpty = true then 0 else 1) ≤ 1 := by split <;> omega
  unfold fuelFor
  rw [s.base.hdr]
  cases s with
  | start s =>
    simp only [mu, stage, s.eof, s.idx, s.pos, Bool.false_eq_true, ↓reduceIte, List.length_nil]
    omega
  | mid k ch s =>
    simp only [mu, stage, s.eof, s.idx, s.pos, Bool.false_eq_true, ↓reduceIte, List.length_nil]
    omega
  | fin s =>
    simp only [mu, stage, s.eof, ↓reduceIte, List.length_nil]
    omega

theorem firstIdx_none_total (hfi : firstIdx h = none) : total h = 0 ∧ h.chunks.length ≤ 1 := by
  unfold firstIdx at hfi
  cases hd : h.chunks.head? with
  | none =>
    have hnil : h.chunks = [] := by
      cases hc : h.chunks with
      | nil => rfl
      | cons x xs => rw [hc] at hd; cases hd
    simp [total, hnil, C13.sumLen]
  | some d =>
    rw [hd] at hfi
    simp only at hfi
    by_cases hsk : d.compLen = 0 ∧ d.len = 0
    · rw [if_pos hsk] at hfi
      by_cases hl : 1 < h.chunks.length
      · rw [if_pos hl] at hfi; cases hfi
      · cases hc : h.chunks with
        | nil => rw [hc] at hd; cases hd
        | cons x xs =>
          rw [hc] at hd hl
          simp only [List.head?_cons, Option.some.injEq] at hd
          subst hd
          cases xs with
          | nil => simp [total, hc, C13.sumLen, hsk.1]
          | cons y ys => simp at hl
    · rw [if_neg hsk] at hfi; cases hfi

/-- on a well-formed file the dictionary import succeeds -/
theorem import_true (wf : WF H D f h) (d : Chunk) (hd : h.chunks.head? = some d) (hlen : 0 < d.len) (c : Ctx)
    (s : Start D f h false none [] [] c) : (importDict H D f c).1 = true := by
  unfold importDict
  have hh : c.hdr = h := s.base.hdr
  rw [hh, hd]
  simp only
  rw [if_neg (by omega)]
  have e1 : compReadRaw H D f c d.len false = readLoop H D f d.len false (fuelFor f c d.len) c [] false := by
    unfold compReadRaw
    simp [s.base.noerr, s.base.started, Nat.ne_of_gt hlen]
  rw [e1]
  have hpa : PA (h := h) false d.len [] [] := fun _ => ⟨rfl, rfl, d, hd, rfl⟩
  have hsi : SI H D f h true false d.len none [] ([] ++ []) c := by simpa using SI.start (n := d.len) s
  have hl := readLoop_SI (H := H) (D := D) (f := f) (dv := none) wf.run hlen hpa (fuelFor f c d.len) c [] false hsi
  have hg := readLoop_prog (dv := none) wf hlen hpa (fuelFor f c d.len) c [] (mu_lt_fuel wf hsi) (by simp) hsi
  revert hl hg
  generalize readLoop H D f d.len false (fuelFor f c d.len) c [] false = r
  intro hl hg
  obtain ⟨ro, c1⟩ := r
  simp only
  have h0 := head_get _ _ hd
  have hnsk : ¬ Skipped 0 d := fun hs => by have := hs.2.2; omega
  have hret : ro.ret = d.len := by
    rcases hl with hneg | ⟨hrl, hsi', hshort⟩
    · have := hg.1; simp only at hneg this; omega
    · simp only [List.nil_append] at hrl hsi' hshort
      have hle : ro.bytes.length ≤ d.len := hg.2
      rcases Nat.lt_or_ge ro.bytes.length d.len with hlt | hge
      · -- a short import would mean the stream ended before the dictionary was complete
        exfalso
        obtain ⟨hdc, hend⟩ := hshort hlt
        cases hsi' with
        | start s1 =>
          rcases hend with he | ⟨_, hfi⟩
          · rw [s1.eof] at he; cases he
          · unfold firstIdx at hfi
            rw [hd] at hfi
            simp only at hfi
            rw [if_neg (by intro hx; omega)] at hfi
            cases hfi
        | mid k ch s1 =>
          rcases hend with he | ⟨hi, _⟩
          · rw [s1.eof] at he; cases he
          · rw [s1.idx] at hi; cases hi
        | fin s1 =>
          have hacc := s1.acct
          have hl1 := s1.pa rfl
          rw [hl1, done_succ D f h 0 d h0, done_zero, hdc] at hacc
          simp only [List.nil_append, List.append_nil] at hacc
          have hcl := contrib_len_of_need 0 d (wf.needs 0 d (by omega) h0)
          rw [← hacc] at hcl
          omega
      · have : ro.bytes.length = d.len := by omega
        rw [hrl, this]
  rw [if_neg (by simp [hret])]

/-- **one `zck_read` on a well-formed file never fails** and returns at most what was asked for -/
theorem compRead_prog (wf : WF H D f h) (T : Bytes) (c : Ctx) (n : Nat)
    (hp : P (H := H) (D := D) (f := f) (h := h) T c) : CallProg n (compRead H D f c n) := by
  unfold compRead
  have hbase : c.err = false ∧ c.started = true ∧ c.hdr = h := by
    rcases hp with ⟨_, s, _⟩ | ⟨dv, sk, s, _, _⟩
    · exact ⟨s.base.noerr, s.base.started, s.base.hdr⟩
    · exact ⟨s.base.noerr, s.base.started, s.base.hdr⟩
  obtain ⟨he, hst, hh⟩ := hbase
  rw [if_neg (by simp [he]), if_neg (by simp [hst])]
  by_cases hn0 : n = 0
  · rw [if_pos hn0]; exact ⟨by simp, by simp⟩
  rw [if_neg hn0]
  have hn : 0 < n := by omega
  rw [hh]
  rcases hp with ⟨hT, s, d, hd, hlen⟩ | ⟨dv, sk, s, hdv, hside⟩
  · rw [hd]
    simp only
    have hdn : c.dict.isNone = true := by rw [s.base.dict]; rfl
    rw [if_pos ⟨hlen, hdn⟩]
    have hsm : d.len < allocLimit := wf.small d (List.mem_of_getElem? (head_get _ _ hd))
    rw [if_neg (by omega)]
    have himp := import_SI (H := H) wf.run d hd hlen c s
    have htrue := import_true wf d hd hlen c s
    revert himp htrue
    generalize importDict H D f c = r
    intro himp htrue
    obtain ⟨b, c1⟩ := r
    simp only at htrue
    subst htrue
    simp only
    rcases himp with hf | ⟨_, dv, sk, s1, hdv, hside⟩
    · cases hf
    · have hsi : SI H D f h true true n dv sk ([] ++ []) c1 := by simpa using s1.retag
      exact readLoop_prog wf hn (fun hu => by cases hu) (fuelFor f c1 n) c1 [] (mu_lt_fuel wf hsi) (by simp) hsi
  · cases hd : h.chunks.head? with
    | none =>
      -- an index without entries is never produced by a successful open (C13: at least the dictionary entry)
      exfalso
      have hnil : h.chunks = [] := by
        cases hc : h.chunks with
        | nil => rfl
        | cons x xs => rw [hc] at hd; cases hd
      exact wf.nonempty hnil
    | some d =>
      simp only
      have hno : ¬ (d.len > 0 ∧ c.dict.isNone = true) := by
        intro ⟨hl, hnone⟩
        have := hdv d hd hl
        rw [s.base.dict] at hnone
        cases dv with
        | none => cases this
        | some x => cases hnone
      rw [if_neg hno]
      have hsi : SI H D f h true true n dv sk (T ++ []) c := by simpa using s.retag
      exact readLoop_prog wf hn (fun hu => by cases hu) (fuelFor f c n) c [] (mu_lt_fuel wf hsi) (by simp) hsi


/-- **no read of any sequence fails** on a well-formed file -/
theorem reads_prog (wf : WF H D f h) :
    ∀ (ns : List Nat) (T : Bytes) (c : Ctx), P (H := H) (D := D) (f := f) (h := h) T c →
      ∀ r ∈ (reads H D f c ns).1, 0 ≤ r.ret ∧ r.ret = r.bytes.length
  | [], _, _, _ => by simp [reads]
  | n :: ns, T, c, hp => by
    intro r hr
    simp only [reads, List.mem_cons] at hr
    have hg := compRead_prog wf T c n hp
    have hgood := compRead_P (H := H) wf.run T c n hp
    rcases hgood with hneg | ⟨hret, hp2, _⟩
    · have := hg.1; omega
    · rcases hr with rfl | hr
      · exact ⟨hg.1, hret⟩
      · exact reads_prog wf ns _ _ hp2 r hr

/-- at the end of the stream of a well-formed file `zck_close` succeeds -/
theorem close_at_end (wf : WF H D f h) {T : Bytes} {c : Ctx} (hp : Post (H := H) (D := D) (f := f) (h := h) T c)
    (hend : AtEnd (h := h) c) : close H c = true := by
  obtain ⟨dv, sk, s, _, _⟩ := hp
  have hfh : c.err = false ∧ c.hdr = h ∧ (f4 h = true ∨ c.fullHash = some (fileRead f (dOff h) (total h))) := by
    cases s with
    | mid k ch s =>
      rcases hend with he | ⟨hi, _⟩
      · rw [s.eof] at he; cases he
      · rw [s.idx] at hi; cases hi
    | start s =>
      rcases hend with he | ⟨_, hfi⟩
      · rw [s.eof] at he; cases he
      · refine ⟨s.base.noerr, s.base.hdr, ?_⟩
        rw [(firstIdx_none_total hfi).1, fileRead_zero]
        exact s.fhash
    | fin s => exact ⟨s.base.noerr, s.base.hdr, s.fhash⟩
  obtain ⟨he, hh, hf⟩ := hfh
  unfold close
  rw [if_neg (by simp [he]), flag4_eq hh]
  by_cases h4 : f4 h = true
  · rw [if_pos h4]
  · rw [if_neg h4]
    rcases hf with hx | hx
    · exact absurd hx h4
    · rw [hx, hh]
      simp only
      rcases wf.data with hy | hy
      · exact absurd hy h4
      · rw [hy]; simp

/-- **C01, the read-back half.**  A well-formed file (`WF`), ANY sequence of read buffer sizes: no read fails, every read
returns exactly the bytes it reports and at most what was asked for, and as soon as a read comes up short the bytes handed out
are exactly the contents of the data chunks in index order — nothing lost, duplicated or reordered — and `zck_close` succeeds. -/
theorem read_back (wf : WF H D f h) (init : List Nat) (nl : Nat) :
    (∀ r ∈ (reads H D f (openCtx h) init).1, 0 ≤ r.ret ∧ r.ret = r.bytes.length) ∧
    0 ≤ (compRead H D f (reads H D f (openCtx h) init).2 nl).1.ret ∧
    (compRead H D f (reads H D f (openCtx h) init).2 nl).1.bytes.length ≤ nl ∧
    ((compRead H D f (reads H D f (openCtx h) init).2 nl).1.ret < nl →
      outOf (reads H D f (openCtx h) init).1 ++ (compRead H D f (reads H D f (openCtx h) init).2 nl).1.bytes =
        doneFrom D f h 1 (h.chunks.drop 1) ∧
      close H (compRead H D f (reads H D f (openCtx h) init).2 nl).2 = true) := by
  have hall := reads_prog wf init [] (openCtx h) open_P
  have hp := reads_P (H := H) (D := D) (f := f) wf.run init [] (openCtx h) open_P (fun r hr => (hall r hr).1)
  simp only [List.nil_append] at hp
  have hg := compRead_prog wf _ _ nl hp
  refine ⟨hall, hg.1, hg.2, fun hshort => ?_⟩
  have hc := compRead_P (H := H) wf.run _ _ nl hp
  rcases hc with hneg | ⟨hret, _, hsh⟩
  · have := hg.1; omega
  · have hlt : (compRead H D f (reads H D f (openCtx h) init).2 nl).1.bytes.length < nl := by
      rw [hret] at hshort; exact_mod_cast hshort
    obtain ⟨hpost, hdc, hend⟩ := hsh hlt
    exact ⟨(post_end hpost hdc hend).1.content, close_at_end wf hpost hend⟩

end

/-! ### non-vacuity (test): the example file of `Props/C02Decode.lean` is well-formed, and `read_back` applies to it -/

theorem exWF : WF exH exD exF exHdr :=
  have hs := stream_sound (H := exH) (D := exD) (f := exF) (h := exHdr) (by simp [C13.RunFrom, exHdr]) [2, 2] 7
    (by decide) (by decide) (by decide)
  ⟨by simp [C13.RunFrom, exHdr], hs.1.needs, hs.1.present, by decide, hs.2 (by decide), by decide⟩

example : outOf (reads exH exD exF (openCtx exHdr) [1, 3]).1 ++ (compRead exH exD exF (reads exH exD exF (openCtx exHdr) [1, 3]).2 9).1.bytes
    = doneFrom exD exF exHdr 1 (exHdr.chunks.drop 1) :=
  ((read_back exWF [1, 3] 9).2.2.2 (by decide)).1

end Zck.Stream
