/-
C17 — Memory safety and clean failure on arbitrary server responses (theorems about `Dl.lean`).
-/
import ZckModel.Props.C05

namespace Zck.C17
open Zck Zck.Format Zck.Dl

theorem placeholder_true : True := trivial

end Zck.C17
