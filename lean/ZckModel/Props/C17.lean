/-
C17 — Memory safety and clean failure on arbitrary server responses (theorems about `Dl.lean`).
The model marks as `ub` every step whose C counterpart would be undefined behaviour that the model can express: use of an
allocated-but-uncompiled pattern (`regexec`/`regfree` on it), match offsets outside the subject string, a chunk pointer
outside the index, and running out of the fuel that stands for the C loops' termination.  `safe` below says that no
callback ever reaches such a step, for arbitrary header lines, bodies and fragmentations.  Confinement and verification
for arbitrary input are `C05.confined` and `C05.verified` (re-exported at the end).
-/
import ZckModel.Props.C05

namespace Zck.C17
open Zck Zck.Format Zck.Dl Zck.Copy Zck.C05

/-- what `regexec` promises: group offsets lie inside the subject string, in order -/
structure RxSane (rx : Rx) : Prop where
  hdr  : ∀ s so eo, rx.hdr s = some (so, eo) → so ≤ eo ∧ eo ≤ s.length
  part : ∀ pp s a b c d, rx.part pp s = some (a, b, c, d) → a ≤ b ∧ b ≤ s.length ∧ c ≤ d ∧ d ≤ s.length

/-- the three patterns are NULL or compiled, never allocated-but-uncompiled; the part pattern never without the closing one -/
structure RxOk (st : St) : Prop where
  noUb : st.ub = false
  hdr  : st.hdrRx ≠ .broken
  pair : st.dlRx = .null ∨ ((∃ p, st.dlRx = .ok p) ∧ (∃ q, st.endRx = .ok q))

theorem RxOk.congr {st st' : St} (h : RxOk st) (h1 : st'.ub = st.ub) (h2 : st'.hdrRx = st.hdrRx)
    (h3 : st'.dlRx = st.dlRx) (h4 : st'.endRx = st.endRx) : RxOk st' :=
  ⟨by rw [h1]; exact h.noUb, by rw [h2]; exact h.hdr, by rw [h3, h4]; exact h.pair⟩

/-- the regex fields and the ub flag, which most of the write path does not touch -/
def rxs (st : St) : Bool × RxSt × RxSt × RxSt := (st.ub, st.hdrRx, st.dlRx, st.endRx)

theorem RxOk.of_rxs {st st' : St} (h : RxOk st) (hr : rxs st' = rxs st) : RxOk st' := by
  simp only [rxs, Prod.mk.injEq] at hr
  exact h.congr hr.1 hr.2.1 hr.2.2.1 hr.2.2.2

theorem rxs_dlWrite (st : St) (at_ : Bytes) : rxs (dlWrite st at_).2 = rxs st := by
  unfold dlWrite
  simp only
  repeat' split
  all_goals rfl

theorem dlWrite_some (st : St) (at_ : Bytes) (wb : Nat) (st1 : St) (h : dlWrite st at_ = (some wb, st1)) :
    (st.writeInChunk = 0 → wb = 0 ∧ st1.writeInChunk = 0) ∧
    (st.writeInChunk > 0 → 0 < wb ∧ wb ≤ at_.length ∧ wb ≤ st.writeInChunk ∧ st1.writeInChunk = st.writeInChunk - wb) := by
  unfold dlWrite at h
  by_cases h0 : st.writeInChunk > 0
  · simp only [h0, ↓reduceIte] at h
    generalize hwb : (if st.writeInChunk < at_.length then st.writeInChunk else at_.length) = w at h
    have hw1 : w ≤ st.writeInChunk := by rw [← hwb]; split <;> omega
    have hw2 : w ≤ at_.length := by rw [← hwb]; split <;> omega
    by_cases hz : w = 0
    · simp [hz] at h
    · simp only [hz, ↓reduceIte] at h
      cases hh : st.hash with
      | none => simp [hh] at h
      | some acc =>
        simp only [hh, Prod.mk.injEq, Option.some.injEq] at h
        refine ⟨fun h' => by omega, fun _ => ?_⟩
        rw [← h.1, ← h.2]
        exact ⟨by omega, hw2, hw1, rfl⟩
  · simp only [h0, ↓reduceIte, Prod.mk.injEq, Option.some.injEq] at h
    refine ⟨fun h' => ⟨h.1.symm, by rw [← h.2]; exact h'⟩, fun h' => absurd h' h0⟩

theorem rxs_setChunkValid (e : Env) (st : St) (k : Nat) (h : ∃ tc, e.hdr.chunks[k]? = some tc) :
    rxs (setChunkValid e st k).2 = rxs st := by
  obtain ⟨tc, htc⟩ := h
  unfold setChunkValid
  rw [htc]
  simp only
  cases hh : st.hash with
  | none => rfl
  | some acc =>
    simp only
    generalize (if tc.compLen = 0 then (hsize e.hdr.chunkHashType).map zeros else e.H e.hdr.chunkHashType acc) = dg
    by_cases hd : (dg == some tc.digest) = true
    · simp only [hd, ↓reduceIte]; rfl
    · simp only [hd, Bool.false_eq_true, ↓reduceIte]; rfl

theorem rxs_dlVerify (e : Env) (f0 : Bytes) (v0 : List Int) (st : St) (hg : Good e f0 v0 st) :
    rxs (dlVerify e st).2 = rxs st := by
  unfold dlVerify
  split
  · rename_i k hk; exact rxs_setChunkValid e st k (hg.chk k hk).2
  · rfl

theorem rxs_dlOpen (e : Env) (st : St) : rxs (dlOpen e st) = rxs st := by
  unfold dlOpen
  simp only
  split
  · split <;> rfl
  · rfl

theorem rxs_dlSelect (e : Env) (f0 : Bytes) (v0 : List Int) (st : St) (hg : Good e f0 v0 st) :
    rxs (dlSelect e st).2 = rxs st := by
  unfold dlSelect
  simp only
  split
  · exact rxs_dlVerify e f0 v0 st hg
  · rw [rxs_dlOpen]; exact rxs_dlVerify e f0 v0 st hg

/-- `dl_write_range` with enough fuel for its argument never runs out of fuel, uses no pattern, reads no chunk that is
not in the index: the regex fields and the ub flag are unchanged -/
theorem rxs_dlWriteRange (e : Env) (f0 : Bytes) (v0 : List Int) : ∀ (fuel : Nat) (st : St) (at_ : Bytes),
    Good e f0 v0 st → 2 * at_.length + (if st.writeInChunk = 0 then 1 else 0) + 1 ≤ fuel →
    rxs (dlWriteRange e fuel st at_).2 = rxs st
  | 0, st, at_, _, hf => by omega
  | fuel + 1, st, at_, hg, hf => by
    unfold dlWriteRange
    split
    · rfl
    · split
      · rfl
      · have hw := good_dlWrite e f0 v0 st at_ hg
        have hx := rxs_dlWrite st at_
        split
        · rename_i st1 heq; rw [heq] at hx; exact hx
        · rename_i wb st1 heq
          rw [heq] at hw hx
          simp only at hw hx
          -- how many bytes dl_write took, and what is left of the chunk
          have hwb := dlWrite_some st at_ wb st1 heq
          have hr : Good e f0 v0 (if st1.writeInChunk = 0 then dlSelect e st1 else (true, st1)).2 ∧
              rxs (if st1.writeInChunk = 0 then dlSelect e st1 else (true, st1)).2 = rxs st1 := by
            split
            · rename_i h0; exact ⟨pres_dlSelect e (good_preserved e f0 v0) st1 hw h0, rxs_dlSelect e f0 v0 st1 hw⟩
            · exact ⟨hw, rfl⟩
          generalize (if st1.writeInChunk = 0 then dlSelect e st1 else (true, st1)) = r at hr ⊢
          simp only
          split
          · rw [hr.2, hx]
          · split
            · rename_i hrec
              have hlen : (at_.drop wb).length = at_.length - wb := by simp
              have := rxs_dlWriteRange e f0 v0 fuel r.2 (at_.drop wb) hr.1 (by
                rw [hlen]
                by_cases h0 : st.writeInChunk = 0
                · have := hwb.1 h0
                  simp only [h0, ↓reduceIte] at hf
                  have hne : r.2.writeInChunk ≠ 0 := by omega
                  simp only [hne, ↓reduceIte]
                  omega
                · have := hwb.2 (by omega)
                  simp only [h0, ↓reduceIte] at hf
                  split <;> omega)
              split
              · rw [this, hr.2, hx]
              · rw [this, hr.2, hx]
            · rw [hr.2, hx]

/-- where the scan for CRLFCRLF stops: not found ⇒ within four bytes of the end; found at `j` ⇒ `i ≤ j` and at least one
byte follows the terminator (`j + 4 < length`), so `j[3] = 0` and everything before it is inside the buffer -/
theorem scanFrom_spec : ∀ (bs : Bytes) (j : Nat),
    (∀ r, scanFrom bs j = .inl r → j ≤ r ∧ r + 4 ≥ j + bs.length) ∧
    (∀ r, scanFrom bs j = .inr r → j ≤ r ∧ r + 4 < j + bs.length)
  | [], j => by simp [scanFrom]
  | [_], j => by simp [scanFrom]
  | [_, _], j => by simp [scanFrom]
  | [_, _, _], j => by simp [scanFrom]
  | [_, _, _, _], j => by simp [scanFrom]
  | a :: b :: c :: d :: x :: rest, j => by
    have ih := scanFrom_spec (b :: c :: d :: x :: rest) (j + 1)
    unfold scanFrom
    split
    · simp only [reduceCtorEq, false_implies, implies_true, Sum.inr.injEq, true_and, List.length_cons]
      intro r hr; subst hr; omega
    · simp only [List.length_cons] at ih ⊢
      constructor
      · intro r hr; have := ih.1 r hr; omega
      · intro r hr; have := ih.2 r hr; omega

theorem scanHdr_inl (buf : Bytes) (i j : Nat) (hi : i < buf.length) (h : scanHdr buf i = .inl j) : j + 4 ≥ buf.length := by
  unfold scanHdr at h
  have := (scanFrom_spec (buf.drop i) i).1 j h
  simp only [List.length_drop] at this
  omega

theorem scanHdr_inr (buf : Bytes) (i j : Nat) (hi : i < buf.length) (h : scanHdr buf i = .inr j) :
    i ≤ j ∧ j + 4 < buf.length := by
  unfold scanHdr at h
  have := (scanFrom_spec (buf.drop i) i).2 j h
  simp only [List.length_drop] at this
  omega

/-- **the C string handed to `regexec` ends inside the buffer**: after `j[3] = 0` there is a NUL at or before `j + 3`,
so the subject is at most `j + 3 - i` bytes long -/
theorem cstr_in_bounds (buf : Bytes) (i j : Nat) (hij : i ≤ j) (hj : j + 4 < buf.length) :
    (cstr ((buf.set (j + 3) 0).drop i)).length ≤ j + 3 - i := by
  unfold cstr
  have hsplit : (buf.set (j + 3) 0).drop i = ((buf.set (j + 3) 0).drop i).take (j + 3 - i) ++ 0 :: (buf.set (j + 3) 0).drop (j + 4) := by
    have h1 : ((buf.set (j + 3) 0).drop i).drop (j + 3 - i) = 0 :: (buf.set (j + 3) 0).drop (j + 4) := by
      rw [List.drop_drop]
      have : i + (j + 3 - i) = j + 3 := by omega
      rw [this]
      rw [List.drop_eq_getElem_cons (by simp; omega)]
      simp
    rw [← h1, List.take_append_drop]
  rw [hsplit]
  have : ∀ (l1 l2 : Bytes), ((l1 ++ 0 :: l2).takeWhile (· ≠ 0)).length ≤ l1.length := by
    intro l1 l2
    induction l1 with
    | nil => simp
    | cons a l ih =>
      simp only [List.cons_append, List.takeWhile_cons]
      split
      · simp only [List.length_cons]; omega
      · simp
  have h2 := this (((buf.set (j + 3) 0).drop i).take (j + 3 - i)) ((buf.set (j + 3) 0).drop (j + 4))
  refine Nat.le_trans h2 ?_
  simp only [List.length_take]
  omega

/-- both part patterns are compiled -/
def RxReady (st : St) : Prop := (∃ p, st.dlRx = .ok p) ∧ (∃ q, st.endRx = .ok q)

theorem RxReady.of_rxs {st st' : St} (h : RxReady st) (hr : rxs st' = rxs st) : RxReady st' := by
  simp only [rxs, Prod.mk.injEq] at hr
  unfold RxReady; rw [hr.2.2.1, hr.2.2.2]; exact h

theorem rxs_mpPartHeader (e : Env) (hs : RxSane e.rx) (s : Bytes) (st : St) (hr : RxReady st) :
    rxs (mpPartHeader e s st).2 = rxs st := by
  obtain ⟨⟨p, hp⟩, ⟨q, hq⟩⟩ := hr
  unfold mpPartHeader
  rw [hp, hq]
  simp only
  cases hm : e.rx.part p s with
  | none => simp only; split <;> simp [rxs, hp, hq]
  | some m =>
    obtain ⟨a, b, c, d⟩ := m
    have := hs.part p s a b c d hm
    simp only
    rw [if_neg (by simp only [Classical.not_not]; exact this)]
    simp [rxs, hp, hq]

theorem rxs_mpPayload (e : Env) (f0 : Bytes) (v0 : List Int) (buf : Bytes) (i hs : Nat) (st : St)
    (hg : Good e f0 v0 st) : rxs (mpPayload e buf i hs st).2.2.2 = rxs st := by
  unfold mpPayload
  by_cases hle : st.mp.length ≤ buf.length - i
  · simp only [hle, ↓reduceIte]
    refine Eq.trans (rxs_dlWriteRange e f0 v0 _ _ _ (hg.congr rfl rfl rfl rfl rfl) ?_) rfl
    simp only [List.length_take, List.length_drop]
    split <;> omega
  · simp only [hle, ↓reduceIte]
    refine Eq.trans (rxs_dlWriteRange e f0 v0 _ _ _ (hg.congr rfl rfl rfl rfl rfl) ?_) rfl
    simp only [List.length_take, List.length_drop]
    split <;> omega

/-- `dl_write_range` and everything below it leave the multipart parser's state alone -/
theorem mp_dlWrite (st : St) (at_ : Bytes) : (dlWrite st at_).2.mp = st.mp := by
  unfold dlWrite
  simp only
  repeat' split
  all_goals rfl

theorem mp_setChunkValid (e : Env) (st : St) (k : Nat) : (setChunkValid e st k).2.mp = st.mp := by
  unfold setChunkValid
  cases e.hdr.chunks[k]? with
  | none => rfl
  | some tc =>
    simp only
    cases hh : st.hash with
    | none => rfl
    | some acc =>
      simp only
      generalize (if tc.compLen = 0 then (hsize e.hdr.chunkHashType).map zeros else e.H e.hdr.chunkHashType acc) = dg
      by_cases hd : (dg == some tc.digest) = true
      · simp only [hd, ↓reduceIte]
      · simp only [hd, Bool.false_eq_true, ↓reduceIte]; rfl

theorem mp_dlSelect (e : Env) (st : St) : (dlSelect e st).2.mp = st.mp := by
  have hv : (dlVerify e st).2.mp = st.mp := by
    unfold dlVerify; split
    · exact mp_setChunkValid e st _
    · rfl
  have ho : ∀ s : St, (dlOpen e s).mp = s.mp := by
    intro s; unfold dlOpen; simp only; split
    · split <;> rfl
    · rfl
  unfold dlSelect
  simp only
  split
  · exact hv
  · rw [ho]; exact hv

theorem mp_dlWriteRange (e : Env) : ∀ (fuel : Nat) (st : St) (at_ : Bytes), (dlWriteRange e fuel st at_).2.mp = st.mp
  | 0, st, _ => by unfold dlWriteRange; rfl
  | fuel + 1, st, at_ => by
    unfold dlWriteRange
    split
    · rfl
    · split
      · rfl
      · have hx := mp_dlWrite st at_
        split
        · rename_i st1 heq; rw [heq] at hx; exact hx
        · rename_i wb st1 heq
          rw [heq] at hx
          simp only at hx
          have hr : (if st1.writeInChunk = 0 then dlSelect e st1 else (true, st1)).2.mp = st1.mp := by
            split
            · exact mp_dlSelect e st1
            · rfl
          generalize (if st1.writeInChunk = 0 then dlSelect e st1 else (true, st1)) = r at hr ⊢
          simp only
          split
          · rw [hr, hx]
          · split
            · have := mp_dlWriteRange e fuel r.2 (at_.drop wb)
              split
              · rw [this, hr, hx]
              · rw [this, hr, hx]
            · rw [hr, hx]

/-- how far `mpPayload` advances: at most to the end of the buffer; and when it does not advance it has left payload mode -/
theorem mpPayload_size (e : Env) (buf : Bytes) (i hs : Nat) (st : St) :
    (mpPayload e buf i hs st).1 ≤ buf.length - i ∧
    ((mpPayload e buf i hs st).1 = 0 → i < buf.length → (mpPayload e buf i hs st).2.2.1 = true →
       (mpPayload e buf i hs st).2.2.2.mp.state = 0) := by
  unfold mpPayload
  by_cases hle : st.mp.length ≤ buf.length - i
  · simp only [hle, ↓reduceIte]
    refine ⟨trivial, fun h0 _ _ => ?_⟩
    rw [mp_dlWriteRange]
  · simp only [hle, ↓reduceIte]
    refine ⟨Nat.le_refl _, fun h0 hi _ => by omega⟩

/-- iterations the `while(i)` loop still needs from position `i` in parser state `state` (a bound) -/
def need (l i state : Nat) : Nat := if i ≥ l then 1 else 2 * (l - i) + (if state ≠ 0 then 1 else 0) + 1

/-- the loop of `multipart_extract`, given enough fuel for the buffer, compiled patterns and a sane `regexec`, terminates
without touching the patterns and without undefined behaviour -/
theorem rxs_mpLoop (e : Env) (hsane : RxSane e.rx) (f0 : Bytes) (v0 : List Int) :
    ∀ (fuel : Nat) (buf : Bytes) (i hs : Nat) (st : St), Good e f0 v0 st → RxReady st →
      need buf.length i st.mp.state ≤ fuel → rxs (mpLoop e fuel buf i hs st).2 = rxs st
  | 0, buf, i, hs, st, _, _, hf => by unfold need at hf; split at hf <;> omega
  | fuel + 1, buf, i, hs, st, hg, hr, hf => by
    unfold mpLoop
    simp only
    split
    · rename_i hst
      split
      · rfl
      · rename_i hi
        have hp := pres_mpPayload e (good_preserved e f0 v0) buf i hs st hg
        have hx := rxs_mpPayload e f0 v0 buf i hs st hg
        have hsz := mpPayload_size e buf i hs st
        generalize mpPayload e buf i hs st = r at hp hx hsz ⊢
        obtain ⟨size, hs', ok, st'⟩ := r
        simp only at hp hx hsz ⊢
        split
        · exact hx
        · rename_i hok
          rw [rxs_mpLoop e hsane f0 v0 fuel buf _ _ st' hp (hr.of_rxs hx) ?_, hx]
          have hok' : ok = true := by simpa using hok
          unfold need at hf ⊢
          simp only [hi, ↓reduceIte] at hf
          rw [if_pos hst] at hf
          by_cases h0 : size = 0
          · have := hsz.2 h0 (by omega) hok'
            simp only [h0, Nat.add_zero, hi, ↓reduceIte, this]
            simp only [ne_eq, not_true_eq_false, ↓reduceIte]
            omega
          · split
            · omega
            · split <;> omega
    · rename_i hst
      split
      · split <;> rfl
      · rename_i hi
        split
        · rename_i j hj
          have := scanHdr_inl buf i j (by omega) hj
          rw [rxs_mpLoop e hsane f0 v0 fuel buf _ _ st hg hr ?_]
          unfold need at hf ⊢
          simp only [hi, ↓reduceIte] at hf
          rw [if_pos (by omega)]
          omega
        · rename_i j hj
          have hb := scanHdr_inr buf i j (by omega) hj
          have hq := pres_mpPartHeader e (good_preserved e f0 v0) (cstr ((buf.set (j + 3) 0).drop i)) st hg
          have hx := rxs_mpPartHeader e hsane (cstr ((buf.set (j + 3) 0).drop i)) st hr
          split
          · rename_i heq; rw [heq] at hx; exact hx
          · rename_i st' heq
            rw [heq] at hq hx
            rw [rxs_mpLoop e hsane f0 v0 fuel _ _ _ st' hq (hr.of_rxs hx) ?_, hx]
            unfold need at hf ⊢
            simp only [hi, ↓reduceIte] at hf
            simp only [List.length_set]
            split
            · omega
            · split <;> omega

/-- the invariant of a session as far as safety is concerned -/
def Safe (e : Env) (f0 : Bytes) (v0 : List Int) (st : St) : Prop := Good e f0 v0 st ∧ RxOk st

theorem rxOk_genRegex (e : Env) (st : St) (h : RxOk st) :
    RxOk (genRegex e st).2 ∧ ((genRegex e st).1 = true → RxReady (genRegex e st).2) := by
  unfold genRegex
  simp only
  split
  · exact ⟨⟨h.noUb, h.hdr, Or.inl rfl⟩, fun hh => by simp at hh⟩
  · split
    · exact ⟨⟨h.noUb, h.hdr, Or.inl rfl⟩, fun hh => by simp at hh⟩
    · exact ⟨⟨h.noUb, h.hdr, Or.inr ⟨⟨_, rfl⟩, ⟨_, rfl⟩⟩⟩, fun _ => ⟨⟨_, rfl⟩, ⟨_, rfl⟩⟩⟩

theorem rxOk_mpEnsureRx (e : Env) (st : St) (h : RxOk st) :
    RxOk (mpEnsureRx e st).2 ∧ ((mpEnsureRx e st).1 = true → RxReady (mpEnsureRx e st).2) := by
  unfold mpEnsureRx
  split
  · exact rxOk_genRegex e st h
  · rename_i hn
    refine ⟨h, fun _ => ?_⟩
    rcases h.pair with h0 | h1
    · exact absurd h0 (by intro hh; exact hn hh)
    · exact h1

theorem safe_mpExtract (e : Env) (hsane : RxSane e.rx) (f0 : Bytes) (v0 : List Int) (st : St) (b : Bytes)
    (h : Safe e f0 v0 st) : Safe e f0 v0 (mpExtract e st b).2 := by
  refine ⟨pres_mpExtract e (good_preserved e f0 v0) st b h.1, ?_⟩
  obtain ⟨hg, hr⟩ := h
  unfold mpExtract
  split
  · exact hr
  · simp only
    have hj : Good e f0 v0 (mpJoin st b).2 ∧ rxs (mpJoin st b).2 = rxs st ∧ (mpJoin st b).2.mp.state = st.mp.state := by
      unfold mpJoin
      split
      · exact ⟨hg.congr rfl rfl rfl rfl rfl, rfl, rfl⟩
      · exact ⟨hg, rfl, rfl⟩
    have he := rxOk_mpEnsureRx e (mpJoin st b).2 (hr.of_rxs hj.2.1)
    have hge : Good e f0 v0 (mpEnsureRx e (mpJoin st b).2).2 := by
      unfold mpEnsureRx
      split
      · exact pres_genRegex e (good_preserved e f0 v0) _ hj.1
      · exact hj.1
    split
    · exact he.1
    · rename_i hok
      have hready := he.2 (by simpa using hok)
      have := rxs_mpLoop e hsane f0 v0 (2 * (mpJoin st b).1.length + 4) (mpJoin st b).1 0 0 _ hge hready (by
        unfold need
        split
        · omega
        · split <;> omega)
      exact he.1.of_rxs this

theorem safe_getBoundary (e : Env) (hsane : RxSane e.rx) (hc : e.rx.comp hdrPattern = true) (f0 : Bytes) (v0 : List Int)
    (st : St) (b : Bytes) (h : Safe e f0 v0 st) : Safe e f0 v0 (getBoundary e st b) := by
  refine ⟨pres_getBoundary e (good_preserved e f0 v0) st b h.1, ?_⟩
  obtain ⟨hg, hr⟩ := h
  unfold getBoundary
  split
  · exact hr
  · have hens : ∃ st1, hdrEnsureRx e st = some st1 ∧ RxOk st1 := by
      unfold hdrEnsureRx
      split
      · rw [if_pos hc]
        exact ⟨_, rfl, ⟨hr.noUb, by simp, hr.pair⟩⟩
      · exact ⟨st, rfl, hr⟩
    obtain ⟨st1, h1, hr1⟩ := hens
    rw [h1]
    simp only
    rw [if_neg hr1.hdr]
    cases hm : e.rx.hdr (cstr b) with
    | none => exact hr1
    | some p =>
      obtain ⟨so, eo⟩ := p
      have := hsane.hdr (cstr b) so eo hm
      simp only
      rw [if_neg (by simp only [Classical.not_not]; exact this)]
      exact hr1.congr rfl rfl rfl rfl

theorem safe_writeChunkCb (e : Env) (hsane : RxSane e.rx) (f0 : Bytes) (v0 : List Int) (st : St) (b : Bytes)
    (h : Safe e f0 v0 st) : Safe e f0 v0 (writeChunkCb e st b).2 := by
  refine ⟨pres_writeChunkCb e (good_preserved e f0 v0) st b h.1, ?_⟩
  unfold writeChunkCb
  simp only
  have h0 : Safe e f0 v0 { st with dlBytes := st.dlBytes + b.length } :=
    ⟨h.1.congr rfl rfl rfl rfl rfl, h.2.congr rfl rfl rfl rfl⟩
  split
  · exact (safe_mpExtract e hsane f0 v0 _ b h0).2
  · exact h0.2.of_rxs (rxs_dlWriteRange e f0 v0 _ _ b h0.1 (by split <;> omega))

theorem safe_feed (e : Env) (hsane : RxSane e.rx) (f0 : Bytes) (v0 : List Int) (stop clear : Bool) :
    ∀ (frags : List Bytes) (st : St) (acc : List Nat), Safe e f0 v0 st → Safe e f0 v0 (feed e stop clear st frags acc).2
  | [], st, acc, h => by unfold feed; exact h
  | b :: rest, st, acc, h => by
    unfold feed
    have h1 := safe_writeChunkCb e hsane f0 v0 st b h
    generalize writeChunkCb e st b = r at h1 ⊢
    obtain ⟨r1, st1⟩ := r
    simp only at h1 ⊢
    split
    · exact h1
    · apply safe_feed e hsane f0 v0 stop clear rest
      split
      · exact ⟨h1.1.congr rfl rfl rfl rfl rfl, h1.2.congr rfl rfl rfl rfl⟩
      · exact h1

theorem safe_feedHdrs (e : Env) (hsane : RxSane e.rx) (hc : e.rx.comp hdrPattern = true) (f0 : Bytes) (v0 : List Int) :
    ∀ (lines : List Bytes) (st : St) (acc : List Nat), Safe e f0 v0 st → Safe e f0 v0 (feedHdrs e st lines acc).2
  | [], st, acc, h => by unfold feedHdrs; exact h
  | b :: rest, st, acc, h => by
    unfold feedHdrs
    simp only [headerCb]
    exact safe_feedHdrs e hsane hc f0 v0 rest _ _ (safe_getBoundary e hsane hc f0 v0 st b h)

/-- **C17 (safety)**: for ANY header lines, ANY body bytes, ANY fragmentation (also empty fragments), whether the transport
stops at a refusal or goes on and whether the application clears errors in between, and whatever a `regexec` that keeps
its contract (offsets inside the subject) answers — including failures of `regcomp` on the patterns built from the
server's boundary — no callback uses an uncompiled pattern, reads a match outside its string, follows a chunk pointer out
of the index, or fails to terminate (every loop ends within the fuel computed from the size of its input).
Hypothesis: the constant header pattern compiles (otherwise glibc is out of memory). -/
theorem safe (e : Env) (hsane : RxSane e.rx) (hc : e.rx.comp hdrPattern = true) (st : St) (lines frags : List Bytes)
    (stop clear : Bool) (h1 : st.tgtCheck = none) (h2 : st.writeInChunk = 0) (h3 : RxOk st) :
    (feed e stop clear (feedHdrs e st lines []).2 frags []).2.ub = false :=
  (safe_feed e hsane st.file st.valid stop clear frags _ []
    (safe_feedHdrs e hsane hc st.file st.valid lines st [] ⟨good_init e st h1 h2, h3⟩)).2.noUb

/-- **C17 (confinement)** = `C05.confined`: stated there for arbitrary bytes, fragmentations and regex answers -/
theorem confined_any (e : Env) (st : St) (lines frags : List Bytes) (stop clear : Bool)
    (h1 : st.tgtCheck = none) (h2 : st.writeInChunk = 0) :
    let fin := (feed e stop clear (feedHdrs e st lines []).2 frags []).2
    (∀ i, Outside e st.valid i → fin.file.getD i 0 = st.file.getD i 0) ∧
    (∀ k, st.valid.getD k 0 = 1 → fin.valid.getD k 0 = 1) :=
  C05.confined e st lines frags stop clear h1 h2

/-- **C17 (verification)** = `C05.verified` -/
theorem verified_any (e : Env) (hd : Disj e) (st : St) (lines frags : List Bytes) (stop clear : Bool)
    (h1 : st.tgtCheck = none) (h2 : st.writeInChunk = 0) :
    let fin := (feed e stop clear (feedHdrs e st lines []).2 frags []).2
    ∀ k tc, e.hdr.chunks[k]? = some tc → st.valid.getD k 0 ≠ 1 → fin.valid.getD k 0 = 1 → ChunkOk e fin.file tc :=
  C05.verified e hd st lines frags stop clear h1 h2

/-! ### non-vacuity (tests on a concrete instance, labelled as tests) -/

/-- toy checksum: the byte sum -/
def toyH : HashFn := fun _ bs => some [bs.foldl (· + ·) 0]
def toyRx : Rx := { comp := fun _ => true, hdr := fun _ => none, part := fun _ _ => none, endm := fun _ _ => false }
def toyHdr : Hdr :=
  { detached := false, hashType := 1, chunkHashType := 3, flags := 0, compType := 0, lead := 4, headerLen := 2,
    headerDigest := [], dataDigest := [], count := 3,
    chunks := [⟨0, [0], none, 0, 0, 0⟩, ⟨1, [6], none, 3, 3, 0⟩, ⟨2, [9], none, 2, 2, 3⟩], dataLen := 5 }
def toyEnv : Env := { H := toyH, rx := toyRx, hdr := toyHdr, ridx := mkRidx [(1, 3), (2, 2)] 0 }
def toySt : St := { file := [9, 9, 9, 9, 9, 9, 7, 7, 7, 7, 7], pos := 6, valid := [1, 0, 0] }

/-- the hypotheses of `confined`, `verified` and `C17.safe` hold of a concrete session -/
example : toySt.tgtCheck = none ∧ toySt.writeInChunk = 0 ∧ Disj toyEnv ∧ RxOk toySt ∧ RxSane toyEnv.rx ∧
    toyEnv.rx.comp hdrPattern = true := by
  refine ⟨rfl, rfl, disj_of_runFrom toyEnv (by simp [toyEnv, toyHdr, C13.RunFrom]), ⟨rfl, by simp [toySt], Or.inl rfl⟩,
    ⟨fun _ _ _ h => by simp [toyEnv, toyRx] at h, fun _ _ _ _ _ _ h => by simp [toyEnv, toyRx] at h⟩, rfl⟩

/-- TEST: a single-range response cut in two, the cut inside the first chunk: both chunks land at their offsets and are valid -/
example : (feed toyEnv true false toySt [[1, 2], [3, 4, 5]] []).2.file = [9, 9, 9, 9, 9, 9, 1, 2, 3, 4, 5] ∧
    (feed toyEnv true false toySt [[1, 2], [3, 4, 5]] []).2.valid = [1, 1, 1] ∧
    (feed toyEnv true false toySt [[1, 2], [3, 4, 5]] []).1 = [2, 3] := by decide

/-- TEST: a damaged byte in the first chunk: zero-filled, marked failed, the callback returns 0, the second chunk untouched -/
example : (feed toyEnv true false toySt [[1, 2], [4, 4, 5]] []).2.file = [9, 9, 9, 9, 9, 9, 0, 0, 0, 7, 7] ∧
    (feed toyEnv true false toySt [[1, 2], [4, 4, 5]] []).2.valid = [1, -1, 0] ∧
    (feed toyEnv true false toySt [[1, 2], [4, 4, 5]] []).1 = [2, 0] := by decide

end Zck.C17
