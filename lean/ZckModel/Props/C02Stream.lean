/-
C02 / C01 — the streaming reader, end to end (`comp_read` called any number of times with any buffer sizes, `import_dict`,
`zck_close`), for an ARBITRARY file, codec and hash function.

`stream_sound`: if every read of a sequence reports success, the last one comes up short (end of stream), then the bytes
handed out are exactly the concatenation, in index order, of the contents of the data chunks, every chunk of the index was
consumed exactly once from its own extent of the file, its stored bytes hash to its index checksum and decode (with the
dictionary the format prescribes) to exactly its declared length; and if `zck_close` succeeds too, the whole data section is
present and hashes to the data checksum of the header.  `Props/C02Decode.lean` restates this against the independent
reference decoder `Format.decodeAny`.

The proof is one invariant (`SI`) of the loop of `comp_read`, kept by every iteration (`step_SI`), hence by every call and
every sequence of calls: where the reader is in the index, that every byte consumed so far was really in the file, what the
two running checksums have been fed, and the accounting equation "skipped ++ delivered ++ buffered = contents of the chunks
finished so far (++ what was read of the current one, for stored chunks)".
-/
import ZckModel.ReaderLemmas
import ZckModel.Props.C13

namespace Zck.Stream
open Zck Zck.Format Zck.Reader

/-! ### reads from the file -/

theorem fileRead_zero (f : Bytes) (p : Nat) : fileRead f p 0 = [] := by simp [fileRead]

theorem fileRead_length_le (f : Bytes) (p n : Nat) : (fileRead f p n).length ≤ n := by
  unfold fileRead; simp only [List.length_take]; exact Nat.min_le_left _ _

theorem fileRead_add (f : Bytes) (p a b : Nat) :
    fileRead f p (a + b) = fileRead f p a ++ fileRead f (p + a) b := by
  unfold fileRead
  rw [List.take_add, List.drop_drop]

/-- reading again exactly as many bytes as a read delivered gives the same bytes -/
theorem fileRead_self (f : Bytes) (p n : Nat) : fileRead f p (fileRead f p n).length = fileRead f p n := by
  unfold fileRead
  simp only [List.length_take]
  rw [List.take_eq_take_iff]
  simp only [List.length_drop]
  omega

/-- if `a + b` bytes were all there, so were the first `a` and the next `b` -/
theorem fileRead_full_split (f : Bytes) (p a b : Nat) (h : (fileRead f p (a + b)).length = a + b) :
    (fileRead f p a).length = a ∧ (fileRead f (p + a) b).length = b := by
  rw [fileRead_add, List.length_append] at h
  have h1 := fileRead_length_le f p a
  have h2 := fileRead_length_le f (p + a) b
  omega

theorem fileRead_full_add (f : Bytes) (p a b : Nat) (h1 : (fileRead f p a).length = a)
    (h2 : (fileRead f (p + a) b).length = b) : (fileRead f p (a + b)).length = a + b := by
  rw [fileRead_add, List.length_append, h1, h2]

/-! ### what the format says a chunk holds -/

section
variable (H : HashFn) (D : Decomp) (f : Bytes) (h : Hdr)

/-- offset of the data section -/
def dOff : Nat := h.lead + h.headerLen

/-- the stored bytes of a chunk as they are on disk (short when the file ends early) -/
def stored (ch : Chunk) : Bytes := fileRead f (dOff h + ch.start) ch.compLen

/-- decoded content of a chunk under dictionary `dict` -/
def plainOf (dict : Option Bytes) (ch : Chunk) : Bytes :=
  if h.compType = 0 then stored f h ch else (D (stored f h ch) dict).getD []

/-- the stored bytes hash to the index checksum (all zeros for a chunk without stored bytes) -/
def SumOk (ch : Chunk) : Prop :=
  ∃ d, H h.chunkHashType (stored f h ch) = some d ∧ (if ch.compLen = 0 then zeros d.length else d) = ch.digest

/-- a chunk is all there, verifies and decodes to exactly its declared length -/
def ChunkGood (dict : Option Bytes) (ch : Chunk) : Prop :=
  (stored f h ch).length = ch.compLen ∧ SumOk H f h ch ∧
  (if h.compType = 0 then ch.compLen = ch.len
   else ∃ p, D (stored f h ch) dict = some p ∧ p.length = ch.len)

/-- the dictionary for the data chunks: the content of the first index entry unless it is empty -/
def dictMain : Option Bytes :=
  match h.chunks.head? with
  | some d => if d.len = 0 then none else some (plainOf D f h none d)
  | none => none

def dictFor (j : Nat) : Option Bytes := if j = 0 then none else dictMain D f h

/-- the first index entry when it is the empty dictionary: the reader passes over it -/
def Skipped (j : Nat) (ch : Chunk) : Prop := j = 0 ∧ ch.compLen = 0 ∧ ch.len = 0

instance (j : Nat) (ch : Chunk) : Decidable (Skipped j ch) := by unfold Skipped; exact inferInstance

/-- what chunk number `j` contributes to the stream -/
def contrib (j : Nat) (ch : Chunk) : Bytes :=
  if Skipped j ch then [] else plainOf D f h (dictFor D f h j) ch

def Need (j : Nat) (ch : Chunk) : Prop := Skipped j ch ∨ ChunkGood H D f h (dictFor D f h j) ch

def doneFrom : Nat → List Chunk → Bytes
  | _, [] => []
  | j, c :: cs => contrib D f h j c ++ doneFrom (j + 1) cs

/-- contents of the first `k` chunks -/
def done (k : Nat) : Bytes := doneFrom D f h 0 (h.chunks.take k)

def AllNeed (k : Nat) : Prop := ∀ j ch, j < k → h.chunks[j]? = some ch → Need H D f h j ch

theorem doneFrom_append (j : Nat) (a b : List Chunk) :
    doneFrom D f h j (a ++ b) = doneFrom D f h j a ++ doneFrom D f h (j + a.length) b := by
  induction a generalizing j with
  | nil => simp [doneFrom]
  | cons x xs ih =>
    simp only [List.cons_append, doneFrom, ih, List.length_cons, List.append_assoc]
    rw [show j + 1 + xs.length = j + (xs.length + 1) by omega]

theorem done_zero : done D f h 0 = [] := by simp [done, doneFrom]

theorem done_succ (k : Nat) (ch : Chunk) (hk : h.chunks[k]? = some ch) :
    done D f h (k + 1) = done D f h k ++ contrib D f h k ch := by
  unfold done
  have hlt : k < h.chunks.length := by
    rcases Nat.lt_or_ge k h.chunks.length with hl | hl
    · exact hl
    · rw [List.getElem?_eq_none hl] at hk; cases hk
  have : h.chunks.take (k + 1) = h.chunks.take k ++ [ch] := by
    rw [List.take_add_one, hk]; rfl
  rw [this, doneFrom_append]
  simp [doneFrom, List.length_take, Nat.min_eq_left (Nat.le_of_lt hlt)]

theorem done_all (k : Nat) (hk : h.chunks.length ≤ k) : done D f h k = done D f h h.chunks.length := by
  unfold done; rw [List.take_of_length_le hk, List.take_length]

theorem allNeed_succ (k : Nat) (ch : Chunk) (hk : h.chunks[k]? = some ch) (ha : AllNeed H D f h k)
    (hn : Need H D f h k ch) : AllNeed H D f h (k + 1) := by
  intro j c hj hc
  rcases Nat.lt_or_ge j k with hl | hl
  · exact ha j c hl hc
  · have : j = k := by omega
    subst this
    rw [hk] at hc; cases hc; exact hn

/-! ### running sums -/

theorem run_start : ∀ (cs : List Chunk) (num s k : Nat) (ch : Chunk), C13.RunFrom num s cs → cs[k]? = some ch →
    ch.start = s + C13.sumLen (cs.take k)
  | [], _, _, _, _, _, hk => by simp at hk
  | c :: cs, num, s, 0, ch, hr, hk => by
    simp only [List.getElem?_cons_zero, Option.some.injEq] at hk
    subst hk; simp [C13.sumLen, hr.2.1]
  | c :: cs, num, s, k + 1, ch, hr, hk => by
    simp only [List.getElem?_cons_succ] at hk
    have := run_start cs (num + 1) (s + c.compLen) k ch hr.2.2 hk
    simp only [List.take_succ_cons, C13.sumLen]; omega

theorem sumLen_take_succ (cs : List Chunk) (k : Nat) (ch : Chunk) (hk : cs[k]? = some ch) :
    C13.sumLen (cs.take (k + 1)) = C13.sumLen (cs.take k) + ch.compLen := by
  induction cs generalizing k with
  | nil => simp at hk
  | cons c cs ih =>
    cases k with
    | zero =>
      simp only [List.getElem?_cons_zero, Option.some.injEq] at hk
      subst hk; simp [C13.sumLen]
    | succ k =>
      simp only [List.getElem?_cons_succ] at hk
      simp only [List.take_succ_cons, C13.sumLen, ih k hk]; omega

/-- the start of the next chunk is the end of this one -/
theorem run_next (hr : C13.RunFrom 0 0 h.chunks) (k : Nat) (ch nx : Chunk) (hk : h.chunks[k]? = some ch)
    (hn : h.chunks[k + 1]? = some nx) : nx.start = ch.start + ch.compLen := by
  have h1 := run_start h.chunks 0 0 k ch hr hk
  have h2 := run_start h.chunks 0 0 (k + 1) nx hr hn
  rw [sumLen_take_succ h.chunks k ch hk] at h2
  omega

/-- the end of the last chunk is the length of the data section -/
theorem run_last (hr : C13.RunFrom 0 0 h.chunks) (k : Nat) (ch : Chunk) (hk : h.chunks[k]? = some ch)
    (hl : h.chunks.length ≤ k + 1) : ch.start + ch.compLen = C13.sumLen h.chunks := by
  have h1 := run_start h.chunks 0 0 k ch hr hk
  have h2 := sumLen_take_succ h.chunks k ch hk
  rw [List.take_of_length_le hl] at h2
  omega


/-! ### the invariant of the reader between two iterations of the loop of `comp_read` -/

def f4 : Bool := decide (h.flags / 4 % 2 = 1)

/-- length of the data section according to the index -/
def total : Nat := C13.sumLen h.chunks

/-- clauses common to every state: same header, no error, decoder initialised, dictionary `dv` installed -/
structure Base (dv : Option Bytes) (c : Ctx) : Prop where
  hdr : c.hdr = h
  noerr : c.err = false
  started : c.started = true
  dict : c.dict = dv

/-- nothing consumed yet -/
structure Start (ud : Bool) (dv : Option Bytes) (sk T : Bytes) (c : Ctx) : Prop where
  base : Base h dv c
  eof : c.dataEof = false
  idx : c.dataIdx = none
  data : c.data = []
  dc : c.dc = []
  loc : c.dataLoc = 0
  pos : c.pos = dOff h
  fhash : f4 h = true ∨ c.fullHash = some []
  sk0 : sk = []
  t0 : T = []
  dictOk : ud = true → h.compType ≠ 0 → dv = dictMain D f h ∧ dictMain D f h = none

/-- inside chunk `k` (= `ch`), `c.dataLoc` of its stored bytes consumed.  `sk` = bytes taken out of the stream before (the
dictionary), `T` = bytes handed to the caller. -/
structure Mid (tr : Bool) (ud : Bool) (n : Nat) (dv : Option Bytes) (sk T : Bytes) (c : Ctx) (k : Nat) (ch : Chunk) : Prop where
  base : Base h dv c
  eof : c.dataEof = false
  idx : c.dataIdx = some k
  chk : h.chunks[k]? = some ch
  loc : c.dataLoc ≤ ch.compLen
  pres : (fileRead f (dOff h) (ch.start + c.dataLoc)).length = ch.start + c.dataLoc
  pos : c.pos = dOff h + ch.start + c.dataLoc
  chash : c.chunkHash = some (fileRead f (dOff h + ch.start) c.dataLoc)
  fhash : f4 h = true ∨ (if tr then c.fullHash = some (fileRead f (dOff h) (ch.start + c.dataLoc)) else c.fullHash.isSome = true)
  dataZ : h.compType ≠ 0 → c.data = fileRead f (dOff h + ch.start) c.dataLoc
  acct : sk ++ T ++ c.dc ++ (if h.compType = 0 then c.data else []) =
         done D f h k ++ (if h.compType = 0 then fileRead f (dOff h + ch.start) c.dataLoc else [])
  needs : AllNeed H D f h k
  dictOk : ud = true → h.compType ≠ 0 → dv = dictMain D f h ∧ (k = 0 → dictMain D f h = none)
  pa : ud = false → k = 0 ∨ (k = 1 ∧ h.compType ≠ 0 ∧ n ≤ T.length + c.dc.length)
  nsk : ¬ Skipped k ch

/-- every chunk consumed and verified -/
structure Fin (tr : Bool) (ud : Bool) (dv : Option Bytes) (sk T : Bytes) (c : Ctx) : Prop where
  base : Base h dv c
  eof : c.dataEof = true
  pres : (fileRead f (dOff h) (total h)).length = total h
  fhash : f4 h = true ∨ (if tr then c.fullHash = some (fileRead f (dOff h) (total h)) else c.fullHash.isSome = true)
  acct : sk ++ T ++ c.dc = done D f h h.chunks.length
  needs : AllNeed H D f h h.chunks.length
  pa : ud = false → h.chunks.length = 1

inductive SI (tr : Bool) (ud : Bool) (n : Nat) (dv : Option Bytes) (sk T : Bytes) (c : Ctx) : Prop where
  | start : Start D f h ud dv sk T c → SI tr ud n dv sk T c
  | mid (k : Nat) (ch : Chunk) : Mid H D f h tr ud n dv sk T c k ch → SI tr ud n dv sk T c
  | fin : Fin H D f h tr ud dv sk T c → SI tr ud n dv sk T c

variable {H D f h}

theorem SI.base {ud n dv sk T c} (s : SI H D f h tr ud n dv sk T c) : Base h dv c := by
  cases s with
  | start s => exact s.base
  | mid k ch s => exact s.base
  | fin s => exact s.base

theorem flag4_eq {c : Ctx} (hc : c.hdr = h) : flag4 c = f4 h := by simp [flag4, f4, hc]

/-- handing out buffered bytes keeps the invariant -/
theorem SI.handout {ud n dv sk T c} (m : Nat) (s : SI H D f h tr ud n dv sk T c) :
    SI H D f h tr ud n dv sk (T ++ c.dc.take m) { c with dc := c.dc.drop m } := by
  have key : ∀ X : Bytes, sk ++ (T ++ c.dc.take m) ++ c.dc.drop m ++ X = sk ++ T ++ c.dc ++ X := by
    intro X
    simp only [List.append_assoc]
    rw [← List.append_assoc (c.dc.take m), List.take_append_drop]
  cases s with
  | start s =>
    refine .start ⟨⟨s.base.hdr, s.base.noerr, s.base.started, s.base.dict⟩, s.eof, s.idx, s.data, ?_, s.loc, s.pos, s.fhash,
      s.sk0, ?_, s.dictOk⟩
    · simp [s.dc]
    · simp [s.t0, s.dc]
  | mid k ch s =>
    refine .mid k ch ⟨⟨s.base.hdr, s.base.noerr, s.base.started, s.base.dict⟩, s.eof, s.idx, s.chk, s.loc, s.pres, s.pos,
      s.chash, s.fhash, s.dataZ, ?_, s.needs, s.dictOk, ?_, s.nsk⟩
    · show sk ++ (T ++ c.dc.take m) ++ c.dc.drop m ++ _ = _
      rw [key]; exact s.acct
    · intro hu
      rcases s.pa hu with h0 | ⟨h1, h2, h3⟩
      · exact Or.inl h0
      · refine Or.inr ⟨h1, h2, ?_⟩
        show n ≤ (T ++ c.dc.take m).length + (c.dc.drop m).length
        simp only [List.length_append, List.length_take, List.length_drop]
        omega
  | fin s =>
    refine .fin ⟨⟨s.base.hdr, s.base.noerr, s.base.started, s.base.dict⟩, s.eof, s.pres, s.fhash, ?_, s.needs, s.pa⟩
    show sk ++ (T ++ c.dc.take m) ++ c.dc.drop m = _
    have := key []
    simp only [List.append_nil] at this
    rw [this]; exact s.acct


/-- "none": the pending stored bytes move to the output buffer -/
theorem Mid.moveData {ud n dv sk T c k ch} (s : Mid H D f h tr ud n dv sk T c k ch) (hz : h.compType = 0) :
    Mid H D f h tr ud n dv sk T { c with dc := c.dc ++ c.data, data := [] } k ch := by
  refine ⟨⟨s.base.hdr, s.base.noerr, s.base.started, s.base.dict⟩, s.eof, s.idx, s.chk, s.loc, s.pres, s.pos,
    s.chash, s.fhash, fun hne => absurd hz hne, ?_, s.needs, s.dictOk, ?_, s.nsk⟩
  · have := s.acct
    simp only [hz, ↓reduceIte] at this ⊢
    simp only [List.append_nil, ← List.append_assoc] at this ⊢
    exact this
  · intro hu
    rcases s.pa hu with h0 | ⟨_, h2, _⟩
    · exact Or.inl h0
    · exact absurd hz h2

/-- what the loop hypotheses say while the dictionary is being imported (`use_dict = 0`): nothing delivered before this
call, nothing skipped, and the call asks for exactly the declared length of the first index entry -/
def PA (ud : Bool) (n : Nat) (sk Tp : Bytes) : Prop :=
  ud = false → Tp = [] ∧ sk = [] ∧ ∃ d, h.chunks.head? = some d ∧ d.len = n

theorem head_get (cs : List Chunk) (d : Chunk) (hd : cs.head? = some d) : cs[0]? = some d := by
  cases cs with
  | nil => simp at hd
  | cons x xs => simpa using hd

/-- start of the stream: the reader moves to the first index entry, or the second when the first is an empty dictionary -/
theorem Start.first {ud n dv sk T c} (s : Start D f h ud dv sk T c) (hr : C13.RunFrom 0 0 h.chunks) (hn : 0 < n)
    (hpa : ud = false → ∃ d, h.chunks.head? = some d ∧ d.len = n)
    (i : Nat) (hi : firstIdx h = some i) :
    ∃ ch, Mid H D f h tr ud n dv sk T { c with dataIdx := some i, chunkHash := some [] } i ch := by
  unfold firstIdx at hi
  cases hd : h.chunks.head? with
  | none => rw [hd] at hi; cases hi
  | some d =>
    rw [hd] at hi
    simp only at hi
    have h0 := head_get _ _ hd
    have hs0 : d.start = 0 := by simpa [C13.sumLen] using run_start h.chunks 0 0 0 d hr h0
    by_cases hsk : d.compLen = 0 ∧ d.len = 0
    · rw [if_pos hsk] at hi
      by_cases hl : 1 < h.chunks.length
      · rw [if_pos hl] at hi
        cases hi
        have h1 : h.chunks[1]? = some h.chunks[1] := List.getElem?_eq_getElem hl
        have hs1 : (h.chunks[1]).start = 0 := by
          have := run_next h hr 0 d _ h0 h1; omega
        refine ⟨h.chunks[1], ⟨s.base.hdr, s.base.noerr, s.base.started, s.base.dict⟩, s.eof, rfl, h1, by simp [s.loc], ?_, ?_, ?_, ?_, ?_, ?_,
          ?_, ?_, ?_, fun hs => by have := hs.1; omega⟩
        · simp [s.loc, hs1, fileRead_zero]
        · simp [s.loc, hs1, s.pos]
        · simp [s.loc, fileRead_zero]
        · rcases s.fhash with h4 | hfh
          · exact Or.inl h4
          · right; cases tr <;> simp [s.loc, hs1, fileRead_zero, hfh]
        · intro _; simp [s.loc, fileRead_zero, s.data]
        · have hd1 : done D f h 1 = [] := by
            rw [done_succ D f h 0 d h0, done_zero]
            simp [contrib, Skipped, hsk]
          simp [s.sk0, s.t0, s.dc, s.data, s.loc, fileRead_zero, hd1]
        · intro j cj hj hcj
          have : j = 0 := by omega
          subst this
          rw [h0] at hcj; cases hcj
          exact Or.inl ⟨rfl, hsk.1, hsk.2⟩
        · intro hu hz
          exact ⟨(s.dictOk hu hz).1, fun h10 => by omega⟩
        · intro hu
          obtain ⟨d', hd', hlen⟩ := hpa hu
          rw [hd] at hd'; cases hd'
          omega
      · rw [if_neg hl] at hi; cases hi
    · rw [if_neg hsk] at hi
      cases hi
      refine ⟨d, ⟨s.base.hdr, s.base.noerr, s.base.started, s.base.dict⟩, s.eof, rfl, h0, by simp [s.loc], ?_, ?_, ?_, ?_, ?_, ?_,
        ?_, ?_, ?_, fun hs => hsk ⟨hs.2.1, hs.2.2⟩⟩
      · simp [s.loc, hs0, fileRead_zero]
      · simp [s.loc, hs0, s.pos]
      · simp [s.loc, fileRead_zero]
      · rcases s.fhash with h4 | hfh
        · exact Or.inl h4
        · right; cases tr <;> simp [s.loc, hs0, fileRead_zero, hfh]
      · intro _; simp [s.loc, fileRead_zero, s.data]
      · simp [s.sk0, s.t0, s.dc, s.data, s.loc, fileRead_zero, done_zero]
      · intro j cj hj; omega
      · intro hu hz
        exact ⟨(s.dictOk hu hz).1, fun _ => (s.dictOk hu hz).2⟩
      · intro _; exact Or.inl rfl


theorem ensureHash_some (c : Ctx) (x : Bytes) (hc : c.chunkHash = some x) : ensureHash c = c := by
  unfold ensureHash; simp [hc]

def StepGood (tr : Bool) (ud : Bool) (n : Nat) (dv : Option Bytes) (sk Tp : Bytes) : Step → Prop
  | .done r c' => r.ret < 0 ∨ (r.ret = r.bytes.length ∧ SI H D f h tr ud n dv sk (Tp ++ r.bytes) c' ∧
      (r.bytes.length < n → c'.dc = [] ∧ (c'.dataEof = true ∨ (c'.dataIdx = none ∧ firstIdx h = none))))
  | .cont c' out' _ => SI H D f h tr ud n dv sk (Tp ++ out') c'

theorem updFull_eq (c : Ctx) (src : Bytes) :
    updFull c src = { c with fullHash := if flag4 c then c.fullHash else hashUpd c.fullHash src } := by
  unfold updFull; split <;> rfl

/-- pulling stored bytes of the current chunk from the file -/
theorem Mid.read {ud n dv sk Tp out c k ch} (s : Mid H D f h tr ud n dv sk (Tp ++ out) c k ch) :
    StepGood (H := H) (D := D) (f := f) (h := h) tr ud n dv sk Tp (stepRead f n c ch out) := by
  unfold stepRead
  simp only
  generalize hrs : (if c.dataLoc + n > ch.compLen then ch.compLen - c.dataLoc else n) = rs
  have hrs_le : rs ≤ ch.compLen - c.dataLoc := by
    rw [← hrs]; split <;> omega
  rw [ensureHash_some { c with pos := c.pos + (fileRead f c.pos rs).length } _ s.chash]
  have hsl := fileRead_length_le f c.pos rs
  have hself := fileRead_self f c.pos rs
  generalize hsrc : fileRead f c.pos rs = src at hsl hself
  split
  · exact Or.inl (by show (-1 : Int) < 0; decide)
  · split
    · exact Or.inl (by show (-1 : Int) < 0; decide)
    · rename_i hne hfull
      rw [updFull_eq]
      have hq : c.pos = dOff h + ch.start + c.dataLoc := s.pos
      have hsrc2 : fileRead f (dOff h + ch.start + c.dataLoc) src.length = src := by rw [← hq]; exact hself
      have hr2 : fileRead f (dOff h + ch.start) (c.dataLoc + src.length) =
          fileRead f (dOff h + ch.start) c.dataLoc ++ src := by rw [fileRead_add, hsrc2]
      have hF2 : fileRead f (dOff h) (ch.start + (c.dataLoc + src.length)) =
          fileRead f (dOff h) (ch.start + c.dataLoc) ++ src := by
        rw [← Nat.add_assoc, fileRead_add, ← Nat.add_assoc, hsrc2]
      have hflag : flag4 { c with pos := c.pos + src.length } = f4 h := flag4_eq (by exact s.base.hdr)
      refine .mid k ch ⟨⟨s.base.hdr, s.base.noerr, s.base.started, s.base.dict⟩, s.eof, s.idx, s.chk, ?_, ?_, ?_, ?_, ?_, ?_, ?_,
        s.needs, s.dictOk, ?_, s.nsk⟩
      · show c.dataLoc + src.length ≤ ch.compLen
        omega
      · show (fileRead f (dOff h) (ch.start + (c.dataLoc + src.length))).length = ch.start + (c.dataLoc + src.length)
        rw [hF2, List.length_append, s.pres]; omega
      · show c.pos + src.length = dOff h + ch.start + (c.dataLoc + src.length)
        omega
      · show hashUpd c.chunkHash src = some (fileRead f (dOff h + ch.start) (c.dataLoc + src.length))
        rw [hr2, s.chash]; rfl
      · show f4 h = true ∨ (if tr then (if flag4 { c with pos := c.pos + src.length } then c.fullHash else hashUpd c.fullHash src) =
          some (fileRead f (dOff h) (ch.start + (c.dataLoc + src.length)))
          else (if flag4 { c with pos := c.pos + src.length } then c.fullHash else hashUpd c.fullHash src).isSome = true)
        rw [hF2, hflag]
        cases hf : f4 h with
        | true => exact Or.inl rfl
        | false =>
          right
          rcases s.fhash with hc | hc
          · rw [hf] at hc; cases hc
          · simp only [Bool.false_eq_true, ↓reduceIte]
            cases tr with
            | true =>
              simp only [↓reduceIte] at hc ⊢
              rw [hc]; rfl
            | false =>
              simp only [Bool.false_eq_true, ↓reduceIte] at hc ⊢
              cases hx : c.fullHash with
              | none => rw [hx] at hc; cases hc
              | some x => rfl
      · intro hz
        show c.data ++ src = fileRead f (dOff h + ch.start) (c.dataLoc + src.length)
        rw [hr2, s.dataZ hz]
      · show sk ++ (Tp ++ out) ++ c.dc ++ (if h.compType = 0 then c.data ++ src else []) =
          done D f h k ++ (if h.compType = 0 then fileRead f (dOff h + ch.start) (c.dataLoc + src.length) else [])
        rw [hr2]
        have := s.acct
        by_cases hz : h.compType = 0
        · simp only [hz, ↓reduceIte] at this ⊢
          rw [← List.append_assoc, this, List.append_assoc]
        · simp only [hz, ↓reduceIte] at this ⊢
          exact this
      · exact s.pa


/-- the context a successful chunk end leaves behind -/
def afterEnd (c : Ctx) (k : Nat) (extra : Bytes) : Ctx :=
  { c with data := [], dc := c.dc ++ extra, dataLoc := 0,
           dataIdx := if k + 1 < c.hdr.chunks.length then some (k + 1) else none,
           chunkHash := some [], valid := setValid c.valid k 1 }

/-- what a successful chunk end has checked, and the context it leaves -/
theorem endDchunk_inv {c : Ctx} {k : Nat} {ch : Chunk} {ud : Bool} {c2 : Ctx}
    (he : endDchunk H D c k ch ud = .ok c2) :
    (∃ bs d, c.chunkHash = some bs ∧ H c.hdr.chunkHashType bs = some d ∧
      (if ch.compLen = 0 then zeros d.length else d) = ch.digest) ∧
    ((c.hdr.compType = 0 ∧ ch.compLen = ch.len ∧ c2 = { afterEnd c k [] with data := c.data }) ∨
     (c.hdr.compType ≠ 0 ∧ ∃ plain, D c.data (if ud then c.dict else none) = some plain ∧ plain.length = ch.len ∧
        c2 = afterEnd c k plain)) := by
  unfold endDchunk at he
  by_cases hoom : c.hdr.compType ≠ 0 ∧ ch.len ≥ allocLimit
  · rw [if_pos hoom] at he; cases he
  rw [if_neg hoom] at he
  by_cases h0 : c.hdr.compType = 0
  · simp only [h0, ↓reduceIte] at he
    by_cases hne : ch.compLen ≠ ch.len
    · simp [hne] at he
    · simp only [hne, ↓reduceIte] at he
      split at he
      · cases he
      · split at he
        · cases he
        · rename_i hv1 hv2
          refine ⟨validateChunk_pos H c ch hv1 hv2, Or.inl ⟨h0, by omega, ?_⟩⟩
          simp only [EndRes.ok.injEq] at he
          rw [← he]; simp [afterEnd]
  · simp only [h0, ↓reduceIte] at he
    cases hD : D c.data (if ud = true then c.dict else none) with
    | none => simp [hD] at he
    | some plain =>
      simp only [hD] at he
      by_cases hl : plain.length ≠ ch.len
      · simp [hl] at he
      · simp only [hl, ↓reduceIte] at he
        split at he
        · cases he
        · split at he
          · cases he
          · rename_i hv1 hv2
            have := validateChunk_pos H { c with data := [], dc := c.dc ++ plain } ch hv1 hv2
            refine ⟨this, Or.inr ⟨h0, plain, rfl, by omega, ?_⟩⟩
            simp only [EndRes.ok.injEq] at he
            rw [← he]; rfl


theorem stored_nil_of_zero (ch : Chunk) (hz : ch.compLen = 0) : stored f h ch = [] := by
  have := fileRead_length_le f (dOff h + ch.start) ch.compLen
  unfold stored
  rw [hz] at this ⊢
  exact List.eq_nil_of_length_eq_zero (by omega)

/-- a chunk end that succeeds: the chunk is all there, verified and of the declared length; its content joins the buffer and
the reader moves to the next index entry (or to the end of the stream) -/
theorem Mid.endChunk {ud n dv sk T c k ch c2} (s : Mid H D f h tr ud n dv sk T c k ch) (hr : C13.RunFrom 0 0 h.chunks)
    (hloc : c.dataLoc = ch.compLen) (hdata0 : h.compType = 0 → c.data = [])
    (hpa : ud = false → T.length + c.dc.length < n ∧ sk = [] ∧ ∃ d, h.chunks.head? = some d ∧ d.len = n)
    (he : endDchunk H D c k ch ud = .ok c2) :
    SI H D f h tr ud n dv sk T (if c2.dataIdx.isNone then { c2 with dataEof := true } else c2) := by
  obtain ⟨⟨bs, d, hbs, hHd, hdig⟩, hcase⟩ := endDchunk_inv he
  have hhdr : c.hdr = h := s.base.hdr
  rw [hhdr] at hHd hcase
  -- the chunk's stored bytes are all there and are what was hashed
  have hsplit := fileRead_full_split f (dOff h) ch.start c.dataLoc s.pres
  have hstl : (stored f h ch).length = ch.compLen := by unfold stored; rw [← hloc]; exact hsplit.2
  have hbs2 : bs = stored f h ch := by
    have := s.chash; rw [hbs, hloc] at this; simpa [stored] using this
  have hsum : SumOk H f h ch := ⟨d, hbs2 ▸ hHd, hdig⟩
  -- the dictionary the decoder was given is the one the format prescribes for this chunk
  have hdict : h.compType ≠ 0 → (if ud = true then c.dict else none) = dictFor D f h k := by
    intro hz
    cases hu : ud with
    | true =>
      simp only [↓reduceIte]
      obtain ⟨h1, h2⟩ := s.dictOk hu hz
      rw [s.base.dict, h1]
      unfold dictFor
      split
      · rename_i hk0; exact h2 hk0
      · rfl
    | false =>
      simp only [Bool.false_eq_true, ↓reduceIte]
      rcases s.pa hu with h0 | ⟨_, _, h3⟩
      · simp [dictFor, h0]
      · have := (hpa hu).1; omega
  -- content of the chunk and the facts about it
  have hgood : ChunkGood H D f h (dictFor D f h k) ch ∧
      ∃ extra, (c2 = { afterEnd c k extra with data := if h.compType = 0 then c.data else [] }) ∧
        contrib D f h k ch = extra ++ (if h.compType = 0 then stored f h ch else []) ∧
        (h.compType ≠ 0 → extra.length = ch.len) ∧ (h.compType = 0 → extra = [] ∧ ch.compLen = ch.len) := by
    rcases hcase with ⟨hz, hlen, hc2⟩ | ⟨hz, plain, hD, hpl, hc2⟩
    · refine ⟨⟨hstl, hsum, by simp [hz, hlen]⟩, [], by simp [hc2, hz], ?_, fun hne => absurd hz hne, fun _ => ⟨rfl, hlen⟩⟩
      simp only [hz, ↓reduceIte, List.nil_append]
      unfold contrib
      split
      · rename_i hsk; exact (stored_nil_of_zero ch hsk.2.1).symm
      · simp [plainOf, hz]
    · rw [hdict hz, s.dataZ hz, hloc] at hD
      change D (stored f h ch) (dictFor D f h k) = some plain at hD
      refine ⟨⟨hstl, hsum, by simp only [hz, ↓reduceIte]; exact ⟨plain, hD, hpl⟩⟩, plain, by rw [hc2]; simp [hz, afterEnd], ?_,
        fun _ => hpl, fun h0 => absurd h0 hz⟩
      simp only [hz, ↓reduceIte, List.append_nil]
      unfold contrib
      split
      · rename_i hsk
        exact (List.eq_nil_of_length_eq_zero (by rw [hpl]; exact hsk.2.2)).symm
      · simp [plainOf, hz, hD]
  obtain ⟨hcg, extra, hc2, hcontrib, hexz, hex0⟩ := hgood
  have hneeds : AllNeed H D f h (k + 1) := allNeed_succ H D f h k ch s.chk s.needs (Or.inr hcg)
  have hdone : sk ++ T ++ (c.dc ++ extra) = done D f h (k + 1) := by
    rw [done_succ D f h k ch s.chk, hcontrib]
    have := s.acct
    by_cases hz : h.compType = 0
    · simp only [hz, ↓reduceIte] at this ⊢
      rw [hdata0 hz, hloc] at this
      rw [(hex0 hz).1]
      simpa [stored] using this
    · simp only [hz, ↓reduceIte, List.append_nil] at this ⊢
      rw [← List.append_assoc, this]
  have hklt : k < h.chunks.length := by
    rcases Nat.lt_or_ge k h.chunks.length with hl | hl
    · exact hl
    · have := s.chk; rw [List.getElem?_eq_none hl] at this; cases this
  subst hc2
  by_cases hnext : k + 1 < h.chunks.length
  · -- on to the next index entry
    have hidx : (afterEnd c k extra).dataIdx = some (k + 1) := by simp [afterEnd, hhdr, hnext]
    simp only [hidx, Option.isNone_some, Bool.false_eq_true, ↓reduceIte]
    have hnx : h.chunks[k + 1]? = some h.chunks[k + 1] := List.getElem?_eq_getElem hnext
    have hst : (h.chunks[k + 1]).start = ch.start + ch.compLen := run_next h hr k ch _ s.chk hnx
    refine .mid (k + 1) h.chunks[k + 1] ⟨⟨hhdr, s.base.noerr, s.base.started, s.base.dict⟩, s.eof, rfl, hnx, Nat.zero_le _,
      ?_, ?_, ?_, ?_, ?_, ?_, hneeds, ?_, ?_, fun hs => by have := hs.1; omega⟩
    · show (fileRead f (dOff h) ((h.chunks[k + 1]).start + 0)).length = (h.chunks[k + 1]).start + 0
      rw [hst, Nat.add_zero, ← hloc]; exact s.pres
    · show c.pos = dOff h + (h.chunks[k + 1]).start + 0
      rw [hst, s.pos, hloc]; omega
    · show some [] = some (fileRead f (dOff h + (h.chunks[k + 1]).start) 0)
      rw [fileRead_zero]
    · show f4 h = true ∨ (if tr then c.fullHash = some (fileRead f (dOff h) ((h.chunks[k + 1]).start + 0)) else c.fullHash.isSome = true)
      rw [hst, Nat.add_zero, ← hloc]; exact s.fhash
    · intro hz
      show (if h.compType = 0 then c.data else []) = fileRead f (dOff h + (h.chunks[k + 1]).start) 0
      simp [hz, fileRead_zero]
    · show sk ++ T ++ (c.dc ++ extra) ++ (if h.compType = 0 then (if h.compType = 0 then c.data else []) else []) =
        done D f h (k + 1) ++ (if h.compType = 0 then fileRead f (dOff h + (h.chunks[k + 1]).start) 0 else [])
      rw [fileRead_zero, hdone]
      by_cases hz : h.compType = 0
      · simp [hz, hdata0 hz]
      · simp [hz]
    · intro hu hz
      exact ⟨(s.dictOk hu hz).1, fun hk => by omega⟩
    · intro hu
      obtain ⟨hlt, hsk0, d0, hd0, hd0n⟩ := hpa hu
      rcases s.pa hu with hk0 | ⟨_, _, h3⟩
      · subst hk0
        have hch : ch = d0 := by
          have := head_get _ _ hd0; rw [s.chk] at this; cases this; rfl
        subst hch
        have hzne : h.compType ≠ 0 := by
          intro hz
          -- stored chunk: everything read was handed out, so the call would already have returned
          have hacc := s.acct
          simp only [hz, ↓reduceIte, hdata0 hz, hsk0, done_zero, List.nil_append, List.append_nil] at hacc
          have hl := congrArg List.length hacc
          rw [List.length_append, hloc] at hl
          have hsl : (fileRead f (dOff h + ch.start) ch.compLen).length = ch.compLen := hstl
          rw [hsl] at hl
          have := (hex0 hz).2
          omega
        refine Or.inr ⟨rfl, hzne, ?_⟩
        show n ≤ T.length + (c.dc ++ extra).length
        rw [List.length_append, hexz hzne]; omega
      · omega
  · -- that was the last index entry
    have hidx : (afterEnd c k extra).dataIdx = none := by simp [afterEnd, hhdr, hnext]
    simp only [hidx, Option.isNone_none, ↓reduceIte]
    have hlen : h.chunks.length = k + 1 := by omega
    have htot : ch.start + ch.compLen = total h := run_last h hr k ch s.chk (by omega)
    refine .fin ⟨⟨hhdr, s.base.noerr, s.base.started, s.base.dict⟩, rfl, ?_, ?_, ?_, by rw [hlen]; exact hneeds, ?_⟩
    · rw [← htot, ← hloc]; exact s.pres
    · show f4 h = true ∨ (if tr then c.fullHash = some (fileRead f (dOff h) (total h)) else c.fullHash.isSome = true)
      rw [← htot, ← hloc]; exact s.fhash
    · show sk ++ T ++ (c.dc ++ extra) = done D f h h.chunks.length
      rw [hlen]; exact hdone
    · intro hu
      rcases s.pa hu with hk0 | ⟨_, _, h3⟩
      · omega
      · have := (hpa hu).1; omega


theorem chunkAt_eq {c : Ctx} (hc : c.hdr = h) (k : Nat) : chunkAt c k = h.chunks[k]? := by simp [chunkAt, hc]

/-- the part of an iteration after the buffer was found empty -/
def stepTail (H : HashFn) (D : Decomp) (f : Bytes) (n : Nat) (useDict : Bool) (c : Ctx) (out' : Bytes) (finishedRd : Bool) : Step :=
  if c.dataEof then .done ⟨out'.length, out'⟩ c else
  if c.hdr.compType = 0 ∧ c.data ≠ [] then .cont { c with dc := c.dc ++ c.data, data := [] } out' finishedRd else
  match c.dataIdx with
  | none =>
    (match firstIdx c.hdr with
     | none => .done ⟨0, out'⟩ { c with dataIdx := none, chunkHash := some [] }
     | some i => .cont { c with dataIdx := some i, chunkHash := some [] } out' finishedRd)
  | some ki =>
    match chunkAt c ki with
    | none => .done ⟨-1, out'⟩ { c with err := true }
    | some ch =>
      if c.dataLoc = ch.compLen then stepEnd H D c ki ch useDict out' finishedRd
      else if finishedRd then .done ⟨-1, out'⟩ { c with err := true, fatal := true }
      else stepRead f n c ch out'

theorem step_tail (H : HashFn) (D : Decomp) (f : Bytes) (n : Nat) (ud : Bool) (c : Ctx) (out : Bytes) (fin : Bool) :
    step H D f n ud c out fin =
      if out.length ≥ n then .done ⟨out.length, out⟩ c else
      if c.err then .done ⟨-1, out⟩ c else
      if (out ++ c.dc.take (min (n - out.length) c.dc.length)).length = n then
        .done ⟨n, out ++ c.dc.take (min (n - out.length) c.dc.length)⟩ { c with dc := c.dc.drop (min (n - out.length) c.dc.length) }
      else if min (n - out.length) c.dc.length > 0 then
        .cont { c with dc := c.dc.drop (min (n - out.length) c.dc.length) } (out ++ c.dc.take (min (n - out.length) c.dc.length)) fin
      else stepTail H D f n ud { c with dc := c.dc.drop (min (n - out.length) c.dc.length) }
        (out ++ c.dc.take (min (n - out.length) c.dc.length)) fin := rfl

theorem tail_SI {ud n dv sk Tp out' c} (fin : Bool) (hr : C13.RunFrom 0 0 h.chunks) (hn : 0 < n)
    (hpa : PA (h := h) ud n sk Tp) (hdc : c.dc = []) (hlt : out'.length < n)
    (s1 : SI H D f h tr ud n dv sk (Tp ++ out') c) :
    StepGood (H := H) (D := D) (f := f) (h := h) tr ud n dv sk Tp (stepTail H D f n ud c out' fin) := by
  unfold stepTail
  by_cases h4 : c.dataEof = true
  · rw [if_pos h4]
    exact Or.inr ⟨rfl, s1, fun _ => ⟨hdc, Or.inl h4⟩⟩
  rw [if_neg h4]
  by_cases h5 : c.hdr.compType = 0 ∧ c.data ≠ []
  · rw [if_pos h5]
    cases s1 with
    | start s => exact absurd s.data h5.2
    | mid k ch s => exact .mid k ch (s.moveData (by rw [← s.base.hdr]; exact h5.1))
    | fin s => exact absurd s.eof h4
  rw [if_neg h5]
  cases s1 with
  | start s =>
    rw [s.idx]
    have hout : out' = [] := (List.append_eq_nil_iff.mp s.t0).2
    have hh : c.hdr = h := s.base.hdr
    cases hfi : firstIdx h with
    | none =>
      have hfi' : firstIdx c.hdr = none := by rw [hh]; exact hfi
      simp only [hfi']
      refine Or.inr ⟨by rw [hout]; rfl, ?_, fun _ => ⟨hdc, Or.inr ⟨rfl, hfi⟩⟩⟩
      exact .start ⟨⟨s.base.hdr, s.base.noerr, s.base.started, s.base.dict⟩, s.eof, rfl, s.data, s.dc, s.loc, s.pos,
        s.fhash, s.sk0, s.t0, s.dictOk⟩
    | some i =>
      have hfi' : firstIdx c.hdr = some i := by rw [hh]; exact hfi
      simp only [hfi']
      obtain ⟨ch, hmid⟩ := s.first hr hn (fun hu => (hpa hu).2.2) i hfi
      exact .mid i ch hmid
  | fin s => exact absurd s.eof h4
  | mid k ch s =>
    rw [s.idx]
    simp only
    have hchk : chunkAt c k = some ch := by rw [chunkAt_eq (h := h) s.base.hdr]; exact s.chk
    rw [hchk]
    simp only
    by_cases h6 : c.dataLoc = ch.compLen
    · rw [if_pos h6]
      unfold stepEnd
      cases he : endDchunk H D c k ch ud with
      | oom => exact Or.inl (by show (-1 : Int) < 0; decide)
      | fail => exact Or.inl (by show (-1 : Int) < 0; decide)
      | badSum => exact Or.inl (by show (-1 : Int) < 0; decide)
      | ok c2 =>
        simp only
        refine s.endChunk hr h6 ?_ ?_ he
        · intro hz
          have hh : c.hdr = h := s.base.hdr
          by_cases hd : c.data = []
          · exact hd
          · exact absurd ⟨by rw [hh]; exact hz, hd⟩ h5
        · intro hu
          obtain ⟨htp, hsk, hd⟩ := hpa hu
          refine ⟨?_, hsk, hd⟩
          rw [htp, hdc]; simpa using hlt
    · rw [if_neg h6]
      by_cases h7 : fin = true
      · rw [if_pos h7]; exact Or.inl (by show (-1 : Int) < 0; decide)
      · rw [if_neg h7]
        exact s.read

/-- **one iteration of the loop of `comp_read`** keeps the invariant, unless the call fails -/
theorem step_SI {ud n dv sk Tp out c} (fin : Bool) (hr : C13.RunFrom 0 0 h.chunks) (hn : 0 < n)
    (hpa : PA (h := h) ud n sk Tp) (s : SI H D f h tr ud n dv sk (Tp ++ out) c) :
    StepGood (H := H) (D := D) (f := f) (h := h) tr ud n dv sk Tp (step H D f n ud c out fin) := by
  rw [step_tail]
  by_cases h1 : out.length ≥ n
  · rw [if_pos h1]
    exact Or.inr ⟨rfl, s, fun (hlt : out.length < n) => by omega⟩
  rw [if_neg h1]
  have herr : c.err = false := s.base.noerr
  rw [if_neg (by simp [herr])]
  generalize hm : min (n - out.length) c.dc.length = m
  have s1 : SI H D f h tr ud n dv sk (Tp ++ (out ++ c.dc.take m)) { c with dc := c.dc.drop m } := by
    rw [← List.append_assoc]; exact s.handout m
  by_cases h2 : (out ++ c.dc.take m).length = n
  · rw [if_pos h2]
    refine Or.inr ⟨by rw [h2], s1, fun (hlt : (out ++ c.dc.take m).length < n) => by omega⟩
  rw [if_neg h2]
  by_cases h3 : m > 0
  · rw [if_pos h3]; exact s1
  rw [if_neg h3]
  -- nothing was buffered
  have hm0 : m = 0 := by omega
  have hdc0 : c.dc = [] := by
    have : c.dc.length = 0 := by
      rw [hm0] at hm
      rcases Nat.le_total (n - out.length) c.dc.length with hle | hle
      · rw [Nat.min_eq_left hle] at hm; omega
      · rw [Nat.min_eq_right hle] at hm; exact hm
    exact List.eq_nil_of_length_eq_zero this
  have hdrop : c.dc.drop m = [] := by rw [hdc0]; simp
  have hlt : (out ++ c.dc.take m).length < n := by
    simp only [List.length_append, List.length_take] at h2 ⊢; omega
  exact tail_SI fin hr hn hpa hdrop hlt s1


/-- the reader is at the end of the stream -/
def AtEnd (c : Ctx) : Prop := c.dataEof = true ∨ (c.dataIdx = none ∧ firstIdx h = none)

/-- outcome of a whole call: failure, or the invariant with the delivered bytes accounted for; a call that comes up short has
emptied the buffer and is at the end of the stream -/
def CallGood (tr : Bool) (ud : Bool) (n : Nat) (dv : Option Bytes) (sk Tp : Bytes) (r : RdOut × Ctx) : Prop :=
  r.1.ret < 0 ∨ (r.1.ret = r.1.bytes.length ∧ SI H D f h tr ud n dv sk (Tp ++ r.1.bytes) r.2 ∧
    (r.1.bytes.length < n → r.2.dc = [] ∧ AtEnd (h := h) r.2))

/-- **the loop of `comp_read`** -/
theorem readLoop_SI {ud n dv sk Tp} (hr : C13.RunFrom 0 0 h.chunks) (hn : 0 < n) (hpa : PA (h := h) ud n sk Tp) :
    ∀ (fuel : Nat) (c : Ctx) (out : Bytes) (fin : Bool), SI H D f h tr ud n dv sk (Tp ++ out) c →
      CallGood (H := H) (D := D) (f := f) (h := h) tr ud n dv sk Tp (readLoop H D f n ud fuel c out fin)
  | 0, c, out, fin, _ => by
    unfold readLoop
    exact Or.inl (by show (-3 : Int) < 0; decide)
  | fuel + 1, c, out, fin, s => by
    unfold readLoop
    have hs := step_SI fin hr hn hpa s
    revert hs
    generalize step H D f n ud c out fin = st
    intro hs
    cases st with
    | done r c' => exact hs
    | cont c' out' fin' => exact readLoop_SI hr hn hpa fuel c' out' fin' hs

/-- for `use_dict = 1` the request size plays no part in the invariant -/
theorem SI.retag {n n' dv sk T c} (s : SI H D f h tr true n dv sk T c) : SI H D f h tr true n' dv sk T c := by
  cases s with
  | start s => exact .start s
  | mid k ch s =>
    exact .mid k ch ⟨s.base, s.eof, s.idx, s.chk, s.loc, s.pres, s.pos, s.chash, s.fhash, s.dataZ, s.acct, s.needs, s.dictOk,
      (fun hu => by cases hu), s.nsk⟩
  | fin s => exact .fin s

/-- what is known about the bytes taken out of the stream for the dictionary -/
def Side (sk : Bytes) : Prop :=
  ∀ d, h.chunks.head? = some d →
    (d.len = 0 → sk = []) ∧ (0 < d.len → d.len ≤ sk.length ∧ (Need H D f h 0 d → sk.length ≤ (contrib D f h 0 d).length))

/-- the dictionary, if the file has one, is installed -/
def DvOk (dv : Option Bytes) : Prop := ∀ d, h.chunks.head? = some d → 0 < d.len → dv.isSome = true

/-- state between two `zck_read` calls once the dictionary (if any) has been imported -/
def Post (T : Bytes) (c : Ctx) : Prop :=
  ∃ dv sk, SI H D f h true true 0 dv sk T c ∧ DvOk (h := h) dv ∧ Side (H := H) (D := D) (f := f) (h := h) sk

/-- state before the first read of a file with a dictionary -/
def Pre (T : Bytes) (c : Ctx) : Prop :=
  T = [] ∧ Start D f h false none [] [] c ∧ ∃ d, h.chunks.head? = some d ∧ 0 < d.len

theorem contrib_len_of_need (j : Nat) (ch : Chunk) (hn : Need H D f h j ch) : (contrib D f h j ch).length = ch.len := by
  unfold contrib
  rcases hn with hs | ⟨hl, _, hc⟩
  · rw [if_pos hs]; simp [hs.2.2]
  · split
    · rename_i hs; simp [hs.2.2]
    · unfold plainOf
      by_cases hz : h.compType = 0
      · simp only [hz, ↓reduceIte] at hc ⊢; omega
      · simp only [hz, ↓reduceIte] at hc ⊢
        obtain ⟨p, hD, hp⟩ := hc
        rw [hD]; exact hp

/-- **`import_dict`**: reading the dictionary leaves the reader in a state of the main stream, with the dictionary the format
prescribes installed -/
theorem import_SI (hr : C13.RunFrom 0 0 h.chunks) (d : Chunk) (hd : h.chunks.head? = some d) (hlen : 0 < d.len) (c : Ctx)
    (s : Start D f h false none [] [] c) :
    (importDict H D f c).1 = false ∨
    ((importDict H D f c).1 = true ∧ Post (H := H) (D := D) (f := f) (h := h) [] (importDict H D f c).2) := by
  unfold importDict
  have hh : c.hdr = h := s.base.hdr
  rw [hh, hd]
  simp only
  rw [if_neg (by omega)]
  have e1 : compReadRaw H D f c d.len false = readLoop H D f d.len false (fuelFor f c d.len) c [] false := by
    unfold compReadRaw
    simp [s.base.noerr, s.base.started, Nat.ne_of_gt hlen]
  rw [e1]
  have hpa : PA (h := h) false d.len [] [] := fun _ => ⟨rfl, rfl, d, hd, rfl⟩
  have hl := readLoop_SI (H := H) (D := D) (f := f) (tr := true) (dv := none) hr hlen hpa (fuelFor f c d.len) c [] false
    (by simpa using SI.start s)
  revert hl
  generalize readLoop H D f d.len false (fuelFor f c d.len) c [] false = r
  intro hl
  obtain ⟨ro, c1⟩ := r
  simp only
  by_cases hret : ro.ret ≠ d.len
  · rw [if_pos hret]; exact Or.inl rfl
  rw [if_neg hret]
  right
  refine ⟨rfl, ?_⟩
  have hret' : ro.ret = d.len := by
    by_cases hx : ro.ret = d.len
    · exact hx
    · exact absurd hx hret
  rcases hl with hneg | ⟨hrl, hsi, _⟩
  · simp only at hneg; omega
  simp only [List.nil_append] at hrl hsi
  have hbl : ro.bytes.length = d.len := by
    have : (ro.bytes.length : Int) = d.len := by rw [← hrl, hret']
    exact_mod_cast this
  have h0 := head_get _ _ hd
  have hnsk : ¬ Skipped 0 d := fun hs => by have := hs.2.2; omega
  refine ⟨some ro.bytes, ro.bytes ++ c1.dc, ?_, fun _ _ _ => rfl, ?_⟩
  · -- the invariant of the main stream
    cases hsi with
    | start s1 =>
      have := s1.t0
      rw [this] at hbl; simp at hbl; omega
    | mid k ch s1 =>
      refine .mid k ch ⟨⟨s1.base.hdr, s1.base.noerr, rfl, rfl⟩, s1.eof, s1.idx, s1.chk, s1.loc, s1.pres, s1.pos, s1.chash,
        s1.fhash, s1.dataZ, ?_, s1.needs, ?_, (fun hu => by cases hu), s1.nsk⟩
      · have := s1.acct
        simpa using this
      · intro _ hz
        rcases s1.pa rfl with hk0 | ⟨hk1, _, _⟩
        · subst hk0
          have := s1.acct
          simp only [hz, ↓reduceIte, done_zero, List.append_nil, List.nil_append] at this
          have hb : ro.bytes = [] := (List.append_eq_nil_iff.mp this).1
          rw [hb] at hbl; simp at hbl; omega
        · subst hk1
          have hnd : Need H D f h 0 d := s1.needs 0 d (by omega) h0
          have hcl := contrib_len_of_need 0 d hnd
          have hacc := s1.acct
          simp only [hz, ↓reduceIte, List.append_nil, List.nil_append] at hacc
          rw [done_succ D f h 0 d h0, done_zero, List.nil_append] at hacc
          have hdc : c1.dc = [] := by
            have hl2 := congrArg List.length hacc
            rw [List.length_append, hcl, hbl] at hl2
            exact List.eq_nil_of_length_eq_zero (by omega)
          rw [hdc, List.append_nil] at hacc
          refine ⟨?_, fun h10 => by omega⟩
          unfold dictMain
          rw [hd]
          simp only
          rw [if_neg (by omega), hacc]
          unfold contrib
          rw [if_neg hnsk]
          simp [dictFor]
    | fin s1 =>
      refine .fin ⟨⟨s1.base.hdr, s1.base.noerr, rfl, rfl⟩, s1.eof, s1.pres, s1.fhash, ?_, s1.needs, fun hu => by cases hu⟩
      have := s1.acct
      simpa using this
  · -- what was taken out of the stream
    intro d' hd'
    rw [hd] at hd'; cases hd'
    refine ⟨fun h0' => by omega, fun _ => ⟨by rw [List.length_append, hbl]; omega, fun hnd => ?_⟩⟩
    have hcl := contrib_len_of_need 0 d hnd
    cases hsi with
    | start s1 =>
      have := s1.t0
      rw [this] at hbl; simp at hbl; omega
    | mid k ch s1 =>
      rcases s1.pa rfl with hk0 | ⟨hk1, hz, _⟩
      · subst hk0
        have hch : ch = d := by have := s1.chk; rw [h0] at this; cases this; rfl
        subst hch
        have hacc := s1.acct
        by_cases hz : h.compType = 0
        · simp only [hz, ↓reduceIte, done_zero, List.nil_append] at hacc
          have hl2 := congrArg List.length hacc
          simp only [List.length_append] at hl2
          have hrl2 := fileRead_length_le f (dOff h + ch.start) c1.dataLoc
          have hloc := s1.loc
          -- the declared and the stored length agree for a verified stored chunk
          rcases hnd with hs | ⟨_, _, hc⟩
          · exact absurd hs hnsk
          · simp only [hz, ↓reduceIte] at hc
            rw [List.length_append, hcl]; omega
        · simp only [hz, ↓reduceIte, done_zero, List.append_nil, List.nil_append] at hacc
          have hb : ro.bytes = [] := (List.append_eq_nil_iff.mp hacc).1
          rw [hb] at hbl; simp at hbl; omega
      · subst hk1
        have hacc := s1.acct
        simp only [hz, ↓reduceIte, List.append_nil, List.nil_append] at hacc
        rw [done_succ D f h 0 d h0, done_zero, List.nil_append] at hacc
        rw [hacc]; exact Nat.le_refl _
    | fin s1 =>
      have hacc := s1.acct
      have hl1 := s1.pa rfl
      rw [hl1, done_succ D f h 0 d h0, done_zero] at hacc
      simp only [List.nil_append] at hacc
      rw [hacc]; exact Nat.le_refl _


/-- state between two `zck_read` calls -/
def P (T : Bytes) (c : Ctx) : Prop :=
  Pre (D := D) (f := f) (h := h) T c ∨ Post (H := H) (D := D) (f := f) (h := h) T c

/-- outcome of one `zck_read` -/
def ReadGood (T : Bytes) (n : Nat) (r : RdOut × Ctx) : Prop :=
  r.1.ret < 0 ∨ (r.1.ret = r.1.bytes.length ∧ P (H := H) (D := D) (f := f) (h := h) (T ++ r.1.bytes) r.2 ∧
    (r.1.bytes.length < n →
      Post (H := H) (D := D) (f := f) (h := h) (T ++ r.1.bytes) r.2 ∧ r.2.dc = [] ∧ AtEnd (h := h) r.2))

theorem callGood_post {n dv sk T r} (hdv : DvOk (h := h) dv) (hside : Side (H := H) (D := D) (f := f) (h := h) sk)
    (hc : CallGood (H := H) (D := D) (f := f) (h := h) true true n dv sk T r) :
    ReadGood (H := H) (D := D) (f := f) (h := h) T n r := by
  rcases hc with hneg | ⟨h1, h2, h3⟩
  · exact Or.inl hneg
  · have hp : Post (H := H) (D := D) (f := f) (h := h) (T ++ r.1.bytes) r.2 := ⟨dv, sk, h2.retag, hdv, hside⟩
    exact Or.inr ⟨h1, Or.inr hp, fun hlt => ⟨hp, h3 hlt⟩⟩

/-- **one `zck_read` call** (`comp_read` with the dictionary import) -/
theorem compRead_P (hr : C13.RunFrom 0 0 h.chunks) (T : Bytes) (c : Ctx) (n : Nat)
    (hp : P (H := H) (D := D) (f := f) (h := h) T c) :
    ReadGood (H := H) (D := D) (f := f) (h := h) T n (compRead H D f c n) := by
  unfold compRead
  have hbase : c.err = false ∧ c.started = true ∧ c.hdr = h := by
    rcases hp with ⟨_, s, _⟩ | ⟨dv, sk, s, _, _⟩
    · exact ⟨s.base.noerr, s.base.started, s.base.hdr⟩
    · exact ⟨s.base.noerr, s.base.started, s.base.hdr⟩
  obtain ⟨he, hst, hh⟩ := hbase
  rw [if_neg (by simp [he]), if_neg (by simp [hst])]
  by_cases hn0 : n = 0
  · rw [if_pos hn0]
    refine Or.inr ⟨rfl, by simpa using hp, fun hlt => ?_⟩
    simp only [List.length_nil] at hlt; omega
  rw [if_neg hn0]
  have hn : 0 < n := by omega
  rw [hh]
  cases hd : h.chunks.head? with
  | none => exact Or.inl (by show (-1 : Int) < 0; decide)
  | some d =>
    simp only
    rcases hp with ⟨hT, s, d', hd', hlen⟩ | ⟨dv, sk, s, hdv, hside⟩
    · rw [hd] at hd'; cases hd'
      have hdn : c.dict.isNone = true := by rw [s.base.dict]; rfl
      rw [if_pos ⟨hlen, hdn⟩]
      by_cases hal : d.len ≥ allocLimit
      · rw [if_pos hal]; exact Or.inl (by show (-1 : Int) < 0; decide)
      rw [if_neg hal]
      have himp := import_SI (H := H) hr d hd hlen c s
      revert himp
      generalize importDict H D f c = r
      intro himp
      obtain ⟨b, c1⟩ := r
      cases b with
      | false => exact Or.inl (by show (-1 : Int) < 0; decide)
      | true =>
        simp only
        rcases himp with hf | ⟨_, dv, sk, s1, hdv, hside⟩
        · cases hf
        · subst hT
          exact callGood_post hdv hside
            (readLoop_SI hr hn (fun hu => by cases hu) (fuelFor f c1 n) c1 [] false (by simpa using s1.retag))
    · have hno : ¬ (d.len > 0 ∧ c.dict.isNone = true) := by
        intro ⟨hl, hnone⟩
        have := hdv d hd hl
        rw [s.base.dict] at hnone
        cases dv with
        | none => cases this
        | some x => cases hnone
      rw [if_neg hno]
      exact callGood_post hdv hside
        (readLoop_SI hr hn (fun hu => by cases hu) (fuelFor f c n) c [] false (by simpa using s.retag))

/-- a sequence of `zck_read` calls on one context: the results, in order, and the final context -/
def reads (H : HashFn) (D : Decomp) (f : Bytes) : Ctx → List Nat → List RdOut × Ctx
  | c, [] => ([], c)
  | c, n :: ns =>
    let r := compRead H D f c n
    let rest := reads H D f r.2 ns
    (r.1 :: rest.1, rest.2)

/-- the bytes a sequence of calls handed out -/
def outOf (rs : List RdOut) : Bytes := (rs.map (·.bytes)).flatten

theorem reads_append (c : Ctx) (a b : List Nat) :
    reads H D f c (a ++ b) =
      ((reads H D f c a).1 ++ (reads H D f (reads H D f c a).2 b).1, (reads H D f (reads H D f c a).2 b).2) := by
  induction a generalizing c with
  | nil => simp [reads]
  | cons n a ih => simp [reads, ih]

/-- **any sequence of reads that all succeed** keeps the invariant -/
theorem reads_P (hr : C13.RunFrom 0 0 h.chunks) :
    ∀ (ns : List Nat) (T : Bytes) (c : Ctx), P (H := H) (D := D) (f := f) (h := h) T c →
      (∀ r ∈ (reads H D f c ns).1, 0 ≤ r.ret) →
      P (H := H) (D := D) (f := f) (h := h) (T ++ outOf (reads H D f c ns).1) (reads H D f c ns).2
  | [], T, c, hp, _ => by simpa [reads, outOf] using hp
  | n :: ns, T, c, hp, hall => by
    simp only [reads] at hall ⊢
    have h1 := compRead_P (H := H) hr T c n hp
    rcases h1 with hneg | ⟨_, hp2, _⟩
    · have := hall _ (List.mem_cons_self); omega
    · have := reads_P hr ns _ _ hp2 (fun r hr' => hall r (List.mem_cons_of_mem _ hr'))
      simpa [outOf, List.append_assoc] using this


/-- what the format says the file holds: every index entry all there, verified and of its declared length (the empty
dictionary entry is passed over), the data section complete, and `out` the contents of the data chunks in index order -/
structure Decoded (H : HashFn) (D : Decomp) (f : Bytes) (h : Hdr) (out : Bytes) : Prop where
  needs : AllNeed H D f h h.chunks.length
  present : (fileRead f (dOff h) (total h)).length = total h
  content : out = doneFrom D f h 1 (h.chunks.drop 1)

/-- the whole data section hashes to the data checksum of the header (not checked under the uncompressed-source flag) -/
def DataOk (H : HashFn) (f : Bytes) (h : Hdr) : Prop :=
  f4 h = true ∨ H h.hashType (fileRead f (dOff h) (total h)) = some h.dataDigest

/-- the context right after a successful open -/
theorem open_P : P (H := H) (D := D) (f := f) (h := h) [] (openCtx h) := by
  have hst : ∀ ud, (ud = true → h.compType ≠ 0 → (none : Option Bytes) = dictMain D f h ∧ dictMain D f h = none) →
      Start D f h ud none [] [] (openCtx h) := fun ud hd =>
    ⟨⟨rfl, rfl, rfl, rfl⟩, rfl, rfl, rfl, rfl, rfl, rfl, Or.inr rfl, rfl, rfl, hd⟩
  cases hd : h.chunks.head? with
  | none =>
    refine Or.inr ⟨none, [], .start (hst true fun _ _ => ?_), (fun d hd' => by rw [hd] at hd'; cases hd'),
      (fun d hd' => by rw [hd] at hd'; cases hd')⟩
    simp [dictMain, hd]
  | some d =>
    by_cases hl : d.len = 0
    · refine Or.inr ⟨none, [], .start (hst true fun _ _ => ?_), fun d' hd' hpos => ?_, fun d' hd' => ?_⟩
      · simp [dictMain, hd, hl]
      · rw [hd] at hd'; cases hd'; omega
      · rw [hd] at hd'; cases hd'
        exact ⟨fun _ => rfl, fun hpos => by omega⟩
    · exact Or.inl ⟨rfl, hst false (fun hu => by cases hu), d, hd, by omega⟩

theorem close_data {c : Ctx} (hc : c.hdr = h) (hclose : close H c = true) :
    f4 h = true ∨ ∃ bs, c.fullHash = some bs ∧ H h.hashType bs = some h.dataDigest := by
  unfold close at hclose
  by_cases he : c.err = true
  · simp [he] at hclose
  · simp only [he, Bool.false_eq_true, ↓reduceIte] at hclose
    rw [flag4_eq hc] at hclose
    by_cases h4 : f4 h = true
    · exact Or.inl h4
    · simp only [h4, Bool.false_eq_true, ↓reduceIte] at hclose
      right
      cases hf : c.fullHash with
      | none => rw [hf] at hclose; cases hclose
      | some bs =>
        rw [hf, hc] at hclose
        exact ⟨bs, rfl, by simpa using hclose⟩

/-- at the end of the stream the invariant is the decoded file -/
theorem post_end {T : Bytes} {c : Ctx} (hp : Post (H := H) (D := D) (f := f) (h := h) T c) (hdc : c.dc = [])
    (hend : AtEnd (h := h) c) : Decoded H D f h T ∧ (close H c = true → DataOk H f h) := by
  obtain ⟨dv, sk, s, hdv, hside⟩ := hp
  cases s with
  | mid k ch s =>
    rcases hend with he | ⟨hi, _⟩
    · rw [s.eof] at he; cases he
    · rw [s.idx] at hi; cases hi
  | start s =>
    rcases hend with he | ⟨_, hfi⟩
    · rw [s.eof] at he; cases he
    · -- an index with nothing but (at most) the empty dictionary entry
      have hT : T = [] := s.t0
      unfold firstIdx at hfi
      cases hd : h.chunks.head? with
      | none =>
        have hnil : h.chunks = [] := by
          cases hc : h.chunks with
          | nil => rfl
          | cons x xs => rw [hc] at hd; cases hd
        have htot : total h = 0 := by simp [total, hnil, C13.sumLen]
        refine ⟨⟨fun j ch hj => by rw [hnil] at hj; simp at hj, by rw [htot, fileRead_zero]; rfl, by simp [hT, hnil, doneFrom]⟩,
          fun hcl => ?_⟩
        rcases close_data s.base.hdr hcl with h4 | ⟨bs, hb, hH⟩
        · exact Or.inl h4
        · rcases s.fhash with h4 | hf
          · exact Or.inl h4
          · rw [hf] at hb; cases hb
            exact Or.inr (by rw [htot, fileRead_zero]; exact hH)
      | some d =>
        rw [hd] at hfi
        simp only at hfi
        by_cases hsk : d.compLen = 0 ∧ d.len = 0
        · rw [if_pos hsk] at hfi
          by_cases hl : 1 < h.chunks.length
          · rw [if_pos hl] at hfi; cases hfi
          · have hone : h.chunks = [d] := by
              cases hc : h.chunks with
              | nil => rw [hc] at hd; cases hd
              | cons x xs =>
                rw [hc] at hd hl
                simp only [List.head?_cons, Option.some.injEq] at hd
                subst hd
                cases xs with
                | nil => rfl
                | cons y ys => simp at hl
            have htot : total h = 0 := by simp [total, hone, C13.sumLen, hsk.1]
            refine ⟨⟨fun j ch hj hch => ?_, by rw [htot, fileRead_zero]; rfl, by simp [hT, hone, doneFrom]⟩, fun hcl => ?_⟩
            · rw [hone] at hj hch
              have : j = 0 := by simp at hj; omega
              subst this
              simp at hch; subst hch
              exact Or.inl ⟨rfl, hsk.1, hsk.2⟩
            · rcases close_data s.base.hdr hcl with h4 | ⟨bs, hb, hH⟩
              · exact Or.inl h4
              · rcases s.fhash with h4 | hf
                · exact Or.inl h4
                · rw [hf] at hb; cases hb
                  exact Or.inr (by rw [htot, fileRead_zero]; exact hH)
        · rw [if_neg hsk] at hfi; cases hfi
  | fin s =>
    have hacc := s.acct
    rw [hdc, List.append_nil] at hacc
    refine ⟨⟨s.needs, s.pres, ?_⟩, fun hcl => ?_⟩
    · cases hc : h.chunks with
      | nil =>
        rw [hc] at hacc
        simp only [List.length_nil, done_zero] at hacc
        simp [(List.append_eq_nil_iff.mp hacc).2, doneFrom]
      | cons d tl =>
        have hd : h.chunks.head? = some d := by rw [hc]; rfl
        have hdone : done D f h h.chunks.length = contrib D f h 0 d ++ doneFrom D f h 1 tl := by
          unfold done; rw [List.take_length, hc]; rfl
        rw [hdone] at hacc
        have hnd : Need H D f h 0 d := s.needs 0 d (by rw [hc]; simp) (head_get _ _ hd)
        have hcl := contrib_len_of_need 0 d hnd
        obtain ⟨hs0, hs1⟩ := hside d hd
        have hlen : sk.length = (contrib D f h 0 d).length := by
          by_cases hl : d.len = 0
          · rw [hs0 hl, hcl, hl]; rfl
          · have := hs1 (by omega)
            have h2 := this.2 hnd
            omega
        have := (List.append_inj hacc hlen).2
        simpa using this
    · rcases close_data s.base.hdr hcl with h4 | ⟨bs, hb, hH⟩
      · exact Or.inl h4
      · rcases s.fhash with h4 | hf
        · exact Or.inl h4
        · rw [hf] at hb; cases hb
          exact Or.inr hH

/-- **C02, the streaming reader (soundness).**  For ANY file `f`, header `h` with running start offsets, codec and hash
function: open, then any reads `init` (any buffer sizes) that all report success, then a read that reports success and comes up
short (end of stream).  Then every chunk of the index is all there in the file at its own extent, hashes to its index checksum
and decodes — with the dictionary the format prescribes — to exactly its declared length, the data section is complete, and the
bytes handed out are exactly the contents of the data chunks in index order.  If `zck_close` then succeeds as well, the data
section hashes to the data checksum of the header (unless the uncompressed-source flag is set, as the format says). -/
theorem stream_sound (hr : C13.RunFrom 0 0 h.chunks) (init : List Nat) (nl : Nat)
    (hall : ∀ r ∈ (reads H D f (openCtx h) init).1, 0 ≤ r.ret)
    (hlast : 0 ≤ (compRead H D f (reads H D f (openCtx h) init).2 nl).1.ret)
    (hshort : (compRead H D f (reads H D f (openCtx h) init).2 nl).1.ret < nl) :
    Decoded H D f h (outOf (reads H D f (openCtx h) init).1 ++ (compRead H D f (reads H D f (openCtx h) init).2 nl).1.bytes) ∧
    (close H (compRead H D f (reads H D f (openCtx h) init).2 nl).2 = true → DataOk H f h) := by
  have hp := reads_P (H := H) (D := D) (f := f) hr init [] (openCtx h) open_P hall
  simp only [List.nil_append] at hp
  have hc := compRead_P (H := H) hr _ _ nl hp
  rcases hc with hneg | ⟨hret, _, hsh⟩
  · omega
  · have hlt : (compRead H D f (reads H D f (openCtx h) init).2 nl).1.bytes.length < nl := by
      rw [hret] at hshort; exact_mod_cast hshort
    obtain ⟨hpost, hdc, hend⟩ := hsh hlt
    exact post_end hpost hdc hend

end
end Zck.Stream
