/-
C20 — Compressed-integer codec: exact, bounded reads, overflow-rejecting.
Property theorems only (helper lemmas live in ZckModel/CompintLemmas.lean).
-/
import ZckModel.CompintLemmas
import ZckModel.Pred.C20

namespace Zck.C20
open Zck Zck.Compint

/-- **C20 (decode, size_t)**: for every buffer, cursor and limit within the allocation the
decoder returns exactly what the property demands — in particular it never reads out of
bounds (`specDec` has no `oob` result). -/
theorem decSize_eq_spec (m : Bytes) (pos maxLen : Nat) (hm : maxLen ≤ m.length) :
    decSize m pos maxLen = specDec (window m pos maxLen) (2^64) := by
  unfold decSize
  rw [decLoop_spec m pos maxLen hm 10 0 0 0 (by omega) (by omega) (by simp) (Nat.le_refl _)]
  unfold specFrom specDec
  simp only [List.drop_zero]
  cases value (window m pos maxLen) with
  | none => rfl
  | some p => obtain ⟨v, n⟩ := p; simp

theorem specDec_not_oob (w : Bytes) (limit i : Nat) : specDec w limit ≠ .oob i := by
  unfold specDec
  split
  · simp
  · split <;> simp

/-- **bounded reads**: decoding never reads beyond the end of the buffer it was given. -/
theorem dec_in_bounds (m : Bytes) (pos maxLen : Nat) (hm : maxLen ≤ m.length) (i : Nat) :
    decSize m pos maxLen ≠ .oob i := by
  rw [decSize_eq_spec m pos maxLen hm]; exact specDec_not_oob _ _ _

/-- **exactness**: success returns the exact value and length, which fit. -/
theorem dec_exact (m : Bytes) (pos maxLen v n : Nat) (hm : maxLen ≤ m.length) :
    decSize m pos maxLen = .ok (v, n) ↔
      value (window m pos maxLen) = some (v, n) ∧ n ≤ 10 ∧ v < 2^64 := by
  rw [decSize_eq_spec m pos maxLen hm]
  unfold specDec
  split
  · rename_i h; simp [h]
  · rename_i v' n' h
    rw [h]
    split
    · rename_i hc
      simp only [Res.ok.injEq, Prod.mk.injEq, Option.some.injEq]
      constructor
      · rintro ⟨rfl, rfl⟩; exact ⟨⟨rfl, rfl⟩, hc⟩
      · rintro ⟨⟨rfl, rfl⟩, _⟩; exact ⟨rfl, rfl⟩
    · rename_i hc
      simp only [reduceCtorEq, Option.some.injEq, Prod.mk.injEq, false_iff]
      rintro ⟨⟨rfl, rfl⟩, h2⟩; exact hc h2

/-- **failure**: the decoder fails exactly when the encoding is unterminated within the
buffer, longer than ten bytes, or denotes a value ≥ 2^64. -/
theorem dec_fail_iff (m : Bytes) (pos maxLen : Nat) (hm : maxLen ≤ m.length) :
    decSize m pos maxLen = .err ↔
      (value (window m pos maxLen) = none ∨
       ∃ v n, value (window m pos maxLen) = some (v, n) ∧ (10 < n ∨ 2^64 ≤ v)) := by
  rw [decSize_eq_spec m pos maxLen hm]
  unfold specDec
  split
  · rename_i h; simp [h]
  · rename_i v n h
    rw [h]
    split
    · rename_i hc
      simp only [reduceCtorEq, false_iff, not_or, not_exists, not_and]
      refine ⟨by simp, ?_⟩
      intro v' n' he
      simp only [Option.some.injEq, Prod.mk.injEq] at he
      obtain ⟨rfl, rfl⟩ := he
      omega
    · rename_i hc
      simp only [true_iff]
      right
      exact ⟨v, n, rfl, by omega⟩

/-- **C20 (decode, int)**: the int decoder additionally rejects values above `INT_MAX`. -/
theorem decInt_eq_spec (m : Bytes) (pos maxLen : Nat) (hm : maxLen ≤ m.length) :
    decInt m pos maxLen = specDec (window m pos maxLen) (2^31) := by
  unfold decInt
  rw [decSize_eq_spec m pos maxLen hm]
  unfold specDec
  cases value (window m pos maxLen) with
  | none => rfl
  | some p =>
    obtain ⟨v, n⟩ := p
    simp only
    by_cases h1 : n ≤ 10 ∧ v < 2^64
    · rw [if_pos h1]; simp only
      by_cases h2 : v > 2147483647
      · rw [if_pos h2, if_neg (by omega)]
      · rw [if_neg h2, if_pos (by omega)]
    · rw [if_neg h1, if_neg (by omega)]

theorem decInt_in_bounds (m : Bytes) (pos maxLen : Nat) (hm : maxLen ≤ m.length) (i : Nat) :
    decInt m pos maxLen ≠ .oob i := by
  rw [decInt_eq_spec m pos maxLen hm]; exact specDec_not_oob _ _ _

/-! ### Encoder and round trip -/

theorem value_enc (v : Nat) (tail : Bytes) :
    value (enc v ++ tail) = some (v, (enc v).length) := by
  induction v using Nat.strongRecOn with
  | _ v ih =>
    rw [enc]
    by_cases h : v < 128
    · have h2 : (v + 128) % 256 = v + 128 := by omega
      simp [h, value, UInt8.toNat_ofNat', h2]
    · have h3 : v % 128 % 256 = v % 128 := by omega
      have h4 : ¬ (128 ≤ v % 128) := by omega
      simp only [h, ↓reduceIte, List.cons_append, value, UInt8.toNat_ofNat', h3, ge_iff_le, h4,
        List.length_cons]
      rw [ih (v / 128) (by omega)]
      simp only [Option.some.injEq, Prod.mk.injEq, and_true]
      omega

theorem enc_len_le (k : Nat) : ∀ v, v < 128 ^ (k + 1) → (enc v).length ≤ k + 1 := by
  induction k with
  | zero => intro v hv; rw [enc]; simp at hv; simp [hv]
  | succ k ih =>
    intro v hv
    rw [enc]
    by_cases h : v < 128
    · simp [h]
    · simp only [h, ↓reduceIte, List.length_cons]
      have : v / 128 < 128 ^ (k + 1) := by
        rw [Nat.div_lt_iff_lt_mul (by decide)]
        rw [Nat.pow_succ] at hv; exact hv
      have := ih (v / 128) this
      omega

/-- an encoded 64-bit value takes at most ten bytes -/
theorem enc_len_le_ten (v : Nat) (hv : v < 2^64) : (enc v).length ≤ 10 := by
  apply enc_len_le 9 v
  have : (2:Nat)^64 ≤ 128^10 := by decide
  omega

theorem enc_len_pos (v : Nat) : 1 ≤ (enc v).length := by
  rw [enc]; split <;> simp

/-- **C20 (round trip)**: encoding any 64-bit value and decoding the result, at any offset of
any buffer that contains the whole encoding, returns the same value and consumes exactly the
bytes produced (at most ten). -/
theorem dec_enc (v : Nat) (hv : v < 2^64) (pre tail : Bytes) (maxLen : Nat)
    (h1 : pre.length + (enc v).length ≤ maxLen)
    (h2 : maxLen ≤ (pre ++ enc v ++ tail).length) :
    decSize (pre ++ enc v ++ tail) pre.length maxLen = .ok (v, (enc v).length) ∧
    (enc v).length ≤ 10 := by
  refine ⟨?_, enc_len_le_ten v hv⟩
  rw [dec_exact _ _ _ _ _ h2]
  refine ⟨?_, enc_len_le_ten v hv, hv⟩
  have : window (pre ++ enc v ++ tail) pre.length maxLen
       = enc v ++ tail.take (maxLen - pre.length - (enc v).length) := by
    unfold window
    rw [List.append_assoc, List.take_append, List.drop_append]
    have e1 : List.drop pre.length (List.take maxLen pre) = [] := by
      simp only [List.drop_eq_nil_iff, List.length_take]
      exact Nat.min_le_right _ _
    have e2 : pre.length - (List.take maxLen pre).length = 0 := by
      simp only [List.length_take]
      have := Nat.min_le_right maxLen pre.length
      omega
    rw [e1, e2, List.take_append]
    simp only [List.nil_append, List.drop_zero]
    have e3 : List.take (maxLen - pre.length) (enc v) = enc v := by
      apply List.take_of_length_le; omega
    rw [e3]
  rw [this]
  exact value_enc v _

/-- the int encoder refuses negative values and otherwise agrees with the size encoder -/
theorem encInt_spec (v : Int) : encInt v = if v < 0 then none else some (enc v.toNat) := rfl

/-- the prefix a decode looked at determines its value: extending the buffer does not change
a successful decode ("the exact mathematical value of the encoding") -/
theorem value_append (w tail : Bytes) (v n : Nat) (h : value w = some (v, n)) :
    value (w ++ tail) = some (v, n) := by
  induction w generalizing v n with
  | nil => simp [value] at h
  | cons b rest ih =>
    simp only [List.cons_append, value] at h ⊢
    split
    · rename_i hb; simp only [hb, ↓reduceIte] at h; exact h
    · rename_i hb
      simp only [hb, ↓reduceIte] at h
      split at h
      · simp at h
      · rename_i v' n' hr
        rw [ih v' n' hr]
        exact h

/-! ### Non-vacuity: the hypotheses are met by concrete, non-trivial inputs (these are tests) -/

example : decSize [0x00, 0x81, 0xFF] 0 3 = .ok (128, 2) := by
  rw [decSize_eq_spec _ _ _ (by decide)]; decide
example : decSize [0x00, 0x00, 0x00, 0x00, 0x00, 0x00, 0x00, 0x00, 0x00, 0x82] 0 10 = .err := by
  rw [decSize_eq_spec _ _ _ (by decide)]; decide
example : decSize [0x7f, 0x7f, 0x7f, 0x7f, 0x7f, 0x7f, 0x7f, 0x7f, 0x7f, 0x81] 0 10
            = .ok (2^64 - 1, 10) := by
  rw [decSize_eq_spec _ _ _ (by decide)]; decide
example : decSize [0x01, 0x02, 0x03] 2 3 = .err := by      -- cursor on the last byte
  rw [decSize_eq_spec _ _ _ (by decide)]; decide
example : decInt [0x00, 0x00, 0x00, 0x00, 0x90] 0 5 = .err := by   -- 2^32 as int
  rw [decInt_eq_spec _ _ _ (by decide)]; decide
example : enc 300 = [44, 130] := by simp [enc]

end Zck.C20
