/-
C10 — Missing-range requests cover exactly the missing chunks.
Property theorems only (helper lemmas live in ZckModel/RangeLemmas.lean).

Shape: the model of range.c REFINES the specification `specSt/specOut` (the coalesced extents of
a prefix of the missing chunks), and the specification has the laws the property states
(ascending / disjoint / non-adjacent, exact cover, count bound, rendering, range index).
-/
import ZckModel.RangeLemmas

namespace Zck.C10
open Zck Zck.Range

/-! ### hypotheses: what a parsed index looks like -/

/-- `start` is the running sum of stored sizes (index_common.c `finish_chunk`) -/
def RunSum : Nat → List Chunk → Prop
  | _, [] => True
  | base, c :: rest => c.start = base ∧ RunSum (base + c.compLen) rest

def total : List Chunk → Nat
  | [] => 0
  | c :: rest => c.compLen + total rest

/-- extents that ascend without overlapping, all non-empty, all at or above `lo` -/
def AscFrom : Nat → List Ext → Prop
  | _, [] => True
  | lo, x :: rest => lo ≤ x.start ∧ 0 < x.len ∧ AscFrom (x.start + x.len) rest

/-! ### laws of the specification -/

theorem specRangesFrom_append (rs : List (Nat × Nat)) (a b : List Ext) :
    specRangesFrom rs (a ++ b) = specRangesFrom (specRangesFrom rs a) b := by
  induction a generalizing rs with
  | nil => rfl
  | cons x a ih => simp only [List.cons_append, specRangesFrom, ih]

theorem specRanges_snoc (done : List Ext) (x : Ext) :
    specRanges (done ++ [x]) = snoc (specRanges done) x.start (x.start + x.len - 1) := by
  unfold specRanges
  rw [specRangesFrom_append]
  rfl

theorem specFrom_laws (lo : Nat) (exts : List Ext) (rs : List (Nat × Nat))
    (hs : Sorted rs) (hb : EndsBelow rs lo) (ha : AscFrom lo exts) :
    Sorted (specRangesFrom rs exts) ∧
    ∀ x, covers (specRangesFrom rs exts) x ↔
      covers rs x ∨ ∃ e ∈ exts, e.start ≤ x ∧ x < e.start + e.len := by
  induction exts generalizing lo rs with
  | nil => exact ⟨hs, fun x => by simp [specRangesFrom]⟩
  | cons e rest ih =>
    obtain ⟨h1, h2, h3⟩ := ha
    have hb' : EndsBelow rs e.start := fun p hp => by have := hb p hp; omega
    have hse : e.start ≤ e.start + e.len - 1 := by omega
    have ⟨hs2, hb2⟩ := snoc_sorted rs e.start (e.start + e.len - 1) hs hb' hse
    have hb3 : EndsBelow (snoc rs e.start (e.start + e.len - 1)) (e.start + e.len) := by
      intro p hp; have := hb2 p hp; omega
    have ⟨r1, r2⟩ := ih (e.start + e.len) _ hs2 hb3 h3
    refine ⟨r1, ?_⟩
    intro x
    simp only [specRangesFrom]
    rw [r2 x, snoc_covers rs _ _ x hs hb' hse]
    simp only [List.mem_cons, exists_eq_or_imp]
    constructor
    · rintro ((h | h) | h)
      · left; exact h
      · right; left; omega
      · right; right; exact h
    · rintro (h | h | h)
      · left; left; exact h
      · left; right; omega
      · right; exact h

/-- **ascending, non-overlapping, non-adjacent**: consecutive ranges `(a,b),(c,d)` of the
specified request satisfy `a ≤ b` and `b + 1 < c`. -/
theorem sorted_disjoint_nonadjacent (lo : Nat) (exts : List Ext) (ha : AscFrom lo exts) :
    Sorted (specRanges exts) :=
  (specFrom_laws lo exts [] trivial (fun _ h => by simp at h) ha).1

/-- **exact cover**: a byte is requested iff it lies in the extent of one of the covered
chunks — so never the header, never a valid chunk's bytes. -/
theorem cover_exact (lo : Nat) (exts : List Ext) (ha : AscFrom lo exts) (x : Nat) :
    covers (specRanges exts) x ↔ ∃ e ∈ exts, e.start ≤ x ∧ x < e.start + e.len := by
  have := (specFrom_laws lo exts [] trivial (fun _ h => by simp at h) ha).2 x
  simpa [covers, specRanges] using this

/-! ### the extents of the missing chunks of a parsed index ascend -/

theorem missingExt_asc (H base : Nat) (chunks : List Chunk) (hr : RunSum base chunks) :
    AscFrom (base + H) (missingExt H chunks) := by
  induction chunks generalizing base with
  | nil => trivial
  | cons c rest ih =>
    obtain ⟨h1, h2⟩ := hr
    have hrec := ih (base + c.compLen) h2
    unfold missingExt at hrec ⊢
    simp only [List.filter_cons]
    split
    · rename_i hc
      simp only [ne_eq, decide_eq_true_eq] at hc
      simp only [List.map_cons]
      refine ⟨by simp only; omega, by simp only; omega, ?_⟩
      simp only
      rw [h1]
      have : base + H + c.compLen = base + c.compLen + H := by omega
      rw [this]; exact hrec
    · -- skipped chunk: the lower bound only gets weaker
      have mono : ∀ (lo lo' : Nat) (l : List Ext), lo' ≤ lo → AscFrom lo l → AscFrom lo' l := by
        intro lo lo' l hle h
        cases l with
        | nil => trivial
        | cons x r => exact ⟨by have := h.1; omega, h.2.1, h.2.2⟩
      exact mono _ _ _ (by omega) hrec

/-! ### refinement: range.c's loop computes the specification for some prefix -/

theorem add_spec (done : List Ext) (c : Chunk) (H : Nat)
    (hs : Sorted (specRanges done)) (hb : EndsBelow (specRanges done) (c.start + H))
    (hlen : 0 < c.compLen) (hbound : c.start + H + c.compLen < 2^64) :
    add (specSt done) c H = specSt (done ++ [⟨c.number, c.start + H, c.compLen⟩]) := by
  have e1 : (c.start + H) % 2^64 = c.start + H := Nat.mod_eq_of_lt (by omega)
  have e2 : (c.start + H + c.compLen) % 2^64 = c.start + H + c.compLen := Nat.mod_eq_of_lt hbound
  have e3 : wsub1 (c.start + H + c.compLen) = c.start + H + c.compLen - 1 := wsub1_pos _ (by omega)
  have hse : c.start + H ≤ c.start + H + c.compLen - 1 := by omega
  have e4 : (c.start + H + c.compLen - 1 + 2^64 - (c.start + H) + 1) % 2^64 = c.compLen := by
    have : c.start + H + c.compLen - 1 + 2^64 - (c.start + H) + 1 = c.compLen + 2^64 := by omega
    rw [this, Nat.add_mod_right]; exact Nat.mod_eq_of_lt (by omega)
  unfold add
  simp only [specSt, e1, e2, e3, walk_append _ _ _ hs hb, ↓reduceIte, e4]
  rw [merge_append _ _ _ _ hs hb hse, specRanges_snoc]
  simp only [List.map_append, List.map_cons, List.map_nil]
  have := snoc_length (specRanges done) (c.start + H) (c.start + H + c.compLen - 1)
  congr 1
  rcases this with h | ⟨h, _⟩ <;> omega

theorem missingExt_skip (H : Nat) (c : Chunk) (rest : List Chunk)
    (h : c.valid ≠ 0 ∨ c.compLen = 0) : missingExt H (c :: rest) = missingExt H rest := by
  unfold missingExt
  simp only [List.filter_cons]
  split
  · rename_i hc; simp only [ne_eq, decide_eq_true_eq] at hc; rcases h with h | h <;> simp_all
  · rfl

theorem missingExt_keep (H : Nat) (c : Chunk) (rest : List Chunk)
    (h1 : c.valid = 0) (h2 : c.compLen ≠ 0) :
    missingExt H (c :: rest) = ⟨c.number, c.start + H, c.compLen⟩ :: missingExt H rest := by
  unfold missingExt
  simp [h1, h2]

/-- loop invariant of `zck_get_missing_range` -/
theorem loop_spec (H : Nat) (limit : Int) (chunks : List Chunk) (base : Nat) (done : List Ext)
    (hrs : RunSum base chunks) (hbound : base + H + total chunks < 2^64)
    (hs : Sorted (specRanges done)) (hb : EndsBelow (specRanges done) (base + H))
    (hinv : limit < 0 ∨ done = [] ∨ ((specRanges done).length : Int) < limit) :
    ∃ k, k ≤ (missingExt H chunks).length ∧
      (limit < 0 → k = (missingExt H chunks).length) ∧
      (missingExt H chunks ≠ [] → 0 < k) ∧
      (0 ≤ limit → (specRanges (done ++ (missingExt H chunks).take k)).length ≤ imax limit) ∧
      missingLoop H limit chunks (specSt done) = specSt (done ++ (missingExt H chunks).take k) := by
  induction chunks generalizing base done with
  | nil =>
    refine ⟨0, by simp [missingExt], by simp [missingExt], by simp [missingExt], ?_, by simp [missingLoop]⟩
    intro hl
    simp only [List.take_zero, List.append_nil]
    unfold imax
    rcases hinv with h | h | h
    · omega
    · subst h; simp [specRanges, specRangesFrom]
    · split <;> omega
  | cons c rest ih =>
    obtain ⟨h1, h2⟩ := hrs
    have hbound' : base + c.compLen + H + total rest < 2^64 := by
      simp only [total] at hbound; omega
    by_cases hv : c.valid ≠ 0 ∨ c.compLen = 0
    · -- skipped
      have hb' : EndsBelow (specRanges done) (base + c.compLen + H) :=
        fun p hp => by have := hb p hp; omega
      obtain ⟨k, hk⟩ := ih (base + c.compLen) done h2 hbound' hs hb' hinv
      refine ⟨k, ?_⟩
      rw [missingExt_skip H c rest hv]
      have : missingLoop H limit (c :: rest) (specSt done) = missingLoop H limit rest (specSt done) := by
        rcases hv with hv | hv
        · simp [missingLoop, hv]
        · by_cases hvv : c.valid ≠ 0
          · simp [missingLoop, hvv]
          · simp [missingLoop, hvv, hv]
      rw [this]; exact hk
    · have hv1 : c.valid = 0 := by
        by_cases h : c.valid = 0
        · exact h
        · exact absurd (Or.inl h) hv
      have hv2 : c.compLen ≠ 0 := fun h => hv (Or.inr h)
      rw [missingExt_keep H c rest hv1 hv2]
      have hbs : EndsBelow (specRanges done) (c.start + H) := by rw [h1]; exact hb
      have hb2 : c.start + H + c.compLen < 2^64 := by
        simp only [total] at hbound; omega
      have hadd := add_spec done c H hs hbs (by omega) hb2
      -- facts about the state after the add
      have hsn := specRanges_snoc done ⟨c.number, c.start + H, c.compLen⟩
      simp only at hsn
      have hse : c.start + H ≤ c.start + H + c.compLen - 1 := by omega
      have ⟨hs', hb'0⟩ := snoc_sorted (specRanges done) (c.start + H) (c.start + H + c.compLen - 1) hs hbs hse
      rw [← hsn] at hs' hb'0
      have hb' : EndsBelow (specRanges (done ++ [⟨c.number, c.start + H, c.compLen⟩])) (base + c.compLen + H) := by
        intro p hp; have := hb'0 p hp; omega
      have hlen := snoc_length (specRanges done) (c.start + H) (c.start + H + c.compLen - 1)
      rw [← hsn] at hlen
      have hdone_len : done = [] → (specRanges done).length = 0 := by
        intro h; subst h; rfl
      have hcount : (specSt (done ++ [⟨c.number, c.start + H, c.compLen⟩])).count
          = (specRanges (done ++ [⟨c.number, c.start + H, c.compLen⟩])).length := rfl
      by_cases hbr : limit ≥ 0 ∧ ((specRanges (done ++ [⟨c.number, c.start + H, c.compLen⟩])).length : Int) ≥ limit
      · -- break right after this add: k = 1
        refine ⟨1, by simp, ?_, by simp, ?_, ?_⟩
        · intro hl; omega
        · intro _
          simp only [List.take_succ_cons, List.take_zero]
          unfold imax
          rcases hinv with h | h | h
          · omega
          · have := hdone_len h
            rcases hlen with hl | ⟨hl, hne⟩
            · split <;> omega
            · have h0 : (specRanges done).length ≠ 0 := by
                intro hz; exact hne (List.eq_nil_of_length_eq_zero hz)
              omega
          · rcases hlen with hl | ⟨hl, _⟩ <;> split <;> omega
        · simp only [missingLoop, hv1, hv2, ne_eq, not_true_eq_false, ↓reduceIte, hadd, hcount, hbr,
            and_self, List.take_succ_cons, List.take_zero]
      · have hinv' : limit < 0 ∨ done ++ [⟨c.number, c.start + H, c.compLen⟩] = [] ∨
            ((specRanges (done ++ [⟨c.number, c.start + H, c.compLen⟩])).length : Int) < limit := by
          by_cases hl : limit ≥ 0
          · right; right
            have : ¬ ((specRanges (done ++ [⟨c.number, c.start + H, c.compLen⟩])).length : Int) ≥ limit :=
              fun h => hbr ⟨hl, h⟩
            omega
          · left; omega
        obtain ⟨k, hk1, hk2, hk3, hk4, hk5⟩ := ih (base + c.compLen) _ h2 hbound' hs' hb' hinv'
        refine ⟨k + 1, by simp; omega, ?_, by simp, ?_, ?_⟩
        · intro hl; simp only [List.length_cons]; rw [hk2 hl]
        · intro hl
          simp only [List.take_succ_cons]
          have := hk4 hl
          simpa [List.append_assoc] using this
        · simp only [missingLoop, hv1, hv2, ne_eq, not_true_eq_false, ↓reduceIte, hadd, hcount, hbr,
            List.take_succ_cons]
          rw [hk5]; simp

/-- **refinement**: for every parsed index (starts = running sums, file shorter than 2^64), every
validity marking and every limit, `zck_get_missing_range` produces exactly the specified request
for some prefix of the missing chunks: all of them when unlimited, at least one when any is
missing, at most max(limit,1) separate ranges; `count` is the number of ranges and the range index
lists the covered chunks in request order with their stored sizes. -/
theorem missing_spec (H : Nat) (chunks : List Chunk) (limit : Int)
    (hrs : RunSum 0 chunks) (hbound : H + total chunks < 2^64) :
    ∃ k, k ≤ (missingExt H chunks).length ∧
      (limit < 0 → k = (missingExt H chunks).length) ∧
      (missingExt H chunks ≠ [] → 0 < k) ∧
      (0 ≤ limit → (specRanges ((missingExt H chunks).take k)).length ≤ imax limit) ∧
      missing H chunks limit = specSt ((missingExt H chunks).take k) := by
  have := loop_spec H limit chunks 0 [] hrs (by omega) trivial (fun _ h => by simp [specRanges, specRangesFrom] at h)
    (Or.inr (Or.inl rfl))
  simpa [missing, specSt, RSt.empty, specRanges, specRangesFrom] using this

/-! ### rendering -/

theorem renderLoop_eq (items : List (Nat × Nat)) (buf loc : Nat) (acc : List Char) (h : 2 ≤ buf) :
    renderLoop items buf loc acc = some (acc ++ items.flatMap (fun p => (itemText p).toList)) := by
  fun_induction renderLoop items buf loc acc with
  | case1 => simp
  | case2 p rest buf loc acc hfit hgrow ih => exact ih (by omega)
  | case3 p rest buf loc acc hfit hgrow => omega
  | case4 p rest buf loc acc hfit ih => rw [ih h]; simp

theorem itemText_toList (p : Nat × Nat) :
    (itemText p).toList = (toString p.1).toList ++ '-' :: (toString p.2).toList ++ [','] := by
  simp [itemText, String.toList_append]

theorem flatMap_dropLast (items : List (Nat × Nat)) (h : items ≠ []) :
    (items.flatMap (fun p => (itemText p).toList)).dropLast = specChars items := by
  induction items with
  | nil => exact absurd rfl h
  | cons p rest ih =>
    cases rest with
    | nil =>
      simp only [List.flatMap_cons, List.flatMap_nil, List.append_nil, itemText_toList, specChars]
      exact List.dropLast_concat
    | cons q r =>
      have := ih (by simp)
      simp only [List.flatMap_cons, specChars] at this ⊢
      rw [List.dropLast_append_of_ne_nil (by simp [itemText_toList]), this, itemText_toList]
      simp

/-- the generated `BUF_SIZE` lets the buffer grow (otherwise the C loop would spin) -/
theorem buf_size_grows : 2 ≤ Zck.Gen.BUF_SIZE := by decide

/-- **rendering**: `zck_get_range_char` yields the comma-separated `start-end` list of exactly
the ranges, whatever the buffer growth. -/
theorem render_exact (items : List (Nat × Nat)) (h : items ≠ []) :
    render items = some (String.ofList (specChars items)) := by
  unfold render
  rw [renderLoop_eq items _ 0 [] buf_size_grows]
  simp only [List.nil_append]
  rw [flatMap_dropLast items h]

/-- **C10 on the model**: the decidable property predicate (the one the driver evaluates on the
implementation's output) holds of the model's output for every parsed index, marking and limit. -/
theorem c10_model_ok (H : Nat) (chunks : List Chunk) (limit : Int)
    (hrs : RunSum 0 chunks) (hbound : H + total chunks < 2^64) :
    c10_ok H chunks limit (modelOut H chunks limit) = true := by
  obtain ⟨k, hk1, hk2, hk3, hk4, hk5⟩ := missing_spec H chunks limit hrs hbound
  have hlen : ((missingExt H chunks).take k).length = k := by simp; omega
  unfold c10_ok modelOut
  simp only [hk5, specSt, List.length_map, hlen, Bool.and_eq_true, decide_eq_true_eq,
    Bool.or_eq_true, beq_iff_eq]
  refine ⟨⟨⟨⟨hk1, ?_⟩, ?_⟩, ?_⟩, ?_⟩
  · by_cases hl : limit ≥ 0
    · left; exact hl
    · right; exact hk2 (by omega)
  · by_cases he : missingExt H chunks = []
    · left; simp [he]
    · right; exact hk3 he
  · by_cases hl : limit < 0
    · left; exact hl
    · right; exact hk4 (by omega)
  · unfold specOut
    congr 1
    split
    · rfl
    · rename_i hne
      exact render_exact _ (by intro h; simp [h] at hne)

/-! ### Non-vacuity (these are tests): a concrete index meets the hypotheses and the model's
output is a non-trivial request -/

def exChunks : List Chunk :=
  [⟨0, 0, 0, 0⟩, ⟨1, 0, 100, 0⟩, ⟨2, 100, 50, 1⟩, ⟨3, 150, 7, 0⟩, ⟨4, 157, 9, 0⟩, ⟨5, 166, 4, -1⟩, ⟨6, 170, 1, 0⟩]

example : RunSum 0 exChunks ∧ 135 + total exChunks < 2^64 := by simp [RunSum, exChunks, total]
example : (missing 135 exChunks (-1)).items = [(135, 234), (285, 300), (305, 305)] := by decide
example : (missing 135 exChunks 2).items = [(135, 234), (285, 291)] := by decide
example : (missing 135 exChunks 2).index = [(1, 100), (3, 7)] := by decide
example : (missing 135 exChunks 0).count = 1 := by decide

end Zck.C10
