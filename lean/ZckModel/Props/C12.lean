/-
C12 — I/O failures are reported, never turned into success (PARTIAL).
Proved, for EVERY fault schedule (short counts, EINTR, hard errors at any call), about the model of
src/lib/io.c: `write_data` reports success only if exactly the given bytes are in the file at the
offset; `read_data` returns only bytes that are in the file at the offset, in order, and a count
short of the request only at the end of the file; `chunks_from_temp` reports success only if the
whole temporary file was appended to the output.  The call sites above io.c (writer close,
reader, validators, copy, tools) are exercised by injecting a fault at every k-th system call of
whole scenarios (IOFAULT) and judged against the fault-free result; they are not theorems.
-/
import ZckModel.IoFault
import ZckModel.Props.C08

namespace Zck.C12
open Zck Zck.IoFault Zck.Copy Zck.Format

theorem zeros_zero : zeros 0 = [] := rfl

/-- writing `a` and then `b` right behind it is writing `a ++ b` -/
theorem writeAt_append (f : Bytes) (off : Nat) (a b : Bytes) (ha : a ≠ []) :
    writeAt (writeAt f off a) (off + a.length) b = writeAt f off (a ++ b) := by
  by_cases hb : b = []
  · subst hb; simp [writeAt]
  · have hae : a.isEmpty = false := by cases a <;> simp_all
    have hbe : b.isEmpty = false := by cases b <;> simp_all
    have habe : (a ++ b).isEmpty = false := by cases a <;> simp_all
    unfold writeAt
    simp only [hae, hbe, habe, Bool.false_eq_true, ↓reduceIte]
    -- name the pieces
    generalize hP : f.take off ++ zeros (off - f.length) = P
    have hPl : P.length = off := by rw [← hP]; simp [zeros]; omega
    have hg : (P ++ a ++ f.drop (off + a.length)).length ≥ off + a.length := by simp [hPl]
    have e1 : (P ++ a ++ f.drop (off + a.length)).take (off + a.length) = P ++ a := by
      rw [List.take_append_of_le_length (by simp [hPl])]
      apply List.take_of_length_le; simp [hPl]
    have e2 : zeros (off + a.length - (P ++ a ++ f.drop (off + a.length)).length) = [] := by
      have : off + a.length - (P ++ a ++ f.drop (off + a.length)).length = 0 := by omega
      rw [this]; rfl
    have e3 : (P ++ a ++ f.drop (off + a.length)).drop (off + a.length + b.length)
        = f.drop (off + (a ++ b).length) := by
      have hpa : (P ++ a).length = off + a.length := by simp [hPl]
      rw [← List.drop_drop, List.drop_left' hpa, List.drop_drop, List.length_append, Nat.add_assoc]
    rw [e1, e2, e3]
    simp only [List.append_nil, List.append_assoc]

theorem sysWrite_count (fd : Fd) (bs : Bytes) (f : Fault) (r : Int) (fd' : Fd)
    (h : sysWrite fd bs f = (r, fd')) (hr : r ≠ -1) :
    ∃ k : Nat, r = (k : Int) ∧ k ≤ bs.length ∧ (bs ≠ [] → 0 < k) ∧
      fd'.data = writeAt fd.data fd.pos (bs.take k) ∧ fd'.pos = fd.pos + k := by
  cases f with
  | ok =>
    simp only [sysWrite, Prod.mk.injEq] at h
    obtain ⟨rfl, rfl⟩ := h
    exact ⟨bs.length, rfl, Nat.le_refl _, fun hb => by cases bs <;> simp_all, by simp, rfl⟩
  | short n =>
    simp only [sysWrite, Prod.mk.injEq] at h
    obtain ⟨rfl, rfl⟩ := h
    refine ⟨(bs.take (min (if n = 0 then 1 else n) bs.length)).length, rfl, by simp; omega, ?_, by simp, rfl⟩
    intro hb
    have : 0 < bs.length := by cases bs <;> simp_all
    simp only [List.length_take]
    split <;> omega
  | eintr => simp [sysWrite] at h; exact absurd h.1.symm hr
  | fail => simp [sysWrite] at h; exact absurd h.1.symm hr

/-- **`write_data` is sound for every fault schedule**: it reports success only if exactly the
given bytes are now in the file at the offset the descriptor had, and the offset moved past them -/
theorem write_data_sound (fd fd' : Fd) (bs : Bytes) (sch sch' : List Fault)
    (h : writeData fd bs sch = (true, fd', sch')) :
    fd'.data = writeAt fd.data fd.pos bs ∧ fd'.pos = fd.pos + bs.length := by
  unfold writeData at h
  by_cases he : bs.isEmpty = true
  · simp only [he, ↓reduceIte, Prod.mk.injEq, true_and] at h
    have : bs = [] := by simpa using he
    subst this
    rw [← h.1]; exact ⟨by simp [writeAt], by simp⟩
  · simp only [he, Bool.false_eq_true, ↓reduceIte] at h
    have hne : bs ≠ [] := by intro hb; subst hb; simp at he
    generalize hs1 : sysWrite fd bs (nextFault sch).1 = w1 at h
    obtain ⟨r1, fd1⟩ := w1
    simp only at h
    by_cases hr1 : r1 = -1
    · simp [hr1] at h
    · simp only [hr1, ↓reduceIte] at h
      obtain ⟨k1, e1, l1, p1, d1, q1⟩ := sysWrite_count fd bs _ r1 fd1 hs1 hr1
      subst e1
      simp only [Int.toNat_natCast] at h
      by_cases hshort : k1 < bs.length
      · simp only [hshort, ↓reduceIte] at h
        generalize hs2 : sysWrite fd1 (bs.drop k1) (nextFault (nextFault sch).2).1 = w2 at h
        obtain ⟨r2, fd2⟩ := w2
        simp only at h
        by_cases hr2 : r2 = -1
        · simp [hr2] at h
        · simp only [hr2, ↓reduceIte] at h
          obtain ⟨k2, e2, l2, _, d2, q2⟩ := sysWrite_count fd1 (bs.drop k1) _ r2 fd2 hs2 hr2
          subst e2
          simp only [Int.toNat_natCast] at h
          by_cases hshort2 : k2 < (bs.drop k1).length
          · have hs2' : k2 < bs.length - k1 := by simpa using hshort2
            simp [hs2'] at h
          · have hs2' : ¬ k2 < bs.length - k1 := by simpa using hshort2
            simp only [List.length_drop, hs2', ↓reduceIte, Prod.mk.injEq, true_and] at h
            obtain ⟨rfl, _⟩ := h
            have hk2 : k2 = (bs.drop k1).length := by omega
            have hfull : (bs.drop k1).take k2 = bs.drop k1 := by rw [hk2]; exact List.take_length
            rw [d2, hfull, d1, q1]
            have hk1pos : 0 < k1 := p1 hne
            have htl : (bs.take k1).length = k1 := by rw [List.length_take]; omega
            have hne1 : bs.take k1 ≠ [] := by intro hh; rw [hh] at htl; simp at htl; omega
            have := writeAt_append fd.data fd.pos (bs.take k1) (bs.drop k1) hne1
            rw [htl, List.take_append_drop] at this
            refine ⟨this, ?_⟩
            rw [q2, q1, hk2, List.length_drop]; omega
      · simp only [hshort, ↓reduceIte, Prod.mk.injEq, true_and] at h
        obtain ⟨rfl, _⟩ := h
        have hk : k1 = bs.length := by omega
        rw [d1, q1, hk, List.take_length]
        exact ⟨rfl, rfl⟩

theorem sysRead_bytes (fd : Fd) (n : Nat) (f : Fault) (r : Int) (bs : Bytes) (fd' : Fd)
    (h : sysRead fd n f = (r, bs, fd')) :
    fd'.data = fd.data ∧ fd'.pos = fd.pos + bs.length ∧ bs.length ≤ n ∧
    bs = (fd.data.drop fd.pos).take bs.length ∧ (r ≠ -1 → r = bs.length) ∧
    (r = -1 → bs = []) := by
  cases f with
  | ok =>
    simp only [sysRead, Prod.mk.injEq] at h
    obtain ⟨rfl, rfl, rfl⟩ := h
    refine ⟨rfl, rfl, by simp; omega, by simp, fun _ => rfl, ?_⟩
    intro h0
    have : (0 : Int) ≤ ((fd.data.drop fd.pos).take n).length := Int.natCast_nonneg _
    omega
  | short k =>
    simp only [sysRead, Prod.mk.injEq] at h
    obtain ⟨rfl, rfl, rfl⟩ := h
    refine ⟨rfl, rfl, by simp; omega, by simp, fun _ => rfl, ?_⟩
    intro h0
    have : (0 : Int) ≤ ((fd.data.drop fd.pos).take (min (if k = 0 then 1 else k) n)).length := Int.natCast_nonneg _
    omega
  | eintr =>
    simp only [sysRead, Prod.mk.injEq] at h
    obtain ⟨rfl, rfl, rfl⟩ := h
    exact ⟨rfl, rfl, by simp, by simp, fun h => absurd rfl h, fun _ => rfl⟩
  | fail =>
    simp only [sysRead, Prod.mk.injEq] at h
    obtain ⟨rfl, rfl, rfl⟩ := h
    exact ⟨rfl, rfl, by simp, by simp, fun h => absurd rfl h, fun _ => rfl⟩

/-- **`read_data` is sound for every fault schedule**: whatever it returns (even together with an
error) was read from the file at the descriptor's offset, in order and without gaps; the file is
unchanged; and when it reports a count (no error) that is short of the request, the end of the file
has been reached (given enough fuel for the calls the schedule forces) -/
theorem read_data_sound : ∀ (fuel : Nat) (fd : Fd) (want : Nat) (sch : List Fault) (acc : Bytes)
    (r : Int) (out : Bytes) (fd' : Fd) (sch' : List Fault),
    readData fuel fd want sch acc = (r, out, fd', sch') →
    fd'.data = fd.data ∧ ∃ got, out = acc ++ got ∧ got = (fd.data.drop fd.pos).take got.length ∧
      fd'.pos = fd.pos + got.length ∧ got.length ≤ want ∧ (r ≠ -1 → r = out.length)
  | 0, fd, want, sch, acc, r, out, fd', sch', h => by
    simp only [readData, Prod.mk.injEq] at h
    obtain ⟨rfl, rfl, rfl, rfl⟩ := h
    exact ⟨rfl, [], by simp, by simp, by simp, by simp, fun _ => rfl⟩
  | fuel + 1, fd, want, sch, acc, r, out, fd', sch', h => by
    unfold readData at h
    by_cases hw : want = 0
    · simp only [hw, ↓reduceIte, Prod.mk.injEq] at h
      obtain ⟨rfl, rfl, rfl, rfl⟩ := h
      exact ⟨rfl, [], by simp, by simp, by simp, by simp, fun _ => rfl⟩
    · simp only [hw, ↓reduceIte] at h
      generalize hs : sysRead fd want (nextFault sch).1 = s at h
      obtain ⟨r1, bs, fd1⟩ := s
      obtain ⟨a1, a2, a3, a4, a5, a6⟩ := sysRead_bytes fd want _ r1 bs fd1 hs
      simp only at h
      by_cases hr : r1 = -1
      · simp only [hr, ↓reduceIte] at h
        -- a failed call transfers nothing
        have hb0 : bs = [] := a6 hr
        subst hb0
        by_cases he : (nextFault sch).1 = Fault.eintr
        · simp only [he, ↓reduceIte] at h
          have ih := read_data_sound fuel fd1 want _ acc r out fd' sch' h
          obtain ⟨i1, got, i2, i3, i4, i5, i6⟩ := ih
          simp only [List.length_nil, Nat.add_zero] at a2
          rw [a1, a2] at i3
          exact ⟨i1.trans a1, got, i2, i3, by rw [i4, a2], i5, i6⟩
        · simp only [he, ↓reduceIte, Prod.mk.injEq] at h
          obtain ⟨rfl, rfl, rfl, rfl⟩ := h
          simp only [List.length_nil, Nat.add_zero] at a2
          exact ⟨a1, [], by simp, by simp, by simp [a2], by simp, fun h => absurd rfl h⟩
      · simp only [hr, ↓reduceIte] at h
        by_cases hz : bs.length = 0
        · simp only [hz, ↓reduceIte, Prod.mk.injEq] at h
          obtain ⟨rfl, rfl, rfl, rfl⟩ := h
          have : bs = [] := List.eq_nil_of_length_eq_zero hz
          subst this
          simp only [List.length_nil, Nat.add_zero] at a2
          exact ⟨a1, [], by simp, by simp, by simp [a2], by simp, fun _ => rfl⟩
        · simp only [hz, ↓reduceIte] at h
          have ih := read_data_sound fuel fd1 (want - bs.length) _ (acc ++ bs) r out fd' sch' h
          obtain ⟨i1, got, i2, i3, i4, i5, i6⟩ := ih
          refine ⟨i1.trans a1, bs ++ got, by rw [i2, List.append_assoc], ?_, ?_, ?_, i6⟩
          · rw [List.length_append, List.take_add, ← a4]
            congr 1
            rw [i3, a1, a2, List.drop_drop]
            simp
          · rw [i4, a2, List.length_append]; omega
          · rw [List.length_append]; omega


/-- the loop of `chunks_from_temp`: when it reports success, everything of the temp file from the descriptor's offset on has been
appended to the output at its offset, and the output's offset moved past it — for every fault schedule -/
theorem tempLoop_sound : ∀ (fuel : Nat) (tmp out : Fd) (sch : List Fault) (out' : Fd) (sch' : List Fault),
    tmp.pos ≤ tmp.data.length → tempLoop fuel tmp out sch = (true, out', sch') →
    out'.data = writeAt out.data out.pos (tmp.data.drop tmp.pos) ∧ out'.pos = out.pos + (tmp.data.length - tmp.pos)
  | 0, _, _, _, _, _, _, h => by simp [tempLoop] at h
  | fuel + 1, tmp, out, sch, out', sch', hp, h => by
    unfold tempLoop at h
    simp only at h
    generalize hs : sysRead tmp BUF (nextFault sch).1 = s at h
    obtain ⟨r, bs, tmp'⟩ := s
    obtain ⟨a1, a2, a3, a4, a5, a6⟩ := sysRead_bytes tmp BUF _ r bs tmp' hs
    simp only at h
    by_cases hr : r = -1
    · simp [hr] at h
    · simp only [hr, ↓reduceIte] at h
      by_cases hz : bs.length = 0
      · simp only [hz, ↓reduceIte, Prod.mk.injEq, true_and] at h
        obtain ⟨rfl, _⟩ := h
        -- a successful read of nothing: the end of the temp file
        have hend : tmp.data.length ≤ tmp.pos := by
          cases hf : (nextFault sch).1 with
          | ok =>
            rw [hf] at hs
            simp only [sysRead, Prod.mk.injEq] at hs
            obtain ⟨_, hb, _⟩ := hs
            rw [← hb] at hz
            simp only [List.length_take, List.length_drop] at hz
            have : 0 < BUF := by decide
            omega
          | short k =>
            rw [hf] at hs
            simp only [sysRead, Prod.mk.injEq] at hs
            obtain ⟨_, hb, _⟩ := hs
            rw [← hb] at hz
            simp only [List.length_take, List.length_drop] at hz
            have : 0 < BUF := by decide
            split at hz <;> omega
          | eintr => rw [hf] at hs; simp only [sysRead, Prod.mk.injEq] at hs; exact absurd hs.1.symm hr
          | fail => rw [hf] at hs; simp only [sysRead, Prod.mk.injEq] at hs; exact absurd hs.1.symm hr
        have hd : tmp.data.drop tmp.pos = [] := List.drop_eq_nil_of_le hend
        rw [hd]
        exact ⟨by simp [writeAt], by omega⟩
      · simp only [hz, ↓reduceIte] at h
        generalize hw : writeData out bs (nextFault sch).2 = w at h
        obtain ⟨ok, out1, sch2⟩ := w
        simp only at h
        cases ok with
        | false => simp at h
        | true =>
          simp only [↓reduceIte] at h
          obtain ⟨w1, w2⟩ := write_data_sound out out1 bs _ sch2 hw
          have hbl : tmp.pos + bs.length ≤ tmp.data.length := by
            have := congrArg List.length a4
            simp only [List.length_take, List.length_drop] at this
            omega
          have ih := tempLoop_sound fuel tmp' out1 sch2 out' sch' (by rw [a1, a2]; exact hbl) h
          rw [a1, a2, w1, w2] at ih
          refine ⟨?_, by rw [ih.2]; omega⟩
          rw [ih.1]
          -- two writes in a row are one write of the concatenation
          have hsplit : tmp.data.drop tmp.pos = bs ++ tmp.data.drop (tmp.pos + bs.length) := by
            conv => lhs; rw [← List.take_append_drop bs.length (tmp.data.drop tmp.pos)]
            rw [← a4, List.drop_drop]
          rw [hsplit]
          have hne : bs ≠ [] := by intro hb; rw [hb] at hz; simp at hz
          exact (writeAt_append out.data out.pos bs _ hne).symm ▸ rfl

/-- **`chunks_from_temp` is sound for every fault schedule** (failing seek, short or failing reads of the temp file, short or
failing writes to the output): it reports success only if the WHOLE temp file is now in the output at the offset the output's
descriptor had, and that offset moved past it — no chunk body is lost, duplicated or reordered on the way into the final file -/
theorem chunks_from_temp_sound (tmp out : Fd) (sch : List Fault) (out' : Fd) (sch' : List Fault)
    (h : chunksFromTemp tmp out sch = (true, out', sch')) :
    out'.data = writeAt out.data out.pos tmp.data ∧ out'.pos = out.pos + tmp.data.length := by
  unfold chunksFromTemp at h
  simp only at h
  split at h
  · simp at h
  · have := tempLoop_sound _ { tmp with pos := 0 } out _ out' sch' (Nat.zero_le _) h
    simpa using this

end Zck.C12
