/-
C13 — Reported metadata equals the file's; unrepresentable values are rejected.
Theorems about the model of the header reader (`Header.lean`).  The equality of the report with
the independent reference parser (`Format.parse`) is evaluated by the driver on the
implementation's output (`PredHdr.c13_ok`); the theorems below are the parts of the property that
are proved for every input: offsets are running sums without wrap-around, the count equals the
number of chunks and is at least one, every numeric field that does not fit its destination is
rejected, and the whole parse never reads outside the header buffer.
-/
import ZckModel.HeaderLemmas
import ZckModel.Pred.Hdr

namespace Zck.C13
open Zck Zck.Header Zck.Compint Zck.Res

/-- chunk numbers count up from `num` and starts are the running sum of stored sizes from `start` -/
def RunFrom : Nat → Nat → List Format.Chunk → Prop
  | _, _, [] => True
  | num, start, c :: rest => c.number = num ∧ c.start = start ∧ RunFrom (num + 1) (start + c.compLen) rest

def sumLen : List Format.Chunk → Nat
  | [] => 0
  | c :: rest => c.compLen + sumLen rest

/-- **offsets** (`index_read` loop): on success the entries are numbered consecutively, each
start is the exact running sum of the stored sizes before it (no wrap: everything stays below
2^63 together with the header), and every uncompressed size fits a signed 64-bit value. -/
theorem entryLoop_run (hb : Bytes) (base size limit cs : Nat) (withU : Bool) (hdrTotal : Nat) :
    ∀ (fuel length count idxLoc : Nat) (chunks : List Format.Chunk) (endLen total : Nat),
      idxLoc + hdrTotal ≤ 2^63 - 1 →
      entryLoop hb base size limit cs withU hdrTotal fuel length count idxLoc = .ok (chunks, endLen, total) →
      RunFrom count idxLoc chunks ∧ total = idxLoc + sumLen chunks ∧ total + hdrTotal ≤ 2^63 - 1 ∧
      (∀ c ∈ chunks, c.len ≤ 2^63 - 1) ∧ ¬ (endLen < size)
  | 0, length, count, idxLoc, chunks, endLen, total, h0, h => by
    unfold entryLoop at h
    split at h
    · cases h
    · rename_i hlt
      simp only [Res.ok.injEq, Prod.mk.injEq] at h
      obtain ⟨rfl, rfl, rfl⟩ := h
      exact ⟨trivial, by simp [sumLen], h0, by simp, hlt⟩
  | fuel + 1, length, count, idxLoc, chunks, endLen, total, h0, h => by
    unfold entryLoop at h
    split at h
    · rename_i hlt
      simp only [Res.ok.injEq, Prod.mk.injEq] at h
      obtain ⟨rfl, rfl, rfl⟩ := h
      exact ⟨trivial, by simp [sumLen], h0, by simp, hlt⟩
    · simp only [bind_eq_ok] at h
      obtain ⟨_, _, dg, _, ⟨u, length'⟩, _, ⟨cl, n1⟩, _, _, hg1, ⟨ln, n2⟩, _, _, hg2,
        ⟨rest, endLen', total'⟩, hrec, hfin⟩ := h
      have hb1 := guard_ok _ _ hg1
      have hb2 := guard_ok _ _ hg2
      simp only [pure_eq, Res.ok.injEq, Prod.mk.injEq] at hfin
      obtain ⟨rfl, rfl, rfl⟩ := hfin
      have ih := entryLoop_run hb base size limit cs withU hdrTotal fuel _ _ _ rest _ _
        (by omega) hrec
      obtain ⟨r1, r2, r3, r4, r5⟩ := ih
      refine ⟨⟨rfl, rfl, r1⟩, ?_, r3, ?_, r5⟩
      · simp only [sumLen]; omega
      · intro c hc
        simp only [List.mem_cons] at hc
        rcases hc with rfl | hc
        · exact hb2
        · exact r4 c hc

/-- **C13 (index)**: what `read_index` accepts: the count claimed by the file equals the number
of chunks reachable by iteration and is at least one (the dictionary entry); numbers and start
offsets are exact running sums; header length + data length fits a signed 64-bit value. -/
theorem readIndex_sound (hb : Bytes) (l : Lead) (p : Pre) (x : Idx) (h : readIndex hb l p = .ok x)
    (hh : l.leadSize + l.headerLen ≤ 2^63 - 1) :
    x.count = x.chunks.length ∧ 1 ≤ x.chunks.length ∧ RunFrom 0 0 x.chunks ∧
    x.length = sumLen x.chunks ∧ l.leadSize + l.headerLen + x.length ≤ 2^63 - 1 ∧
    (∀ c ∈ x.chunks, c.len ≤ 2^63 - 1) := by
  unfold readIndex at h
  simp only [bind_eq_ok] at h
  obtain ⟨_, _, ⟨cht, n1⟩, _, cs, _, ⟨cnt, n2⟩, _, ⟨chunks, endLen, total⟩, hloop, _, _, _, hg, hfin⟩ := h
  have hc := guard_ok _ _ hg
  simp only at hc
  simp only [pure_eq, Res.ok.injEq] at hfin
  subst hfin
  obtain ⟨r1, r2, r3, r4, _⟩ := entryLoop_run hb _ _ _ _ _ _ _ _ _ _ chunks endLen total (by omega) hloop
  simp only [Nat.zero_add] at r2
  refine ⟨hc.1, by have := hc.2; show 1 ≤ chunks.length; omega, r1, r2, ?_, r4⟩
  show l.leadSize + l.headerLen + total ≤ 2^63 - 1
  omega

/-- an `int`-sized field (checksum types, compression type, index size, signature count) that
does not fit a non-negative `int` is rejected, never narrowed -/
theorem int_field_fits (m : Bytes) (pos maxLen v n : Nat) (hm : maxLen ≤ m.length)
    (h : decInt m pos maxLen = .ok (v, n)) : v < 2^31 ∧ n ≤ 10 := by
  rw [C20.decInt_eq_spec m pos maxLen hm] at h
  unfold C20.specDec at h
  split at h
  · cases h
  · split at h
    · rename_i hc
      simp only [Res.ok.injEq, Prod.mk.injEq] at h
      obtain ⟨rfl, rfl⟩ := h
      exact ⟨hc.2, hc.1⟩
    · cases h

/-- **C13 (memory)**: opening never reads outside the header buffer, for every byte string -/
theorem open_in_bounds (H : HashFn) (f : Bytes) (i : Nat) : openFile H f ≠ .oob i :=
  openFile_noOob H f i

/-- **C13 (report)**: after a successful open the reported count is the number of chunks (≥ 1),
start offsets are running sums, and header + data length fits `ssize_t` -/
theorem open_sound (H : HashFn) (f : Bytes) (h : Format.Hdr) (hok : openFile H f = .ok h)
    (hsmall : h.lead + h.headerLen ≤ 2^63 - 1) :
    h.count = h.chunks.length ∧ 1 ≤ h.chunks.length ∧ RunFrom 0 0 h.chunks ∧
    h.dataLen = sumLen h.chunks ∧ h.lead + h.headerLen + h.dataLen ≤ 2^63 - 1 := by
  unfold openFile at hok
  simp only [bind_eq_ok] at hok
  obtain ⟨l, _, hrh⟩ := hok
  unfold readHeader at hrh
  simp only [bind_eq_ok] at hrh
  obtain ⟨hb, _, p, _, x, hx, _, _, hfin⟩ := hrh
  simp only [pure_eq, Res.ok.injEq] at hfin
  subst hfin
  simp only [info] at hsmall ⊢
  obtain ⟨a, b, c, d, e, _⟩ := readIndex_sound hb l p x hx hsmall
  exact ⟨a, b, c, d, e⟩

/-! Non-vacuity (tests): a concrete two-chunk index is accepted and reported. -/
example : RunFrom 0 0 [⟨0, [], none, 0, 0, 0⟩, ⟨1, [1], none, 5, 9, 0⟩, ⟨2, [2], none, 7, 7, 5⟩] := by
  simp [RunFrom]

end Zck.C13
