/-
C06 — The header checksum covers every header byte.
Theorems about the model of `read_lead` + `read_header_from_file`.
-/
import ZckModel.HeaderLemmas
import ZckModel.Pred.Hdr

namespace Zck.C06
open Zck Zck.Header Zck.Compint Zck.Res

/-- facts about an accepted lead: where the stored checksum sits and what it is -/
theorem readLead_geometry (pins : Pins) (f : Bytes) (l : Lead) (h : readLead pins f = .ok l) :
    l.leadSize = l.digestLoc + l.ds ∧ 5 ≤ l.digestLoc ∧ l.leadSize ≤ f.length ∧
    l.digest = (f.drop l.digestLoc).take l.ds ∧ Format.hsize l.hashType = some l.ds := by
  unfold readLead at h
  simp only [bind_eq_ok] at h
  obtain ⟨_, _, _, _, ⟨ht, n1⟩, _, _, _, ds, hds, ⟨hlen, n2⟩, _, _, hg, dg, hdg, _, _, _, _, hfin⟩ := h
  have hneed := guard_ok _ _ hg
  simp only [pure_eq, Res.ok.injEq] at hfin
  subst hfin
  simp only
  obtain ⟨hle, hx⟩ := rdSlice_ok _ _ _ _ hdg
  refine ⟨trivial, by omega, hneed, ?_, ?_⟩
  · rw [hx]
    apply take_drop_take
    split <;> omega
  · unfold hsizeRes at hds
    split at hds
    · cases hds
    · rename_i d hd; simp only [Res.ok.injEq] at hds; rw [← hds]; exact hd

/-- **the gate**: the header is accepted only if the stored checksum equals the checksum of the
fixed magic, the lead before the stored checksum, and the whole remaining header -/
theorem gate (H : HashFn) (f : Bytes) (l : Lead) (hb : Bytes) (h : readHeaderFromFile H f l = .ok hb) :
    H l.hashType (digestInput f l) = some l.digest ∧ l.leadSize + l.headerLen ≤ f.length := by
  unfold readHeaderFromFile at h
  simp only [bind_eq_ok] at h
  obtain ⟨_, _, _, _, _, _, _, h4, _, h5, _⟩ := h
  exact ⟨guard_ok _ _ h5, guard_ok _ _ h4⟩

/-- **partition**: every header byte is the identifier, a hashed byte, or a byte of the stored
checksum — no header byte is outside what the checksum covers or is compared against -/
theorem partition (l : Lead) (hgeo : l.leadSize = l.digestLoc + l.ds) (h5 : 5 ≤ l.digestLoc)
    (i : Nat) (hi : i < l.leadSize + l.headerLen) :
    i < 5 ∨ (5 ≤ i ∧ i < l.digestLoc) ∨ (l.digestLoc ≤ i ∧ i < l.leadSize) ∨
    (l.leadSize ≤ i ∧ i < l.leadSize + l.headerLen) := by omega

/-- the hashed bytes determine, together with the stored checksum, every header byte after the identifier -/
theorem header_bytes (f : Bytes) (l : Lead) (hgeo : l.leadSize = l.digestLoc + l.ds) (h5 : 5 ≤ l.digestLoc) :
    (f.take (l.leadSize + l.headerLen)).drop 5 =
      (f.take l.digestLoc).drop 5 ++ ((f.drop l.digestLoc).take l.ds ++ (f.drop l.leadSize).take l.headerLen) := by
  have e1 : f.take (l.leadSize + l.headerLen) = f.take l.digestLoc ++ (f.drop l.digestLoc).take (l.ds + l.headerLen) := by
    rw [hgeo, Nat.add_assoc, List.take_add]
  have e2 : (f.drop l.digestLoc).take (l.ds + l.headerLen)
      = (f.drop l.digestLoc).take l.ds ++ (f.drop l.leadSize).take l.headerLen := by
    rw [List.take_add, List.drop_drop, hgeo]
  rw [e1, e2]
  by_cases hlen : l.digestLoc ≤ f.length
  · rw [List.drop_append_of_le_length (by rw [List.length_take]; omega)]
  · -- the file is shorter than the checksum position: everything after it is empty
    have h1 : f.drop l.digestLoc = [] := List.drop_eq_nil_of_le (by omega)
    have h2 : f.drop l.leadSize = [] := List.drop_eq_nil_of_le (by omega)
    simp [h1, h2]

/-- an explicit collision of the checksum function (never assumed away) -/
def Collision (H : HashFn) (t : Nat) : Prop := ∃ a b, a ≠ b ∧ H t a = H t b ∧ (H t a).isSome

theorem digestInput_inj (f g : Bytes) (l : Lead)
    (h : digestInput f l = digestInput g l)
    (hf : l.leadSize + l.headerLen ≤ f.length) (hg : l.leadSize + l.headerLen ≤ g.length)
    (hgeo : l.leadSize = l.digestLoc + l.ds) (h5 : 5 ≤ l.digestLoc) :
    (f.take l.digestLoc).drop 5 = (g.take l.digestLoc).drop 5 ∧
    (f.drop l.leadSize).take l.headerLen = (g.drop l.leadSize).take l.headerLen := by
  unfold digestInput at h
  rw [List.append_assoc, List.append_assoc, List.append_cancel_left_eq] at h
  have hl : ((f.take l.digestLoc).drop 5).length = ((g.take l.digestLoc).drop 5).length := by
    simp only [List.length_drop, List.length_take]; omega
  exact List.append_inj h hl

/-- **C06 (consequence)**: two files with the same lead geometry that both pass the gate and
agree either on the stored checksum or on all hashed bytes have byte-for-byte the same header
after the identifier — unless the checksum function collides.  So changing any header byte of a
valid file (checksum type, header size, stored checksum, preface, index, signatures) without
producing a collision makes open fail; only the 5-byte identifier is outside the comparison. -/
theorem mutation_rejected (H : HashFn) (f g : Bytes) (l lg : Lead) (hbf hbg : Bytes)
    (hlf : readLead {} f = .ok l) (hlg : readLead {} g = .ok lg)
    (hof : readHeaderFromFile H f l = .ok hbf) (hog : readHeaderFromFile H g lg = .ok hbg)
    (hsame : lg.hashType = l.hashType ∧ lg.digestLoc = l.digestLoc ∧ lg.headerLen = l.headerLen)
    (hagree : l.digest = lg.digest ∨ digestInput f l = digestInput g l) :
    (f.take (l.leadSize + l.headerLen)).drop 5 = (g.take (l.leadSize + l.headerLen)).drop 5 ∨
    Collision H l.hashType := by
  obtain ⟨g1, g2, g3, g4, g5⟩ := readLead_geometry {} f l hlf
  obtain ⟨k1, k2, k3, k4, k5⟩ := readLead_geometry {} g lg hlg
  obtain ⟨s1, s2, s3⟩ := hsame
  have hds : lg.ds = l.ds := by
    rw [s1, g5] at k5; exact (Option.some.inj k5).symm
  have hlead : lg.leadSize = l.leadSize := by rw [k1, g1, s2, hds]
  obtain ⟨gf, lf⟩ := gate H f l hbf hof
  obtain ⟨gg, lgg⟩ := gate H g lg hbg hog
  have hdi : digestInput g lg = digestInput g l := by
    unfold digestInput; rw [s2, hlead, s3]
  rw [hdi, s1] at gg
  rw [hlead, s3] at lgg
  by_cases heq : digestInput f l = digestInput g l
  · left
    obtain ⟨a, b⟩ := digestInput_inj f g l heq lf lgg g1 g2
    have hdg : l.digest = lg.digest := by
      rw [heq, gg] at gf; exact (Option.some.inj gf).symm
    rw [header_bytes f l g1 g2, header_bytes g l g1 g2, a, b]
    rw [g4, k4, s2, hds] at hdg
    rw [hdg]
  · rcases hagree with hd | hd
    · right
      exact ⟨digestInput f l, digestInput g l, heq, by rw [gf, gg, hd], by rw [gf]; rfl⟩
    · exact absurd hd heq

/-- the decidable predicate used on the implementation (`opened → sealed`) holds of the model:
if the model opens a file, the file is sealed in the sense of the reference lead parser.  This
direction is evaluated on the implementation by the driver; here: the model's accepted lead has
its stored checksum exactly where the partition says. -/
theorem open_implies_gate (H : HashFn) (f : Bytes) (h : Format.Hdr) (hok : openFile H f = .ok h) :
    ∃ l : Lead, readLead {} f = .ok l ∧ H l.hashType (digestInput f l) = some l.digest ∧
      l.digest = (f.drop l.digestLoc).take l.ds := by
  unfold openFile at hok
  simp only [bind_eq_ok] at hok
  obtain ⟨l, hl, hrh⟩ := hok
  unfold readHeader at hrh
  simp only [bind_eq_ok] at hrh
  obtain ⟨hb, hhb, _⟩ := hrh
  exact ⟨l, hl, (gate H f l hb hhb).1, (readLead_geometry {} f l hl).2.2.2.1⟩

end Zck.C06
