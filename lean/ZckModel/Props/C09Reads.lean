/-
C09 — reads started after validations.  The validators (`zck_validate_checksums` / `zck_find_valid_chunks`,
`zck_validate_data_checksum`) called any number of times, in any order, on a context that has not been read from leave it in a
state from which the streaming reader behaves as from a fresh open: the invariant of `Props/C02Stream.lean` holds again
(`validations_fresh`), so everything proved about reads from a fresh context — soundness against the reference decoder, and on a
well-formed file success of every read schedule with the exact content and a successful close — holds for reads started after
the validations (`reads_after_validations_sound`, `reads_after_validations_complete`).
-/
import ZckModel.Props.C01Stream

namespace Zck.Stream
open Zck Zck.Format Zck.Reader

section
variable {H : HashFn} {D : Decomp} {f : Bytes} {h : Hdr}

/-- a context that has been opened and possibly validated, but not read from -/
structure FreshCtx (f : Bytes) (h : Hdr) (c : Ctx) : Prop where
  hdr : c.hdr = h
  noerr : c.err = false
  started : c.started = true
  dict : c.dict = none
  eof : c.dataEof = false
  idx : c.dataIdx = none
  data : c.data = []
  dc : c.dc = []
  loc : c.dataLoc = 0
  pos : c.pos = dOff h
  fhash : f4 h = true ∨ c.fullHash = some []

theorem fresh_open : FreshCtx f h (openCtx h) := ⟨rfl, rfl, rfl, rfl, rfl, rfl, rfl, rfl, rfl, rfl, Or.inr rfl⟩

/-- the reader's invariant holds in a fresh context -/
theorem fresh_P {c : Ctx} (hc : FreshCtx f h c) : P (H := H) (D := D) (f := f) (h := h) [] c := by
  have hst : ∀ ud, (ud = true → h.compType ≠ 0 → (none : Option Bytes) = dictMain D f h ∧ dictMain D f h = none) →
      Start D f h ud none [] [] c := fun ud hd =>
    ⟨⟨hc.hdr, hc.noerr, hc.started, hc.dict⟩, hc.eof, hc.idx, hc.data, hc.dc, hc.loc, hc.pos, hc.fhash, rfl, rfl, hd⟩
  cases hd : h.chunks.head? with
  | none =>
    refine Or.inr ⟨none, [], .start (hst true fun _ _ => ?_), (fun d hd' => by rw [hd] at hd'; cases hd'),
      (fun d hd' => by rw [hd] at hd'; cases hd')⟩
    simp [dictMain, hd]
  | some d =>
    by_cases hl : d.len = 0
    · refine Or.inr ⟨none, [], .start (hst true fun _ _ => ?_), fun d' hd' hpos => ?_, fun d' hd' => ?_⟩
      · simp [dictMain, hd, hl]
      · rw [hd] at hd'; cases hd'; omega
      · rw [hd] at hd'; cases hd'
        exact ⟨fun _ => rfl, fun hpos => by omega⟩
    · exact Or.inl ⟨rfl, hst false (fun hu => by cases hu), d, hd, by omega⟩

/-- what the scan leaves behind: the marks, the chunk checksum context released, the offset back at the start of the data, a
fresh running data checksum — nothing else -/
theorem validateChecksums_ctx (c : Ctx) (he : c.err = false) :
    ∃ v, (validateChecksums H f c).2 = { c with valid := v, chunkHash := none, pos := dataOff c, fullHash := some [] } := by
  unfold validateChecksums
  rw [if_neg (by simp [he])]
  generalize scanLoop H f c.hdr (¬flag4 c = true) c.hdr.chunks 0 (dataOff c) (some []) c.valid true = sl
  obtain ⟨p, full, valid, allGood⟩ := sl
  simp only
  repeat' split
  all_goals exact ⟨_, rfl⟩

theorem validateData_ctx (c : Ctx) (he : c.err = false) :
    (∃ v, (validateData H f c).2 = { c with valid := v, chunkHash := none, pos := dataOff c, fullHash := some [] }) ∨
    (validateData H f c).2 = { c with pos := dataOff c, fullHash := some [] } := by
  unfold validateData
  rw [if_neg (by simp [he])]
  split
  · exact Or.inl (validateChecksums_ctx c he)
  · exact Or.inr rfl

theorem fresh_validateChecksums {c : Ctx} (hc : FreshCtx f h c) : FreshCtx f h (validateChecksums H f c).2 := by
  obtain ⟨v, hv⟩ := validateChecksums_ctx (H := H) (f := f) c hc.noerr
  rw [hv]
  exact ⟨hc.hdr, hc.noerr, hc.started, hc.dict, hc.eof, hc.idx, hc.data, hc.dc, hc.loc, by simp [dataOff, dOff, hc.hdr], Or.inr rfl⟩

theorem fresh_validateData {c : Ctx} (hc : FreshCtx f h c) : FreshCtx f h (validateData H f c).2 := by
  rcases validateData_ctx (H := H) (f := f) c hc.noerr with ⟨v, hv⟩ | hv
  · rw [hv]
    exact ⟨hc.hdr, hc.noerr, hc.started, hc.dict, hc.eof, hc.idx, hc.data, hc.dc, hc.loc, by simp [dataOff, dOff, hc.hdr], Or.inr rfl⟩
  · rw [hv]
    exact ⟨hc.hdr, hc.noerr, hc.started, hc.dict, hc.eof, hc.idx, hc.data, hc.dc, hc.loc, by simp [dataOff, dOff, hc.hdr], Or.inr rfl⟩

/-- the validations a consumer may run -/
inductive Val where
  | all       -- zck_validate_checksums / zck_find_valid_chunks
  | data      -- zck_validate_data_checksum
deriving Repr, DecidableEq

def validations (H : HashFn) (f : Bytes) : Ctx → List Val → Ctx
  | c, [] => c
  | c, .all :: vs => validations H f (validateChecksums H f c).2 vs
  | c, .data :: vs => validations H f (validateData H f c).2 vs

/-- **any sequence of validations on a fresh context leaves a fresh context** -/
theorem validations_fresh : ∀ (vs : List Val) (c : Ctx), FreshCtx f h c → FreshCtx f h (validations H f c vs)
  | [], _, hc => hc
  | .all :: vs, _, hc => validations_fresh vs _ (fresh_validateChecksums hc)
  | .data :: vs, _, hc => validations_fresh vs _ (fresh_validateData hc)

/-- `stream_sound` from any context in which the invariant holds -/
theorem stream_sound_from (hr : C13.RunFrom 0 0 h.chunks) (c0 : Ctx) (hp : P (H := H) (D := D) (f := f) (h := h) [] c0)
    (init : List Nat) (nl : Nat)
    (hall : ∀ r ∈ (reads H D f c0 init).1, 0 ≤ r.ret)
    (hlast : 0 ≤ (compRead H D f (reads H D f c0 init).2 nl).1.ret)
    (hshort : (compRead H D f (reads H D f c0 init).2 nl).1.ret < nl) :
    Decoded H D f h (outOf (reads H D f c0 init).1 ++ (compRead H D f (reads H D f c0 init).2 nl).1.bytes) ∧
    (close H (compRead H D f (reads H D f c0 init).2 nl).2 = true → DataOk H f h) := by
  have hp2 := reads_P (H := H) (D := D) (f := f) hr init [] c0 hp hall
  simp only [List.nil_append] at hp2
  have hc := compRead_P (H := H) hr _ _ nl hp2
  rcases hc with hneg | ⟨hret, _, hsh⟩
  · omega
  · have hlt : (compRead H D f (reads H D f c0 init).2 nl).1.bytes.length < nl := by
      rw [hret] at hshort; exact_mod_cast hshort
    obtain ⟨hpost, hdc, hend⟩ := hsh hlt
    exact post_end hpost hdc hend

/-- `read_back` from any context in which the invariant holds -/
theorem read_back_from (wf : WF H D f h) (c0 : Ctx) (hp : P (H := H) (D := D) (f := f) (h := h) [] c0)
    (init : List Nat) (nl : Nat) :
    (∀ r ∈ (reads H D f c0 init).1, 0 ≤ r.ret ∧ r.ret = r.bytes.length) ∧
    0 ≤ (compRead H D f (reads H D f c0 init).2 nl).1.ret ∧
    ((compRead H D f (reads H D f c0 init).2 nl).1.ret < nl →
      outOf (reads H D f c0 init).1 ++ (compRead H D f (reads H D f c0 init).2 nl).1.bytes = doneFrom D f h 1 (h.chunks.drop 1) ∧
      close H (compRead H D f (reads H D f c0 init).2 nl).2 = true) := by
  have hall := reads_prog wf init [] c0 hp
  have hp2 := reads_P (H := H) (D := D) (f := f) wf.run init [] c0 hp (fun r hr => (hall r hr).1)
  simp only [List.nil_append] at hp2
  have hg := compRead_prog wf _ _ nl hp2
  refine ⟨hall, hg.1, fun hshort => ?_⟩
  have hc := compRead_P (H := H) wf.run _ _ nl hp2
  rcases hc with hneg | ⟨hret, _, hsh⟩
  · have := hg.1; omega
  · have hlt : (compRead H D f (reads H D f c0 init).2 nl).1.bytes.length < nl := by
      rw [hret] at hshort; exact_mod_cast hshort
    obtain ⟨hpost, hdc, hend⟩ := hsh hlt
    exact ⟨(post_end hpost hdc hend).1.content, close_at_end wf hpost hend⟩

/-- **C09 (reads after validations, soundness)**: after any validations on a freshly opened context, a read to the end of the
stream that succeeds has handed out exactly the contents of the data chunks in order, every chunk verified — as without them -/
theorem reads_after_validations_sound (hr : C13.RunFrom 0 0 h.chunks) (vs : List Val) (init : List Nat) (nl : Nat)
    (hall : ∀ r ∈ (reads H D f (validations H f (openCtx h) vs) init).1, 0 ≤ r.ret)
    (hlast : 0 ≤ (compRead H D f (reads H D f (validations H f (openCtx h) vs) init).2 nl).1.ret)
    (hshort : (compRead H D f (reads H D f (validations H f (openCtx h) vs) init).2 nl).1.ret < nl) :
    Decoded H D f h (outOf (reads H D f (validations H f (openCtx h) vs) init).1 ++
      (compRead H D f (reads H D f (validations H f (openCtx h) vs) init).2 nl).1.bytes) :=
  (stream_sound_from hr _ (fresh_P (validations_fresh vs _ fresh_open)) init nl hall hlast hshort).1

/-- **C09 (reads after validations, well-formed file)**: after any validations every read schedule succeeds, delivers exactly
the content, and `zck_close` succeeds — the same content and verdict as a read without them (`read_back`) -/
theorem reads_after_validations_complete (wf : WF H D f h) (vs : List Val) (init : List Nat) (nl : Nat) :
    (∀ r ∈ (reads H D f (validations H f (openCtx h) vs) init).1, 0 ≤ r.ret ∧ r.ret = r.bytes.length) ∧
    0 ≤ (compRead H D f (reads H D f (validations H f (openCtx h) vs) init).2 nl).1.ret ∧
    ((compRead H D f (reads H D f (validations H f (openCtx h) vs) init).2 nl).1.ret < nl →
      outOf (reads H D f (validations H f (openCtx h) vs) init).1 ++
        (compRead H D f (reads H D f (validations H f (openCtx h) vs) init).2 nl).1.bytes = doneFrom D f h 1 (h.chunks.drop 1) ∧
      close H (compRead H D f (reads H D f (validations H f (openCtx h) vs) init).2 nl).2 = true) :=
  read_back_from wf _ (fresh_P (validations_fresh vs _ fresh_open)) init nl

end
end Zck.Stream
