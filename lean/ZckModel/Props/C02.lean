import ZckModel.Reader
import ZckModel.Pred.Read
namespace Zck.C02
end Zck.C02
