/-
C02 — No silent corruption: a successful read implies verified, correct content.
What is proved about the model of `comp_read` / `zck_close` (for an arbitrary codec and hash):
* for unit-decoded chunks, everything reads hand out is decoded content of chunks whose stored
  bytes match their index checksum and that have their declared size (from C15);
* `zck_close` succeeds only if no error occurred and (unless the uncompressed-source flag is set)
  the running checksum of all body bytes consumed equals the data checksum of the header;
* a chunk end succeeds only with consistent sizes and a matching checksum.
The full statement (output = reference decoder's output whenever open/read/close succeed) is NOT a
theorem here: it is the predicate `c02_ok`, evaluated against the independent reference decoder
`Format.decode` on the implementation's output for every generated file and read schedule.
-/
import ZckModel.Props.C15

namespace Zck.C02
open Zck Zck.Format Zck.Reader

/-- `zck_close` (read mode) reports success exactly when the context is error-free and the
whole-data checksum over the consumed body bytes matches (skipped under flag 4, as the format says) -/
theorem close_iff (H : HashFn) (c : Ctx) :
    close H c = true ↔
      c.err = false ∧ (flag4 c = true ∨ ∃ bs, c.fullHash = some bs ∧ H c.hdr.hashType bs = some c.hdr.dataDigest) := by
  unfold close
  cases he : c.err
  · simp only [Bool.false_eq_true, ↓reduceIte, true_and]
    cases h4 : flag4 c
    · simp only [Bool.false_eq_true, ↓reduceIte, false_or]
      cases hf : c.fullHash with
      | none => simp
      | some bs => simp
    · simp
  · simp

/-- a chunk end that succeeds has consistent sizes and a matching checksum (any compression type) -/
theorem chunk_end_verified (H : HashFn) (D : Decomp) (c : Ctx) (k : Nat) (ch : Chunk) (useDict : Bool) (c2 : Ctx)
    (h : endDchunk H D c k ch useDict = .ok c2) :
    (c.hdr.compType = 0 → ch.compLen = ch.len) ∧
    ∃ bs d, c.chunkHash = some bs ∧ H c.hdr.chunkHashType bs = some d ∧
      (if ch.compLen = 0 then zeros d.length else d) = ch.digest := by
  unfold endDchunk at h
  by_cases hoom : c.hdr.compType ≠ 0 ∧ ch.len ≥ allocLimit
  · rw [if_pos hoom] at h; cases h
  rw [if_neg hoom] at h
  by_cases h0 : c.hdr.compType = 0
  · simp only [h0, ↓reduceIte] at h
    by_cases hne : ch.compLen ≠ ch.len
    · simp [hne] at h
    · simp only [hne, ↓reduceIte] at h
      refine ⟨fun _ => by omega, ?_⟩
      split at h
      · cases h
      · split at h
        · cases h
        · rename_i hv1 hv2
          exact validateChunk_pos H c ch hv1 hv2
  · simp only [h0, ↓reduceIte] at h
    refine ⟨fun hh => absurd hh h0, ?_⟩
    cases hD : D c.data (if useDict = true then c.dict else none) with
    | none => simp [hD] at h
    | some plain =>
      simp only [hD] at h
      by_cases hl : plain.length ≠ ch.len
      · simp [hl] at h
      · simp only [hl, ↓reduceIte] at h
        split at h
        · cases h
        · split at h
          · cases h
          · rename_i hv1 hv2
            exact validateChunk_pos H { c with data := [], dc := c.dc ++ plain } ch hv1 hv2

/-- for unit-decoded chunks: whatever any sequence of reads returns is verified content (C15) -/
theorem reads_return_verified (H : HashFn) (D : Decomp) (f : Bytes) (h : Hdr) (hz : h.compType ≠ 0) (ns : List C15.Call) :
    Ver H D h (C15.readCalls H D f (openCtx h) ns).1 :=
  C15.C15 H D f h hz ns

end Zck.C02
