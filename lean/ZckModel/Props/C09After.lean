/-
C09 — validations AFTER reads on the same context.  A validator looks at the header, the file and nothing else of the context:
its verdict and the marks it leaves are the same whatever was read before on that context (any number of `zck_read` calls,
complete or not, as long as the context is not in error state), because every mark of a file with data is overwritten by the chunk
loop (`scanLoop_marks_indep`) and reads keep the header and the number of marks (`reads_keep`).  Together with
`Props/C09Reads.lean` (reads after validations) this covers both orders of the interleavings the property quantifies over.
-/
import ZckModel.Props.C09Reads
import ZckModel.Props.C09Verdict
import ZckModel.Props.C02Full

namespace Zck.Stream
open Zck Zck.Format Zck.Reader

section
variable {H : HashFn} {D : Decomp} {f : Bytes}

/-- what reads never change: the header and the number of marks -/
def Keep (h : Hdr) (n : Nat) (c : Ctx) : Prop := c.hdr = h ∧ c.valid.length = n

def StepKeep (h : Hdr) (n : Nat) : Step → Prop
  | .done _ c => Keep h n c
  | .cont c _ _ => Keep h n c

def EndKeep (h : Hdr) (n : Nat) : EndRes → Prop
  | .ok c => Keep h n c
  | _ => True

theorem endDchunk_keep {h : Hdr} {n : Nat} (c : Ctx) (k : Nat) (ch : Chunk) (ud : Bool)
    (hk : Keep h n c) : EndKeep h n (endDchunk H D c k ch ud) := by
  have fin : ∀ c1 : Ctx, Keep h n c1 → EndKeep h n
      (if validateChunk H c1 ch = -1 then EndRes.badSum
       else if validateChunk H c1 ch < 1 then EndRes.fail
       else EndRes.ok { c1 with dataLoc := 0, dataIdx := if k + 1 < c1.hdr.chunks.length then some (k + 1) else none,
                                chunkHash := some [], valid := setValid c1.valid k 1 }) := by
    intro c1 h1
    split
    · trivial
    · split
      · trivial
      · exact ⟨h1.1, by simp [setValid, h1.2]⟩
  unfold endDchunk
  by_cases h1 : c.hdr.compType ≠ 0 ∧ ch.len ≥ allocLimit
  · rw [if_pos h1]; trivial
  · rw [if_neg h1]
    by_cases h0 : c.hdr.compType = 0
    · rw [if_pos h0]
      by_cases h3 : ch.compLen ≠ ch.len
      · rw [if_pos h3]; trivial
      · rw [if_neg h3]; exact fin c hk
    · rw [if_neg h0]
      cases hD : D c.data (if ud = true then c.dict else none) with
      | none => trivial
      | some plain =>
        simp only
        by_cases h4 : plain.length ≠ ch.len
        · rw [if_pos h4]; trivial
        · rw [if_neg h4]; exact fin _ ⟨hk.1, hk.2⟩

theorem stepEnd_keep {h : Hdr} {n : Nat} (c : Ctx) (ki : Nat) (ch : Chunk) (ud : Bool) (out : Bytes) (fin : Bool)
    (hk : Keep h n c) : StepKeep h n (stepEnd H D c ki ch ud out fin) := by
  have he := endDchunk_keep (H := H) (D := D) c ki ch ud hk
  unfold stepEnd
  cases hr : endDchunk H D c ki ch ud with
  | oom => exact hk
  | fail => exact ⟨hk.1, hk.2⟩
  | badSum => exact ⟨hk.1, by simp [setValid, hk.2]⟩
  | ok c2 =>
    rw [hr] at he
    show Keep h n _
    split
    · exact ⟨he.1, he.2⟩
    · exact he

theorem stepRead_keep {h : Hdr} {n : Nat} (m : Nat) (c : Ctx) (ch : Chunk) (out : Bytes)
    (hk : Keep h n c) : StepKeep h n (stepRead f m c ch out) := by
  have he : ∀ c' : Ctx, Keep h n c' → Keep h n (ensureHash c') := by
    intro c' hc'
    unfold ensureHash
    split
    · exact ⟨hc'.1, hc'.2⟩
    · exact hc'
  have hu : ∀ (c' : Ctx) (s : Bytes), Keep h n c' → Keep h n (updFull c' s) := by
    intro c' s hc'
    unfold updFull
    split
    · exact hc'
    · exact ⟨hc'.1, hc'.2⟩
  unfold stepRead
  simp only
  generalize (if c.dataLoc + m > ch.compLen then ch.compLen - c.dataLoc else m) = rs
  generalize fileRead f c.pos rs = src
  have h1 : Keep h n (ensureHash { c with pos := c.pos + src.length }) := he _ ⟨hk.1, hk.2⟩
  by_cases hs : src.length = 0
  · rw [if_pos hs]; exact ⟨h1.1, h1.2⟩
  · rw [if_neg hs]
    have h2 := hu _ src h1
    split
    · exact ⟨h2.1, h2.2⟩
    · exact ⟨h2.1, h2.2⟩

theorem step_keep {h : Hdr} {n : Nat} (m : Nat) (ud : Bool) (c : Ctx) (out : Bytes) (fin : Bool)
    (hk : Keep h n c) : StepKeep h n (step H D f m ud c out fin) := by
  unfold step
  split
  · exact hk
  · split
    · exact hk
    · simp only
      split
      · exact ⟨hk.1, hk.2⟩
      · split
        · exact ⟨hk.1, hk.2⟩
        · split
          · exact ⟨hk.1, hk.2⟩
          · split
            · exact ⟨hk.1, hk.2⟩
            · split
              · split
                · exact ⟨hk.1, hk.2⟩
                · exact ⟨hk.1, hk.2⟩
              · split
                · exact ⟨hk.1, hk.2⟩
                · split
                  · exact stepEnd_keep _ _ _ _ _ _ ⟨hk.1, hk.2⟩
                  · split
                    · exact ⟨hk.1, hk.2⟩
                    · exact stepRead_keep _ _ _ _ ⟨hk.1, hk.2⟩

theorem readLoop_keep {h : Hdr} {n : Nat} (m : Nat) (ud : Bool) :
    ∀ (fuel : Nat) (c : Ctx) (out : Bytes) (fin : Bool), Keep h n c → Keep h n (readLoop H D f m ud fuel c out fin).2
  | 0, c, _, _, hk => hk
  | fuel + 1, c, out, fin, hk => by
    have hs := step_keep (H := H) (D := D) (f := f) m ud c out fin hk
    unfold readLoop
    split
    · rename_i r c' hst; rw [hst] at hs; exact hs
    · rename_i c' out' fin' hst; rw [hst] at hs; exact readLoop_keep m ud fuel c' out' fin' hs

theorem compReadRaw_keep {h : Hdr} {n : Nat} (c : Ctx) (m : Nat) (ud : Bool) (hk : Keep h n c) :
    Keep h n (compReadRaw H D f c m ud).2 := by
  unfold compReadRaw
  split
  · exact hk
  · split
    · exact ⟨hk.1, hk.2⟩
    · split
      · exact hk
      · exact readLoop_keep m ud _ c [] false hk

theorem importDict_keep {h : Hdr} {n : Nat} (c : Ctx) (hk : Keep h n c) : Keep h n (importDict H D f c).2 := by
  unfold importDict
  split
  · exact ⟨hk.1, hk.2⟩
  · split
    · exact hk
    · rename_i d _ _
      have := compReadRaw_keep (H := H) (D := D) (f := f) c d.len false hk
      simp only
      split
      · exact ⟨this.1, this.2⟩
      · exact ⟨this.1, this.2⟩

theorem compRead_keep {h : Hdr} {n : Nat} (c : Ctx) (m : Nat) (hk : Keep h n c) : Keep h n (compRead H D f c m).2 := by
  unfold compRead
  split
  · exact hk
  · split
    · exact ⟨hk.1, hk.2⟩
    · split
      · exact hk
      · split
        · exact ⟨hk.1, hk.2⟩
        · split
          · split
            · exact hk
            · have hi := importDict_keep (H := H) (D := D) (f := f) c hk
              split
              · rename_i c1 hc1; rw [hc1] at hi; exact hi
              · rename_i c1 hc1; rw [hc1] at hi; exact readLoop_keep m true _ c1 [] false hi
          · exact readLoop_keep m true _ c [] false hk

/-- **reads keep the header and the number of marks** -/
theorem reads_keep {h : Hdr} {n : Nat} : ∀ (ns : List Nat) (c : Ctx), Keep h n c → Keep h n (reads H D f c ns).2
  | [], _, hk => hk
  | m :: ns, c, hk => by
    unfold reads
    exact reads_keep ns _ (compRead_keep c m hk)

end

/-! ### the validators look at the header and the file only -/

section
variable (H : HashFn) (f : Bytes)

theorem setValid_getElem? (v : List Int) (k : Nat) (x : Int) (i : Nat) :
    (setValid v k x)[i]? = if i = k ∧ k < v.length then some x else v[i]? := by
  unfold setValid
  rw [List.getElem?_set]
  by_cases h : k = i
  · subst h
    by_cases hl : k < v.length
    · simp [hl]
    · simp [hl]
  · rw [if_neg h, if_neg (fun hx => h hx.1.symm)]

theorem scanLoop_length (hdr : Hdr) (useFull : Bool) :
    ∀ (cs : List Chunk) (k pos : Nat) (full : Option Bytes) (valid : List Int) (ag : Bool),
      (scanLoop H f hdr useFull cs k pos full valid ag).2.2.1.length = valid.length := by
  intro cs
  induction cs with
  | nil => intro _ _ _ _ _; rfl
  | cons c cs ih =>
    intro k pos full valid ag
    unfold scanLoop
    split
    · simp only
      split
      · simp [setValid]
      · rw [ih]; simp [setValid]
    · simp only
      split
      · simp [setValid]
      · rw [ih]; simp [setValid]

/-- for a file with data the chunk loop overwrites every mark: its results do not depend on the marks it starts from -/
theorem scanLoop_marks_indep (hdr : Hdr) (useFull : Bool) (hdet : hdr.detached = false) :
    ∀ (cs : List Chunk) (k pos : Nat) (full : Option Bytes) (v1 v2 : List Int) (ag : Bool),
      v1.length = v2.length → (∀ i, i < k → v1[i]? = v2[i]?) → k + cs.length ≤ v1.length →
      (scanLoop H f hdr useFull cs k pos full v1 ag).1 = (scanLoop H f hdr useFull cs k pos full v2 ag).1 ∧
      (scanLoop H f hdr useFull cs k pos full v1 ag).2.1 = (scanLoop H f hdr useFull cs k pos full v2 ag).2.1 ∧
      (scanLoop H f hdr useFull cs k pos full v1 ag).2.2.2 = (scanLoop H f hdr useFull cs k pos full v2 ag).2.2.2 ∧
      (scanLoop H f hdr useFull cs k pos full v1 ag).2.2.1.length = (scanLoop H f hdr useFull cs k pos full v2 ag).2.2.1.length ∧
      ∀ i, i < k + cs.length →
        (scanLoop H f hdr useFull cs k pos full v1 ag).2.2.1[i]? = (scanLoop H f hdr useFull cs k pos full v2 ag).2.2.1[i]? := by
  intro cs
  induction cs with
  | nil =>
    intro k pos full v1 v2 ag hl hag _
    exact ⟨rfl, rfl, rfl, hl, fun i hi => hag i (by simpa using hi)⟩
  | cons c cs ih =>
    intro k pos full v1 v2 ag hl hag hb
    simp only [List.length_cons] at hb
    have hset : ∀ x : Int, (setValid v1 k x).length = (setValid v2 k x).length ∧
        ∀ i, i < k + 1 → (setValid v1 k x)[i]? = (setValid v2 k x)[i]? := by
      intro x
      refine ⟨by simp [setValid, hl], fun i hi => ?_⟩
      rw [setValid_getElem?, setValid_getElem?, ← hl]
      by_cases hik : i = k
      · subst hik; rw [if_pos ⟨rfl, by omega⟩, if_pos ⟨rfl, by omega⟩]
      · rw [if_neg (fun hx => hik hx.1), if_neg (fun hx => hik hx.1)]; exact hag i (by omega)
    unfold scanLoop
    split
    · rename_i hk0
      simp only [hdet, Bool.false_eq_true, if_false]
      have hk : k = 0 := hk0.1
      subst hk
      obtain ⟨s1, s2⟩ := hset 1
      have := ih (0 + 1) pos full (setValid v1 0 1) (setValid v2 0 1) ag s1 s2 (by simp [setValid]; omega)
      simp only [List.length_cons]
      rw [show 0 + (cs.length + 1) = 0 + 1 + cs.length by omega]
      exact this
    · simp only [hdet, Bool.false_eq_true, if_false]
      obtain ⟨s1, s2⟩ := hset (scanValue H hdr c (readPieces f pos c.compLen).1 (readPieces f pos c.compLen).2.2)
      have := ih (k + 1) (readPieces f pos c.compLen).2.1
        (if useFull then hashUpd full (readPieces f pos c.compLen).1 else full)
        (setValid v1 k (scanValue H hdr c (readPieces f pos c.compLen).1 (readPieces f pos c.compLen).2.2))
        (setValid v2 k (scanValue H hdr c (readPieces f pos c.compLen).1 (readPieces f pos c.compLen).2.2))
        (ag && decide (scanValue H hdr c (readPieces f pos c.compLen).1 (readPieces f pos c.compLen).2.2 = 1))
        s1 s2 (by simp [setValid]; omega)
      simp only [List.length_cons]
      rw [show k + (cs.length + 1) = k + 1 + cs.length by omega]
      exact this

/-- **the scan's verdict and marks depend on the header and the file only** (a file with data): two contexts with the same header,
neither in error state, with as many marks as chunks, get the same verdict and the same marks -/
theorem validateChecksums_indep (c1 c2 : Ctx) (hh : c1.hdr = c2.hdr) (e1 : c1.err = false) (e2 : c2.err = false)
    (hdet : c1.hdr.detached = false) (l1 : c1.valid.length = c1.hdr.chunks.length) (l2 : c2.valid.length = c1.hdr.chunks.length) :
    (validateChecksums H f c1).1 = (validateChecksums H f c2).1 ∧
    (validateChecksums H f c1).2.valid = (validateChecksums H f c2).2.valid := by
  have hf4 : flag4 c1 = flag4 c2 := by unfold flag4; rw [hh]
  have hdo : dataOff c1 = dataOff c2 := by unfold dataOff; rw [hh]
  obtain ⟨a1, a2, a3, a4, a5⟩ := scanLoop_marks_indep H f c1.hdr (decide (¬ flag4 c1 = true)) hdet c1.hdr.chunks 0 (dataOff c1) (some [])
    c1.valid c2.valid true (by rw [l1, l2]) (fun i hi => by omega) (by rw [l1]; omega)
  have hm : (scanLoop H f c1.hdr (decide (¬ flag4 c1 = true)) c1.hdr.chunks 0 (dataOff c1) (some []) c1.valid true).2.2.1 =
      (scanLoop H f c1.hdr (decide (¬ flag4 c1 = true)) c1.hdr.chunks 0 (dataOff c1) (some []) c2.valid true).2.2.1 := by
    apply List.ext_getElem?
    intro i
    by_cases hi : i < 0 + c1.hdr.chunks.length
    · exact a5 i hi
    · have hlen1 := scanLoop_length H f c1.hdr (decide (¬ flag4 c1 = true)) c1.hdr.chunks 0 (dataOff c1) (some []) c1.valid true
      rw [List.getElem?_eq_none (by rw [hlen1, l1]; omega), List.getElem?_eq_none (by rw [← a4, hlen1, l1]; omega)]
  unfold validateChecksums
  rw [if_neg (by simp [e1]), if_neg (by simp [e2])]
  rw [← hh, ← hf4, ← hdo]
  simp only []
  rw [← hm, ← a2, ← a3]
  repeat' split
  all_goals first | exact ⟨rfl, rfl⟩ | simp_all

/-- the data-checksum validation: its verdict depends on the header and the file only (no uncompressed-source flag: the marks are
not touched at all) -/
theorem validateData_indep (c1 c2 : Ctx) (hh : c1.hdr = c2.hdr) (e1 : c1.err = false) (e2 : c2.err = false)
    (h4 : flag4 c1 = false) :
    (validateData H f c1).1 = (validateData H f c2).1 ∧ (validateData H f c1).2.valid = c1.valid ∧
    (validateData H f c2).2.valid = c2.valid := by
  have hf4 : flag4 c2 = false := by unfold flag4 at h4 ⊢; rw [← hh]; exact h4
  have hdo : dataOff c1 = dataOff c2 := by unfold dataOff; rw [hh]
  unfold validateData
  have n1 : ¬ (c1.err = true) := by simp [e1]
  have n2 : ¬ (c2.err = true) := by simp [e2]
  have n3 : ¬ (flag4 c1 = true) := by simp [h4]
  have n4 : ¬ (flag4 c2 = true) := by simp [hf4]
  rw [if_neg n1, if_neg n2, if_neg n3, if_neg n4]
  simp only [hh, hdo, and_self]

end

/-! ### validations after reads -/

section
variable {H : HashFn} {D : Decomp} {f : Bytes}

/-- **C09: a validation after any reads gives the verdict and the marks of a validation on a freshly opened context.**  `ns` = any
read sizes on the context of a fresh open (complete or partial reads, across chunk boundaries, to the end of the stream or
not); if the context is not in error state afterwards, `zck_validate_checksums` / `zck_find_valid_chunks` report what they
report on a fresh context, mark for mark — so `find_valid_exact` and `scan_verdict` describe them —, and so does
`zck_validate_data_checksum`. -/
theorem validate_after_reads (h : Hdr) (hdet : h.detached = false) (ns : List Nat)
    (he : (reads H D f (openCtx h) ns).2.err = false) :
    (validateChecksums H f (reads H D f (openCtx h) ns).2).1 = (validateChecksums H f (openCtx h)).1 ∧
    (validateChecksums H f (reads H D f (openCtx h) ns).2).2.valid = (validateChecksums H f (openCtx h)).2.valid ∧
    (flag4 (openCtx h) = false →
      (validateData H f (reads H D f (openCtx h) ns).2).1 = (validateData H f (openCtx h)).1) := by
  have hk0 : Keep h h.chunks.length (openCtx h) := ⟨rfl, by simp [openCtx]⟩
  obtain ⟨k1, k2⟩ := reads_keep (H := H) (D := D) (f := f) ns _ hk0
  have hh : (reads H D f (openCtx h) ns).2.hdr = (openCtx h).hdr := by rw [k1]; rfl
  obtain ⟨a, b⟩ := validateChecksums_indep H f _ (openCtx h) hh he rfl (by rw [k1]; exact hdet) (by rw [k2, k1]) (by rw [k1]; simp [openCtx])
  refine ⟨a, b, fun h4 => ?_⟩
  exact (validateData_indep H f _ (openCtx h) hh he rfl (by unfold flag4 at h4 ⊢; rw [hh]; exact h4)).1

end

/-! ### non-vacuity (test): on the example file of `Props/C02Full.lean` a partial read leaves the context without error, and the
validation afterwards is the validation of a fresh open -/

example : (reads exH exD exFile (openCtx exHdr2) [1, 3]).2.err = false := by decide +kernel

example : (validateChecksums exH exFile (reads exH exD exFile (openCtx exHdr2) [1, 3]).2).1 = 1 := by
  rw [(validate_after_reads (H := exH) (D := exD) (f := exFile) exHdr2 (by decide) [1, 3] (by decide +kernel)).1]
  decide +kernel

end Zck.Stream
