/-
C13 — everything a successful open reports equals what the INDEPENDENT reference parser (`Format.parse`, written from the format
text) reads from the same bytes: `openFile_parse`.

The model of the C reader (`Header.lean`) decodes in a header buffer at absolute positions with explicit limits; the reference
parser consumes a list.  Both are brought to segments `seg f p q = (f.drop p).take q` of the one file `f`; a compressed integer
depends only on the bytes up to its terminator (`value_prefix`), so a decode that succeeds in the C buffer succeeds with the
same value and length on the reference parser's list (`decSize_ci`, `decInt_ci`).  The index loop needs that every entry ends
inside the index (the C code decodes with the end of the HEADER as limit and checks only at the end that the cursor is exactly
at the end of the index): `entryLoop_mono`.
-/
import ZckModel.Props.C13

namespace Zck.C13P
open Zck Zck.Header Zck.Compint Zck.Res Zck.Format

/-! ### segments of the file -/

def seg (f : Bytes) (p q : Nat) : Bytes := (f.drop p).take q

theorem seg_length (f : Bytes) (p q : Nat) : (seg f p q).length = min q (f.length - p) := by
  simp [seg]

theorem seg_drop (f : Bytes) (p q c : Nat) : (seg f p q).drop c = seg f (p + c) (q - c) := by
  unfold seg
  rw [List.drop_take, List.drop_drop]

theorem seg_take (f : Bytes) (p q c : Nat) (h : c ≤ q) : (seg f p q).take c = seg f p c := by
  unfold seg
  rw [List.take_take, Nat.min_eq_left h]

theorem drop_eq_seg (f : Bytes) (p : Nat) : f.drop p = seg f p (f.length - p) := by
  unfold seg
  rw [List.take_of_length_le (by simp)]

theorem window_take (f : Bytes) (K pos lim : Nat) (h : lim ≤ K) : window (f.take K) pos lim = seg f pos (lim - pos) := by
  unfold window seg
  rw [List.take_take, Nat.min_eq_left h, List.drop_take]

/-! ### compressed integers depend only on the bytes up to the terminator -/

theorem value_prefix : ∀ (W L : Bytes) (v n : Nat), value W = some (v, n) → L.take n = W.take n → value L = some (v, n)
  | [], _, _, _, h, _ => by simp [value] at h
  | b :: rest, L, v, n, h, hp => by
    unfold value at h
    by_cases hb : b.toNat ≥ 128
    · rw [if_pos hb] at h
      simp only [Option.some.injEq, Prod.mk.injEq] at h
      obtain ⟨rfl, rfl⟩ := h
      cases L with
      | nil => simp at hp
      | cons x xs =>
        simp only [List.take_succ_cons, List.take_zero, List.cons.injEq, and_true] at hp
        subst hp
        unfold value; rw [if_pos hb]
    · rw [if_neg hb] at h
      cases hr : value rest with
      | none => rw [hr] at h; cases h
      | some p =>
        obtain ⟨v', n'⟩ := p
        rw [hr] at h
        simp only [Option.some.injEq, Prod.mk.injEq] at h
        obtain ⟨rfl, rfl⟩ := h
        cases L with
        | nil => simp at hp
        | cons x xs =>
          simp only [List.take_succ_cons, List.cons.injEq] at hp
          obtain ⟨rfl, hp'⟩ := hp
          have ih := value_prefix rest xs v' n' hr hp'
          unfold value; rw [if_neg hb, ih]

theorem value_len_le : ∀ (W : Bytes) (v n : Nat), value W = some (v, n) → n ≤ W.length
  | [], _, _, h => by simp [value] at h
  | b :: rest, v, n, h => by
    unfold value at h
    by_cases hb : b.toNat ≥ 128
    · rw [if_pos hb] at h
      simp only [Option.some.injEq, Prod.mk.injEq] at h
      obtain ⟨_, rfl⟩ := h
      simp
    · rw [if_neg hb] at h
      cases hr : value rest with
      | none => rw [hr] at h; cases h
      | some p =>
        obtain ⟨v', n'⟩ := p
        rw [hr] at h
        simp only [Option.some.injEq, Prod.mk.injEq] at h
        obtain ⟨_, rfl⟩ := h
        have := value_len_le rest v' n' hr
        simp; omega

/-- the reference parser's integer on a list that agrees with the decoder's window up to the terminator -/
theorem ci_of_value (L W : Bytes) (v n lim : Nat) (hv : value W = some (v, n)) (hn : n ≤ 10) (hl : v < lim)
    (hp : L.take n = W.take n) : ci L lim = some (v, L.drop n) := by
  unfold ci
  rw [value_prefix W L v n hv hp]
  simp [hn, hl]

/-- a successful `compint_to_size` in a buffer that is a prefix of the file: value, length, and where it ends -/
theorem decSize_seg (f : Bytes) (K pos lim v n : Nat) (hK : K ≤ f.length) (hl : lim ≤ K)
    (h : decSize (f.take K) pos lim = .ok (v, n)) :
    value (seg f pos (lim - pos)) = some (v, n) ∧ n ≤ 10 ∧ v < 2^64 ∧ pos + n ≤ lim ∧ 1 ≤ n := by
  have hm : lim ≤ (f.take K).length := by simp; omega
  have := (C20.dec_exact (f.take K) pos lim v n hm).mp h
  rw [window_take f K pos lim hl] at this
  obtain ⟨hv, h10, h64⟩ := this
  have hlen := value_len_le _ _ _ hv
  have hpos := value_len_pos _ _ _ hv
  rw [seg_length] at hlen
  exact ⟨hv, h10, h64, by omega, hpos⟩

theorem decInt_seg (f : Bytes) (K pos lim v n : Nat) (hK : K ≤ f.length) (hl : lim ≤ K)
    (h : decInt (f.take K) pos lim = .ok (v, n)) :
    value (seg f pos (lim - pos)) = some (v, n) ∧ n ≤ 10 ∧ v < 2^31 ∧ pos + n ≤ lim ∧ 1 ≤ n := by
  have hm : lim ≤ (f.take K).length := by simp; omega
  rw [C20.decInt_eq_spec (f.take K) pos lim hm, window_take f K pos lim hl] at h
  unfold C20.specDec at h
  cases hv : value (seg f pos (lim - pos)) with
  | none => rw [hv] at h; cases h
  | some p =>
    obtain ⟨v', n'⟩ := p
    rw [hv] at h
    simp only at h
    by_cases hc : n' ≤ 10 ∧ v' < 2^31
    · rw [if_pos hc] at h
      simp only [Res.ok.injEq, Prod.mk.injEq] at h
      obtain ⟨rfl, rfl⟩ := h
      have hlen := value_len_le _ _ _ hv
      have hpos := value_len_pos _ _ _ hv
      rw [seg_length] at hlen
      exact ⟨rfl, hc.1, hc.2, by omega, hpos⟩
    · rw [if_neg hc] at h; cases h

/-- the reference parser's integer at offset `p` of the file, on any of its lists that reaches the terminator -/
theorem ci_seg (f : Bytes) (p q q' v n lim : Nat) (hv : value (seg f p q) = some (v, n)) (hn : n ≤ 10) (hl : v < lim)
    (hq : n ≤ q) (hq' : n ≤ q') : ci (seg f p q') lim = some (v, seg f (p + n) (q' - n)) := by
  rw [← seg_drop]
  exact ci_of_value _ _ v n lim hv hn hl (by rw [seg_take _ _ _ _ hq', seg_take _ _ _ _ hq])


/-! ### stage by stage: what a successful step of the C reader says in terms of the file -/

theorem leadRead_eq : leadRead = 25 := by decide

structure LeadSpec (f : Bytes) (l : Lead) (n1 n2 : Nat) : Prop where
  len25 : 25 ≤ f.length
  magic : f.take 5 = magicFile ∨ f.take 5 = magicDet
  det : l.detached = decide (f.take 5 = magicDet)
  v1 : value (seg f 5 20) = some (l.hashType, n1)
  b1 : n1 ≤ 10 ∧ l.hashType < 2^31 ∧ 5 + n1 ≤ 25
  ds : hsize l.hashType = some l.ds
  v2 : value (seg f (5 + n1) (20 - n1)) = some (l.headerLen, n2)
  b2 : n2 ≤ 10 ∧ l.headerLen < 2^64 ∧ 5 + n1 + n2 ≤ 25
  loc : l.digestLoc = 5 + n1 + n2
  lead : l.leadSize = l.digestLoc + l.ds
  leadLe : l.leadSize ≤ f.length
  dg : l.digest = seg f l.digestLoc l.ds

theorem readLead_spec (f : Bytes) (l : Lead) (h : readLead {} f = .ok l) : ∃ n1 n2, LeadSpec f l n1 n2 := by
  unfold readLead at h
  simp only [bind_eq_ok] at h
  obtain ⟨_, hg1, _, hg2, ⟨ht, n1⟩, hd1, _, _, ds, hds, ⟨hlen, n2⟩, hd2, _, hg3, dg, hdg, _, _, _, _, hfin⟩ := h
  have h25 := guard_ok _ _ hg1
  rw [leadRead_eq] at h25 hd1 hd2
  have hmag := guard_ok _ _ hg2
  have hneed := guard_ok _ _ hg3
  simp only [pure_eq, Res.ok.injEq] at hfin
  subst hfin
  simp only [leadRead_eq] at hd1 hd2 hdg hneed hmag ⊢
  have hm5 : (f.take 25).take 5 = f.take 5 := by rw [List.take_take]; rfl
  rw [hm5] at hmag
  obtain ⟨a1, a2, a3, a4, _⟩ := decInt_seg f 25 5 25 ht n1 h25 (Nat.le_refl _) hd1
  obtain ⟨c1, c2, c3, c4, _⟩ := decSize_seg f 25 (5 + n1) 25 hlen n2 h25 (Nat.le_refl _) hd2
  have hdsz : hsize ht = some ds := by
    unfold hsizeRes at hds
    cases hh : hsize ht with
    | none => rw [hh] at hds; cases hds
    | some d => rw [hh] at hds; simp only [Res.ok.injEq] at hds; rw [hds]
  refine ⟨n1, n2, h25, hmag, by simp [hm5], a1, ⟨a2, a3, a4⟩, hdsz, ?_, ⟨c2, c3, by omega⟩, rfl, rfl, hneed, ?_⟩
  · rw [show 20 - n1 = 25 - (5 + n1) by omega]; exact c1
  · have := (rdSlice_ok _ _ _ _ hdg).2
    rw [this]
    unfold seg
    exact take_drop_take f _ _ _ (by split <;> omega)


theorem rhff_spec (H : Format.HashFn) (f : Bytes) (l : Lead) (hb : Bytes) (h : readHeaderFromFile H f l = .ok hb) :
    hb = f.take (l.leadSize + l.headerLen) ∧ l.leadSize + l.headerLen ≤ f.length ∧ l.headerLen ≠ 0 ∧
    H l.hashType (digestInput f l) = some l.digest := by
  unfold readHeaderFromFile at h
  simp only [bind_eq_ok] at h
  obtain ⟨_, hg1, _, _, _, _, _, hg4, _, hg5, hfin⟩ := h
  simp only [pure_eq, Res.ok.injEq] at hfin
  exact ⟨hfin.symm, guard_ok _ _ hg4, (guard_ok _ _ hg1).2, guard_ok _ _ hg5⟩

/-- the optional elements: the C loop over the header buffer and the reference parser's `skipOpt` over its list -/
theorem optLoop_skip (f : Bytes) (base maxLen : Nat) (hK : base + maxLen ≤ f.length) :
    ∀ (n length length' : Nat), optLoop (f.take (base + maxLen)) base maxLen n length = .ok length' →
      skipOpt n (seg f (base + length) (maxLen - length)) = some (seg f (base + length') (maxLen - length')) ∧
      length + 2 * n ≤ length' ∧ (n = 0 ∨ length' ≤ maxLen)
  | 0, length, length', h => by
    unfold optLoop at h
    simp only [Res.ok.injEq] at h
    subst h
    exact ⟨rfl, by omega, Or.inl rfl⟩
  | n + 1, length, length', h => by
    unfold optLoop at h
    simp only [bind_eq_ok] at h
    obtain ⟨⟨x1, k1⟩, hd1, ⟨dsz, k2⟩, hd2, _, hg, hrec⟩ := h
    simp only at hd2 hg hrec
    have hgd := guard_ok _ _ hg
    obtain ⟨a1, a2, a3, a4, a5⟩ := decSize_seg f (base + maxLen) (base + length) (base + maxLen) x1 k1 hK (Nat.le_refl _) hd1
    obtain ⟨c1, c2, c3, c4, c5⟩ := decSize_seg f (base + maxLen) (base + length + k1) (base + maxLen) dsz k2 hK (Nat.le_refl _) hd2
    obtain ⟨ih1, ih2, ih3⟩ := optLoop_skip f base maxLen hK n _ length' hrec
    have e1 : base + maxLen - (base + length) = maxLen - length := by omega
    have e2 : base + maxLen - (base + length + k1) = maxLen - length - k1 := by omega
    rw [e1] at a1
    rw [e2] at c1
    have s1 := ci_seg f (base + length) (maxLen - length) (maxLen - length) x1 k1 (2^64) a1 a2 a3 (by omega) (by omega)
    have s2 := ci_seg f (base + length + k1) (maxLen - length - k1) (maxLen - length - k1) dsz k2 (2^64) c1 c2 c3 (by omega) (by omega)
    refine ⟨?_, by omega, Or.inr ?_⟩
    · unfold skipOpt
      rw [s1]
      simp only [Option.bind_eq_bind, Option.bind_some]
      rw [s2]
      simp only [Option.bind_some]
      have hl : (seg f (base + length + k1 + k2) (maxLen - length - k1 - k2)).length = maxLen - length - k1 - k2 := by
        rw [seg_length]; omega
      unfold takeN
      rw [hl, if_pos (by omega)]
      simp only [Option.bind_some]
      rw [seg_drop]
      have e3 : base + length + k1 + k2 + dsz = base + (length + k1 + k2 + dsz) := by omega
      have e4 : maxLen - length - k1 - k2 - dsz = maxLen - (length + k1 + k2 + dsz) := by omega
      rw [e3, e4]
      exact ih1
    · rcases ih3 with h0 | hle
      · subst h0
        unfold optLoop at hrec
        simp only [Res.ok.injEq] at hrec
        omega
      · exact hle


/-- the optional-elements section as the reference parser reads it -/
def refOpt (flags : Nat) (p3 : Bytes) : Option Bytes :=
  if flags / 2 % 2 = 1 then do
    let (n, q) ← ci p3 (2^64)
    if n > p3.length then none else skipOpt n q
  else some p3

structure PreSpec (f : Bytes) (L hl ds : Nat) (p : Pre) (m1 m2 len4 m4 : Nat) : Prop where
  hds : ds ≤ hl
  dd : p.dataDigest = seg f L ds
  cf : ci (seg f (L + ds) (hl - ds)) (2^64) = some (p.flags, seg f (L + ds + m1) (hl - ds - m1))
  fl : p.flags % 2 = 0 ∧ p.flags < 8
  cc : ci (seg f (L + ds + m1) (hl - ds - m1)) (2^31) = some (p.compType, seg f (L + ds + m1 + m2) (hl - ds - m1 - m2))
  ctv : p.compType = 0 ∨ p.compType = 2
  opt : refOpt p.flags (seg f (L + ds + m1 + m2) (hl - ds - m1 - m2)) = some (seg f (L + len4) (hl - len4))
  ci4 : ci (seg f (L + len4) (hl - len4)) (2^31) = some (p.indexSize, seg f (L + len4 + m4) (hl - len4 - m4))
  psz : p.prefaceSize = len4 + m4 ∧ len4 + m4 ≤ hl

theorem readPreface_spec (f : Bytes) (l : Lead) (p : Pre) (hK : l.leadSize + l.headerLen ≤ f.length)
    (h : readPreface (f.take (l.leadSize + l.headerLen)) l = .ok p) :
    ∃ m1 m2 len4 m4, PreSpec f l.leadSize l.headerLen l.ds p m1 m2 len4 m4 := by
  unfold readPreface at h
  simp only [bind_eq_ok] at h
  obtain ⟨_, hg1, dd, hdd, ⟨flags, m1⟩, hd1, _, hg2, ⟨ct, m2⟩, hd2, _, hg3, len4, hopt, ⟨isz, m4⟩, hd4, hfin⟩ := h
  simp only [pure_eq, Res.ok.injEq] at hfin
  subst hfin
  simp only at hd1 hd2 hd4 hopt hg2 hg3 ⊢
  have hds := guard_ok _ _ hg1
  have hfl := guard_ok _ _ hg2
  have hct := guard_ok _ _ hg3
  generalize hL : l.leadSize = L at *
  generalize hhl : l.headerLen = hl at *
  generalize hdsn : l.ds = ds at *
  obtain ⟨a1, a2, a3, a4, a5⟩ := decSize_seg f (L + hl) (L + ds) (L + hl) flags m1 hK (Nat.le_refl _) hd1
  obtain ⟨c1, c2, c3, c4, c5⟩ := decInt_seg f (L + hl) (L + ds + m1) (L + hl) ct m2 hK (Nat.le_refl _) hd2
  rw [show L + hl - (L + ds) = hl - ds by omega] at a1
  rw [show L + hl - (L + ds + m1) = hl - ds - m1 by omega] at c1
  have s1 := ci_seg f (L + ds) (hl - ds) (hl - ds) flags m1 (2^64) a1 a2 a3 (by omega) (by omega)
  have s2 := ci_seg f (L + ds + m1) (hl - ds - m1) (hl - ds - m1) ct m2 (2^31) c1 c2 c3 (by omega) (by omega)
  -- optional elements
  have hoptS : refOpt flags (seg f (L + ds + m1 + m2) (hl - ds - m1 - m2)) = some (seg f (L + len4) (hl - len4)) ∧
      ds + m1 + m2 ≤ len4 ∧ (flags / 2 % 2 = 1 → len4 ≤ hl) := by
    unfold optPart at hopt
    unfold refOpt
    by_cases hf : flags / 2 % 2 = 1
    · rw [if_pos hf] at hopt ⊢
      simp only [bind_eq_ok] at hopt
      obtain ⟨⟨cnt, m3⟩, hd3, _, hg4, hloop⟩ := hopt
      simp only at hg4 hloop
      obtain ⟨e1, e2, e3, e4, e5⟩ := decSize_seg f (L + hl) (L + (ds + m1 + m2)) (L + hl) cnt m3 hK (Nat.le_refl _) hd3
      rw [show L + hl - (L + (ds + m1 + m2)) = hl - ds - m1 - m2 by omega, show L + (ds + m1 + m2) = L + ds + m1 + m2 by omega] at e1
      have s3 := ci_seg f (L + ds + m1 + m2) (hl - ds - m1 - m2) (hl - ds - m1 - m2) cnt m3 (2^64) e1 e2 e3 (by omega) (by omega)
      obtain ⟨k1, k2, k3⟩ := optLoop_skip f L hl hK cnt _ len4 hloop
      rw [s3]
      simp only [Option.bind_eq_bind, Option.bind_some]
      have hlen : (seg f (L + ds + m1 + m2) (hl - ds - m1 - m2)).length = hl - ds - m1 - m2 := by rw [seg_length]; omega
      have hle4 : len4 ≤ hl := by
        rcases k3 with h0 | hle
        · subst h0
          unfold optLoop at hloop
          simp only [Res.ok.injEq] at hloop
          omega
        · exact hle
      rw [hlen, if_neg (by omega)]
      rw [show L + ds + m1 + m2 + m3 = L + (ds + m1 + m2 + m3) by omega,
        show hl - ds - m1 - m2 - m3 = hl - (ds + m1 + m2 + m3) by omega]
      exact ⟨k1, by omega, fun _ => hle4⟩
    · rw [if_neg hf] at hopt ⊢
      simp only [pure_eq, Res.ok.injEq] at hopt
      subst hopt
      exact ⟨by rw [show L + ds + m1 + m2 = L + (ds + m1 + m2) by omega, show hl - ds - m1 - m2 = hl - (ds + m1 + m2) by omega],
        Nat.le_refl _, fun h1 => absurd h1 hf⟩
  obtain ⟨g1, g2, g3, g4, g5⟩ := decInt_seg f (L + hl) (L + len4) (L + hl) isz m4 hK (Nat.le_refl _) hd4
  rw [show L + hl - (L + len4) = hl - len4 by omega] at g1
  have s4 := ci_seg f (L + len4) (hl - len4) (hl - len4) isz m4 (2^31) g1 g2 g3 (by omega) (by omega)
  refine ⟨m1, m2, len4, m4, hds, ?_, s1, hfl, s2, hct, hoptS.1, s4, rfl, by omega⟩
  have := (rdSlice_ok _ _ _ _ hdd).2
  rw [this]
  exact take_drop_take f _ _ _ (by omega)


theorem takeN_seg (f : Bytes) (p q c : Nat) (hq : c ≤ q) (hf : p + q ≤ f.length) :
    takeN (seg f p q) c = some (seg f p c, seg f (p + c) (q - c)) := by
  unfold takeN
  rw [seg_length, if_pos (by omega), seg_take _ _ _ _ hq, seg_drop]

/-- the index entries: the C loop over the header buffer (limit = end of the header, exact end checked afterwards) and the
reference parser's `entries` over the index bytes -/
theorem entryLoop_entries (f : Bytes) (K base size cs : Nat) (withU : Bool) (hdrTotal : Nat)
    (hK : K ≤ f.length) (hbs : base + size ≤ K) :
    ∀ (fuel length count idxLoc : Nat) (chunks : List Chunk) (total : Nat),
      entryLoop (f.take K) base size K cs withU hdrTotal fuel length count idxLoc = .ok (chunks, size, total) →
      length ≤ size ∧ ∀ fuel', size - length ≤ fuel' →
        entries fuel' cs withU (seg f (base + length) (size - length)) count idxLoc = some chunks
  | 0, length, count, idxLoc, chunks, total, h => by
    unfold entryLoop at h
    split at h
    · cases h
    · rename_i hlt
      simp only [Res.ok.injEq, Prod.mk.injEq] at h
      obtain ⟨rfl, rfl, _⟩ := h
      refine ⟨Nat.le_refl _, fun fuel' _ => ?_⟩
      have : seg f (base + length) (length - length) = [] := by simp [seg]
      rw [this]
      cases fuel' <;> simp [entries]
  | fuel + 1, length, count, idxLoc, chunks, total, h => by
    unfold entryLoop at h
    split at h
    · rename_i hlt
      simp only [Res.ok.injEq, Prod.mk.injEq] at h
      obtain ⟨rfl, rfl, _⟩ := h
      refine ⟨Nat.le_refl _, fun fuel' _ => ?_⟩
      have : seg f (base + length) (length - length) = [] := by simp [seg]
      rw [this]
      cases fuel' <;> simp [entries]
    · rename_i hlt
      have hlt' : length < size := by omega
      simp only [bind_eq_ok] at h
      obtain ⟨_, hg0, dg, hdg, ⟨u, length2⟩, hud, ⟨cl, n1⟩, hd1, _, hg1, ⟨ln, n2⟩, hd2, _, hg2,
        ⟨rest, endLen', total'⟩, hrec, hfin⟩ := h
      simp only [pure_eq, Res.ok.injEq, Prod.mk.injEq] at hfin
      obtain ⟨hch, hend, htot⟩ := hfin
      subst hch htot
      rw [hend] at hrec
      simp only at hd1 hd2 hg1 hg2 hrec
      have hgd1 := guard_ok _ _ hg1
      have hgd2 := guard_ok _ _ hg2
      -- the uncompressed-source digest
      have hu : (withU = true → length2 = length + cs + cs ∧ u = some (seg f (base + length + cs) cs)) ∧
          (withU = false → length2 = length + cs ∧ u = none) := by
        unfold udPart at hud
        cases withU with
        | true =>
          simp only [↓reduceIte, bind_eq_ok] at hud
          obtain ⟨_, _, u', hu', hfin⟩ := hud
          simp only [pure_eq, Res.ok.injEq, Prod.mk.injEq] at hfin
          obtain ⟨rfl, rfl⟩ := hfin
          have hr := rdSlice_ok _ _ _ _ hu'
          refine ⟨fun _ => ⟨rfl, ?_⟩, (fun hx => by cases hx)⟩
          rw [hr.2]
          have hle : base + (length + cs) + cs ≤ K := by
            have := hr.1; simp only [List.length_take] at this; omega
          rw [show base + length + cs = base + (length + cs) by omega]
          exact congrArg some (take_drop_take f _ _ _ hle)
        | false =>
          simp only [Bool.false_eq_true, ↓reduceIte, pure_eq, Res.ok.injEq, Prod.mk.injEq] at hud
          obtain ⟨rfl, rfl⟩ := hud
          exact ⟨(fun hx => by cases hx), fun _ => ⟨rfl, rfl⟩⟩
      obtain ⟨a1, a2, a3, a4, a5⟩ := decSize_seg f K (base + length2) K cl n1 hK (Nat.le_refl _) hd1
      obtain ⟨c1, c2, c3, c4, c5⟩ := decSize_seg f K (base + length2 + n1) K ln n2 hK (Nat.le_refl _) hd2
      obtain ⟨ihle, ih⟩ := entryLoop_entries f K base size cs withU hdrTotal hK hbs fuel _ _ _ rest total' hrec
      have hl2 : length + cs ≤ length2 := by
        cases hw : withU with
        | true => have := (hu.1 hw).1; omega
        | false => have := (hu.2 hw).1; omega
      refine ⟨by omega, fun fuel' hf' => ?_⟩
      cases fuel' with
      | zero => omega
      | succ k =>
        have hne : (seg f (base + length) (size - length)).isEmpty = false := by
          have : (seg f (base + length) (size - length)).length = size - length := by rw [seg_length]; omega
          cases hs : seg f (base + length) (size - length) with
          | nil => rw [hs] at this; simp at this; omega
          | cons x xs => rfl
        have hdgv : dg = seg f (base + length) cs := by
          have hr := rdSlice_ok _ _ _ _ hdg
          rw [hr.2]
          exact take_drop_take f _ _ _ (by have := guard_ok _ _ hg0; omega)
        have s1 := ci_seg f (base + length2) (K - (base + length2)) (size - length2) cl n1 (2^63) a1 a2 (by omega) (by omega) (by omega)
        have s2 := ci_seg f (base + length2 + n1) (K - (base + length2 + n1)) (size - length2 - n1) ln n2 (2^63) c1 c2 (by omega)
          (by omega) (by omega)
        have ihk := ih k (by omega)
        rw [show base + (length2 + n1 + n2) = base + length2 + n1 + n2 by omega,
          show size - (length2 + n1 + n2) = size - length2 - n1 - n2 by omega] at ihk
        unfold entries
        rw [hne]
        simp only [Bool.false_eq_true, ↓reduceIte, Option.bind_eq_bind]
        rw [takeN_seg f (base + length) (size - length) cs (by omega) (by omega)]
        simp only [Option.bind_some]
        cases hw : withU with
        | true =>
          obtain ⟨e1, e2⟩ := hu.1 hw
          rw [hw] at ihk
          simp only [↓reduceIte]
          rw [takeN_seg f (base + length + cs) (size - length - cs) cs (by omega) (by omega)]
          simp only [Option.map_some, Option.bind_some]
          rw [show base + length + cs + cs = base + length2 by omega, show size - length - cs - cs = size - length2 by omega, s1]
          simp only [Option.bind_some]
          rw [s2]
          simp only [Option.bind_some]
          rw [if_neg (by omega), ihk]
          simp [hdgv, e2]
        | false =>
          obtain ⟨e1, e2⟩ := hu.2 hw
          rw [hw] at ihk
          simp only [Bool.false_eq_true, ↓reduceIte]
          rw [show base + length + cs = base + length2 by omega, show size - length - cs = size - length2 by omega, s1]
          simp only [Option.bind_some]
          rw [s2]
          simp only [Option.bind_some]
          rw [if_neg (by omega), ihk]
          simp [hdgv, e2]


structure IdxSpec (f : Bytes) (L hl psz isz : Nat) (withU : Bool) (x : Idx) (cs n1 n2 : Nat) : Prop where
  fits : psz + isz ≤ hl
  c1 : ci (seg f (L + psz) isz) (2^31) = some (x.chunkHashType, seg f (L + psz + n1) (isz - n1))
  hcs : hsize x.chunkHashType = some cs
  c2 : ci (seg f (L + psz + n1) (isz - n1)) (2^64) = some (x.count, seg f (L + psz + n1 + n2) (isz - n1 - n2))
  ents : entries (isz - n1 - n2) cs withU (seg f (L + psz + n1 + n2) (isz - n1 - n2)) 0 0 = some x.chunks
  cnt : x.count = x.chunks.length ∧ x.chunks.length ≠ 0

theorem readIndex_spec (f : Bytes) (l : Lead) (p : Pre) (x : Idx) (hK : l.leadSize + l.headerLen ≤ f.length)
    (h : readIndex (f.take (l.leadSize + l.headerLen)) l p = .ok x) :
    ∃ cs n1 n2, IdxSpec f l.leadSize l.headerLen p.prefaceSize p.indexSize (decide (p.flags / 4 % 2 = 1)) x cs n1 n2 := by
  unfold readIndex at h
  simp only [bind_eq_ok] at h
  obtain ⟨_, hg0, ⟨cht, n1⟩, hd1, cs, hcs, ⟨cnt, n2⟩, hd2, ⟨chunks, endLen, total⟩, hloop, _, hg1, _, hg2, hfin⟩ := h
  simp only [pure_eq, Res.ok.injEq] at hfin
  subst hfin
  simp only at hd1 hd2 hloop hg1 hg2 hcs ⊢
  have hfit := guard_ok _ _ hg0
  have hend := guard_ok _ _ hg1
  have hcnt := guard_ok _ _ hg2
  subst hend
  generalize hL : l.leadSize = L at *
  generalize hhl : l.headerLen = hl at *
  generalize hps : p.prefaceSize = psz at *
  generalize his : p.indexSize = isz at *
  obtain ⟨hle, hents⟩ := entryLoop_entries f (L + hl) (L + psz) isz cs _ (L + hl) hK (by omega) _ _ _ _ chunks total hloop
  obtain ⟨a1, a2, a3, a4, a5⟩ := decInt_seg f (L + hl) (L + psz) (L + hl) cht n1 hK (Nat.le_refl _) hd1
  obtain ⟨c1, c2, c3, c4, c5⟩ := decSize_seg f (L + hl) (L + psz + n1) (L + hl) cnt n2 hK (Nat.le_refl _) hd2
  have s1 := ci_seg f (L + psz) (L + hl - (L + psz)) isz cht n1 (2^31) a1 a2 a3 (by omega) (by omega)
  have s2 := ci_seg f (L + psz + n1) (L + hl - (L + psz + n1)) (isz - n1) cnt n2 (2^64) c1 c2 c3 (by omega) (by omega)
  have hcsz : hsize cht = some cs := by
    unfold hsizeRes at hcs
    cases hh : hsize cht with
    | none => rw [hh] at hcs; cases hcs
    | some d => rw [hh] at hcs; simp only [Res.ok.injEq] at hcs; rw [hcs]
  refine ⟨cs, n1, n2, by omega, s1, hcsz, s2, ?_, hcnt⟩
  have := hents (isz - n1 - n2) (by omega)
  rw [show L + psz + (n1 + n2) = L + psz + n1 + n2 by omega, show isz - (n1 + n2) = isz - n1 - n2 by omega] at this
  exact this

theorem readSig_spec (f : Bytes) (l : Lead) (p : Pre) (hK : l.leadSize + l.headerLen ≤ f.length)
    (hfit : p.prefaceSize + p.indexSize ≤ l.headerLen)
    (h : readSig (f.take (l.leadSize + l.headerLen)) l p = .ok ()) :
    ∃ rest, ci (seg f (l.leadSize + p.prefaceSize + p.indexSize) (l.headerLen - p.prefaceSize - p.indexSize)) (2^31) = some (0, rest) := by
  unfold readSig at h
  simp only [bind_eq_ok] at h
  obtain ⟨⟨sc, n⟩, hd, hg⟩ := h
  simp only at hg
  have h0 := guard_ok _ _ hg
  subst h0
  obtain ⟨a1, a2, a3, a4, a5⟩ := decInt_seg f _ _ _ 0 n hK (Nat.le_refl _) hd
  rw [show l.leadSize + l.headerLen - (l.leadSize + p.prefaceSize + p.indexSize) = l.headerLen - p.prefaceSize - p.indexSize by omega] at a1
  exact ⟨_, ci_seg f _ _ _ 0 n (2^31) a1 a2 a3 (by omega) (by omega)⟩


theorem run_last_sum : ∀ (cs : List Chunk) (num s : Nat), C13.RunFrom num s cs →
    (match cs.getLast? with | some c => c.start + c.compLen | none => s) = s + C13.sumLen cs
  | [], _, _, _ => by simp [C13.sumLen]
  | [c], _, _, hr => by simp [C13.sumLen, hr.2.1]
  | c :: d :: rest, num, s, hr => by
    have ih := run_last_sum (d :: rest) (num + 1) (s + c.compLen) hr.2.2
    rw [List.getLast?_cons_cons]
    simp only [C13.sumLen] at ih ⊢
    cases hg : (d :: rest).getLast? with
    | none => simp at hg
    | some z => rw [hg] at ih; simp only at ih ⊢; omega

theorem magic_ne : magicFile ≠ magicDet := by decide

set_option linter.unusedSimpArgs false in
/-- **C13 (report = reference parser).**  Whatever the model of `zck_init_read` accepts, the independent reference parser accepts
too, with exactly the same report: flags, checksum types, lead / header / data lengths, header and data checksums, chunk
count and every chunk's number, checksums, stored size, uncompressed size and start offset. -/
theorem openFile_parse (H : Format.HashFn) (f : Bytes) (h : Hdr) (hsmall : f.length < 2^63)
    (hok : openFile H f = .ok h) : parse H f = some h := by
  unfold openFile at hok
  simp only [bind_eq_ok] at hok
  obtain ⟨l, hl, hrh⟩ := hok
  unfold readHeader at hrh
  simp only [bind_eq_ok] at hrh
  obtain ⟨hb, hhb, p, hp, x, hx, u, hsig, hfin⟩ := hrh
  simp only [pure_eq, Res.ok.injEq] at hfin
  subst hfin
  obtain ⟨n1, n2, LS⟩ := readLead_spec f l hl
  obtain ⟨hhbeq, hK, hhl0, hsum⟩ := rhff_spec H f l hb hhb
  subst hhbeq
  obtain ⟨m1, m2, len4, m4, PS⟩ := readPreface_spec f l p hK hp
  obtain ⟨cs, k1, k2, IS⟩ := readIndex_spec f l p x hK hx
  obtain ⟨srest, hsc⟩ := readSig_spec f l p hK IS.fits (by cases u; exact hsig)
  obtain ⟨_, _, hrun, hxlen, hbound, _⟩ := C13.readIndex_sound _ l p x hx (by omega)
  -- the reference parser, step by step
  have hloc : l.digestLoc = 5 + n1 + n2 := LS.loc
  have hlead : l.leadSize = 5 + n1 + n2 + l.ds := by rw [LS.lead, hloc]
  have hleadLe := LS.leadLe
  have b1 := LS.b1
  have b2 := LS.b2
  have e0 : takeN f 5 = some (f.take 5, f.drop 5) := by unfold takeN; rw [if_pos (by have := LS.len25; omega)]
  have e1 : ci (f.drop 5) (2^31) = some (l.hashType, seg f (5 + n1) (f.length - 5 - n1)) := by
    rw [drop_eq_seg]
    exact ci_seg f 5 20 (f.length - 5) _ n1 (2^31) LS.v1 b1.1 b1.2.1 (by omega) (by have := LS.len25; omega)
  have e2 : ci (seg f (5 + n1) (f.length - 5 - n1)) (2^64) = some (l.headerLen, seg f (5 + n1 + n2) (f.length - 5 - n1 - n2)) :=
    ci_seg f (5 + n1) (20 - n1) (f.length - 5 - n1) _ n2 (2^64) LS.v2 b2.1 b2.2.1 (by omega) (by have := LS.len25; omega)
  have e3 : f.length - (seg f (5 + n1 + n2) (f.length - 5 - n1 - n2)).length = 5 + n1 + n2 := by
    rw [seg_length]; have := LS.len25; omega
  have e4 : takeN (seg f (5 + n1 + n2) (f.length - 5 - n1 - n2)) l.ds =
      some (seg f (5 + n1 + n2) l.ds, seg f (5 + n1 + n2 + l.ds) (f.length - 5 - n1 - n2 - l.ds)) :=
    takeN_seg f _ _ _ (by omega) (by omega)
  have e5 : takeN (seg f (5 + n1 + n2 + l.ds) (f.length - 5 - n1 - n2 - l.ds)) l.headerLen =
      some (seg f l.leadSize l.headerLen, seg f (l.leadSize + l.headerLen) (f.length - 5 - n1 - n2 - l.ds - l.headerLen)) := by
    rw [← hlead]
    exact takeN_seg f _ _ _ (by omega) (by omega)
  have e6 : H l.hashType (magicFile ++ (f.take (5 + n1 + n2)).drop 5 ++ seg f l.leadSize l.headerLen) = some l.digest := by
    rw [← hloc]; exact hsum
  have e7 : takeN (seg f l.leadSize l.headerLen) l.ds = some (seg f l.leadSize l.ds, seg f (l.leadSize + l.ds) (l.headerLen - l.ds)) :=
    takeN_seg f _ _ _ PS.hds hK
  have e8 : takeN (seg f (l.leadSize + len4 + m4) (l.headerLen - len4 - m4)) p.indexSize =
      some (seg f (l.leadSize + p.prefaceSize) p.indexSize,
        seg f (l.leadSize + p.prefaceSize + p.indexSize) (l.headerLen - p.prefaceSize - p.indexSize)) := by
    have := PS.psz
    rw [show l.leadSize + len4 + m4 = l.leadSize + p.prefaceSize by omega, show l.headerLen - len4 - m4 = l.headerLen - p.prefaceSize by omega]
    have hf := IS.fits
    rw [takeN_seg f _ _ _ (by omega) (by omega)]
  -- the optional elements, as separate facts
  have hoptF : (p.flags / 2 % 2 = 1 → ∃ cnt q, ci (seg f (l.leadSize + l.ds + m1 + m2) (l.headerLen - l.ds - m1 - m2)) (2^64) = some (cnt, q) ∧
        ¬ cnt > (seg f (l.leadSize + l.ds + m1 + m2) (l.headerLen - l.ds - m1 - m2)).length ∧
        skipOpt cnt q = some (seg f (l.leadSize + len4) (l.headerLen - len4))) ∧
      (¬ p.flags / 2 % 2 = 1 → seg f (l.leadSize + l.ds + m1 + m2) (l.headerLen - l.ds - m1 - m2) = seg f (l.leadSize + len4) (l.headerLen - len4)) := by
    have hopt := PS.opt
    unfold refOpt at hopt
    constructor
    · intro hf
      rw [if_pos hf] at hopt
      simp only [Option.bind_eq_bind] at hopt
      cases hci : ci (seg f (l.leadSize + l.ds + m1 + m2) (l.headerLen - l.ds - m1 - m2)) (2^64) with
      | none => rw [hci] at hopt; cases hopt
      | some pr =>
        obtain ⟨cnt, q⟩ := pr
        rw [hci] at hopt
        simp only [Option.bind_some] at hopt
        by_cases hgt : cnt > (seg f (l.leadSize + l.ds + m1 + m2) (l.headerLen - l.ds - m1 - m2)).length
        · rw [if_pos hgt] at hopt; cases hopt
        · rw [if_neg hgt] at hopt
          exact ⟨cnt, q, rfl, hgt, hopt⟩
    · intro hf
      rw [if_neg hf] at hopt
      exact Option.some.inj hopt
  have hfl : (seg f (l.leadSize + p.prefaceSize + k1 + k2) (p.indexSize - k1 - k2)).length = p.indexSize - k1 - k2 := by
    rw [seg_length]; have := IS.fits; omega
  have hdl := run_last_sum x.chunks 0 0 hrun
  simp only [Nat.zero_add] at hdl
  have hfl2 := PS.fl
  have hctv := PS.ctv
  have hcnt := IS.cnt
  unfold parse
  simp only [Option.bind_eq_bind]
  rw [e0]
  simp only [Option.bind_some]
  rcases LS.magic with hm | hm
  all_goals first
    | rw [if_pos (by rw [hm]; rfl)]
    | rw [if_neg (by rw [hm]; decide), if_pos (by rw [hm]; rfl)]
  all_goals
    rw [e1]
    simp only [Option.bind_some]
    rw [LS.ds]
    simp only [Option.bind_some]
    rw [e2]
    simp only [Option.bind_some]
    rw [e3, e4]
    simp only [Option.bind_some]
    rw [e5]
    simp only [Option.bind_some]
    rw [e6]
    simp only [Option.bind_some]
    rw [LS.dg, hloc]
    simp only [bne_self_eq_false, Bool.false_eq_true, ↓reduceIte]
    rw [e7]
    simp only [Option.bind_some]
    rw [PS.cf]
    simp only [Option.bind_some]
    rw [if_neg (by omega)]
    rw [PS.cc]
    simp only [Option.bind_some]
    rw [if_neg (by omega)]
  all_goals
    by_cases hf : p.flags / 2 % 2 = 1
    · obtain ⟨cnt, q, hq1, hq2, hq3⟩ := hoptF.1 hf
      rw [if_pos hf, hq1]
      simp only [Option.bind_some]
      rw [if_neg hq2, hq3]
      simp only [Option.bind_some]
      rw [PS.ci4]
      simp only [Option.bind_some]
      rw [e8]
      simp only [Option.bind_some]
      rw [IS.c1]
      simp only [Option.bind_some]
      rw [IS.hcs]
      simp only [Option.bind_some]
      rw [IS.c2]
      simp only [Option.bind_some]
      rw [hfl, IS.ents]
      simp only [Option.bind_some]
      rw [if_neg (by omega)]
      rw [hsc]
      simp only [Option.bind_some]
      rw [if_neg (by omega)]
      have hdl' := hdl
      generalize x.chunks.getLast? = gl at hdl' ⊢
      cases gl with
      | none =>
        simp only at hdl' ⊢
        have hxl : x.length = 0 := by omega
        rw [if_neg (by omega)]
        simp [info, LS.det, hm, magic_ne, magic_ne.symm, LS.dg, hloc, hlead, PS.dd, hxl]
      | some c =>
        simp only at hdl' ⊢
        have hxl : x.length = c.start + c.compLen := by omega
        rw [if_neg (by omega)]
        simp [info, LS.det, hm, magic_ne, magic_ne.symm, LS.dg, hloc, hlead, PS.dd, hxl]
    · rw [if_neg hf, hoptF.2 hf]
      rw [PS.ci4]
      simp only [Option.bind_some]
      rw [e8]
      simp only [Option.bind_some]
      rw [IS.c1]
      simp only [Option.bind_some]
      rw [IS.hcs]
      simp only [Option.bind_some]
      rw [IS.c2]
      simp only [Option.bind_some]
      rw [hfl, IS.ents]
      simp only [Option.bind_some]
      rw [if_neg (by omega)]
      rw [hsc]
      simp only [Option.bind_some]
      rw [if_neg (by omega)]
      have hdl' := hdl
      generalize x.chunks.getLast? = gl at hdl' ⊢
      cases gl with
      | none =>
        simp only at hdl' ⊢
        have hxl : x.length = 0 := by omega
        rw [if_neg (by omega)]
        simp [info, LS.det, hm, magic_ne, magic_ne.symm, LS.dg, hloc, hlead, PS.dd, hxl]
      | some c =>
        simp only at hdl' ⊢
        have hxl : x.length = c.start + c.compLen := by omega
        rw [if_neg (by omega)]
        simp [info, LS.det, hm, magic_ne, magic_ne.symm, LS.dg, hloc, hlead, PS.dd, hxl]


/-- a header that opens lies inside the file -/
theorem openFile_len (H : Format.HashFn) (f : Bytes) (h : Hdr) (hok : openFile H f = .ok h) : h.lead + h.headerLen ≤ f.length := by
  unfold openFile at hok
  simp only [bind_eq_ok] at hok
  obtain ⟨l, _, hrh⟩ := hok
  unfold readHeader at hrh
  simp only [bind_eq_ok] at hrh
  obtain ⟨hb, hhb, p, _, x, _, _, _, hfin⟩ := hrh
  simp only [pure_eq, Res.ok.injEq] at hfin
  subst hfin
  exact (rhff_spec H f l hb hhb).2.1

end Zck.C13P
