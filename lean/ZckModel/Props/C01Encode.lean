/-
C01 — what the writer serialises, the reader parses back (`header_create` → `zck_init_read`): `openFile_header`.

For every `Spec` whose fields fit their destinations (checksum types the library supports, digests of the declared sizes,
sizes and running sums below 2^63 together with the header, index size below 2^31), the model of the C parser opens the bytes
`Encode.header` produces, followed by any data section, and reports exactly the spec: same types, flags, checksums, the entries
in order with number = position and start offset = running sum of stored sizes.  The proof decodes every compressed integer
where the serialiser put it (`decSize_at`, from C20's `value_enc`), stage by stage as in `Props/C13Parse.lean`.
-/
import ZckModel.Encode
import ZckModel.Props.C13Parse

namespace Zck.EncP
open Zck Zck.Header Zck.Compint Zck.Res Zck.Format Zck.Encode Zck.C13P

/-! ### decoding an integer where the serialiser put it -/

theorem seg_at (f tail : Bytes) (pos q : Nat) (w : Bytes) (hd : f.drop pos = w ++ tail) (hq : w.length ≤ q) :
    seg f pos q = w ++ tail.take (q - w.length) := by
  unfold seg
  rw [hd, List.take_append]
  rw [List.take_of_length_le hq]

theorem decSize_at (f tail : Bytes) (K pos lim v : Nat) (hK : K ≤ f.length) (hl : lim ≤ K)
    (hd : f.drop pos = enc v ++ tail) (hfit : pos + (enc v).length ≤ lim) (hv : v < 2^64) :
    decSize (f.take K) pos lim = .ok (v, (enc v).length) := by
  have hm : lim ≤ (f.take K).length := by simp; omega
  rw [C20.decSize_eq_spec _ _ _ hm, window_take f K pos lim hl, seg_at f tail pos (lim - pos) (enc v) hd (by omega)]
  unfold C20.specDec
  rw [C20.value_enc]
  simp only
  rw [if_pos ⟨C20.enc_len_le_ten v hv, hv⟩]

theorem decInt_at (f tail : Bytes) (K pos lim v : Nat) (hK : K ≤ f.length) (hl : lim ≤ K)
    (hd : f.drop pos = enc v ++ tail) (hfit : pos + (enc v).length ≤ lim) (hv : v < 2^31) :
    decInt (f.take K) pos lim = .ok (v, (enc v).length) := by
  have hm : lim ≤ (f.take K).length := by simp; omega
  rw [C20.decInt_eq_spec _ _ _ hm, window_take f K pos lim hl, seg_at f tail pos (lim - pos) (enc v) hd (by omega)]
  unfold C20.specDec
  rw [C20.value_enc]
  simp only
  rw [if_pos ⟨C20.enc_len_le_ten v (by omega), hv⟩]

theorem drop_append_left (a b : Bytes) : (a ++ b).drop a.length = b := by simp

theorem drop_at (a b : Bytes) (n : Nat) (hn : n = a.length) : (a ++ b).drop n = b := by subst hn; simp

theorem enc_pos (v : Nat) : 1 ≤ (enc v).length := C20.enc_len_pos v
theorem enc_le (v : Nat) (hv : v < 2^64) : (enc v).length ≤ 10 := C20.enc_len_le_ten v hv


theorem guard_true (c : Prop) [Decidable c] (h : c) : Header.guard c = .ok () := by unfold Header.guard; rw [if_pos h]

theorem hsizeRes_ok (t ds : Nat) (h : hsize t = some ds) : hsizeRes t = .ok ds := by unfold hsizeRes; rw [h]

/-- `read_lead` on what `lead_create` wrote -/
theorem readLead_enc (ht hlen ds : Nat) (rest : Bytes) (hds : hsize ht = some ds) (hht : ht < 2^31) (hhl : hlen < 2^64)
    (hrest : ds ≤ rest.length) (h25 : 25 ≤ (magicFile ++ enc ht ++ enc hlen ++ rest).length) :
    readLead {} (magicFile ++ enc ht ++ enc hlen ++ rest) =
      .ok ⟨false, ht, ds, hlen, 5 + (enc ht).length + (enc hlen).length, 5 + (enc ht).length + (enc hlen).length + ds,
        (if 25 < 5 + (enc ht).length + (enc hlen).length + ds then 5 + (enc ht).length + (enc hlen).length + ds else 25),
        rest.take ds⟩ := by
  generalize hf : magicFile ++ enc ht ++ enc hlen ++ rest = f at h25
  have hlen1 := enc_le ht (by omega)
  have hlen2 := enc_le hlen hhl
  have hfl : f.length = 5 + (enc ht).length + (enc hlen).length + rest.length := by
    rw [← hf]; simp [magicFile]; omega
  have hd5 : f.drop 5 = enc ht ++ (enc hlen ++ rest) := by
    rw [← hf]; simp only [List.append_assoc]; exact drop_at magicFile _ 5 (by simp [magicFile])
  have hd6 : f.drop (5 + (enc ht).length) = enc hlen ++ rest := by
    rw [← List.drop_drop, hd5]; exact drop_append_left _ _
  have hd7 : f.drop (5 + (enc ht).length + (enc hlen).length) = rest := by
    rw [← List.drop_drop, hd6]; exact drop_append_left _ _
  have hmag : (f.take leadRead).take 5 = magicFile := by
    rw [leadRead_eq, List.take_take, ← hf]
    simp [magicFile]
  unfold readLead
  rw [leadRead_eq] at hmag ⊢
  rw [guard_true _ h25]
  simp only [bind_ok]
  rw [hmag, guard_true _ (Or.inl rfl)]
  simp only [bind_ok]
  rw [decInt_at f _ 25 5 25 ht h25 (Nat.le_refl _) hd5 (by omega) hht]
  simp only [bind_ok]
  rw [guard_true _ (Or.inl trivial), hsizeRes_ok ht ds hds]
  simp only [bind_ok]
  rw [decSize_at f _ 25 (5 + (enc ht).length) 25 hlen h25 (Nat.le_refl _) hd6 (by omega) hhl]
  simp only [bind_ok]
  rw [guard_true _ (by omega)]
  simp only [bind_ok]
  have hrd : rdSlice (f.take (if 25 < 5 + (enc ht).length + (enc hlen).length + ds then 5 + (enc ht).length + (enc hlen).length + ds else 25))
      (5 + (enc ht).length + (enc hlen).length) ds = .ok (rest.take ds) := by
    unfold rdSlice
    rw [if_pos (by simp only [List.length_take]; split <;> omega)]
    rw [take_drop_take f _ _ _ (by split <;> omega), hd7]
  rw [hrd]
  simp only [bind_ok]
  rw [guard_true _ (Or.inl trivial)]
  simp only [bind_ok]
  rw [guard_true _ (Or.inl trivial)]
  simp [magicFile, magicDet]


/-- `read_preface` on what `preface_create` wrote (`P` = the lead, `tail` = index, signatures, data) -/
theorem readPreface_enc (P dd tail : Bytes) (l : Lead) (flags ct isz : Nat)
    (hL : l.leadSize = P.length) (hdd : dd.length = l.ds)
    (hflags : flags = 0 ∨ flags = 4) (hct : ct = 0 ∨ ct = 2) (hisz : isz < 2^31)
    (hK : l.leadSize + l.headerLen ≤ (P ++ dd ++ enc flags ++ enc ct ++ enc isz ++ tail).length)
    (hfit : l.ds + (enc flags).length + (enc ct).length + (enc isz).length ≤ l.headerLen) :
    readPreface ((P ++ dd ++ enc flags ++ enc ct ++ enc isz ++ tail).take (l.leadSize + l.headerLen)) l =
      .ok ⟨dd, flags, ct, isz, l.ds + (enc flags).length + (enc ct).length + (enc isz).length⟩ := by
  generalize hf : P ++ dd ++ enc flags ++ enc ct ++ enc isz ++ tail = f at hK
  have hd0 : f.drop l.leadSize = dd ++ (enc flags ++ (enc ct ++ (enc isz ++ tail))) := by
    rw [← hf]; simp only [List.append_assoc]; exact drop_at P _ _ hL
  have hd1 : f.drop (l.leadSize + l.ds) = enc flags ++ (enc ct ++ (enc isz ++ tail)) := by
    rw [← List.drop_drop, hd0]; exact drop_at dd _ _ hdd.symm
  have hd2 : f.drop (l.leadSize + l.ds + (enc flags).length) = enc ct ++ (enc isz ++ tail) := by
    rw [← List.drop_drop, hd1]; exact drop_append_left _ _
  have hd3 : f.drop (l.leadSize + (l.ds + (enc flags).length + (enc ct).length)) = enc isz ++ tail := by
    rw [show l.leadSize + (l.ds + (enc flags).length + (enc ct).length) = l.leadSize + l.ds + (enc flags).length + (enc ct).length by omega,
      ← List.drop_drop, hd2]; exact drop_append_left _ _
  have hfl : flags < 2^64 := by rcases hflags with h | h <;> subst h <;> decide
  have hctl : ct < 2^31 := by rcases hct with h | h <;> subst h <;> decide
  unfold readPreface
  simp only
  rw [guard_true _ (by omega)]
  simp only [bind_ok]
  have hrd : rdSlice (f.take (l.leadSize + l.headerLen)) l.leadSize l.ds = .ok dd := by
    unfold rdSlice
    rw [if_pos (by simp only [List.length_take]; omega), take_drop_take f _ _ _ (by omega), hd0, ← hdd]
    simp
  rw [hrd]
  simp only [bind_ok]
  rw [decSize_at f _ _ (l.leadSize + l.ds) _ flags hK (Nat.le_refl _) hd1 (by omega) hfl]
  simp only [bind_ok]
  rw [guard_true _ (by rcases hflags with h | h <;> subst h <;> decide)]
  simp only [bind_ok]
  rw [decInt_at f _ _ (l.leadSize + l.ds + (enc flags).length) _ ct hK (Nat.le_refl _) hd2 (by omega) hctl]
  simp only [bind_ok]
  rw [guard_true _ hct]
  simp only [bind_ok]
  have hopt : optPart (f.take (l.leadSize + l.headerLen)) l.leadSize l.headerLen flags (l.ds + (enc flags).length + (enc ct).length) =
      .ok (l.ds + (enc flags).length + (enc ct).length) := by
    unfold optPart
    rw [if_neg (by rcases hflags with h | h <;> subst h <;> decide)]
    rfl
  rw [hopt]
  simp only [bind_ok]
  rw [decInt_at f _ _ (l.leadSize + (l.ds + (enc flags).length + (enc ct).length)) _ isz hK (Nat.le_refl _) hd3 (by omega) hisz]
  simp only [bind_ok]
  rfl

/-- `read_sig` on what `sig_create` wrote -/
theorem readSig_enc (f tail : Bytes) (l : Lead) (p : Pre) (hK : l.leadSize + l.headerLen ≤ f.length)
    (hd : f.drop (l.leadSize + p.prefaceSize + p.indexSize) = enc 0 ++ tail)
    (hfit : p.prefaceSize + p.indexSize + (enc 0).length ≤ l.headerLen) :
    readSig (f.take (l.leadSize + l.headerLen)) l p = .ok () := by
  unfold readSig
  simp only
  rw [decInt_at f tail _ _ _ 0 hK (Nat.le_refl _) hd (by omega) (by decide)]
  simp only [bind_ok]
  exact guard_true _ (by trivial)

/-- the entries as a reader numbers them: position in the index, start = running sum of stored sizes -/
def renum (u : Bool) : Nat → Nat → List Chunk → List Chunk
  | _, _, [] => []
  | n, s, c :: cs => ⟨n, c.digest, if u then c.udigest else none, c.compLen, c.len, s⟩ :: renum u (n + 1) (s + c.compLen) cs

/-- every field of the entries fits where the reader puts it -/
def EntFits (u : Bool) (cs hdrTotal : Nat) : Nat → List Chunk → Prop
  | _, [] => True
  | idxLoc, c :: rest =>
    c.digest.length = cs ∧ (u = true → ∃ ud, c.udigest = some ud ∧ ud.length = cs) ∧
    c.compLen ≤ 2^63 - 1 - idxLoc ∧ idxLoc + c.compLen ≤ 2^63 - 1 - hdrTotal ∧ c.len ≤ 2^63 - 1 ∧
    EntFits u cs hdrTotal (idxLoc + c.compLen) rest

theorem encEntry_length (u : Bool) (cs : Nat) (c : Chunk) (hd : c.digest.length = cs)
    (hu : u = true → ∃ ud, c.udigest = some ud ∧ ud.length = cs) :
    (encEntry u c).length = cs + (if u then cs else 0) + (enc c.compLen).length + (enc c.len).length := by
  unfold encEntry
  cases u with
  | true =>
    obtain ⟨ud, h1, h2⟩ := hu rfl
    simp [h1, h2, hd]; omega
  | false => simp [hd]; omega

/-- the `while(length < size)` loop of `index_read` on what the loop of `index_create` wrote -/
theorem entryLoop_enc (f : Bytes) (K base size cs : Nat) (u : Bool) (hdrTotal : Nat) (hK : K ≤ f.length) (hbs : base + size ≤ K) :
    ∀ (ents : List Chunk) (fuel length count idxLoc : Nat) (tail : Bytes),
      f.drop (base + length) = encEntries u ents ++ tail → length + (encEntries u ents).length = size →
      ents.length ≤ fuel → EntFits u cs hdrTotal idxLoc ents →
      entryLoop (f.take K) base size K cs u hdrTotal fuel length count idxLoc =
        .ok (renum u count idxLoc ents, size, idxLoc + C13.sumLen ents)
  | [], fuel, length, count, idxLoc, tail, _, hsz, _, _ => by
    simp only [encEntries, List.length_nil, Nat.add_zero] at hsz
    subst hsz
    cases fuel <;> simp [entryLoop, renum, C13.sumLen]
  | c :: rest, 0, _, _, _, _, _, _, hf, _ => by simp at hf
  | c :: rest, fuel + 1, length, count, idxLoc, tail, hd, hsz, hf, hfits => by
    obtain ⟨hdg, hu, hcl1, hcl2, hln, hrestfits⟩ := hfits
    have hel := encEntry_length u cs c hdg hu
    have hp1 := enc_pos c.compLen
    have hp2 := enc_pos c.len
    have h10a := enc_le c.compLen (by omega)
    have h10b := enc_le c.len (by omega)
    simp only [encEntries, List.length_append] at hsz
    have hlt : length < size := by omega
    -- where the parts of the entry are
    have hd0 : f.drop (base + length) = c.digest ++ ((if u then c.udigest.getD [] else []) ++ (enc c.compLen ++ (enc c.len ++ (encEntries u rest ++ tail)))) := by
      rw [hd]; simp [encEntries, encEntry, List.append_assoc]
    unfold entryLoop
    rw [if_neg (by omega)]
    rw [guard_true _ (by omega)]
    simp only [bind_ok]
    have hrd : rdSlice (f.take K) (base + length) cs = .ok c.digest := by
      unfold rdSlice
      rw [if_pos (by simp only [List.length_take]; omega), take_drop_take f _ _ _ (by omega), hd0, ← hdg]
      simp
    rw [hrd]
    simp only [bind_ok]
    have hd1 : f.drop (base + length + cs) = (if u then c.udigest.getD [] else []) ++ (enc c.compLen ++ (enc c.len ++ (encEntries u rest ++ tail))) := by
      rw [← List.drop_drop, hd0]; exact drop_at c.digest _ _ hdg.symm
    cases hu' : u with
    | true =>
      obtain ⟨ud, hud1, hud2⟩ := hu hu'
      rw [hu'] at hel hd1 hsz
      simp only [↓reduceIte, hud1, Option.getD_some] at hd1 hel
      have hudp : udPart (f.take K) base K cs true (length + cs) = .ok (some ud, length + cs + cs) := by
        unfold udPart
        simp only [↓reduceIte]
        rw [guard_true _ (by omega)]
        simp only [bind_ok]
        have : rdSlice (f.take K) (base + (length + cs)) cs = .ok ud := by
          unfold rdSlice
          rw [if_pos (by simp only [List.length_take]; omega), take_drop_take f _ _ _ (by omega),
            show base + (length + cs) = base + length + cs by omega, hd1, ← hud2]
          simp
        rw [this]
        rfl
      rw [hudp]
      simp only [bind_ok]
      have hd2 : f.drop (base + (length + cs + cs)) = enc c.compLen ++ (enc c.len ++ (encEntries true rest ++ tail)) := by
        rw [show base + (length + cs + cs) = base + length + cs + cs by omega, ← List.drop_drop, hd1]
        exact drop_at ud _ _ hud2.symm
      rw [decSize_at f _ K _ K c.compLen hK (Nat.le_refl _) hd2 (by omega) (by omega)]
      simp only [bind_ok]
      rw [guard_true _ ⟨hcl1, hcl2⟩]
      simp only [bind_ok]
      have hd3 : f.drop (base + (length + cs + cs) + (enc c.compLen).length) = enc c.len ++ (encEntries true rest ++ tail) := by
        rw [← List.drop_drop, hd2]; exact drop_append_left _ _
      rw [decSize_at f _ K _ K c.len hK (Nat.le_refl _) hd3 (by omega) (by omega)]
      simp only [bind_ok]
      rw [guard_true _ hln]
      simp only [bind_ok]
      have hd4 : f.drop (base + (length + cs + cs + (enc c.compLen).length + (enc c.len).length)) = encEntries true rest ++ tail := by
        rw [show base + (length + cs + cs + (enc c.compLen).length + (enc c.len).length) =
          base + (length + cs + cs) + (enc c.compLen).length + (enc c.len).length by omega, ← List.drop_drop, hd3]
        exact drop_append_left _ _
      rw [hu'] at hrestfits
      rw [entryLoop_enc f K base size cs true hdrTotal hK hbs rest fuel _ (count + 1) (idxLoc + c.compLen) tail hd4 (by omega)
        (by simp at hf; omega) hrestfits]
      simp [renum, C13.sumLen, hud1, Nat.add_assoc]
    | false =>
      rw [hu'] at hel hd1 hsz
      simp only [Bool.false_eq_true, ↓reduceIte, List.nil_append] at hd1 hel
      have hudp : udPart (f.take K) base K cs false (length + cs) = .ok (none, length + cs) := by
        unfold udPart; rfl
      rw [hudp]
      simp only [bind_ok]
      have hd2 : f.drop (base + (length + cs)) = enc c.compLen ++ (enc c.len ++ (encEntries false rest ++ tail)) := by
        rw [show base + (length + cs) = base + length + cs by omega, hd1]
      rw [decSize_at f _ K _ K c.compLen hK (Nat.le_refl _) hd2 (by omega) (by omega)]
      simp only [bind_ok]
      rw [guard_true _ ⟨hcl1, hcl2⟩]
      simp only [bind_ok]
      have hd3 : f.drop (base + (length + cs) + (enc c.compLen).length) = enc c.len ++ (encEntries false rest ++ tail) := by
        rw [← List.drop_drop, hd2]; exact drop_append_left _ _
      rw [decSize_at f _ K _ K c.len hK (Nat.le_refl _) hd3 (by omega) (by omega)]
      simp only [bind_ok]
      rw [guard_true _ hln]
      simp only [bind_ok]
      have hd4 : f.drop (base + (length + cs + (enc c.compLen).length + (enc c.len).length)) = encEntries false rest ++ tail := by
        rw [show base + (length + cs + (enc c.compLen).length + (enc c.len).length) =
          base + (length + cs) + (enc c.compLen).length + (enc c.len).length by omega, ← List.drop_drop, hd3]
        exact drop_append_left _ _
      rw [hu'] at hrestfits
      rw [entryLoop_enc f K base size cs false hdrTotal hK hbs rest fuel _ (count + 1) (idxLoc + c.compLen) tail hd4 (by omega)
        (by simp at hf; omega) hrestfits]
      simp [renum, C13.sumLen, Nat.add_assoc]


theorem renum_length (u : Bool) : ∀ (n st : Nat) (cs : List Chunk), (renum u n st cs).length = cs.length
  | _, _, [] => rfl
  | n, st, c :: cs => by simp [renum, renum_length u (n + 1) (st + c.compLen) cs]

theorem encEntries_len_ge (u : Bool) : ∀ cs : List Chunk, cs.length ≤ (encEntries u cs).length
  | [] => by simp [encEntries]
  | c :: cs => by
    have := encEntries_len_ge u cs
    have := enc_pos c.len
    simp only [encEntries, encEntry, List.length_append, List.length_cons]
    omega

/-- `read_index` / `index_read` on what `index_create` wrote -/
theorem readIndex_enc (f tail : Bytes) (l : Lead) (p : Pre) (s : Spec) (cs : Nat)
    (hK : l.leadSize + l.headerLen ≤ f.length)
    (hd : f.drop (l.leadSize + p.prefaceSize) = encIndex s ++ tail)
    (hisz : p.indexSize = (encIndex s).length) (hfl : p.flags = s.flags)
    (hfit : p.prefaceSize + p.indexSize ≤ l.headerLen)
    (hcs : hsize s.chunkHashType = some cs) (hcht : s.chunkHashType < 2^31) (hcnt : s.chunks.length < 2^64)
    (hne : s.chunks ≠ [])
    (hents : EntFits (withU s) cs (l.leadSize + l.headerLen) 0 s.chunks) :
    readIndex (f.take (l.leadSize + l.headerLen)) l p =
      .ok ⟨s.chunkHashType, s.chunks.length, renum (withU s) 0 0 s.chunks, C13.sumLen s.chunks⟩ := by
  have h10a := enc_le s.chunkHashType (by omega)
  have h10b := enc_le s.chunks.length hcnt
  have hilen : (encIndex s).length = (enc s.chunkHashType).length + (enc s.chunks.length).length + (encEntries (withU s) s.chunks).length := by
    simp [encIndex]; omega
  have hd0 : f.drop (l.leadSize + p.prefaceSize) = enc s.chunkHashType ++ (enc s.chunks.length ++ (encEntries (withU s) s.chunks ++ tail)) := by
    rw [hd]; simp [encIndex, List.append_assoc]
  have hd1 : f.drop (l.leadSize + p.prefaceSize + (enc s.chunkHashType).length) = enc s.chunks.length ++ (encEntries (withU s) s.chunks ++ tail) := by
    rw [← List.drop_drop, hd0]; exact drop_append_left _ _
  have hd2 : f.drop (l.leadSize + p.prefaceSize + ((enc s.chunkHashType).length + (enc s.chunks.length).length)) =
      encEntries (withU s) s.chunks ++ tail := by
    rw [show l.leadSize + p.prefaceSize + ((enc s.chunkHashType).length + (enc s.chunks.length).length) =
      l.leadSize + p.prefaceSize + (enc s.chunkHashType).length + (enc s.chunks.length).length by omega, ← List.drop_drop, hd1]
    exact drop_append_left _ _
  unfold readIndex
  simp only
  rw [guard_true _ (by omega)]
  simp only [bind_ok]
  rw [decInt_at f _ _ _ _ s.chunkHashType hK (Nat.le_refl _) hd0 (by omega) hcht]
  simp only [bind_ok]
  rw [hsizeRes_ok _ _ hcs]
  simp only [bind_ok]
  rw [decSize_at f _ _ _ _ s.chunks.length hK (Nat.le_refl _) hd1 (by omega) hcnt]
  simp only [bind_ok]
  have hwu : decide (p.flags / 4 % 2 = 1) = withU s := by unfold withU; rw [hfl]
  rw [hwu]
  rw [entryLoop_enc f (l.leadSize + l.headerLen) (l.leadSize + p.prefaceSize) p.indexSize cs (withU s) (l.leadSize + l.headerLen) hK
    (by omega) s.chunks p.indexSize _ 0 0 tail hd2 (by omega) (by have := encEntries_len_ge (withU s) s.chunks; omega) hents]
  simp only [bind_ok]
  rw [guard_true _ trivial]
  simp only [bind_ok]
  rw [guard_true _ ⟨(renum_length _ _ _ _).symm, by
    rw [renum_length]; intro h0; exact hne (List.eq_nil_of_length_eq_zero h0)⟩]
  simp


/-- every field of the spec fits its destination -/
structure Fits (s : Spec) (ds cs : Nat) : Prop where
  hds : hsize s.hashType = some ds
  hcs : hsize s.chunkHashType = some cs
  hdd : s.dataDigest.length = ds
  hflags : s.flags = 0 ∨ s.flags = 4
  hct : s.compType = 0 ∨ s.compType = 2
  hne : s.chunks ≠ []
  hisz : (encIndex s).length < 2^31
  hents : EntFits (withU s) cs ((encLead0 s).length + ds + (encBody s).length) 0 s.chunks

/-- what a reader reports for the bytes `header_create` wrote -/
def hdrOf (s : Spec) (ds : Nat) (dg : Bytes) : Hdr :=
  ⟨false, s.hashType, s.chunkHashType, s.flags, s.compType, (encLead0 s).length + ds, (encBody s).length, dg, s.dataDigest,
   s.chunks.length, renum (withU s) 0 0 s.chunks, C13.sumLen s.chunks⟩

theorem hsize_bounds (t d : Nat) (h : hsize t = some d) : t < 4 ∧ 16 ≤ d ∧ d ≤ 64 := by
  unfold hsize at h
  split at h <;> simp at h <;> omega

/-- **C01 (header round trip).**  The model of `zck_init_read` opens what `header_create` wrote — followed by any data section — and
reports exactly what was serialised: types, flags, checksums, and the entries in order, numbered by position, with start offsets
the running sums of the stored sizes. -/
theorem openFile_header (H : Format.HashFn) (s : Spec) (ds cs : Nat) (dg data : Bytes) (hf : Fits s ds cs)
    (hH : H s.hashType (encLead0 s ++ encBody s) = some dg) (hdg : dg.length = ds) :
    openFile H (encLead0 s ++ dg ++ encBody s ++ data) = .ok (hdrOf s ds dg) := by
  obtain ⟨hds, hcs, hdd, hflags, hct, hne, hisz, hents⟩ := hf
  obtain ⟨ht4, hd16, hd64⟩ := hsize_bounds _ _ hds
  obtain ⟨hc4, _, _⟩ := hsize_bounds _ _ hcs
  have hfl10 := enc_le s.flags (by rcases hflags with h | h <;> rw [h] <;> decide)
  have hct10 := enc_le s.compType (by rcases hct with h | h <;> rw [h] <;> decide)
  have his10 := enc_le (encIndex s).length (by omega)
  have hz10 := enc_le 0 (by decide)
  have hzp := enc_pos 0
  have hflp := enc_pos s.flags
  have hctp := enc_pos s.compType
  have hisp := enc_pos (encIndex s).length
  have hpre : (encPreface s (encIndex s).length).length =
      ds + (enc s.flags).length + (enc s.compType).length + (enc (encIndex s).length).length := by
    simp [encPreface, hdd]; omega
  have hbody : (encBody s).length = (encPreface s (encIndex s).length).length + (encIndex s).length + (enc 0).length := by
    simp [encBody]; omega
  have hbl : (encBody s).length < 2^64 := by omega
  have hht10 := enc_le s.hashType (by omega)
  have hbl10 := enc_le (encBody s).length hbl
  have hl0 : (encLead0 s).length = 5 + (enc s.hashType).length + (enc (encBody s).length).length := by
    simp [encLead0, magicFile]; omega
  have hcnt : s.chunks.length < 2^64 := by
    have := encEntries_len_ge (withU s) s.chunks
    have : (encEntries (withU s) s.chunks).length ≤ (encIndex s).length := by simp [encIndex]; omega
    omega
  have hcne : 1 ≤ s.chunks.length := by
    cases hc : s.chunks with
    | nil => exact absurd hc hne
    | cons x xs => simp
  have hidx2 : 2 ≤ (encIndex s).length := by
    have := enc_pos s.chunkHashType
    have := enc_pos s.chunks.length
    simp [encIndex]; omega
  -- the file as the lead reader sees it
  generalize hfdef : encLead0 s ++ dg ++ encBody s ++ data = f
  have e1 : f = magicFile ++ enc s.hashType ++ enc (encBody s).length ++ (dg ++ encBody s ++ data) := by
    rw [← hfdef]; simp [encLead0, List.append_assoc]
  have hflen : f.length = (encLead0 s).length + ds + (encBody s).length + data.length := by
    rw [← hfdef]; simp [hdg]; omega
  have h25 : 25 ≤ f.length := by omega
  unfold openFile
  rw [e1, readLead_enc s.hashType (encBody s).length ds _ hds (by omega) hbl (by simp [hdg]) (by rw [← e1]; exact h25)]
  simp only [bind_ok]
  rw [← e1]
  generalize hl : (⟨false, s.hashType, ds, (encBody s).length, 5 + (enc s.hashType).length + (enc (encBody s).length).length,
    5 + (enc s.hashType).length + (enc (encBody s).length).length + ds,
    (if 25 < 5 + (enc s.hashType).length + (enc (encBody s).length).length + ds then
      5 + (enc s.hashType).length + (enc (encBody s).length).length + ds else 25),
    (dg ++ encBody s ++ data).take ds⟩ : Lead) = l
  have hlL : l.leadSize = (encLead0 s).length + ds := by rw [← hl, hl0]
  have hlH : l.headerLen = (encBody s).length := by rw [← hl]
  have hlds : l.ds = ds := by rw [← hl]
  have hlloc : l.digestLoc = (encLead0 s).length := by rw [← hl, hl0]
  have hlht : l.hashType = s.hashType := by rw [← hl]
  have hldg : l.digest = dg := by
    rw [← hl]
    simp only [List.append_assoc]
    rw [List.take_append_of_le_length (by omega), List.take_of_length_le (by omega)]
  have hlbuf : l.bufLen - l.leadSize ≤ l.headerLen := by
    rw [← hl]; simp only; split <;> omega
  have hldet : l.detached = false := by rw [← hl]
  have hK : l.leadSize + l.headerLen ≤ f.length := by omega
  -- the header checksum
  have hdin : digestInput f l = encLead0 s ++ encBody s := by
    unfold digestInput
    rw [hlloc, hlL, hlH, ← hfdef]
    have t1 : (encLead0 s ++ dg ++ encBody s ++ data).take (encLead0 s).length = encLead0 s := by
      simp only [List.append_assoc]; rw [List.take_left']; rfl
    have t2 : (encLead0 s ++ dg ++ encBody s ++ data).drop ((encLead0 s).length + ds) = encBody s ++ data := by
      rw [← List.drop_drop]
      simp only [List.append_assoc]
      rw [drop_append_left, drop_at dg _ _ hdg.symm]
    rw [t1, t2, List.take_left']
    · simp [encLead0, magicFile, List.append_assoc]
    · rfl
  unfold readHeader
  have hrh : readHeaderFromFile H f l = .ok (f.take (l.leadSize + l.headerLen)) := by
    unfold readHeaderFromFile
    rw [guard_true _ ⟨by omega, by omega⟩]
    simp only [bind_ok]
    rw [guard_true _ (by omega)]
    simp only [bind_ok]
    rw [guard_true _ hlbuf]
    simp only [bind_ok]
    rw [guard_true _ hK]
    simp only [bind_ok]
    rw [guard_true _ (by rw [hdin, hlht, hldg]; exact hH)]
    rfl
  rw [hrh]
  simp only [bind_ok]
  -- preface
  have e2 : f = (encLead0 s ++ dg) ++ s.dataDigest ++ enc s.flags ++ enc s.compType ++ enc (encIndex s).length ++
      (encIndex s ++ enc 0 ++ data) := by
    rw [← hfdef]; simp [encBody, encPreface, List.append_assoc]
  have hpf := readPreface_enc (encLead0 s ++ dg) s.dataDigest (encIndex s ++ enc 0 ++ data) l s.flags s.compType (encIndex s).length
    (by rw [hlL]; simp [hdg]) (by rw [hdd, hlds]) hflags hct hisz (by rw [← e2]; exact hK) (by rw [hlds, hlH]; omega)
  rw [← e2] at hpf
  rw [hpf]
  simp only [bind_ok]
  generalize hp : (⟨s.dataDigest, s.flags, s.compType, (encIndex s).length,
    l.ds + (enc s.flags).length + (enc s.compType).length + (enc (encIndex s).length).length⟩ : Pre) = p
  have hpsz : p.prefaceSize = (encPreface s (encIndex s).length).length := by rw [← hp, hpre, hlds]
  have hpis : p.indexSize = (encIndex s).length := by rw [← hp]
  have hpfl : p.flags = s.flags := by rw [← hp]
  -- index
  have hdi : f.drop (l.leadSize + p.prefaceSize) = encIndex s ++ (enc 0 ++ data) := by
    rw [hlL, hpsz, ← hfdef]
    have : encLead0 s ++ dg ++ encBody s ++ data = (encLead0 s ++ dg ++ encPreface s (encIndex s).length) ++ (encIndex s ++ (enc 0 ++ data)) := by
      simp [encBody, List.append_assoc]
    rw [this]
    exact drop_at _ _ _ (by simp [hdg]; omega)
  have hix := readIndex_enc f (enc 0 ++ data) l p s cs hK hdi hpis hpfl (by rw [hpsz, hpis, hlH]; omega) hcs (by omega) hcnt hne
    (by rw [hlL, hlH]; exact hents)
  rw [hix]
  simp only [bind_ok]
  -- signatures
  have hds2 : f.drop (l.leadSize + p.prefaceSize + p.indexSize) = enc 0 ++ data := by
    rw [← List.drop_drop, hdi, hpis]; exact drop_append_left _ _
  rw [readSig_enc f data l p hK hds2 (by rw [hpsz, hpis, hlH]; omega)]
  simp only [bind_ok]
  rw [← hp]
  simp [info, hdrOf, hlL, hlH, hldg, hlht, hldet]

end Zck.EncP
