/-
C04 — soundness of the whole update procedure (`Update.afterHeader`: scan, copy from the old file, reset, fetch loop,
truncate, validate), for ANY initial target, ANY old file, ANY response of the model's server under any limit / fragment
size / dropped transfer, ANY regex answers and hash function:
  `validateChecksums_sound`  the scan marks a chunk valid only if it is present (by induction over the index, the read position
                             exact or at the end of a truncated file);
  `copyChunks_sound`         so does `zck_copy_chunks` (same checksum type), and it leaves the header alone;
  `loop_sound` (C04.lean)    so does every transfer and the whole fetch loop;
  `afterHeader_sound`        hence a run that ends without error and with every chunk marked valid leaves a target of the
                             prescribed length, with the parsed header in front, in which every chunk is present;
  `update_yields_B`          which IS the server's file B — byte for byte — or exhibits two byte strings with the same checksum.
Completeness — that the run does end that way when the responses are well formed — is `C04Complete.lean`.
-/
import ZckModel.Props.C04
import ZckModel.Props.C05Complete

namespace Zck.C04
open Zck Zck.Format Zck.Dl Zck.Copy Zck.C05 Zck.Update Zck.Reader

/-- two files that agree on the bytes before `off` and on every chunk extent of a running index starting at `off` agree up
to the end of the last extent -/
theorem take_eq_of_extents : ∀ (cs : List Chunk) (n s off : Nat) (f g : Bytes), C13.RunFrom n s cs →
    f.take (off + s) = g.take (off + s) →
    (∀ c ∈ cs, (f.drop (off + c.start)).take c.compLen = (g.drop (off + c.start)).take c.compLen) →
    (∀ c ∈ cs, off + c.start + c.compLen ≤ f.length ∧ off + c.start + c.compLen ≤ g.length) →
    f.take (off + s + C13.sumLen cs) = g.take (off + s + C13.sumLen cs)
  | [], _, _, _, _, _, _, h, _, _ => by simpa [C13.sumLen] using h
  | c :: rest, n, s, off, f, g, hr, hpre, hext, hlen => by
    have hc := hext c List.mem_cons_self
    have hl := hlen c List.mem_cons_self
    rw [hr.2.1] at hc hl
    have hstep : f.take (off + s + c.compLen) = g.take (off + s + c.compLen) := by
      have e1 : ∀ (x : Bytes), off + s + c.compLen ≤ x.length → x.take (off + s + c.compLen) = x.take (off + s) ++ (x.drop (off + s)).take c.compLen := by
        intro x _
        rw [List.take_add]
      rw [e1 f hl.1, e1 g hl.2, hpre, hc]
    have := take_eq_of_extents rest (n + 1) (s + c.compLen) off f g hr.2.2 (by rw [← Nat.add_assoc]; exact hstep)
      (fun x hx => hext x (List.mem_cons_of_mem _ hx)) (fun x hx => hlen x (List.mem_cons_of_mem _ hx))
    simp only [C13.sumLen]
    have e : off + s + (c.compLen + C13.sumLen rest) = off + (s + c.compLen) + C13.sumLen rest := by omega
    rw [e]
    exact this

/-- every chunk with stored bytes is present: its extent lies in the file and hashes to its index checksum -/
def AllPresent (e : Env) (f : Bytes) : Prop :=
  ∀ (k : Nat) (tc : Chunk), e.hdr.chunks[k]? = some tc → tc.compLen ≠ 0 → ChunkOk e f tc

/-- **equal or collision**: two files of the length the header prescribes, with the same bytes before the data and every
chunk present in both, are byte-identical — or two different byte strings with the same chunk checksum have been found -/
theorem equal_or_collision (e : Env) (f g : Bytes) (hrun : C13.RunFrom 0 0 e.hdr.chunks)
    (hhdr : f.take e.dataOff = g.take e.dataOff)
    (hlf : f.length = e.dataOff + C13.sumLen e.hdr.chunks) (hlg : g.length = e.dataOff + C13.sumLen e.hdr.chunks)
    (hf : AllPresent e f) (hg : AllPresent e g) : f = g ∨ Collision e.H e.hdr.chunkHashType := by
  by_cases hall : ∀ c ∈ e.hdr.chunks, (f.drop (e.dataOff + c.start)).take c.compLen = (g.drop (e.dataOff + c.start)).take c.compLen
  · left
    have hlen : ∀ c ∈ e.hdr.chunks, e.dataOff + c.start + c.compLen ≤ f.length ∧ e.dataOff + c.start + c.compLen ≤ g.length := by
      intro c hc
      obtain ⟨k, hk⟩ := List.mem_iff_getElem?.mp hc
      by_cases hz : c.compLen = 0
      · -- an empty chunk inside a running index ends within the data
        have : ∀ (cs : List Chunk) (n s : Nat), C13.RunFrom n s cs → ∀ x ∈ cs, x.start + x.compLen ≤ s + C13.sumLen cs := by
          intro cs
          induction cs with
          | nil => intro _ _ _ x hx; simp at hx
          | cons a cs ih =>
            intro n s hr x hx
            simp only [C13.sumLen]
            rcases List.mem_cons.mp hx with rfl | hx'
            · have := hr.2.1; omega
            · have := ih _ _ hr.2.2 x hx'; omega
        have := this _ _ _ hrun c hc
        omega
      · have h1 := hf k c hk hz
        have h2 := hg k c hk hz
        unfold ChunkOk at h1 h2
        rw [if_neg hz] at h1 h2
        exact ⟨h1.1, h2.1⟩
    have := take_eq_of_extents e.hdr.chunks 0 0 e.dataOff f g hrun (by simpa using hhdr) hall hlen
    simp only [Nat.add_zero] at this
    rw [← hlf, List.take_length] at this
    rw [this, hlf, ← hlg, List.take_length]
  · right
    have ⟨c, hcx⟩ := Classical.not_forall.mp hall
    have ⟨hc, hne⟩ := Classical.not_imp.mp hcx
    obtain ⟨k, hk⟩ := List.mem_iff_getElem?.mp hc
    have hz : c.compLen ≠ 0 := by
      intro h0; apply hne; simp [h0]
    have h1 := hf k c hk hz
    have h2 := hg k c hk hz
    unfold ChunkOk at h1 h2
    rw [if_neg hz] at h1 h2
    exact ⟨_, _, hne, by rw [h1.2, h2.2], by rw [h1.2]; rfl⟩

/-- chunk `tc` is present in `f` behind a header whose data starts at `D` -/
def Present (H : HashFn) (ht D : Nat) (f : Bytes) (tc : Chunk) : Prop :=
  D + tc.start + tc.compLen ≤ f.length ∧ H ht ((f.drop (D + tc.start)).take tc.compLen) = some tc.digest

theorem getD_setValid (v : List Int) (k j : Nat) (x : Int) :
    (setValid v k x).getD j 0 = if j = k ∧ k < v.length then x else v.getD j 0 := by
  unfold setValid
  by_cases hj : j = k
  · subst hj
    by_cases hl : j < v.length
    · simp [List.getD, hl]
    · simp [List.getD, hl]
  · rw [C05.getD_set_ne _ _ _ _ hj]; simp [hj]

/-- **the validity scan marks a chunk valid only if it is present** (chunk loop of `validate_checksums`): by induction over
the index, with the read position either exact or already at the end of a truncated file -/
theorem scanLoop_sound (H : HashFn) (f : Bytes) (hdr : Hdr) (useFull : Bool) :
    ∀ (cs : List Chunk) (k s pos : Nat) (full : Option Bytes) (valid : List Int) (allGood : Bool),
    C13.RunFrom k s cs → (pos = hdr.lead + hdr.headerLen + s ∨ f.length ≤ pos) →
    (k = 0 → ∀ c, cs.head? = some c → c.len = 0 → c.compLen = 0) →
    (∀ j, k ≤ j → valid.getD j 0 ≠ 1) →
    ∀ (i : Nat) (tc : Chunk), cs[i]? = some tc → tc.compLen ≠ 0 →
      (scanLoop H f hdr useFull cs k pos full valid allGood).2.2.1.getD (k + i) 0 = 1 →
      Present H hdr.chunkHashType (hdr.lead + hdr.headerLen) f tc
  | [], _, _, _, _, _, _, _, _, _, _, i, tc, h, _, _ => by simp at h
  | ch :: rest, k, s, pos, full, valid, allGood, hr, hpos, hdict, hnone, i, tc, hi, hz, hv => by
    -- flags below the current index are never touched again
    have hkeep : ∀ (cs : List Chunk) (k' pos' : Nat) (full' : Option Bytes) (valid' : List Int) (ag : Bool) (j : Nat), j < k' →
        (scanLoop H f hdr useFull cs k' pos' full' valid' ag).2.2.1.getD j 0 = valid'.getD j 0 := by
      intro cs
      induction cs with
      | nil => intro _ _ _ _ _ _ _; rfl
      | cons c cs ih =>
        intro k' pos' full' valid' ag j hj
        unfold scanLoop
        split
        · simp only
          split
          · rw [getD_setValid]; simp; omega
          · rw [ih _ _ _ _ _ j (by omega), getD_setValid]; simp; omega
        · simp only
          split
          · rw [getD_setValid]; rw [if_neg (by omega)]
          · rw [ih _ _ _ _ _ j (by omega), getD_setValid]; rw [if_neg (by omega)]
    unfold scanLoop at hv
    by_cases hfirst : k = 0 ∧ ch.len = 0
    · -- the empty dictionary entry
      rw [if_pos hfirst] at hv
      simp only at hv
      have hcz : ch.compLen = 0 := hdict hfirst.1 ch rfl hfirst.2
      cases i with
      | zero =>
        simp only [List.getElem?_cons_zero, Option.some.injEq] at hi
        subst hi; exact absurd hcz hz
      | succ i' =>
        simp only [List.getElem?_cons_succ] at hi
        split at hv
        · -- detached: nothing else is scanned
          rw [getD_setValid] at hv
          rw [if_neg (by omega)] at hv
          exact absurd hv (hnone _ (by omega))
        · have := scanLoop_sound H f hdr useFull rest (k + 1) (s + ch.compLen) pos full (setValid valid 0 1) allGood hr.2.2
            (by rw [hcz]; simpa using hpos) (by omega)
            (by intro j hj; rw [getD_setValid, if_neg (by omega)]; exact hnone j (by omega)) i' tc hi hz
            (by rw [show k + 1 + i' = k + (i' + 1) by omega]; exact hv)
          exact this
    · rw [if_neg hfirst] at hv
      have hgl : (fileRead f pos ch.compLen).length ≤ ch.compLen := by
        unfold fileRead; simp only [List.length_take]; exact Nat.min_le_left _ _
      have h1 : (readPieces f pos ch.compLen).1 = fileRead f pos ch.compLen := rfl
      have h2 : (readPieces f pos ch.compLen).2.1 = pos + (fileRead f pos ch.compLen).length := rfl
      have h3 : (readPieces f pos ch.compLen).2.2 = decide ((fileRead f pos ch.compLen).length < ch.compLen) := rfl
      generalize readPieces f pos ch.compLen = rp at hv h1 h2 h3
      obtain ⟨got, pos', tr⟩ := rp
      simp only at hv h1 h2 h3
      rw [← h1] at h2 h3 hgl
      have hgot : fileRead f pos ch.compLen = got := h1.symm
      subst h2 h3
      obtain ⟨v, hvv⟩ : ∃ v, scanValue H hdr ch got (decide (got.length < ch.compLen)) = v := ⟨_, rfl⟩
      simp only [hvv] at hv
      cases i with
      | zero =>
        simp only [List.getElem?_cons_zero, Option.some.injEq] at hi
        subst hi
        have hv1 : v = 1 := by
          split at hv
          · rw [getD_setValid] at hv
            by_cases hc : k + 0 = k ∧ k < valid.length
            · rw [if_pos hc] at hv; exact hv
            · rw [if_neg hc] at hv; exact absurd hv (hnone _ (by omega))
          · rw [hkeep rest (k + 1) _ _ _ _ (k + 0) (by omega), getD_setValid] at hv
            by_cases hc : k + 0 = k ∧ k < valid.length
            · rw [if_pos hc] at hv; exact hv
            · rw [if_neg hc] at hv; exact absurd hv (hnone _ (by omega))
        -- v = 1: the hash matched and nothing was missing
        rw [hv1] at hvv
        unfold scanValue at hvv
        cases hh : H hdr.chunkHashType got with
        | none => rw [hh] at hvv; simp at hvv
        | some d =>
          rw [hh] at hvv
          simp only [hz, ↓reduceIte] at hvv
          by_cases ht : got.length < ch.compLen
          · simp [ht] at hvv
          · simp only [ht, decide_false, Bool.false_eq_true, ↓reduceIte] at hvv
            by_cases hd : d = ch.digest
            · have hlen : got.length = ch.compLen := by omega
              have hfl : pos + ch.compLen ≤ f.length := by
                rw [← hgot] at hlen; unfold fileRead at hlen
                simp only [List.length_take, List.length_drop] at hlen
                omega
              rcases hpos with hp | hp
              · unfold Present
                rw [hr.2.1, ← hp]
                refine ⟨hfl, ?_⟩
                unfold fileRead at hgot
                rw [hgot, hh, hd]
              · omega
            · simp [hd] at hvv
      | succ i' =>
        simp only [List.getElem?_cons_succ] at hi
        split at hv
        · rw [getD_setValid, if_neg (by omega)] at hv
          exact absurd hv (hnone _ (by omega))
        · have hpos' : pos + got.length = hdr.lead + hdr.headerLen + (s + ch.compLen) ∨ f.length ≤ pos + got.length := by
            by_cases ht : got.length < ch.compLen
            · right
              rw [← hgot] at ht ⊢; unfold fileRead at ht ⊢
              simp only [List.length_take, List.length_drop] at ht ⊢
              omega
            · rcases hpos with hp | hp
              · left; omega
              · right; omega
          exact scanLoop_sound H f hdr useFull rest (k + 1) (s + ch.compLen) (pos + got.length) _ (setValid valid k v) _ hr.2.2
            hpos' (by omega)
            (by intro j hj; rw [getD_setValid, if_neg (by omega)]; exact hnone j (by omega)) i' tc hi hz
            (by rw [show k + 1 + i' = k + (i' + 1) by omega]; exact hv)

/-- **`zck_find_valid_chunks` is sound**: a chunk (with stored bytes) it marks valid is present in the file -/
theorem validateChecksums_sound (H : HashFn) (f : Bytes) (c : Ctx) (hrun : C13.RunFrom 0 0 c.hdr.chunks)
    (hdict : ∀ d, c.hdr.chunks.head? = some d → d.len = 0 → d.compLen = 0) (h0 : ∀ j, c.valid.getD j 0 ≠ 1)
    (k : Nat) (tc : Chunk) (hk : c.hdr.chunks[k]? = some tc) (hz : tc.compLen ≠ 0)
    (hv : (validateChecksums H f c).2.valid.getD k 0 = 1) :
    Present H c.hdr.chunkHashType (c.hdr.lead + c.hdr.headerLen) f tc := by
  have key := scanLoop_sound H f c.hdr (decide (¬ flag4 c = true)) c.hdr.chunks 0 0 (Reader.dataOff c) (some []) c.valid true hrun
    (Or.inl (by simp [Reader.dataOff])) (fun _ => hdict) (fun j _ => h0 j) k tc hk hz
  simp only [Nat.zero_add] at key
  have hshape : (validateChecksums H f c).2.valid = c.valid ∨
      (validateChecksums H f c).2.valid = (scanLoop H f c.hdr (decide (¬ flag4 c = true)) c.hdr.chunks 0 (Reader.dataOff c) (some []) c.valid true).2.2.1 ∨
      (validateChecksums H f c).2.valid = ((scanLoop H f c.hdr (decide (¬ flag4 c = true)) c.hdr.chunks 0 (Reader.dataOff c) (some []) c.valid true).2.2.1).map (fun _ => -1) := by
    unfold validateChecksums
    simp only
    repeat' split
    all_goals simp
  rcases hshape with h | h | h
  · rw [h] at hv; exact absurd hv (h0 k)
  · rw [h] at hv; exact key hv
  · rw [h] at hv
    simp only [List.getD_eq_getElem?_getD, List.getElem?_map] at hv
    cases hx : (scanLoop H f c.hdr (decide (¬ flag4 c = true)) c.hdr.chunks 0 (Reader.dataOff c) (some []) c.valid true).2.2.1[k]? with
    | none => rw [hx] at hv; simp at hv
    | some x => rw [hx] at hv; simp at hv

theorem present_chunkOk (e : Env) (f : Bytes) (tc : Chunk) (hz : tc.compLen ≠ 0) :
    Present e.H e.hdr.chunkHashType (e.hdr.lead + e.hdr.headerLen) f tc ↔ ChunkOk e f tc := by
  unfold Present ChunkOk Env.dataOff
  rw [if_neg hz]

/-- **one copy step** (`write_and_verify_chunk` for target chunk `k`, not valid yet, from a source chunk of the same stored
size and checksum, same checksum type): valid ⇒ present is kept -/
theorem writeAndVerify_sound (e : Env) (hd : Disj e) (srcF : Bytes) (src : Hdr) (t : Tgt) (k : Nat) (sc tc : Chunk)
    (htype : src.chunkHashType = e.hdr.chunkHashType)
    (hk : e.hdr.chunks[k]? = some tc) (hsz : sc.compLen = tc.compLen) (hdg : sc.digest = tc.digest)
    (hnv : t.valid.getD k 0 ≠ 1) (h : AllOk e t.f t.valid) :
    AllOk e (writeAndVerify e.H srcF src e.hdr t k sc tc).f (writeAndVerify e.H srcF src e.hdr t k sc tc).valid := by
  have hoff : Copy.dataOff e.hdr + tc.start = e.dataOff + tc.start := rfl
  -- a write inside the extent of `k` keeps every other valid chunk present
  have hother : ∀ (f' : Bytes) (bs : Bytes), bs.length ≤ tc.compLen →
      ∀ (j : Nat) (tj : Chunk), j ≠ k → e.hdr.chunks[j]? = some tj → ChunkOk e f' tj →
        ChunkOk e (writeAt f' (e.dataOff + tc.start) bs) tj := by
    intro f' bs hbs j tj hj htj hok
    exact chunkOk_writeAt e hd f' j k tj tc htj hk hj _ bs (Nat.le_refl _) (by omega) hok
  unfold writeAndVerify
  simp only
  generalize hdat : (srcF.drop (Copy.dataOff src + sc.start)).take sc.compLen = data
  have hdl : data.length ≤ sc.compLen := by rw [← hdat]; simp only [List.length_take]; exact Nat.min_le_left _ _
  rw [hoff]
  by_cases hshort : data.length < sc.compLen
  · simp only [hshort, ↓reduceIte]
    intro j tj htj hz hv
    have hj : j ≠ k := by intro heq; subst heq; exact hnv hv
    exact hother _ _ (by simp only [List.length_take]; have := Nat.div_mul_le_self data.length BUF; omega) j tj hj htj (h j tj htj hz hv)
  · simp only [hshort, ↓reduceIte]
    by_cases hh : (e.H src.chunkHashType data == some sc.digest) = true
    · simp only [hh, ↓reduceIte]
      intro j tj htj hz hv
      by_cases hj : j = k
      · subst hj
        have : tj = tc := by rw [hk] at htj; simpa using htj.symm
        subst this
        unfold ChunkOk
        rw [if_neg hz]
        have hlen : data.length = tj.compLen := by omega
        have hne : data ≠ [] := by intro h0; rw [h0] at hlen; simp at hlen; omega
        have hrb := C08.writeAt_readback t.f (e.dataOff + tj.start) data
        rw [hlen] at hrb
        refine ⟨by rw [writeAt_length _ _ _ hne]; omega, ?_⟩
        rw [hrb, ← htype, ← hdg]
        simpa using hh
      · have hv' : t.valid.getD j 0 = 1 := by rw [getD_set_ne _ _ _ _ hj] at hv; exact hv
        exact hother _ _ (by omega) j tj hj htj (h j tj htj hz hv')
    · simp only [hh, Bool.false_eq_true, ↓reduceIte]
      intro j tj htj hz hv
      by_cases hj : j = k
      · subst hj
        exfalso
        by_cases hl : j < t.valid.length
        · rw [C05.getD_set_eq _ _ _ hl] at hv; omega
        · simp [List.getD, hl] at hv
      · have hv' : t.valid.getD j 0 = 1 := by rw [getD_set_ne _ _ _ _ hj] at hv; exact hv
        exact hother _ _ (by simp [zeros]) j tj hj htj (hother _ _ (by omega) j tj hj htj (h j tj htj hz hv'))

/-- **`zck_copy_chunks` is sound**: valid ⇒ present is kept by the whole loop -/
theorem copyLoop_sound (e : Env) (hd : Disj e) (srcF : Bytes) (src : Hdr) (htype : src.chunkHashType = e.hdr.chunkHashType) :
    ∀ (cs : List Chunk) (k : Nat) (t : Tgt), (∀ i c, cs[i]? = some c → e.hdr.chunks[k + i]? = some c) →
      AllOk e t.f t.valid →
      AllOk e (copyLoop e.H srcF src e.hdr cs k t).f (copyLoop e.H srcF src e.hdr cs k t).valid
  | [], _, t, _, h => by unfold copyLoop; exact h
  | tc :: rest, k, t, hcs, h => by
    unfold copyLoop
    simp only
    have hk : e.hdr.chunks[k]? = some tc := by have := hcs 0 tc rfl; simpa using this
    have hrest : ∀ i c, rest[i]? = some c → e.hdr.chunks[k + 1 + i]? = some c := by
      intro i c hi
      have := hcs (i + 1) c (by simpa using hi)
      rw [show k + 1 + i = k + (i + 1) by omega]; exact this
    apply copyLoop_sound e hd srcF src htype rest (k + 1) _ hrest
    split
    · exact h
    · rename_i hnv
      split
      · rename_i sc hfind
        split
        · rename_i hsz
          have hdg : sc.digest = tc.digest := (C08.used_only_if_equal src tc sc hfind).1
          exact writeAndVerify_sound e hd srcF src t k sc tc htype hk hsz.2 hdg hnv h
        · exact h
      · exact h

theorem copyChunks_sound (e : Env) (hd : Disj e) (srcF : Bytes) (src : Hdr) (htype : src.chunkHashType = e.hdr.chunkHashType)
    (t : Tgt) (h : AllOk e t.f t.valid) :
    AllOk e (copyChunks e.H srcF src e.hdr t).f (copyChunks e.H srcF src e.hdr t).valid := by
  unfold copyChunks
  exact copyLoop_sound e hd srcF src htype e.hdr.chunks 0 t (fun i c hi => by simpa using hi) h

/-- `zck_copy_chunks` leaves everything before the data alone -/
theorem copy_header (H : HashFn) (srcF : Bytes) (src tgtH : Hdr) (t : Tgt) (i : Nat) (hi : i < Copy.dataOff tgtH) :
    (copyChunks H srcF src tgtH t).f.getD i 0 = t.f.getD i 0 := by
  apply C08.copy_confined
  have : ∀ (cs : List Chunk) (k : Nat), ¬ C08.mayWrite tgtH t.valid cs k i := by
    intro cs
    induction cs with
    | nil => intro k h; exact h
    | cons c cs ih =>
      intro k h
      unfold C08.mayWrite at h
      rcases h with h | h
      · omega
      · exact ih (k + 1) h
  exact this _ _

theorem truncateTo_length (n : Nat) (f : Bytes) : (truncateTo n f).length = n := by
  unfold truncateTo; simp [zeros]; omega

theorem truncateTo_getD (n : Nat) (f : Bytes) (i : Nat) (hi : i < n) (hf : i < f.length) :
    (truncateTo n f).getD i 0 = f.getD i 0 := by
  unfold truncateTo
  simp only [List.getD_eq_getElem?_getD]
  rw [List.getElem?_append_left (by simp; omega), List.getElem?_take]
  simp [hi]

/-- truncating at or beyond the end of a present chunk keeps it present -/
theorem chunkOk_truncateTo (e : Env) (f : Bytes) (n : Nat) (tc : Chunk) (hz : tc.compLen ≠ 0)
    (hn : e.dataOff + tc.start + tc.compLen ≤ n) (h : ChunkOk e f tc) : ChunkOk e (truncateTo n f) tc := by
  unfold ChunkOk at h ⊢
  rw [if_neg hz] at h ⊢
  have hs := slice_eq_of_getD f (truncateTo n f) (e.dataOff + tc.start) tc.compLen h.1
    (by rw [truncateTo_length]; exact hn)
    (by intro i h1 h2; exact truncateTo_getD n f i (by omega) (by omega))
  rw [hs]
  exact ⟨by rw [truncateTo_length]; exact hn, h.2⟩

theorem truncateTo_getD_any (n : Nat) (f : Bytes) (i : Nat) (hi : i < n) : (truncateTo n f).getD i 0 = f.getD i 0 := by
  by_cases hf : i < f.length
  · exact truncateTo_getD n f i hi hf
  · unfold truncateTo
    simp only [List.getD_eq_getElem?_getD]
    rw [List.getElem?_append_right (by simp; omega)]
    rw [List.getElem?_eq_none (l := f) (by omega)]
    simp only [zeros, List.length_take, List.getElem?_replicate]
    split <;> rfl

theorem allValid_spec (valid : List Int) (n : Nat) (h : (valid.length == n && valid.all (· == 1)) = true) :
    ∀ k, k < n → valid.getD k 0 = 1 := by
  intro k hk
  simp only [Bool.and_eq_true, beq_iff_eq, List.all_eq_true] at h
  have hl : k < valid.length := by omega
  have := h.2 (valid[k]) (List.getElem_mem hl)
  simp only [List.getD_eq_getElem?_getD, List.getElem?_eq_getElem hl, Option.getD_some]
  exact this

theorem resetFailed_one (v : List Int) (k : Nat) (h : (resetFailed v).getD k 0 = 1) : v.getD k 0 = 1 := by
  unfold resetFailed at h
  simp only [List.getD_eq_getElem?_getD, List.getElem?_map] at h ⊢
  cases hx : v[k]? with
  | none => rw [hx] at h; simp at h
  | some x =>
    rw [hx] at h
    simp only [Option.map_some, Option.getD_some] at h ⊢
    split at h
    · omega
    · exact h

theorem openCtx_no_valid (th : Hdr) (j : Nat) : (Reader.openCtx th).valid.getD j 0 ≠ 1 := by
  unfold Reader.openCtx
  simp only [List.getD_eq_getElem?_getD, List.getElem?_map]
  cases th.chunks[j]? <;> simp

/-- the end of the procedure keeps what matters -/
theorem finish_sound (H : HashFn) (rx : Rx) (th : Hdr) (o : Out) (file : Bytes) (valid : List Int)
    (hrun : C13.RunFrom 0 0 th.chunks) (hdl : th.dataLen = C13.sumLen th.chunks)
    (hok : AllOk (envOf H rx th []) file valid)
    (hall : (finish H th o file valid).allValid = true) :
    (finish H th o file valid).file.length = th.lead + th.headerLen + th.dataLen ∧
    (∀ i, i < th.lead + th.headerLen → (finish H th o file valid).file.getD i 0 = file.getD i 0) ∧
    AllPresent (envOf H rx th []) (finish H th o file valid).file := by
  unfold finish at hall ⊢
  simp only at hall ⊢
  refine ⟨truncateTo_length _ _, fun i hi => truncateTo_getD_any _ _ i (by omega), ?_⟩
  intro k tc hk hz
  have hklt : k < th.chunks.length := by
    have := List.getElem?_eq_some_iff.mp hk
    exact this.1
  have hv := allValid_spec valid th.chunks.length hall k hklt
  apply chunkOk_truncateTo _ _ _ _ hz _ (hok k tc hk hz hv)
  -- the extent ends inside header + data
  have : ∀ (cs : List Chunk) (n s : Nat), C13.RunFrom n s cs → ∀ x ∈ cs, x.start + x.compLen ≤ s + C13.sumLen cs := by
    intro cs
    induction cs with
    | nil => intro _ _ _ x hx; simp at hx
    | cons a cs ih =>
      intro n s hr x hx
      simp only [C13.sumLen]
      rcases List.mem_cons.mp hx with rfl | hx'
      · have := hr.2.1; omega
      · have := ih _ _ hr.2.2 x hx'; omega
  have := this _ _ _ hrun tc (List.mem_of_getElem? hk)
  show (envOf H rx th []).dataOff + tc.start + tc.compLen ≤ th.lead + th.headerLen + th.dataLen
  unfold Env.dataOff envOf
  simp only
  omega

/-- the hypotheses about a parsed target header that the soundness of the procedure needs -/
structure HdrOk (H : HashFn) (t2 : Bytes) (th : Hdr) : Prop where
  opened : Header.openFile H t2 = .ok th
  small  : th.lead + th.headerLen ≤ 2^63 - 1
  dict   : ∀ d, th.chunks.head? = some d → d.len = 0 → d.compLen = 0     -- an empty dictionary entry has no stored bytes

theorem copyFrom_sound (H : HashFn) (rx : Rx) (A : Option Bytes) (th : Hdr) (hd : Disj (envOf H rx th []))
    (hA : ∀ a ah, A = some a → Header.openFile H a = .ok ah → ah.chunkHashType = th.chunkHashType)
    (t : Tgt) (h : AllOk (envOf H rx th []) t.f t.valid) :
    AllOk (envOf H rx th []) (copyFrom H A th t).f (copyFrom H A th t).valid ∧
    (∀ i, i < th.lead + th.headerLen → (copyFrom H A th t).f.getD i 0 = t.f.getD i 0) := by
  unfold copyFrom
  cases A with
  | none => exact ⟨h, fun _ _ => rfl⟩
  | some a =>
    simp only
    cases hop : Header.openFile H a with
    | ok ah =>
      simp only
      exact ⟨copyChunks_sound (envOf H rx th []) hd a ah (hA a ah rfl hop) t h, fun i hi => copy_header H a ah th t i hi⟩
    | err => exact ⟨h, fun _ _ => rfl⟩
    | oob _ => exact ⟨h, fun _ _ => rfl⟩

/-- **C04 (soundness of the whole procedure after the header is in place)**: for ANY old file, ANY server behaviour (the
model's server, any limit, fragment size, dropped transfer), ANY regex answers and hash function — if the procedure ends
without error and with every chunk marked valid, then the target has exactly the length the header prescribes, the bytes
before the data are those of the header that was parsed, and EVERY chunk with stored bytes is present (its extent hashes
to its index checksum) -/
theorem afterHeader_sound (H : HashFn) (rx : Rx) (A : Option Bytes) (B : Bytes) (limit : Int) (frag : Nat)
    (drop : Option (Nat × Nat)) (o : Out) (t2 : Bytes) (th : Hdr) (hh : HdrOk H t2 th)
    (hA : ∀ a ah, A = some a → Header.openFile H a = .ok ah → ah.chunkHashType = th.chunkHashType) :
    let out := afterHeader H rx A B limit frag drop o t2 th
    out.err = none → out.allValid = true →
    out.file.length = th.lead + th.headerLen + th.dataLen ∧
    (∀ i, i < th.lead + th.headerLen → out.file.getD i 0 = t2.getD i 0) ∧
    AllPresent (envOf H rx th []) out.file := by
  intro out herr hall
  have hs := C13.open_sound H t2 th hh.opened hh.small
  have hrun := hs.2.2.1
  have hdl := hs.2.2.2.1
  have hd : Disj (envOf H rx th []) := disj_of_runFrom _ hrun
  -- the scan
  have hscan : AllOk (envOf H rx th []) t2 (Reader.validateChecksums H t2 (Reader.openCtx th)).2.valid := by
    intro k tc hk hz hv
    have := validateChecksums_sound H t2 (Reader.openCtx th) hrun hh.dict (openCtx_no_valid th) k tc hk hz hv
    exact (present_chunkOk (envOf H rx th []) t2 tc hz).mp this
  simp only [out] at herr hall ⊢
  unfold afterHeader at herr hall ⊢
  simp only at herr hall ⊢
  by_cases h0 : (Reader.validateChecksums H t2 (Reader.openCtx th)).1 = 0
  · simp [h0] at herr
  · simp only [h0, ↓reduceIte] at herr hall ⊢
    by_cases h1 : (Reader.validateChecksums H t2 (Reader.openCtx th)).1 = 1
    · simp only [h1, ↓reduceIte] at herr hall ⊢
      exact finish_sound H rx th _ t2 _ hrun hdl hscan hall
    · simp only [h1, ↓reduceIte] at herr hall ⊢
      have hc := copyFrom_sound H rx A th hd hA ⟨t2, (Reader.validateChecksums H t2 (Reader.openCtx th)).2.valid⟩ hscan
      generalize copyFrom H A th ⟨t2, (Reader.validateChecksums H t2 (Reader.openCtx th)).2.valid⟩ = t at hc herr hall ⊢
      have hreset : AllOk (envOf H rx th []) t.f (resetFailed t.valid) :=
        fun k tc hk hz hv => hc.1 k tc hk hz (resetFailed_one _ _ hv)
      have hl := loop_sound H rx B th limit frag drop hd (th.chunks.length + 3) t.f (resetFailed t.valid) [] 0 hreset
      simp only at hl
      generalize Update.loop H rx B th limit frag drop (th.chunks.length + 3) t.f (resetFailed t.valid) [] 0 = r at hl herr hall ⊢
      cases he : r.2.2.2.2 with
      | some x => rw [he] at herr; simp at herr
      | none =>
        rw [he] at herr hall
        simp only at herr hall ⊢
        have hf := finish_sound H rx th _ r.1 r.2.1 hrun hdl hl.1 hall
        exact ⟨hf.1, fun i hi => by rw [hf.2.1 i hi, hl.2.2.2 i hi, hc.2 i hi], hf.2.2⟩

/-- **C04 (headline, soundness)**: if moreover the file `B` on the server is itself a file with that header (same bytes
before the data, the length the header prescribes, every chunk present), a run that ends without error and with every chunk
valid leaves the target BYTE-IDENTICAL to `B` — or two different byte strings with the same chunk checksum exist -/
theorem update_yields_B (H : HashFn) (rx : Rx) (A : Option Bytes) (B : Bytes) (limit : Int) (frag : Nat)
    (drop : Option (Nat × Nat)) (o : Out) (t2 : Bytes) (th : Hdr) (hh : HdrOk H t2 th)
    (hA : ∀ a ah, A = some a → Header.openFile H a = .ok ah → ah.chunkHashType = th.chunkHashType)
    (hBlen : B.length = th.lead + th.headerLen + th.dataLen)
    (hBhdr : ∀ i, i < th.lead + th.headerLen → B.getD i 0 = t2.getD i 0)
    (hBok : AllPresent (envOf H rx th []) B) :
    let out := afterHeader H rx A B limit frag drop o t2 th
    out.err = none → out.allValid = true → out.file = B ∨ Collision H th.chunkHashType := by
  intro out herr hall
  obtain ⟨h1, h2, h3⟩ := afterHeader_sound H rx A B limit frag drop o t2 th hh hA herr hall
  have hs := C13.open_sound H t2 th hh.opened hh.small
  have hpre : out.file.take (envOf H rx th []).dataOff = B.take (envOf H rx th []).dataOff := by
    apply List.ext_getElem?
    intro i
    simp only [List.getElem?_take]
    split
    · rename_i hi
      have hi' : i < th.lead + th.headerLen := hi
      have hlo : i < out.file.length := by rw [h1]; omega
      have hlB : i < B.length := by rw [hBlen]; omega
      have e1 := h2 i hi'
      have e2 := hBhdr i hi'
      rw [← e2] at e1
      simp only [List.getD_eq_getElem?_getD] at e1
      rw [List.getElem?_eq_getElem hlo, List.getElem?_eq_getElem hlB] at e1 ⊢
      simpa using e1
    · rfl
  exact equal_or_collision (envOf H rx th []) out.file B hs.2.2.1 hpre
    (by rw [h1, hs.2.2.2.1]; rfl) (by rw [hBlen, hs.2.2.2.1]; rfl) h3 hBok


/-- a run of the whole procedure that reports no error went through `afterHeader` on a target whose header parsed -/
theorem update_ok_shape (H : HashFn) (rx : Rx) (A : Option Bytes) (B tgt0 : Bytes) (limit : Int) (frag : Nat)
    (drop : Option (Nat × Nat)) (h : (update H rx A B tgt0 limit frag drop).err = none) :
    ∃ o t2 th, Header.openFile H t2 = .ok th ∧ update H rx A B tgt0 limit frag drop = afterHeader H rx A B limit frag drop o t2 th := by
  unfold update at h ⊢
  simp only at h ⊢
  cases hl : Header.readLead {} (writeAt tgt0 0 (B.take Zck.Gen.MIN_DOWNLOAD_SIZE)) with
  | ok l =>
    rw [hl] at h
    simp only at h ⊢
    by_cases hlen : B.length < (if l.leadSize + l.headerLen > Zck.Gen.MIN_DOWNLOAD_SIZE then l.leadSize + l.headerLen else 0)
    · rw [if_pos hlen] at h; simp at h
    · rw [if_neg hlen] at h ⊢
      cases hop : Header.openFile H (fetchRest B (writeAt tgt0 0 (B.take Zck.Gen.MIN_DOWNLOAD_SIZE)) (l.leadSize + l.headerLen)).1 with
      | ok th => exact ⟨_, _, th, hop, rfl⟩
      | err => rw [hop] at h; simp at h
      | oob _ => rw [hop] at h; simp at h
  | err => rw [hl] at h; simp at h
  | oob _ => rw [hl] at h; simp at h

end Zck.C04
