/-
C04 / C11 — "nothing already present is fetched again": the request of every round contains only chunks whose mark is 0
(`request_only_missing`, from C10's `missing_spec` for the index the update model passes), a valid mark survives the copy
step, the reset and every round, so a chunk found present by the scan is never requested (`present_not_requested`,
`valid_not_requested`).  With C09's `find_valid_exact` the scan's mark 1 means exactly "present on disk".
-/
import ZckModel.Props.C04Sound
import ZckModel.Props.C10

namespace Zck.C04
open Zck Zck.Format Zck.Dl Zck.Copy Zck.C05 Zck.Update

/-- the index as `zck_get_missing_range` sees it -/
def rchunksOf (th : Hdr) (valid : List Int) : List Range.Chunk :=
  th.chunks.zipIdx.map fun (c, k) => (⟨c.number, c.start, c.compLen, valid.getD k 0⟩ : Range.Chunk)

theorem reqOf_eq (th : Hdr) (limit : Int) (valid : List Int) :
    reqOf th limit valid = Range.missing (th.lead + th.headerLen) (rchunksOf th valid) limit := rfl

/-- `rchunksOf` of a running index is a running index -/
theorem runSum_rchunks (valid : List Int) : ∀ (cs : List Chunk) (n s j : Nat), C13.RunFrom n s cs →
    C10.RunSum s ((cs.zipIdx j).map fun (c, k) => (⟨c.number, c.start, c.compLen, valid.getD k 0⟩ : Range.Chunk))
  | [], _, _, _, _ => trivial
  | c :: rest, n, s, j, h => by
    simp only [List.zipIdx_cons, List.map_cons, C10.RunSum]
    exact ⟨h.2.1, runSum_rchunks valid rest (n + 1) (s + c.compLen) (j + 1) h.2.2⟩

theorem total_rchunks (valid : List Int) : ∀ (cs : List Chunk) (j : Nat),
    C10.total ((cs.zipIdx j).map fun (c, k) => (⟨c.number, c.start, c.compLen, valid.getD k 0⟩ : Range.Chunk)) = C13.sumLen cs
  | [], _ => rfl
  | c :: rest, j => by
    simp only [List.zipIdx_cons, List.map_cons, C10.total, C13.sumLen]
    rw [total_rchunks valid rest (j + 1)]

/-- every entry of `rchunksOf` that is marked missing is a chunk of the header whose mark is 0, with number = position -/
theorem mem_rchunks (valid : List Int) : ∀ (cs : List Chunk) (n s j : Nat), C13.RunFrom n s cs → ∀ rc,
    rc ∈ ((cs.zipIdx j).map fun (c, k) => (⟨c.number, c.start, c.compLen, valid.getD k 0⟩ : Range.Chunk)) →
    ∃ i c, cs[i]? = some c ∧ rc.number = n + i ∧ rc.valid = valid.getD (j + i) 0 ∧ rc.compLen = c.compLen
  | [], _, _, _, _, rc, h => by simp at h
  | c :: rest, n, s, j, hr, rc, h => by
    simp only [List.zipIdx_cons, List.map_cons, List.mem_cons] at h
    rcases h with rfl | h
    · exact ⟨0, c, rfl, by simp [hr.1], by simp, rfl⟩
    · obtain ⟨i, c', h1, h2, h3, h4⟩ := mem_rchunks valid rest (n + 1) (s + c.compLen) (j + 1) hr.2.2 rc h
      exact ⟨i + 1, c', by simpa using h1, by omega, by rw [h3]; congr 1; omega, h4⟩

/-- **nothing already valid is requested**: every chunk in the request that `zck_get_missing_range` builds from the current
marks is a chunk of the index whose mark is 0 (missing) and that has stored bytes — for any limit -/
theorem request_only_missing (th : Hdr) (limit : Int) (valid : List Int) (hrun : C13.RunFrom 0 0 th.chunks)
    (hbound : th.lead + th.headerLen + C13.sumLen th.chunks < 2^64) :
    ∀ p ∈ (reqOf th limit valid).index, ∃ c, th.chunks[p.1]? = some c ∧ valid.getD p.1 0 = 0 ∧ c.compLen ≠ 0 := by
  intro p hp
  rw [reqOf_eq] at hp
  have hrs : C10.RunSum 0 (rchunksOf th valid) := runSum_rchunks valid th.chunks 0 0 0 hrun
  have htot : C10.total (rchunksOf th valid) = C13.sumLen th.chunks := total_rchunks valid th.chunks 0
  obtain ⟨k, _, _, _, _, hm⟩ := C10.missing_spec (th.lead + th.headerLen) (rchunksOf th valid) limit hrs (by rw [htot]; exact hbound)
  rw [hm] at hp
  simp only [C10.specSt, List.mem_map] at hp
  obtain ⟨x, hx, rfl⟩ := hp
  have hx' := List.mem_of_mem_take hx
  simp only [C10.missingExt, List.mem_map, List.mem_filter, decide_eq_true_eq] at hx'
  obtain ⟨rc, ⟨hrc, hv, hz⟩, rfl⟩ := hx'
  obtain ⟨i, c, h1, h2, h3, h4⟩ := mem_rchunks valid th.chunks 0 0 0 hrun rc hrc
  simp only [Nat.zero_add] at h2 h3
  exact ⟨c, by simp only [h2]; exact h1, by simp only [h2]; rw [← h3]; exact hv, by rw [← h4]; exact hz⟩


/-- `zck_copy_chunks` never takes a valid mark away -/
theorem copyLoop_keeps (H : HashFn) (srcF : Bytes) (src tgtH : Hdr) (j : Nat) :
    ∀ (cs : List Chunk) (k : Nat) (t : Tgt), t.valid.getD j 0 = 1 → (copyLoop H srcF src tgtH cs k t).valid.getD j 0 = 1
  | [], _, t, h => by unfold copyLoop; exact h
  | tc :: rest, k, t, h => by
    unfold copyLoop
    simp only
    apply copyLoop_keeps H srcF src tgtH j rest (k + 1)
    split
    · exact h
    · rename_i hnv
      have hjk : j ≠ k := by intro heq; subst heq; exact hnv h
      split
      · split
        · rw [C08.writeAndVerify_marks H srcF src tgtH t k _ tc j hjk]; exact h
        · exact h
      · exact h

theorem copyFrom_keeps (H : HashFn) (A : Option Bytes) (th : Hdr) (t : Tgt) (j : Nat) (h : t.valid.getD j 0 = 1) :
    (copyFrom H A th t).valid.getD j 0 = 1 := by
  unfold copyFrom
  cases A with
  | none => exact h
  | some a =>
    simp only
    cases Header.openFile H a with
    | ok ah => exact copyLoop_keeps H a ah th j th.chunks 0 t h
    | err => exact h
    | oob _ => exact h

theorem resetFailed_keeps (v : List Int) (j : Nat) (h : v.getD j 0 = 1) : (resetFailed v).getD j 0 = 1 := by
  unfold resetFailed
  simp only [List.getD_eq_getElem?_getD, List.getElem?_map] at h ⊢
  cases hx : v[j]? with
  | none => rw [hx] at h; simp at h
  | some x =>
    rw [hx] at h
    simp only [Option.getD_some] at h
    subst h
    simp

/-- **C04 / C11: nothing already present is fetched again.**  A chunk the scan marks valid (C09: exactly the chunks present
in the target as the procedure — or an interrupted earlier run — left it) is still marked valid after the copy step and the
reset, and is not in the request `zck_get_missing_range` builds, for any limit; by `loop_sound` it stays valid through every
round, hence is in no later request either -/
theorem present_not_requested (H : HashFn) (A : Option Bytes) (t2 : Bytes) (th : Hdr) (limit : Int) (k : Nat)
    (hrun : C13.RunFrom 0 0 th.chunks) (hbound : th.lead + th.headerLen + C13.sumLen th.chunks < 2^64)
    (hscan : (Reader.validateChecksums H t2 (Reader.openCtx th)).2.valid.getD k 0 = 1) :
    let valid := resetFailed (copyFrom H A th ⟨t2, (Reader.validateChecksums H t2 (Reader.openCtx th)).2.valid⟩).valid
    valid.getD k 0 = 1 ∧ ∀ p ∈ (reqOf th limit valid).index, p.1 ≠ k := by
  intro valid
  have hv : valid.getD k 0 = 1 := resetFailed_keeps _ _ (copyFrom_keeps H A th _ k hscan)
  refine ⟨hv, ?_⟩
  intro p hp heq
  obtain ⟨c, _, h0, _⟩ := request_only_missing th limit valid hrun hbound p hp
  rw [heq, hv] at h0
  omega

/-- the same for every later round: a chunk marked valid at the start of a round is not in that round's request -/
theorem valid_not_requested (th : Hdr) (limit : Int) (valid : List Int) (k : Nat)
    (hrun : C13.RunFrom 0 0 th.chunks) (hbound : th.lead + th.headerLen + C13.sumLen th.chunks < 2^64)
    (hv : valid.getD k 0 = 1) : ∀ p ∈ (reqOf th limit valid).index, p.1 ≠ k := by
  intro p hp heq
  obtain ⟨c, _, h0, _⟩ := request_only_missing th limit valid hrun hbound p hp
  rw [heq, hv] at h0
  omega

end Zck.C04
