/-
C05 — fragmentation independence of the MULTIPART path: a multipart body that is accepted when delivered whole (well-formed
parts whose payloads `dl_write_range` takes completely — by `multipart_taken` the case for the stored bytes of the requested
chunks) is accepted fragment by fragment under EVERY partition into non-empty callback invocations, down to one byte per
call, and the context at the end is exactly the one after the single call.  Proof: the states between two callbacks are
characterised (`Reach`: at a part boundary carrying the beginning of the next part header, or inside a payload), one more
callback leads from such a state to the next (`mp_step`, from `lp`: the loop over any beginning of the rest of the body, and
`dwr_cut`: a delivery that is taken completely can be cut anywhere), and at the end of the body there is one such state only.
-/
import ZckModel.Props.C05MpComplete
namespace Zck.C05
open Zck Zck.Format Zck.Dl Zck.Copy

/-! ### dl_write_range: how much it takes, cutting a delivery -/

theorem dwr_le (e : Env) : ∀ (F : Nat) (st : St) (x : Bytes), (dlWriteRange e F st x).1 ≤ x.length
  | 0, st, x => by unfold dlWriteRange; simp
  | F + 1, st, x => by
    by_cases he : st.err = true
    · unfold dlWriteRange; simp [he]
    by_cases hr : e.ridx.isEmpty = true
    · unfold dlWriteRange; simp [he, hr]
    have he' : st.err = false := by simpa using he
    have hr' : e.ridx.isEmpty = false := by simpa using hr
    cases hw : dlWrite st x with
    | mk o st1 =>
      cases o with
      | none => rw [dwr_step_none e F st st1 x he' hr' hw]; simp
      | some wb =>
        have hs := C17.dlWrite_some st x wb st1 hw
        rw [dwr_step e F st st1 x wb he' hr' hw]
        unfold cont
        simp only
        generalize (if st1.writeInChunk = 0 then dlSelect e st1 else (true, st1)) = r
        have hwb : wb ≤ x.length := by
          by_cases h0 : st.writeInChunk = 0
          · have := hs.1 h0; omega
          · have := hs.2 (by omega); omega
        split
        · simp
        · split
          · rename_i hrec
            have ih := dwr_le e F r.2 (x.drop wb)
            unfold bump
            split
            · simp
            · simp only [List.length_drop] at ih ⊢; omega
          · exact hwb

theorem dwr_fuel_le (e : Env) (F F' : Nat) (st : St) (x : Bytes) (h1 : 2 * x.length + 2 ≤ F) (h2 : 2 * x.length + 2 ≤ F') :
    dlWriteRange e F st x = dlWriteRange e F' st x := by
  apply dwr_fuel <;> (unfold dneed; split <;> omega)

/-- **cutting a delivery that is taken completely**: the first piece is taken completely and leaves a chunk open, and the second
piece delivered after it ends in exactly the state of the whole delivery -/
theorem dwr_cut (e : Env) (st : St) (a b : Bytes) (F F1 F2 : Nat) (ha : a ≠ []) (hb : b ≠ []) (he : st.err = false) (hi : HashInv st)
    (hF : 2 * (a ++ b).length + 2 ≤ F) (hF1 : 2 * a.length + 2 ≤ F1) (hF2 : 2 * b.length + 2 ≤ F2)
    (ht : (dlWriteRange e F st (a ++ b)).1 = (a ++ b).length) :
    (dlWriteRange e F1 st a).1 = a.length ∧ (dlWriteRange e F1 st a).2.writeInChunk > 0 ∧
    (dlWriteRange e F2 (dlWriteRange e F1 st a).2 b).1 = b.length ∧
    (dlWriteRange e F2 (dlWriteRange e F1 st a).2 b).2 = (dlWriteRange e F st (a ++ b)).2 := by
  have hr : e.ridx.isEmpty = false := by
    cases hre : e.ridx.isEmpty with
    | false => rfl
    | true =>
      have hal : 0 < a.length := List.length_pos_iff.mpr ha
      cases F with
      | zero => simp at hF
      | succ F' =>
        unfold dlWriteRange at ht
        simp [he, hre] at ht
        omega
  obtain ⟨G, rfl⟩ : ∃ G, F = G + 1 := ⟨F - 1, by omega⟩
  simp only [List.length_append] at hF ht
  have hsp := dwr_split e hr st a b G ha (by omega) he hi
  rw [dwr_fuel_le e F1 (G + 1) st a hF1 (by omega)]
  have hle := dwr_le e (G + 1) st a
  generalize hp : dlWriteRange e (G + 1) st a = p at hsp hle
  rw [hsp] at ht ⊢
  unfold combine at ht ⊢
  by_cases hc : p.1 = a.length ∧ p.2.writeInChunk > 0 ∧ b ≠ []
  · rw [if_pos hc] at ht ⊢
    rw [dwr_fuel_le e F2 (G + 1) p.2 b hF2 (by omega)]
    generalize dlWriteRange e (G + 1) p.2 b = q at ht ⊢
    unfold bump at ht ⊢
    have hbl : 0 < b.length := List.length_pos_iff.mpr hb
    by_cases hq : q.1 = 0
    · simp only [hq, ↓reduceIte] at ht; omega
    · simp only [hq, ↓reduceIte] at ht ⊢
      exact ⟨hc.1, hc.2.1, by omega, trivial⟩
  · rw [if_neg hc] at ht
    have hbl : 0 < b.length := List.length_pos_iff.mpr hb
    omega

/-! ### replacing the multipart bookkeeping -/

def setMp (m : Mp) (s : St) : St := { s with mp := m }

theorem dwr_setMp (e : Env) (m : Mp) (F : Nat) (s : St) (x : Bytes) :
    dlWriteRange e F (setMp m s) x = ((dlWriteRange e F s x).1, setMp m (dlWriteRange e F s x).2) := by
  have h1 : setMp m s = aux (setMp m s) s := rfl
  rw [h1, aux_dwr]
  congr 1
  have h2 := dwr_keeps e F s x
  generalize (dlWriteRange e F s x).2 = o at h2 ⊢
  rw [← h2]
  rfl

/-! ### the scan for the end of a part header -/

theorem scanFrom_inr_at : ∀ (bs : Bytes) (j r : Nat), scanFrom bs j = .inr r → ((bs.drop (r - j)).take 4 = crlf2 ∧ j ≤ r)
  | [], j, r, h => by simp [scanFrom] at h
  | [_], j, r, h => by simp [scanFrom] at h
  | [_, _], j, r, h => by simp [scanFrom] at h
  | [_, _, _], j, r, h => by simp [scanFrom] at h
  | [_, _, _, _], j, r, h => by simp [scanFrom] at h
  | a :: b :: c :: d :: x :: rest, j, r, h => by
    unfold scanFrom at h
    split at h
    · rename_i hc
      obtain ⟨c0, c1, c2, c3⟩ := hc
      simp only [Sum.inr.injEq] at h
      subst h
      simp [crlf2, c0, c1, c2, c3]
    · have ih := scanFrom_inr_at (b :: c :: d :: x :: rest) (j + 1) r h
      have hj : r - j = (r - (j + 1)) + 1 := by omega
      rw [hj]
      exact ⟨ih.1, by omega⟩

/-- a terminator found in a buffer is found at the same place when more bytes follow -/
theorem scanFrom_append_inr : ∀ (a b : Bytes) (j r : Nat), scanFrom a j = .inr r → scanFrom (a ++ b) j = .inr r
  | [], _, j, r, h => by simp [scanFrom] at h
  | [_], _, j, r, h => by simp [scanFrom] at h
  | [_, _], _, j, r, h => by simp [scanFrom] at h
  | [_, _, _], _, j, r, h => by simp [scanFrom] at h
  | [_, _, _, _], _, j, r, h => by simp [scanFrom] at h
  | a0 :: a1 :: a2 :: a3 :: a4 :: rest, b, j, r, h => by
    unfold scanFrom at h
    simp only [List.cons_append]
    unfold scanFrom
    split at h
    · rename_i hc; rw [if_pos hc]; exact h
    · rename_i hc; rw [if_neg hc]
      exact scanFrom_append_inr (a1 :: a2 :: a3 :: a4 :: rest) b (j + 1) r h

theorem noHeader_prefix (t s : Bytes) (h : NoHeader (t ++ s)) : NoHeader t :=
  fun j r hr => h j r (scanFrom_append_inr t s j r hr)

/-- the beginning of a part — less than the header, its terminator and one byte of payload — holds no complete part header -/
theorem noHeader_short (h0 t s : Bytes) (hearly : NoEarly h0) (hp : t ++ s = h0 ++ crlf2) : NoHeader t := by
  intro j r hr
  have hsp := (C17.scanFrom_spec t j).2 r hr
  obtain ⟨hat, hjr⟩ := scanFrom_inr_at t j r hr
  have hl := congrArg List.length hp
  simp only [List.length_append, crlf2, List.length_cons, List.length_nil] at hl
  have hlt : r - j < h0.length := by omega
  apply hearly (r - j) hlt
  rw [← hp, List.drop_append_of_le_length (by omega), List.take_append_of_le_length (by simp only [List.length_drop]; omega)]
  exact hat

/-! ### the loop's steps on partial parts -/

/-- the part pattern finds, in the part header `h0`, the two numbers of a range of `L` bytes -/
def RxFinds (rx : Rx) (pp : Bytes) (h0 : Bytes) (L : Nat) : Prop :=
  ∃ a1 b1 a2 b2, rx.part pp (cstr (h0 ++ [13, 10, 13, 0])) = some (a1, b1, a2, b2) ∧ a1 ≤ b1 ∧
    b1 ≤ (cstr (h0 ++ [13, 10, 13, 0])).length ∧ a2 ≤ b2 ∧ b2 ≤ (cstr (h0 ++ [13, 10, 13, 0])).length ∧
    (parseNum (cstr (h0 ++ [13, 10, 13, 0])) a2 b2 + W64 - parseNum (cstr (h0 ++ [13, 10, 13, 0])) a1 b1 + 1) % W64 = L

/-- the part header `h0` ends at its first CRLFCRLF and the part pattern finds in it a range of `L` bytes -/
def HdrOk (rx : Rx) (pp : Bytes) (h0 : Bytes) (L : Nat) : Prop := NoEarly h0 ∧ RxFinds rx pp h0 L

theorem hdrOk_of_partOk (rx : Rx) (pp : Bytes) (p : Part) (h : PartOk rx pp p) : HdrOk rx pp p.h0 p.payload.length :=
  ⟨h.early, h.m⟩

/-- the header step with any non-empty beginning of the payload in the buffer -/
theorem mpLoop_header_gen (e : Env) (fuel hs i : Nat) (buf h0 : Bytes) (y : UInt8) (ys : Bytes) (L : Nat) (st : St) (pp : Bytes)
    (hd : buf.drop i = h0 ++ crlf2 ++ y :: ys) (hst : st.mp.state = 0) (hrx : st.dlRx = .ok pp) (hp : HdrOk e.rx pp h0 L) :
    mpLoop e (fuel + 1) buf i hs st =
      mpLoop e fuel (buf.set (i + h0.length + 3) 0) (i + h0.length + 4) hs
        { st with mp := { st.mp with length := L, state := 1 } } := by
  have hil : i < buf.length := by
    have hl := congrArg List.length hd
    simp [crlf2] at hl
    omega
  have hb : buf = buf.take i ++ (h0 ++ crlf2 ++ y :: ys) := by rw [← hd, List.take_append_drop]
  have hti : (buf.take i).length = i := by simp; omega
  conv => lhs; unfold mpLoop
  simp only [hst, ne_eq, not_true_eq_false, ↓reduceIte]
  rw [if_neg (by omega)]
  have hscan : scanHdr buf i = .inr (i + h0.length) := by
    unfold scanHdr
    rw [hd]
    exact scanFrom_find h0 y ys i hp.1
  rw [hscan]
  simp only
  have hsubj : cstr ((buf.set (i + h0.length + 3) 0).drop i) = cstr (h0 ++ [13, 10, 13, 0]) := by
    have hset : buf.set (i + h0.length + 3) 0 = buf.take i ++ (h0 ++ [13, 10, 13] ++ 0 :: (y :: ys)) := by
      conv => lhs; rw [hb]
      rw [List.set_append_right _ _ (by omega)]
      congr 1
      have : i + h0.length + 3 - (buf.take i).length = h0.length + 3 := by omega
      rw [this]
      have e1 : h0 ++ crlf2 ++ y :: ys = (h0 ++ [13, 10, 13]) ++ 10 :: (y :: ys) := by simp [crlf2]
      rw [e1, List.set_append_right _ _ (by simp)]
      simp
    rw [hset]
    have : (buf.take i ++ (h0 ++ [13, 10, 13] ++ 0 :: (y :: ys))).drop i = h0 ++ [13, 10, 13] ++ 0 :: (y :: ys) := by
      have h := List.drop_left (l₁ := buf.take i) (l₂ := h0 ++ [13, 10, 13] ++ 0 :: (y :: ys))
      rw [hti] at h
      exact h
    rw [this]
    have := cstr_append_zero (h0 ++ [13, 10, 13]) (y :: ys)
    simpa [List.append_assoc] using this
  rw [hsubj]
  obtain ⟨a1, b1, a2, b2, hm, h1, h2, h3, h4, hlen⟩ := hp.2
  unfold mpPartHeader
  rw [hrx]
  simp only [hm]
  rw [if_neg (by simp only [Classical.not_not]; exact ⟨h1, h2, h3, h4⟩)]
  simp only [hlen]

/-- the payload step when the buffer ends inside the payload: everything that is left goes to `dl_write_range` -/
theorem mpLoop_payload_partial (e : Env) (fuel hs i : Nat) (buf : Bytes) (st : St)
    (hi : i < buf.length) (hst : st.mp.state ≠ 0) (hgt : buf.length - i < st.mp.length) :
    mpLoop e (fuel + 2) buf i hs st =
      (if (dlWriteRange e (2 * (buf.length - i) + 2) { st with mp := { st.mp with length := st.mp.length - (buf.length - i) } } (buf.drop i)).1
            ≠ buf.length - i
       then (false, (dlWriteRange e (2 * (buf.length - i) + 2) { st with mp := { st.mp with length := st.mp.length - (buf.length - i) } } (buf.drop i)).2)
       else (true, (dlWriteRange e (2 * (buf.length - i) + 2) { st with mp := { st.mp with length := st.mp.length - (buf.length - i) } } (buf.drop i)).2)) := by
  have hi' : ¬ (i ≥ buf.length) := by omega
  have hle : ¬ (st.mp.length ≤ buf.length - i) := by omega
  have htake : (buf.drop i).take (buf.length - i) = buf.drop i := by
    rw [List.take_of_length_le (by simp)]
  conv => lhs; unfold mpLoop
  simp only [hst, ne_eq, not_false_eq_true, ↓reduceIte, hi']
  unfold mpPayload
  simp only [hle, ↓reduceIte, htake]
  split
  · rename_i h; rw [if_pos (by simpa using h)]
  · rename_i h; rw [if_neg (by simpa using h)]
    have hmp := dwr_mp e (2 * (buf.length - i) + 2) { st with mp := { st.mp with length := st.mp.length - (buf.length - i) } } (buf.drop i)
    unfold mpLoop
    have hs1 : (dlWriteRange e (2 * (buf.length - i) + 2) { st with mp := { st.mp with length := st.mp.length - (buf.length - i) } } (buf.drop i)).2.mp.state ≠ 0 := by
      rw [hmp]; exact hst
    simp only [hs1, ne_eq, not_false_eq_true, ↓reduceIte]
    rw [if_pos (by omega)]

/-! ### states between two callbacks -/

/-- a context at a part boundary of a multipart body that is being taken -/
structure Bd (pp : Bytes) (s : St) : Prop where
  err : s.err = false
  mp  : s.mp = {}
  rx  : s.dlRx = .ok pp
  hi  : HashInv s

theorem bd_dwr (e : Env) (pp : Bytes) (s : St) (x : Bytes) (F : Nat) (hb : Bd pp s) (hx : x ≠ [])
    (ht : (dlWriteRange e F s x).1 = x.length) : Bd pp (dlWriteRange e F s x).2 :=
  ⟨dwr_ok_err e F s x (by have := List.length_pos_iff.mpr hx; omega), by rw [dwr_mp]; exact hb.mp,
   by rw [dwr_dlRx]; exact hb.rx, hashInv_dwr e F s x hb.hi⟩

/-- at a boundary, with the beginning `t` of the next part header (or of the trailer) kept for the next call -/
def withBuf (s : St) (t : Bytes) : St := if t = [] then s else setMp { s.mp with buffer := some t } s

/-- inside a payload: `x1` has been handed to `dl_write_range`, `n` more bytes of the part are expected -/
def inPay (e : Env) (s : St) (x1 : Bytes) (n : Nat) : St :=
  setMp { state := 1, length := n, buffer := none } (dlWriteRange e (2 * x1.length + 2) s x1).2

/-- `s` is the context after the bytes `d` of the body `partsBytes todo ++ trailer` have been delivered to a context that was
`sb` at the part boundary where `d` begins -/
inductive Reach (e : Env) (trailer : Bytes) (sb : St) (todo : List Part) (d : Bytes) (s : St) : Prop
  | hdr (k rest : List Part) (t w : Bytes) (h1 : todo = k ++ rest) (h2 : d = partsBytes k ++ t)
        (h3 : t ++ w = partsBytes rest ++ trailer) (h4 : NoHeader t) (h5 : s = withBuf (dwrParts e sb k) t)
  | pay (k : List Part) (p : Part) (rest : List Part) (x1 x2 : Bytes) (h1 : todo = k ++ p :: rest) (h2 : p.payload = x1 ++ x2)
        (h3 : x1 ≠ []) (h4 : x2 ≠ []) (h5 : d = partsBytes k ++ (p.h0 ++ crlf2 ++ x1))
        (h6 : s = inPay e (dwrParts e sb k) x1 x2.length)

theorem partsBytes_cons (p : Part) (ps : List Part) : partsBytes (p :: ps) = p.bytes ++ partsBytes ps := by
  simp [partsBytes]

theorem partsBytes_append (a b : List Part) : partsBytes (a ++ b) = partsBytes a ++ partsBytes b := by
  simp [partsBytes]

theorem dwrParts_append (e : Env) : ∀ (a b : List Part) (s : St), dwrParts e s (a ++ b) = dwrParts e (dwrParts e s a) b
  | [], _, _ => rfl
  | p :: a, b, s => by simp only [List.cons_append, dwrParts]; exact dwrParts_append e a b _

theorem taken_append (e : Env) : ∀ (a b : List Part) (s : St), Taken e s (a ++ b) ↔ (Taken e s a ∧ Taken e (dwrParts e s a) b)
  | [], _, _ => by simp [Taken, dwrParts]
  | p :: a, b, s => by
    simp only [List.cons_append, Taken, dwrParts]
    rw [taken_append e a b]
    exact and_assoc.symm

theorem reach_cons (e : Env) (trailer : Bytes) (sb : St) (p : Part) (rest : List Part) (d s) 
    (h : Reach e trailer (dlWriteRange e (2 * p.payload.length + 2) sb p.payload).2 rest d s) :
    Reach e trailer sb (p :: rest) (p.bytes ++ d) s := by
  cases h with
  | hdr k r t w h1 h2 h3 h4 h5 =>
    exact .hdr (p :: k) r t w (by rw [h1]; rfl) (by rw [h2, partsBytes_cons, List.append_assoc]) h3 h4 h5
  | pay k q r x1 x2 h1 h2 h3 h4 h5 h6 =>
    exact .pay (p :: k) q r x1 x2 (by rw [h1]; rfl) h2 h3 h4 (by rw [h5, partsBytes_cons]; simp [List.append_assoc]) h6

theorem reach_append (e : Env) (trailer : Bytes) : ∀ (k0 : List Part) (sb : St) (rest : List Part) (d : Bytes) (s : St),
    Reach e trailer (dwrParts e sb k0) rest d s → Reach e trailer sb (k0 ++ rest) (partsBytes k0 ++ d) s
  | [], sb, rest, d, s, h => by simpa [partsBytes, dwrParts] using h
  | p :: k0, sb, rest, d, s, h => by
    have := reach_append e trailer k0 _ rest d s h
    have := reach_cons e trailer sb p (k0 ++ rest) _ s this
    rw [partsBytes_cons, List.append_assoc]
    exact this

theorem append_split_ge {α : Type} (a b c d : List α) (h : a ++ b = c ++ d) (hl : c.length ≤ a.length) :
    ∃ c', a = c ++ c' ∧ c' ++ b = d := by
  rcases List.append_eq_append_iff.mp h with ⟨a', h1, h2⟩ | ⟨c', h1, h2⟩
  · have : a'.length = 0 := by have := congrArg List.length h1; simp at this; omega
    have ha' : a' = [] := List.eq_nil_of_length_eq_zero this
    subst ha'
    exact ⟨[], by simpa using h1.symm, by simpa using h2⟩
  · exact ⟨c', h1, h2.symm⟩

theorem append_split_le {α : Type} (a b c d : List α) (h : a ++ b = c ++ d) (hl : a.length ≤ c.length) :
    ∃ a', c = a ++ a' ∧ b = a' ++ d := by
  obtain ⟨x, h1, h2⟩ := append_split_ge c d a b h.symm hl
  exact ⟨x, h1, h2.symm⟩

theorem setMp_boundary (sb : St) (hmp : sb.mp = {}) (L n : Nat) :
    ({ ({ sb with mp := { sb.mp with length := L, state := 1 } } : St) with
        mp := { ({ sb.mp with length := L, state := 1 } : Mp) with length := n } } : St) =
      setMp { state := 1, length := n, buffer := none } sb := by
  obtain ⟨file, pos, valid, err, hash, cur, curNull, dlChunkData, writeInChunk, tgtCheck, mp, boundary, hdrRx, dlRx, endRx, dlBytes, ub⟩ := sb
  simp only at hmp
  subst hmp
  rfl

theorem drop_nil_iff (buf : Bytes) (i : Nat) : buf.drop i = [] ↔ ¬ (buf.length - i > 0) := by
  rw [List.drop_eq_nil_iff]; omega

/-- the end of the data in header mode, as a `withBuf` -/
theorem mpLoop_tail_buf (e : Env) (fuel i : Nat) (buf : Bytes) (sb : St) (hst : sb.mp.state = 0) (hi : i ≤ buf.length)
    (hn : NoHeader (buf.drop i)) (hf : 2 ≤ fuel) : mpLoop e fuel buf i i sb = (true, withBuf sb (buf.drop i)) := by
  obtain ⟨F, rfl⟩ : ∃ F, fuel = F + 2 := ⟨fuel - 2, by omega⟩
  rw [mpLoop_tail e F i buf sb hst hi hn]
  unfold withBuf
  by_cases h : buf.length - i > 0
  · rw [if_pos h, if_neg (by rw [drop_nil_iff]; omega)]; rfl
  · rw [if_neg h, if_pos (by rw [drop_nil_iff]; exact h)]

/-- **the loop from a part boundary over any beginning of the rest of the body** -/
theorem lp (e : Env) (pp trailer : Bytes) (htr : NoHeader trailer) : ∀ (todo : List Part) (sb : St) (buf : Bytes) (i fuel : Nat) (w : Bytes),
    Bd pp sb → (∀ p ∈ todo, PartOk e.rx pp p) → Taken e sb todo → i ≤ buf.length →
    buf.drop i ++ w = partsBytes todo ++ trailer → 2 * (buf.length - i) + 3 ≤ fuel →
    ∃ s', mpLoop e fuel buf i i sb = (true, s') ∧ Reach e trailer sb todo (buf.drop i) s'
  | [], sb, buf, i, fuel, w, hb, _, _, hi, hd, hf => by
    have hst : sb.mp.state = 0 := by rw [hb.mp]
    have hn : NoHeader (buf.drop i) := noHeader_prefix _ w (by rw [hd]; simpa [partsBytes] using htr)
    refine ⟨_, mpLoop_tail_buf e fuel i buf sb hst hi hn (by omega), ?_⟩
    exact .hdr [] [] (buf.drop i) w rfl (by simp [partsBytes]) hd hn rfl
  | p :: rest, sb, buf, i, fuel, w, hb, hok, htk, hi, hd, hf => by
    have hst : sb.mp.state = 0 := by rw [hb.mp]
    have hl0 : sb.mp.length = 0 := by rw [hb.mp]
    have hp := hok p List.mem_cons_self
    obtain ⟨ht1, ht2⟩ := htk
    rw [partsBytes_cons, List.append_assoc] at hd
    have hbl : p.bytes.length = p.h0.length + 4 + p.payload.length := by simp [Part.bytes, crlf2]; omega
    have hlen' : (buf.drop i).length = buf.length - i := by simp
    by_cases hfull : p.bytes.length ≤ (buf.drop i).length
    · -- the whole part is in the buffer
      obtain ⟨c', hc1, hc2⟩ := append_split_ge _ _ _ _ hd hfull
      obtain ⟨F, rfl⟩ : ∃ F, fuel = F + 2 := ⟨fuel - 2, by omega⟩
      have hstep := mpLoop_part e F i i buf c' p sb pp hc1 hst hl0 hb.rx hp
      rw [if_neg (by simpa using ht1)] at hstep
      have hd1 : (buf.set (i + p.h0.length + 3) 0).drop (i + p.bytes.length) = c' := by
        rw [List.drop_set_of_lt (by omega), ← List.drop_drop, hc1]
        simp
      obtain ⟨s', hs1, hs2⟩ := lp e pp trailer htr rest (dlWriteRange e (2 * p.payload.length + 2) sb p.payload).2
        (buf.set (i + p.h0.length + 3) 0) (i + p.bytes.length) F w (bd_dwr e pp sb _ _ hb hp.nonempty ht1)
        (fun q hq => hok q (List.mem_cons_of_mem _ hq)) ht2 (by simp only [List.length_set]; omega) (by rw [hd1]; exact hc2)
        (by simp only [List.length_set]; omega)
      refine ⟨s', by rw [hstep]; exact hs1, ?_⟩
      rw [hd1] at hs2
      rw [hc1]
      exact reach_cons e trailer sb p rest c' s' hs2
    · -- the buffer ends inside the part
      have hlt : (buf.drop i).length < p.bytes.length := by omega
      obtain ⟨a', ha1, ha2⟩ := append_split_le _ _ _ _ hd (by omega)
      by_cases hshort : (buf.drop i).length ≤ p.h0.length + 4
      · -- not even the part header with one byte of payload
        have hpb : buf.drop i ++ a' = (p.h0 ++ crlf2) ++ p.payload := by rw [← ha1]; simp [Part.bytes]
        obtain ⟨s1, hs1, _⟩ := append_split_le _ _ _ _ hpb (by simp [crlf2]; omega)
        have hn : NoHeader (buf.drop i) := noHeader_short p.h0 _ s1 hp.early hs1.symm
        refine ⟨_, mpLoop_tail_buf e fuel i buf sb hst hi hn (by omega), ?_⟩
        exact .hdr [] (p :: rest) (buf.drop i) w rfl (by simp [partsBytes]) (by rw [partsBytes_cons, List.append_assoc]; exact hd) hn rfl
      · -- the part header and a beginning of the payload
        have hpb : (p.h0 ++ crlf2) ++ p.payload = buf.drop i ++ a' := by rw [← ha1]; simp [Part.bytes]
        obtain ⟨x1, hx1, hx2⟩ := append_split_le _ _ _ _ hpb (by simp [crlf2]; omega)
        have hx1l : (buf.drop i).length = p.h0.length + 4 + x1.length := by rw [hx1]; simp [crlf2]; omega
        have hx1ne : x1 ≠ [] := by intro h; rw [h] at hx1l; simp at hx1l; omega
        have ha'l : p.payload.length = x1.length + a'.length := by rw [hx2]; simp
        have ha'ne : a' ≠ [] := by intro h; rw [h] at ha'l; simp at ha'l; omega
        obtain ⟨y, ys, hy⟩ := List.exists_cons_of_ne_nil hx1ne
        obtain ⟨F, rfl⟩ : ∃ F, fuel = F + 2 + 1 := ⟨fuel - 3, by omega⟩
        rw [mpLoop_header_gen e (F + 2) i i buf p.h0 y ys p.payload.length sb pp (by rw [hx1, hy]) hst hb.rx (hdrOk_of_partOk _ _ _ hp)]
        have hd1 : (buf.set (i + p.h0.length + 3) 0).drop (i + p.h0.length + 4) = x1 := by
          rw [List.drop_set_of_lt (by omega)]
          have : i + p.h0.length + 4 = i + (p.h0.length + 4) := by omega
          rw [this, ← List.drop_drop, hx1]
          simp [crlf2]
        have hbl' : (buf.set (i + p.h0.length + 3) 0).length - (i + p.h0.length + 4) = x1.length := by
          simp only [List.length_set]; omega
        rw [mpLoop_payload_partial e F i (i + p.h0.length + 4) _ _ (by simp only [List.length_set]; omega) (by simp)
          (by simp only; rw [hbl']; have := List.length_pos_iff.mpr ha'ne; omega)]
        simp only
        rw [hbl', hd1, setMp_boundary sb hb.mp p.payload.length (p.payload.length - x1.length), dwr_setMp]
        have hcut := dwr_cut e sb x1 a' (2 * p.payload.length + 2) (2 * x1.length + 2) (2 * a'.length + 2) hx1ne ha'ne hb.err hb.hi
          (by rw [← hx2]; omega) (Nat.le_refl _) (Nat.le_refl _) (by rw [← hx2]; exact ht1)
        simp only
        rw [if_neg (by simpa using hcut.1)]
        refine ⟨_, rfl, ?_⟩
        refine .pay [] p rest x1 a' rfl hx2 hx1ne ha'ne (by rw [hx1]; simp [partsBytes]) ?_
        unfold inPay
        simp only [dwrParts]
        congr 2
        omega

theorem bd_dwrParts (e : Env) (pp : Bytes) : ∀ (k : List Part) (s : St), Bd pp s → (∀ p ∈ k, PartOk e.rx pp p) → Taken e s k →
    Bd pp (dwrParts e s k)
  | [], s, hb, _, _ => hb
  | p :: k, s, hb, hok, ht => by
    simp only [dwrParts]
    exact bd_dwrParts e pp k _ (bd_dwr e pp s _ _ hb (hok p List.mem_cons_self).nonempty ht.1)
      (fun q hq => hok q (List.mem_cons_of_mem _ hq)) ht.2

theorem mpJoin_withBuf (sb : St) (t f : Bytes) (hmp : sb.mp = {}) : mpJoin (withBuf sb t) f = (t ++ f, sb) := by
  unfold withBuf
  by_cases ht : t = []
  · rw [if_pos ht, ht]; unfold mpJoin; rw [hmp]; rfl
  · rw [if_neg ht]
    obtain ⟨file, pos, valid, err, hash, cur, curNull, dlChunkData, writeInChunk, tgtCheck, mp, boundary, hdrRx, dlRx, endRx, dlBytes, ub⟩ := sb
    simp only at hmp
    subst hmp
    rfl

theorem withBuf_err (sb : St) (t : Bytes) : (withBuf sb t).err = sb.err := by
  unfold withBuf; split <;> rfl

/-- **one more callback**: from any point of a multipart body that is being taken, the next fragment — whatever its length — is
accepted and leads to the point behind it -/
theorem mp_step (e : Env) (pp trailer : Bytes) (htr : NoHeader trailer) (st : St) (ps : List Part) (c f w : Bytes) (s : St)
    (hb : Bd pp st) (hok : ∀ p ∈ ps, PartOk e.rx pp p) (htk : Taken e st ps)
    (hr : Reach e trailer st ps c s) (hf : f ≠ []) (hbody : c ++ f ++ w = partsBytes ps ++ trailer) :
    ∃ s', mpExtract e s f = (true, s') ∧ Reach e trailer st ps (c ++ f) s' := by
  cases hr with
  | hdr k rest t w0 h1 h2 h3 h4 h5 =>
    subst h1
    have hokk : ∀ p ∈ k, PartOk e.rx pp p := fun p hp => hok p (List.mem_append_left _ hp)
    have hokr : ∀ p ∈ rest, PartOk e.rx pp p := fun p hp => hok p (List.mem_append_right _ hp)
    obtain ⟨tk1, tk2⟩ := (taken_append e k rest st).mp htk
    have hbk := bd_dwrParts e pp k st hb hokk tk1
    generalize hsb : dwrParts e st k = sb at h5 tk2 hbk
    have hd : (t ++ f).drop 0 ++ w = partsBytes rest ++ trailer := by
      rw [h2, partsBytes_append] at hbody
      simp only [List.append_assoc] at hbody
      have := List.append_cancel_left hbody
      simpa [List.append_assoc] using this
    obtain ⟨s', hs1, hs2⟩ := lp e pp trailer htr rest sb (t ++ f) 0 (2 * (t ++ f).length + 4) w hbk hokr tk2 (Nat.zero_le _) hd (by omega)
    refine ⟨s', ?_, ?_⟩
    · unfold mpExtract
      rw [h5, withBuf_err, hbk.err, mpJoin_withBuf sb t f hbk.mp]
      simp only [Bool.false_eq_true, ↓reduceIte]
      have hen : mpEnsureRx e sb = (true, sb) := by unfold mpEnsureRx; rw [hbk.rx]
      simp only [hen, not_true_eq_false, ↓reduceIte]
      exact hs1
    · have := reach_append e trailer k st rest (t ++ f) s' (by rw [hsb]; simpa using hs2)
      rw [h2, List.append_assoc]
      exact this
  | pay k p rest x1 x2 h1 h2 h3 h4 h5 h6 =>
    subst h1
    have hokk : ∀ q ∈ k, PartOk e.rx pp q := fun q hq => hok q (List.mem_append_left _ hq)
    have hp : PartOk e.rx pp p := hok p (by simp)
    have hokr : ∀ q ∈ rest, PartOk e.rx pp q := fun q hq => hok q (by simp [hq])
    obtain ⟨tk1, tk2⟩ := (taken_append e k (p :: rest) st).mp htk
    have hbk := bd_dwrParts e pp k st hb hokk tk1
    generalize hsb : dwrParts e st k = sb at h6 tk2 hbk
    obtain ⟨ht1, ht2⟩ := tk2
    -- what is left of the body behind `x1`
    have hrest : f ++ w = x2 ++ (partsBytes rest ++ trailer) := by
      rw [h5, partsBytes_append, partsBytes_cons] at hbody
      simp only [Part.bytes, h2, List.append_assoc] at hbody
      have h := List.append_cancel_left hbody
      have h := List.append_cancel_left h
      have h := List.append_cancel_left h
      have h := List.append_cancel_left h
      exact h
    have hcut := dwr_cut e sb x1 x2 (2 * p.payload.length + 2) (2 * x1.length + 2) (2 * x2.length + 2) h3 h4 hbk.err hbk.hi
      (by rw [h2]; omega) (Nat.le_refl _) (Nat.le_refl _) (by rw [← h2]; exact ht1)
    have hx1l : 0 < x1.length := List.length_pos_iff.mpr h3
    have herr1 : (dlWriteRange e (2 * x1.length + 2) sb x1).2.err = false := dwr_ok_err e _ sb x1 (by omega)
    have hmp1 : (dlWriteRange e (2 * x1.length + 2) sb x1).2.mp = {} := by rw [dwr_mp]; exact hbk.mp
    have hrx1 : (dlWriteRange e (2 * x1.length + 2) sb x1).2.dlRx = .ok pp := by rw [dwr_dlRx]; exact hbk.rx
    have hfl : 0 < f.length := List.length_pos_iff.mpr hf
    -- the callback's first steps
    have hext : mpExtract e s f = mpLoop e (2 * f.length + 4) f 0 0 s := by
      unfold mpExtract
      have he : s.err = false := by rw [h6]; exact herr1
      have hj : mpJoin s f = (f, s) := by unfold mpJoin; rw [h6]; rfl
      have hen : mpEnsureRx e s = (true, s) := by
        unfold mpEnsureRx
        have : s.dlRx = .ok pp := by rw [h6]; exact hrx1
        rw [this]
      rw [he, hj]
      simp only [Bool.false_eq_true, ↓reduceIte, hen, not_true_eq_false]
    have hstate : s.mp.state ≠ 0 := by rw [h6]; simp [inPay, setMp]
    have hlenmp : s.mp.length = x2.length := by rw [h6]; rfl
    by_cases hlt : f.length < x2.length
    · -- the fragment ends inside the payload
      obtain ⟨x2', hx2a, hx2b⟩ := append_split_le _ _ _ _ hrest (by omega)
      have hx2'ne : x2' ≠ [] := by
        intro h; rw [h] at hx2a; have := congrArg List.length hx2a; simp at this; omega
      have hA := dwr_cut e sb (x1 ++ f) x2' (2 * p.payload.length + 2) (2 * (x1 ++ f).length + 2) (2 * x2'.length + 2)
        (by simp [h3]) hx2'ne hbk.err hbk.hi (by rw [h2, hx2a]; simp only [List.length_append]; omega) (Nat.le_refl _) (Nat.le_refl _)
        (by rw [List.append_assoc, ← hx2a, ← h2]; exact ht1)
      have hB := dwr_cut e sb x1 f (2 * (x1 ++ f).length + 2) (2 * x1.length + 2) (2 * f.length + 2) h3 hf hbk.err hbk.hi
        (Nat.le_refl _) (Nat.le_refl _) (Nat.le_refl _) hA.1
      refine ⟨inPay e sb (x1 ++ f) x2'.length, ?_, ?_⟩
      · rw [hext]
        have hfu : 2 * f.length + 4 = (2 * f.length + 2) + 2 := by omega
        rw [hfu, mpLoop_payload_partial e (2 * f.length + 2) 0 0 f s hfl hstate (by rw [hlenmp]; omega)]
        simp only [Nat.sub_zero, List.drop_zero]
        have hs' : ({ s with mp := { s.mp with length := s.mp.length - f.length } } : St) =
            setMp { state := 1, length := x2'.length, buffer := none } (dlWriteRange e (2 * x1.length + 2) sb x1).2 := by
          rw [h6]
          simp only [inPay, setMp]
          have : x2.length - f.length = x2'.length := by rw [hx2a]; simp
          rw [this]
        rw [hs', dwr_setMp]
        simp only
        rw [hB.2.2.1, hB.2.2.2]
        simp only [ne_eq, not_true_eq_false, ↓reduceIte]
        rfl
      · have := Reach.pay (e := e) (trailer := trailer) (sb := st) (todo := k ++ p :: rest) (d := c ++ f) (s := inPay e sb (x1 ++ f) x2'.length)
          k p rest (x1 ++ f) x2' rfl (by rw [h2, hx2a, List.append_assoc]) (by simp [h3]) hx2'ne
          (by rw [h5]; simp [List.append_assoc]) (by rw [hsb])
        exact this
    · -- the fragment holds the rest of the payload
      obtain ⟨d', hd1, hd2⟩ := append_split_ge _ _ _ _ hrest (by omega)
      have hsb1 : Bd pp (dlWriteRange e (2 * p.payload.length + 2) sb p.payload).2 := bd_dwr e pp sb _ _ hbk hp.nonempty ht1
      obtain ⟨s', hs1, hs2⟩ := lp e pp trailer htr rest (dlWriteRange e (2 * p.payload.length + 2) sb p.payload).2 f x2.length
        (2 * f.length + 3) w hsb1 hokr ht2 (by omega) (by rw [hd1]; simpa using hd2) (by omega)
      refine ⟨s', ?_, ?_⟩
      · rw [hext]
        have hfu : 2 * f.length + 4 = (2 * f.length + 3) + 1 := by omega
        rw [hfu, mpLoop_payload e (2 * f.length + 3) 0 0 f x2 d' s (by simpa using hd1) h4 hstate hlenmp]
        have hs0 : ({ s with mp := { s.mp with length := 0, state := 0 } } : St) = (dlWriteRange e (2 * x1.length + 2) sb x1).2 := by
          rw [h6]
          simp only [inPay, setMp]
          generalize dlWriteRange e (2 * x1.length + 2) sb x1 = o at hmp1 ⊢
          obtain ⟨o1, o2⟩ := o
          obtain ⟨file, pos, valid, err, hash, cur, curNull, dlChunkData, writeInChunk, tgtCheck, mp, boundary, hdrRx, dlRx, endRx, dlBytes, ub⟩ := o2
          simp only at hmp1
          subst hmp1
          rfl
        rw [hs0, hcut.2.2.2, if_neg (by simpa using hcut.2.2.1)]
        simp only [Nat.zero_add]
        rw [← h2]
        exact hs1
      · have hk : dwrParts e st (k ++ [p]) = (dlWriteRange e (2 * p.payload.length + 2) sb p.payload).2 := by
          rw [dwrParts_append, hsb]; rfl
        have := reach_append e trailer (k ++ [p]) st rest (f.drop x2.length) s' (by rw [hk]; exact hs2)
        have e1 : k ++ [p] ++ rest = k ++ p :: rest := by simp
        have e2 : partsBytes (k ++ [p]) ++ f.drop x2.length = c ++ f := by
          rw [h5, hd1, partsBytes_append, partsBytes_cons]
          simp [partsBytes, Part.bytes, h2, List.append_assoc]
        rw [e1, e2] at this
        exact this

/-- `multipart_extract` called with one fragment after the other, stopping at the first refusal -/
def mpFeed (e : Env) : St → List Bytes → Bool × St
  | s, [] => (true, s)
  | s, f :: fs => if (mpExtract e s f).1 then mpFeed e (mpExtract e s f).2 fs else (false, (mpExtract e s f).2)

theorem mp_steps (e : Env) (pp trailer : Bytes) (htr : NoHeader trailer) (st : St) (ps : List Part)
    (hb : Bd pp st) (hok : ∀ p ∈ ps, PartOk e.rx pp p) (htk : Taken e st ps) :
    ∀ (fs : List Bytes) (c w : Bytes) (s : St), Reach e trailer st ps c s → (∀ f ∈ fs, f ≠ []) →
      c ++ fs.flatten ++ w = partsBytes ps ++ trailer →
      ∃ s', mpFeed e s fs = (true, s') ∧ Reach e trailer st ps (c ++ fs.flatten) s'
  | [], c, w, s, hr, _, _ => ⟨s, rfl, by simpa using hr⟩
  | f :: fs, c, w, s, hr, hne, hbody => by
    obtain ⟨s1, h1, h2⟩ := mp_step e pp trailer htr st ps c f (fs.flatten ++ w) s hb hok htk hr (hne f List.mem_cons_self)
      (by simpa [List.append_assoc] using hbody)
    obtain ⟨s', h3, h4⟩ := mp_steps e pp trailer htr st ps hb hok htk fs (c ++ f) w s1 h2
      (fun g hg => hne g (List.mem_cons_of_mem _ hg)) (by simpa [List.append_assoc] using hbody)
    refine ⟨s', ?_, by simpa [List.append_assoc] using h4⟩
    simp only [mpFeed, h1, ↓reduceIte]
    exact h3

/-- at the end of the body there is one state only -/
theorem reach_end (e : Env) (pp trailer : Bytes) (st : St) (ps : List Part) (s : St) (hok : ∀ p ∈ ps, PartOk e.rx pp p)
    (hr : Reach e trailer st ps (partsBytes ps ++ trailer) s) : s = withBuf (dwrParts e st ps) trailer := by
  cases hr with
  | hdr k rest t w h1 h2 h3 h4 h5 =>
    subst h1
    rw [partsBytes_append, List.append_assoc] at h2
    have ht : t = partsBytes rest ++ trailer := (List.append_cancel_left h2).symm
    cases rest with
    | nil =>
      simp only [partsBytes, List.map_nil, List.flatten_nil, List.nil_append] at ht
      rw [h5, ht]; simp
    | cons q rest =>
      exfalso
      have hq := hok q (by simp)
      obtain ⟨y, ys, hy⟩ := List.exists_cons_of_ne_nil hq.nonempty
      have hfind := scanFrom_find q.h0 y (ys ++ (partsBytes rest ++ trailer)) 0 hq.early
      apply h4 0 (0 + q.h0.length)
      rw [ht, partsBytes_cons]
      simp only [Part.bytes, hy, List.append_assoc, List.cons_append] at hfind ⊢
      exact hfind
  | pay k p rest x1 x2 h1 h2 h3 h4 h5 h6 =>
    exfalso
    subst h1
    have := congrArg List.length h5
    simp only [partsBytes_append, partsBytes_cons, Part.bytes, h2, List.length_append] at this
    have := List.length_pos_iff.mpr h4
    omega

theorem withBuf_nil (s : St) : withBuf s [] = s := by simp [withBuf]

theorem dwrParts_mp (e : Env) : ∀ (qs : List Part) (s : St), (dwrParts e s qs).mp = s.mp
  | [], _ => rfl
  | q :: qs, s => by simp only [dwrParts]; rw [dwrParts_mp e qs, dwr_mp]

/-- **C05 (fragmentation independence, multipart path)**: a multipart body — any number of well-formed parts whose payloads
`dl_write_range` takes completely (`multipart_complete`: the case for the stored bytes of the requested chunks), then a trailer —
delivered to `multipart_extract` in ANY sequence of non-empty fragments, down to one byte per call: every fragment is accepted,
and the context at the end — target file, chunk marks, open chunk, running checksum, carry-over buffer, everything — is exactly
the context after delivering the whole body in one call. -/
theorem multipart_frag_indep (e : Env) (st : St) (pp : Bytes) (ps : List Part) (trailer : Bytes) (fs : List Bytes)
    (herr : st.err = false) (hmp : st.mp = {}) (hrx : st.dlRx = .ok pp) (hi : HashInv st) (hne : ps ≠ [])
    (hok : ∀ p ∈ ps, PartOk e.rx pp p) (htr : NoHeader trailer) (htk : Taken e st ps)
    (hfs : ∀ f ∈ fs, f ≠ []) (hcat : fs.flatten = partsBytes ps ++ trailer) :
    mpFeed e st fs = mpExtract e st (partsBytes ps ++ trailer) := by
  have hb : Bd pp st := ⟨herr, hmp, hrx, hi⟩
  have h0 : Reach e trailer st ps [] st :=
    .hdr [] ps [] (partsBytes ps ++ trailer) rfl (by simp [partsBytes]) (by simp) (fun j r => by simp [scanFrom])
      (by simp [dwrParts, withBuf_nil])
  obtain ⟨s', h1, h2⟩ := mp_steps e pp trailer htr st ps hb hok htk fs [] [] st h0 hfs (by simpa using hcat)
  simp only [List.nil_append] at h2
  rw [hcat] at h2
  have hend := reach_end e pp trailer st ps s' hok h2
  rw [h1, multipart_whole e st pp ps trailer herr hmp hrx hne hok htr htk, hend]
  unfold withBuf
  by_cases ht : trailer = []
  · simp [ht]
  · simp only [ht, ↓reduceIte]; rfl


/-! ### the byte counter of the callback is not looked at -/

def setDl (n : Nat) (s : St) : St := { s with dlBytes := n }

theorem dwr_setDl (e : Env) (n : Nat) (F : Nat) (s : St) (x : Bytes) :
    dlWriteRange e F (setDl n s) x = ((dlWriteRange e F s x).1, setDl n (dlWriteRange e F s x).2) := by
  have h1 : setDl n s = aux (setDl n s) s := rfl
  rw [h1, aux_dwr]
  congr 1
  have h2 := dwr_keeps e F s x
  generalize (dlWriteRange e F s x).2 = o at h2 ⊢
  rw [← h2]
  rfl

theorem mpPartHeader_setDl (e : Env) (n : Nat) (t : Bytes) (s : St) :
    mpPartHeader e t (setDl n s) = ((mpPartHeader e t s).1, setDl n (mpPartHeader e t s).2) := by
  obtain ⟨file, pos, valid, err, hash, cur, curNull, dlChunkData, writeInChunk, tgtCheck, mp, boundary, hdrRx, dlRx, endRx, dlBytes, ub⟩ := s
  cases dlRx with
  | null => cases endRx <;> rfl
  | broken => cases endRx <;> rfl
  | ok pp =>
    simp only [mpPartHeader, setDl]
    cases e.rx.part pp t with
    | none =>
      simp only
      cases endRx with
      | null => rfl
      | broken => rfl
      | ok ep => simp only; split <;> rfl
    | some q =>
      obtain ⟨a, b, c, d⟩ := q
      simp only
      split <;> rfl

theorem mpPayload_setDl (e : Env) (n : Nat) (buf : Bytes) (i hs : Nat) (s : St) :
    mpPayload e buf i hs (setDl n s) =
      ((mpPayload e buf i hs s).1, (mpPayload e buf i hs s).2.1, (mpPayload e buf i hs s).2.2.1, setDl n (mpPayload e buf i hs s).2.2.2) := by
  unfold mpPayload
  show (let size := buf.length - i; _) = _
  simp only
  have hm : (setDl n s).mp = s.mp := rfl
  rw [hm]
  split
  · simp only
    have : ({ setDl n s with mp := { s.mp with length := 0, state := 0 } } : St) = setDl n { s with mp := { s.mp with length := 0, state := 0 } } := rfl
    rw [this, dwr_setDl]
  · simp only
    have : ({ setDl n s with mp := { s.mp with length := s.mp.length - (buf.length - i) } } : St) =
        setDl n { s with mp := { s.mp with length := s.mp.length - (buf.length - i) } } := rfl
    rw [this, dwr_setDl]

theorem mpLoop_setDl (e : Env) (n : Nat) : ∀ (fuel : Nat) (buf : Bytes) (i hs : Nat) (s : St),
    mpLoop e fuel buf i hs (setDl n s) = ((mpLoop e fuel buf i hs s).1, setDl n (mpLoop e fuel buf i hs s).2)
  | 0, _, _, _, _ => rfl
  | fuel + 1, buf, i, hs, s => by
    unfold mpLoop
    have hm : (setDl n s).mp = s.mp := rfl
    simp only [hm]
    split
    · split
      · rfl
      · rw [mpPayload_setDl]
        generalize mpPayload e buf i hs s = r
        obtain ⟨r1, r2, r3, r4⟩ := r
        simp only
        split
        · rfl
        · exact mpLoop_setDl e n fuel buf (i + r1) r2 r4
    · split
      · split <;> rfl
      · cases scanHdr buf i with
        | inl j => simp only; exact mpLoop_setDl e n fuel buf (j + 4) hs s
        | inr j =>
          simp only
          rw [mpPartHeader_setDl]
          generalize mpPartHeader e (cstr (List.drop i (buf.set (j + 3) 0))) s = r
          obtain ⟨r1, r2⟩ := r
          cases r1 with
          | false => rfl
          | true => simp only; exact mpLoop_setDl e n fuel (buf.set (j + 3) 0) (j + 4) hs r2

theorem mpEnsureRx_setDl (e : Env) (n : Nat) (s : St) :
    mpEnsureRx e (setDl n s) = ((mpEnsureRx e s).1, setDl n (mpEnsureRx e s).2) := by
  obtain ⟨file, pos, valid, err, hash, cur, curNull, dlChunkData, writeInChunk, tgtCheck, mp, boundary, hdrRx, dlRx, endRx, dlBytes, ub⟩ := s
  cases dlRx with
  | ok pp => rfl
  | broken => rfl
  | null =>
    simp only [mpEnsureRx, setDl, genRegex]
    by_cases h1 : e.rx.comp (partPattern (boundary.getD [])) = true
    · by_cases h2 : e.rx.comp (endPattern (boundary.getD [])) = true
      · simp [h1, h2]
      · simp [h1, h2]
    · simp [h1]

theorem mpExtract_setDl (e : Env) (n : Nat) (s : St) (b : Bytes) :
    mpExtract e (setDl n s) b = ((mpExtract e s b).1, setDl n (mpExtract e s b).2) := by
  unfold mpExtract
  have he : (setDl n s).err = s.err := rfl
  rw [he]
  split
  · rfl
  · have hj : mpJoin (setDl n s) b = ((mpJoin s b).1, setDl n (mpJoin s b).2) := by
      unfold mpJoin
      have hm : (setDl n s).mp = s.mp := rfl
      rw [hm]
      cases s.mp.buffer <;> rfl
    rw [hj]
    simp only
    rw [mpEnsureRx_setDl]
    generalize mpEnsureRx e (mpJoin s b).2 = r
    obtain ⟨r1, r2⟩ := r
    simp only
    split
    · rfl
    · exact mpLoop_setDl e n _ _ 0 0 r2

/-- the write callback, when a boundary is known, is `multipart_extract` plus the byte counter -/
theorem writeChunkCb_mp (e : Env) (s : St) (b : Bytes) (hb : s.boundary.isSome) :
    writeChunkCb e s b = (if (mpExtract e s b).1 then b.length else 0, setDl (s.dlBytes + b.length) (mpExtract e s b).2) := by
  unfold writeChunkCb
  have h1 : ({ s with dlBytes := s.dlBytes + b.length } : St) = setDl (s.dlBytes + b.length) s := rfl
  simp only [h1]
  have h2 : (setDl (s.dlBytes + b.length) s).boundary = s.boundary := rfl
  cases hbb : s.boundary with
  | none => rw [hbb] at hb; simp at hb
  | some bd =>
    simp only
    rw [mpExtract_setDl]

theorem dwr_boundary (e : Env) (F : Nat) (st : St) (x : Bytes) : (dlWriteRange e F st x).2.boundary = st.boundary := by
  have := congrArg St.boundary (dwr_keeps e F st x); exact this.symm

theorem dwrParts_boundary (e : Env) : ∀ (qs : List Part) (s : St), (dwrParts e s qs).boundary = s.boundary
  | [], _ => rfl
  | q :: qs, s => by simp only [dwrParts]; rw [dwrParts_boundary e qs, dwr_boundary]

theorem reach_boundary (e : Env) (trailer : Bytes) (st : St) (ps : List Part) (c : Bytes) (s : St)
    (h : Reach e trailer st ps c s) : s.boundary = st.boundary := by
  cases h with
  | hdr k rest t w h1 h2 h3 h4 h5 =>
    rw [h5]
    unfold withBuf
    split
    · exact dwrParts_boundary e k st
    · exact dwrParts_boundary e k st
  | pay k p rest x1 x2 h1 h2 h3 h4 h5 h6 =>
    rw [h6]
    show (dlWriteRange e _ _ x1).2.boundary = _
    rw [dwr_boundary, dwrParts_boundary]

theorem feed_steps (e : Env) (pp trailer : Bytes) (htr : NoHeader trailer) (st : St) (ps : List Part) (stop clear : Bool)
    (hb : Bd pp st) (hbd : st.boundary.isSome) (hok : ∀ p ∈ ps, PartOk e.rx pp p) (htk : Taken e st ps) :
    ∀ (fs : List Bytes) (c w : Bytes) (s : St) (n : Nat) (acc : List Nat), Reach e trailer st ps c s → (∀ f ∈ fs, f ≠ []) →
      c ++ fs.flatten ++ w = partsBytes ps ++ trailer →
      ∃ s', feed e stop clear (setDl n s) fs acc = (acc.reverse ++ fs.map List.length, setDl (n + fs.flatten.length) s') ∧
        Reach e trailer st ps (c ++ fs.flatten) s'
  | [], c, w, s, n, acc, hr, _, _ => ⟨s, by simp [feed], by simpa using hr⟩
  | f :: fs, c, w, s, n, acc, hr, hne, hbody => by
    obtain ⟨s1, h1, h2⟩ := mp_step e pp trailer htr st ps c f (fs.flatten ++ w) s hb hok htk hr (hne f List.mem_cons_self)
      (by simpa [List.append_assoc] using hbody)
    obtain ⟨s', h3, h4⟩ := feed_steps e pp trailer htr st ps stop clear hb hbd hok htk fs (c ++ f) w s1 (n + f.length) (f.length :: acc) h2
      (fun g hg => hne g (List.mem_cons_of_mem _ hg)) (by simpa [List.append_assoc] using hbody)
    refine ⟨s', ?_, by simpa [List.append_assoc] using h4⟩
    have hbs : (setDl n s).boundary.isSome := by
      have : (setDl n s).boundary = s.boundary := rfl
      rw [this, reach_boundary e trailer st ps c s hr]; exact hbd
    unfold feed
    rw [writeChunkCb_mp e (setDl n s) f hbs, mpExtract_setDl, h1]
    simp only [↓reduceIte, ne_eq, not_true_eq_false, false_and]
    have hsd : setDl ((setDl n s).dlBytes + f.length) (setDl n s1) = setDl (n + f.length) s1 := rfl
    rw [hsd, h3]
    simp [List.append_assoc, Nat.add_assoc]

/-- **C05 (fragmentation independence, multipart path, at the write callback)**: with the boundary known, a multipart body —
well-formed parts whose payloads `dl_write_range` takes completely, then a trailer — handed to `zck_write_chunk_cb` in ANY
sequence of non-empty fragments: every call returns the length of its fragment, and the context at the end is exactly the one
after a single call with the whole body (whatever the transport does on refusals: none occurs). -/
theorem multipart_feed_indep (e : Env) (st : St) (pp : Bytes) (ps : List Part) (trailer : Bytes) (fs : List Bytes)
    (stop clear : Bool) (herr : st.err = false) (hmp : st.mp = {}) (hrx : st.dlRx = .ok pp) (hi : HashInv st)
    (hbd : st.boundary.isSome) (hne : ps ≠ [])
    (hok : ∀ p ∈ ps, PartOk e.rx pp p) (htr : NoHeader trailer) (htk : Taken e st ps)
    (hfs : ∀ f ∈ fs, f ≠ []) (hcat : fs.flatten = partsBytes ps ++ trailer) :
    (feed e stop clear st fs []).1 = fs.map List.length ∧
    (feed e stop clear st fs []).2 = (feed e stop clear st [partsBytes ps ++ trailer] []).2 ∧
    (feed e stop clear st [partsBytes ps ++ trailer] []).1 = [(partsBytes ps ++ trailer).length] := by
  have hb : Bd pp st := ⟨herr, hmp, hrx, hi⟩
  have h0 : Reach e trailer st ps [] st :=
    .hdr [] ps [] (partsBytes ps ++ trailer) rfl (by simp [partsBytes]) (by simp) (fun j r => by simp [scanFrom])
      (by simp [dwrParts, withBuf_nil])
  have hst : setDl st.dlBytes st = st := rfl
  have hbne : partsBytes ps ++ trailer ≠ [] := by
    cases ps with
    | nil => exact absurd rfl hne
    | cons p ps' =>
      have := (hok p List.mem_cons_self).nonempty
      intro h
      have hl := congrArg List.length h
      simp [partsBytes_cons, Part.bytes, crlf2] at hl
  obtain ⟨s1, a1, a2⟩ := feed_steps e pp trailer htr st ps stop clear hb hbd hok htk fs [] [] st st.dlBytes [] h0 hfs (by simpa using hcat)
  obtain ⟨s2, b1, b2⟩ := feed_steps e pp trailer htr st ps stop clear hb hbd hok htk [partsBytes ps ++ trailer] [] [] st st.dlBytes [] h0
    (by simpa using hbne) (by simp)
  rw [hst] at a1 b1
  simp only [List.nil_append] at a2 b2
  rw [hcat] at a2
  simp only [List.flatten_cons, List.flatten_nil, List.append_nil] at b2
  have e1 := reach_end e pp trailer st ps s1 hok a2
  have e2 := reach_end e pp trailer st ps s2 hok b2
  rw [a1, b1, e1, e2, hcat]
  simp

theorem setDl_valid (n : Nat) (s : St) : (setDl n s).valid = s.valid := rfl
theorem setDl_file (n : Nat) (s : St) : (setDl n s).file = s.file := rfl

theorem feed_single (e : Env) (stop clear : Bool) (st : St) (b : Bytes) (hbd : st.boundary.isSome) (hok : (mpExtract e st b).1 = true) :
    feed e stop clear st [b] [] = ([b.length], setDl (st.dlBytes + b.length) (mpExtract e st b).2) := by
  unfold feed
  rw [writeChunkCb_mp e st b hbd, hok]
  simp [feed]

/-- **C05 (the multipart path, every fragmentation)**: a fresh download context that has learnt the boundary, a request whose
entries match the index and are not yet valid, a multipart body whose parts carry — in request order — the server's stored bytes
of consecutive groups of the requested chunks, every part header well formed for the part pattern, then the closing delimiter:
handed to `zck_write_chunk_cb` in ANY sequence of non-empty fragments, every call is accepted, every requested chunk ends up
marked valid, no other mark changes; for a header with non-overlapping extents each requested extent holds the server's bytes
(or a collision of the hash is exhibited) and every byte outside the requested extents is what it was. -/
theorem multipart_complete_frags (e : Env) (hd : Disj e) (stored : Nat → Bytes) (st : St) (pp : Bytes) (ps : List Part)
    (gs : List (List RChunk)) (trailer : Bytes) (fs : List Bytes) (stop clear : Bool)
    (hf : Fresh st) (hmp : st.mp = {}) (hrx : st.dlRx = .ok pp) (hbd : st.boundary.isSome)
    (hpay : ps.map (·.payload) = gs.map (payloadOf stored)) (hgne : ∀ g ∈ gs, g ≠ []) (hne : gs ≠ [])
    (hridx : e.ridx = gs.flatten) (hrun : RunIdx 0 e.ridx)
    (hent : ∀ r ∈ e.ridx, EntryOk e stored r ∧ r.tgt < st.valid.length ∧ st.valid.getD r.tgt 0 ≠ 1)
    (hnd : (e.ridx.map (·.tgt)).Nodup) (hok : ∀ p ∈ ps, PartOk e.rx pp p) (htr : NoHeader trailer)
    (hfs : ∀ f ∈ fs, f ≠ []) (hcat : fs.flatten = partsBytes ps ++ trailer) :
    let out := feed e stop clear st fs []
    out.1 = fs.map List.length ∧ (∀ r ∈ e.ridx, out.2.valid.getD r.tgt 0 = 1) ∧
    (∀ k, (∀ r ∈ e.ridx, r.tgt ≠ k) → out.2.valid.getD k 0 = st.valid.getD k 0) ∧
    (∀ r ∈ e.ridx, ∃ tc, e.hdr.chunks[r.tgt]? = some tc ∧ ChunkOk e out.2.file tc ∧
      (((out.2.file.drop (e.dataOff + tc.start)).take tc.compLen = stored r.tgt) ∨ Collision e.H e.hdr.chunkHashType)) ∧
    (∀ i, Outside e st.valid i → out.2.file.getD i 0 = st.file.getD i 0) := by
  intro out
  obtain ⟨hpne, k1, _, _⟩ := multipart_taken e stored st pp ps gs hf hpay hgne hne hridx hrun hent hnd hok
  have hi : HashInv st := fun h => by rw [hf.wic] at h; omega
  have hfi := multipart_feed_indep e st pp ps trailer fs stop clear hf.err hmp hrx hi hbd hpne hok htr k1 hfs hcat
  have hc := multipart_complete e stored st pp ps gs trailer hf hmp hrx hpay hgne hne hridx hrun hent hnd hok htr
  have hcb := multipart_complete_bytes e hd stored st pp ps gs trailer hf hmp hrx hpay hgne hne hridx hrun hent hnd hok htr
  have hs := feed_single e stop clear st (partsBytes ps ++ trailer) hbd hc.1
  have hout : out.2 = setDl (st.dlBytes + (partsBytes ps ++ trailer).length) (mpExtract e st (partsBytes ps ++ trailer)).2 := by
    show (feed e stop clear st fs []).2 = _
    rw [hfi.2.1, hs]
  refine ⟨hfi.1, ?_, ?_, ?_, ?_⟩
  · intro r hr; rw [hout, setDl_valid]; exact hc.2.1 r hr
  · intro k hk; rw [hout, setDl_valid]; exact hc.2.2 k hk
  · intro r hr; rw [hout, setDl_file]; exact hcb.1 r hr
  · intro i hi'; rw [hout, setDl_file]; exact hcb.2 i hi'

/-- TEST (non-vacuity, labelled as a test): the two-part toy body of `C05Multipart` delivered one byte per call -/
example : let body := partsBytes [part1, part2] ++ [13, 10, 45, 45]
    (feed mpEnv true false { mpSt with boundary := some [] } (body.map fun b => [b]) []).2.file = [9, 9, 9, 9, 9, 9, 1, 2, 3, 4, 5] ∧
    (feed mpEnv true false { mpSt with boundary := some [] } (body.map fun b => [b]) []).2.valid = [1, 1, 1] ∧
    (feed mpEnv true false { mpSt with boundary := some [] } (body.map fun b => [b]) []).1 = body.map fun _ => 1 := by
  decide

end Zck.C05
