/-
C07 — Pinned header validation accepts exactly the authenticated header.
-/
import ZckModel.Pin
import ZckModel.Props.C06

namespace Zck.C07
open Zck Zck.Header Zck.Pin Zck.Res Zck.PredHdr

/-- **hex digits**: `hex_to_int` accepts exactly 0-9, a-f, A-F and returns the digit's value
(all 256 byte values) -/
theorem hex_exact (c : UInt8) :
    hexVal c = if isHex c then some (hexDigitVal c) else none := by
  unfold hexVal isHex hexDigitVal
  by_cases h1 : 48 ≤ c.toNat ∧ c.toNat ≤ 57
  · have : c.toNat ≤ 57 := h1.2
    simp [h1, this]
  · by_cases h2 : 97 ≤ c.toNat ∧ c.toNat ≤ 102
    · have a : ¬ c.toNat ≤ 57 := by omega
      have b : ¬ c.toNat ≤ 70 := by omega
      simp [h1, h2, a, b]; omega
    · by_cases h3 : 65 ≤ c.toNat ∧ c.toNat ≤ 70
      · have a : ¬ c.toNat ≤ 57 := by omega
        simp [h1, h2, h3, a]; omega
      · simp [h1, h2, h3]

/-- **digest strings**: `ascii_checksum_to_bin` succeeds exactly on strings of hex digits and
returns their value, byte by byte (strings of even length, which is what the length check admits) -/
theorem toBin_exact : ∀ (s : Bytes), s.length % 2 = 0 →
    toBin s = if s.all isHex then some (fromHex s) else none
  | [], _ => by simp [toBin, fromHex]
  | [a], h => by simp at h
  | a :: b :: rest, h => by
    have hr : rest.length % 2 = 0 := by simp only [List.length_cons] at h; omega
    have ih := toBin_exact rest hr
    simp only [toBin, hex_exact, ih, List.all_cons, fromHex]
    by_cases ha : isHex a <;> by_cases hb : isHex b <;> by_cases hc : rest.all isHex <;> simp [ha, hb, hc]

/-- the digest setter: accepted iff a type was pinned before, the string has exactly twice the
digest size characters and all are hex digits; the pinned value is the string's value -/
theorem setDigest_iff (p : Pins) (s : Bytes) (q : Pins) :
    setDigest p s = some q ↔
      ∃ t ds, p.ht = some t ∧ Format.hsize t = some ds ∧ s.length = 2 * ds ∧ s.all isHex = true ∧
        q = { p with digest := some (fromHex s) } := by
  unfold setDigest
  constructor
  · intro h
    split at h
    · cases h
    · rename_i t ht
      split at h
      · cases h
      · rename_i ds hds
        split at h
        · cases h
        · rename_i hlen
          have hl : s.length = 2 * ds := by omega
          rw [toBin_exact s (by omega)] at h
          by_cases hall : s.all isHex = true
          · simp only [hall, ↓reduceIte, Option.some.injEq] at h
            exact ⟨t, ds, ht, hds, hl, hall, h.symm⟩
          · simp only [hall] at h
            cases h
  · rintro ⟨t, ds, ht, hds, hl, hall, rfl⟩
    simp only [ht, hds]
    rw [if_neg (by omega), toBin_exact s (by omega), hall]
    simp

/-- **C07 (lead)**: with pins set, `read_lead` accepts exactly when it accepts without pins and
every pinned value equals the file's stored one (type, checksum bytes, total header length) -/
theorem lead_pins_iff (pins : Pins) (f : Bytes) (l : Lead) :
    readLead pins f = .ok l ↔
      readLead {} f = .ok l ∧
      (pins.ht = none ∨ pins.ht = some l.hashType) ∧
      (pins.digest = none ∨ pins.digest = some l.digest) ∧
      (pins.len = none ∨ pins.len = some ((l.headerLen + l.leadSize) % 2^64)) := by
  unfold readLead
  simp only [bind_eq_ok]
  constructor
  · rintro ⟨u1, h1, u2, h2, ⟨ht, n1⟩, h3, u3, h4, ds, h5, ⟨hlen, n2⟩, h6, u4, h7, dg, h8, u5, h9, u6, h10, hfin⟩
    simp only [pure_eq, Res.ok.injEq] at hfin
    subst hfin
    refine ⟨⟨u1, h1, u2, h2, ⟨ht, n1⟩, h3, (), by simp [Header.guard], ds, h5, ⟨hlen, n2⟩, h6, u4, h7, dg, h8,
      (), by simp [Header.guard], (), by simp [Header.guard], rfl⟩, ?_, ?_, ?_⟩
    · exact guard_ok _ _ h4
    · exact guard_ok _ _ h9
    · exact guard_ok _ _ h10
  · rintro ⟨⟨u1, h1, u2, h2, ⟨ht, n1⟩, h3, u3, _, ds, h5, ⟨hlen, n2⟩, h6, u4, h7, dg, h8, u5, _, u6, _, hfin⟩, p1, p2, p3⟩
    simp only [pure_eq, Res.ok.injEq] at hfin
    subst hfin
    simp only at p1 p2 p3
    refine ⟨u1, h1, u2, h2, ⟨ht, n1⟩, h3, (), by simp [Header.guard, p1], ds, h5, ⟨hlen, n2⟩, h6, u4, h7, dg, h8,
      (), by simp [Header.guard, p2], (), by simp [Header.guard, p3], rfl⟩

/-- **C07 (authenticated header)**: a file that opens under a pinned checksum has exactly that
checksum stored, and (C06 gate) it is the checksum of all its header bytes — so two files that
open under the same pinned type and checksum have byte-for-byte the same header after the
identifier, unless the checksum function collides. -/
theorem pinned_open_authentic (H : HashFn) (pins : Pins) (d : Bytes) (hd : pins.digest = some d)
    (f : Bytes) (l : Lead) (hb : Bytes)
    (hl : readLead pins f = .ok l) (ho : readHeaderFromFile H f l = .ok hb) :
    l.digest = d ∧ H l.hashType (digestInput f l) = some d := by
  have := (lead_pins_iff pins f l).mp hl
  obtain ⟨_, _, p2, _⟩ := this
  have hdg : l.digest = d := by
    rcases p2 with h | h
    · rw [hd] at h; cases h
    · rw [hd] at h; exact (Option.some.inj h).symm
  exact ⟨hdg, by rw [← hdg]; exact (C06.gate H f l hb ho).1⟩

/-! Non-vacuity (tests) -/
example : toBin [0x61, 0x46, 0x30, 0x39] = some [0xaf, 0x09] := by decide
example : toBin [0x2a, 0x30] = none := by decide        -- "*0" is rejected
example : hexVal 0x40 = none := by decide                -- '@'

end Zck.C07
