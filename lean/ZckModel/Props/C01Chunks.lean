/-
C01 — the chunker never finishes an empty chunk: every chunk `zck_close` hands to the index has at least one byte
(`closeChunks_nonempty`), which is what `Props/C01Written.lean` asks of the data chunks.
-/
import ZckModel.Props.C01

namespace Zck.Writer
open Zck

/-- no finished chunk is empty -/
def NE (st : St) : Prop := ∀ p ∈ st.chunks, p ≠ []

theorem endChunk_ne (cfg : Cfg) (st : St) (force : Bool) (hw : Wf st) (h : NE st) : NE (endChunk cfg st force) := by
  rcases endChunk_chunks cfg st force with hc | ⟨hc, _, _, _, hn⟩
  · intro p hp; rw [hc] at hp; exact h p hp
  · intro p hp
    rw [hc] at hp
    rcases List.mem_append.mp hp with hp | hp
    · exact h p hp
    · simp at hp; subst hp
      intro he
      have : st.cur.length = 0 := by rw [he]; rfl
      rw [cur_length, ← hw] at this
      exact hn this

theorem feedAuto_ne (cfg : Cfg) : ∀ (fuel : Nat) (st st' : St) (b : UInt8), Wf st → NE st →
    feedAuto cfg fuel st b = some st' → NE st'
  | 0, _, _, _, _, _, h => by simp [feedAuto] at h
  | fuel + 1, st, st', b, hw, hn, h => by
    unfold feedAuto at h
    simp only at h
    have hw2 : Wf { st with buz := (buzUpdate cfg.W st.buz b).1 } := hw
    have hn2 : NE { st with buz := (buzUpdate cfg.W st.buz b).1 } := hn
    split at h
    · split at h
      · exact feedAuto_ne cfg fuel _ st' b hw2 hn2 h
      · exact feedAuto_ne cfg fuel _ st' b (endChunk_wf cfg _ false hw2) (endChunk_ne cfg _ false hw2 hn2) h
    · simp only [Option.some.injEq] at h
      subst h
      exact hn

theorem writeAuto_ne (cfg : Cfg) : ∀ (bs : Bytes) (st st' : St), Wf st → NE st → writeAuto cfg st bs = some st' → NE st'
  | [], st, st', _, hn, h => by simp only [writeAuto, Option.some.injEq] at h; subst h; exact hn
  | b :: rest, st, st', hw, hn, h => by
    unfold writeAuto at h
    cases hf : feedAuto cfg (refeedFuel cfg) st b with
    | none => rw [hf] at h; cases h
    | some s1 =>
      rw [hf] at h
      exact writeAuto_ne cfg rest s1 st' (feedAuto_content cfg _ st s1 b hw hf).2 (feedAuto_ne cfg _ st s1 b hw hn hf) h

theorem writeManual_ne (cfg : Cfg) : ∀ (fuel : Nat) (st : St) (bs : Bytes), Wf st → NE st →
    Wf (writeManual cfg fuel st bs) ∧ NE (writeManual cfg fuel st bs)
  | 0, st, _, hw, hn => ⟨hw, hn⟩
  | fuel + 1, st, bs, hw, hn => by
    unfold writeManual
    split
    · simp only
      refine writeManual_ne cfg fuel _ _ (endChunk_wf cfg _ false ?_) (endChunk_ne cfg _ false ?_ hn)
      · unfold Wf at hw ⊢; simp only [List.length_append, List.length_reverse]; omega
      · unfold Wf at hw ⊢; simp only [List.length_append, List.length_reverse]; omega
    · refine ⟨?_, hn⟩
      unfold Wf at hw ⊢; simp only [List.length_append, List.length_reverse]; omega

theorem applyOp_ne (cfg : Cfg) (st st' : St) (op : Op) (hw : Wf st) (hn : NE st) (h : applyOp cfg st op = some st') :
    Wf st' ∧ NE st' := by
  cases op with
  | endChunk =>
    simp only [applyOp, Option.some.injEq] at h; subst h
    exact ⟨endChunk_wf cfg st false hw, endChunk_ne cfg st false hw hn⟩
  | write bs =>
    simp only [applyOp] at h
    split at h
    · simp only [Option.some.injEq] at h; subst h; exact ⟨hw, hn⟩
    · split at h
      · simp only [Option.some.injEq] at h; subst h; exact writeManual_ne cfg _ st bs hw hn
      · exact ⟨(writeAuto_content cfg bs st st' hw h).2, writeAuto_ne cfg bs st st' hw hn h⟩

theorem run_ne (cfg : Cfg) : ∀ (ops : List Op) (st st' : St), Wf st → NE st → run cfg st ops = some st' → Wf st' ∧ NE st'
  | [], st, st', hw, hn, h => by simp only [run, Option.some.injEq] at h; subst h; exact ⟨hw, hn⟩
  | op :: ops, st, st', hw, hn, h => by
    unfold run at h
    cases ha : applyOp cfg st op with
    | none => rw [ha] at h; cases h
    | some s1 =>
      rw [ha] at h
      obtain ⟨w1, n1⟩ := applyOp_ne cfg st s1 op hw hn ha
      exact run_ne cfg ops s1 st' w1 n1 h

/-- **no chunk of a closed file is empty** -/
theorem closeChunks_nonempty (cfg : Cfg) (ops : List Op) (cs : List Bytes) (h : closeChunks cfg ops = some cs) :
    ∀ p ∈ cs, p ≠ [] := by
  unfold closeChunks at h
  cases hr : run cfg.norm {} ops with
  | none => rw [hr] at h; cases h
  | some st =>
    rw [hr] at h
    simp only [Option.map_some, Option.some.injEq] at h
    obtain ⟨w, n⟩ := run_ne cfg.norm ops {} st wf_init (fun p hp => by simp at hp) hr
    rw [← h]
    exact endChunk_ne cfg.norm st true w n

end Zck.Writer
