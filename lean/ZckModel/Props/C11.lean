import ZckModel.Update
import ZckModel.Pred.Update
namespace Zck.C11
theorem placeholder_true : True := trivial
end Zck.C11
