/-
C11 — Interrupted updates resume to the exact file; partial chunks never trusted.
The only state that survives an interruption is the target file.  The model of the procedure (`Update.update`) takes the
initial target as an ARBITRARY byte string, and every theorem of C04 / C05 / C09 quantifies over it — so each holds of
the restart, whatever point the interruption hit (inside the header, inside a chunk, inside a multipart part header), and
by iteration of any number of interruptions.  This file states the corollaries for crash states explicitly.
Convergence (`restart_converges`, from C04's `loop_complete`): with well-formed responses the restart's fetch loop ends without
error and with every chunk valid, from ANY crash state; with `update_yields_B` the file is then B or a collision is exhibited.
-/
import ZckModel.Props.C04
import ZckModel.Props.C09
import ZckModel.Props.C04Complete

namespace Zck.C11
open Zck Zck.Format Zck.Dl Zck.Copy Zck.C05 Zck.C04 Zck.Update

/-- a write(2) cut short: the first `j` bytes of `d` reach the file at `off` -/
def cutWrite (f : Bytes) (off : Nat) (d : Bytes) (j : Nat) : Bytes := writeAt f off (d.take j)

/-- the target after the first `k` writes of a run completed and the next was cut after `j` bytes -/
def crash (tgt0 : Bytes) (ws : List (Nat × Bytes)) (k j : Nat) : Bytes :=
  let done := (ws.take k).foldl (fun f w => writeAt f w.1 w.2) tgt0
  match ws[k]? with
  | some w => cutWrite done w.1 w.2 j
  | none => done

/-- **no partially written chunk is trusted, after any interruption**: in the restart's fetch loop (and, by `C05.verified`,
in each of its transfers) a chunk is marked valid only if the bytes at its extent hash to its checksum — stated for the
crash state of an arbitrary write trace, cut anywhere -/
theorem restart_sound (H : HashFn) (rx : Rx) (B : Bytes) (th : Hdr) (limit : Int) (frag : Nat) (drop : Option (Nat × Nat))
    (hd : Disj (envOf H rx th [])) (tgt0 : Bytes) (ws : List (Nat × Bytes)) (k j : Nat) (valid : List Int)
    (hok : AllOk (envOf H rx th []) (crash tgt0 ws k j) valid) (fuel : Nat) :
    let out := Update.loop H rx B th limit frag drop fuel (crash tgt0 ws k j) valid [] 0
    AllOk (envOf H rx th []) out.1 out.2.1 ∧ (∀ c, valid.getD c 0 = 1 → out.2.1.getD c 0 = 1) ∧
    (out.2.2.2.2 = none → countEq out.2.1 0 = 0) ∧
    (∀ i, i < th.lead + th.headerLen → out.1.getD i 0 = (crash tgt0 ws k j).getD i 0) :=
  loop_sound H rx B th limit frag drop hd fuel (crash tgt0 ws k j) valid [] 0 hok

/-- **a chunk that was completely and correctly written before the interruption is never written again**: a chunk the
restart's scan marks valid keeps its bytes through every later transfer (C05 confinement), so the restart does not depend
on fetching it — stated for one transfer from a crash state -/
theorem valid_chunk_untouched (e : Env) (tgt0 : Bytes) (ws : List (Nat × Bytes)) (k j : Nat) (valid : List Int)
    (lines frags : List Bytes) (i : Nat) (hi : Outside e valid i) :
    (session e (crash tgt0 ws k j) valid lines frags).2.2.file.getD i 0 = (crash tgt0 ws k j).getD i 0 := by
  unfold session
  exact (C05.confined e { file := crash tgt0 ws k j, pos := 0, valid := valid } lines frags true false rfl rfl).1 i hi

/-- **what the scan says about one chunk** (C09): the scan assigns 1 exactly when every stored byte is there and they hash
to the index checksum — so a chunk cut short by the interruption, or followed by nothing, is not trusted -/
theorem scan_trusts_only_complete (H : HashFn) (f : Bytes) (hdr : Hdr) (ch : Chunk) (pos : Nat) (d : Bytes)
    (hd : H hdr.chunkHashType (Reader.fileRead f pos ch.compLen) = some d) :
    Reader.scanValue H hdr ch (Reader.readPieces f pos ch.compLen).1 (Reader.readPieces f pos ch.compLen).2.2 = 1
    ↔ ((Reader.fileRead f pos ch.compLen).length = ch.compLen ∧ (if ch.compLen = 0 then zeros d.length else d) = ch.digest) :=
  C09.scan_value_exact H f hdr ch pos d hd

/-- **the restart converges, whatever the interruption left**: from the crash state of an arbitrary write trace, cut anywhere,
with marks as scan + copy + reset leave them (`Marks`) and well-formed responses (`Honest`), the restart's fetch loop ends
WITHOUT error and with EVERY chunk marked valid, and every chunk marked valid is present (hashes to its checksum at its extent)
— so by `equal_or_collision` the truncated target is the server's file or a collision is exhibited -/
theorem restart_converges (H : HashFn) (rx : Rx) (B : Bytes) (th : Hdr) (limit : Int) (frag : Nat)
    (hrun : C13.RunFrom 0 0 th.chunks) (hbound : th.lead + th.headerLen + C13.sumLen th.chunks < 2^64)
    (hBsmall : B.length < W64) (hB : AllPresent (envOf H rx th []) B)
    (hon : ∀ n valid', Marks th valid' → Honest rx (n + 1) B.length (reqOf th limit valid').items)
    (tgt0 : Bytes) (ws : List (Nat × Bytes)) (k j : Nat) (valid : List Int) (hm : Marks th valid)
    (hok : AllOk (envOf H rx th []) (crash tgt0 ws k j) valid) :
    let out := Update.loop H rx B th limit frag none (th.chunks.length + 3) (crash tgt0 ws k j) valid [] 0
    out.2.2.2.2 = none ∧ countEq out.2.1 0 = 0 ∧ Marks th out.2.1 ∧ AllOk (envOf H rx th []) out.1 out.2.1 := by
  intro out
  have hfuel : countEq valid 0 < th.chunks.length + 3 := by
    have := countEq_le_length valid 0
    rw [hm.len] at this
    omega
  have h1 := loop_complete H rx B th limit frag hrun hbound hBsmall hB hon (th.chunks.length + 3) (crash tgt0 ws k j) valid [] 0 hm hfuel
  have h2 := loop_sound H rx B th limit frag none (disj_of_runFrom _ hrun) (th.chunks.length + 3) (crash tgt0 ws k j) valid [] 0 hok
  exact ⟨h1.1, h1.2.2, h1.2.1, h2.1⟩

/-- TEST: a trace of two writes cut inside the second -/
example : crash [0, 0, 0, 0, 0, 0] [(0, [1, 2]), (2, [3, 4, 5])] 1 2 = [1, 2, 3, 4, 0, 0] := by decide

end Zck.C11
