/-
C05 — completeness of the single-range path: a well-formed response (the stored bytes of exactly the requested chunks, in
request order, each hashing to its index checksum) delivered to `dl_write_range` makes every requested chunk valid, and the
bytes at each extent are the server's bytes (or an explicit hash collision is exhibited).  Together with `dwr_frags_state`
(any fragmentation) and `confined` / `verified` (nothing else changes; valid means checksum-verified) this is the whole of C05
for plain single-range responses.  The multipart path is not covered here.
-/
import ZckModel.Props.C05Frag

namespace Zck.C05
open Zck Zck.Format Zck.Dl Zck.Copy

/-- payload offsets of a range index are the running sum of its sizes, starting at `s` -/
def RunIdx : Nat → List RChunk → Prop
  | _, [] => True
  | s, rc :: rest => rc.start = s ∧ 0 < rc.compLen ∧ RunIdx (s + rc.compLen) rest

theorem runIdx_mkRidx : ∀ (l : List (Nat × Nat)) (s : Nat), (∀ p ∈ l, 0 < p.2) → RunIdx s (mkRidx l s)
  | [], _, _ => trivial
  | (n, sz) :: rest, s, h => by
    unfold mkRidx
    exact ⟨rfl, h (n, sz) List.mem_cons_self, runIdx_mkRidx rest (s + sz) (fun p hp => h p (List.mem_cons_of_mem _ hp))⟩

/-- every later entry of a running index starts beyond `s` -/
theorem runIdx_later : ∀ (l : List RChunk) (s : Nat), RunIdx s l → ∀ rc ∈ l, s ≤ rc.start
  | [], _, _, rc, h => by simp at h
  | r :: rest, s, hr, rc, h => by
    rcases List.mem_cons.mp h with rfl | h'
    · exact Nat.le_of_eq hr.1.symm
    · have := runIdx_later rest _ hr.2.2 rc h'; omega

/-- the search from the head of a running index whose head starts at the current payload position and is eligible finds the head -/
theorem findNext_head (e : Env) (st : St) (rc : RChunk) (rest : List RChunk) (j : Nat) (tc : Chunk)
    (h1 : st.dlChunkData = rc.start) (h2 : st.valid.getD rc.tgt 0 ≠ 1) (h3 : e.hdr.chunks[rc.tgt]? = some tc)
    (h4 : rc.compLen = tc.compLen) : findNext e st (rc :: rest) j = some (j, rc) := by
  unfold findNext
  rw [if_neg (by simp [h1]), if_neg h2, h3]
  simp [h4]

/-- nothing is found when every entry starts elsewhere -/
theorem findNext_none (e : Env) (st : St) : ∀ (l : List RChunk) (j : Nat), (∀ rc ∈ l, rc.start ≠ st.dlChunkData) →
    findNext e st l j = none
  | [], _, _ => rfl
  | rc :: rest, j, h => by
    unfold findNext
    have := h rc List.mem_cons_self
    rw [if_pos (fun hx => this hx.symm)]
    exact findNext_none e st rest (j + 1) (fun r hr => h r (List.mem_cons_of_mem _ hr))

/-- the bytes a server sends for the requested chunks, in request order (`stored k` = stored bytes of chunk `k` of the new file) -/
def payloadOf (stored : Nat → Bytes) : List RChunk → Bytes
  | [] => []
  | rc :: rest => stored rc.tgt ++ payloadOf stored rest

theorem payloadOf_length (stored : Nat → Bytes) : ∀ (l : List RChunk), (∀ rc ∈ l, (stored rc.tgt).length = rc.compLen) →
    ∀ s, RunIdx s l → ∀ rc ∈ l, rc.start + rc.compLen ≤ s + (payloadOf stored l).length
  | [], _, _, _, rc, h => by simp at h
  | r :: rest, hl, s, hr, rc, h => by
    simp only [payloadOf, List.length_append]
    have h1 := hl r List.mem_cons_self
    rcases List.mem_cons.mp h with rfl | h'
    · have := hr.1; omega
    · have := payloadOf_length stored rest (fun x hx => hl x (List.mem_cons_of_mem _ hx)) _ hr.2.2 rc h'
      omega

/-- one requested chunk, as the response must match it: the index entry exists with the same stored size, the server's
bytes have that size and hash to the index checksum -/
def EntryOk (e : Env) (stored : Nat → Bytes) (rc : RChunk) : Prop :=
  ∃ tc, e.hdr.chunks[rc.tgt]? = some tc ∧ rc.compLen = tc.compLen ∧ (stored rc.tgt).length = rc.compLen ∧
    e.H e.hdr.chunkHashType (stored rc.tgt) = some tc.digest

theorem getD_set_eq (l : List Int) (k : Nat) (v : Int) (h : k < l.length) : (l.set k v).getD k 0 = v := by
  simp [List.getD, h]

theorem valid_setChunkValid_ok (e : Env) (st : St) (k : Nat) (tc : Chunk) (acc : Bytes)
    (htc : e.hdr.chunks[k]? = some tc) (hh : st.hash = some acc) (hz : tc.compLen ≠ 0)
    (hd : e.H e.hdr.chunkHashType acc = some tc.digest) :
    setChunkValid e st k = (true, { st with hash := none, valid := st.valid.set k 1, tgtCheck := none }) := by
  unfold setChunkValid
  rw [htc]
  simp only [hh, hz, ↓reduceIte, hd, beq_self_eq_true]

theorem getD_set_mono (l : List Int) (k k' : Nat) (h : l.getD k' 0 = 1) : (l.set k 1).getD k' 0 = 1 := by
  by_cases hk : k' = k
  · subst hk
    by_cases hl : k' < l.length
    · exact getD_set_eq l k' 1 hl
    · simp [List.getD, hl] at h
  · rw [getD_set_ne _ _ _ _ hk]; exact h

/-- **completeness, one open chunk onwards**: with the chunk `rc` open and the payload of `rc :: rest` delivered in one
call, every byte is taken, and `rc` and all of `rest` end up valid -/
theorem complete_open (e : Env) (stored : Nat → Bytes) : ∀ (rest pre : List RChunk) (rc : RChunk) (st : St) (F : Nat),
    e.ridx = pre ++ rc :: rest → RunIdx rc.start (rc :: rest) →
    (∀ r ∈ rc :: rest, EntryOk e stored r ∧ r.tgt < st.valid.length) →
    (∀ r ∈ rest, st.valid.getD r.tgt 0 ≠ 1) → ((rc :: rest).map (·.tgt)).Nodup →
    (∀ r ∈ pre, r.start < rc.start) →
    st.err = false → st.writeInChunk = rc.compLen → st.tgtCheck = some rc.tgt → st.hash = some [] →
    st.dlChunkData = rc.start → st.cur = pre.length + 1 → st.curNull = decide (pre.length + 1 ≥ e.ridx.length) →
    2 * (payloadOf stored (rc :: rest)).length + 1 ≤ F →
    (dlWriteRange e F st (payloadOf stored (rc :: rest))).1 = (payloadOf stored (rc :: rest)).length ∧
    (∀ r ∈ rc :: rest, (dlWriteRange e F st (payloadOf stored (rc :: rest))).2.valid.getD r.tgt 0 = 1) ∧
    (∀ k, st.valid.getD k 0 = 1 → (dlWriteRange e F st (payloadOf stored (rc :: rest))).2.valid.getD k 0 = 1)
  | rest, pre, rc, st, 0, _, _, _, _, _, _, _, _, _, _, _, _, _, hF => by omega
  | rest, pre, rc, st, F + 1, hridx, hrun, hent, hnv, hnd, hpre, he, hw, ht, hh, hd, hcur, hcn, hF => by
    obtain ⟨⟨tc, htc, hsz, hlen, hhash⟩, hklt⟩ := hent rc List.mem_cons_self
    have hpos : 0 < rc.compLen := hrun.2.1
    have hrne : e.ridx.isEmpty = false := by rw [hridx]; simp
    have hxne : payloadOf stored (rc :: rest) ≠ [] := by
      intro h; have := congrArg List.length h; simp [payloadOf, hlen] at this; omega
    -- the first dl_write takes exactly the stored bytes of `rc`
    have h1 := dlWrite_open st (payloadOf stored (rc :: rest)) [] (by omega) hh hxne
    have hmin : min st.writeInChunk (payloadOf stored (rc :: rest)).length = rc.compLen := by
      simp only [payloadOf, List.length_append, hlen, hw]; omega
    have htake : (payloadOf stored (rc :: rest)).take rc.compLen = stored rc.tgt := by
      simp only [payloadOf]
      rw [List.take_append_of_le_length (by omega), List.take_of_length_le (by omega)]
    rw [hmin, htake] at h1
    rw [dwr_step e F st _ _ _ he hrne h1]
    unfold cont
    simp only [hw, Nat.sub_self, ↓reduceIte, List.nil_append]
    -- verification of `rc`
    have hv : dlSelect e { st with file := writeAt st.file st.pos (stored rc.tgt), pos := st.pos + rc.compLen, writeInChunk := 0, hash := some (stored rc.tgt), dlChunkData := st.dlChunkData + rc.compLen } =
        (true, dlOpen e { st with file := writeAt st.file st.pos (stored rc.tgt), pos := st.pos + rc.compLen, writeInChunk := 0, hash := none, dlChunkData := st.dlChunkData + rc.compLen, valid := st.valid.set rc.tgt 1, tgtCheck := none }) := by
      unfold dlSelect dlVerify
      simp only [ht]
      rw [valid_setChunkValid_ok e _ rc.tgt tc (stored rc.tgt) htc rfl (by omega) hhash]
      simp
    rw [hv]
    simp only [not_true_eq_false, ↓reduceIte]
    generalize hst2 : ({ st with file := writeAt st.file st.pos (stored rc.tgt), pos := st.pos + rc.compLen, writeInChunk := 0, hash := none, dlChunkData := st.dlChunkData + rc.compLen, valid := st.valid.set rc.tgt 1, tgtCheck := none } : St) = st2
    have h2v : st2.valid = st.valid.set rc.tgt 1 := by rw [← hst2]
    have h2d : st2.dlChunkData = rc.start + rc.compLen := by rw [← hst2]; simp only [hd]
    have h2c : st2.cur = pre.length + 1 := by rw [← hst2]; exact hcur
    have h2n : st2.curNull = decide (pre.length + 1 ≥ e.ridx.length) := by rw [← hst2]; exact hcn
    have h2e : st2.err = false := by rw [← hst2]; exact he
    have h2w : st2.writeInChunk = 0 := by rw [← hst2]
    have hk1 : st2.valid.getD rc.tgt 0 = 1 := by rw [h2v]; exact getD_set_eq _ _ _ hklt
    have hmono : ∀ k, st.valid.getD k 0 = 1 → st2.valid.getD k 0 = 1 := by
      intro k hk; rw [h2v]; exact getD_set_mono _ _ _ hk
    cases rest with
    | nil =>
      -- `rc` was the last requested chunk: nothing starts at the end of the payload
      have hlenr : e.ridx.length = pre.length + 1 := by rw [hridx]; simp
      have hopen : dlOpen e st2 = { st2 with cur := 0, curNull := false } := by
        unfold dlOpen
        have hc0 : (if st2.curNull = true ∨ st2.cur ≥ e.ridx.length then 0 else st2.cur) = 0 := by
          rw [if_pos (Or.inr (by rw [h2c, hlenr]; exact Nat.le_refl _))]
        simp only [hc0, List.drop_zero]
        rw [findNext_none e _ e.ridx 0 (by
          intro r hr
          simp only [h2d]
          rw [hridx] at hr
          rcases List.mem_append.mp hr with h | h
          · have := hpre r h; omega
          · simp only [List.mem_singleton] at h; subst h; omega)]
      rw [hopen]
      simp only [h2w, Nat.lt_irrefl, false_and, ↓reduceIte, payloadOf, List.append_nil, hlen, gt_iff_lt]
      refine ⟨trivial, ?_, hmono⟩
      intro r hr
      simp only [List.mem_singleton] at hr
      subst hr
      exact hk1
    | cons rc' rest' =>
      obtain ⟨⟨tc', htc', hsz', hlen', hhash'⟩, hklt'⟩ := hent rc' (List.mem_cons_of_mem _ List.mem_cons_self)
      have hrun0 := hrun.2.2
      have hrun' : RunIdx rc'.start (rc' :: rest') := by rw [hrun0.1]; exact hrun0
      have hst' : rc'.start = rc.start + rc.compLen := hrun0.1
      have hpos' : 0 < rc'.compLen := hrun'.2.1
      have hlenr : e.ridx.length = pre.length + 2 + rest'.length := by rw [hridx]; simp; omega
      have hne : rc'.tgt ≠ rc.tgt := by
        intro heq
        have := List.nodup_cons.mp hnd
        apply this.1
        simp only [List.map_cons, List.mem_cons]
        left; exact heq.symm
      have hdrop : e.ridx.drop (pre.length + 1) = rc' :: rest' := by
        rw [hridx]
        have : pre ++ rc :: rc' :: rest' = (pre ++ [rc]) ++ rc' :: rest' := by simp
        rw [this]
        exact List.drop_left' (by simp)
      have hopen : dlOpen e st2 = { st2 with tgtCheck := some rc'.tgt, hash := some [], writeInChunk := rc'.compLen, pos := e.dataOff + tc'.start, cur := pre.length + 1 + 1, curNull := decide (pre.length + 1 + 1 ≥ e.ridx.length) } := by
        unfold dlOpen
        have hcn2 : st2.curNull = false := by rw [h2n, hlenr]; simp; omega
        have hc0 : (if st2.curNull = true ∨ st2.cur ≥ e.ridx.length then 0 else st2.cur) = pre.length + 1 := by
          have hcond : ¬ (st2.curNull = true ∨ st2.cur ≥ e.ridx.length) := by
            rw [hcn2, h2c, hlenr]
            intro hx
            rcases hx with hx | hx
            · exact absurd hx (by decide)
            · omega
          rw [if_neg hcond, h2c]
        simp only [hc0, hdrop]
        rw [findNext_head e _ rc' rest' (pre.length + 1) tc' (by simp only [h2d]; omega)
          (by simp only [h2v]; rw [getD_set_ne _ _ _ _ hne]; exact hnv rc' List.mem_cons_self) htc' hsz']
        simp only [htc']
      rw [hopen]
      have hpl : (payloadOf stored (rc :: rc' :: rest')).length = rc.compLen + (payloadOf stored (rc' :: rest')).length := by
        simp only [payloadOf, List.length_append, hlen]
      have hpl' : 0 < (payloadOf stored (rc' :: rest')).length := by
        simp only [payloadOf, List.length_append, hlen']; omega
      rw [if_pos ⟨by simp only; omega, by omega⟩]
      have hdropx : (payloadOf stored (rc :: rc' :: rest')).drop rc.compLen = payloadOf stored (rc' :: rest') := by
        show (stored rc.tgt ++ payloadOf stored (rc' :: rest')).drop rc.compLen = _
        exact List.drop_left' hlen
      rw [hdropx]
      have ih := complete_open e stored rest' (pre ++ [rc]) rc' { st2 with tgtCheck := some rc'.tgt, hash := some [], writeInChunk := rc'.compLen, pos := e.dataOff + tc'.start, cur := pre.length + 1 + 1, curNull := decide (pre.length + 1 + 1 ≥ e.ridx.length) } F (by rw [hridx]; simp) hrun'
        (by
          intro r hr
          have := hent r (List.mem_cons_of_mem _ hr)
          exact ⟨this.1, by simp only [h2v, List.length_set]; exact this.2⟩)
        (by
          intro r hr
          simp only [h2v]
          have hner : r.tgt ≠ rc.tgt := by
            intro heq
            have := List.nodup_cons.mp hnd
            apply this.1
            simp only [List.map_cons, List.mem_cons, List.mem_map]
            right; exact ⟨r, hr, heq⟩
          rw [getD_set_ne _ _ _ _ hner]
          exact hnv r (List.mem_cons_of_mem _ hr))
        (List.nodup_cons.mp hnd).2
        (by
          intro r hr
          rcases List.mem_append.mp hr with h | h
          · have := hpre r h; omega
          · simp only [List.mem_singleton] at h; subst h; omega)
        (by simp only; exact h2e) rfl rfl rfl (by simp only [h2d]; omega)
        (by simp) (by simp) (by omega)
      obtain ⟨i1, i2, i3⟩ := ih
      generalize dlWriteRange e F _ (payloadOf stored (rc' :: rest')) = out at i1 i2 i3
      unfold bump
      rw [if_neg (by omega)]
      refine ⟨by simp only; omega, ?_, ?_⟩
      · intro r hr
        rcases List.mem_cons.mp hr with rfl | hr'
        · exact i3 _ (by simp only; exact hk1)
        · exact i2 r hr'
      · intro k hk
        exact i3 k (by simp only; exact hmono k hk)

/-- **C05 (completeness, single-range path)**: a fresh download context, a request whose entries match the index and are
not yet valid, and the server's bytes for exactly those chunks in request order (each hashing to its index checksum),
delivered to `dl_write_range` in one call: every byte is taken and every requested chunk ends up marked valid; chunks that
were valid stay valid.  (With `dwr_frags_state` the same holds for every fragmentation whose cuts leave a chunk open; with
`verified`, valid means the bytes at the extent hash to the checksum.) -/
theorem complete_single (e : Env) (stored : Nat → Bytes) (file : Bytes) (valid : List Int) (F : Nat)
    (hne : e.ridx ≠ []) (hrun : RunIdx 0 e.ridx)
    (hent : ∀ r ∈ e.ridx, EntryOk e stored r ∧ r.tgt < valid.length ∧ valid.getD r.tgt 0 ≠ 1)
    (hnd : (e.ridx.map (·.tgt)).Nodup) (hF : 2 * (payloadOf stored e.ridx).length + 2 ≤ F) :
    let out := dlWriteRange e F { file := file, pos := 0, valid := valid } (payloadOf stored e.ridx)
    out.1 = (payloadOf stored e.ridx).length ∧ (∀ r ∈ e.ridx, out.2.valid.getD r.tgt 0 = 1) ∧
    (∀ k, valid.getD k 0 = 1 → out.2.valid.getD k 0 = 1) := by
  intro out
  cases hr : e.ridx with
  | nil => exact absurd hr hne
  | cons rc rest =>
    obtain ⟨⟨tc, htc, hsz, hlen, hhash⟩, hklt, hnv⟩ := hent rc (by rw [hr]; exact List.mem_cons_self)
    rw [hr] at hrun
    have hpos : 0 < rc.compLen := hrun.2.1
    have hrne : e.ridx.isEmpty = false := by rw [hr]; rfl
    cases F with
    | zero => omega
    | succ F' =>
      have hout : out = dlWriteRange e (F' + 1) { file := file, pos := 0, valid := valid } (payloadOf stored e.ridx) := rfl
      rw [hout, dwr_step e F' _ _ _ 0 rfl hrne (dlWrite_closed _ _ rfl)]
      unfold cont
      simp only [↓reduceIte]
      have hsel : dlSelect e ({ file := file, pos := 0, valid := valid } : St) =
          (true, { file := file, pos := e.dataOff + tc.start, valid := valid, tgtCheck := some rc.tgt, hash := some [],
                   writeInChunk := rc.compLen, cur := 1, curNull := decide (1 ≥ e.ridx.length) }) := by
        unfold dlSelect dlVerify dlOpen
        simp only [Bool.true_or, ↓reduceIte, List.drop_zero, not_true_eq_false, true_or]
        rw [hr, findNext_head e _ rc rest 0 tc (by simp only; exact hrun.1.symm) (by simp only; exact hnv) htc hsz]
        simp only [htc]
      rw [hsel]
      simp only [not_true_eq_false, ↓reduceIte]
      have hpl : 0 < (payloadOf stored e.ridx).length := by
        rw [hr]; simp only [payloadOf, List.length_append, hlen]; omega
      rw [if_pos ⟨hpos, hpl⟩]
      have ih := complete_open e stored rest [] rc
        { file := file, pos := e.dataOff + tc.start, valid := valid, tgtCheck := some rc.tgt, hash := some [],
          writeInChunk := rc.compLen, cur := 1, curNull := decide (1 ≥ e.ridx.length) } F'
        (by rw [hr]; rfl) (by rw [← hrun.1] at hrun; exact hrun)
        (by intro r h; have := hent r (by rw [hr]; exact h); exact ⟨this.1, this.2.1⟩)
        (by intro r h; exact (hent r (by rw [hr]; exact List.mem_cons_of_mem _ h)).2.2)
        (by rw [hr] at hnd; exact hnd) (by intro r h; simp at h) rfl rfl rfl rfl (by simp only; exact hrun.1.symm) rfl (by simp)
        (by rw [hr] at hF; omega)
      have hp : payloadOf stored e.ridx = payloadOf stored (rc :: rest) := by rw [hr]
      rw [hp] at hpl ⊢
      simp only [List.drop_zero]
      obtain ⟨i1, i2, i3⟩ := ih
      generalize dlWriteRange e F' _ (payloadOf stored (rc :: rest)) = o at i1 i2 i3
      unfold bump
      have hne0 : o.1 ≠ 0 := by rw [i1]; omega
      simp only [hne0, ↓reduceIte, Nat.zero_add]
      exact ⟨i1, fun r hrm => i2 r hrm, i3⟩


/-- the download layer has chunk `rc` open (nothing of it written yet), having worked through the entries `pre` of the request -/
def OpenAt (e : Env) (st : St) (pre : List RChunk) (rc : RChunk) : Prop :=
  st.err = false ∧ st.writeInChunk = rc.compLen ∧ st.tgtCheck = some rc.tgt ∧ st.hash = some [] ∧
  st.dlChunkData = rc.start ∧ st.cur = pre.length + 1 ∧ st.curNull = decide (pre.length + 1 ≥ e.ridx.length)

/-- **one piece of the payload**: with `rc` open, the stored bytes of `rc :: rest` (a run of requested chunks, more entries
`more` of the request still to come) delivered in one call: every byte is taken, the chunks of the piece end up valid, no
other mark changes, and the next entry of the request — if there is one — is open -/
theorem complete_piece (e : Env) (stored : Nat → Bytes) : ∀ (rest pre more : List RChunk) (rc : RChunk) (st : St) (F : Nat),
    e.ridx = pre ++ rc :: rest ++ more → RunIdx rc.start (rc :: rest ++ more) →
    (∀ r ∈ rc :: rest ++ more, EntryOk e stored r ∧ r.tgt < st.valid.length) →
    (∀ r ∈ rest ++ more, st.valid.getD r.tgt 0 ≠ 1) → ((rc :: rest ++ more).map (·.tgt)).Nodup →
    (∀ r ∈ pre, r.start < rc.start) → OpenAt e st pre rc →
    2 * (payloadOf stored (rc :: rest)).length + 1 ≤ F →
    let out := dlWriteRange e F st (payloadOf stored (rc :: rest))
    out.1 = (payloadOf stored (rc :: rest)).length ∧
    (∀ r ∈ rc :: rest, out.2.valid.getD r.tgt 0 = 1) ∧
    (∀ k, st.valid.getD k 0 = 1 → out.2.valid.getD k 0 = 1) ∧
    (∀ k, (∀ r ∈ rc :: rest, r.tgt ≠ k) → out.2.valid.getD k 0 = st.valid.getD k 0) ∧
    out.2.valid.length = st.valid.length ∧
    (∀ m ms, more = m :: ms → OpenAt e out.2 (pre ++ rc :: rest) m)
  | rest, pre, more, rc, st, 0, _, _, _, _, _, _, _, hF => by omega
  | rest, pre, more, rc, st, F + 1, hridx, hrun, hent, hnv, hnd, hpre, ho, hF => by
    obtain ⟨he, hw, ht, hh, hd, hcur, hcn⟩ := ho
    obtain ⟨⟨tc, htc, hsz, hlen, hhash⟩, hklt⟩ := hent rc List.mem_cons_self
    have hpos : 0 < rc.compLen := hrun.2.1
    have hrne : e.ridx.isEmpty = false := by rw [hridx]; simp
    have hxne : payloadOf stored (rc :: rest) ≠ [] := by
      intro h; have := congrArg List.length h; simp [payloadOf, hlen] at this; omega
    have h1 := dlWrite_open st (payloadOf stored (rc :: rest)) [] (by omega) hh hxne
    have hmin : min st.writeInChunk (payloadOf stored (rc :: rest)).length = rc.compLen := by
      simp only [payloadOf, List.length_append, hlen, hw]; omega
    have htake : (payloadOf stored (rc :: rest)).take rc.compLen = stored rc.tgt := by
      simp only [payloadOf]
      rw [List.take_append_of_le_length (by omega), List.take_of_length_le (by omega)]
    rw [hmin, htake] at h1
    intro out
    have hout : out = dlWriteRange e (F + 1) st (payloadOf stored (rc :: rest)) := rfl
    rw [hout, dwr_step e F st _ _ _ he hrne h1]
    unfold cont
    simp only [hw, Nat.sub_self, ↓reduceIte, List.nil_append]
    have hv : dlSelect e { st with file := writeAt st.file st.pos (stored rc.tgt), pos := st.pos + rc.compLen, writeInChunk := 0, hash := some (stored rc.tgt), dlChunkData := st.dlChunkData + rc.compLen } =
        (true, dlOpen e { st with file := writeAt st.file st.pos (stored rc.tgt), pos := st.pos + rc.compLen, writeInChunk := 0, hash := none, dlChunkData := st.dlChunkData + rc.compLen, valid := st.valid.set rc.tgt 1, tgtCheck := none }) := by
      unfold dlSelect dlVerify
      simp only [ht]
      rw [valid_setChunkValid_ok e _ rc.tgt tc (stored rc.tgt) htc rfl (by omega) hhash]
      simp
    rw [hv]
    simp only [not_true_eq_false, ↓reduceIte]
    generalize hst2 : ({ st with file := writeAt st.file st.pos (stored rc.tgt), pos := st.pos + rc.compLen, writeInChunk := 0, hash := none, dlChunkData := st.dlChunkData + rc.compLen, valid := st.valid.set rc.tgt 1, tgtCheck := none } : St) = st2
    have h2v : st2.valid = st.valid.set rc.tgt 1 := by rw [← hst2]
    have h2d : st2.dlChunkData = rc.start + rc.compLen := by rw [← hst2]; simp only [hd]
    have h2c : st2.cur = pre.length + 1 := by rw [← hst2]; exact hcur
    have h2n : st2.curNull = decide (pre.length + 1 ≥ e.ridx.length) := by rw [← hst2]; exact hcn
    have h2e : st2.err = false := by rw [← hst2]; exact he
    have h2w : st2.writeInChunk = 0 := by rw [← hst2]
    have hk1 : st2.valid.getD rc.tgt 0 = 1 := by rw [h2v]; exact getD_set_eq _ _ _ hklt
    have hmono : ∀ k, st.valid.getD k 0 = 1 → st2.valid.getD k 0 = 1 := by
      intro k hk; rw [h2v]; exact getD_set_mono _ _ _ hk
    have hoth : ∀ k, rc.tgt ≠ k → st2.valid.getD k 0 = st.valid.getD k 0 := by
      intro k hk; rw [h2v]; exact getD_set_ne _ _ _ _ (Ne.symm hk)
    have h2l : st2.valid.length = st.valid.length := by rw [h2v]; simp
    -- what comes next in the request
    cases hnx : rest ++ more with
    | nil =>
      have hr0 : rest = [] := (List.append_eq_nil_iff.mp hnx).1
      have hm0 : more = [] := (List.append_eq_nil_iff.mp hnx).2
      subst hr0; subst hm0
      have hlenr : e.ridx.length = pre.length + 1 := by rw [hridx]; simp
      have hopen : dlOpen e st2 = { st2 with cur := 0, curNull := false } := by
        unfold dlOpen
        have hc0 : (if st2.curNull = true ∨ st2.cur ≥ e.ridx.length then 0 else st2.cur) = 0 := by
          rw [if_pos (Or.inr (by rw [h2c, hlenr]; exact Nat.le_refl _))]
        simp only [hc0, List.drop_zero]
        rw [findNext_none e _ e.ridx 0 (by
          intro r hr
          simp only [h2d]
          rw [hridx] at hr
          simp only [List.append_nil] at hr
          rcases List.mem_append.mp hr with h | h
          · have := hpre r h; omega
          · simp only [List.mem_singleton] at h; subst h; omega)]
      rw [hopen]
      simp only [h2w, Nat.lt_irrefl, false_and, ↓reduceIte, payloadOf, List.append_nil, hlen, gt_iff_lt]
      refine ⟨trivial, ?_, hmono, ?_, h2l, ?_⟩
      · intro r hr
        simp only [List.mem_singleton] at hr
        subst hr
        exact hk1
      · intro k hk; exact hoth k (hk rc List.mem_cons_self)
      · intro m ms hm; simp at hm
    | cons nx tail =>
      have hnxmem : nx ∈ rc :: rest ++ more := by
        rw [List.cons_append, hnx]; exact List.mem_cons_of_mem _ List.mem_cons_self
      obtain ⟨⟨tc', htc', hsz', hlen', hhash'⟩, hklt'⟩ := hent nx hnxmem
      have hrun0 : RunIdx (rc.start + rc.compLen) (nx :: tail) := by
        have := hrun.2.2; rw [List.cons_append, hnx] at hrun; exact hrun.2.2
      have hst' : nx.start = rc.start + rc.compLen := hrun0.1
      have hpos' : 0 < nx.compLen := hrun0.2.1
      have hlenr : e.ridx.length = pre.length + 2 + tail.length := by
        rw [hridx, List.append_assoc, List.cons_append, hnx]; simp; omega
      have hnd' : ((rc :: nx :: tail).map (·.tgt)).Nodup := by
        have := hnd; rw [List.cons_append, hnx] at this; exact this
      have hne : nx.tgt ≠ rc.tgt := by
        intro heq
        have := List.nodup_cons.mp hnd'
        apply this.1
        simp only [List.map_cons, List.mem_cons]
        left; exact heq.symm
      have hdrop : e.ridx.drop (pre.length + 1) = nx :: tail := by
        rw [hridx, List.append_assoc, List.cons_append, hnx]
        have : pre ++ rc :: nx :: tail = (pre ++ [rc]) ++ nx :: tail := by simp
        rw [this]
        exact List.drop_left' (by simp)
      have hopen : dlOpen e st2 = { st2 with tgtCheck := some nx.tgt, hash := some [], writeInChunk := nx.compLen, pos := e.dataOff + tc'.start, cur := pre.length + 1 + 1, curNull := decide (pre.length + 1 + 1 ≥ e.ridx.length) } := by
        unfold dlOpen
        have hcn2 : st2.curNull = false := by rw [h2n, hlenr]; simp; omega
        have hc0 : (if st2.curNull = true ∨ st2.cur ≥ e.ridx.length then 0 else st2.cur) = pre.length + 1 := by
          have hcond : ¬ (st2.curNull = true ∨ st2.cur ≥ e.ridx.length) := by
            rw [hcn2, h2c, hlenr]
            intro hx
            rcases hx with hx | hx
            · exact absurd hx (by decide)
            · omega
          rw [if_neg hcond, h2c]
        simp only [hc0, hdrop]
        rw [findNext_head e _ nx tail (pre.length + 1) tc' (by simp only [h2d]; omega)
          (by simp only [h2v]; rw [getD_set_ne _ _ _ _ hne]; exact hnv nx (by rw [hnx]; exact List.mem_cons_self)) htc' hsz']
        simp only [htc']
      rw [hopen]
      generalize hst3 : ({ st2 with tgtCheck := some nx.tgt, hash := some [], writeInChunk := nx.compLen, pos := e.dataOff + tc'.start, cur := pre.length + 1 + 1, curNull := decide (pre.length + 1 + 1 ≥ e.ridx.length) } : St) = st3
      have hopen3 : OpenAt e st3 (pre ++ [rc]) nx := by
        rw [← hst3]
        exact ⟨h2e, rfl, rfl, rfl, by simp only [h2d]; omega, by simp, by simp⟩
      have h3v : st3.valid = st2.valid := by rw [← hst3]
      cases rest with
      | nil =>
        -- the piece ends with `rc`; `nx` is the first entry of `more` and is now open
        simp only [List.nil_append] at hnx
        have hw3 : st3.writeInChunk = nx.compLen := hopen3.2.1
        simp only [payloadOf, List.append_nil, hlen, Nat.lt_irrefl, and_false, ↓reduceIte]
        refine ⟨trivial, ?_, ?_, ?_, by rw [h3v]; exact h2l, ?_⟩
        · intro r hr
          simp only [List.mem_singleton] at hr
          subst hr; rw [h3v]; exact hk1
        · intro k hk; rw [h3v]; exact hmono k hk
        · intro k hk; rw [h3v]; exact hoth k (hk rc List.mem_cons_self)
        · intro m ms hm
          rw [hm] at hnx
          simp only [List.cons.injEq] at hnx
          rw [hnx.1]
          simpa using hopen3
      | cons rc' rest' =>
        simp only [List.cons_append, List.cons.injEq] at hnx
        obtain ⟨rfl, htail⟩ := hnx
        have hpl : (payloadOf stored (rc :: rc' :: rest')).length = rc.compLen + (payloadOf stored (rc' :: rest')).length := by
          simp only [payloadOf, List.length_append, hlen]
        have hpl' : 0 < (payloadOf stored (rc' :: rest')).length := by
          simp only [payloadOf, List.length_append, hlen']; omega
        rw [if_pos ⟨by rw [hopen3.2.1]; exact hpos', by omega⟩]
        have hdropx : (payloadOf stored (rc :: rc' :: rest')).drop rc.compLen = payloadOf stored (rc' :: rest') := by
          show (stored rc.tgt ++ payloadOf stored (rc' :: rest')).drop rc.compLen = _
          exact List.drop_left' hlen
        rw [hdropx]
        have hrun' : RunIdx rc'.start (rc' :: rest' ++ more) := by
          rw [List.cons_append, htail, hst']; exact hrun0
        have ih := complete_piece e stored rest' (pre ++ [rc]) more rc' st3 F (by rw [hridx]; simp) hrun'
          (by
            intro r hr
            have := hent r (by simp only [List.cons_append, List.mem_cons] at hr ⊢; right; exact hr)
            exact ⟨this.1, by rw [h3v, h2l]; exact this.2⟩)
          (by
            intro r hr
            rw [h3v]
            have hner : rc.tgt ≠ r.tgt := by
              intro heq
              have := List.nodup_cons.mp hnd
              apply this.1
              simp only [List.mem_map]
              exact ⟨r, List.mem_cons_of_mem _ hr, heq.symm⟩
            rw [hoth _ hner]
            exact hnv r (by simp only [List.cons_append, List.mem_cons]; right; exact hr))
          (by have := (List.nodup_cons.mp hnd).2; simpa using this)
          (by
            intro r hr
            rcases List.mem_append.mp hr with h | h
            · have := hpre r h; omega
            · simp only [List.mem_singleton] at h; subst h; omega)
          hopen3 (by omega)
        obtain ⟨i1, i2, i3, i4, i5, i6⟩ := ih
        generalize dlWriteRange e F st3 (payloadOf stored (rc' :: rest')) = o at i1 i2 i3 i4 i5 i6
        unfold bump
        rw [if_neg (by omega)]
        refine ⟨by simp only; omega, ?_, ?_, ?_, by simp only; rw [i5, h3v]; exact h2l, ?_⟩
        · intro r hr
          rcases List.mem_cons.mp hr with rfl | hr'
          · exact i3 _ (by rw [h3v]; exact hk1)
          · exact i2 r hr'
        · intro k hk
          exact i3 k (by rw [h3v]; exact hmono k hk)
        · intro k hk
          simp only
          rw [i4 k (fun r hr => hk r (List.mem_cons_of_mem _ hr)), h3v]
          exact hoth k (hk rc List.mem_cons_self)
        · intro m ms hm
          have := i6 m ms hm
          simpa using this

/-- two different byte strings with the same checksum -/
def Collision (H : HashFn) (t : Nat) : Prop := ∃ x y : Bytes, x ≠ y ∧ H t x = H t y ∧ (H t x).isSome

/-- **C05 (completeness + verification, single-range path)**: under the hypotheses of `complete_single` and for a header with
non-overlapping extents (`disj_of_open`: every parsed header), after the call every requested chunk's extent lies inside the
target and holds bytes hashing to the index checksum — hence the server's bytes themselves, or a collision of the hash -/
theorem complete_single_bytes (e : Env) (hd : Disj e) (stored : Nat → Bytes) (file : Bytes) (valid : List Int) (F : Nat)
    (hne : e.ridx ≠ []) (hrun : RunIdx 0 e.ridx)
    (hent : ∀ r ∈ e.ridx, EntryOk e stored r ∧ r.tgt < valid.length ∧ valid.getD r.tgt 0 ≠ 1)
    (hnd : (e.ridx.map (·.tgt)).Nodup) (hF : 2 * (payloadOf stored e.ridx).length + 2 ≤ F) :
    let out := dlWriteRange e F { file := file, pos := 0, valid := valid } (payloadOf stored e.ridx)
    ∀ r ∈ e.ridx, ∃ tc, e.hdr.chunks[r.tgt]? = some tc ∧ ChunkOk e out.2.file tc ∧
      (((out.2.file.drop (e.dataOff + tc.start)).take tc.compLen = stored r.tgt) ∨ Collision e.H e.hdr.chunkHashType) := by
  intro out r hr
  have hc := complete_single e stored file valid F hne hrun hent hnd hF
  have hgv : GV e file valid out.2 :=
    pres_dlWriteRange e (gv_preserved e hd file valid) F _ _ (gv_init e { file := file, pos := 0, valid := valid } rfl rfl)
  obtain ⟨⟨tc, htc, hsz, hlen, hhash⟩, _, hnv⟩ := hent r hr
  have hal : Allowed e valid r.tgt := ⟨hnv, r, hr, rfl⟩
  have hok := hgv.2.ok r.tgt tc htc hal (hc.2.1 r hr)
  refine ⟨tc, htc, hok, ?_⟩
  have hpos : 0 < r.compLen := by
    have : ∀ (l : List RChunk) (s : Nat), RunIdx s l → ∀ x ∈ l, 0 < x.compLen := by
      intro l
      induction l with
      | nil => intro _ _ x hx; simp at hx
      | cons a l ih =>
        intro s hs x hx
        rcases List.mem_cons.mp hx with rfl | hx'
        · exact hs.2.1
        · exact ih _ hs.2.2 x hx'
    exact this _ _ hrun r hr
  unfold ChunkOk at hok
  rw [if_neg (by omega)] at hok
  by_cases heq : (out.2.file.drop (e.dataOff + tc.start)).take tc.compLen = stored r.tgt
  · left; exact heq
  · right
    exact ⟨_, _, heq, by rw [hok.2, hhash], by rw [hok.2]; rfl⟩

/-- TEST (non-vacuity): the hypotheses of `complete_single` hold of the toy session of C17 (request: chunks 1 and 2, the
server's bytes `[1,2,3]` and `[4,5]`) -/
example : let stored : Nat → Bytes := fun k => if k = 1 then [1, 2, 3] else [4, 5]
    C17.toyEnv.ridx ≠ [] ∧ RunIdx 0 C17.toyEnv.ridx ∧
    (∀ r ∈ C17.toyEnv.ridx, EntryOk C17.toyEnv stored r ∧ r.tgt < [1, 0, 0].length ∧ ([1, 0, 0] : List Int).getD r.tgt 0 ≠ 1) ∧
    (C17.toyEnv.ridx.map (·.tgt)).Nodup := by
  intro stored
  refine ⟨by decide, by simp [C17.toyEnv, mkRidx, RunIdx], ?_, by decide⟩
  intro r hr
  simp only [C17.toyEnv, mkRidx, List.mem_cons, List.mem_nil_iff, or_false] at hr
  rcases hr with rfl | rfl
  · exact ⟨⟨⟨1, [6], none, 3, 3, 0⟩, by decide, rfl, rfl, by decide⟩, by decide, by decide⟩
  · exact ⟨⟨⟨2, [9], none, 2, 2, 3⟩, by decide, rfl, rfl, by decide⟩, by decide, by decide⟩

end Zck.C05
